(** Property C02 - spectral differential operators.  Statements only; proofs
    are in Thm/Deriv.v.  Every theorem holds for an arbitrary field [F] (hence
    the reals), arbitrary truncation (M, L), arbitrary padded shape (R, C),
    arbitrary radius r <> 0 and - unless a table hypothesis is stated -
    arbitrary recurrence-weight tables a, b.

    Modal arrays are index functions (row i on the longitudinal axis, column l
    on the total-wavenumber axis).  The arithmetic expressions of the weights
    and eigenvalues are those of Gen/DerivExprs.v (regenerated from the source).

    Not provable here (the nodal transforms are not part of this model): the
    identities that need the sec^2 multiplication in nodal space.  They are
    derived from the two abstract hypotheses of [C02_vecid_sec2], which the
    plugin checks as table obligations on every basis vector, and evaluated as
    oracles on the implementation. *)
From Dino Require Import Base.Ops Base.Sums Base.Inst Gen.DerivExprs Gen.Legendre Model.Deriv Model.Legendre Thm.Deriv Thm.Legendre Thm.LegendrePoly.
From Coq Require Import Reals Qcanon Lra.
Local Open Scope F_scope.

Section C02.
  Context {F : Type} {o : Ops F} {Fc : FieldC o}.

  (** the translator understood every construct of the source it reads *)
  Theorem C02_gen_complete : gen_derivexprs_complete = true.
  Proof. exact gen_derivexprs_complete_ok. Qed.

  (** jax_numpy_utils.shift by -1 / +1 (zero padded) *)
  Theorem C02_shift_down n (x : nat -> F) k :
    shift1 n (-1) x k = if Nat.ltb (S k) n then x (S k) else 0.
  Proof. exact (shift1_m1 n x k). Qed.
  Theorem C02_shift_up n (x : nat -> F) k :
    (k < n)%nat -> shift1 n 1 x k = if Nat.eqb k 0 then 0 else x (k - 1)%nat.
  Proof. exact (shift1_p1 n x k). Qed.

  (** d_dlon on the (cos, sin) pair of wavenumber j; m = 0 is annihilated *)
  Theorem C02_dlon_pairs_ref R (x : arr2) j l :
    (1 <= j)%nat -> (2 * j < R)%nat ->
    dlon_ref R x (2 * j - 1)%nat l = lit j * x (2 * j)%nat l /\
    dlon_ref R x (2 * j)%nat l = - (lit j * x (2 * j - 1)%nat l) /\
    dlon_ref R x 0%nat l = 0.
  Proof. exact (dlon_pairs_ref R x j l). Qed.

  Theorem C02_dlon_pairs_fast R off (x : arr2) j l :
    (2 * j + 1 < R)%nat ->
    dlon_fast R off x (2 * j)%nat l = lit (off + j) * x (2 * j + 1)%nat l /\
    dlon_fast R off x (2 * j + 1)%nat l = - (lit (off + j) * x (2 * j)%nat l).
  Proof. exact (dlon_pairs_fast R off x j l). Qed.

  (** d_dlon o d_dlon = - m^2, every row *)
  Theorem C02_dlon_twice_ref R (x : arr2) i l :
    (R mod 2 = 1)%nat -> (i < R)%nat ->
    dlon_ref R (dlon_ref R x) i l = - (lit (dref_j i) * lit (dref_j i)) * x i l.
  Proof. exact (dlon_twice_ref R x i l). Qed.
  Theorem C02_dlon_twice_fast R off (x : arr2) i l :
    (R mod 2 = 0)%nat -> (i < R)%nat ->
    dlon_fast R off (dlon_fast R off x) i l = - (lit (dfast_j off i) * lit (dfast_j off i)) * x i l.
  Proof. exact (dlon_twice_fast R off x i l). Qed.

  (** the multiplier used by the derivative is |m| of [modal_axes] *)
  Theorem C02_dlon_index_is_wavenumber M i :
    mabs false M i = dref_j i /\ ((i < 2 * M)%nat -> mabs true M i = dfast_j 0 i).
  Proof. exact (dlon_index_is_wavenumber M i). Qed.

  (** cos_lat_d_dlat couples l to l+1 with (l+2) a[l+1] and to l-1 with -(l-1) b[l-1] *)
  Theorem C02_D1_entries L C (a b x : arr2) i l :
    (l < C)%nat ->
    D1 L C a b x i l =
    (if Nat.ltb (S l) C then (lit (laxis L (S l)) + 1) * a i (S l) * x i (S l) else 0) +
    (if Nat.eqb l 0 then 0 else - lit (laxis L (l - 1)) * b i (l - 1)%nat * x i (l - 1)%nat).
  Proof. intros Hl. rewrite D1_entries by assumption. reflexivity. Qed.

  (** D2 = D1 - 2 M_mu, arbitrary weight tables *)
  Theorem C02_D2_eq_D1_minus_2mu L C (a b x : arr2) i l :
    (l < C)%nat -> D2 L C a b x i l = D1 L C a b x i l - (1 + 1) * Mmu C a b x i l.
  Proof. exact (D2_eq_D1_minus_2mu L C a b x i l). Qed.

  (** the generated expressions under the square roots *)
  Theorem C02_weight_exprs (l m : F) :
    (lit 4 * (l * l) - lit 1 <> 0 -> a2_expr 1 l m * (lit 4 * (l * l) - lit 1) = l * l - m * m) /\
    (forall mask, b2_expr mask l m = a2_expr mask (l + lit 1) m).
  Proof. exact (weight_exprs l m). Qed.

  (** the algebraic heart: cos^2 Laplacian identity on coefficients, |m| <= l <= L-3.
      Table hypotheses: H_b_shift (Hb0, Hb1) and H_eps2 (Ha1, Ha0) at the entries used;
      Hd1, Hd0, H2l1 hold in characteristic 0 (see the instance over R below). *)
  Theorem C02_cos2_laplacian_identity L C (a b x : nat -> nat -> F) r i l mn :
    r <> 0 -> (L <= C)%nat -> (l + 2 < L)%nat -> (mn <= l)%nat ->
    b i l = a i (S l) -> ((1 <= l)%nat -> b i (l - 1)%nat = a i l) ->
    a i (S l) * a i (S l) = a2_expr 1 (lit (S l)) (lit mn) ->
    ((1 <= l)%nat -> a i l * a i l = a2_expr 1 (lit l) (lit mn)) ->
    lit 4 * (lit (S l) * lit (S l)) - lit 1 <> 0 ->
    lit 4 * (lit l * lit l) - lit 1 <> 0 ->
    (1 + 1) * lit l + 1 <> 0 ->
    D1 L C a b (D1 L C a b x) i l - lit mn * lit mn * x i l
    = laplacian L r x i l * (r * r)
      - Mmu C a b (Mmu C a b (fun i l => laplacian L r x i l * (r * r))) i l.
  Proof. exact (cos2_laplacian_identity L C a b x r i l mn). Qed.

  (** Laplacian and inverse Laplacian *)
  Theorem C02_lap_inverse L r (x : arr2) i l :
    r <> 0 -> (1 <= l < L)%nat -> lit l <> 0 -> lit l + 1 <> 0 ->
    laplacian L r (inverse_laplacian L r x) i l = x i l /\
    inverse_laplacian L r (laplacian L r x) i l = x i l.
  Proof. exact (lap_inverse L r x i l). Qed.
  Theorem C02_inverse_laplacian_zero L r (x : arr2) i l :
    (l = 0 \/ L <= l)%nat -> inverse_laplacian L r x i l = 0.
  Proof. exact (inverse_laplacian_zero L r x i l). Qed.

  (** homogeneity in the radius: -2 (laplacian), +2 (inverse), -1 (grad, div, curl) *)
  Theorem C02_radius_scaling fast L R C r k (a b x : arr2) (v : vec2) c i l :
    r <> 0 -> k <> 0 ->
    laplacian L (k * r) x i l = laplacian L r x i l / (k * k) /\
    ((1 <= l < L)%nat -> lit l <> 0 -> lit l + 1 <> 0 ->
     inverse_laplacian L (k * r) x i l = inverse_laplacian L r x i l * (k * k)) /\
    fst (cos_lat_grad fast L R C (k * r) a b c x) i l = fst (cos_lat_grad fast L R C r a b c x) i l / k /\
    snd (cos_lat_grad fast L R C (k * r) a b c x) i l = snd (cos_lat_grad fast L R C r a b c x) i l / k /\
    div_cos_lat fast L R C (k * r) a b c v i l = div_cos_lat fast L R C r a b c v i l / k /\
    curl_cos_lat fast L R C (k * r) a b c v i l = curl_cos_lat fast L R C r a b c v i l / k.
  Proof. exact (radius_scaling fast L R C r k a b x v c i l). Qed.

  (** d_dlon commutes with the latitude operators (weights of the cos and sin rows agree: H_pair_sym) *)
  Theorem C02_dlon_commutes fast L R C (a b x : arr2) i l :
    layout_ok fast R -> (i < R)%nat -> (l < C)%nat -> sym_rows fast R a -> sym_rows fast R b ->
    d_dlon fast R (D1 L C a b x) i l = D1 L C a b (d_dlon fast R x) i l /\
    d_dlon fast R (D2 L C a b x) i l = D2 L C a b (d_dlon fast R x) i l /\
    d_dlon fast R (Mmu C a b x) i l = Mmu C a b (d_dlon fast R x) i l.
  Proof. exact (dlon_commutes fast L R C a b x i l). Qed.

  (** div (k x v) = - curl v,  curl (k x v) = div v   (purely algebraic) *)
  Theorem C02_div_kcross fast L R C r (a b : arr2) c (v : vec2) i l :
    r <> 0 -> (i < R)%nat -> (l < C)%nat ->
    div_cos_lat fast L R C r a b c (k_cross v) i l = - curl_cos_lat fast L R C r a b c v i l.
  Proof. exact (div_kcross fast L R C r a b c v i l). Qed.
  Theorem C02_curl_kcross fast L R C r (a b : arr2) c (v : vec2) i l :
    r <> 0 -> (i < R)%nat -> (l < C)%nat ->
    curl_cos_lat fast L R C r a b c (k_cross v) i l = div_cos_lat fast L R C r a b c v i l.
  Proof. exact (curl_kcross fast L R C r a b c v i l). Qed.

  (** without the sec^2 factor curl(grad) is 2 M_mu d_dlon / r^2 and
      div(grad) is (d_dlon^2 + D1 D1 - 2 M_mu D1)/r^2 *)
  Theorem C02_curl_grad_spectral fast L R C r (a b x : arr2) i l :
    r <> 0 -> layout_ok fast R -> (i < R)%nat -> (l < C)%nat -> sym_rows fast R a -> sym_rows fast R b ->
    curl_cos_lat fast L R C r a b false (cos_lat_grad fast L R C r a b false x) i l
    = (1 + 1) * Mmu C a b (d_dlon fast R x) i l / (r * r).
  Proof. exact (curl_grad_spectral fast L R C r a b x i l). Qed.
  Theorem C02_div_grad_spectral fast L R C r (a b x : arr2) i l :
    r <> 0 -> (i < R)%nat -> (l < C)%nat ->
    div_cos_lat fast L R C r a b false (cos_lat_grad fast L R C r a b false x) i l
    = (d_dlon fast R (d_dlon fast R x) i l + D1 L C a b (D1 L C a b x) i l
       - (1 + 1) * Mmu C a b (D1 L C a b x) i l) / (r * r).
  Proof. exact (div_grad_spectral fast L R C r a b x i l). Qed.

  (** curl grad = 0, div (k x grad) = 0, div grad = Laplacian through the nodal sec^2 step [S],
      from the two hypotheses H_sec2 (table obligations; [S] itself is not modelled) *)
  Theorem C02_vecid_sec2 fast L R C r (a b : arr2) (S : arr2 -> arr2) (psi : arr2) i l :
    r <> 0 -> (i < R)%nat -> (l < C)%nat ->
    let g := cos_lat_grad fast L R C r a b true psi in
    let sg := (S (fst g), S (snd g)) in
    d_dlon fast R (S (snd g)) i l = D2 L C a b (S (fst g)) i l ->
    d_dlon fast R (S (fst g)) i l + D2 L C a b (S (snd g)) i l = r * laplacian L r psi i l ->
    curl_cos_lat fast L R C r a b true sg i l = 0 /\
    div_cos_lat fast L R C r a b true (k_cross sg) i l = 0 /\
    div_cos_lat fast L R C r a b true sg i l = clip L C 1 (laplacian L r psi) i l.
  Proof. exact (vecid_sec2 fast L R C r a b S psi i l). Qed.

  (** which coefficient the default clip removes: for a field of degree L-2 the coefficient L-1 of
      cos(lat) d/dlat is -(L-2) b[L-2] x[L-2] / r (correct and in general non-zero) but
      cos_lat_grad(clip=True) returns 0 there; all lower coefficients are untouched.  This is why
      identities through the default-clip path need the top TWO wavenumbers of the input to vanish. *)
  Theorem C02_grad_top_clipped fast L R C r (a b x : arr2) i :
    r <> 0 -> (2 <= L <= C)%nat -> ((L < C)%nat -> x i L = 0) ->
    snd (cos_lat_grad fast L R C r a b true x) i (L - 1)%nat = 0 /\
    snd (cos_lat_grad fast L R C r a b false x) i (L - 1)%nat
    = - lit (L - 2) * b i (L - 2)%nat * x i (L - 2)%nat / r /\
    (forall l, (l + 1 < L)%nat ->
       snd (cos_lat_grad fast L R C r a b true x) i l = snd (cos_lat_grad fast L R C r a b false x) i l).
  Proof. exact (grad_top_clipped fast L R C r a b x i). Qed.
End C02.

(** Over the reals the characteristic-0 side conditions hold. *)
Lemma lit_INR n : @lit R ROps n = INR n.
Proof. induction n as [|n IH]; [reflexivity|]. cbn [lit]. rewrite IH, S_INR. reflexivity. Qed.

Theorem C02_cos2_laplacian_identity_R L C (a b x : nat -> nat -> R) r i l mn :
  r <> 0%R -> (L <= C)%nat -> (l + 2 < L)%nat -> (mn <= l)%nat ->
  b i l = a i (S l) -> ((1 <= l)%nat -> b i (l - 1)%nat = a i l) ->
  (a i (S l) * a i (S l))%R = a2_expr 1 (lit (S l)) (lit mn) ->
  ((1 <= l)%nat -> (a i l * a i l)%R = a2_expr 1 (lit l) (lit mn)) ->
  (D1 L C a b (D1 L C a b x) i l - INR mn * INR mn * x i l)%R
  = (laplacian L r x i l * (r * r)
     - Mmu C a b (Mmu C a b (fun i l => laplacian L r x i l * (r * r))) i l)%R.
Proof.
  intros Hr HLC Hl Hm Hb0 Hb1 Ha1 Ha0.
  rewrite <- (lit_INR mn).
  refine (@cos2_laplacian_identity R ROps RFieldC L C a b x r i l mn Hr HLC Hl Hm Hb0 Hb1 Ha1 Ha0 _ _ _).
  - cbn [lit]. rewrite !lit_INR. pose proof (pos_INR l) as P. cbn [fadd fmul fsub f0 f1 ROps]. nra.
  - cbn [lit]. rewrite !lit_INR. cbn [fadd fmul fsub f0 f1 ROps].
    destruct l as [|l']; [cbn; lra|]. rewrite S_INR. pose proof (pos_INR l'). nra.
  - rewrite !lit_INR. pose proof (pos_INR l). cbn [fadd fmul fsub f0 f1 ROps]. lra.
Qed.

(** Non-vacuity (Qc): radius 7/3, l = 2 < L = 5 meets the hypotheses of [C02_lap_inverse]; a weight
    table depending on |m| only meets [sym_rows] in both layouts; the shapes meet [layout_ok]. *)
Example C02_hyps_satisfiable :
  let r : Qc := Q2Qc (7 # 3) in
  let w : nat -> nat -> Qc := fun i l => Q2Qc (inject_Z (Z.of_nat (l + 1))) in
  r <> 0 /\ @lit Qc QcOps 2 <> 0 /\ @lit Qc QcOps 2 + 1 <> 0 /\
  layout_ok false 7 /\ layout_ok true 8 /\ sym_rows false 7 w /\ sym_rows true 8 w /\
  laplacian 5 r (inverse_laplacian 5 r w) 3%nat 2%nat = w 3%nat 2%nat.
Proof.
  cbv zeta. split; [|split; [|split; [|split; [|split; [|split; [|split]]]]]].
  - intro H; discriminate H.
  - intro H; vm_compute in H; discriminate H.
  - intro H; vm_compute in H; discriminate H.
  - reflexivity.
  - reflexivity.
  - intros i l _ _. reflexivity.
  - intros i l _ _. reflexivity.
  - apply Qc_is_canon. vm_compute. reflexivity.
Qed.

(** Non-vacuity (R): square-root tables meet H_eps2 / H_b_shift of the cos^2 identity at
    L = C = 5, l = 1, m = 1, and the identity's conclusion follows for every x. *)
Example C02_cos2_hyps_satisfiable_R :
  exists a b : nat -> nat -> R,
    (b 0 1 = a 0 2)%nat /\ (b 0 0 = a 0 1)%nat /\
    (a 0%nat 2%nat * a 0%nat 2%nat)%R = a2_expr 1 (lit 2) (lit 1) /\
    (a 0%nat 1%nat * a 0%nat 1%nat)%R = a2_expr 1 (lit 1) (lit 1) /\
    a 0%nat 2%nat <> 0%R /\
    forall x : nat -> nat -> R,
      (D1 5 5 a b (D1 5 5 a b x) 0%nat 1%nat - INR 1 * INR 1 * x 0%nat 1%nat)%R
      = (laplacian 5 1%R x 0%nat 1%nat * (1 * 1)
         - Mmu 5 a b (Mmu 5 a b (fun i l => laplacian 5 1%R x i l * (1 * 1))) 0%nat 1%nat)%R.
Proof.
  set (a := fun (i l : nat) => sqrt (@a2_expr R ROps 1 (lit l) (lit 1))).
  exists a, (fun i l => a i (S l)).
  assert (E2 : @a2_expr R ROps (@f1 R ROps) (lit 2) (lit 1) = (1 / 5)%R) by (unfold a2_expr; cbn; field).
  assert (E1 : @a2_expr R ROps (@f1 R ROps) (lit 1) (lit 1) = 0%R) by (unfold a2_expr; cbn; field).
  assert (P2 : (0 < @a2_expr R ROps (@f1 R ROps) (lit 2) (lit 1))%R) by (rewrite E2; lra).
  assert (P1 : (0 <= @a2_expr R ROps (@f1 R ROps) (lit 1) (lit 1))%R) by (rewrite E1; lra).
  assert (A2 : (a 0%nat 2%nat * a 0%nat 2%nat)%R = a2_expr 1 (lit 2) (lit 1)).
  { unfold a. apply sqrt_sqrt. lra. }
  assert (A1 : (a 0%nat 1%nat * a 0%nat 1%nat)%R = a2_expr 1 (lit 1) (lit 1)).
  { unfold a. apply sqrt_sqrt. exact P1. }
  repeat split; try reflexivity; try assumption.
  - unfold a. intro H. apply sqrt_eq_0 in H; lra.
  - intros x. apply (C02_cos2_laplacian_identity_R 5 5 a (fun i l => a i (S l)) x 1%R 0 1 1); try lia; try assumption.
    + lra.
    + reflexivity.
    + intros _. reflexivity.
    + intros _. exact A1.
Qed.

(** *** the analytic-derivative relation of the Legendre basis functions, from the recurrence of
    associated_legendre.py (Thm/LegendrePoly.v, section DerivRel).
    Full statement aimed at (C02_legendre_derivative_relation): for the coefficient lists
    q_{m,l} = leg_q sq m l of the code's recurrence and their formal derivative,
      (1 - x^2) q_{m,l}' - m x q_{m,l} = (l+1) eps(m,l) q_{m,l-1} - l eps(m,l+1) q_{m,l+1},
    the relation that Grid.cos_lat_d_dlat implements with the weights d1_wm = (l+1) a, d1_wp = -l b.
    PROVED here (abstract form): the relation for ANY value sequences Q k, dQ k that satisfy the normalised
    three-term recurrence and its formal derivative (product rule), for every field, every order m
    (field value M), every point t and every degree l = m + k; together with the identity
    1 + (2l-1) eps_l^2 = (2l+3) eps_{l+1}^2 of the closed form a2_expr (Gen/DerivExprs.v) it uses.
    The instantiation with the code's coefficient lists is C02_legendre_derivative_relation below; a Qc
    instance of these hypotheses (M = 1/2 makes eps = 1/2 rational) is C02_legendre_derivative_nonvacuous. *)
Theorem C02_legendre_derivative_relation_abstract {F : Type} {o : Ops F} {Fc : FieldC o}
  (t M : F) (Q dQ e Lf : nat -> F) :
  Lf 0%nat = M -> (forall k, Lf (S k) = Lf k + 1) ->
  e 0%nat = 0 -> (forall k, e (S k) <> 0) ->
  e 1%nat * Q 1%nat = t * Q 0%nat ->
  (forall k, e (S (S k)) * Q (S (S k)) = t * Q (S k) - e (S k) * Q k) ->
  dQ 0%nat = 0 ->
  e 1%nat * dQ 1%nat = Q 0%nat + t * dQ 0%nat ->
  (forall k, e (S (S k)) * dQ (S (S k)) = Q (S k) + t * dQ (S k) - e (S k) * dQ k) ->
  (forall k, 1 + ((1 + 1) * Lf k - 1) * (e k * e k) = ((1 + 1) * Lf k + 1 + 1 + 1) * (e (S k) * e (S k))) ->
  (forall k, (1 - t * t) * dQ k - M * t * Q k
             = (Lf k + 1) * (e k * (match k with O => 0 | S k' => Q k' end)) - Lf k * (e (S k) * Q (S k)))
  /\ (forall l m : F, lit 4 * (l * l) - 1 <> 0 -> lit 4 * ((l + 1) * (l + 1)) - 1 <> 0 ->
        1 + ((1 + 1) * l - 1) * a2_expr 1 l m = ((1 + 1) * l + 1 + 1 + 1) * a2_expr 1 (l + 1) m).
Proof.
  intros H1 H2 H3 H4 H5 H6 H7 H8 H9 H10. split.
  - intros k. exact (deriv_relation_abstract t M Q dQ e Lf H1 H2 H3 H4 H5 H6 H7 H8 H9 H10 k).
  - exact eps2_key.
Qed.

(** the FULL statement, for the recurrence of associated_legendre.py: Q k, dQ k are the coefficient
    lists leg_q sq m (m+k) (built by the generated leg_step) and their formal derivative (Leibniz rule
    proved in Thm/LegendrePoly.v).  With P[m,i,l] = evaluate(n_m, n_l, x)[m,i,l] = y_i^m q_{m,l}(x_i),
    the quantity y_i^m ((1 - x^2) q' - m x q)(x_i) = value at node i of (1 - x^2) d/dx (y^m q) (when
    y^2 = 1 - x^2) is the d1_wm / d1_wp weighted combination of the neighbouring table entries with
    a = eps(m,l), b = eps(m,l+1): exactly what Grid.cos_lat_d_dlat applies (transposed) to spectra.
    Hypotheses on sq = np.sqrt: squares to the b-radicands; 0 on the zero radicand; a_k b_{k+1} = 1
    (the radicands are reciprocal: C01_legendre_radicands); 4 l^2 - 1 <> 0 in F. *)
Theorem C02_legendre_derivative_relation {F : Type} {o : Ops F} {Fc : FieldC o}
  (sq : F -> F) nx (x y : nat -> F) n_m n_l m i k :
  (forall j, leg_eb sq m (S j) * leg_eb sq m (S j) = rad_b (llit m) (llit (S j))) ->
  leg_eb sq m 1 = 0 ->
  (forall j, leg_ea sq m (S j) * leg_eb sq m (S (S j)) = 1) ->
  (forall j, lit 4 * (llit (m + j)%nat * llit (m + j)%nat) - 1 <> 0) ->
  (n_m <= n_l)%nat -> (i < nx)%nat -> (m < n_m)%nat -> (m + k + 1 < n_l)%nat ->
  lpow (y i) m * peval (leg_Dm m (leg_q sq m (m + k)%nat)) (x i)
  = d1_wm (lit (m + k)%nat) (leg_eps sq m (m + k)%nat)
      * (match k with O => 0 | S k' => legendre_evaluate sq nx x y n_m n_l m i (m + k')%nat end)
    + d1_wp (lit (m + k)%nat) (leg_eps sq m (m + k + 1)%nat) * legendre_evaluate sq nx x y n_m n_l m i (m + k + 1)%nat.
Proof. exact (legendre_derivative_relation sq nx x y n_m n_l m i k). Qed.

(** what leg_Dm evaluates to, and the squares of the eps used are the a/b tables' closed forms *)
Theorem C02_legendre_derivative_meaning {F : Type} {o : Ops F} {Fc : FieldC o} (sq : F -> F) (m : nat) (q : list F) (t : F) :
  peval (leg_Dm m q) t = (1 - t * t) * peval (pderiv q) t - llit m * t * peval q t /\
  (forall p r : list F, peval (pderiv (pmul p r)) t = peval (pderiv p) t * peval r t + peval p t * peval (pderiv r) t) /\
  (forall k, leg_eb sq m (S k) * leg_eb sq m (S k) = rad_b (llit m) (llit (S k)) ->
             leg_eps sq m (m + k)%nat * leg_eps sq m (m + k)%nat = a2_expr 1 (llit (m + k)%nat) (llit m)).
Proof.
  split; [exact (peval_leg_Dm m t q)|]. split; [intros; apply pderiv_pmul|].
  intros k H. rewrite leg_eps_mk, H, rad_b_eps2, (llit_mk m k). reflexivity.
Qed.

(** non-vacuity of the hypotheses of the abstract relation: in any field with 1 + 1 <> 0 (then over
    Qc), M = 1/2 gives eps(M, M+k) = 1/2 for k >= 1; Q, dQ generated by the recurrences from Q_0 = 1 *)
Definition deriv_hyps {F : Type} {o : Ops F} (t M : F) (Q dQ e Lf : nat -> F) : Prop :=
  Lf 0%nat = M /\ (forall k, Lf (S k) = Lf k + 1) /\ e 0%nat = 0 /\ (forall k, e (S k) <> 0) /\
  e 1%nat * Q 1%nat = t * Q 0%nat /\
  (forall k, e (S (S k)) * Q (S (S k)) = t * Q (S k) - e (S k) * Q k) /\
  dQ 0%nat = 0 /\
  e 1%nat * dQ 1%nat = Q 0%nat + t * dQ 0%nat /\
  (forall k, e (S (S k)) * dQ (S (S k)) = Q (S k) + t * dQ (S k) - e (S k) * dQ k) /\
  (forall k, 1 + ((1 + 1) * Lf k - 1) * (e k * e k) = ((1 + 1) * Lf k + 1 + 1 + 1) * (e (S k) * e (S k))).

Section C02_deriv_example.
  Context {F : Type} {o : Ops F} {Fc : FieldC o}.
  Add Field FFex : (field_c : FieldTh o).
  Hypothesis H2 : (1 + 1 : F) <> 0.
  Definition exh : F := 1 / (1 + 1).
  Definition exE (k : nat) : F := match k with O => 0 | S _ => exh end.
  Definition exL (k : nat) : F := exh + llit k.
  Fixpoint exQ (t : F) (k : nat) : (F * F) * (F * F) :=
    match k with
    | O => ((1, (1 + 1) * t), (0, 1 + 1))
    | S k' => let s := exQ t k' in
              ((snd (fst s), (1 + 1) * (t * snd (fst s) - exE (S k') * fst (fst s))),
               (snd (snd s), (1 + 1) * (snd (fst s) + t * snd (snd s) - exE (S k') * fst (snd s))))
    end.
  Definition exQ0 t k : F := fst (fst (exQ t k)).
  Definition exD0 t k : F := fst (snd (exQ t k)).

  Lemma exh_nz : exh <> 0.
  Proof.
    intro E. apply (F_1_neq_0 (field_c : FieldTh o)).
    transitivity ((1 + 1) * exh); [unfold exh; field; exact H2|]. rewrite E. ring.
  Qed.

  Lemma C02_deriv_example_hyps t : deriv_hyps t exh (exQ0 t) (exD0 t) exE exL.
  Proof.
    unfold deriv_hyps.
    split. { unfold exL. cbn [llit]. ring. }
    split. { intros k. unfold exL. cbn [llit]. ring. }
    split. { reflexivity. }
    split. { intros k. exact exh_nz. }
    split. { unfold exQ0. cbn [exQ exE fst snd]. unfold exh. field. exact H2. }
    split. { intros k. unfold exQ0. cbn [exQ exE fst snd]. generalize (exQ t k). intros s. unfold exh. field. exact H2. }
    split. { reflexivity. }
    split. { unfold exQ0, exD0. cbn [exQ exE fst snd]. unfold exh. field. exact H2. }
    split. { intros k. unfold exQ0, exD0. cbn [exQ exE fst snd]. generalize (exQ t k). intros s. unfold exh. field. exact H2. }
    intros [|k]; unfold exL; cbn [exE llit]; unfold exh; field; exact H2.
  Qed.
End C02_deriv_example.

Example C02_legendre_derivative_nonvacuous :
  let t : Qc := Q2Qc (1#3) in
  deriv_hyps (o := QcOps) t exh (exQ0 t) (exD0 t) exE exL /\
  (* the sequences are not trivial, and the conclusion holds on them: Q_2(1/3) = 4/9 - 1, dQ_2(1/3) = 8/3 *)
  exQ0 t 2%nat = Q2Qc (-5#9) /\ exD0 t 2%nat = Q2Qc (8#3) /\
  (1 - t * t) * exD0 t 2%nat - exh * t * exQ0 t 2%nat
  = (exL 2%nat + 1) * (exE 2%nat * exQ0 t 1%nat) - exL 2%nat * (exE 3%nat * exQ0 t 3%nat).
Proof.
  intros t. split.
  { apply (C02_deriv_example_hyps (o := QcOps)). intro H. discriminate H. }
  split. { apply Qc_is_canon; vm_compute; reflexivity. }
  split. { apply Qc_is_canon; vm_compute; reflexivity. }
  apply Qc_is_canon; vm_compute; reflexivity.
Qed.

Print Assumptions C02_gen_complete.
Print Assumptions C02_shift_down.
Print Assumptions C02_shift_up.
Print Assumptions C02_dlon_pairs_ref.
Print Assumptions C02_dlon_pairs_fast.
Print Assumptions C02_dlon_twice_ref.
Print Assumptions C02_dlon_twice_fast.
Print Assumptions C02_dlon_index_is_wavenumber.
Print Assumptions C02_D1_entries.
Print Assumptions C02_D2_eq_D1_minus_2mu.
Print Assumptions C02_weight_exprs.
Print Assumptions C02_cos2_laplacian_identity.
Print Assumptions C02_cos2_laplacian_identity_R.
Print Assumptions C02_lap_inverse.
Print Assumptions C02_inverse_laplacian_zero.
Print Assumptions C02_radius_scaling.
Print Assumptions C02_dlon_commutes.
Print Assumptions C02_div_kcross.
Print Assumptions C02_curl_kcross.
Print Assumptions C02_curl_grad_spectral.
Print Assumptions C02_div_grad_spectral.
Print Assumptions C02_vecid_sec2.
Print Assumptions C02_grad_top_clipped.
Print Assumptions C02_hyps_satisfiable.
Print Assumptions C02_cos2_hyps_satisfiable_R.
Print Assumptions C02_legendre_derivative_relation_abstract.
Print Assumptions C02_legendre_derivative_relation.
Print Assumptions C02_legendre_derivative_meaning.
Print Assumptions C02_legendre_derivative_nonvacuous.
