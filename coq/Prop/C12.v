(** Property C12 - physical results do not depend on the non-dimensionalisation
    scale.  Statements only; proofs are in Thm/Scaling.v.  Every theorem is for
    an arbitrary field [F] (hence the reals), arbitrary scales with non-zero
    entries and arbitrary sizes.

    What the algebra cannot see - a hard-coded constant that bypasses the scale
    is a property of the call graph - is decided on the implementation by the
    plugin (same SI problem under several scales; AST scan of call sites). *)
From Dino Require Import Base.Ops Base.Sums Base.Inst Base.Ord Model.Sigma Model.Implicit Model.PrimEq Model.Forcings
  Model.Integrators Model.Dual Thm.Dual Thm.Implicit Model.Scaling Thm.Scaling Thm.ScalingColumn.
From Coq Require Import Qcanon Reals.
Local Open Scope F_scope.

Section C12.
  Context {F : Type} {o : Ops F} {Fc : FieldC o}.

  (** dimension algebra: [factor s] is a group homomorphism from (Z^4, +) to
      the non-zero elements of F under multiplication *)
  Theorem C12_factor_homomorphism (s : scale) (d1 d2 : dim) :
    scale_nz s ->
    factor s (dadd d1 d2) = factor s d1 * factor s d2 /\ factor s dzero = 1 /\
    factor s (dopp d1) = 1 / factor s d1 /\ factor s d1 <> 0 /\
    (forall x, redim s d1 (nondim s d1 x) = x).
  Proof.
    intros Hs. repeat split.
    - exact (factor_add s d1 d2 Hs).
    - exact (factor_zero s).
    - exact (factor_opp s d1 Hs).
    - exact (factor_nonzero s d1 Hs).
    - intros x. exact (redim_nondim s d1 x Hs).
  Qed.

  (** every dimensionally well-typed computation built from field operations is
      scale-covariant *)
  Theorem C12_welldim_homogeneous (dv : nat -> dim) (s : scale) (x : nat -> F) (e : expr F) (d : dim) :
    scale_nz s -> denoms_nz x e -> dim_of dv e = Some d ->
    eval (rescale s dv x) e = factor s d * eval x e.
  Proof. exact (welldim_homogeneous dv s x e d). Qed.

  (** the property's statement for such computations: same physical inputs,
      two scales, results converted back are equal (and equal the base-unit result) *)
  Theorem C12_scale_independence (dv : nat -> dim) (s1 s2 : scale) (X : nat -> F) (e : expr F) (d : dim) :
    scale_nz s1 -> scale_nz s2 -> denoms_nz X e -> dim_of dv e = Some d ->
    redim s1 d (eval (nondim_env s1 dv X) e) = redim s2 d (eval (nondim_env s2 dv X) e)
    /\ redim s1 d (eval (nondim_env s1 dv X) e) = eval X e.
  Proof. exact (scale_independence dv s1 s2 X e d). Qed.

  (** the sigma-column operators, with dimension bookkeeping: sigma is
      dimensionless; integrals and differences keep the dimension [d]; vertical
      advection multiplies the dimensions of velocity and advected quantity;
      the hydrostatic integral maps R (L^2 T^-2 Theta^-1) and T (Theta) to a
      geopotential (L^2 T^-2) *)
  Theorem C12_columns_homogeneous (s : scale) (d dw dx : dim) dot down K (b x w ls : nat -> F) wt wb dt db R j :
    scale_nz s ->
    cum_sigma_integral dot down K b (scol (factor s d) x) j = factor s d * cum_sigma_integral dot down K b x j /\
    sigma_integral K b (scol (factor s d) x) = factor s d * sigma_integral K b x /\
    centered_difference b (scol (factor s d) x) j = factor s d * centered_difference b x j /\
    centered_vertical_advection K b (scol (factor s dw) w) (scol (factor s dx) x)
        (factor s dw * wt) (factor s dw * wb) (factor s dx * dt) (factor s dx * db) j
      = factor s (dadd dw dx) * centered_vertical_advection K b w x wt wb dt db j /\
    geo_diff_dense K (factor s d_gas * R) ls (scol (factor s d_temp) x) j
      = factor s d_geopot * geo_diff_dense K R ls x j /\
    ((j < K)%nat -> geo_diff_sparse K (factor s d_gas * R) ls (scol (factor s d_temp) x) j
      = factor s d_geopot * geo_diff_sparse K R ls x j).
  Proof.
    intros Hs.
    assert (G : factor s d_geopot = factor s d_gas * factor s d_temp).
    { rewrite <- factor_add by exact Hs. reflexivity. }
    repeat split.
    - apply cum_sigma_integral_homogeneous.
    - apply sigma_integral_homogeneous.
    - apply centered_difference_homogeneous.
    - rewrite factor_add by exact Hs. apply centered_vertical_advection_bilinear.
    - rewrite G. apply geo_diff_dense_homogeneous.
    - intros Hj. rewrite G. now apply geo_diff_sparse_homogeneous.
  Qed.

  (** nodal terms of the primitive equations: velocity L T^-1, vorticity /
      divergence / Coriolis T^-1, temperature Theta, grad(ln ps) L^-1, R
      L^2 T^-2 Theta^-1, kappa / sigma / sec^2(lat) dimensionless.  The adiabatic
      temperature term comes out in Theta T^-1, d(ln ps)/dt in T^-1 and both
      components of the momentum-equation term in L T^-2. *)
  Theorem C12_nodal_terms_homogeneous (s : scale) (c : PEcfg) (x : NCol) va n :
    scale_nz s ->
    let x' := scale_ncol (factor s d_vel) (factor s d_rate) (factor s d_temp) (factor s d_invlen) x in
    let c' := scale_cfg (factor s d_temp) (factor s d_gas) c in
    temp_adiabatic c' x' n = factor s d_temp_rate * temp_adiabatic c x n /\
    log_pressure_tendency c' x' = factor s d_rate * log_pressure_tendency c x /\
    combined_u c' va x' (rt_dry c' x') n = factor s d_accel * combined_u c va x (rt_dry c x) n /\
    combined_v c' va x' (rt_dry c' x') n = factor s d_accel * combined_v c va x (rt_dry c x) n.
  Proof.
    intros Hs x' c'.
    assert (H1 : factor s d_vel * factor s d_invlen = factor s d_rate).
    { rewrite <- factor_add by exact Hs. reflexivity. }
    assert (H2 : factor s d_gas * factor s d_temp * factor s d_invlen = factor s d_vel * factor s d_rate).
    { rewrite <- !factor_add by exact Hs. reflexivity. }
    assert (H3 : factor s d_temp_rate = factor s d_temp * factor s d_rate).
    { rewrite <- factor_add by exact Hs. reflexivity. }
    assert (H4 : factor s d_accel = factor s d_vel * factor s d_rate).
    { rewrite <- factor_add by exact Hs. reflexivity. }
    split; [|split].
    - rewrite H3. exact (temp_adiabatic_homogeneous _ _ _ _ _ H1 c x n).
    - exact (log_pressure_tendency_homogeneous _ _ _ _ _ H1 c x).
    - rewrite H4. exact (combined_uv_homogeneous _ _ _ _ _ H1 H2 c va x n).
  Qed.

  (** the remaining nodal terms: the vertical-advection part of the temperature
      equation (its branch on a non-uniform T_ref is scale-invariant because the
      temperature factor is non-zero), the complete nodal right-hand sides of
      temperature and tracers, and the moist / cloud classes (R_vapor and
      Cp_vapor scale like R; q, cloud water and ice are dimensionless) *)
  Theorem C12_moist_and_vertical_terms_homogeneous (s : scale) (c : PEcfg) (m : Moist) (x : NCol)
      (q qc qi gqx gqy : nat -> F) lap va sparse n :
    scale_nz s -> (forall a b : F, feqb a b = true <-> a = b) -> cR c <> 0 -> ckappa c <> 0 -> (n < cK c)%nat ->
    let kg := factor s d_invlen in let kT := factor s d_temp in let kr := factor s d_rate in
    let x' := scale_ncol (factor s d_vel) kr kT kg x in
    let c' := scale_cfg kT (factor s d_gas) c in
    let m' := scale_moist (factor s d_gas) m in
    tref_nonuniform c' = tref_nonuniform c /\
    temp_vertical_tendency c' va x' n = factor s d_temp_rate * temp_vertical_tendency c va x n /\
    temp_nodal_total c' va x' n = factor s d_temp_rate * temp_nodal_total c va x n /\
    tracer_nodal_total c' va x' q n = kr * tracer_nodal_total c va x q n /\
    temp_adiabatic_moist c' m' x' q n = factor s d_temp_rate * temp_adiabatic_moist c m x q n /\
    temp_nodal_total_moist c' va m' x' q n = factor s d_temp_rate * temp_nodal_total_moist c va m x q n /\
    combined_u c' va x' (rt_moist c' m' x' q) n = factor s d_accel * combined_u c va x (rt_moist c m x q) n /\
    combined_v c' va x' (rt_moist c' m' x' q) n = factor s d_accel * combined_v c va x (rt_moist c m x q) n /\
    combined_u c' va x' (rt_cloud c' m' x' q qc qi) n = factor s d_accel * combined_u c va x (rt_cloud c m x q qc qi) n /\
    combined_v c' va x' (rt_cloud c' m' x' q qc qi) n = factor s d_accel * combined_v c va x (rt_cloud c m x q qc qi) n /\
    humidity_div_nodal c' m' x' q (scol kg gqx) (scol kg gqy) (kg * kg * lap) n
      = factor s d_rate2 * humidity_div_nodal c m x q gqx gqy lap n /\
    humidity_curl_nodal c' m' x' (scol kg gqx) (scol kg gqy) n = factor s d_rate2 * humidity_curl_nodal c m x gqx gqy n /\
    humidity_geo_nodal c' sparse m' x' q n = factor s d_geopot * humidity_geo_nodal c sparse m x q n.
  Proof.
    intros Hs Hfe HR Hkap Hn kg kT kr x' c' m'.
    assert (H1 : factor s d_vel * kg = kr) by (unfold kg, kr; rewrite <- factor_add by exact Hs; reflexivity).
    assert (H2 : factor s d_gas * kT * kg = factor s d_vel * kr)
      by (unfold kg, kr, kT; rewrite <- !factor_add by exact Hs; reflexivity).
    assert (H3 : factor s d_temp_rate = kT * kr) by (unfold kr, kT; rewrite <- factor_add by exact Hs; reflexivity).
    assert (H4 : factor s d_accel = factor s d_vel * kr) by (unfold kr; rewrite <- factor_add by exact Hs; reflexivity).
    assert (H5 : factor s d_rate2 = kT * factor s d_gas * (kg * kg))
      by (unfold kg, kT; rewrite <- !factor_add by exact Hs; reflexivity).
    assert (H6 : factor s d_geopot = factor s d_gas * kT) by (unfold kT; rewrite <- factor_add by exact Hs; reflexivity).
    assert (NT : kT <> 0) by (now apply factor_nonzero).
    assert (NR : factor s d_gas <> 0) by (now apply factor_nonzero).
    pose proof (combined_uv_moist_homogeneous _ _ _ _ _ H1 H2 c NR HR m va x q qc qi n) as [[M1 M2] [M3 M4]].
    pose proof (humidity_terms_homogeneous (factor s d_vel) kr kT kg _ c NR HR m sparse x q gqx gqy lap n Hn) as (U1 & U2 & U3).
    rewrite H3, H4, H5, H6.
    repeat split; try assumption.
    - exact (tref_nonuniform_scale_invariant _ _ _ _ _ H1 H2 c Hfe NT).
    - exact (temp_vertical_tendency_homogeneous _ _ _ _ _ H1 H2 c Hfe NT va x n).
    - exact (temp_nodal_total_homogeneous _ _ _ _ _ H1 H2 c Hfe NT va x n).
    - exact (tracer_nodal_total_dimensionless (factor s d_vel) kr kT kg (factor s d_gas) H1 c va x q n).
    - exact (temp_adiabatic_moist_homogeneous _ _ _ _ _ H1 c NR HR m x q n Hkap).
    - exact (temp_nodal_total_moist_homogeneous _ _ _ _ _ H1 H2 c Hfe NT NR HR m va x q n Hkap).
  Qed.
End C12.

(** time stepping: if the equations under the second scale are the rescaled
    equations ([Fx' (S u) = (1/tau) L (Fx u)], same for [G], and the resolvent
    with the rescaled step), every integrator of time_integration.py commutes
    with the change of scale [S u = L u + c0], [dt' = tau dt] *)
Section C12_steps.
  Context {F : Type} {o : Ops F} {Fc : FieldC o} {V : Type} {vo : VOps F V}.
  Hypothesis vadd_assoc : forall u v w : V, vadd u (vadd v w) = vadd (vadd u v) w.
  Hypothesis vadd_comm : forall u v : V, vadd u v = vadd v u.
  Hypothesis vscal_add : forall (a : F) (u v : V), vscal a (vadd u v) = vadd (vscal a u) (vscal a v).
  Hypothesis vscal_mul : forall (a b : F) (u : V), vscal a (vscal b u) = vscal (a * b) u.
  Hypothesis vscal_zero : forall a : F, vscal a vzero = (vzero : V).
  Variables (L : V -> V) (c0 : V) (tau : F).
  Hypothesis L_add : forall u v, L (vadd u v) = vadd (L u) (L v).
  Hypothesis L_scal : forall a u, L (vscal a u) = vscal a (L u).
  Hypothesis L_zero : L vzero = vzero.
  Hypothesis tau_nz : tau <> 0.
  Variables (Fx G : V -> V) (Ginv : V -> F -> V) (Fx' G' : V -> V) (Ginv' : V -> F -> V).
  Notation S := (Sc L c0).
  Hypothesis HF : forall u, Fx' (S u) = Tn L tau (Fx u).
  Hypothesis HG : forall u, G' (S u) = Tn L tau (G u).
  (** [ok eta]: the implicit solve with step size [eta] is well defined; only the
      step sizes an integrator really uses have to be [ok] *)
  Variable ok : F -> Prop.
  Hypothesis HGinv : forall u eta, ok eta -> Ginv' (S u) (tau * eta) = S (Ginv u eta).

  Theorem C12_step_covariant dt alpha al be ga a_ex a_im b_ex b_im u p q :
    (ok dt -> euler_step Fx' Ginv' (tau * dt) (S u) = S (euler_step Fx Ginv dt u)) /\
    (ok (half * dt) -> cn_rk2_step Fx' G' Ginv' (tau * dt) (S u) = S (cn_rk2_step Fx G Ginv dt u)) /\
    (ls_ok ok dt al -> ls_step Fx' G' Ginv' (tau * dt) al be ga (S u) = S (ls_step Fx G Ginv dt al be ga u)) /\
    (imex_ok ok dt 1 a_im ->
       imex_step Fx' G' Ginv' (tau * dt) a_ex a_im b_ex b_im (S u)
       = option_map S (imex_step Fx G Ginv dt a_ex a_im b_ex b_im u)) /\
    (ok (two * dt * alpha) ->
       leapfrog_step Fx' G' Ginv' (tau * dt) alpha (S p, S q)
       = (S (fst (leapfrog_step Fx G Ginv dt alpha (p, q))), S (snd (leapfrog_step Fx G Ginv dt alpha (p, q))))).
  Proof.
    split; [|split; [|split; [|split]]]; intros Hok.
    - exact (euler_step_covariant vadd_assoc vadd_comm vscal_mul L c0 tau L_add L_scal tau_nz Fx Ginv Fx' Ginv' HF ok HGinv dt u Hok).
    - exact (cn_rk2_step_covariant vadd_assoc vadd_comm vscal_add vscal_mul L c0 tau L_add L_scal tau_nz Fx G Ginv Fx' G' Ginv' HF HG ok HGinv dt u Hok).
    - exact (ls_step_covariant vadd_assoc vadd_comm vscal_add vscal_mul vscal_zero L c0 tau L_add L_scal L_zero tau_nz Fx G Ginv Fx' G' Ginv' HF HG ok HGinv dt al be ga u Hok).
    - exact (imex_step_covariant vadd_assoc vadd_comm vscal_add vscal_mul vscal_zero L c0 tau L_add L_scal L_zero tau_nz Fx G Ginv Fx' G' Ginv' HF HG ok HGinv dt a_ex a_im b_ex b_im u Hok).
    - exact (leapfrog_covariant vadd_assoc vadd_comm vscal_add vscal_mul L c0 tau L_add L_scal tau_nz Fx G Ginv Fx' G' Ginv' HF HG ok HGinv dt alpha p q Hok).
  Qed.

  (** k filtered steps: trajectories under two scales stay related by [S] *)
  Theorem C12_trajectory_covariant (step step' : V -> V) (fl fl' : list (V -> V -> V)) :
    (forall u, step' (S u) = S (step u)) ->
    Forall2 (fun f' f => forall u w, f' (S u) (S w) = S (f u w)) fl' fl ->
    forall k u, Nat.iter k (step_with_filters step' fl') (S u) = S (Nat.iter k (step_with_filters step fl) u).
  Proof. exact (trajectory_covariant L c0 step step' fl fl'). Qed.
End C12_steps.

(** The hypotheses of [C12_step_covariant] on the implicit terms and on the
    resolvent are theorems for the implicit column model of the primitive
    equations (Model/Implicit.v; one spectral coefficient with Laplacian
    eigenvalue [lam]; state = divergence[K], temperature[K], lnps; change of
    scale = multiplication by the factors of T^-1 and Theta and a shift of lnps
    in the mean mode).  Only the explicit terms stay abstract. *)
Section C12_column.
  Context {F : Type} {o : Ops F} {Fc : FieldC o}.

  (** the three relations between the multipliers hold for every scale *)
  Theorem C12_column_relations (s : scale) :
    scale_nz s ->
    factor s d_time * factor s d_rate = 1 /\
    factor s d_gas * factor s d_temp * factor s (mkdim (-2) 0 0 0) = factor s d_rate * factor s d_rate.
  Proof.
    intros Hs. split.
    - rewrite <- factor_add by exact Hs. apply factor_zero.
    - rewrite <- !factor_add by exact Hs. reflexivity.
  Qed.

  Variables (kr kT kR kl tau shift : F) (c : @PEcfg F) (lam : F) (inv : nat -> @Mat F -> @Mat F).
  Hypothesis H_time : tau * kr = 1.
  Hypothesis H_geo : kR * kT * kl = kr * kr.
  Hypothesis H_shift : shift * lam = 0.
  Hypothesis feqb_sound : forall x y : F, feqb x y = true -> x = y.
  Hypothesis th0_nz : thickness (cb c) 0%nat <> 0.
  Hypothesis thK_nz : thickness (cb c) (cK c - 1)%nat <> 0.
  Notation c' := (scale_cfg kT kR c).
  Notation S := (Sc (vo := ColOps) (col_L (cK c) kr kT) (col_shift shift)).
  Notation ok := (col_ok kT kR kl tau c lam inv).

  Theorem C12_column_hypotheses_discharged :
    (forall u, col_G c' (kl * lam) (S u) = Tn (vo := ColOps) (col_L (cK c) kr kT) tau (col_G c lam u)) /\
    (forall u eta, ok eta -> col_Ginv inv c' (kl * lam) (S u) (tau * eta) = S (col_Ginv inv c lam u eta)).
  Proof.
    split.
    - exact (column_implicit_terms_covariant kr kT kR kl tau shift c lam H_time H_geo H_shift).
    - exact (column_resolvent_covariant kr kT kR kl tau shift c lam H_time H_geo H_shift inv feqb_sound th0_nz thK_nz).
  Qed.

  Theorem C12_column_steps_covariant (Fx Fx' : @Col F -> @Col F) dt alpha al be ga a_ex a_im b_ex b_im u p q :
    (forall u, Fx' (S u) = Tn (vo := ColOps) (col_L (cK c) kr kT) tau (Fx u)) ->
    let G0 := col_G c lam in let G1 := col_G c' (kl * lam) in
    let Gi0 := col_Ginv inv c lam in let Gi1 := col_Ginv inv c' (kl * lam) in
    (ok dt -> euler_step (vo := ColOps) Fx' Gi1 (tau * dt) (S u) = S (euler_step (vo := ColOps) Fx Gi0 dt u)) /\
    (ok (half * dt) -> cn_rk2_step (vo := ColOps) Fx' G1 Gi1 (tau * dt) (S u) = S (cn_rk2_step (vo := ColOps) Fx G0 Gi0 dt u)) /\
    (ls_ok ok dt al -> ls_step (vo := ColOps) Fx' G1 Gi1 (tau * dt) al be ga (S u) = S (ls_step (vo := ColOps) Fx G0 Gi0 dt al be ga u)) /\
    (imex_ok ok dt 1 a_im ->
       imex_step (vo := ColOps) Fx' G1 Gi1 (tau * dt) a_ex a_im b_ex b_im (S u)
       = option_map S (imex_step (vo := ColOps) Fx G0 Gi0 dt a_ex a_im b_ex b_im u)) /\
    (ok (two * dt * alpha) ->
       leapfrog_step (vo := ColOps) Fx' G1 Gi1 (tau * dt) alpha (S p, S q)
       = (S (fst (leapfrog_step (vo := ColOps) Fx G0 Gi0 dt alpha (p, q))),
          S (snd (leapfrog_step (vo := ColOps) Fx G0 Gi0 dt alpha (p, q))))).
  Proof.
    intros HF G0 G1 Gi0 Gi1.
    exact (column_steps_covariant kr kT kR kl tau shift c lam H_time H_geo H_shift inv feqb_sound th0_nz thK_nz
             Fx Fx' HF dt alpha al be ga a_ex a_im b_ex b_im u p q).
  Qed.
End C12_column.

(** The explicit and implicit tendencies of all four equation classes assembled
    over ABSTRACT horizontal operators (Model/PrimEq.v, Section ModalAssembly):
    to_modal and clip are the same under both scales, div/curl of the second
    scale are [kg] times and the Laplacian [kg^2] times those of the first (the
    non-dimensional radius differs); only homogeneity and extensionality of the
    operators are assumed, plus additivity of the Laplacian and "lap kills the
    constant mode" for the log-pressure shift.  With the dimension assignment
    (ku velocity, kr rates, kT temperature, kg inverse length, kR gas constants,
    kL length; ku*kg = kr, kR*kT*kg = ku*kr, kL*kg = 1 - all true for
    [factor s d], see the proofs of the nodal theorems) every tendency is
    covariant: temperature Theta/T, divergence and vorticity 1/T^2, moist and
    cloud classes included (specific humidity dimensionless). *)
Section C12_modal.
  Context {F : Type} {o : Ops F} {Fc : FieldC o}.
  Variables (ku kr kT kg kR kL : F).
  Hypothesis H_rate : ku * kg = kr.
  Hypothesis H_accel : kR * kT * kg = ku * kr.
  Hypothesis H_len : kL * kg = 1.
  Hypothesis feqb_iff : forall a b : F, feqb a b = true <-> a = b.
  Hypothesis kT_nz : kT <> 0.
  Hypothesis kR_nz : kR <> 0.
  Variables W P : Type.
  Variable toM : (P -> F) -> W -> F.
  Variables divc curlc divc' curlc' : (W -> F) -> (W -> F) -> W -> F.
  Variables lap lap' clip : (W -> F) -> W -> F.
  Hypothesis toM_scal : forall k f w, toM (fun p => k * f p) w = k * toM f w.
  Hypothesis toM_ext : forall f g, (forall p, f p = g p) -> forall w, toM f w = toM g w.
  Hypothesis divc_scal : forall k a b w, divc (fun v => k * a v) (fun v => k * b v) w = k * divc a b w.
  Hypothesis divc_ext : forall a a' b b', (forall v, a v = a' v) -> (forall v, b v = b' v) -> forall w, divc a b w = divc a' b' w.
  Hypothesis curlc_scal : forall k a b w, curlc (fun v => k * a v) (fun v => k * b v) w = k * curlc a b w.
  Hypothesis curlc_ext : forall a a' b b', (forall v, a v = a' v) -> (forall v, b v = b' v) -> forall w, curlc a b w = curlc a' b' w.
  Hypothesis lap_scal : forall k a w, lap (fun v => k * a v) w = k * lap a w.
  Hypothesis lap_ext : forall a a', (forall v, a v = a' v) -> forall w, lap a w = lap a' w.
  Hypothesis lap_add : forall a b w, lap (fun v => a v + b v) w = lap a w + lap b w.
  Hypothesis clip_scal : forall k a w, clip (fun v => k * a v) w = k * clip a w.
  Hypothesis clip_ext : forall a a', (forall v, a v = a' v) -> forall w, clip a w = clip a' w.
  Hypothesis divc'_def : forall a b w, divc' a b w = kg * divc a b w.
  Hypothesis curlc'_def : forall a b w, curlc' a b w = kg * curlc a b w.
  Hypothesis lap'_def : forall a w, lap' a w = kg * kg * lap a w.
  Variable c : @PEcfg F.
  Variable m : @Moist F.
  Hypothesis R_nz : cR c <> 0.
  Hypothesis kappa_nz : ckappa c <> 0.
  Variable X : P -> @NCol F.
  Notation c' := (scale_cfg kT kR c).
  Notation m' := (scale_moist kR m).
  Notation X' := (fun p => scale_ncol ku kr kT kg (X p)).

  Theorem C12_modal_tendencies_covariant
      (q qc qi gqx gqy : P -> nat -> F) (lapn : P -> F) (orog orog' hum hum' : W -> F) (grav : F)
      (dv dv' Tm Tm' : nat -> W -> F) (lnps lnps' e : W -> F) shift r w :
    (r < cK c)%nat ->
    (forall v, orog' v = kL * orog v) -> (forall v, hum' v = kr * kr * hum v) ->
    (forall k v, dv' k v = kr * dv k v) -> (forall k v, Tm' k v = kT * Tm k v) ->
    (forall v, lnps' v = lnps v + shift * e v) -> (forall v, lap e v = 0) ->
    let rtm := fun p => rt_moist c m (X p) (q p) in
    let rtm' := fun p => rt_moist c' m' (scale_ncol ku kr kT kg (X p)) (q p) in
    let rtc := fun p => rt_cloud c m (X p) (q p) (qc p) (qi p) in
    let rtc' := fun p => rt_cloud c' m' (scale_ncol ku kr kT kg (X p)) (q p) (qc p) (qi p) in
    temp_tendency_explicit W P toM divc' clip c' X' r w = kT * kr * temp_tendency_explicit W P toM divc clip c X r w /\
    temp_tendency_explicit_moist W P toM divc' clip c' m' X' q r w
      = kT * kr * temp_tendency_explicit_moist W P toM divc clip c m X q r w /\
    div_tendency_explicit W P toM divc' lap' clip c' (ku * kr * grav) X' rtm' orog' hum' r w
      = kr * kr * div_tendency_explicit W P toM divc lap clip c grav X rtm orog hum r w /\
    div_tendency_explicit W P toM divc' lap' clip c' (ku * kr * grav) X' rtc' orog' hum' r w
      = kr * kr * div_tendency_explicit W P toM divc lap clip c grav X rtc orog hum r w /\
    vort_tendency_explicit W P toM curlc' clip c' X' rtm' hum' r w
      = kr * kr * vort_tendency_explicit W P toM curlc clip c X rtm hum r w /\
    humidity_div_modal W P toM lap' c' m' X' q (fun p => scol kg (gqx p)) (fun p => scol kg (gqy p)) (fun p => kg * kg * lapn p) r w
      = kr * kr * humidity_div_modal W P toM lap c m X q gqx gqy lapn r w /\
    humidity_curl_modal W P toM c' m' X' (fun p => scol kg (gqx p)) (fun p => scol kg (gqy p)) r w
      = kr * kr * humidity_curl_modal W P toM c m X gqx gqy r w /\
    temp_tendency_implicit W c' dv' r w = kT * kr * temp_tendency_implicit W c dv r w /\
    div_tendency_implicit W lap' c' Tm' lnps' r w = kr * kr * div_tendency_implicit W lap c Tm lnps r w.
  Proof.
    intros Hr Horo Hhum Hdv HTm Hl He rtm rtm' rtc rtc'.
    assert (RTm : forall p j, rtm' p j = kR * kT * rtm p j).
    { intros p j. exact (proj1 (proj2 (rt_homogeneous ku kr kT kg kR c kR_nz R_nz m (X p) (q p) (qc p) (qi p) j))). }
    assert (RTc : forall p j, rtc' p j = kR * kT * rtc p j).
    { intros p j. exact (proj2 (proj2 (rt_homogeneous ku kr kT kg kR c kR_nz R_nz m (X p) (q p) (qc p) (qi p) j))). }
    split; [eapply temp_tendency_explicit_covariant; eassumption|].
    split; [eapply temp_tendency_explicit_moist_covariant; eassumption|].
    split; [eapply div_tendency_explicit_covariant; eassumption|].
    split; [eapply div_tendency_explicit_covariant; eassumption|].
    split; [eapply vort_tendency_explicit_covariant; eassumption|].
    split; [eapply (proj1 (humidity_modal_covariant ku kr kT kg kR H_rate H_accel kR_nz W P toM lap lap' toM_scal toM_ext lap_scal lap_ext lap'_def c R_nz X m q gqx gqy lapn r w Hr))|].
    split; [eapply (proj2 (humidity_modal_covariant ku kr kT kg kR H_rate H_accel kR_nz W P toM lap lap' toM_scal toM_ext lap_scal lap_ext lap'_def c R_nz X m q gqx gqy lapn r w Hr))|].
    eapply implicit_tendencies_covariant; eassumption.
  Qed.
End C12_modal.

(** Held-Suarez forcing (Model/Forcings.v), over an ordered field with a
    positive temperature scale: Rayleigh and Newtonian rates scale like 1/T,
    the equilibrium temperature (including the max with minT) like Theta, p/p0
    is invariant, and the nodal tendencies come out in L/T^2 and Theta/T.
    (p/p0)^kappa and log(p/p0) are inputs evaluated at the invariant p/p0. *)
Section C12_held_suarez.
  Context {F : Type} {o : Ops F} {Oc : OrdFieldC o}.

  Theorem C12_held_suarez_homogeneous (s : scale) (P : HSParams F) sigma ps cl sl pk logp tref tvar cu :
    scale_nz s -> flt 0 (factor s d_temp) -> hp_p0 P <> 0 ->
    let kp := factor s d_pressure in let kr := factor s d_rate in let kT := factor s d_temp in
    let P' := scale_hs kp kr kT P in
    hs_kv P' sigma = kr * hs_kv P sigma /\ hs_kt P' sigma cl = kr * hs_kt P sigma cl /\
    hs_p_over_p0 P' sigma (kp * ps) = hs_p_over_p0 P sigma ps /\
    hs_teq P' pk logp cl sl = kT * hs_teq P pk logp cl sl /\
    hs_nodal_velocity_tendency (hs_kv P' sigma) (factor s d_vel * cu) cl
      = factor s d_accel * hs_nodal_velocity_tendency (hs_kv P sigma) cu cl /\
    hs_nodal_temperature_tendency (hs_kt P' sigma cl) (kT * tref) (kT * tvar) (hs_teq P' pk logp cl sl)
      = factor s d_temp_rate * hs_nodal_temperature_tendency (hs_kt P sigma cl) tref tvar (hs_teq P pk logp cl sl).
  Proof.
    intros Hs HT Hp0 kp kr kT P'.
    assert (A1 : factor s d_accel = kr * factor s d_vel) by (unfold kr; rewrite <- factor_add by exact Hs; reflexivity).
    assert (A2 : factor s d_temp_rate = kr * kT) by (unfold kr, kT; rewrite <- factor_add by exact Hs; reflexivity).
    destruct (hs_rates_homogeneous kp kr kT P sigma cl) as [R1 R2].
    split; [exact R1|]. split; [exact R2|]. split; [|split; [|split]].
    - apply hs_p_over_p0_invariant; [now apply factor_nonzero | exact Hp0].
    - exact (proj2 (hs_teq_homogeneous kp kr kT P pk logp cl sl HT)).
    - unfold P'. rewrite R1, A1. exact (proj1 (hs_nodal_tendencies_homogeneous kr kT (factor s d_vel) _ cu cl 0 0 0 0)).
    - rewrite A2. exact (hs_temperature_forcing_homogeneous kp kr kT 0 P sigma cl sl pk logp tref tvar HT).
  Qed.

  (** The statement in the property's words, for EVERY power function [pw]
      (x |-> x ** kappa in the code) and EVERY [lg] (log in the code) - nothing is
      assumed about them, they are applied to the scale-invariant p/p0 -:
      Held-Suarez evaluated on non-dimensionalised inputs is the
      non-dimensionalisation of Held-Suarez evaluated in SI, for every scale
      with positive entries. *)
  Theorem C12_held_suarez_nondim_commutes (pw lg : F -> F) (s : scale) (P : HSParams F) sigma ps cl sl :
    scale_positive s -> hp_p0 P <> 0 ->
    hs_kv (nondim_hs s P) sigma = nondim s d_rate (hs_kv P sigma) /\
    hs_kt (nondim_hs s P) sigma cl = nondim s d_rate (hs_kt P sigma cl) /\
    hs_p_over_p0 (nondim_hs s P) sigma (nondim s d_pressure ps) = hs_p_over_p0 P sigma ps /\
    hs_teq_of_ps pw lg (nondim_hs s P) sigma (nondim s d_pressure ps) cl sl
      = nondim s d_temp (hs_teq_of_ps pw lg P sigma ps cl sl).
  Proof. exact (hs_nondim_commutes pw lg s P sigma ps cl sl). Qed.
End C12_held_suarez.

(** over the reals with the library's power, logarithm and exponential, starting
    from the log surface pressure the model carries: lnps under the scale is
    lnps_SI - ln(factor of pressure) *)
Theorem C12_held_suarez_R (s : @scale R) (P : HSParams R) (kappa sigma lnps_si cl sl : R) :
  (0 < sL s)%R -> (0 < sT s)%R -> (0 < sM s)%R -> (0 < sK s)%R -> hp_p0 P <> 0%R ->
  let pw := fun x : R => Rpower x kappa in
  hs_teq_of_ps pw ln (nondim_hs s P) sigma (exp (lnps_si - ln (factor s d_pressure))) cl sl
    = (hs_teq_of_ps pw ln P sigma (exp lnps_si) cl sl / factor s d_temp)%R /\
  hs_kv (nondim_hs s P) sigma = (hs_kv P sigma / factor s d_rate)%R /\
  hs_kt (nondim_hs s P) sigma cl = (hs_kt P sigma cl / factor s d_rate)%R.
Proof.
  intros H1 H2 H3 H4 Hp0 pw.
  assert (Hpos : scale_positive s).
  { repeat split; apply Rleb_false; assumption. }
  assert (Hfp : (0 < factor s d_pressure)%R).
  { apply Rleb_false. exact (factor_pos s d_pressure Hpos). }
  assert (E : exp (lnps_si - ln (factor s d_pressure)) = nondim s d_pressure (exp lnps_si)).
  { unfold nondim. cbn. unfold Rminus. rewrite exp_plus, exp_Ropp, exp_ln by exact Hfp. reflexivity. }
  rewrite E.
  destruct (C12_held_suarez_nondim_commutes pw ln s P sigma (exp lnps_si) cl sl Hpos Hp0) as (A & B & _ & D).
  repeat split; assumption.
Qed.


Section C12_lnps.
  Context {F : Type} {o : Ops F} {Fc : FieldC o}.

  (** log surface pressure changes by an additive constant under a change of
      scale; operators that annihilate constants (gradient, Laplacian) do not see
      it, operators that fix the constant mode (resolvent at l = 0, filters) pass it on *)
  Theorem C12_log_pressure_shift n (A : nat -> nat -> F) (x : nat -> F) c i :
    ((forall r, sumn n (fun j => A r j) = 0) -> lin n A (shift_field c x) i = lin n A x i) /\
    ((0 < n)%nat -> (forall r, A r 0%nat = 0) -> lin n A (shift_mode0 c x) i = lin n A x i) /\
    ((0 < n)%nat -> (forall r, A r 0%nat = delta r 0%nat) ->
       lin n A (shift_mode0 c x) i = shift_mode0 c (lin n A x) i).
  Proof.
    split; [|split].
    - exact (shift_killed_nodal n A x c i).
    - exact (shift_killed_modal n A x c i).
    - exact (shift_passed_modal n A x c i).
  Qed.

  (** Held-Suarez: sigma * exp(lnps) / p0 with p0 non-dimensionalised by the same scale *)
  Theorem C12_p_over_p0_invariant (E : F -> F) (sigma lnps_si p0_si lp fp : F) :
    (forall a b, E (a + b) = E a * E b) -> E lp = fp -> fp <> 0 -> p0_si <> 0 ->
    p_over_p0 E sigma (lnps_si - lp) (p0_si / fp) = p_over_p0 E sigma lnps_si p0_si.
  Proof. exact (p_over_p0_invariant E sigma lnps_si p0_si lp fp). Qed.
End C12_lnps.

(** over the reals with Coq's exponential: any positive pressure factor *)
Theorem C12_p_over_p0_invariant_R (sigma lnps_si p0_si fp : R) :
  (0 < fp)%R -> p0_si <> 0%R ->
  p_over_p0 exp sigma (lnps_si - ln fp)%R (p0_si / fp)%R = p_over_p0 exp sigma lnps_si p0_si.
Proof.
  intros Hfp Hp0.
  apply (C12_p_over_p0_invariant (o := ROps) exp sigma lnps_si p0_si (ln fp) fp).
  - exact exp_plus.
  - now apply exp_ln.
  - intro H. rewrite H in Hfp. exact (Rlt_irrefl _ Hfp).
  - exact Hp0.
Qed.

(** Non-vacuity over Qc: a non-zero scale; a well-typed expression with
    non-vanishing denominators ((g*h + u*u) / (R*T), dimensionless) and an
    ill-typed one; and a concrete nonlinear IMEX system (u' = u^2 - k u on
    V = Qc, u a rate) that satisfies every hypothesis of the step theorems with
    tau = 3, L u = u / 3. *)
Example C12_hyps_satisfiable :
  let s := mkscale (Q2Qc 2) (Q2Qc 3) (Q2Qc 5) (Q2Qc (7 # 2)) in
  let dv := fun i : nat => nth i [d_grav; d_length; d_vel; d_gas; d_temp] dzero in
  let e := EDiv (EAdd (EMul (EVar 0) (EVar 1)) (EMul (EVar 2) (EVar 2))) (EMul (EVar 3) (EVar 4)) in
  let x := fun i : nat => Q2Qc (nth i [10; 3; 7; 287; 250]%Q 1%Q) in
  scale_nz s /\ dim_of dv e = Some dzero /\ denoms_nz x e /\
  dim_of dv (EAdd (EVar 0) (EVar 1) : expr Qc) = None /\
  factor s d_pressure = Q2Qc (5 # 18) /\
  (let tau := Q2Qc 3 in let k := Q2Qc 2 in
   let vo := mkVOps Qc Qc (Q2Qc 0) Qcplus Qcmult in
   let L := fun u : Qc => u / tau in
   let Fx := fun u : Qc => u * u in
   let G := fun u : Qc => - (k * u) in let G' := fun u : Qc => - (k / tau * u) in
   let Ginv := fun (u eta : Qc) => u / (1 + eta * k) in
   let Ginv' := fun (u eta : Qc) => u / (1 + eta * (k / tau)) in
   tau <> 0 /\
   (forall u, Fx (Sc (vo := vo) L 0 u) = Tn (vo := vo) L tau (Fx u)) /\
   (forall u, G' (Sc (vo := vo) L 0 u) = Tn (vo := vo) L tau (G u)) /\
   (forall u eta, 1 + eta * k <> 0 -> Ginv' (Sc (vo := vo) L 0 u) (tau * eta) = Sc (vo := vo) L 0 (Ginv u eta))).
Proof.
  cbv zeta.
  assert (NZ : forall q : Q, Qeq_bool q 0 = false -> Q2Qc q <> Q2Qc 0).
  { intros q Hq H. apply (f_equal this) in H. cbn in H.
    assert (E : Qeq (Qred q) (Qred 0)) by (rewrite H; reflexivity).
    rewrite !Qred_correct in E. apply Qeq_bool_iff in E. congruence. }
  split; [|split; [|split; [|split; [|split]]]].
  - repeat split; apply NZ; reflexivity.
  - reflexivity.
  - cbn. repeat split. intro H. vm_compute in H. discriminate H.
  - reflexivity.
  - vm_compute. apply Qc_is_canon. reflexivity.
  - assert (T3 : Q2Qc 3 <> Q2Qc 0) by (apply NZ; reflexivity).
    split; [exact T3|]. split; [|split].
    + intros u. unfold Sc, Tn; cbn. field. exact T3.
    + intros u. unfold Sc, Tn; cbn. field. exact T3.
    + intros u eta Hnz. unfold Sc; cbn in *. field.
      repeat split; try exact T3; try exact Hnz.
      all: intro H; apply Hnz; rewrite <- H; field; exact T3.
Qed.

(** Non-vacuity of the column-model hypotheses over Qc: one layer, l = 1 on the
    unit sphere (lam = -2), tau = 3 (kr = 1/3), kT = 5, kl = 4, kR = 1/180, and
    [inv] = the adjugate formula for 3 x 3 matrices: the three relations hold and
    [col_ok (1/2)] (right inverse under the first scale, left inverse under the
    second) is true, with non-zero layer thickness. *)
Definition inv3 (M : @Mat Qc) : @Mat Qc :=
  let cof := fun i j : nat =>
    M ((i + 1) mod 3)%nat ((j + 1) mod 3)%nat * M ((i + 2) mod 3)%nat ((j + 2) mod 3)%nat
    - M ((i + 1) mod 3)%nat ((j + 2) mod 3)%nat * M ((i + 2) mod 3)%nat ((j + 1) mod 3)%nat in
  let det := M 0%nat 0%nat * cof 0%nat 0%nat + M 0%nat 1%nat * cof 0%nat 1%nat + M 0%nat 2%nat * cof 0%nat 2%nat in
  fun i j => cof j i / det.

Example C12_column_hyps_satisfiable :
  let q := fun z : Q => Q2Qc z in
  let c := mkPE 1 (q 287) (q (2 # 7)) (fun _ => q (- 7 # 10)) (fun k => match k with O => q 0 | _ => q 1 end) (fun _ => q 250) in
  let kr := q (1 # 3) in let kT := q 5 in let kR := q (1 # 180) in let kl := q 4 in let tau := q 3 in
  let lam := q (- 2) in let inv := fun (_ : nat) (M : @Mat Qc) => inv3 M in
  tau * kr = 1 /\ kR * kT * kl = kr * kr /\ q 0 * lam = 0 /\
  thickness (cb c) 0%nat <> 0 /\ thickness (cb c) (cK c - 1)%nat <> 0 /\
  col_ok kT kR kl tau c lam inv (q (1 # 2)).
Proof.
  cbv zeta.
  split; [apply Qc_is_canon; vm_compute; reflexivity|].
  split; [apply Qc_is_canon; vm_compute; reflexivity|].
  split; [apply Qc_is_canon; vm_compute; reflexivity|].
  split; [intro H; vm_compute in H; discriminate H|].
  split; [intro H; vm_compute in H; discriminate H|].
  split; intros i j Hi Hj;
    destruct i as [|[|[|i]]]; try (exfalso; cbn in Hi; lia);
    destruct j as [|[|[|j]]]; try (exfalso; cbn in Hj; lia);
    apply Qc_is_canon; vm_compute; reflexivity.
Qed.

(** Non-vacuity of the Held-Suarez theorems over Qc: a positive scale, the default
    Held-Suarez parameters, and a point where the maximum with minT is not active
    (so the covariance of the max is exercised on its non-trivial branch) and one
    where it is; [pw] = squaring and [lg] = identity stand for the power and log. *)
Example C12_held_suarez_hyps_satisfiable :
  let q := fun z : Q => Q2Qc z in
  let s := mkscale (q 2) (q 3) (q 5) (q (7 # 2)) in
  let P := mkHSParams (q 100000) (q (7 # 10)) (q (1 # 86400)) (q (1 # 3456000)) (q (1 # 345600)) (q 200) (q 315) (q 60) (q 10) in
  let pw := fun x : Qc => x * x in let lg := fun x : Qc => x in
  scale_positive s /\ hp_p0 P <> 0 /\
  hs_teq_of_ps pw lg P (q (9 # 10)) (q 100000) (q 1) (q 0) <> hp_minT P /\
  hs_teq_of_ps pw lg P (q (1 # 10)) (q 100000) (q 1) (q 0) = hp_minT P /\
  hs_teq_of_ps pw lg (nondim_hs s P) (q (9 # 10)) (nondim s d_pressure (q 100000)) (q 1) (q 0)
    = nondim s d_temp (hs_teq_of_ps pw lg P (q (9 # 10)) (q 100000) (q 1) (q 0)).
Proof.
  cbv zeta. split; [repeat split; vm_compute; reflexivity|].
  split; [intro H; vm_compute in H; discriminate H|].
  split; [intro H; vm_compute in H; discriminate H|].
  split; apply Qc_is_canon; vm_compute; reflexivity.
Qed.

(** Non-vacuity of the operator hypotheses of [C12_modal_tendencies_covariant]
    over Qc: two modes / two nodes, to_modal = identity, a "Laplacian" that
    annihilates constants, div / curl mixing the two modes; ku = 3, kg = 2,
    kr = 6, kL = 1/2, kT = 5, kR = 9/5. *)
Example C12_modal_hyps_satisfiable :
  let q := fun z : Q => Q2Qc z in
  let ku := q 3 in let kg := q 2 in let kr := q 6 in let kL := q (1 # 2) in let kT := q 5 in let kR := q (9 # 5) in
  let toM := fun (f : bool -> Qc) (w : bool) => f w in
  let divc := fun (a b : bool -> Qc) w => a w + b (negb w) in
  let curlc := fun (a b : bool -> Qc) w => a (negb w) - b w in
  let lap := fun (a : bool -> Qc) w => a w - a (negb w) in
  let clip := fun (a : bool -> Qc) w => a w in
  ku * kg = kr /\ kR * kT * kg = ku * kr /\ kL * kg = 1 /\ kT <> 0 /\ kR <> 0 /\
  (forall k f w, toM (fun p => k * f p) w = k * toM f w) /\
  (forall k a b w, divc (fun v => k * a v) (fun v => k * b v) w = k * divc a b w) /\
  (forall k a b w, curlc (fun v => k * a v) (fun v => k * b v) w = k * curlc a b w) /\
  (forall k a w, lap (fun v => k * a v) w = k * lap a w) /\
  (forall a b w, lap (fun v => a v + b v) w = lap a w + lap b w) /\
  (forall w, lap (fun _ => 1) w = 0) /\
  (forall k a w, clip (fun v => k * a v) w = k * clip a w) /\
  (forall a a' b b', (forall v, a v = a' v) -> (forall v, b v = b' v) -> forall w, divc a b w = divc a' b' w) /\
  (forall a a', (forall v, a v = a' v) -> forall w, lap a w = lap a' w).
Proof.
  cbv zeta.
  split; [apply Qc_is_canon; vm_compute; reflexivity|].
  split; [apply Qc_is_canon; vm_compute; reflexivity|].
  split; [apply Qc_is_canon; vm_compute; reflexivity|].
  split; [intro H; vm_compute in H; discriminate H|].
  split; [intro H; vm_compute in H; discriminate H|].
  repeat split; intros; cbn; try ring.
  - now rewrite H, H0.
  - now rewrite !H.
Qed.

(** The WHOLE-STATE executable model (Model/PrimEqFull.v: compute_diagnostic_state, explicit_terms,
    implicit_terms as compositions of the concrete transforms of Model/SHT.v / Model/Deriv.v).
    The operator hypotheses of [C12_modal_tendencies_covariant] are THEOREMS for the concrete
    operators (the second scale sees the same grid with radius kL * r and rotation kr * Omega),
    and hence the tendencies of the rescaled problem are the rescaled tendencies on every in-range
    coefficient of vorticity, divergence, temperature and log surface pressure.
    Change of scale of the state: vorticity/divergence * kr, temperature * kT, log surface pressure
    shifted in the (0,0) coefficient; constants through [scale_cfg]; g * ku kr; orography * kL. *)
From Dino Require Import Model.PrimEqFull Gen.DerivExprs Thm.PrimEqFull Thm.ScalingFull.

Section C12_whole_state.
  Context {F : Type} {o : Ops F} {Fc : FieldC o}.
  Variables (ku kr kT kg kR kL : F).
  Hypothesis H_rate : ku * kg = kr.
  Hypothesis H_accel : kR * kT * kg = ku * kr.
  Hypothesis H_len : kL * kg = 1.
  Variable g : @HGrid F.
  Hypothesis r_nz : hr g <> 0.
  Hypothesis lit_nz : forall l, (1 <= l < hL g)%nat -> lit l <> (0 : F) /\ lit l + 1 <> (0 : F).
  Notation g' := (rescale_grid kL kr g).

  (** operator laws of the concrete transforms: every field, every size, every index *)
  Theorem C12_concrete_operators_homogeneous :
    (forall x w, toN_c g' x w = toN_c g x w) /\
    (forall z w, toM_c g' z w = toM_c g z w) /\
    (forall x w, clip_c g' x w = clip_c g x w) /\
    (forall x y w, divc_c g' x y w = kg * divc_c g x y w) /\
    (forall x y w, curlc_c g' x y w = kg * curlc_c g x y w) /\
    (forall x w, lap_c g' x w = kg * kg * lap_c g x w) /\
    (forall k f w, toM_c g (fun p => k * f p) w = k * toM_c g f w) /\
    (forall k x y w, divc_c g (fun v => k * x v) (fun v => k * y v) w = k * divc_c g x y w) /\
    (forall k x y w, curlc_c g (fun v => k * x v) (fun v => k * y v) w = k * curlc_c g x y w) /\
    (forall k x w, lap_c g (fun v => k * x v) w = k * lap_c g x w) /\
    (forall x y w, lap_c g (fun v => x v + y v) w = lap_c g x w + lap_c g y w) /\
    (forall k x w, clip_c g (fun v => k * x v) w = k * clip_c g x w) /\
    (forall v w, lap_c g (onem00 v) w = 0) /\
    (forall x a l, Deriv.inverse_laplacian (hL g) (kL * hr g) x a l = kL * kL * Deriv.inverse_laplacian (hL g) (hr g) x a l) /\
    (forall x a l, fst (gradm g' x) a l = kg * fst (gradm g x) a l /\ snd (gradm g' x) a l = kg * snd (gradm g x) a l) /\
    (forall vo dv a l,
        fst (uvm g' (fun a l => kr * vo a l) (fun a l => kr * dv a l)) a l = ku * fst (uvm g vo dv) a l /\
        snd (uvm g' (fun a l => kr * vo a l) (fun a l => kr * dv a l)) a l = ku * snd (uvm g vo dv) a l).
  Proof.
    pose proof (concrete_operators_homogeneous kr kg kL H_len g r_nz) as (A1 & A2 & A3 & A4 & A5 & A6 & A7 & A8 & A9 & A10 & A11 & A12 & A13).
    repeat (split; [assumption|]).
    split; [intros; eapply invlap_radius; eassumption|].
    split; [intros; eapply gradm_radius; eassumption|].
    intros; eapply uvm_covariant; eassumption.
  Qed.

  Hypothesis feqb_iff : forall a b : F, feqb a b = true <-> a = b.
  Hypothesis kT_nz : kT <> 0.
  Hypothesis kR_nz : kR <> 0.
  Variable c : @PEcfg F.
  Hypothesis R_nz : cR c <> 0.
  Variables (grav shift : F) (orog : nat -> nat -> F).
  Notation c' := (scale_cfg kT kR c).
  Notation Sst := (scale_state kr kT shift).

  Theorem C12_whole_state_tendencies_covariant (s : @State F) k a l :
    (k < cK c)%nat -> (a < hR g)%nat -> (l < hL g)%nat ->
    let E := explicit_terms_full g c grav orog s in
    let E' := explicit_terms_full g' c' (ku * kr * grav) (fun a l => kL * orog a l) (Sst s) in
    let G := implicit_terms_full g c s in
    let G' := implicit_terms_full g' c' (Sst s) in
    (s_vort E' k a l = kr * kr * s_vort E k a l /\ s_div E' k a l = kr * kr * s_div E k a l /\
     s_temp E' k a l = kT * kr * s_temp E k a l /\ s_lnps E' a l = kr * s_lnps E a l) /\
    (s_vort G' k a l = kr * kr * s_vort G k a l /\ s_div G' k a l = kr * kr * s_div G k a l /\
     s_temp G' k a l = kT * kr * s_temp G k a l /\ s_lnps G' a l = kr * s_lnps G a l).
  Proof. intros Hk Ha Hl. eapply whole_state_tendencies_covariant; eassumption. Qed.

  (** FULL statement not reached: for every integrator [step] of Model/Integrators.v applied to
      F = explicit_terms_full, G = implicit_terms_full, Ginv = implicit_inverse_full:
        step' (tau * dt) (Sst u) = Sst (step dt u)   on the index range.
      Proved: the hypotheses HF and HG of [C12_step_covariant] coefficient by coefficient (this is
      [C12_whole_state_tendencies_covariant] with 1/tau = kr) and the explicit update.  Missing: the
      resolvent hypothesis HGinv for implicit_inverse_full (method 'split': only the left resolvent
      identity is proved in Thm/PrimEqFull.v; for [inverse_stacked] on one coefficient column it IS
      proved, see [C12_column_steps_covariant]), a VOps structure on State with Leibniz laws, and
      the tracer fields.  The plugin checks the implicit solve and one IMEX step on the
      implementation under two scales (runner whole_state_scales). *)
  Theorem C12_whole_state_step_covariant_partial (tau : F) (s : @State F) dt k a l :
    tau * kr = 1 -> (k < cK c)%nat -> (a < hR g)%nat -> (l < hL g)%nat ->
    let u1 := forward_update (explicit_terms_full g c grav orog s) (implicit_terms_full g c s) s dt in
    let u1' := forward_update (explicit_terms_full g' c' (ku * kr * grav) (fun a l => kL * orog a l) (Sst s))
                              (implicit_terms_full g' c' (Sst s)) (Sst s) (tau * dt) in
    s_vort u1' k a l = s_vort (Sst u1) k a l /\ s_div u1' k a l = s_div (Sst u1) k a l /\
    s_temp u1' k a l = s_temp (Sst u1) k a l /\ s_lnps u1' a l = s_lnps (Sst u1) a l.
  Proof. intros Ht Hk Ha Hl. eapply whole_state_step_covariant_partial; eassumption. Qed.
  (** tracers (dimensionless, any number): the n-th tracer tendency of explicit_terms_full scales with kr
      (= 1/time); implicit_terms_full returns zero tracers under both scales *)
  Theorem C12_whole_state_tracers_covariant (s : @State F) n k a l :
    (n < length (s_tr s))%nat -> (k < cK c)%nat -> (a < hR g)%nat -> (l < hL g)%nat ->
    (nth n (s_tr (explicit_terms_full g' c' (ku * kr * grav) (fun a l => kL * orog a l) (Sst s))) zero3 k a l
     = kr * nth n (s_tr (explicit_terms_full g c grav orog s)) zero3 k a l) /\
    (s_tr (implicit_terms_full g' c' (Sst s)) = s_tr (implicit_terms_full g c s)) /\
    (forall t, In t (s_tr (implicit_terms_full g c s)) -> t = zero3).
  Proof. intros Hn Hk Ha Hl. eapply whole_state_tracers_covariant; eassumption. Qed.

  (** ROUND 2: the implicit solve, the state space and every integrator. *)
  Variable tau : F.
  Hypothesis H_time : tau * kr = 1.
  Hypothesis th0_nz : thickness (cb c) 0%nat <> 0.
  Hypothesis thK_nz : thickness (cb c) (cK c - 1)%nat <> 0.

  (** implicit_inverse_full (method 'split') with the rescaled step: [invt l] = np.linalg.inv of the
      implicit matrix for total wavenumber l has to be a right inverse under the first and a left
      inverse under the second scale (the plugin checks two-sidedness under every scale) *)
  Theorem C12_whole_state_inverse_covariant (eta : F) (invt invt' : nat -> @Mat F) (y : @State F) k a l :
    is_left_inverse (2 * cK c + 1) (implicit_matrix c eta (Deriv.lap_eig (hL g) (hr g) l)) (invt l) ->
    is_left_inverse (2 * cK c + 1) (invt' l) (implicit_matrix c' (tau * eta) (Deriv.lap_eig (hL g') (hr g') l)) ->
    let Z := implicit_inverse_full g c eta invt y in
    let Z' := implicit_inverse_full g' c' (tau * eta) invt' (Sst y) in
    col_eq (cK c) (col_of Z' a l) (col_of (Sst Z) a l) /\ s_vort Z' k a l = s_vort (Sst Z) k a l.
  Proof. intros Hr Hl. eapply whole_state_inverse_covariant; eassumption. Qed.

  (** the model functions only read the index range (so "the state" is its in-range part) *)
  Theorem C12_whole_state_reads_range (g0 : @HGrid F) (c0 : @PEcfg F) grav0 orog0 eta invt0 (s1 s2 : @State F) k a l :
    agree (cK c0) (hR g0) (hL g0) s1 s2 -> (k < cK c0)%nat -> (a < hR g0)%nat -> (l < hL g0)%nat ->
    (s_vort (explicit_terms_full g0 c0 grav0 orog0 s1) k a l = s_vort (explicit_terms_full g0 c0 grav0 orog0 s2) k a l /\
     s_div (explicit_terms_full g0 c0 grav0 orog0 s1) k a l = s_div (explicit_terms_full g0 c0 grav0 orog0 s2) k a l /\
     s_temp (explicit_terms_full g0 c0 grav0 orog0 s1) k a l = s_temp (explicit_terms_full g0 c0 grav0 orog0 s2) k a l /\
     s_lnps (explicit_terms_full g0 c0 grav0 orog0 s1) a l = s_lnps (explicit_terms_full g0 c0 grav0 orog0 s2) a l) /\
    col_eq (cK c0) (col_of (implicit_terms_full g0 c0 s1) a l) (col_of (implicit_terms_full g0 c0 s2) a l) /\
    col_eq (cK c0) (col_of (implicit_inverse_full g0 c0 eta invt0 s1) a l) (col_of (implicit_inverse_full g0 c0 eta invt0 s2) a l).
  Proof.
    intros Hag Hk Ha Hl. split; [exact (explicit_terms_full_ext g0 c0 grav0 orog0 s1 s2 k a l Hag Hk Ha Hl)|].
    split; [now apply implicit_terms_full_ext | now apply implicit_inverse_full_ext].
  Qed.

  (** the in-range part of State as a vector space ([StOps]: operations return normal forms, so the
      vector-space laws are equalities); S = change of scale; the model functions composed with [norm] *)
  Variables invt invt' : F -> nat -> @Mat F.
  Notation SV := (StOps g c).
  Notation S := (Sc (vo := StOps g c) (Lst kr kT g c) (c0st g shift c)).
  Notation Fx0 := (FxS g c grav orog).
  Notation Fx1 := (FxS' ku kr kT kR kL g c grav orog).
  Notation G0 := (GS g c).
  Notation G1 := (GS' kr kT kR kL g c).
  Notation Gi0 := (GinvS g c invt).
  Notation Gi1 := (GinvS' kr kT kR kL g c invt').
  Notation ok := (okS kr kT kR kL g c tau invt invt').

  (** S is the rescaling of the property on the index range, and Fx0/G0/Gi0 are the model functions there *)
  Theorem C12_whole_state_space (u : @State F) eta k a l :
    (k < cK c)%nat -> (a < hR g)%nat -> (l < hL g)%nat ->
    agree (cK c) (hR g) (hL g) (S u) (Sst u) /\
    s_div (Fx0 u) k a l = s_div (explicit_terms_full g c grav orog u) k a l /\
    s_temp (G0 u) k a l = s_temp (implicit_terms_full g c u) k a l /\
    s_lnps (Gi0 u eta) a l = s_lnps (implicit_inverse_full g c eta (invt eta) u) a l.
  Proof.
    intros Hk Ha Hl. split; [eapply ScS_agrees|].
    unfold FxS, GS, GinvS, norm, mk4. cbn [s_div s_temp s_lnps]. unfold cl3, cl2.
    rewrite (inr3_true g c k a l Hk Ha Hl), (inr2_true g a l Ha Hl). repeat split.
  Qed.

  (** every integrator of time_integration.py (Model/Integrators.v) applied to the whole-state model:
      one step of the rescaled problem with time step tau * dt from the rescaled state = the rescaled step *)
  Theorem C12_whole_state_step_covariant dt alpha al be ga a_ex a_im b_ex b_im u p q :
    (ok dt -> euler_step (vo := SV) Fx1 Gi1 (tau * dt) (S u) = S (euler_step (vo := SV) Fx0 Gi0 dt u)) /\
    (ok (half * dt) -> cn_rk2_step (vo := SV) Fx1 G1 Gi1 (tau * dt) (S u) = S (cn_rk2_step (vo := SV) Fx0 G0 Gi0 dt u)) /\
    (ls_ok ok dt al -> ls_step (vo := SV) Fx1 G1 Gi1 (tau * dt) al be ga (S u) = S (ls_step (vo := SV) Fx0 G0 Gi0 dt al be ga u)) /\
    (imex_ok ok dt 1 a_im ->
       imex_step (vo := SV) Fx1 G1 Gi1 (tau * dt) a_ex a_im b_ex b_im (S u)
       = option_map S (imex_step (vo := SV) Fx0 G0 Gi0 dt a_ex a_im b_ex b_im u)) /\
    (ok (two * dt * alpha) ->
       leapfrog_step (vo := SV) Fx1 G1 Gi1 (tau * dt) alpha (S p, S q)
       = (S (fst (leapfrog_step (vo := SV) Fx0 G0 Gi0 dt alpha (p, q))),
          S (snd (leapfrog_step (vo := SV) Fx0 G0 Gi0 dt alpha (p, q))))).
  Proof. eapply whole_state_step_covariant; eassumption. Qed.

  (** any number of filtered steps *)
  Theorem C12_whole_state_trajectory_covariant (step step' : @State F -> @State F) (fl fl' : list (@State F -> @State F -> @State F)) :
    (forall u, step' (S u) = S (step u)) ->
    Forall2 (fun f' f => forall u w, f' (S u) (S w) = S (f u w)) fl' fl ->
    forall n u, Nat.iter n (step_with_filters step' fl') (S u) = S (Nat.iter n (step_with_filters step fl) u).
  Proof. exact (trajectory_covariant (vo := SV) (Lst kr kT g c) (c0st g shift c) step step' fl fl'). Qed.
End C12_whole_state.

(** Non-vacuity of the whole-state hypotheses over Qc: ku = 3, kg = 2, kr = 6, kL = 1/2, kT = 5,
    kR = 9/5, tau = 1/6; a grid with 3 total wavenumbers and radius 2 (tables irrelevant for the
    hypotheses); the characteristic condition for l = 1, 2; and the operator law for the Laplacian
    evaluated on a concrete coefficient (l = 2: eigenvalue -6/4 under the first, -6 under the second scale). *)
Example C12_whole_state_hyps_satisfiable :
  let q := fun z : Q => Q2Qc z in
  let ku := q 3 in let kg := q 2 in let kr := q 6 in let kL := q (1 # 2) in let kT := q 5 in let kR := q (9 # 5) in
  let tau := q (1 # 6) in
  let z2 := fun _ _ : nat => q 0 in
  let g := mkHG 2 3 4 3 (q 2) z2 (fun _ => z2) (fun _ => q 1) z2 z2 (fun _ => q 1) (fun _ => q 0) (q (1 # 10)) in
  ku * kg = kr /\ kR * kT * kg = ku * kr /\ kL * kg = 1 /\ tau * kr = 1 /\ kT <> 0 /\ kR <> 0 /\ hr g <> 0 /\
  (forall l, (1 <= l < hL g)%nat -> lit l <> (0 : Qc) /\ lit l + 1 <> (0 : Qc)) /\
  (forall a b : Qc, feqb a b = true <-> a = b) /\
  lapm g (fun _ _ => q 1) 0%nat 2%nat = q (- 3 # 2) /\
  lapm (rescale_grid kL kr g) (fun _ _ => q 1) 0%nat 2%nat = kg * kg * lapm g (fun _ _ => q 1) 0%nat 2%nat.
Proof.
  cbv zeta.
  split; [apply Qc_is_canon; vm_compute; reflexivity|].
  split; [apply Qc_is_canon; vm_compute; reflexivity|].
  split; [apply Qc_is_canon; vm_compute; reflexivity|].
  split; [apply Qc_is_canon; vm_compute; reflexivity|].
  split; [intro H; vm_compute in H; discriminate H|].
  split; [intro H; vm_compute in H; discriminate H|].
  split; [intro H; vm_compute in H; discriminate H|].
  split.
  { intros l Hl. cbn [hL] in Hl.
    destruct l as [|[|[|l]]]; try (exfalso; lia); split; intro H; vm_compute in H; discriminate H. }
  split.
  { intros a b. split.
    - intros H. apply Qc_is_canon. now apply Qeq_bool_eq.
    - intros ->. apply Qeq_bool_iff. reflexivity. }
  split; apply Qc_is_canon; vm_compute; reflexivity.
Qed.

(** Non-vacuity of the round-2 hypotheses over Qc: one layer, two total wavenumbers on the unit sphere,
    kr = 1/3, kT = 5, kR = 1/180, kg = 2, kL = 1/2, ku = 1/6, tau = 3; [invt] = the adjugate inverse of the
    3 x 3 implicit matrix: [okS (1/2)] holds (right inverse under the first, left inverse under the second
    scale, both wavenumbers) and the layer thickness is non-zero. *)
Example C12_whole_state_inverse_hyps_satisfiable :
  let q := fun z : Q => Q2Qc z in
  let c := mkPE 1 (q 287) (q (2 # 7)) (fun _ => q (- 7 # 10)) (fun k => match k with O => q 0 | _ => q 1 end) (fun _ => q 250) in
  let ku := q (1 # 6) in let kr := q (1 # 3) in let kT := q 5 in let kR := q (1 # 180) in let kg := q 2 in let kL := q (1 # 2) in
  let tau := q 3 in
  let z2 := fun _ _ : nat => q 0 in
  let g := mkHG 1 2 2 2 (q 1) z2 (fun _ => z2) (fun _ => q 1) z2 z2 (fun _ => q 1) (fun _ => q 0) (q (1 # 10)) in
  let invt := fun (eta : Qc) (l : nat) => inv3 (implicit_matrix c eta (Deriv.lap_eig 2 (q 1) l)) in
  let invt' := fun (eta : Qc) (l : nat) => inv3 (implicit_matrix (scale_cfg kT kR c) eta (Deriv.lap_eig 2 (kL * q 1) l)) in
  ku * kg = kr /\ kR * kT * kg = ku * kr /\ kL * kg = 1 /\ tau * kr = 1 /\
  thickness (cb c) 0%nat <> 0 /\ thickness (cb c) (cK c - 1)%nat <> 0 /\
  okS kr kT kR kL g c tau invt invt' (q (1 # 2)).
Proof.
  cbv zeta.
  split; [apply Qc_is_canon; vm_compute; reflexivity|].
  split; [apply Qc_is_canon; vm_compute; reflexivity|].
  split; [apply Qc_is_canon; vm_compute; reflexivity|].
  split; [apply Qc_is_canon; vm_compute; reflexivity|].
  split; [intro H; vm_compute in H; discriminate H|].
  split; [intro H; vm_compute in H; discriminate H|].
  intros l Hl. cbn [hL] in Hl.
  destruct l as [|[|l]]; try (exfalso; lia);
    (split; intros i j Hi Hj;
     destruct i as [|[|[|i]]]; try (exfalso; cbn in Hi; lia);
     destruct j as [|[|[|j]]]; try (exfalso; cbn in Hj; lia);
     apply Qc_is_canon; vm_compute; reflexivity).
Qed.

(** ** Tie to the source by translation: the nodal column algebra of Model/PrimEq.v that this property reasons about
    is the code of dinosaur/primitive_equations.py (transcribed from the AST on every run by tools/translate/gen_primeq.py). *)
From Dino Require Import Model.Filters Model.PrimEq Model.Implicit Gen.PrimEqSrc Thm.PrimEqSrc.
Theorem C12_model_is_source {F : Type} {o : Ops F} {Fc : FieldC o} (c : @PEcfg F) (m : @Moist F)
    (inc_va : bool) (x : @NCol F) (Tf g vg s q qc qi rt : nat -> F) (k : nat) :
  u_dot_grad x k = u_dot_grad_src x k /\
  t_omega_over_sigma_sp c Tf g vg k = t_omega_over_sigma_sp_src c Tf g vg k /\
  combined_u c inc_va x (rt_dry c x) k = combined_u_src c inc_va x k /\
  combined_v c inc_va x (rt_dry c x) k = combined_v_src c inc_va x k /\
  kinetic x k = kinetic_src x k /\
  temp_vertical_tendency c inc_va x k = temp_vertical_tendency_src c inc_va x k /\
  hsa_nodal x s k = hsa_nodal_src x s k /\
  hsa_mu x s k = hsa_u_src x s k * n_sec2 x /\
  hsa_mv x s k = hsa_v_src x s k * n_sec2 x /\
  temp_adiabatic c x k = temp_adiabatic_src c x k /\
  log_pressure_tendency c x = log_pressure_tendency_src c x /\
  moisture_contribution c m q k = moisture_contribution_src c m q k /\
  rt_moist c m x q k = rt_moist_src c x (moisture_contribution c m q) k /\
  rt_cloud c m x q qc qi k = rt_cloud_src c x (moisture_contribution c m q) qc qi k /\
  combined_u c inc_va x rt k = combined_u_moist_src c inc_va x q rt k /\
  combined_v c inc_va x rt k = combined_v_moist_src c inc_va x q rt k /\
  temp_adiabatic_moist c m x q k = temp_adiabatic_moist_src c m x q k.
Proof. exact (primeq_model_is_source c m inc_va x Tf g vg s q qc qi rt k). Qed.

Print Assumptions C12_factor_homomorphism.
Print Assumptions C12_welldim_homogeneous.
Print Assumptions C12_scale_independence.
Print Assumptions C12_columns_homogeneous.
Print Assumptions C12_nodal_terms_homogeneous.
Print Assumptions C12_moist_and_vertical_terms_homogeneous.
Print Assumptions C12_step_covariant.
Print Assumptions C12_trajectory_covariant.
Print Assumptions C12_column_relations.
Print Assumptions C12_column_hypotheses_discharged.
Print Assumptions C12_column_steps_covariant.
Print Assumptions C12_modal_tendencies_covariant.
Print Assumptions C12_held_suarez_homogeneous.
Print Assumptions C12_held_suarez_nondim_commutes.
Print Assumptions C12_held_suarez_R.
Print Assumptions C12_log_pressure_shift.
Print Assumptions C12_p_over_p0_invariant.
Print Assumptions C12_p_over_p0_invariant_R.
Print Assumptions C12_hyps_satisfiable.
Print Assumptions C12_column_hyps_satisfiable.
Print Assumptions C12_held_suarez_hyps_satisfiable.
Print Assumptions C12_modal_hyps_satisfiable.
Print Assumptions C12_concrete_operators_homogeneous.
Print Assumptions C12_whole_state_tendencies_covariant.
Print Assumptions C12_whole_state_step_covariant_partial.
Print Assumptions C12_whole_state_hyps_satisfiable.
Print Assumptions C12_whole_state_inverse_covariant.
Print Assumptions C12_whole_state_reads_range.
Print Assumptions C12_whole_state_space.
Print Assumptions C12_whole_state_step_covariant.
Print Assumptions C12_whole_state_trajectory_covariant.
Print Assumptions C12_whole_state_inverse_hyps_satisfiable.
Print Assumptions C12_whole_state_tracers_covariant.
Print Assumptions C12_model_is_source.
