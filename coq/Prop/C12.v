(** Property C12 - physical results do not depend on the non-dimensionalisation
    scale.  Statements only; proofs are in Thm/Scaling.v.  Every theorem is for
    an arbitrary field [F] (hence the reals), arbitrary scales with non-zero
    entries and arbitrary sizes.

    What the algebra cannot see - a hard-coded constant that bypasses the scale
    is a property of the call graph - is decided on the implementation by the
    plugin (same SI problem under several scales; AST scan of call sites). *)
From Dino Require Import Base.Ops Base.Sums Base.Inst Model.Sigma Model.Implicit Model.PrimEq Model.Integrators
  Model.Dual Thm.Dual Model.Scaling Thm.Scaling.
From Coq Require Import Qcanon Reals.
Local Open Scope F_scope.

Section C12.
  Context {F : Type} {o : Ops F} {Fc : FieldC o}.

  (** dimension algebra: [factor s] is a group homomorphism from (Z^4, +) to
      the non-zero elements of F under multiplication *)
  Theorem C12_factor_homomorphism (s : scale) (d1 d2 : dim) :
    scale_nz s ->
    factor s (dadd d1 d2) = factor s d1 * factor s d2 /\ factor s dzero = 1 /\
    factor s (dopp d1) = 1 / factor s d1 /\ factor s d1 <> 0 /\
    (forall x, redim s d1 (nondim s d1 x) = x).
  Proof.
    intros Hs. repeat split.
    - exact (factor_add s d1 d2 Hs).
    - exact (factor_zero s).
    - exact (factor_opp s d1 Hs).
    - exact (factor_nonzero s d1 Hs).
    - intros x. exact (redim_nondim s d1 x Hs).
  Qed.

  (** every dimensionally well-typed computation built from field operations is
      scale-covariant *)
  Theorem C12_welldim_homogeneous (dv : nat -> dim) (s : scale) (x : nat -> F) (e : expr F) (d : dim) :
    scale_nz s -> denoms_nz x e -> dim_of dv e = Some d ->
    eval (rescale s dv x) e = factor s d * eval x e.
  Proof. exact (welldim_homogeneous dv s x e d). Qed.

  (** the property's statement for such computations: same physical inputs,
      two scales, results converted back are equal (and equal the base-unit result) *)
  Theorem C12_scale_independence (dv : nat -> dim) (s1 s2 : scale) (X : nat -> F) (e : expr F) (d : dim) :
    scale_nz s1 -> scale_nz s2 -> denoms_nz X e -> dim_of dv e = Some d ->
    redim s1 d (eval (nondim_env s1 dv X) e) = redim s2 d (eval (nondim_env s2 dv X) e)
    /\ redim s1 d (eval (nondim_env s1 dv X) e) = eval X e.
  Proof. exact (scale_independence dv s1 s2 X e d). Qed.

  (** the sigma-column operators, with dimension bookkeeping: sigma is
      dimensionless; integrals and differences keep the dimension [d]; vertical
      advection multiplies the dimensions of velocity and advected quantity;
      the hydrostatic integral maps R (L^2 T^-2 Theta^-1) and T (Theta) to a
      geopotential (L^2 T^-2) *)
  Theorem C12_columns_homogeneous (s : scale) (d dw dx : dim) dot down K (b x w ls : nat -> F) wt wb dt db R j :
    scale_nz s ->
    cum_sigma_integral dot down K b (scol (factor s d) x) j = factor s d * cum_sigma_integral dot down K b x j /\
    sigma_integral K b (scol (factor s d) x) = factor s d * sigma_integral K b x /\
    centered_difference b (scol (factor s d) x) j = factor s d * centered_difference b x j /\
    centered_vertical_advection K b (scol (factor s dw) w) (scol (factor s dx) x)
        (factor s dw * wt) (factor s dw * wb) (factor s dx * dt) (factor s dx * db) j
      = factor s (dadd dw dx) * centered_vertical_advection K b w x wt wb dt db j /\
    geo_diff_dense K (factor s d_gas * R) ls (scol (factor s d_temp) x) j
      = factor s d_geopot * geo_diff_dense K R ls x j /\
    ((j < K)%nat -> geo_diff_sparse K (factor s d_gas * R) ls (scol (factor s d_temp) x) j
      = factor s d_geopot * geo_diff_sparse K R ls x j).
  Proof.
    intros Hs.
    assert (G : factor s d_geopot = factor s d_gas * factor s d_temp).
    { rewrite <- factor_add by exact Hs. reflexivity. }
    repeat split.
    - apply cum_sigma_integral_homogeneous.
    - apply sigma_integral_homogeneous.
    - apply centered_difference_homogeneous.
    - rewrite factor_add by exact Hs. apply centered_vertical_advection_bilinear.
    - rewrite G. apply geo_diff_dense_homogeneous.
    - intros Hj. rewrite G. now apply geo_diff_sparse_homogeneous.
  Qed.

  (** nodal terms of the primitive equations: velocity L T^-1, vorticity /
      divergence / Coriolis T^-1, temperature Theta, grad(ln ps) L^-1, R
      L^2 T^-2 Theta^-1, kappa / sigma / sec^2(lat) dimensionless.  The adiabatic
      temperature term comes out in Theta T^-1, d(ln ps)/dt in T^-1 and both
      components of the momentum-equation term in L T^-2. *)
  Theorem C12_nodal_terms_homogeneous (s : scale) (c : PEcfg) (x : NCol) va n :
    scale_nz s ->
    let x' := scale_ncol (factor s d_vel) (factor s d_rate) (factor s d_temp) (factor s d_invlen) x in
    let c' := scale_cfg (factor s d_temp) (factor s d_gas) c in
    temp_adiabatic c' x' n = factor s d_temp_rate * temp_adiabatic c x n /\
    log_pressure_tendency c' x' = factor s d_rate * log_pressure_tendency c x /\
    combined_u c' va x' (rt_dry c' x') n = factor s d_accel * combined_u c va x (rt_dry c x) n /\
    combined_v c' va x' (rt_dry c' x') n = factor s d_accel * combined_v c va x (rt_dry c x) n.
  Proof.
    intros Hs x' c'.
    assert (H1 : factor s d_vel * factor s d_invlen = factor s d_rate).
    { rewrite <- factor_add by exact Hs. reflexivity. }
    assert (H2 : factor s d_gas * factor s d_temp * factor s d_invlen = factor s d_vel * factor s d_rate).
    { rewrite <- !factor_add by exact Hs. reflexivity. }
    assert (H3 : factor s d_temp_rate = factor s d_temp * factor s d_rate).
    { rewrite <- factor_add by exact Hs. reflexivity. }
    assert (H4 : factor s d_accel = factor s d_vel * factor s d_rate).
    { rewrite <- factor_add by exact Hs. reflexivity. }
    split; [|split].
    - rewrite H3. exact (temp_adiabatic_homogeneous _ _ _ _ _ H1 c x n).
    - exact (log_pressure_tendency_homogeneous _ _ _ _ _ H1 c x).
    - rewrite H4. exact (combined_uv_homogeneous _ _ _ _ _ H1 H2 c va x n).
  Qed.
End C12.

(** time stepping: if the equations under the second scale are the rescaled
    equations ([Fx' (S u) = (1/tau) L (Fx u)], same for [G], and the resolvent
    with the rescaled step), every integrator of time_integration.py commutes
    with the change of scale [S u = L u + c0], [dt' = tau dt] *)
Section C12_steps.
  Context {F : Type} {o : Ops F} {Fc : FieldC o} {V : Type} {vo : VOps F V}.
  Hypothesis vadd_assoc : forall u v w : V, vadd u (vadd v w) = vadd (vadd u v) w.
  Hypothesis vadd_comm : forall u v : V, vadd u v = vadd v u.
  Hypothesis vscal_add : forall (a : F) (u v : V), vscal a (vadd u v) = vadd (vscal a u) (vscal a v).
  Hypothesis vscal_mul : forall (a b : F) (u : V), vscal a (vscal b u) = vscal (a * b) u.
  Hypothesis vscal_zero : forall a : F, vscal a vzero = (vzero : V).
  Variables (L : V -> V) (c0 : V) (tau : F).
  Hypothesis L_add : forall u v, L (vadd u v) = vadd (L u) (L v).
  Hypothesis L_scal : forall a u, L (vscal a u) = vscal a (L u).
  Hypothesis L_zero : L vzero = vzero.
  Hypothesis tau_nz : tau <> 0.
  Variables (Fx G : V -> V) (Ginv : V -> F -> V) (Fx' G' : V -> V) (Ginv' : V -> F -> V).
  Notation S := (Sc L c0).
  Hypothesis HF : forall u, Fx' (S u) = Tn L tau (Fx u).
  Hypothesis HG : forall u, G' (S u) = Tn L tau (G u).
  Hypothesis HGinv : forall u eta, Ginv' (S u) (tau * eta) = S (Ginv u eta).

  Theorem C12_step_covariant dt alpha al be ga a_ex a_im b_ex b_im u p q :
    euler_step Fx' Ginv' (tau * dt) (S u) = S (euler_step Fx Ginv dt u) /\
    cn_rk2_step Fx' G' Ginv' (tau * dt) (S u) = S (cn_rk2_step Fx G Ginv dt u) /\
    ls_step Fx' G' Ginv' (tau * dt) al be ga (S u) = S (ls_step Fx G Ginv dt al be ga u) /\
    imex_step Fx' G' Ginv' (tau * dt) a_ex a_im b_ex b_im (S u)
      = option_map S (imex_step Fx G Ginv dt a_ex a_im b_ex b_im u) /\
    leapfrog_step Fx' G' Ginv' (tau * dt) alpha (S p, S q)
      = (S (fst (leapfrog_step Fx G Ginv dt alpha (p, q))), S (snd (leapfrog_step Fx G Ginv dt alpha (p, q)))).
  Proof.
    split; [|split; [|split; [|split]]].
    - exact (euler_step_covariant vadd_assoc vadd_comm vscal_mul L c0 tau L_add L_scal tau_nz Fx Ginv Fx' Ginv' HF HGinv dt u).
    - exact (cn_rk2_step_covariant vadd_assoc vadd_comm vscal_add vscal_mul L c0 tau L_add L_scal tau_nz Fx G Ginv Fx' G' Ginv' HF HG HGinv dt u).
    - exact (ls_step_covariant vadd_assoc vadd_comm vscal_add vscal_mul vscal_zero L c0 tau L_add L_scal L_zero tau_nz Fx G Ginv Fx' G' Ginv' HF HG HGinv dt al be ga u).
    - exact (imex_step_covariant vadd_assoc vadd_comm vscal_add vscal_mul vscal_zero L c0 tau L_add L_scal L_zero tau_nz Fx G Ginv Fx' G' Ginv' HF HG HGinv dt a_ex a_im b_ex b_im u).
    - exact (leapfrog_covariant vadd_assoc vadd_comm vscal_add vscal_mul L c0 tau L_add L_scal tau_nz Fx G Ginv Fx' G' Ginv' HF HG HGinv dt alpha p q).
  Qed.

  (** k filtered steps: trajectories under two scales stay related by [S] *)
  Theorem C12_trajectory_covariant (step step' : V -> V) (fl fl' : list (V -> V -> V)) :
    (forall u, step' (S u) = S (step u)) ->
    Forall2 (fun f' f => forall u w, f' (S u) (S w) = S (f u w)) fl' fl ->
    forall k u, Nat.iter k (step_with_filters step' fl') (S u) = S (Nat.iter k (step_with_filters step fl) u).
  Proof. exact (trajectory_covariant L c0 step step' fl fl'). Qed.
End C12_steps.

Section C12_lnps.
  Context {F : Type} {o : Ops F} {Fc : FieldC o}.

  (** log surface pressure changes by an additive constant under a change of
      scale; operators that annihilate constants (gradient, Laplacian) do not see
      it, operators that fix the constant mode (resolvent at l = 0, filters) pass it on *)
  Theorem C12_log_pressure_shift n (A : nat -> nat -> F) (x : nat -> F) c i :
    ((forall r, sumn n (fun j => A r j) = 0) -> lin n A (shift_field c x) i = lin n A x i) /\
    ((0 < n)%nat -> (forall r, A r 0%nat = 0) -> lin n A (shift_mode0 c x) i = lin n A x i) /\
    ((0 < n)%nat -> (forall r, A r 0%nat = delta r 0%nat) ->
       lin n A (shift_mode0 c x) i = shift_mode0 c (lin n A x) i).
  Proof.
    split; [|split].
    - exact (shift_killed_nodal n A x c i).
    - exact (shift_killed_modal n A x c i).
    - exact (shift_passed_modal n A x c i).
  Qed.

  (** Held-Suarez: sigma * exp(lnps) / p0 with p0 non-dimensionalised by the same scale *)
  Theorem C12_p_over_p0_invariant (E : F -> F) (sigma lnps_si p0_si lp fp : F) :
    (forall a b, E (a + b) = E a * E b) -> E lp = fp -> fp <> 0 -> p0_si <> 0 ->
    p_over_p0 E sigma (lnps_si - lp) (p0_si / fp) = p_over_p0 E sigma lnps_si p0_si.
  Proof. exact (p_over_p0_invariant E sigma lnps_si p0_si lp fp). Qed.
End C12_lnps.

(** over the reals with Coq's exponential: any positive pressure factor *)
Theorem C12_p_over_p0_invariant_R (sigma lnps_si p0_si fp : R) :
  (0 < fp)%R -> p0_si <> 0%R ->
  p_over_p0 exp sigma (lnps_si - ln fp)%R (p0_si / fp)%R = p_over_p0 exp sigma lnps_si p0_si.
Proof.
  intros Hfp Hp0.
  apply (C12_p_over_p0_invariant (o := ROps) exp sigma lnps_si p0_si (ln fp) fp).
  - exact exp_plus.
  - now apply exp_ln.
  - intro H. rewrite H in Hfp. exact (Rlt_irrefl _ Hfp).
  - exact Hp0.
Qed.

(** Non-vacuity over Qc: a non-zero scale; a well-typed expression with
    non-vanishing denominators ((g*h + u*u) / (R*T), dimensionless) and an
    ill-typed one; and a concrete nonlinear IMEX system (u' = u^2 - k u on
    V = Qc, u a rate) that satisfies every hypothesis of the step theorems with
    tau = 3, L u = u / 3. *)
Example C12_hyps_satisfiable :
  let s := mkscale (Q2Qc 2) (Q2Qc 3) (Q2Qc 5) (Q2Qc (7 # 2)) in
  let dv := fun i : nat => nth i [d_grav; d_length; d_vel; d_gas; d_temp] dzero in
  let e := EDiv (EAdd (EMul (EVar 0) (EVar 1)) (EMul (EVar 2) (EVar 2))) (EMul (EVar 3) (EVar 4)) in
  let x := fun i : nat => Q2Qc (nth i [10; 3; 7; 287; 250]%Q 1%Q) in
  scale_nz s /\ dim_of dv e = Some dzero /\ denoms_nz x e /\
  dim_of dv (EAdd (EVar 0) (EVar 1) : expr Qc) = None /\
  factor s d_pressure = Q2Qc (5 # 18) /\
  (let tau := Q2Qc 3 in let k := Q2Qc 2 in
   let vo := mkVOps Qc Qc (Q2Qc 0) Qcplus Qcmult in
   let L := fun u : Qc => u / tau in
   let Fx := fun u : Qc => u * u in
   let G := fun u : Qc => - (k * u) in let G' := fun u : Qc => - (k / tau * u) in
   let Ginv := fun (u eta : Qc) => u / (1 + eta * k) in
   let Ginv' := fun (u eta : Qc) => u / (1 + eta * (k / tau)) in
   tau <> 0 /\
   (forall u, Fx (Sc (vo := vo) L 0 u) = Tn (vo := vo) L tau (Fx u)) /\
   (forall u, G' (Sc (vo := vo) L 0 u) = Tn (vo := vo) L tau (G u)) /\
   (forall u eta, 1 + eta * k <> 0 -> Ginv' (Sc (vo := vo) L 0 u) (tau * eta) = Sc (vo := vo) L 0 (Ginv u eta))).
Proof.
  cbv zeta.
  assert (NZ : forall q : Q, Qeq_bool q 0 = false -> Q2Qc q <> Q2Qc 0).
  { intros q Hq H. apply (f_equal this) in H. cbn in H.
    assert (E : Qeq (Qred q) (Qred 0)) by (rewrite H; reflexivity).
    rewrite !Qred_correct in E. apply Qeq_bool_iff in E. congruence. }
  split; [|split; [|split; [|split; [|split]]]].
  - repeat split; apply NZ; reflexivity.
  - reflexivity.
  - cbn. repeat split. intro H. vm_compute in H. discriminate H.
  - reflexivity.
  - vm_compute. apply Qc_is_canon. reflexivity.
  - assert (T3 : Q2Qc 3 <> Q2Qc 0) by (apply NZ; reflexivity).
    split; [exact T3|]. split; [|split].
    + intros u. unfold Sc, Tn; cbn. field. exact T3.
    + intros u. unfold Sc, Tn; cbn. field. exact T3.
    + intros u eta Hnz. unfold Sc; cbn in *. field.
      repeat split; try exact T3; try exact Hnz.
      all: intro H; apply Hnz; rewrite <- H; field; exact T3.
Qed.

Print Assumptions C12_factor_homomorphism.
Print Assumptions C12_welldim_homogeneous.
Print Assumptions C12_scale_independence.
Print Assumptions C12_columns_homogeneous.
Print Assumptions C12_nodal_terms_homogeneous.
Print Assumptions C12_step_covariant.
Print Assumptions C12_trajectory_covariant.
Print Assumptions C12_log_pressure_shift.
Print Assumptions C12_p_over_p0_invariant.
Print Assumptions C12_p_over_p0_invariant_R.
Print Assumptions C12_hyps_satisfiable.
