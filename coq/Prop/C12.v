(** Property C12 - physical results do not depend on the non-dimensionalisation
    scale.  Statements only; proofs are in Thm/Scaling.v.  Every theorem is for
    an arbitrary field [F] (hence the reals), arbitrary scales with non-zero
    entries and arbitrary sizes. *)
From Dino Require Import Base.Ops Base.Sums Base.Inst Model.Sigma Model.Dual Thm.Dual Model.Scaling Thm.Scaling.
From Coq Require Import Qcanon.
Local Open Scope F_scope.

Section C12.
  Context {F : Type} {o : Ops F} {Fc : FieldC o}.

  (** dimension algebra: [factor s] is a group homomorphism from (Z^4, +) to the non-zero elements of F under multiplication *)
  Theorem C12_factor_homomorphism (s : scale) (d1 d2 : dim) :
    scale_nz s ->
    factor s (dadd d1 d2) = factor s d1 * factor s d2 /\ factor s dzero = 1 /\
    factor s (dopp d1) = 1 / factor s d1 /\ factor s d1 <> 0.
  Proof.
    intros Hs. repeat split.
    - exact (factor_add s d1 d2 Hs).
    - exact (factor_zero s).
    - exact (factor_opp s d1 Hs).
    - exact (factor_nonzero s d1 Hs).
  Qed.

  (** every dimensionally well-typed computation built from field operations is
      scale-covariant *)
  Theorem C12_welldim_homogeneous (dv : nat -> dim) (s : scale) (x : nat -> F) (e : expr F) (d : dim) :
    scale_nz s -> denoms_nz x e -> dim_of dv e = Some d ->
    eval (rescale s dv x) e = factor s d * eval x e.
  Proof. exact (welldim_homogeneous dv s x e d). Qed.

  (** the property's statement for such computations: same physical inputs,
      two scales, results converted back are equal (and equal the base-unit result) *)
  Theorem C12_scale_independence (dv : nat -> dim) (s1 s2 : scale) (X : nat -> F) (e : expr F) (d : dim) :
    scale_nz s1 -> scale_nz s2 -> denoms_nz X e -> dim_of dv e = Some d ->
    redim s1 d (eval (nondim_env s1 dv X) e) = redim s2 d (eval (nondim_env s2 dv X) e)
    /\ redim s1 d (eval (nondim_env s1 dv X) e) = eval X e.
  Proof. exact (scale_independence dv s1 s2 X e d). Qed.
End C12.

Print Assumptions C12_factor_homomorphism.
Print Assumptions C12_welldim_homogeneous.
Print Assumptions C12_scale_independence.
