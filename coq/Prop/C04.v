(** Property C04 - the full tendency does not depend on the reference-temperature
    split.  Statements only; proofs are in Thm/PrimEq.v.  Every theorem is for an
    arbitrary field [F] (hence the reals), an arbitrary number of layers K,
    arbitrary levels, arbitrary nodal / modal data and any two reference
    profiles [T1], [T2]; "the same atmosphere" means that the temperature
    variation is [T - T1] resp. [T - T2] for one absolute temperature [T].

    Scope notes (see also the plugin):
    - the invariance needs [include_vertical_advection = True] (the default):
      with the option off the code drops the vertical advection of T' but keeps
      that of T_ref (explicitly and inside H), which is split dependent;
    - the cloud-moist class is NOT invariant when the condensate is non-zero:
      [C04_tref_split_cloud_refuted]. *)
From Dino Require Import Base.Ops Base.Sums Base.Inst Base.Ord Model.Sigma Model.Implicit Model.PrimEq Thm.PrimEq.
From Dino Require Import Model.Filters Model.PrimEq Model.Implicit Gen.PrimEqSrc Thm.PrimEqSrc.
From Dino Require Model.SHT Model.Deriv.
From Dino Require Import Model.PrimEqFull Thm.Implicit Thm.PrimEqFull.
From Coq Require Import Reals Qcanon Lra.
Local Open Scope F_scope.

Section C04.
  Context {F : Type} {o : Ops F} {Fc : FieldC o}.
  Hypothesis two_nz : two <> 0.
  (** the boolean equality test of the carrier decides equality (np.unique branch) *)
  Hypothesis feqb_sound : forall x y : F, feqb x y = true -> x = y.
  Variable c : @PEcfg F.
  (** admissible levels: no empty layer, no two adjacent layers cancelling *)
  Hypothesis th2_nz : forall k, (S k < cK c)%nat -> thickness (cb c) k + thickness (cb c) (S k) <> 0.

  (** temperature equation, nodal layer, dry / with-time classes: explicit vertical
      + adiabatic tendency plus the implicit term -H.divergence (H is a column
      operator, so it may be applied on the nodal side: [C04_column_commutes]) *)
  Theorem C04_tref_split_invariance (T1 T2 T : nat -> F) (x : NCol) n :
    (n < cK c)%nat -> (forall k, (k < cK c)%nat -> thickness (cb c) k <> 0) ->
    let c1 := with_tref c T1 in let c2 := with_tref c T2 in
    let x1 := with_temp x (fun k => T k - T1 k) in let x2 := with_temp x (fun k => T k - T2 k) in
    temp_vertical_tendency c1 true x1 n + temp_adiabatic c1 x1 n + temp_implicit_col c1 (n_div x) n
    = temp_vertical_tendency c2 true x2 n + temp_adiabatic c2 x2 n + temp_implicit_col c2 (n_div x) n.
  Proof. intros Hn _. exact (tref_split_invariance two_nz feqb_sound c th2_nz T1 T2 T x n Hn). Qed.

  (** moist classes (virtual-temperature factors; 1 + (cp_v/cp - 1) q must not vanish) *)
  Theorem C04_tref_split_invariance_moist (m : Moist) (T1 T2 T q : nat -> F) (x : NCol) n :
    (n < cK c)%nat -> (forall k, (k < cK c)%nat -> thickness (cb c) k <> 0) ->
    1 + (mCpv m / (cR c / ckappa c) - 1) * q n <> 0 ->
    let c1 := with_tref c T1 in let c2 := with_tref c T2 in
    let x1 := with_temp x (fun k => T k - T1 k) in let x2 := with_temp x (fun k => T k - T2 k) in
    temp_vertical_tendency c1 true x1 n + temp_adiabatic_moist c1 m x1 q n + temp_implicit_col c1 (n_div x) n
    = temp_vertical_tendency c2 true x2 n + temp_adiabatic_moist c2 m x2 q n + temp_implicit_col c2 (n_div x) n.
  Proof. intros Hn _ Hq. exact (tref_split_invariance_moist two_nz feqb_sound c th2_nz m T1 T2 T q x n Hn Hq). Qed.

  (** what both sides are equal to: the tendency written with the absolute temperature *)
  Theorem C04_tref_split_closed_form (Tref T : nat -> F) (x : NCol) n :
    (n < cK c)%nat ->
    let ci := with_tref c Tref in let xi := with_temp x (fun k => T k - Tref k) in
    temp_vertical_tendency ci true xi n + temp_adiabatic ci xi n + temp_implicit_col ci (n_div x) n
    = vertical_tendency c (sigma_dot_full c x) T n
      + ckappa c * (T n * (u_dot_grad x n - g_part c (g_full_adiabatic x) n)).
  Proof. intros Hn. exact (tref_split_closed two_nz feqb_sound c th2_nz Tref T x n Hn). Qed.

  (** the implicit temperature operator, entry by entry, is the advection of T_ref by the
      divergent part of sigma_dot minus kappa T_ref (omega/p)[divergence] *)
  Theorem C04_H_is_explicit_counterpart (d : nat -> F) r :
    (r < cK c)%nat ->
    temp_implicit_col c d r
    = vertical_tendency c (sigma_dot c d) (cTref c) r - ckappa c * (cTref c r * g_part c d r).
  Proof. exact (implicit_temperature_is_explicit_counterpart two_nz c th2_nz d r). Qed.

  Theorem C04_lnps_invariance (T1 T2 T : nat -> F) (x : NCol) :
    let c1 := with_tref c T1 in let c2 := with_tref c T2 in
    let x1 := with_temp x (fun k => T k - T1 k) in let x2 := with_temp x (fun k => T k - T2 k) in
    log_pressure_tendency c1 x1 + lnps_implicit_col c1 (n_div x)
    = log_pressure_tendency c2 x2 + lnps_implicit_col c2 (n_div x).
  Proof. exact (lnps_invariance c T1 T2 T x). Qed.

  (** divergence / vorticity equations, nodal layer: combined_(u,v) plus the vector
      (R T_ref + (Rv - R) T_ref q) sec2 grad(lnps) represented by the implicit term and the
      humidity corrections depends on the absolute temperature only (dry: q = 0) *)
  Theorem C04_effective_pgf_invariant (va : bool) (m : Moist) (T1 T2 T q : nat -> F) (x : NCol) k :
    cR c <> 0 ->
    let c1 := with_tref c T1 in let c2 := with_tref c T2 in
    let x1 := with_temp x (fun j => T j - T1 j) in let x2 := with_temp x (fun j => T j - T2 j) in
    effective_pgf_u c1 va m x1 (rt_moist c1 m x1 q) q k = effective_pgf_u c2 va m x2 (rt_moist c2 m x2 q) q k /\
    effective_pgf_v c1 va m x1 (rt_moist c1 m x1 q) q k = effective_pgf_v c2 va m x2 (rt_moist c2 m x2 q) q k.
  Proof. intros HR. exact (effective_pgf_invariant c HR va m T1 T2 T q x k). Qed.

  Theorem C04_effective_pgf_invariant_dry (va : bool) (m : Moist) (T1 T2 T : nat -> F) (x : NCol) k :
    let c1 := with_tref c T1 in let c2 := with_tref c T2 in
    let x1 := with_temp x (fun j => T j - T1 j) in let x2 := with_temp x (fun j => T j - T2 j) in
    let z := fun _ : nat => 0 in
    effective_pgf_u c1 va m x1 (rt_dry c1 x1) z k = effective_pgf_u c2 va m x2 (rt_dry c2 x2) z k /\
    effective_pgf_v c1 va m x1 (rt_dry c1 x1) z k = effective_pgf_v c2 va m x2 (rt_dry c2 x2) z k.
  Proof. exact (effective_pgf_invariant_dry c va m T1 T2 T x k). Qed.

  (** cloud class: the split dependence, exactly *)
  Theorem C04_effective_pgf_cloud_defect (va : bool) (m : Moist) (T1 T2 T q qc qi : nat -> F) (x : NCol) k :
    cR c <> 0 ->
    let c1 := with_tref c T1 in let c2 := with_tref c T2 in
    let x1 := with_temp x (fun j => T j - T1 j) in let x2 := with_temp x (fun j => T j - T2 j) in
    effective_pgf_u c1 va m x1 (rt_cloud c1 m x1 q qc qi) q k - effective_pgf_u c2 va m x2 (rt_cloud c2 m x2 q qc qi) q k
    = cR c * (T1 k - T2 k) * (qc k + qi k) * n_gx x * n_sec2 x.
  Proof. intros HR. exact (effective_pgf_cloud_defect c HR va m T1 T2 T q qc qi x k). Qed.

  (** *** the np.unique branch *)
  (** when the code skips the branch, the skipped term is exactly zero *)
  Theorem C04_unique_branch_zero (w : nat -> F) n :
    (n < cK c)%nat -> tref_nonuniform c = false -> vertical_tendency c w (cTref c) n = 0.
  Proof. exact (unique_branch_zero feqb_sound c w n). Qed.
  (** hence the vertical temperature tendency is the same function whichever way the test goes *)
  Theorem C04_unique_branch_free (va : bool) (x : NCol) n :
    (n < cK c)%nat ->
    temp_vertical_tendency c va x n
    = (if va then vertical_tendency c (sigma_dot_full c x) (n_temp x) n else 0)
      + vertical_tendency c (sigma_dot_explicit c x) (cTref c) n.
  Proof. exact (temp_vertical_tendency_branch_free feqb_sound c va x n). Qed.
  (** and the test is exactly "some entry differs from the first" *)
  Theorem C04_unique_test_iff :
    (forall x : F, feqb x x = true) ->
    (tref_nonuniform c = true <-> exists k, (k < cK c)%nat /\ cTref c k <> cTref c 0%nat).
  Proof. intros Hr. exact (tref_nonuniform_iff feqb_sound c Hr). Qed.

  (** *** include_vertical_advection = False (outside the property): the sum keeps the advection of
      the reference profile by the full sigma_dot; invariant only for level-uniform profiles *)
  Theorem C04_no_vertical_advection_closed_form (Tref T : nat -> F) (x : NCol) n :
    (n < cK c)%nat ->
    let ci := with_tref c Tref in let xi := with_temp x (fun k => T k - Tref k) in
    temp_vertical_tendency ci false xi n + temp_adiabatic ci xi n + temp_implicit_col ci (n_div x) n
    = vertical_tendency c (sigma_dot_full c x) Tref n
      + ckappa c * (T n * (u_dot_grad x n - g_part c (g_full_adiabatic x) n)).
  Proof. intros Hn. exact (tref_split_closed_no_va two_nz feqb_sound c th2_nz Tref T x n Hn). Qed.
  Theorem C04_no_vertical_advection_uniform_invariance (T1 T2 T : nat -> F) (x : NCol) n :
    (n < cK c)%nat ->
    (forall k, (k < cK c)%nat -> T1 k = T1 0%nat) -> (forall k, (k < cK c)%nat -> T2 k = T2 0%nat) ->
    let c1 := with_tref c T1 in let c2 := with_tref c T2 in
    let x1 := with_temp x (fun k => T k - T1 k) in let x2 := with_temp x (fun k => T k - T2 k) in
    temp_vertical_tendency c1 false x1 n + temp_adiabatic c1 x1 n + temp_implicit_col c1 (n_div x) n
    = temp_vertical_tendency c2 false x2 n + temp_adiabatic c2 x2 n + temp_implicit_col c2 (n_div x) n.
  Proof. intros Hn U1 U2. exact (tref_split_invariance_no_va_uniform two_nz feqb_sound c th2_nz T1 T2 T x n Hn U1 U2). Qed.
End C04.

(** *** the modal layer: explicit_terms + implicit_terms over abstract linear
    horizontal operators (to_nodal, to_modal, div_cos_lat, curl_cos_lat,
    laplacian, clip_wavenumbers), with the exactness facts about the grid as
    named hypotheses (numerically re-checked per explored grid by the plugin). *)
Section C04_modal.
  Context {F : Type} {o : Ops F} {Fc : FieldC o}.
  Hypothesis two_nz : two <> 0.
  Hypothesis feqb_sound : forall x y : F, feqb x y = true -> x = y.
  Variables W P : Type.
  Variable toN : (W -> F) -> P -> F.
  Variable toM : (P -> F) -> W -> F.
  Variable divc curlc : (W -> F) -> (W -> F) -> W -> F.
  Variable lap clip : (W -> F) -> W -> F.
  Hypothesis toM_lin : Thm.PrimEq.linear toM.
  Hypothesis divc_lin : Thm.PrimEq.linear2 divc.
  Hypothesis curlc_lin : Thm.PrimEq.linear2 curlc.
  Hypothesis lap_lin : Thm.PrimEq.linear lap.
  Hypothesis clip_lin : Thm.PrimEq.linear clip.
  Variable c : @PEcfg F.
  Hypothesis th2_nz : forall k, (S k < cK c)%nat -> thickness (cb c) k + thickness (cb c) (S k) <> 0.
  Variable grav : F.
  (** the state: nodal columns, absolute nodal temperature, modal divergence, modal
      absolute temperature, modal lnps, modal coefficients of the constant one, orography *)
  Variable X : P -> @NCol F.
  Variable T : nat -> P -> F.
  Variable dv Tm : nat -> W -> F.
  Variable lnps onem orog : W -> F.
  Hypothesis div_nodal : forall p k, n_div (X p) k = toN (dv k) p.
  (** admissible state: divergence survives to_nodal -> to_modal -> clip; the velocity has that divergence *)
  Hypothesis H_roundtrip : forall s w, clip (toM (toN (dv s))) w = dv s w.
  Hypothesis H_div_vel : forall r w,
      clip (divc (toM (fun p => n_u (X p) r * n_sec2 (X p))) (toM (fun p => n_v (X p) r * n_sec2 (X p)))) w
      = clip (toM (fun p => n_div (X p) r)) w.
  (** div(sec2 grad lnps) = laplacian lnps, curl(sec2 grad lnps) = 0, laplacian(const) = 0 *)
  Hypothesis H_div_grad : forall w,
      clip (divc (toM (fun p => n_gx (X p) * n_sec2 (X p))) (toM (fun p => n_gy (X p) * n_sec2 (X p)))) w = lap lnps w.
  Hypothesis H_curl_grad : forall w,
      clip (curlc (toM (fun p => n_gx (X p) * n_sec2 (X p))) (toM (fun p => n_gy (X p) * n_sec2 (X p)))) w = 0.
  Hypothesis lap_const : forall w, lap onem w = 0.

  (** a column operator commutes with a linear horizontal operator acting level by level *)
  Theorem C04_column_commutes {A B} (L : (A -> F) -> B -> F) (HL : Thm.PrimEq.linear L)
          (K : nat) (M : Mat) (xs : nat -> A -> F) (r : nat) (b : B) :
    L (fun a => matvec K M (fun s => xs s a) r) b = matvec K M (fun s => L (xs s) b) r.
  Proof. exact (column_commutes L HL K M xs r b). Qed.

  (** modal temperature tendency, explicit (clipped) + implicit, every coefficient *)
  Theorem C04_temperature_modal_invariance (T1 T2 : nat -> F) r w :
    (r < cK c)%nat ->
    temp_tendency_explicit W P toM divc clip (with_tref c T1) (Xs P X T T1) r w
    + temp_tendency_implicit W (with_tref c T1) dv r w
    = temp_tendency_explicit W P toM divc clip (with_tref c T2) (Xs P X T T2) r w
      + temp_tendency_implicit W (with_tref c T2) dv r w.
  Proof.
    intros Hr.
    rewrite !(temperature_modal_closed two_nz feqb_sound W P toN toM divc clip toM_lin divc_lin clip_lin c th2_nz
                X T dv div_nodal H_roundtrip H_div_vel _ r w Hr).
    reflexivity.
  Qed.

  (** modal divergence tendency (dry / with-time classes, any orography) *)
  Theorem C04_divergence_invariance (T1 T2 : nat -> F) r w :
    div_tendency_explicit W P toM divc lap clip (with_tref c T1) grav (Xs P X T T1)
                          (fun p => rt_dry (with_tref c T1) (Xs P X T T1 p)) orog (fun _ => 0) r w
    + div_tendency_implicit W lap (with_tref c T1) (Tms W Tm onem T1) lnps r w
    = div_tendency_explicit W P toM divc lap clip (with_tref c T2) grav (Xs P X T T2)
                            (fun p => rt_dry (with_tref c T2) (Xs P X T T2 p)) orog (fun _ => 0) r w
      + div_tendency_implicit W lap (with_tref c T2) (Tms W Tm onem T2) lnps r w.
  Proof.
    rewrite !(divergence_modal_closed W P toM divc lap clip toM_lin divc_lin lap_lin clip_lin c grav X T Tm
                lnps onem orog H_div_grad lap_const _ r w).
    reflexivity.
  Qed.

  (** modal vorticity tendency (its implicit part is zero) *)
  Theorem C04_vorticity_invariance (T1 T2 : nat -> F) r w :
    vort_tendency_explicit W P toM curlc clip (with_tref c T1) (Xs P X T T1)
                           (fun p => rt_dry (with_tref c T1) (Xs P X T T1 p)) (fun _ => 0) r w
    = vort_tendency_explicit W P toM curlc clip (with_tref c T2) (Xs P X T T2)
                             (fun p => rt_dry (with_tref c T2) (Xs P X T T2 p)) (fun _ => 0) r w.
  Proof.
    rewrite !(vorticity_modal_closed W P toM curlc clip toM_lin curlc_lin clip_lin c X T H_curl_grad _ r w).
    reflexivity.
  Qed.
  (** *** moist classes (MoistPrimitiveEquations; the cloud class with zero condensate) *)
  Variable m : @Moist F.
  Hypothesis R_nz : cR c <> 0.
  (** nodal specific humidity, its nodal cos_lat_grad, nodal laplacian(lnps) *)
  Variable q gqx gqy : P -> nat -> F.
  Variable lapn : P -> F.
  (** Leibniz rule on the nodal side (alias-free product q * grad lnps):
      div(q sec2 grad lnps) = q lap(lnps) + sec2 grad q . grad lnps,
      curl(q sec2 grad lnps) = - sec2 (grad lnps x grad q) *)
  Hypothesis H_leibniz : forall r w,
      clip (fun w' => divc (toM (qgx P X q r)) (toM (qgy P X q r)) w' - toM (leib_div P X q gqx gqy lapn r) w') w = 0.
  Hypothesis H_leibniz_curl : forall r w,
      clip (fun w' => curlc (toM (qgx P X q r)) (toM (qgy P X q r)) w' + toM (leib_curl P X gqx gqy r) w') w = 0.

  (** modal divergence tendency with virtual temperature and divergence_tendency_due_to_humidity *)
  Theorem C04_divergence_invariance_moist (T1 T2 : nat -> F) r w :
    div_tendency_explicit W P toM divc lap clip (with_tref c T1) grav (Xs P X T T1)
        (fun p => rt_moist (with_tref c T1) m (Xs P X T T1 p) (q p)) orog
        (fun w' => humidity_div_modal W P toM lap (with_tref c T1) m (Xs P X T T1) q gqx gqy lapn r w') r w
    + div_tendency_implicit W lap (with_tref c T1) (Tms W Tm onem T1) lnps r w
    = div_tendency_explicit W P toM divc lap clip (with_tref c T2) grav (Xs P X T T2)
          (fun p => rt_moist (with_tref c T2) m (Xs P X T T2 p) (q p)) orog
          (fun w' => humidity_div_modal W P toM lap (with_tref c T2) m (Xs P X T T2) q gqx gqy lapn r w') r w
      + div_tendency_implicit W lap (with_tref c T2) (Tms W Tm onem T2) lnps r w.
  Proof.
    rewrite !(divergence_modal_closed_moist W P toM divc lap clip toM_lin divc_lin lap_lin clip_lin c R_nz grav m
                X T Tm lnps onem orog q gqx gqy lapn H_div_grad lap_const H_leibniz _ r w).
    reflexivity.
  Qed.

  (** modal vorticity tendency with virtual temperature and vorticity_tendency_due_to_humidity *)
  Theorem C04_vorticity_invariance_moist (T1 T2 : nat -> F) r w :
    vort_tendency_explicit W P toM curlc clip (with_tref c T1) (Xs P X T T1)
        (fun p => rt_moist (with_tref c T1) m (Xs P X T T1 p) (q p))
        (fun w' => humidity_curl_modal W P toM (with_tref c T1) m (Xs P X T T1) gqx gqy r w') r w
    = vort_tendency_explicit W P toM curlc clip (with_tref c T2) (Xs P X T T2)
          (fun p => rt_moist (with_tref c T2) m (Xs P X T T2 p) (q p))
          (fun w' => humidity_curl_modal W P toM (with_tref c T2) m (Xs P X T T2) gqx gqy r w') r w.
  Proof.
    rewrite !(vorticity_modal_closed_moist W P toM curlc clip toM_lin curlc_lin clip_lin c R_nz m X T q gqx gqy
                H_curl_grad H_leibniz_curl _ r w).
    reflexivity.
  Qed.
  (** modal temperature tendency with the moist adiabatic term *)
  Theorem C04_temperature_modal_invariance_moist (T1 T2 : nat -> F) r w :
    (r < cK c)%nat ->
    (forall p, 1 + (mCpv m / (cR c / ckappa c) - 1) * q p r <> 0) ->
    temp_tendency_explicit_moist W P toM divc clip (with_tref c T1) m (Xs P X T T1) q r w
    + temp_tendency_implicit W (with_tref c T1) dv r w
    = temp_tendency_explicit_moist W P toM divc clip (with_tref c T2) m (Xs P X T T2) q r w
      + temp_tendency_implicit W (with_tref c T2) dv r w.
  Proof.
    intros Hr Hq.
    rewrite !(temperature_modal_closed_moist two_nz feqb_sound W P toN toM divc clip toM_lin divc_lin clip_lin c th2_nz
                X T dv div_nodal m q H_roundtrip H_div_vel _ r w Hr Hq).
    reflexivity.
  Qed.
End C04_modal.

(** *** the END-TO-END executable whole-state model (Model/PrimEqFull.v): compute_diagnostic_state,
    explicit_terms, implicit_terms, implicit_inverse composed from the concrete transforms of Model/SHT.v
    and the concrete spectral operators of Model/Deriv.v on the reference layout.  What the plugin
    executes against the real explicit_terms / implicit_terms / implicit_inverse is, field by field,
    the ModalAssembly instance the theorems above are about. *)
Section C04_whole_state.
  Context {F : Type} {o : Ops F} {Fc : FieldC o}.
  Hypothesis two_nz : two <> 0.
  Hypothesis feqb_sound : forall x y : F, feqb x y = true -> x = y.
  Variable g : @HGrid F.
  Variable c : @PEcfg F.
  Variable grav : F.

  (** (a) executed = assembled: every coefficient of every field of explicit_terms_full *)
  Theorem C04_whole_state_is_assembly (orog : nat -> nat -> F) (s : @State F) k a l :
    (k < cK c)%nat -> (a < hR g)%nat -> (l < hL g)%nat ->
    let X := X_of g (diagnostic_state g (cK c) s) in
    s_vort (explicit_terms_full g c grav orog s) k a l
    = vort_tendency_explicit Wi Wi (toM_c g) (curlc_c g) (clip_c g) c X (fun p => rt_dry c (X p)) (fun _ => 0) k (a, l) /\
    s_div (explicit_terms_full g c grav orog s) k a l
    = div_tendency_explicit Wi Wi (toM_c g) (divc_c g) (lap_c g) (clip_c g) c grav X (fun p => rt_dry c (X p))
                            (unc orog) (fun _ => 0) k (a, l) /\
    s_temp (explicit_terms_full g c grav orog s) k a l
    = temp_tendency_explicit Wi Wi (toM_c g) (divc_c g) (clip_c g) c X k (a, l) /\
    s_lnps (explicit_terms_full g c grav orog s) a l = lnps_tendency_explicit_c g c X (a, l).
  Proof. exact (explicit_terms_full_is_assembly g c grav orog s k a l). Qed.

  (** (b) the concrete operators are linear and the concrete laplacian kills the (0,0)-only field:
      the linearity / lap_const premises of the modal theorems are discharged for the executable model *)
  Theorem C04_concrete_operators_linear :
    Thm.PrimEq.linear (toM_c g) /\ Thm.PrimEq.linear2 (divc_c g) /\ Thm.PrimEq.linear2 (curlc_c g) /\
    Thm.PrimEq.linear (lap_c g) /\ Thm.PrimEq.linear (clip_c g) /\ (forall v w, lap_c g (onem00 v) w = 0).
  Proof.
    split; [apply toM_c_lin|]. split; [apply divc_c_lin|]. split; [apply curlc_c_lin|].
    split; [apply lap_c_lin|]. split; [apply clip_c_lin|]. intros v w. apply lap_c_const.
  Qed.

  (** ... hence explicit + implicit of the executable composition does not depend on the split, under the
      exactness facts about the grid tables only *)
  Hypothesis th2_nz : forall k, (S k < cK c)%nat -> thickness (cb c) k + thickness (cb c) (S k) <> 0.
  Variable X : Wi -> @NCol F.
  Variable T : nat -> Wi -> F.
  Variable dv Tm : nat -> Wi -> F.
  Variable lnps orog : Wi -> F.
  Variable v00 : F.
  Hypothesis div_nodal : forall p k, n_div (X p) k = toN_c g (dv k) p.
  Hypothesis H_roundtrip : forall s w, clip_c g (toM_c g (toN_c g (dv s))) w = dv s w.
  Hypothesis H_div_vel : forall r w,
      clip_c g (divc_c g (toM_c g (fun p => n_u (X p) r * n_sec2 (X p))) (toM_c g (fun p => n_v (X p) r * n_sec2 (X p)))) w
      = clip_c g (toM_c g (fun p => n_div (X p) r)) w.
  Hypothesis H_div_grad : forall w,
      clip_c g (divc_c g (toM_c g (fun p => n_gx (X p) * n_sec2 (X p))) (toM_c g (fun p => n_gy (X p) * n_sec2 (X p)))) w
      = lap_c g lnps w.
  Hypothesis H_curl_grad : forall w,
      clip_c g (curlc_c g (toM_c g (fun p => n_gx (X p) * n_sec2 (X p))) (toM_c g (fun p => n_gy (X p) * n_sec2 (X p)))) w = 0.

  Theorem C04_whole_state_temperature_invariance (T1 T2 : nat -> F) r w :
    (r < cK c)%nat ->
    temp_tendency_explicit Wi Wi (toM_c g) (divc_c g) (clip_c g) (with_tref c T1) (Xs Wi X T T1) r w
    + temp_tendency_implicit Wi (with_tref c T1) dv r w
    = temp_tendency_explicit Wi Wi (toM_c g) (divc_c g) (clip_c g) (with_tref c T2) (Xs Wi X T T2) r w
      + temp_tendency_implicit Wi (with_tref c T2) dv r w.
  Proof. exact (temperature_invariance_concrete two_nz feqb_sound g c th2_nz X T dv div_nodal H_roundtrip H_div_vel T1 T2 r w). Qed.

  Theorem C04_whole_state_divergence_invariance (T1 T2 : nat -> F) r w :
    div_tendency_explicit Wi Wi (toM_c g) (divc_c g) (lap_c g) (clip_c g) (with_tref c T1) grav (Xs Wi X T T1)
                          (fun p => rt_dry (with_tref c T1) (Xs Wi X T T1 p)) orog (fun _ => 0) r w
    + div_tendency_implicit Wi (lap_c g) (with_tref c T1) (Tms Wi Tm (onem00 v00) T1) lnps r w
    = div_tendency_explicit Wi Wi (toM_c g) (divc_c g) (lap_c g) (clip_c g) (with_tref c T2) grav (Xs Wi X T T2)
                            (fun p => rt_dry (with_tref c T2) (Xs Wi X T T2 p)) orog (fun _ => 0) r w
      + div_tendency_implicit Wi (lap_c g) (with_tref c T2) (Tms Wi Tm (onem00 v00) T2) lnps r w.
  Proof. exact (divergence_invariance_concrete g c grav X T Tm lnps orog v00 H_div_grad T1 T2 r w). Qed.

  Theorem C04_whole_state_vorticity_invariance (T1 T2 : nat -> F) r w :
    vort_tendency_explicit Wi Wi (toM_c g) (curlc_c g) (clip_c g) (with_tref c T1) (Xs Wi X T T1)
                           (fun p => rt_dry (with_tref c T1) (Xs Wi X T T1 p)) (fun _ => 0) r w
    = vort_tendency_explicit Wi Wi (toM_c g) (curlc_c g) (clip_c g) (with_tref c T2) (Xs Wi X T T2)
                             (fun p => rt_dry (with_tref c T2) (Xs Wi X T T2 p)) (fun _ => 0) r w.
  Proof. exact (vorticity_invariance_concrete g c X T H_curl_grad T1 T2 r w). Qed.
  (** the lift of these three to two EXECUTED states is [C04_whole_state_split_invariance] below. *)

  (** (c) implicit half: linear, and implicit_inverse_full inverts 1 - eta * implicit_terms_full, per coefficient *)
  Theorem C04_whole_state_implicit_linear (al be : F) (x y z : @State F) a l :
    col_eq (cK c) (col_of z a l) (col_lin al (col_of x a l) be (col_of y a l)) ->
    col_eq (cK c) (col_of (implicit_terms_full g c z) a l)
                  (col_lin al (col_of (implicit_terms_full g c x) a l) be (col_of (implicit_terms_full g c y) a l)).
  Proof. exact (implicit_terms_full_linear g c al be x y z a l). Qed.

  Theorem C04_whole_state_resolvent (eta : F) (invt : nat -> @Mat F) (x : @State F) a l :
    is_left_inverse (2 * cK c + 1) (invt l) (implicit_matrix c eta (Model.Deriv.lap_eig (hL g) (hr g) l)) ->
    thickness (cb c) 0%nat <> 0 -> thickness (cb c) (cK c - 1)%nat <> 0 ->
    col_eq (cK c)
           (col_of (implicit_inverse_full g c eta invt (state_minus_scaled x eta (implicit_terms_full g c x))) a l)
           (col_of x a l) /\
    (forall k, s_vort (implicit_inverse_full g c eta invt (state_minus_scaled x eta (implicit_terms_full g c x))) k a l
               = s_vort x k a l).
  Proof. exact (implicit_inverse_full_resolvent feqb_sound g c eta invt x a l). Qed.
End C04_whole_state.

(** *** a concrete instance over Qc: uneven 3-layer levels, non-uniform profiles *)
Definition q3 (l : list Q) : nat -> Qc := fun k => Q2Qc (nth k l 0%Q).
Definition ex_cfg : @PEcfg Qc :=
  mkPE 3 (Q2Qc (1#3)) (Q2Qc (2#7)) (q3 [-(2#1); -(7#10); -(1#8)]%Q) (q3 [0; 1#4; 3#4; 1]%Q) (q3 [250#1; 250#1; 250#1]%Q).
Definition ex_col : @NCol Qc :=
  mkNCol (q3 [1; 2; -(1#2)]%Q) (q3 [-(1#1); 1#2; 3#4]%Q) (q3 [1#2; -(1#3); 1#5]%Q) (q3 [1#5; -(1#7); 2#3]%Q)
         (q3 [0; 0; 0]%Q) (Q2Qc (1#10)) (Q2Qc (-(1#5))) (Q2Qc (4#3)) (Q2Qc (1#2)).
Definition ex_moist : @Moist Qc := mkMoist (Q2Qc (8#15)) (Q2Qc (2#1)).
Definition ex_T1 := q3 [250#1; 260#1; 281#1]%Q.
Definition ex_T2 := q3 [240#1; 275#1; 275#1]%Q.
Definition ex_T := q3 [255#1; 268#1; 290#1]%Q.
Definition ex_q := q3 [1#100; 1#50; 1#40]%Q.

Lemma Qc_feqb_sound : forall x y : Qc, @feqb Qc QcOps x y = true -> x = y.
Proof. intros x y H. apply Qc_is_canon. now apply Qeq_bool_eq. Qed.

(** Non-vacuity: the hypotheses hold on the instance, and on it the explicit part
    alone DOES depend on the split (so the implicit term is essential). *)
Example C04_hyps_satisfiable :
  (@two Qc QcOps <> 0) /\
  (forall k, (S k < cK ex_cfg)%nat -> thickness (cb ex_cfg) k + thickness (cb ex_cfg) (S k) <> 0) /\
  (forall k, (k < cK ex_cfg)%nat -> thickness (cb ex_cfg) k <> 0) /\
  (forall n, (n < 3)%nat -> 1 + (mCpv ex_moist / (cR ex_cfg / ckappa ex_cfg) - 1) * ex_q n <> 0) /\
  (let c1 := with_tref ex_cfg ex_T1 in let c2 := with_tref ex_cfg ex_T2 in
   let x1 := with_temp ex_col (fun k => ex_T k - ex_T1 k) in let x2 := with_temp ex_col (fun k => ex_T k - ex_T2 k) in
   temp_vertical_tendency c1 true x1 1 + temp_adiabatic c1 x1 1 <> temp_vertical_tendency c2 true x2 1 + temp_adiabatic c2 x2 1 /\
   temp_vertical_tendency c1 true x1 1 + temp_adiabatic c1 x1 1 + temp_implicit_col c1 (n_div ex_col) 1
   = temp_vertical_tendency c2 true x2 1 + temp_adiabatic c2 x2 1 + temp_implicit_col c2 (n_div ex_col) 1).
Proof.
  split; [|split; [|split; [|split]]].
  - intro H. discriminate H.
  - intros k Hk. destruct k as [|[|k]]; [| |cbn in Hk; lia]; intro H; vm_compute in H; discriminate H.
  - intros k Hk. destruct k as [|[|[|k]]]; [| | |cbn in Hk; lia]; intro H; vm_compute in H; discriminate H.
  - intros n Hn. destruct n as [|[|[|n]]]; [| | |lia]; intro H; vm_compute in H; discriminate H.
  - cbv zeta. split.
    + intro H. vm_compute in H. discriminate H.
    + apply Qc_is_canon. vm_compute. reflexivity.
Qed.

(** Non-vacuity of the modal hypotheses: a one-coefficient / one-node instance
    (to_nodal, to_modal, clip = identity, laplacian = multiplication by -2,
    div(x,y) = x, curl(x,y) = b x - a y) on which every hypothesis of
    [C04_modal] holds with non-zero data. *)
Section TrivialOps.
  Context {F : Type} {o : Ops F} {Fc : FieldC o}.
  Add Field FFt : (field_c : FieldTh o).
  Definition tI (x : unit -> F) (w : unit) : F := x tt.
  Definition tD (x y : unit -> F) (w : unit) : F := x tt.
  Definition tC (a b : F) (x y : unit -> F) (w : unit) : F := b * x tt - a * y tt.
  Definition tL (lam : F) (x : unit -> F) (w : unit) : F := lam * x tt.
  Lemma tI_lin : Thm.PrimEq.linear tI.
  Proof. split; [intros x y H b; apply H | intros; unfold tI; ring]. Qed.
  Lemma tL_lin lam : Thm.PrimEq.linear (tL lam).
  Proof. split; [intros x y H b; unfold tL; now rewrite H | intros; unfold tL; ring]. Qed.
  Lemma tD_lin : Thm.PrimEq.linear2 tD.
  Proof. split; [intros x1 y1 x2 y2 H1 H2 b; apply H1 | intros; unfold tD; ring]. Qed.
  Lemma tC_lin a b : Thm.PrimEq.linear2 (tC a b).
  Proof. split; [intros x1 y1 x2 y2 H1 H2 w; unfold tC; now rewrite H1, H2 | intros; unfold tC; ring]. Qed.
End TrivialOps.

Definition ex_colm : @NCol Qc :=
  mkNCol (q3 [3#20; -(3#28); 1#2]%Q) (n_v ex_col) (n_vort ex_col) (n_div ex_col) (n_temp ex_col)
         (n_gx ex_col) (n_gy ex_col) (n_sec2 ex_col) (n_f ex_col).
Example C04_modal_hyps_satisfiable :
  let X := fun _ : unit => ex_colm in
  let dv := fun (k : nat) (_ : unit) => n_div ex_colm k in
  let lnps := fun _ : unit => Q2Qc (-(1#15)) in
  let onem := fun _ : unit => Q2Qc 0 in
  let lap := tL (Q2Qc (-(2#1))) in
  let curlc := tC (n_gx ex_colm * n_sec2 ex_colm) (n_gy ex_colm * n_sec2 ex_colm) in
  Thm.PrimEq.linear (@tI Qc) /\ Thm.PrimEq.linear2 (@tD Qc) /\ Thm.PrimEq.linear2 curlc /\ Thm.PrimEq.linear lap /\
  (forall p k, n_div (X p) k = tI (dv k) p) /\
  (forall s w, tI (tI (tI (dv s))) w = dv s w) /\
  (forall r w, (r < 3)%nat ->
     tI (tD (tI (fun p => n_u (X p) r * n_sec2 (X p))) (tI (fun p => n_v (X p) r * n_sec2 (X p)))) w
     = tI (tI (fun p => n_div (X p) r)) w) /\
  (forall w, tI (tD (tI (fun p => n_gx (X p) * n_sec2 (X p))) (tI (fun p => n_gy (X p) * n_sec2 (X p)))) w = lap lnps w) /\
  (forall w, tI (curlc (tI (fun p => n_gx (X p) * n_sec2 (X p))) (tI (fun p => n_gy (X p) * n_sec2 (X p)))) w = 0) /\
  (forall w, lap onem w = 0) /\ lap lnps tt <> 0.
Proof.
  cbv zeta.
  split; [apply tI_lin|]. split; [apply tD_lin|]. split; [apply tC_lin|]. split; [apply tL_lin|].
  split; [reflexivity|]. split; [reflexivity|].
  split; [|split; [|split; [|split]]].
  - intros r w Hr. destruct r as [|[|[|r]]]; [| | |lia]; apply Qc_is_canon; vm_compute; reflexivity.
  - intros w. apply Qc_is_canon. vm_compute. reflexivity.
  - intros w. apply Qc_is_canon. vm_compute. reflexivity.
  - intros w. apply Qc_is_canon. vm_compute. reflexivity.
  - intro H. vm_compute in H. discriminate H.
Qed.

(** the Leibniz hypotheses of the moist theorems on the same instance (grad q = 0, lapn = lap lnps) *)
Example C04_modal_moist_hyps_satisfiable :
  let X := fun _ : unit => ex_colm in
  let q := fun (_ : unit) => ex_q in
  let gq := fun (_ : unit) (_ : nat) => Q2Qc 0 in
  let lapn := fun _ : unit => Q2Qc (2#15) in
  let curlc := tC (n_gx ex_colm * n_sec2 ex_colm) (n_gy ex_colm * n_sec2 ex_colm) in
  cR ex_cfg <> 0 /\ lapn tt = tL (Q2Qc (-(2#1))) (fun _ => Q2Qc (-(1#15))) tt /\
  (forall r w, (r < 3)%nat ->
     tI (fun w' => tD (tI (qgx unit X q r)) (tI (qgy unit X q r)) w' - tI (leib_div unit X q gq gq lapn r) w') w = 0) /\
  (forall r w, (r < 3)%nat ->
     tI (fun w' => curlc (tI (qgx unit X q r)) (tI (qgy unit X q r)) w' + tI (leib_curl unit X gq gq r) w') w = 0).
Proof.
  cbv zeta. split; [intro H; vm_compute in H; discriminate H|]. split; [apply Qc_is_canon; vm_compute; reflexivity|].
  split; intros r w Hr; destruct r as [|[|[|r]]]; try lia; apply Qc_is_canon; vm_compute; reflexivity.
Qed.

(** include_vertical_advection = False refutes the invariance for non-uniform profiles (witness over Qc) *)
Theorem C04_no_vertical_advection_refuted :
  let c1 := with_tref ex_cfg ex_T1 in let c2 := with_tref ex_cfg ex_T2 in
  let x1 := with_temp ex_col (fun k => ex_T k - ex_T1 k) in let x2 := with_temp ex_col (fun k => ex_T k - ex_T2 k) in
  temp_vertical_tendency c1 false x1 1 + temp_adiabatic c1 x1 1 + temp_implicit_col c1 (n_div ex_col) 1
  <> temp_vertical_tendency c2 false x2 1 + temp_adiabatic c2 x2 1 + temp_implicit_col c2 (n_div ex_col) 1.
Proof. cbv zeta. intro H. vm_compute in H. discriminate H. Qed.

(** The cloud-moist class refutes the invariance: with non-zero condensate the
    effective pressure-gradient vector depends on the split (witness over Qc). *)
Theorem C04_tref_split_cloud_refuted :
  exists (c : @PEcfg Qc) (m : @Moist Qc) (T1 T2 T q qc qi : nat -> Qc) (x : @NCol Qc) (k : nat),
    (k < cK c)%nat /\ cR c <> 0 /\
    effective_pgf_u (with_tref c T1) true m (with_temp x (fun j => T j - T1 j))
                    (rt_cloud (with_tref c T1) m (with_temp x (fun j => T j - T1 j)) q qc qi) q k
    <> effective_pgf_u (with_tref c T2) true m (with_temp x (fun j => T j - T2 j))
                       (rt_cloud (with_tref c T2) m (with_temp x (fun j => T j - T2 j)) q qc qi) q k.
Proof.
  exists ex_cfg, ex_moist, ex_T1, ex_T2, ex_T, ex_q, (q3 [1#100; 1#100; 1#100]%Q), (q3 [1#200; 0; 1#300]%Q), ex_col, 1%nat.
  split; [cbn; lia|]. split.
  - intro H. vm_compute in H. discriminate H.
  - intro H. vm_compute in H. discriminate H.
Qed.


(** *** the last lift: two EXECUTED whole states with the same absolute temperature (T'_1 + T_1 = T'_2 + T_2
    levelwise, as a shift of the (0,0) coefficient; everything else shared) have the same explicit_terms_full +
    implicit_terms_full on every in-range coefficient of every field.  Premises: the four exactness facts about
    the grid tables on the (unmaterialised) nodal columns of the shared fields, to_nodal(onem00 v00) = 1 on the node
    range (table obligation), and that the two profiles agree beyond the K entries the code has.  Uses
    functional_extensionality (stdlib) only to identify nodal-column records whose level functions agree pointwise. *)
Section C04_whole_state_lift.
  Context {F : Type} {o : Ops F} {Fc : FieldC o}.
  Hypothesis two_nz : two <> 0.
  Hypothesis feqb_sound : forall x y : F, feqb x y = true -> x = y.
  Variable g : @HGrid F.
  Variable c : @PEcfg F.
  Hypothesis th2_nz : forall k, (S k < cK c)%nat -> thickness (cb c) k + thickness (cb c) (S k) <> 0.
  Variable grav : F.
  Variable orog : nat -> nat -> F.
  Variable s0 : @State F.
  Variables temp1 temp2 : nat -> nat -> nat -> F.
  Variables T1 T2 : nat -> F.
  Variable v00 : F.
  Hypothesis H_one : forall i j, (i < hI g)%nat -> (j < hJ g)%nat -> to_nodal g (cur (onem00 v00)) i j = 1.
  Hypothesis Htemp : forall k a l, (k < cK c)%nat -> (a < hR g)%nat -> (l < hL g)%nat ->
      temp1 k a l + T1 k * onem00 v00 (a, l) = temp2 k a l + T2 k * onem00 v00 (a, l).
  Hypothesis Hbeyond : forall k, (cK c <= k)%nat -> T1 k = T2 k.
  Let X := X_ideal g (cK c) s0.
  Let dv := dv_of (cK c) s0.
  Let lnps := unc (s_lnps s0).
  Hypothesis H_roundtrip : forall s w, clip_c g (toM_c g (toN_c g (dv s))) w = dv s w.
  Hypothesis H_div_vel : forall r w,
      clip_c g (divc_c g (toM_c g (fun p => n_u (X p) r * n_sec2 (X p))) (toM_c g (fun p => n_v (X p) r * n_sec2 (X p)))) w
      = clip_c g (toM_c g (fun p => n_div (X p) r)) w.
  Hypothesis H_div_grad : forall w,
      clip_c g (divc_c g (toM_c g (fun p => n_gx (X p) * n_sec2 (X p))) (toM_c g (fun p => n_gy (X p) * n_sec2 (X p)))) w
      = lap_c g lnps w.
  Hypothesis H_curl_grad : forall w,
      clip_c g (curlc_c g (toM_c g (fun p => n_gx (X p) * n_sec2 (X p))) (toM_c g (fun p => n_gy (X p) * n_sec2 (X p)))) w = 0.

  Theorem C04_whole_state_split_invariance k a l :
    (k < cK c)%nat -> (a < hR g)%nat -> (l < hL g)%nat ->
    let s1 := with_stemp s0 temp1 in let s2 := with_stemp s0 temp2 in
    let c1 := with_tref c T1 in let c2 := with_tref c T2 in
    let E1 := explicit_terms_full g c1 grav orog s1 in let I1 := implicit_terms_full g c1 s1 in
    let E2 := explicit_terms_full g c2 grav orog s2 in let I2 := implicit_terms_full g c2 s2 in
    s_vort E1 k a l + s_vort I1 k a l = s_vort E2 k a l + s_vort I2 k a l /\
    s_div E1 k a l + s_div I1 k a l = s_div E2 k a l + s_div I2 k a l /\
    s_temp E1 k a l + s_temp I1 k a l = s_temp E2 k a l + s_temp I2 k a l /\
    s_lnps E1 a l + s_lnps I1 a l = s_lnps E2 a l + s_lnps I2 a l.
  Proof.
    intros Hk Ha Hl.
    exact (whole_state_split_invariance two_nz feqb_sound g c th2_nz grav orog s0 temp1 temp2 T1 T2 v00 H_one Htemp Hbeyond
             H_roundtrip H_div_vel H_div_grad H_curl_grad k a l Hk Ha Hl).
  Qed.
End C04_whole_state_lift.


(** *** the moist classes through the whole-state model: MoistPrimitiveEquations.explicit_terms (cloud = false) and
    MoistPrimitiveEquationsWithCloudMoisture.explicit_terms (cloud = true) as executed are, coefficient by coefficient,
    the ModalAssembly instance with the virtual temperature, the moist adiabatic term and the humidity corrections that
    C04_*_invariance_moist are about *)
Section C04_whole_state_moist.
  Context {F : Type} {o : Ops F} {Fc : FieldC o}.
  Variable g : @HGrid F.
  Variable c : @PEcfg F.
  Variable m : @Moist F.
  Variable grav : F.
  Variable orog : nat -> nat -> F.
  Theorem C04_whole_state_moist_is_assembly (cloud : bool) (s : @State F) k a l :
    (k < cK c)%nat -> (a < hR g)%nat -> (l < hL g)%nat ->
    let d := diagnostic_state g (cK c) s in
    let md := moist_diag g (cK c) s in
    let X := X_of g d in
    let rt := rt_full g cloud c m d in
    let q := trn d 0 in
    let gqx := gq_of (m_gqx md) in let gqy := gq_of (m_gqy md) in
    let lapn := fun p : Wi => m_lap md (fst p) (snd p) in
    let E := explicit_terms_full_moist g cloud c m grav orog s in
    s_vort E k a l
    = vort_tendency_explicit Wi Wi (toM_c g) (curlc_c g) (clip_c g) c X rt
                             (fun w' => humidity_curl_modal Wi Wi (toM_c g) c m X gqx gqy k w') k (a, l) /\
    s_div E k a l
    = div_tendency_explicit Wi Wi (toM_c g) (divc_c g) (lap_c g) (clip_c g) c grav X rt (unc orog)
                            (fun w' => humidity_div_modal Wi Wi (toM_c g) (lap_c g) c m X q gqx gqy lapn k w') k (a, l) /\
    s_temp E k a l = temp_tendency_explicit_moist Wi Wi (toM_c g) (divc_c g) (clip_c g) c m X q k (a, l) /\
    s_lnps E a l = lnps_tendency_explicit_c g c X (a, l).
  Proof. exact (explicit_terms_full_moist_is_assembly g c m grav orog cloud s k a l). Qed.
End C04_whole_state_moist.

(** *** non-vacuity of the whole-state theorems: a concrete toy grid and state over Qc *)
(** toy zonal "sphere" over Qc: M = 1 (R = 1), L = 3, one longitude, two latitudes mu = -1/2, +1/2 with weights 1/2;
    basis values p0 = 1, p1 = mu / (1/2), p2 = 0 at the nodes; recurrence weights chosen so that the
    discrete operators are exact on degree <= 1 (a[0,1] = 3/4, b[0,0] = 1/2) *)
Definition qz : Qc := Q2Qc 0.
Definition toy_grid : @HGrid Qc :=
  mkHG 1 3 1 2 (Q2Qc 1)
    (fun i a => match i, a with O, O => Q2Qc 1 | _, _ => qz end)
    (fun a j l => match a with
                  | O => match l with
                         | O => match j with O => Q2Qc 1 | S O => Q2Qc 1 | _ => qz end
                         | S O => match j with O => Q2Qc (-(1#1)) | S O => Q2Qc 1 | _ => qz end
                         | _ => qz end
                  | _ => qz end)
    (fun j => match j with O => Q2Qc (1#2) | S O => Q2Qc (1#2) | _ => qz end)
    (fun a l => match a with O => match l with S O => Q2Qc (3#4) | S (S O) => Q2Qc (1#3) | _ => qz end | _ => qz end)
    (fun a l => match a with O => match l with O => Q2Qc (1#2) | S O => Q2Qc (1#5) | _ => qz end | _ => qz end)
    (fun j => Q2Qc (4#3))
    (fun j => match j with O => Q2Qc (-(1#2)) | _ => Q2Qc (1#2) end)
    (Q2Qc (1#7)).
(** a two-level state on it: zero-mean vorticity / divergence of degree 1, temperature and lnps of degree <= 1 *)
Definition lvl2 (x0 x1 : Q) (k : nat) : Qc := match k with O => Q2Qc x0 | S O => Q2Qc x1 | _ => qz end.
Definition toy_state : @State Qc :=
  mkState (fun k a l => match l with S O => match a with O => lvl2 (1#3) (-(1#2)) k | _ => qz end | _ => qz end)
          (fun k a l => match l with S O => match a with O => lvl2 (1#5) (-(1#4)) k | _ => qz end | _ => qz end)
          (fun k a l => match l with O => match a with O => lvl2 (3#1) (5#2) k | _ => qz end
                                   | S O => match a with O => lvl2 (1#2) (-(2#3)) k | _ => qz end | _ => qz end)
          (fun a l => match l with O => match a with O => Q2Qc (1#10) | _ => qz end
                                 | S O => match a with O => Q2Qc (-(1#5)) | _ => qz end | _ => qz end)
          [].

Example C04_whole_state_hyps_satisfiable :
  let g := toy_grid in let X := X_ideal g 2 toy_state in let dv := dv_of 2 toy_state in
  let lnps := unc (s_lnps toy_state) in
  (forall p k, n_div (X p) k = toN_c g (dv k) p) /\
  (forall s w, clip_c g (toM_c g (toN_c g (dv s))) w = dv s w) /\
  (forall r w,
      clip_c g (divc_c g (toM_c g (fun p => n_u (X p) r * n_sec2 (X p))) (toM_c g (fun p => n_v (X p) r * n_sec2 (X p)))) w
      = clip_c g (toM_c g (fun p => n_div (X p) r)) w) /\
  (forall w,
      clip_c g (divc_c g (toM_c g (fun p => n_gx (X p) * n_sec2 (X p))) (toM_c g (fun p => n_gy (X p) * n_sec2 (X p)))) w
      = lap_c g lnps w) /\
  (forall w,
      clip_c g (curlc_c g (toM_c g (fun p => n_gx (X p) * n_sec2 (X p))) (toM_c g (fun p => n_gy (X p) * n_sec2 (X p)))) w = 0) /\
  (* and the instance is not trivial: non-zero laplacian of lnps, velocity, divergence *)
  lap_c g lnps (0, 1)%nat <> 0 /\ n_u (X (0, 1)%nat) 0 <> 0 /\ n_v (X (0, 0)%nat) 1 <> 0 /\ dv 1%nat (0, 1)%nat <> 0.
Proof.
  cbv zeta.
  split; [reflexivity|].
  split.
  { intros s [a l].
    destruct (Nat.lt_ge_cases l 2) as [Hl|Hl].
    2:{ rewrite (clip_c_out toy_grid) by (cbn; lia).
        unfold dv_of. destruct (Nat.ltb s 2); [|reflexivity]. unfold unc. cbn [fst snd s_div toy_state].
        destruct l as [|[|l]]; [lia|lia|reflexivity]. }
    destruct a as [|a].
    2:{ rewrite (clip_c_zero toy_grid) by (apply toM_c_out; cbn; lia).
        unfold dv_of. destruct (Nat.ltb s 2); [|reflexivity]. unfold unc. cbn [fst snd s_div toy_state].
        destruct l as [|[|l]]; reflexivity. }
    destruct l as [|[|l]]; [| |lia]; destruct s as [|[|s]]; apply Qc_is_canon; vm_compute; reflexivity. }
  split.
  { intros r [a l].
    destruct (Nat.lt_ge_cases l 2) as [Hl|Hl]; [|rewrite !(clip_c_out toy_grid) by (cbn; lia); reflexivity].
    destruct a as [|a].
    2:{ rewrite (clip_c_zero toy_grid) by (apply divc_toM_out; [reflexivity|cbn; lia]).
        rewrite (clip_c_zero toy_grid) by (apply toM_c_out; cbn; lia). reflexivity. }
    destruct l as [|[|l]]; [| |lia]; destruct r as [|[|r]]; apply Qc_is_canon; vm_compute; reflexivity. }
  split.
  { intros [a l].
    destruct (Nat.lt_ge_cases l 2) as [Hl|Hl].
    2:{ rewrite (clip_c_out toy_grid) by (cbn; lia). symmetry. apply lap_c_zero.
        unfold unc. cbn [fst snd s_lnps toy_state]. destruct l as [|[|l]]; [lia|lia|reflexivity]. }
    destruct a as [|a].
    2:{ rewrite (clip_c_zero toy_grid) by (apply divc_toM_out; [reflexivity|cbn; lia]). symmetry. apply lap_c_zero.
        unfold unc. cbn [fst snd s_lnps toy_state]. destruct l as [|[|l]]; reflexivity. }
    destruct l as [|[|l]]; [| |lia]; apply Qc_is_canon; vm_compute; reflexivity. }
  split.
  { intros [a l].
    destruct (Nat.lt_ge_cases l 2) as [Hl|Hl]; [|rewrite (clip_c_out toy_grid) by (cbn; lia); reflexivity].
    destruct a as [|a].
    2:{ apply clip_c_zero. apply curlc_toM_out; [reflexivity|cbn; lia]. }
    destruct l as [|[|l]]; [| |lia]; apply Qc_is_canon; vm_compute; reflexivity. }
  repeat split; intro H; vm_compute in H; discriminate H.
Qed.

(** premises of C04_whole_state_resolvent: one layer, the exact inverse of the assembled 3 x 3 matrix *)
Definition toy_cfg1 : @PEcfg Qc :=
  mkPE 1 (Q2Qc (1#3)) (Q2Qc (2#7)) (fun _ => Q2Qc (-(7#10))) (fun k => match k with O => qz | _ => Q2Qc 1 end) (fun _ => Q2Qc (250#1)).
Definition inv3 (M : @Mat Qc) : @Mat Qc :=
  let m := fun i j : nat => M i j in
  let det := m 0%nat 0%nat * (m 1%nat 1%nat * m 2%nat 2%nat - m 1%nat 2%nat * m 2%nat 1%nat)
             - m 0%nat 1%nat * (m 1%nat 0%nat * m 2%nat 2%nat - m 1%nat 2%nat * m 2%nat 0%nat)
             + m 0%nat 2%nat * (m 1%nat 0%nat * m 2%nat 1%nat - m 1%nat 1%nat * m 2%nat 0%nat) in
  fun i j => (m ((j + 1) mod 3)%nat ((i + 1) mod 3)%nat * m ((j + 2) mod 3)%nat ((i + 2) mod 3)%nat
              - m ((j + 1) mod 3)%nat ((i + 2) mod 3)%nat * m ((j + 2) mod 3)%nat ((i + 1) mod 3)%nat) / det.
Example C04_whole_state_resolvent_hyps_satisfiable :
  let c := toy_cfg1 in let eta := Q2Qc (1#2) in
  let lam := Model.Deriv.lap_eig (hL toy_grid) (hr toy_grid) 1%nat in
  is_left_inverse (2 * cK c + 1) (inv3 (implicit_matrix c eta lam)) (implicit_matrix c eta lam) /\
  thickness (cb c) 0%nat <> 0 /\ thickness (cb c) (cK c - 1)%nat <> 0 /\
  implicit_matrix c eta lam 0%nat 1%nat <> 0 /\ implicit_matrix c eta lam 1%nat 0%nat <> 0 /\ lam <> 0.
Proof.
  cbv zeta. split.
  - intros i j Hi Hj. change (2 * cK toy_cfg1 + 1)%nat with 3%nat in *.
    destruct i as [|[|[|i]]]; try lia; destruct j as [|[|[|j]]]; try lia; apply Qc_is_canon; vm_compute; reflexivity.
  - repeat split; intro H; vm_compute in H; discriminate H.
Qed.

(** replay of C04_whole_state_is_assembly: on the toy grid the executed (materialised) composition and the
    ModalAssembly instance are evaluated independently and agree; the values are not zero *)
Definition toy_cfg : @PEcfg Qc :=
  mkPE 2 (Q2Qc (1#3)) (Q2Qc (2#7)) (lvl2 (-(2#1)) (-(1#4))) (fun k => match k with O => qz | S O => Q2Qc (1#4) | _ => Q2Qc 1 end)
       (lvl2 (250#1) (262#1)).
Definition toy_orog : nat -> nat -> Qc :=
  fun a l => match l with S O => match a with O => Q2Qc (1#50) | _ => qz end | _ => qz end.
Example C04_whole_state_is_assembly_replay :
  let g := toy_grid in let c := toy_cfg in let grav := Q2Qc (3#1) in
  let X := X_of g (diagnostic_state g (cK c) toy_state) in
  let E := explicit_terms_full g c grav toy_orog toy_state in
  (s_vort E 1%nat 0%nat 1%nat = vort_tendency_explicit Wi Wi (toM_c g) (curlc_c g) (clip_c g) c X (fun p => rt_dry c (X p)) (fun _ => 0) 1%nat (0, 1)%nat /\
   s_div E 0%nat 0%nat 1%nat = div_tendency_explicit Wi Wi (toM_c g) (divc_c g) (lap_c g) (clip_c g) c grav X (fun p => rt_dry c (X p))
                                         (unc toy_orog) (fun _ => 0) 0%nat (0, 1)%nat /\
   s_temp E 1%nat 0%nat 0%nat = temp_tendency_explicit Wi Wi (toM_c g) (divc_c g) (clip_c g) c X 1%nat (0, 0)%nat /\
   s_lnps E 0%nat 0%nat = lnps_tendency_explicit_c g c X (0, 0)%nat) /\
  s_vort E 1%nat 0%nat 1%nat <> 0 /\ s_div E 0%nat 0%nat 1%nat <> 0 /\ s_temp E 1%nat 0%nat 0%nat <> 0 /\ s_temp E 1%nat 0%nat 1%nat <> 0 /\ s_lnps E 0%nat 0%nat <> 0.
Proof.
  cbv zeta. split.
  - repeat split; apply Qc_is_canon; vm_compute; reflexivity.
  - repeat split; intro H; vm_compute in H; discriminate H.
Qed.


(** the two further premises of C04_whole_state_split_invariance on the toy instance (v00 = 1): to_nodal of the
    (0,0)-only spectrum is the constant one, and a second temperature variation with the same absolute temperature *)
Section ShiftRel.
  Context {F : Type} {o : Ops F} {Fc : FieldC o}.
  Add Field FFsr : (field_c : FieldTh o).
  Lemma shift_rel (x t1 t2 e : F) : x + t1 * e = (x + (t1 - t2) * e) + t2 * e.
  Proof. ring. Qed.
End ShiftRel.
Definition toy_T1 := lvl2 (250#1) (262#1).
Definition toy_T2 := lvl2 (241#1) (270#1).
Definition toy_temp2 : nat -> nat -> nat -> Qc :=
  fun k a l => s_temp toy_state k a l + (toy_T1 k - toy_T2 k) * onem00 (Q2Qc 1) (a, l).
Example C04_whole_state_split_hyps_satisfiable :
  (forall i j, (i < hI toy_grid)%nat -> (j < hJ toy_grid)%nat -> to_nodal toy_grid (cur (onem00 (Q2Qc 1))) i j = 1) /\
  (forall k a l, s_temp toy_state k a l + toy_T1 k * onem00 (Q2Qc 1) (a, l) = toy_temp2 k a l + toy_T2 k * onem00 (Q2Qc 1) (a, l)) /\
  (forall k, (2 <= k)%nat -> toy_T1 k = toy_T2 k) /\ toy_temp2 0%nat 0%nat 0%nat <> s_temp toy_state 0%nat 0%nat 0%nat.
Proof.
  split; [|split; [|split]].
  - intros i j Hi Hj. change (hI toy_grid) with 1%nat in Hi. change (hJ toy_grid) with 2%nat in Hj.
    destruct i as [|i]; [|lia]. destruct j as [|[|j]]; [| |lia]; apply Qc_is_canon; vm_compute; reflexivity.
  - intros k a l. unfold toy_temp2. apply shift_rel.
  - intros k Hk. destruct k as [|[|k]]; [lia|lia|reflexivity].
  - intro H. vm_compute in H. discriminate H.
Qed.

(** Over the reals. *)
Lemma R_feqb_sound : forall x y : R, @feqb R ROps x y = true -> x = y.
Proof. intros x y. cbn. unfold Reqb. destruct (Req_EM_T x y); [auto|discriminate]. Qed.

Theorem C04_tref_split_invariance_R (c : @PEcfg R) (T1 T2 T : nat -> R) (x : @NCol R) n :
  (forall k, (k < cK c)%nat -> (cb c k < cb c (S k))%R) ->
  (n < cK c)%nat ->
  let c1 := with_tref c T1 in let c2 := with_tref c T2 in
  let x1 := with_temp x (fun k => T k - T1 k) in let x2 := with_temp x (fun k => T k - T2 k) in
  temp_vertical_tendency c1 true x1 n + temp_adiabatic c1 x1 n + temp_implicit_col c1 (n_div x) n
  = temp_vertical_tendency c2 true x2 n + temp_adiabatic c2 x2 n + temp_implicit_col c2 (n_div x) n.
Proof.
  intros Hb Hn.
  assert (H2 : @two R ROps <> 0) by (unfold two; cbn; lra).
  apply (C04_tref_split_invariance H2 R_feqb_sound c); auto.
  - intros k Hk. unfold thickness. cbn. pose proof (Hb k ltac:(lia)). pose proof (Hb (S k) Hk). lra.
  - intros k Hk. unfold thickness. cbn. pose proof (Hb k Hk). lra.
Qed.

(** ** Tie to the source by translation: the nodal column algebra of Model/PrimEq.v that this property reasons about
    is the code of dinosaur/primitive_equations.py (transcribed from the AST on every run by tools/translate/gen_primeq.py). *)
Theorem C04_model_is_source {F : Type} {o : Ops F} {Fc : FieldC o} (c : @PEcfg F) (m : @Moist F)
    (inc_va : bool) (x : @NCol F) (Tf g vg s q qc qi rt : nat -> F) (k : nat) :
  u_dot_grad x k = u_dot_grad_src x k /\
  t_omega_over_sigma_sp c Tf g vg k = t_omega_over_sigma_sp_src c Tf g vg k /\
  combined_u c inc_va x (rt_dry c x) k = combined_u_src c inc_va x k /\
  combined_v c inc_va x (rt_dry c x) k = combined_v_src c inc_va x k /\
  kinetic x k = kinetic_src x k /\
  temp_vertical_tendency c inc_va x k = temp_vertical_tendency_src c inc_va x k /\
  hsa_nodal x s k = hsa_nodal_src x s k /\
  hsa_mu x s k = hsa_u_src x s k * n_sec2 x /\
  hsa_mv x s k = hsa_v_src x s k * n_sec2 x /\
  temp_adiabatic c x k = temp_adiabatic_src c x k /\
  log_pressure_tendency c x = log_pressure_tendency_src c x /\
  moisture_contribution c m q k = moisture_contribution_src c m q k /\
  rt_moist c m x q k = rt_moist_src c x (moisture_contribution c m q) k /\
  rt_cloud c m x q qc qi k = rt_cloud_src c x (moisture_contribution c m q) qc qi k /\
  combined_u c inc_va x rt k = combined_u_moist_src c inc_va x q rt k /\
  combined_v c inc_va x rt k = combined_v_moist_src c inc_va x q rt k /\
  temp_adiabatic_moist c m x q k = temp_adiabatic_moist_src c m x q k.
Proof. exact (primeq_model_is_source c m inc_va x Tf g vg s q qc qi rt k). Qed.

Print Assumptions C04_tref_split_invariance.
Print Assumptions C04_tref_split_invariance_moist.
Print Assumptions C04_tref_split_closed_form.
Print Assumptions C04_H_is_explicit_counterpart.
Print Assumptions C04_lnps_invariance.
Print Assumptions C04_effective_pgf_invariant.
Print Assumptions C04_effective_pgf_invariant_dry.
Print Assumptions C04_effective_pgf_cloud_defect.
Print Assumptions C04_column_commutes.
Print Assumptions C04_temperature_modal_invariance.
Print Assumptions C04_divergence_invariance.
Print Assumptions C04_vorticity_invariance.
Print Assumptions C04_temperature_modal_invariance_moist.
Print Assumptions C04_divergence_invariance_moist.
Print Assumptions C04_vorticity_invariance_moist.
Print Assumptions C04_unique_branch_zero.
Print Assumptions C04_unique_branch_free.
Print Assumptions C04_unique_test_iff.
Print Assumptions C04_no_vertical_advection_closed_form.
Print Assumptions C04_no_vertical_advection_uniform_invariance.
Print Assumptions C04_hyps_satisfiable.
Print Assumptions C04_modal_hyps_satisfiable.
Print Assumptions C04_modal_moist_hyps_satisfiable.
Print Assumptions C04_no_vertical_advection_refuted.
Print Assumptions C04_tref_split_cloud_refuted.
Print Assumptions C04_tref_split_invariance_R.
Print Assumptions C04_whole_state_is_assembly.
Print Assumptions C04_concrete_operators_linear.
Print Assumptions C04_whole_state_temperature_invariance.
Print Assumptions C04_whole_state_divergence_invariance.
Print Assumptions C04_whole_state_vorticity_invariance.
Print Assumptions C04_whole_state_implicit_linear.
Print Assumptions C04_whole_state_resolvent.
Print Assumptions C04_whole_state_hyps_satisfiable.
Print Assumptions C04_whole_state_resolvent_hyps_satisfiable.
Print Assumptions C04_whole_state_is_assembly_replay.
Print Assumptions C04_whole_state_split_invariance.
Print Assumptions C04_whole_state_split_hyps_satisfiable.
Print Assumptions C04_whole_state_moist_is_assembly.
Print Assumptions C04_model_is_source.
