(** Property C14 - stepping and scan combinators equal their sequential
    definition for every split.  Statements only; proofs are in
    Thm/Combinators.v.  Carry / input / output types, step functions, step
    counts, factorisations, filter lists and weight lists are all universally
    quantified; the accumulation / DFI clauses hold over every field. *)
From Dino Require Import Base.Ops Base.Sums Base.Inst Model.Combinators Thm.Combinators.
From Dino Require Import Model.Filters Model.Invariants Gen.CombinatorsSrc Thm.CombinatorsSrc.
From Coq Require Import Qcanon.
Local Open Scope F_scope.

Section C14_generic.
  Context {St Y C X : Type}.

  (** [scan] (the model of lax.scan) is the sequential loop: the final carry is
      the left fold of the carry update, output k comes from the carry after k
      steps and input k, and there is one output per input. *)
  Theorem C14_scan_sequential (f : C -> X -> C * Y) init xs :
    fst (scan f init xs) = fold_left (fun c x => fst (f c x)) xs init /\
    length (snd (scan f init xs)) = length xs /\
    forall k dx dy, (k < length xs)%nat ->
      nth k (snd (scan f init xs)) dy
      = snd (f (fold_left (fun c x => fst (f c x)) (firstn k xs) init) (nth k xs dx)).
  Proof.
    split; [apply scan_carry_fold|split; [apply scan_length|]].
    intros k dx dy Hk. now apply scan_nth.
  Qed.

  (** repeating a step n times is n applications (n = 0: identity, n = 1: the shortcut) *)
  Theorem C14_repeated_iter (f : St -> St) n x : repeated f n x = Nat.iter n f x.
  Proof. exact (repeated_iter f n x). Qed.

  (** filters are applied in list order, each seeing the input state u *)
  Theorem C14_filters_in_order (f : St -> St) phis phi u :
    step_with_filters f [] u = f u /\
    step_with_filters f (phis ++ [phi]) u = phi u (step_with_filters f phis u) /\
    step_with_filters f phis u = fold_right (fun p acc => p u acc) (f u) (rev phis).
  Proof.
    split; [reflexivity|split; [apply filters_snoc|apply filters_in_order]].
  Qed.

  (** frames and final state of a trajectory, every (outer, inner, start_with_input) *)
  Theorem C14_trajectory_frames (f : St -> St) outer inner (swi : bool) (post : St -> Y) x :
    let r := trajectory_from_step f outer inner swi post x in
    fst r = Nat.iter (outer * inner) f x /\
    length (snd r) = outer /\
    forall k d, (k < outer)%nat ->
      nth k (snd r) d = post (Nat.iter ((if swi then k else S k) * inner) f x).
  Proof. exact (trajectory_frames f outer inner swi post x). Qed.

  (** nested scan = flat scan (carry and stacked outputs) for every accepted
      factorisation; equality as functions of (init, xs), hence also of every
      quantity derived from them (gradients). *)
  Theorem C14_nested_scan_eq_scan (f : C -> X -> C * Y) init (xs : list X) length lengths :
    nested_accepts length (Some (List.length xs)) lengths = true ->
    nested_checkpoint_scan f init (inr xs) length lengths = Some (scan f init xs).
  Proof. exact (nested_scan_eq_scan f init xs length lengths). Qed.

  Theorem C14_nested_scan_eq_scan_noxs (f : C -> X -> C * Y) init (xnone : X) length lengths :
    nested_accepts length None lengths = true ->
    nested_checkpoint_scan f init (inl xnone) length lengths
    = Some (scan f init (repeat xnone (lprod lengths))).
  Proof. exact (nested_scan_eq_scan_noxs f init xnone length lengths). Qed.

  (** accepted iff non-empty factorisation whose product matches [length] and
      the leading size of [xs] (and no empty non-final level) *)
  Theorem C14_nested_accepts_spec length xs_len lengths :
    nested_accepts length xs_len lengths = true <->
    (lengths <> [] /\ (forall k, length = Some k -> k = lprod lengths) /\
     (forall k, xs_len = Some k -> k = lprod lengths) /\
     Forall (fun l => l <> 0%nat) (removelast lengths)).
  Proof. exact (nested_accepts_spec length xs_len lengths). Qed.

  Theorem C14_nested_scan_rejects (f : C -> X -> C * Y) init (xs : list X) length lengths :
    List.length xs <> lprod lengths \/ (exists k, length = Some k /\ k <> lprod lengths) \/ lengths = [] ->
    nested_checkpoint_scan f init (inr xs) length lengths = None.
  Proof. exact (nested_scan_rejects f init xs length lengths). Qed.
End C14_generic.

Section C14_field.
  Context {F : Type} {o : Ops F} {Fc : FieldC o}.
  Local Notation V := (@Combinators.V F).
  Local Notation ImEx := (@Combinators.ImEx F).

  (** accumulate_repeated = sum_k w_k * step^(k+1)(x) (shape-preserving step) *)
  Theorem C14_accumulate_is_sum (step : V -> V) ws (x : V) :
    (forall k, length (Nat.iter k step x) = length x) ->
    length (accumulate_repeated step ws x) = length x /\
    forall i, (i < length x)%nat ->
      nth i (accumulate_repeated step ws x) 0
      = sumn (length ws) (fun k => nth k ws 0 * nth i (Nat.iter (S k) step x) 0).
  Proof. exact (accumulate_is_sum step ws x). Qed.

  Theorem C14_dfi_formula solver (eq : ImEx) filters ws dt (x : V) :
    let fwd := step_with_filters (solver eq dt) filters in
    let bwd := step_with_filters (solver (time_reversed eq) dt) filters in
    let T := 1 + two * vsum ws in
    (forall k, length (Nat.iter k fwd x) = length x) ->
    (forall k, length (Nat.iter k bwd x) = length x) ->
    length (dfi solver eq filters ws dt x) = length x /\
    forall i, (i < length x)%nat ->
      nth i (dfi solver eq filters ws dt x) 0
      = 0 + nth i x 0 * (1 / T)
        + sumn (length ws) (fun k => nth k ws 0 / T * nth i (Nat.iter (S k) fwd x) 0)
        + sumn (length ws) (fun k => nth k ws 0 / T * nth i (Nat.iter (S k) bwd x) 0).
  Proof. exact (dfi_formula solver eq filters ws dt x). Qed.

  (** a steady state is returned unchanged (needs only total weight <> 0) *)
  Theorem C14_dfi_fixed_point solver (eq : ImEx) filters ws dt (x : V) :
    1 + two * vsum ws <> 0 ->
    step_with_filters (solver eq dt) filters x = x ->
    step_with_filters (solver (time_reversed eq) dt) filters x = x ->
    dfi solver eq filters ws dt x = x.
  Proof. exact (dfi_fixed_point solver eq filters ws dt x). Qed.

  (** reversing time twice is the identity on all three methods; a
      backward-forward Euler step of the reversed equation is a step with -dt *)
  Theorem C14_time_reversed (e : ImEx) s h dt :
    (explicit_terms (time_reversed (time_reversed e)) s = explicit_terms e s /\
     implicit_terms (time_reversed (time_reversed e)) s = implicit_terms e s /\
     implicit_inverse (time_reversed (time_reversed e)) s h = implicit_inverse e s h) /\
    backward_forward_euler (time_reversed e) dt s = backward_forward_euler e (- dt) s.
  Proof.
    split; [exact (time_reversed_involutive e s h)|exact (bfe_reversed_is_negative_dt e dt s)].
  Qed.
End C14_field.

(** Non-vacuity over Qc: a factorisation that is accepted (with the equality
    replayed by computation), and a DFI instance meeting all hypotheses of the
    fixed-point theorem with a non-trivial steady state and weights. *)
Lemma Qc_list_eq (l l' : list Qc) : map this l = map this l' -> l = l'.
Proof.
  revert l'. induction l as [|a l IH]; intros [|b l']; cbn; try discriminate; auto.
  intros [= H1 H2]. f_equal; auto. apply Qc_is_canon. now rewrite H1.
Qed.

Example C14_hyps_satisfiable :
  let q := fun z : Z => Q2Qc (inject_Z z) in
  let f := fun (c x : Qc) => (q 2%Z * c + x, c - x) in
  let xs := map q [1; 2; 3; 4; 5; 6; 7; 8; 9; 10; 11; 12]%Z in
  let eq := linear_imex [[q 0%Z; q 1%Z]; [q 0%Z; q 0%Z]] [q 0%Z; q 1%Z] in
  let ws := [Q2Qc (1#2); Q2Qc (1#4)] in
  let x := [q 3%Z; q 0%Z] in
  (nested_accepts (Some 12%nat) (Some (length xs)) [2; 3; 2]%nat = true /\
   nested_checkpoint_scan f (q 1%Z) (inr xs) (Some 12%nat) [2; 3; 2]%nat = Some (scan f (q 1%Z) xs) /\
   fst (scan f (q 1%Z) xs) = q 12274%Z) /\
  (1 + two * vsum ws <> 0 /\
   step_with_filters (backward_forward_euler eq (Q2Qc (1#2))) [] x = x /\
   step_with_filters (backward_forward_euler (time_reversed eq) (Q2Qc (1#2))) [] x = x /\
   dfi backward_forward_euler eq [] ws (Q2Qc (1#2)) x = x).
Proof.
  cbv zeta. split; [split; [|split]|split; [|split; [|split]]].
  - vm_compute. reflexivity.
  - vm_compute. reflexivity.
  - vm_compute. reflexivity.
  - intro H. vm_compute in H. discriminate H.
  - apply Qc_list_eq. vm_compute. reflexivity.
  - apply Qc_list_eq. vm_compute. reflexivity.
  - apply Qc_list_eq. vm_compute. reflexivity.
Qed.

(** ** Tie to the source by translation (regenerated on every run): the arithmetic of
    accumulate_repeated, _dfi_lanczos_weights and digital_filter_initialization in
    Model/Combinators.v IS the code of dinosaur/time_integration.py ([*_src] transcribed from the
    AST by tools/translate/gen_combinators.py; the bodies of step_with_filters and repeated, the scan
    call and the construction of the forward / backward steps are pinned textually). *)
Theorem C14_model_is_source {F : Type} {o : Ops F} {Fc : FieldC o}
    (step_fn : V -> V) (ode_solver : ImEx -> F -> V -> V) (equation : ImEx) (filters : list (V -> V -> V))
    (weights : list F) (dt : F) (state : V) (a b c n nn time_span cutoff_period : F) :
  accumulate_repeated step_fn weights state =
    snd (fst (scan (fun (carry : V * V) weight =>
                      let state' := step_fn (fst carry) in
                      ((state', map2 (fun s a => acc_update_src a weight s) state' (snd carry)), tt))
                   (state, zeros_like state) weights)) /\
  dfi ode_solver equation filters weights dt state =
    (let forward_step := step_with_filters (ode_solver equation dt) filters in
     let backward_step := step_with_filters (ode_solver (time_reversed equation) dt) filters in
     let total_weight := dfi_total_weight_src (vsum weights) in
     let init_weight := dfi_init_weight_src / total_weight in
     let weights' := map (fun w => w / total_weight) weights in
     let init_term := map (fun x => dfi_init_term_src x init_weight) state in
     let forward_term := accumulate_repeated forward_step weights' state in
     let backward_term := accumulate_repeated backward_step weights' state in
     map2 (fun ab c => ab + c) (map2 (fun a b => 0 + a + b) init_term forward_term) backward_term) /\
  (0 + a + b) + c = dfi_sum3_src a b c /\
  dfi_round_arg_src time_span dt = time_span / (Combinators.two * dt) /\
  dfi_sinc1_arg_src n nn = n / (nn + 1) /\
  dfi_sinc2_arg_src n nn time_span cutoff_period = n * time_span / (cutoff_period * nn) /\
  gen_combinators_ok = true.
Proof.
  split; [apply acc_update_matches_source|].
  split; [apply dfi_matches_source|].
  split; [apply dfi_sum3_matches_source|].
  split; [apply (lanczos_args_match_documentation n nn time_span cutoff_period dt)|].
  split; [apply (lanczos_args_match_documentation n nn time_span cutoff_period dt)|].
  split; [apply (lanczos_args_match_documentation n nn time_span cutoff_period dt)|].
  exact gen_combinators_complete.
Qed.

Print Assumptions C14_scan_sequential.
Print Assumptions C14_repeated_iter.
Print Assumptions C14_filters_in_order.
Print Assumptions C14_trajectory_frames.
Print Assumptions C14_nested_scan_eq_scan.
Print Assumptions C14_nested_scan_eq_scan_noxs.
Print Assumptions C14_nested_accepts_spec.
Print Assumptions C14_nested_scan_rejects.
Print Assumptions C14_accumulate_is_sum.
Print Assumptions C14_dfi_formula.
Print Assumptions C14_dfi_fixed_point.
Print Assumptions C14_time_reversed.
Print Assumptions C14_hyps_satisfiable.
Print Assumptions C14_model_is_source.
