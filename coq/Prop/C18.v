(** Property C18 - unit and time conversions.  Statements only; proofs are in
    Thm/Units.v and Thm/Time64.v. *)
From Dino Require Import Base.Ops Base.Sums Base.Inst Model.Units Thm.Units.
From Coq Require Import Qcanon.
Local Open Scope F_scope.

Section C18_units.
  Context {F : Type} {o : Ops F} {Fc : FieldC o}.
  Variable U : nat.
  Variable cv : nat -> F.
  Variable ud : nat -> nat -> Z.
  Hypothesis cv_nz : forall j, (j < U)%nat -> cv j <> 0.
  Variable n : nat.
  Variable sc : nat -> F.
  Hypothesis sc_nz : forall i, (i < n)%nat -> sc i <> 0.

  Theorem C18_dim_nondim_inverse m e e' :
    (forall i, (i < n)%nat -> dimof U ud e i = dimof U ud e' i) ->
    base_value U cv (dimen U cv ud n sc (nondim U cv ud n sc m e) e') e' = base_value U cv m e.
  Proof. exact (dim_nondim_inverse U cv ud cv_nz n sc sc_nz m e e'). Qed.
End C18_units.

Print Assumptions C18_dim_nondim_inverse.
