(** Property C18 - unit and time conversions are mutually inverse and
    multiplicative.  Statements only; proofs are in Thm/Units.v (unit algebra for
    every field, phase reduction over the reals) and Thm/Time64.v (binary64
    round trips on the primitive-float model, through Flocq). *)
From Dino Require Import Base.Ops Base.Sums Base.Inst Model.Units Thm.Units Model.Time64 Thm.Time64.
From Coq Require Import Qcanon Reals.
From Flocq Require Import Raux Generic_fmt Round_NE.
Local Open Scope F_scope.

(** Part A.  [U] named units with conversion factors [cv] and dimension vectors
    [ud] (pint's registry as a table); [n] base dimensions with scales [sc].
    All factors and scales non-zero; otherwise arbitrary, in an arbitrary field. *)
Section C18_units.
  Context {F : Type} {o : Ops F} {Fc : FieldC o}.
  Variable U : nat.
  Variable cv : nat -> F.
  Variable ud : nat -> nat -> Z.
  Hypothesis cv_nz : forall j, (j < U)%nat -> cv j <> 0.
  Variable n : nat.
  Variable sc : nat -> F.
  Hypothesis sc_nz : forall i, (i < n)%nat -> sc i <> 0.
  Notation nondim := (nondim U cv ud n sc).
  Notation dimen := (dimen U cv ud n sc).

  (** dimensionalize(nondimensionalize(q), u') is the quantity q for every unit
      u' of the same dimension (equal values in base units) *)
  Theorem C18_dim_nondim_inverse m e e' :
    (forall i, (i < n)%nat -> dimof U ud e i = dimof U ud e' i) ->
    base_value U cv (dimen (nondim m e) e') e' = base_value U cv m e.
  Proof. intros; eapply dim_nondim_inverse; eassumption. Qed.

  (** ... in the unit it was expressed in, the magnitude itself; and conversely *)
  Theorem C18_dim_nondim_same m v e : dimen (nondim m e) e = m /\ nondim (dimen v e) e = v.
  Proof. split; [eapply dim_nondim_same | eapply nondim_dim_inverse]; eassumption. Qed.

  Theorem C18_nondim_unit_independent m e m' e' :
    (forall i, (i < n)%nat -> dimof U ud e i = dimof U ud e' i) ->
    base_value U cv m e = base_value U cv m' e' ->
    nondim m e = nondim m' e'.
  Proof. intros; eapply nondim_unit_independent; eassumption. Qed.

  Theorem C18_nondim_mul m1 e1 m2 e2 : nondim (m1 * m2) (umul e1 e2) = nondim m1 e1 * nondim m2 e2.
  Proof. eapply nondim_mul; eassumption. Qed.

  Theorem C18_nondim_div m1 e1 m2 e2 : m2 <> 0 -> nondim (m1 / m2) (udiv e1 e2) = nondim m1 e1 / nondim m2 e2.
  Proof. intros; eapply nondim_div; eassumption. Qed.

  Theorem C18_nondim_pow m e k : m <> 0 -> nondim (zpow m k) (upow e k) = zpow (nondim m e) k.
  Proof. intros; eapply nondim_pow; eassumption. Qed.

  (** a value is produced (no ValueError) iff every dimension of the unit has a scale *)
  Theorem C18_nondim_defined_iff_scales_present has m e :
    (exists v, nondim_opt U cv ud n has sc m e = Some v) <->
    forall i, (i < n)%nat -> has i = true \/ dimof U ud e i = 0%Z.
  Proof. eapply nondim_opt_defined. Qed.

  (** a rate per unit [e] times the non-dimensional length of one [e] is the bare
      number (2 pi / day times one day = one full turn) *)
  Theorem C18_rate_times_period p e : nondim p (upow e (-1)) * nondim 1 e = p.
  Proof. eapply rate_times_period; eassumption. Qed.
End C18_units.

(** the same over the reals *)
Theorem C18_units_R U (cv : nat -> R) ud n (sc : nat -> R) m e e' m' :
  (forall j, (j < U)%nat -> cv j <> 0%R) -> (forall i, (i < n)%nat -> sc i <> 0%R) ->
  (forall i, (i < n)%nat -> dimof U ud e i = dimof U ud e' i) ->
  (dimen U cv ud n sc (nondim U cv ud n sc m e) e' * conv U cv e' = m * conv U cv e)%R /\
  ((m * conv U cv e = m' * conv U cv e')%R -> nondim U cv ud n sc m e = nondim U cv ud n sc m' e').
Proof.
  intros Hc Hs Hd. split.
  - eapply (@dim_nondim_inverse R ROps RFieldC); eassumption.
  - intros Hb. eapply (@nondim_unit_independent R ROps RFieldC); eassumption.
Qed.

(** Part B (binary64, bit-exact model of the current code).  [T_ok T]: the time
    scale is a finite binary64 number in [2^-100, 2^100] seconds. *)
Theorem C18_time_roundtrips (T : Coq.Floats.PrimFloat.float) :
  T_ok T ->
  (** whole-second durations: nondimensionalize_timedelta64 then dimensionalize_timedelta64 *)
  (forall s : Z, (Z.abs s < 2 ^ 40)%Z -> dim_td T (nondim_td T s) = s) /\
  (** calendar times, [M] minutes since the reference datetime (|M| < 2^40 is two
      million years): datetime64_to_nondim_time then nondim_time_to_datetime64 *)
  (forall M : Z, (Z.abs M < 2 ^ 40)%Z -> dim_dt T (nondim_dt T M) = M).
Proof.
  intros HT. split; [exact (fun s => timedelta_roundtrip T s HT) | exact (fun M => datetime_roundtrip_minutes T M HT)].
Qed.

(** the two clauses by name (projections of the theorem above) *)
Corollary C18_timedelta_roundtrip (T : Coq.Floats.PrimFloat.float) (s : Z) :
  T_ok T -> (Z.abs s < 2 ^ 40)%Z -> dim_td T (nondim_td T s) = s.
Proof. intros HT. exact (proj1 (C18_time_roundtrips T HT) s). Qed.

Corollary C18_datetime_roundtrip_minutes (T : Coq.Floats.PrimFloat.float) (M : Z) :
  T_ok T -> (Z.abs M < 2 ^ 40)%Z -> dim_dt T (nondim_dt T M) = M.
Proof. intros HT. exact (proj2 (C18_time_roundtrips T HT) M). Qed.

(** the formula before commit 93ce349 (truncation without the millisecond snap):
    27 s comes back as 26 s under the default scale *)
Theorem C18_old_code_refuted :
  T_ok T_default /\ exists s : Z, (Z.abs s < 2 ^ 40)%Z /\ dim_td_old T_default (nondim_td T_default s) <> s.
Proof.
  split; [exact T_default_ok|]. exists 27%Z. split; [reflexivity|].
  change (dim_td_old T_default (nondim_td T_default 27)) with (td_roundtrip_old T_default 27).
  rewrite old_code_refuted. discriminate.
Qed.

Theorem C18_snap_ms_R (dt : R) (s : Z) :
  (Rabs (dt - IZR s) <= / 4096)%R -> Ztrunc (IZR (ZnearestE (dt * 1000)) / 1000) = s.
Proof. exact (snap_ms_R dt s). Qed.

(** Part C (over the reals): [x - floor(x / p) * p]. *)
Theorem C18_phase_reduced (p x : R) : (0 < p)%R ->
  (0 <= @reduce R ROps Zfloor p x < p)%R /\ exists k : Z, @reduce R ROps Zfloor p x = (x - IZR k * p)%R.
Proof. exact (phase_reduced p x). Qed.

Theorem C18_phase_unique (p x y : R) (k : Z) : (0 < p)%R -> (0 <= y < p)%R -> (x - y = IZR k * p)%R ->
  y = @reduce R ROps Zfloor p x.
Proof. exact (phase_unique p x y k). Qed.

(** phase(t + dt) = phase(t) + rate * dt reduced: consistent with elapsed time *)
Theorem C18_phase_advance (p ref rate t dt : R) : (0 < p)%R ->
  @phase_at R ROps Zfloor p ref rate (t + dt)%R
  = @reduce R ROps Zfloor p (@phase_at R ROps Zfloor p ref rate t + rate * dt)%R.
Proof. exact (phase_advance p ref rate t dt). Qed.

Theorem C18_phase_period (p ref rate t dt : R) (k : Z) : (0 < p)%R -> (rate * dt = IZR k * p)%R ->
  @phase_at R ROps Zfloor p ref rate (t + dt)%R = @phase_at R ROps Zfloor p ref rate t.
Proof. exact (phase_full_turns p ref rate t dt k). Qed.

(** Non-vacuity: a concrete unit table (meter, kilometer, second, hour) and
    scale (Earth radius, 6857 s) over Qc meet the hypotheses, g = 9.8 m/s^2
    expressed in km/hour^2 has the same non-dimensional value, and the default
    time scale is admissible. *)
Example C18_hyps_satisfiable :
  let cv := fun j : nat => Q2Qc (nth j [1; 1000; 1; 3600]%Q 0%Q) in
  let ud := fun j i : nat => nth i (nth j [[1; 0]; [1; 0]; [0; 1]; [0; 1]]%Z []) 0%Z in
  let sc := fun i : nat => Q2Qc (nth i [6371220; 6857]%Q 0%Q) in
  let e1 := fun j : nat => nth j [1; 0; -2; 0]%Z 0%Z in
  let e2 := fun j : nat => nth j [0; 1; 0; -2]%Z 0%Z in
  (forall j, (j < 4)%nat -> cv j <> 0) /\ (forall i, (i < 2)%nat -> sc i <> 0) /\
  nondim 4 cv ud 2 sc (Q2Qc (98 # 10)) e1 = nondim 4 cv ud 2 sc (Q2Qc (127008 # 1)) e2 /\
  T_ok T_default.
Proof.
  cbv zeta. split; [|split; [|split]].
  - intros j Hj. destruct j as [|[|[|[|j]]]]; try lia; intro H; discriminate H.
  - intros i Hi. destruct i as [|[|i]]; try lia; intro H; discriminate H.
  - apply Qc_is_canon. vm_compute. reflexivity.
  - exact T_default_ok.
Qed.

(** ** Tie to the source by translation: the binary64 snap of [dimensionalize_timedelta64] in
    Model/Time64.v is the expression of dinosaur/primitive_equations.py, transcribed into primitive-float
    terms on every run (tools/translate/gen_time64.py; the truncating return branches and
    [nondimensionalize_timedelta64] are pinned textually). *)
From Dino Require Import Gen.Time64Src Thm.Time64Src.
Theorem C18_snap_ms_is_source (dt : PrimFloat.float) :
  snap_ms dt = snap_ms_src dt /\ gen_time64_ok = true.
Proof. split; [apply snap_ms_matches_source | exact gen_time64_complete]. Qed.

Print Assumptions C18_dim_nondim_inverse.
Print Assumptions C18_dim_nondim_same.
Print Assumptions C18_nondim_unit_independent.
Print Assumptions C18_nondim_mul.
Print Assumptions C18_nondim_div.
Print Assumptions C18_nondim_pow.
Print Assumptions C18_nondim_defined_iff_scales_present.
Print Assumptions C18_rate_times_period.
Print Assumptions C18_units_R.
Print Assumptions C18_time_roundtrips.
Print Assumptions C18_old_code_refuted.
Print Assumptions C18_snap_ms_R.
Print Assumptions C18_phase_reduced.
Print Assumptions C18_phase_unique.
Print Assumptions C18_phase_advance.
Print Assumptions C18_phase_period.
Print Assumptions C18_hyps_satisfiable.
Print Assumptions C18_snap_ms_is_source.
