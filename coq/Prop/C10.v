(** Property C10 - the dynamics are equivariant under the symmetries of the
    rotating sphere.  Statements only; proofs are in Thm/Symmetry.v.  Every
    theorem is for an arbitrary field [F] (hence the reals), arbitrary sizes and
    both modal layouts ([fast = false]: RealSphericalHarmonics, [fast = true]:
    FastSphericalHarmonics).  Facts about the tables f, p, w, the rotation tables
    c, s and the recurrence weights a, b are named hypotheses, re-checked
    numerically by the plugin on every explored grid.

    The composition into the explicit primitive-equation tendencies is proved for the
    mirror over the nodal column algebra of Model/PrimEq.v (property C04's model of
    primitive_equations.py: dry, moist, cloud classes) assembled with the concrete
    transforms / spectral operators (theorems C10_primeq_...).  Not proved here
    (explored on the implementation by the plugin's oracles): the same composition
    and likewise for the rotation by k grid steps (orography rotated too), and for the
    implicit terms / implicit inverse (column operators depending on l only).  Not
    proved here (explored on the implementation by the plugin's oracles): the explicit
    terms of held_suarez.py (no Coq model of them exists), and the
    composition tendencies -> integrator step for the concrete operators (the step
    theorems are over abstract equivariant F, G, G_inv).

    Shallow water (section C10_shallow_water): ShallowWaterEquations.explicit_terms is
    modelled in Model/ShallowWater.v (nodal algebra of one node and all layers, density
    ratios, orography, assembly over the concrete transforms / spectral operators with
    their default clip=True) and proved mirror- and rotation-equivariant end to end:
    explicit_terms of the transformed MODAL state (orography transformed too) is the
    transformed explicit_terms, for every number of layers, any densities, both layouts
    (theorems C10_sw_...; proofs in Thm/ShallowWater.v). *)
From Dino Require Import Base.Ops Base.Sums Base.Inst Gen.DerivExprs Model.SHT Model.Deriv Model.Invariants Model.Sigma Model.Implicit
     Model.PrimEq Model.Symmetry Model.ShallowWater Model.Legendre Gen.Legendre Thm.Deriv Thm.Implicit Thm.Symmetry Thm.ShallowWater
     Thm.Legendre Thm.SymmetryLegendre.
From Coq Require Import Qcanon.
Local Open Scope F_scope.

Section C10.
  Context {F : Type} {o : Ops F} {Fc : FieldC o}.
  Variables (fast : bool) (R : nat).
  Hypothesis HR : layout_ok fast R.

  (** rotations compose by angle addition; the zero angle is the identity *)
  Theorem C10_rot_group (c1 s1 c2 s2 : nat -> F) (x : marr) i l :
    (i < R)%nat -> s1 0%nat = 0 -> s2 0%nat = 0 ->
    rot_modal fast c1 s1 (rot_modal fast c2 s2 x) i l
      = rot_modal fast (rot_c_comp c1 s1 c2 s2) (rot_s_comp c1 s1 c2 s2) x i l /\
    rot_modal fast (fun _ => 1) (fun _ => 0) x i l = x i l.
  Proof.
    intros Hi H1 H2. split; [eapply rot_compose; eassumption|].
    now apply rot_identity.
  Qed.

  (** the rotation by k+1 grid steps is one step after k steps, and the tables stay unit *)
  Theorem C10_rot_steps k (c s : nat -> F) (x : marr) i l :
    (i < R)%nat -> s 0%nat = 0 -> (forall j, c j * c j + s j * s j = 1) ->
    rot_modal fast (rot_c_pow (S k) c s) (rot_s_pow (S k) c s) x i l
      = rot_modal fast c s (rot_modal fast (rot_c_pow k c s) (rot_s_pow k c s) x) i l /\
    rot_s_pow k c s 0%nat = 0 /\
    forall j, rot_c_pow k c s j * rot_c_pow k c s j + rot_s_pow k c s j * rot_s_pow k c s j = 1.
  Proof.
    intros Hi H0 Hu. split; [eapply rot_pow_succ; eassumption|].
    split; [now apply rot_pow_s0|]. intros j. now apply rot_pow_unit.
  Qed.

  (** with c^2 + s^2 = 1 the action is a bijection *)
  Theorem C10_rot_inverse (c s : nat -> F) (x : marr) i l :
    (i < R)%nat -> s 0%nat = 0 -> (forall j, c j * c j + s j * s j = 1) ->
    rot_modal fast c (rot_s_inv s) (rot_modal fast c s x) i l = x i l /\
    rot_modal fast c s (rot_modal fast c (rot_s_inv s) x) i l = x i l.
  Proof. intros; eapply rot_inverse; eassumption. Qed.

  Theorem C10_mir_involutive ps (x : marr) i l : mir_modal fast ps (mir_modal fast ps x) i l = x i l.
  Proof. intros; eapply mir_involutive; eassumption. Qed.

  Theorem C10_rot_mir_commute ps (c s : nat -> F) (x : marr) i l :
    (i < R)%nat -> mir_modal fast ps (rot_modal fast c s x) i l = rot_modal fast c s (mir_modal fast ps x) i l.
  Proof. intros; eapply rot_mir_commute; eassumption. Qed.

  (** *** transforms *)
  Section Tables.
    Variables (L I J : nat) (f : nat -> nat -> F) (p : nat -> nat -> nat -> F) (w : nat -> F).

    Theorem C10_synth_rot_equivariant k c s (x : marr) i j :
      H_rot_table fast R I f k c s -> H_p_pairs fast R L J p -> s 0%nat = 0 -> (i < I)%nat -> (j < J)%nat ->
      synth R L J f p (rot_modal fast c s x) i j = shift_lon I k (synth R L J f p x) i j.
    Proof. intros; eapply synth_rot_equivariant; eassumption. Qed.

    Theorem C10_analysis_rot_equivariant k c s (z : marr) a l :
      H_rot_table fast R I f k c s -> H_p_pairs fast R L J p -> H_rot_unit c s -> (a < R)%nat -> (l < L)%nat ->
      analysis R I J f p w (shift_lon I k z) a l = rot_modal fast c s (analysis R I J f p w z) a l.
    Proof. intros; eapply analysis_rot_equivariant; eassumption. Qed.

    Theorem C10_synth_mir_equivariant ps (x : marr) i j :
      H_parity fast R L J p -> (j < J)%nat ->
      synth R L J f p (mir_modal fast ps x) i j = sgn_if ps * flip_lat J (synth R L J f p x) i j.
    Proof. intros; eapply synth_mir_equivariant; eassumption. Qed.

    Theorem C10_analysis_mir_equivariant ps (z : marr) a l :
      H_parity fast R L J p -> H_nodes_sym J w -> (a < R)%nat -> (l < L)%nat ->
      analysis R I J f p w (fun i j => sgn_if ps * flip_lat J z i j) a l = mir_modal fast ps (analysis R I J f p w z) a l.
    Proof. intros; eapply analysis_mir_equivariant; eassumption. Qed.
  End Tables.

  (** *** nodal pointwise operations and column operators *)
  Theorem C10_nodal_pointwise_equivariant (phi : F -> F -> F) pi I J k (y z : marr) i j :
    reindex pi (fun i j => phi (y i j) (z i j)) i j = phi (reindex pi y i j) (reindex pi z i j) /\
    nodal_mul (shift_lon I k y) (shift_lon I k z) i j = shift_lon I k (nodal_mul y z) i j /\
    nodal_mul (flip_lat J y) (flip_lat J z) i j = flip_lat J (nodal_mul y z) i j /\
    nodal_mul (fun i j => - flip_lat J y i j) (fun i j => - flip_lat J z i j) i j = flip_lat J (nodal_mul y z) i j /\
    nodal_mul (fun i j => - flip_lat J y i j) (flip_lat J z) i j = - flip_lat J (nodal_mul y z) i j.
  Proof. split; [reflexivity|apply nodal_mul_shift_flip]. Qed.

  Theorem C10_column_ops_equivariant N (A : nat -> nat -> F) (x : stack3) (c s : nat -> F) ps I J k n i l :
    column_op N A (rot_stack fast c s x) n i l = rot_stack fast c s (column_op N A x) n i l /\
    column_op N A (mir_stack fast ps x) n i l = mir_stack fast ps (column_op N A x) n i l /\
    column_op N A (fun n => shift_lon I k (x n)) n i l = shift_lon I k (column_op N A x n) i l /\
    column_op N A (fun n => flip_lat J (x n)) n i l = flip_lat J (column_op N A x n) i l.
  Proof. intros; eapply column_op_equivariant; eassumption. Qed.

  (** *** spectral operators of Model/Deriv.v *)
  Theorem C10_dlon_equivariant (c s : nat -> F) ps (x : marr) i l :
    (i < R)%nat -> s 0%nat = 0 ->
    d_dlon fast R (rot_modal fast c s x) i l = rot_modal fast c s (d_dlon fast R x) i l /\
    d_dlon fast R (mir_modal fast ps x) i l = mir_modal fast ps (d_dlon fast R x) i l.
  Proof.
    intros Hi H0. split; [eapply dlon_rot_commute; eassumption|eapply dlon_mir_commute; eassumption].
  Qed.

  (** laplacian, inverse laplacian, clip_wavenumbers and every filter that scales by a function of l *)
  Theorem C10_l_operators_equivariant (e : nat -> F) (c s : nat -> F) ps (x : marr) L C n r i l :
    (l_scale e (rot_modal fast c s x) i l = rot_modal fast c s (l_scale e x) i l /\
     l_scale e (mir_modal fast ps x) i l = mir_modal fast ps (l_scale e x) i l) /\
    laplacian L r x = l_scale (lap_eig L r) x /\
    inverse_laplacian L r x = l_scale (inv_eig L r) x /\
    clip L C n x = l_scale (fun l => if Nat.ltb l (C - (n + (C - L))) then 1 else 0) x.
  Proof. split; [apply l_scale_equivariant|repeat split]. Qed.

  Theorem C10_lat_derivatives_rot_equivariant L C (a b : marr) (c s : nat -> F) (x : marr) i l :
    (i < R)%nat -> (l < C)%nat -> s 0%nat = 0 -> sym_rows fast R a -> sym_rows fast R b ->
    D1 L C a b (rot_modal fast c s x) i l = rot_modal fast c s (D1 L C a b x) i l /\
    D2 L C a b (rot_modal fast c s x) i l = rot_modal fast c s (D2 L C a b x) i l.
  Proof. intros; eapply lat_derivatives_rot; eassumption. Qed.

  (** cos_lat_d_dlat and sec_lat_d_dlat_cos2 shift l by +-1: they ANTI-commute with (-1)^(l+m) *)
  Theorem C10_lat_derivatives_mirror_sign L C (a b : marr) ps (x : marr) i l :
    (l < C)%nat ->
    D1 L C a b (mir_modal fast ps x) i l = mir_modal fast (negb ps) (D1 L C a b x) i l /\
    D2 L C a b (mir_modal fast ps x) i l = mir_modal fast (negb ps) (D2 L C a b x) i l.
  Proof. intros; eapply lat_derivatives_mirror_sign; eassumption. Qed.

  Theorem C10_vector_calculus_mirror L C r (a b : marr) cl ps (x u v : marr) i l :
    (i < R)%nat -> (l < C)%nat ->
    fst (cos_lat_grad fast L R C r a b cl (mir_modal fast ps x)) i l
      = mir_modal fast ps (fst (cos_lat_grad fast L R C r a b cl x)) i l /\
    snd (cos_lat_grad fast L R C r a b cl (mir_modal fast ps x)) i l
      = mir_modal fast (negb ps) (snd (cos_lat_grad fast L R C r a b cl x)) i l /\
    div_cos_lat fast L R C r a b cl (mir_modal fast ps u, mir_modal fast (negb ps) v) i l
      = mir_modal fast ps (div_cos_lat fast L R C r a b cl (u, v)) i l /\
    curl_cos_lat fast L R C r a b cl (mir_modal fast ps u, mir_modal fast (negb ps) v) i l
      = mir_modal fast (negb ps) (curl_cos_lat fast L R C r a b cl (u, v)) i l /\
    fst (k_cross (mir_modal fast ps u, mir_modal fast (negb ps) v)) i l = - mir_modal fast ps (fst (k_cross (u, v))) i l /\
    snd (k_cross (mir_modal fast ps u, mir_modal fast (negb ps) v)) i l = - mir_modal fast (negb ps) (snd (k_cross (u, v))) i l.
  Proof. intros; eapply vector_calculus_mirror; eassumption. Qed.

  Theorem C10_vector_calculus_rot L C r (a b : marr) cl (c s : nat -> F) (x u v : marr) i l :
    (i < R)%nat -> (l < C)%nat -> s 0%nat = 0 -> sym_rows fast R a -> sym_rows fast R b ->
    fst (cos_lat_grad fast L R C r a b cl (rot_modal fast c s x)) i l
      = rot_modal fast c s (fst (cos_lat_grad fast L R C r a b cl x)) i l /\
    snd (cos_lat_grad fast L R C r a b cl (rot_modal fast c s x)) i l
      = rot_modal fast c s (snd (cos_lat_grad fast L R C r a b cl x)) i l /\
    div_cos_lat fast L R C r a b cl (rot_modal fast c s u, rot_modal fast c s v) i l
      = rot_modal fast c s (div_cos_lat fast L R C r a b cl (u, v)) i l /\
    curl_cos_lat fast L R C r a b cl (rot_modal fast c s u, rot_modal fast c s v) i l
      = rot_modal fast c s (curl_cos_lat fast L R C r a b cl (u, v)) i l /\
    fst (k_cross (rot_modal fast c s u, rot_modal fast c s v)) i l = rot_modal fast c s (fst (k_cross (u, v))) i l /\
    snd (k_cross (rot_modal fast c s u, rot_modal fast c s v)) i l = rot_modal fast c s (snd (k_cross (u, v))) i l.
  Proof. intros; eapply vector_calculus_rot; eassumption. Qed.

  Theorem C10_coriolis_symmetry omega (sinlat : nat -> F) I J k i j :
    (forall j, (j < J)%nat -> sinlat (J - 1 - j)%nat = - sinlat j) -> (j < J)%nat ->
    shift_lon I k (coriolis omega sinlat) i j = coriolis omega sinlat i j /\
    flip_lat J (coriolis omega sinlat) i j = - coriolis omega sinlat i j.
  Proof. intros; eapply coriolis_symmetry; eassumption. Qed.
End C10.

(** *** steps and trajectories: any vector space V, any equality E on it, any linear T *)
Section C10_steps.
  Context {F : Type} {o : Ops F} {V : Type} {vo : VSp F V}.
  Variables (Fx G : V -> V) (Ginv : F -> V -> V) (T : V -> V) (E : V -> V -> Prop).
  Hypothesis Hsym : sym_hyps Fx G Ginv T E.

  (** every map built from u, 0, +, scalar *, F, G, G_inv commutes with T (and respects E) *)
  Theorem C10_step_equivariant (t : stepterm F) :
    (forall env, E (eval Fx G Ginv t (fun i => T (env i))) (T (eval Fx G Ginv t env))) /\
    equivariant1 E T (step_of Fx G Ginv t).
  Proof.
    destruct Hsym as (H1 & H2 & H3 & H4 & H5 & H6 & H7 & H8 & H9 & H10 & H11 & H12 & H13 & H14).
    split; [intros env; apply term_equivariant; assumption|apply step_equivariant; assumption].
  Qed.

  (** k steps with (equivariant) step filters, by induction on k *)
  Theorem C10_trajectory_equivariant (t : stepterm F) (filters : list (V -> V -> V)) k :
    Forall (equivariant2 E T) filters ->
    equivariant1 E T (iter k (with_filters (step_of Fx G Ginv t) filters)).
  Proof.
    destruct Hsym as (H1 & H2 & H3 & H4 & H5 & H6 & H7 & H8 & H9 & H10 & H11 & H12 & H13 & H14).
    apply trajectory_equivariant; assumption.
  Qed.

  Theorem C10_leapfrog_trajectory_equivariant (t : stepterm F) (filters : list (V * V -> V * V -> V * V)) k :
    Forall (equivariant2 (E2 E) (T2 T)) filters ->
    equivariant1 (E2 E) (T2 T) (iter k (with_filters (lf_step_of Fx G Ginv t) filters)).
  Proof.
    destruct Hsym as (H1 & H2 & H3 & H4 & H5 & H6 & H7 & H8 & H9 & H10 & H11 & H12 & H13 & H14).
    apply lf_trajectory_equivariant; assumption.
  Qed.

  (** the integrators of time_integration.py, arbitrary coefficient lists / tableaux *)
  Theorem C10_integrators_equivariant (dt alpha : F) (al be ga : list F) (a_ex a_im : list (list F)) (b_ex b_im : list F) :
    equivariant1 E T (step_of Fx G Ginv (euler_term dt)) /\
    equivariant1 E T (step_of Fx G Ginv (cn_rk2_term dt)) /\
    equivariant1 E T (step_of Fx G Ginv (ls_step_term dt al be ga)) /\
    (forall t, imex_term dt a_ex a_im b_ex b_im = Some t -> equivariant1 E T (step_of Fx G Ginv t)) /\
    equivariant1 (E2 E) (T2 T) (lf_step_of Fx G Ginv (leapfrog_term dt alpha)).
  Proof. exact (integrators_equivariant Fx G Ginv T E dt alpha al be ga a_ex a_im b_ex b_im Hsym). Qed.
End C10_steps.

(** *** the primitive-equation tendencies (nodal column algebra of Model/PrimEq.v) *)
Section C10_primeq.
  Context {F : Type} {o : Ops F} {Fc : FieldC o}.
  Variable c : @PEcfg F.

  (** (a) every nodal expression is pointwise in the horizontal: permuting all per-node inputs (tables sec2_lat
      and f invariant under the permutation, as for longitude shifts) permutes every nodal output *)
  Theorem C10_primeq_nodal_shift_equivariant {P A : Type} (pi : P -> P) (fn : NCol -> A)
          (U V Z D T : P -> nat -> F) (gx gy sec2 cor : P -> F) p :
    (forall p, sec2 (pi p) = sec2 p) -> (forall p, cor (pi p) = cor p) ->
    fn (mk_cols (fun p => U (pi p)) (fun p => V (pi p)) (fun p => Z (pi p)) (fun p => D (pi p)) (fun p => T (pi p))
                (fun p => gx (pi p)) (fun p => gy (pi p)) sec2 cor p)
    = (fun p' => fn (mk_cols U V Z D T gx gy sec2 cor p')) (pi p).
  Proof. exact (primeq_nodal_shift_equivariant pi fn U V Z D T gx gy sec2 cor p). Qed.

  (** (b) parities under the mirror (inputs: u even, v odd, vorticity odd, divergence / T' / tracers even,
      grad lnps = (even, odd), sec2 even, f odd - [ncol_mirror]), all K, all level sets:
      scalar totals even, flux (even, odd), momentum terms (even, odd), kinetic energy even, R T' variants even,
      humidity divergence / geopotential terms even, humidity curl term odd *)
  Theorem C10_primeq_nodal_mirror_equivariant va sparse (m : Moist) (x : NCol) (rt q qc qi s gqx gqy : nat -> F) lapl n :
    (n < cK c)%nat ->
    (temp_nodal_total c va (ncol_mirror x) n = temp_nodal_total c va x n /\
     temp_nodal_total_moist c va m (ncol_mirror x) q n = temp_nodal_total_moist c va m x q n /\
     tracer_nodal_total c va (ncol_mirror x) s n = tracer_nodal_total c va x s n /\
     log_pressure_tendency c (ncol_mirror x) = log_pressure_tendency c x /\
     hsa_mu (ncol_mirror x) s n = hsa_mu x s n /\
     hsa_mv (ncol_mirror x) s n = - hsa_mv x s n) /\
    (combined_u c va (ncol_mirror x) rt n = combined_u c va x rt n /\
     combined_v c va (ncol_mirror x) rt n = - combined_v c va x rt n /\
     kinetic (ncol_mirror x) n = kinetic x n /\
     rt_dry c (ncol_mirror x) n = rt_dry c x n /\
     rt_moist c m (ncol_mirror x) q n = rt_moist c m x q n /\
     rt_cloud c m (ncol_mirror x) q qc qi n = rt_cloud c m x q qc qi n) /\
    (humidity_div_nodal c m (ncol_mirror x) q gqx (fun j => - gqy j) lapl n = humidity_div_nodal c m x q gqx gqy lapl n /\
     humidity_curl_nodal c m (ncol_mirror x) gqx (fun j => - gqy j) n = - humidity_curl_nodal c m x gqx gqy n /\
     humidity_geo_nodal c sparse m (ncol_mirror x) q n = humidity_geo_nodal c sparse m x q n).
  Proof.
    intros Hn. split; [exact (primeq_scalar_nodal_mirror c va m x q s n Hn)|].
    split; [exact (primeq_vector_nodal_mirror c va m x rt q qc qi n Hn)|exact (primeq_humidity_nodal_mirror c sparse m x q gqx gqy lapl n)].
  Qed.

  (** (c) composition with the concrete transforms and spectral operators, un-padded modal shape (R, L) *)
  Section Concrete.
    Variables (fast : bool) (R L I J : nat) (f : nat -> nat -> F) (p : nat -> nat -> nat -> F) (wq : nat -> F)
              (rad : F) (wa wb : @marr F) (grav : F).
    Hypothesis HR : layout_ok fast R.
    Hypothesis Hpar : H_parity fast R L J p.
    Hypothesis Hnod : H_nodes_sym J wq.
    Let toM := toMc R I J f p wq.
    Let divc := divcc fast R L rad wa wb.
    Let curlc := curlcc fast R L rad wa wb.
    Let lap := lapc L rad.
    Let clp := clipc L.
    Let piN := piNc J.

    (** velocities of the mirrored state: (u, v) from (pseudo-scalar vorticity, scalar divergence) is (even, odd) *)
    Theorem C10_get_cos_lat_vector_mirror cl (vort dive : marr) i l :
      (i < R)%nat -> (l < L)%nat ->
      fst (get_cos_lat_vector fast L R L rad wa wb cl (mir_modal fast true vort) (mir_modal fast false dive)) i l
        = mir_modal fast false (fst (get_cos_lat_vector fast L R L rad wa wb cl vort dive)) i l /\
      snd (get_cos_lat_vector fast L R L rad wa wb cl (mir_modal fast true vort) (mir_modal fast false dive)) i l
        = mir_modal fast true (snd (get_cos_lat_vector fast L R L rad wa wb cl vort dive)) i l.
    Proof. intros; eapply get_cos_lat_vector_mirror; eassumption. Qed.

    (** the nodal columns synthesised from the mirrored modal diagnostic fields are (entrywise) the mirrored
        family of nodal columns *)
    Theorem C10_primeq_columns_of_mirrored_state (um vm zeta delta temp : nat -> marr) (gxm gym : marr) (sec2 cor : nat -> F) :
      (forall j, (j < J)%nat -> sec2 j = sec2 (J - 1 - j)%nat) -> (forall j, (j < J)%nat -> cor j = - cor (J - 1 - j)%nat) ->
      cols_eqv Wc (inPc I J) c
        (cols_of_modal R L J f p (fun k => mir_modal fast false (um k)) (fun k => mir_modal fast true (vm k))
                       (fun k => mir_modal fast true (zeta k)) (fun k => mir_modal fast false (delta k))
                       (fun k => mir_modal fast false (temp k)) (mir_modal fast false gxm) (mir_modal fast true gym) sec2 cor)
        (mirX Wc piN (cols_of_modal R L J f p um vm zeta delta temp gxm gym sec2 cor)).
    Proof. intros; eapply primeq_columns_of_mirrored_state; eassumption. Qed.

    (** the explicit tendencies of the mirrored family of columns are the mirrored tendencies:
        temperature (dry / moist), tracers, log surface pressure and divergence are scalars, vorticity a pseudo-scalar *)
    Theorem C10_primeq_tendency_mirror_equivariant (m : Moist) (X : Wc -> NCol) (rt q s : Wc -> nat -> F)
            (orog hum humz : Wc -> F) r a l :
      (r < cK c)%nat -> (a < R)%nat -> (l < L)%nat ->
      temp_tendency_explicit Wc Wc toM divc clp c (mirX Wc piN X) r (a, l)
        = mir_modal fast false (un (temp_tendency_explicit Wc Wc toM divc clp c X r)) a l /\
      temp_tendency_explicit_moist Wc Wc toM divc clp c m (mirX Wc piN X) (fun n => q (piN n)) r (a, l)
        = mir_modal fast false (un (temp_tendency_explicit_moist Wc Wc toM divc clp c m X q r)) a l /\
      tracer_tendency_explicit Wc Wc toM divc clp c (mirX Wc piN X) (fun n => s (piN n)) r (a, l)
        = mir_modal fast false (un (tracer_tendency_explicit Wc Wc toM divc clp c X s r)) a l /\
      toM (fun n => log_pressure_tendency c (mirX Wc piN X n)) (a, l)
        = mir_modal fast false (un (toM (fun n => log_pressure_tendency c (X n)))) a l /\
      div_tendency_explicit Wc Wc toM divc lap clp c grav (mirX Wc piN X) (fun n => rt (piN n)) (Sec fast orog) (Sec fast hum) r (a, l)
        = mir_modal fast false (un (div_tendency_explicit Wc Wc toM divc lap clp c grav X rt orog hum r)) a l /\
      vort_tendency_explicit Wc Wc toM curlc clp c (mirX Wc piN X) (fun n => rt (piN n)) (Soc fast humz) r (a, l)
        = mir_modal fast true (un (vort_tendency_explicit Wc Wc toM curlc clp c X rt humz r)) a l.
    Proof. intros; eapply primeq_tendency_mirror_equivariant; eassumption. Qed.

    (** ... and so are the tendencies computed from the columns of the mirrored MODAL state *)
    Theorem C10_primeq_mirrored_state_tendency (m : Moist) (um vm zeta delta temp : nat -> marr) (gxm gym : marr)
            (sec2 cor : nat -> F) (rt rt' q q' s s' : Wc -> nat -> F) (orog hum humz : Wc -> F) r a l :
      let X := cols_of_modal R L J f p um vm zeta delta temp gxm gym sec2 cor in
      let X' := cols_of_modal R L J f p (fun k => mir_modal fast false (um k)) (fun k => mir_modal fast true (vm k))
                              (fun k => mir_modal fast true (zeta k)) (fun k => mir_modal fast false (delta k))
                              (fun k => mir_modal fast false (temp k)) (mir_modal fast false gxm) (mir_modal fast true gym) sec2 cor in
      (forall j, (j < J)%nat -> sec2 j = sec2 (J - 1 - j)%nat) -> (forall j, (j < J)%nat -> cor j = - cor (J - 1 - j)%nat) ->
      (forall n, inPc I J n -> rt' n r = rt (piN n) r) -> (forall n, inPc I J n -> q' n r = q (piN n) r) ->
      (forall n, inPc I J n -> forall k, (k < cK c)%nat -> s' n k = s (piN n) k) ->
      (r < cK c)%nat -> (a < R)%nat -> (l < L)%nat ->
      temp_tendency_explicit Wc Wc toM divc clp c X' r (a, l)
        = mir_modal fast false (un (temp_tendency_explicit Wc Wc toM divc clp c X r)) a l /\
      temp_tendency_explicit_moist Wc Wc toM divc clp c m X' q' r (a, l)
        = mir_modal fast false (un (temp_tendency_explicit_moist Wc Wc toM divc clp c m X q r)) a l /\
      tracer_tendency_explicit Wc Wc toM divc clp c X' s' r (a, l)
        = mir_modal fast false (un (tracer_tendency_explicit Wc Wc toM divc clp c X s r)) a l /\
      toM (fun n => log_pressure_tendency c (X' n)) (a, l)
        = mir_modal fast false (un (toM (fun n => log_pressure_tendency c (X n)))) a l /\
      div_tendency_explicit Wc Wc toM divc lap clp c grav X' rt' (Sec fast orog) (Sec fast hum) r (a, l)
        = mir_modal fast false (un (div_tendency_explicit Wc Wc toM divc lap clp c grav X rt orog hum r)) a l /\
      vort_tendency_explicit Wc Wc toM curlc clp c X' rt' (Soc fast humz) r (a, l)
        = mir_modal fast true (un (vort_tendency_explicit Wc Wc toM curlc clp c X rt humz r)) a l.
    Proof.
      intros X X'; intros; eapply primeq_mirrored_state_tendency; eassumption.
    Qed.

    (** humidity corrections of the moist classes (q even, grad q = (even, odd), laplacian(lnps) even) *)
    Theorem C10_primeq_humidity_mirror (m : Moist) (X : Wc -> NCol) (q gqx gqy : Wc -> nat -> F) (lapn : Wc -> F) r a l :
      (a < R)%nat -> (l < L)%nat ->
      humidity_div_modal Wc Wc toM lap c m (mirX Wc piN X) (fun n => q (piN n)) (fun n => gqx (piN n))
                         (fun n k => - gqy (piN n) k) (fun n => lapn (piN n)) r (a, l)
        = mir_modal fast false (un (humidity_div_modal Wc Wc toM lap c m X q gqx gqy lapn r)) a l /\
      humidity_curl_modal Wc Wc toM c m (mirX Wc piN X) (fun n => gqx (piN n)) (fun n k => - gqy (piN n) k) r (a, l)
        = mir_modal fast true (un (humidity_curl_modal Wc Wc toM c m X gqx gqy r)) a l.
    Proof. intros; eapply primeq_humidity_mirror_concrete; eassumption. Qed.
  End Concrete.

  (** (d) the same for the rotation by k longitude grid steps (tables [rc], [rs] of the rotation angle), both layouts *)
  Section ConcreteRot.
    Variables (fast : bool) (R L I J : nat) (f : nat -> nat -> F) (p : nat -> nat -> nat -> F) (wq : nat -> F)
              (rad : F) (wa wb : @marr F) (grav : F) (k : nat) (rc rs : nat -> F).
    Hypothesis HR : layout_ok fast R.
    Hypothesis Hrot : H_rot_table fast R I f k rc rs.
    Hypothesis Hpp : H_p_pairs fast R L J p.
    Hypothesis Hun : H_rot_unit rc rs.
    Hypothesis Hwa : sym_rows fast R wa.
    Hypothesis Hwb : sym_rows fast R wb.
    Let toM := toMc R I J f p wq.
    Let divc := divcc fast R L rad wa wb.
    Let curlc := curlcc fast R L rad wa wb.
    Let lap := lapc L rad.
    Let clp := clipc L.
    Let piN := piNr I k.
    Let Rm := Rmc fast rc rs.

    Theorem C10_get_cos_lat_vector_rot cl (vort dive : marr) i l :
      (i < R)%nat -> (l < L)%nat ->
      fst (get_cos_lat_vector fast L R L rad wa wb cl (rot_modal fast rc rs vort) (rot_modal fast rc rs dive)) i l
        = rot_modal fast rc rs (fst (get_cos_lat_vector fast L R L rad wa wb cl vort dive)) i l /\
      snd (get_cos_lat_vector fast L R L rad wa wb cl (rot_modal fast rc rs vort) (rot_modal fast rc rs dive)) i l
        = rot_modal fast rc rs (snd (get_cos_lat_vector fast L R L rad wa wb cl vort dive)) i l.
    Proof. intros; eapply get_cos_lat_vector_rot; eassumption. Qed.

    (** the nodal columns synthesised from the rotated modal fields are (entrywise) the family shifted by k nodes *)
    Theorem C10_primeq_columns_of_rotated_state (um vm zeta delta temp : nat -> marr) (gxm gym : marr) (sec2 cor : nat -> F) :
      cols_eqv Wc (inPc I J) c
        (cols_of_modal R L J f p (fun n => rot_modal fast rc rs (um n)) (fun n => rot_modal fast rc rs (vm n))
                       (fun n => rot_modal fast rc rs (zeta n)) (fun n => rot_modal fast rc rs (delta n))
                       (fun n => rot_modal fast rc rs (temp n)) (rot_modal fast rc rs gxm) (rot_modal fast rc rs gym) sec2 cor)
        (rotX Wc piN (cols_of_modal R L J f p um vm zeta delta temp gxm gym sec2 cor)).
    Proof. intros; eapply primeq_columns_of_rotated_state; eassumption. Qed.

    (** explicit tendencies of the shifted family of columns = rotated tendencies (orography and humidity
        corrections rotated too): temperature (dry / moist), tracers, lnps, divergence, vorticity *)
    Theorem C10_primeq_tendency_rot_equivariant (m : Moist) (X : Wc -> NCol) (rt q s : Wc -> nat -> F)
            (orog hum humz : Wc -> F) r a l :
      (a < R)%nat -> (l < L)%nat ->
      temp_tendency_explicit Wc Wc toM divc clp c (rotX Wc piN X) r (a, l)
        = rot_modal fast rc rs (un (temp_tendency_explicit Wc Wc toM divc clp c X r)) a l /\
      temp_tendency_explicit_moist Wc Wc toM divc clp c m (rotX Wc piN X) (fun n => q (piN n)) r (a, l)
        = rot_modal fast rc rs (un (temp_tendency_explicit_moist Wc Wc toM divc clp c m X q r)) a l /\
      tracer_tendency_explicit Wc Wc toM divc clp c (rotX Wc piN X) (fun n => s (piN n)) r (a, l)
        = rot_modal fast rc rs (un (tracer_tendency_explicit Wc Wc toM divc clp c X s r)) a l /\
      toM (fun n => log_pressure_tendency c (rotX Wc piN X n)) (a, l)
        = rot_modal fast rc rs (un (toM (fun n => log_pressure_tendency c (X n)))) a l /\
      div_tendency_explicit Wc Wc toM divc lap clp c grav (rotX Wc piN X) (fun n => rt (piN n)) (Rm orog) (Rm hum) r (a, l)
        = rot_modal fast rc rs (un (div_tendency_explicit Wc Wc toM divc lap clp c grav X rt orog hum r)) a l /\
      vort_tendency_explicit Wc Wc toM curlc clp c (rotX Wc piN X) (fun n => rt (piN n)) (Rm humz) r (a, l)
        = rot_modal fast rc rs (un (vort_tendency_explicit Wc Wc toM curlc clp c X rt humz r)) a l.
    Proof. intros; eapply primeq_tendency_rot_equivariant; eassumption. Qed.

    (** ... and so are the tendencies computed from the columns of the rotated MODAL state *)
    Theorem C10_primeq_rotated_state_tendency (m : Moist) (um vm zeta delta temp : nat -> marr) (gxm gym : marr)
            (sec2 cor : nat -> F) (rt rt' q q' s s' : Wc -> nat -> F) (orog hum humz : Wc -> F) r a l :
      let X := cols_of_modal R L J f p um vm zeta delta temp gxm gym sec2 cor in
      let X' := cols_of_modal R L J f p (fun n => rot_modal fast rc rs (um n)) (fun n => rot_modal fast rc rs (vm n))
                              (fun n => rot_modal fast rc rs (zeta n)) (fun n => rot_modal fast rc rs (delta n))
                              (fun n => rot_modal fast rc rs (temp n)) (rot_modal fast rc rs gxm) (rot_modal fast rc rs gym) sec2 cor in
      (forall n, inPc I J n -> rt' n r = rt (piN n) r) -> (forall n, inPc I J n -> q' n r = q (piN n) r) ->
      (forall n, inPc I J n -> forall g, (g < cK c)%nat -> s' n g = s (piN n) g) ->
      (r < cK c)%nat -> (a < R)%nat -> (l < L)%nat ->
      temp_tendency_explicit Wc Wc toM divc clp c X' r (a, l)
        = rot_modal fast rc rs (un (temp_tendency_explicit Wc Wc toM divc clp c X r)) a l /\
      temp_tendency_explicit_moist Wc Wc toM divc clp c m X' q' r (a, l)
        = rot_modal fast rc rs (un (temp_tendency_explicit_moist Wc Wc toM divc clp c m X q r)) a l /\
      tracer_tendency_explicit Wc Wc toM divc clp c X' s' r (a, l)
        = rot_modal fast rc rs (un (tracer_tendency_explicit Wc Wc toM divc clp c X s r)) a l /\
      toM (fun n => log_pressure_tendency c (X' n)) (a, l)
        = rot_modal fast rc rs (un (toM (fun n => log_pressure_tendency c (X n)))) a l /\
      div_tendency_explicit Wc Wc toM divc lap clp c grav X' rt' (Rm orog) (Rm hum) r (a, l)
        = rot_modal fast rc rs (un (div_tendency_explicit Wc Wc toM divc lap clp c grav X rt orog hum r)) a l /\
      vort_tendency_explicit Wc Wc toM curlc clp c X' rt' (Rm humz) r (a, l)
        = rot_modal fast rc rs (un (vort_tendency_explicit Wc Wc toM curlc clp c X rt humz r)) a l.
    Proof. intros X X'; intros; eapply primeq_rotated_state_tendency; eassumption. Qed.

    Theorem C10_primeq_humidity_rot (m : Moist) (X : Wc -> NCol) (q gqx gqy : Wc -> nat -> F) (lapn : Wc -> F) r a l :
      (a < R)%nat -> (l < L)%nat ->
      humidity_div_modal Wc Wc toM lap c m (rotX Wc piN X) (fun n => q (piN n)) (fun n => gqx (piN n))
                         (fun n => gqy (piN n)) (fun n => lapn (piN n)) r (a, l)
        = rot_modal fast rc rs (un (humidity_div_modal Wc Wc toM lap c m X q gqx gqy lapn r)) a l /\
      humidity_curl_modal Wc Wc toM c m (rotX Wc piN X) (fun n => gqx (piN n)) (fun n => gqy (piN n)) r (a, l)
        = rot_modal fast rc rs (un (humidity_curl_modal Wc Wc toM c m X gqx gqy r)) a l.
    Proof. intros; eapply primeq_humidity_rot_concrete; eassumption. Qed.
  End ConcreteRot.

  (** (e) implicit terms and implicit inverse (default method): applied coefficient by coefficient to the vertical
      column (divergence, temperature, lnps) with a dependence on the total wavenumber only ([lam l] = laplacian
      eigenvalue; [inv] = any matrix inversion routine).  Vorticity and tracers have zero implicit terms and the
      identity as inverse. *)
  Theorem C10_implicit_terms_equivariant fast sp (lam : nat -> F) (rc rs : nat -> F) pz (dv tp : nat -> marr) (ps : marr) g i l :
    (g < cK c)%nat ->
    let Lop := fun l => implicit_terms sp c (lam l) in
    (let dv' := fun g => rot_modal fast rc rs (dv g) in let tp' := fun g => rot_modal fast rc rs (tp g) in
     let ps' := rot_modal fast rc rs ps in
     op_div Lop dv' tp' ps' g i l = rot_modal fast rc rs (op_div Lop dv tp ps g) i l /\
     op_temp Lop dv' tp' ps' g i l = rot_modal fast rc rs (op_temp Lop dv tp ps g) i l /\
     op_lnps Lop dv' tp' ps' i l = rot_modal fast rc rs (op_lnps Lop dv tp ps) i l) /\
    (let dv' := fun g => mir_modal fast pz (dv g) in let tp' := fun g => mir_modal fast pz (tp g) in
     let ps' := mir_modal fast pz ps in
     op_div Lop dv' tp' ps' g i l = mir_modal fast pz (op_div Lop dv tp ps g) i l /\
     op_temp Lop dv' tp' ps' g i l = mir_modal fast pz (op_temp Lop dv tp ps g) i l /\
     op_lnps Lop dv' tp' ps' i l = mir_modal fast pz (op_lnps Lop dv tp ps) i l).
  Proof. exact (implicit_terms_equivariant c fast sp lam rc rs pz dv tp ps g i l). Qed.

  Theorem C10_implicit_inverse_equivariant fast inv eta (lam : nat -> F) (rc rs : nat -> F) pz (dv tp : nat -> marr) (ps : marr) g i l :
    (g < cK c)%nat ->
    let Lop := fun l => inverse_split inv c eta (lam l) in
    (let dv' := fun g => rot_modal fast rc rs (dv g) in let tp' := fun g => rot_modal fast rc rs (tp g) in
     let ps' := rot_modal fast rc rs ps in
     op_div Lop dv' tp' ps' g i l = rot_modal fast rc rs (op_div Lop dv tp ps g) i l /\
     op_temp Lop dv' tp' ps' g i l = rot_modal fast rc rs (op_temp Lop dv tp ps g) i l /\
     op_lnps Lop dv' tp' ps' i l = rot_modal fast rc rs (op_lnps Lop dv tp ps) i l) /\
    (let dv' := fun g => mir_modal fast pz (dv g) in let tp' := fun g => mir_modal fast pz (tp g) in
     let ps' := mir_modal fast pz ps in
     op_div Lop dv' tp' ps' g i l = mir_modal fast pz (op_div Lop dv tp ps g) i l /\
     op_temp Lop dv' tp' ps' g i l = mir_modal fast pz (op_temp Lop dv tp ps g) i l /\
     op_lnps Lop dv' tp' ps' i l = mir_modal fast pz (op_lnps Lop dv tp ps) i l).
  Proof. exact (implicit_inverse_equivariant c fast inv eta lam rc rs pz dv tp ps g i l). Qed.
End C10_primeq.

(** Non-vacuity over Qc: (i) the table hypotheses hold for the quarter-turn rotation on a 4 x 2 grid
    with M = 2, L = 2 in the reference layout (unnormalised basis: columns 1, cos, sin; Legendre
    values 1, x, and a constant for m = 1 at nodes -1/2, 1/2); (ii) the step hypotheses hold for the odd
    cubic F(x) = x^3, G(x) = 2x, G_inv(x, eta) = eta x and T = negation on the one-dimensional space. *)
Definition ex_q (l : list Q) : nat -> Qc := fun i => Q2Qc (nth i l 0%Q).
Definition ex_f : nat -> nat -> Qc := fun i a => ex_q (nth i [[1; 1; 0]; [1; 0; 1]; [1; -1; 0]; [1; 0; -1]]%Q []) a.
Definition ex_p : nat -> nat -> nat -> Qc :=
  fun a j l => match a with
               | O => ex_q (nth j [[1; -1 # 2]; [1; 1 # 2]]%Q []) l
               | _ => ex_q [0; 1]%Q l
               end.
Definition ex_c : nat -> Qc := fun j => match j with 1%nat => Q2Qc 0 | _ => Q2Qc 1 end.
Definition ex_s : nat -> Qc := fun j => match j with 1%nat => Q2Qc 1 | _ => Q2Qc 0 end.

Example C10_example :
  layout_ok false 3 /\
  H_rot_table false 3 4 ex_f 1 ex_c ex_s /\ H_p_pairs false 3 2 2 ex_p /\ H_parity false 3 2 2 ex_p /\
  H_nodes_sym 2 (fun _ => Q2Qc 1) /\ H_rot_unit ex_c ex_s /\
  (* latitude tables of the primitive-equation theorems: sec2_lat even, Coriolis odd (nodes sin(lat) = -1/2, 1/2) *)
  (forall j, (j < 2)%nat -> (fun _ : nat => Q2Qc (4 # 3)) j = (fun _ : nat => Q2Qc (4 # 3)) (2 - 1 - j)%nat) /\
  (forall j, (j < 2)%nat -> ex_q [-1 # 2; 1 # 2]%Q j = - ex_q [-1 # 2; 1 # 2]%Q (2 - 1 - j)%nat) /\
  (* recurrence weights that depend on the wavenumber of the row only (rotation theorems) *)
  sym_rows false 3 (fun i l => ex_q [0; 1 # 3; 1 # 3]%Q i) /\
  sym_hyps (vo := FSp) (fun x : Qc => x * x * x) (fun x => (1 + 1) * x) (fun eta x => eta * x) (fun x => - x) eq.
Proof.
  split; [reflexivity|].
  split. { intros i a Hi Ha. destruct i as [|[|[|[|i]]]]; try lia; destruct a as [|[|[|a]]]; try lia;
           apply Qc_is_canon; vm_compute; reflexivity. }
  split. { intros a j l Ha Hj Hl. destruct a as [|[|[|a]]]; try lia; reflexivity. }
  split. { intros a j l Ha Hj Hl. destruct a as [|[|[|a]]]; try lia; destruct j as [|[|j]]; try lia;
           destruct l as [|[|l]]; try lia; apply Qc_is_canon; vm_compute; reflexivity. }
  split. { intros j Hj. reflexivity. }
  split. { split; [apply Qc_is_canon; vm_compute; reflexivity|].
           intros j. destruct j as [|[|j]]; apply Qc_is_canon; vm_compute; reflexivity. }
  split. { intros j Hj. reflexivity. }
  split. { intros j Hj. destruct j as [|[|j]]; try lia; apply Qc_is_canon; vm_compute; reflexivity. }
  split. { intros i l Hi E. destruct i as [|[|[|i]]]; try lia; reflexivity. }
  unfold sym_hyps. cbn [vz va vs FSp].
  repeat split; intros; subst; try reflexivity; try congruence; cbn; ring.
Qed.


(** *** shallow water: ShallowWaterEquations.explicit_terms (Model/ShallowWater.v) *)
Section C10_shallow_water.
  Context {F : Type} {o : Ops F} {Fc : FieldC o}.

  (** (a) the nodal algebra of one node: with sg = -1 (mirror: u even, v odd, vorticity odd, potential even, sec2 even,
      f odd) nodal_b is an (odd, even) pair, nodal_g an (even, odd) pair, nodal_e even; with sg = 1 nothing changes *)
  Theorem C10_sw_nodal_equivariant (sg : F) (x : SWCol) k :
    sg * sg = 1 ->
    (sw_b_u (swcol_act sg x) k = sg * sw_b_u x k /\ sw_b_v (swcol_act sg x) k = sw_b_v x k /\
     sw_g_u (swcol_act sg x) k = sw_g_u x k /\ sw_g_v (swcol_act sg x) k = sg * sw_g_v x k /\
     sw_e (swcol_act sg x) k = sw_e x k) /\
    (sw_b_u (swcol_mirror x) k = - sw_b_u x k /\ sw_b_v (swcol_mirror x) k = sw_b_v x k /\
     sw_g_u (swcol_mirror x) k = sw_g_u x k /\ sw_g_v (swcol_mirror x) k = - sw_g_v x k /\
     sw_e (swcol_mirror x) k = sw_e x k).
  Proof. intros Hs. split; [exact (sw_nodal_act sg x k Hs)|exact (sw_nodal_mirror x k)]. Qed.

  Section Mirror.
    Variables (fast : bool) (R L I J N : nat) (f : nat -> nat -> F) (p : nat -> nat -> nat -> F) (wq : nat -> F)
              (rad : F) (wa wb : @marr F) (dens : nat -> F).
    Hypothesis HR : layout_ok fast R.
    Hypothesis Hpar : H_parity fast R L J p.
    Hypothesis Hnod : H_nodes_sym J wq.
    Let toM := sw_toM R L I J f p wq.
    Let divc := sw_divc fast R L rad wa wb.
    Let curlc := sw_curlc fast R L rad wa wb.
    Let lap := sw_lap (F := F) L rad.
    Let clp := sw_clip (F := F) L.

    (** (b) the assembled tendencies of ANY family of columns X' that agrees (layers < N, nodes in range) with the mirrored
        family of X - potentials and orography mirrored too: vorticity tendency pseudo-scalar, the others scalars *)
    Theorem C10_sw_tendency_mirror_equivariant (X X' : Wn -> SWCol) (pot pot' : nat -> Wn -> F) (orog : option (Wn -> F)) r a l :
      sw_cols_eqv Wn (inPc I J) N X' (sw_actX Wn (piNc J) (- (1)) X) ->
      (forall b w', (b < N)%nat -> inWc R L w' -> pot' b w' = Sec fast (pot b) w') ->
      (r < N)%nat -> (a < R)%nat -> (l < L)%nat ->
      sw_vort_explicit Wn Wn toM divc clp X' r (a, l)
        = mir_modal fast true (un (sw_vort_explicit Wn Wn toM divc clp X r)) a l /\
      sw_div_explicit Wn Wn toM curlc lap clp N dens X' pot' (option_map (Sec fast) orog) r (a, l)
        = mir_modal fast false (un (sw_div_explicit Wn Wn toM curlc lap clp N dens X pot orog r)) a l /\
      sw_pot_explicit Wn Wn toM divc clp X' r (a, l)
        = mir_modal fast false (un (sw_pot_explicit Wn Wn toM divc clp X r)) a l.
    Proof. intros; eapply sw_tendency_mirror_equivariant; eassumption. Qed.

    (** (c) the whole method on MODAL states: explicit_terms(mirror state, mirror orography) = mirror explicit_terms *)
    Theorem C10_sw_explicit_terms_mirror_equivariant (omega : F) (sinlat : nat -> F) (orog : option marr)
            (vort dive pot : nat -> marr) r a l :
      (forall j, (j < J)%nat -> sinlat (J - 1 - j)%nat = - sinlat j) ->
      (r < N)%nat -> (a < R)%nat -> (l < L)%nat ->
      let E := sw_explicit_terms fast R L I J N f p wq rad wa wb dens omega sinlat in
      let T := E orog vort dive pot in
      let T' := E (option_map (mir_modal fast false) orog) (fun k => mir_modal fast true (vort k))
                  (fun k => mir_modal fast false (dive k)) (fun k => mir_modal fast false (pot k)) in
      fst (fst T') r (a, l) = mir_modal fast true (un (fst (fst T) r)) a l /\
      snd (fst T') r (a, l) = mir_modal fast false (un (snd (fst T) r)) a l /\
      snd T' r (a, l) = mir_modal fast false (un (snd T r)) a l.
    Proof. intros; eapply sw_explicit_terms_mirror_equivariant; eassumption. Qed.
  End Mirror.

  Section Rot.
    Variables (fast : bool) (R L I J N : nat) (f : nat -> nat -> F) (p : nat -> nat -> nat -> F) (wq : nat -> F)
              (rad : F) (wa wb : @marr F) (dens : nat -> F) (k : nat) (rc rs : nat -> F).
    Hypothesis HR : layout_ok fast R.
    Hypothesis Hrot : H_rot_table fast R I f k rc rs.
    Hypothesis Hpp : H_p_pairs fast R L J p.
    Hypothesis Hun : H_rot_unit rc rs.
    Hypothesis Hwa : sym_rows fast R wa.
    Hypothesis Hwb : sym_rows fast R wb.
    Let toM := sw_toM R L I J f p wq.
    Let divc := sw_divc fast R L rad wa wb.
    Let curlc := sw_curlc fast R L rad wa wb.
    Let lap := sw_lap (F := F) L rad.
    Let clp := sw_clip (F := F) L.

    (** (d) rotation by k longitude grid steps: columns shifted by k nodes, potentials and orography rotated *)
    Theorem C10_sw_tendency_rot_equivariant (X X' : Wn -> SWCol) (pot pot' : nat -> Wn -> F) (orog : option (Wn -> F)) r a l :
      sw_cols_eqv Wn (inPc I J) N X' (fun q => X (piNr I k q)) ->
      (forall b w', (b < N)%nat -> inWc R L w' -> pot' b w' = Rmc fast rc rs (pot b) w') ->
      (r < N)%nat -> (a < R)%nat -> (l < L)%nat ->
      sw_vort_explicit Wn Wn toM divc clp X' r (a, l)
        = rot_modal fast rc rs (un (sw_vort_explicit Wn Wn toM divc clp X r)) a l /\
      sw_div_explicit Wn Wn toM curlc lap clp N dens X' pot' (option_map (Rmc fast rc rs) orog) r (a, l)
        = rot_modal fast rc rs (un (sw_div_explicit Wn Wn toM curlc lap clp N dens X pot orog r)) a l /\
      sw_pot_explicit Wn Wn toM divc clp X' r (a, l)
        = rot_modal fast rc rs (un (sw_pot_explicit Wn Wn toM divc clp X r)) a l.
    Proof. intros; eapply sw_tendency_rot_equivariant; eassumption. Qed.

    (** (e) the whole method on MODAL states: explicit_terms(rotated state, rotated orography) = rotated explicit_terms *)
    Theorem C10_sw_explicit_terms_rot_equivariant (omega : F) (sinlat : nat -> F) (orog : option marr)
            (vort dive pot : nat -> marr) r a l :
      (r < N)%nat -> (a < R)%nat -> (l < L)%nat ->
      let E := sw_explicit_terms fast R L I J N f p wq rad wa wb dens omega sinlat in
      let T := E orog vort dive pot in
      let T' := E (option_map (rot_modal fast rc rs) orog) (fun n => rot_modal fast rc rs (vort n))
                  (fun n => rot_modal fast rc rs (dive n)) (fun n => rot_modal fast rc rs (pot n)) in
      fst (fst T') r (a, l) = rot_modal fast rc rs (un (fst (fst T) r)) a l /\
      snd (fst T') r (a, l) = rot_modal fast rc rs (un (snd (fst T) r)) a l /\
      snd T' r (a, l) = rot_modal fast rc rs (un (snd T r)) a l.
    Proof. intros; eapply sw_explicit_terms_rot_equivariant; eassumption. Qed.
  End Rot.
End C10_shallow_water.

(** Non-vacuity of the shallow-water statements over Qc: sin(latitude) nodes -1/2, 1/2 of C10_example are antisymmetric (the only
    new hypothesis; the table hypotheses are those of C10_example), the density ratios of (1, 5/4, 3/2) are the
    non-trivial matrix [[0,1,1],[4/5,0,1],[2/3,5/6,0]], and on a concrete two-layer column every nodal expression is
    non-zero and changes under the mirror exactly as stated. *)
Definition ex_swcol : @SWCol Qc :=
  mkSWCol (ex_q [1 # 2; 1 # 3]%Q) (ex_q [1 # 5; -1 # 7]%Q) (ex_q [2; 3]%Q) (ex_q [1; 1 # 4]%Q) (Q2Qc (4 # 3)) (Q2Qc (1 # 2)).
Example C10_sw_example :
  (forall j, (j < 2)%nat -> ex_q [-1 # 2; 1 # 2]%Q (2 - 1 - j)%nat = - ex_q [-1 # 2; 1 # 2]%Q j) /\
  sw_sec2 (ex_q [-1 # 2; 1 # 2]%Q) 0%nat = Q2Qc (4 # 3) /\
  map (fun a => map (fun b => this (density_ratio (ex_q [1; 5 # 4; 3 # 2]%Q) a b)) [0; 1; 2]%nat) [0; 1; 2]%nat
    = [[0; 1; 1]; [4 # 5; 0; 1]; [2 # 3; 5 # 6; 0]]%Q /\
  sw_b_u ex_swcol 1%nat = Q2Qc (14 # 9) /\ sw_b_u (swcol_mirror ex_swcol) 1%nat = Q2Qc (- 14 # 9) /\
  sw_b_v ex_swcol 1%nat = Q2Qc (- 2 # 3) /\ sw_b_v (swcol_mirror ex_swcol) 1%nat = Q2Qc (- 2 # 3) /\
  sw_g_v ex_swcol 1%nat <> 0 /\ sw_e ex_swcol 0%nat <> 0.
Proof.
  split. { intros j Hj. destruct j as [|[|j]]; try lia; apply Qc_is_canon; vm_compute; reflexivity. }
  repeat split; try (apply Qc_is_canon; vm_compute; reflexivity); try (vm_compute; reflexivity).
  - intro H. apply (f_equal (fun q : Qc => Qeq_bool q 0)) in H. vm_compute in H. discriminate H.
  - intro H. apply (f_equal (fun q : Qc => Qeq_bool q 0)) in H. vm_compute in H. discriminate H.
Qed.

(** *** the Legendre-table hypotheses DISCHARGED from the recurrence of associated_legendre.py
    (Thm/SymmetryLegendre.v over Model/Legendre.v, arithmetic regenerated from the source).
    The table is the one the code builds, basis.p[a] = evaluate(n_m = M, n_l = L, x)[|m(a)|] ([leg_basis_p], both layouts;
    [sq] stands for np.sqrt, any function).  The hypotheses mention only the INPUTS of the recurrence - the nodes
    x = sin(lat) antisymmetric and the table y = np.sqrt(1 - x*x) symmetric about the equator ([H_x_antisym], [H_y_sym]) -
    plus the remaining symmetric tables (quadrature weights, sec2_lat / Coriolis / sin(lat)); nothing about Legendre values. *)
Section C10_from_recurrence.
  Context {F : Type} {o : Ops F} {Fc : FieldC o}.
  Variable sq : F -> F.
  Variables (fast : bool) (R M L I J : nat) (f : nat -> nat -> F) (x y : nat -> F) (wq : nat -> F).
  Hypothesis HR : layout_ok fast R.
  Hypothesis HML : (M <= L)%nat.                 (* evaluate raises ValueError otherwise (C01_legendre_accepts) *)
  Hypothesis Hx : H_x_antisym J x.
  Hypothesis Hy : H_y_sym J y.
  Let p := leg_basis_p fast sq J x y M L.

  (** H_parity is a theorem about the recurrence on symmetric nodes; H_p_pairs needs no hypothesis on the nodes *)
  Theorem C10_H_parity_from_recurrence : H_parity fast R L J p.
  Proof. exact (H_parity_from_recurrence sq J x y fast R M L HML Hx Hy). Qed.

  Theorem C10_H_p_pairs_from_recurrence : H_p_pairs fast R L J p.
  Proof. exact (H_p_pairs_from_recurrence sq J x y fast R M L HR). Qed.

  (** the value at the mirrored node, and the support (zero padding rows of the fast layout included) *)
  Theorem C10_legendre_table_flip a j l :
    (j < J)%nat ->
    p a (J - 1 - j)%nat l = sgn (l - sy_wav fast a) * p a j l /\
    ((l < sy_wav fast a)%nat \/ (L <= l)%nat \/ (M <= sy_wav fast a)%nat -> p a j l = 0).
  Proof.
    intros Hj. split; [exact (legendre_evaluate_flip sq J x y M L (sy_wav fast a) j l HML Hx Hy Hj)|].
    exact (leg_basis_p_support sq J x y fast M L a j l).
  Qed.

  (** transforms *)
  Theorem C10_synth_mir_equivariant_from_recurrence ps (xm : marr) i j :
    (j < J)%nat ->
    synth R L J f p (mir_modal fast ps xm) i j = sgn_if ps * flip_lat J (synth R L J f p xm) i j.
  Proof. intros; eapply synth_mir_equivariant; try eassumption. exact C10_H_parity_from_recurrence. Qed.

  Theorem C10_analysis_mir_equivariant_from_recurrence ps (z : marr) a l :
    H_nodes_sym J wq -> (a < R)%nat -> (l < L)%nat ->
    analysis R I J f p wq (fun i j => sgn_if ps * flip_lat J z i j) a l = mir_modal fast ps (analysis R I J f p wq z) a l.
  Proof. intros; eapply analysis_mir_equivariant; try eassumption. exact C10_H_parity_from_recurrence. Qed.

  Theorem C10_synth_rot_equivariant_from_recurrence k c s (xm : marr) i j :
    H_rot_table fast R I f k c s -> s 0%nat = 0 -> (i < I)%nat -> (j < J)%nat ->
    synth R L J f p (rot_modal fast c s xm) i j = shift_lon I k (synth R L J f p xm) i j.
  Proof. intros; eapply synth_rot_equivariant; try eassumption. exact C10_H_p_pairs_from_recurrence. Qed.

  Theorem C10_analysis_rot_equivariant_from_recurrence k c s (z : marr) a l :
    H_rot_table fast R I f k c s -> H_rot_unit c s -> (a < R)%nat -> (l < L)%nat ->
    analysis R I J f p wq (shift_lon I k z) a l = rot_modal fast c s (analysis R I J f p wq z) a l.
  Proof. intros; eapply analysis_rot_equivariant; try eassumption. exact C10_H_p_pairs_from_recurrence. Qed.

  (** primitive equations: explicit tendencies of the mirrored family of columns / of the mirrored MODAL state *)
  Section PrimEq.
    Variable c : @PEcfg F.
    Variables (rad : F) (wa wb : @marr F) (grav : F).
    Hypothesis Hnod : H_nodes_sym J wq.
    Let toM := toMc R I J f p wq.
    Let divc := divcc fast R L rad wa wb.
    Let curlc := curlcc fast R L rad wa wb.
    Let lap := lapc L rad.
    Let clp := clipc L.
    Let piN := piNc J.

    Theorem C10_primeq_tendency_mirror_equivariant_from_recurrence (m : Moist) (X : Wc -> NCol) (rt q s : Wc -> nat -> F)
            (orog hum humz : Wc -> F) r a l :
      (r < cK c)%nat -> (a < R)%nat -> (l < L)%nat ->
      temp_tendency_explicit Wc Wc toM divc clp c (mirX Wc piN X) r (a, l)
        = mir_modal fast false (un (temp_tendency_explicit Wc Wc toM divc clp c X r)) a l /\
      temp_tendency_explicit_moist Wc Wc toM divc clp c m (mirX Wc piN X) (fun n => q (piN n)) r (a, l)
        = mir_modal fast false (un (temp_tendency_explicit_moist Wc Wc toM divc clp c m X q r)) a l /\
      tracer_tendency_explicit Wc Wc toM divc clp c (mirX Wc piN X) (fun n => s (piN n)) r (a, l)
        = mir_modal fast false (un (tracer_tendency_explicit Wc Wc toM divc clp c X s r)) a l /\
      toM (fun n => log_pressure_tendency c (mirX Wc piN X n)) (a, l)
        = mir_modal fast false (un (toM (fun n => log_pressure_tendency c (X n)))) a l /\
      div_tendency_explicit Wc Wc toM divc lap clp c grav (mirX Wc piN X) (fun n => rt (piN n)) (Sec fast orog) (Sec fast hum) r (a, l)
        = mir_modal fast false (un (div_tendency_explicit Wc Wc toM divc lap clp c grav X rt orog hum r)) a l /\
      vort_tendency_explicit Wc Wc toM curlc clp c (mirX Wc piN X) (fun n => rt (piN n)) (Soc fast humz) r (a, l)
        = mir_modal fast true (un (vort_tendency_explicit Wc Wc toM curlc clp c X rt humz r)) a l.
    Proof.
      pose proof C10_H_parity_from_recurrence as Hpar.
      intros; eapply primeq_tendency_mirror_equivariant; eassumption.
    Qed.

    Theorem C10_primeq_mirrored_state_tendency_from_recurrence (m : Moist) (um vm zeta delta temp : nat -> marr) (gxm gym : marr)
            (sec2 cor : nat -> F) (rt rt' q q' s s' : Wc -> nat -> F) (orog hum humz : Wc -> F) r a l :
      let X := cols_of_modal R L J f p um vm zeta delta temp gxm gym sec2 cor in
      let X' := cols_of_modal R L J f p (fun k => mir_modal fast false (um k)) (fun k => mir_modal fast true (vm k))
                              (fun k => mir_modal fast true (zeta k)) (fun k => mir_modal fast false (delta k))
                              (fun k => mir_modal fast false (temp k)) (mir_modal fast false gxm) (mir_modal fast true gym) sec2 cor in
      (forall j, (j < J)%nat -> sec2 j = sec2 (J - 1 - j)%nat) -> (forall j, (j < J)%nat -> cor j = - cor (J - 1 - j)%nat) ->
      (forall n, inPc I J n -> rt' n r = rt (piN n) r) -> (forall n, inPc I J n -> q' n r = q (piN n) r) ->
      (forall n, inPc I J n -> forall k, (k < cK c)%nat -> s' n k = s (piN n) k) ->
      (r < cK c)%nat -> (a < R)%nat -> (l < L)%nat ->
      temp_tendency_explicit Wc Wc toM divc clp c X' r (a, l)
        = mir_modal fast false (un (temp_tendency_explicit Wc Wc toM divc clp c X r)) a l /\
      temp_tendency_explicit_moist Wc Wc toM divc clp c m X' q' r (a, l)
        = mir_modal fast false (un (temp_tendency_explicit_moist Wc Wc toM divc clp c m X q r)) a l /\
      tracer_tendency_explicit Wc Wc toM divc clp c X' s' r (a, l)
        = mir_modal fast false (un (tracer_tendency_explicit Wc Wc toM divc clp c X s r)) a l /\
      toM (fun n => log_pressure_tendency c (X' n)) (a, l)
        = mir_modal fast false (un (toM (fun n => log_pressure_tendency c (X n)))) a l /\
      div_tendency_explicit Wc Wc toM divc lap clp c grav X' rt' (Sec fast orog) (Sec fast hum) r (a, l)
        = mir_modal fast false (un (div_tendency_explicit Wc Wc toM divc lap clp c grav X rt orog hum r)) a l /\
      vort_tendency_explicit Wc Wc toM curlc clp c X' rt' (Soc fast humz) r (a, l)
        = mir_modal fast true (un (vort_tendency_explicit Wc Wc toM curlc clp c X rt humz r)) a l.
    Proof.
      pose proof C10_H_parity_from_recurrence as Hpar.
      intros X X'; intros; eapply primeq_mirrored_state_tendency; eassumption.
    Qed.
  End PrimEq.

  (** shallow water: the whole method on MODAL states, mirror (H_parity discharged) and rotation (H_p_pairs discharged) *)
  Section ShallowWater.
    Variables (N : nat) (rad : F) (wa wb : @marr F) (dens : nat -> F).

    Theorem C10_sw_explicit_terms_mirror_equivariant_from_recurrence (omega : F) (sinlat : nat -> F) (orog : option marr)
            (vort dive pot : nat -> marr) r a l :
      H_nodes_sym J wq ->
      (forall j, (j < J)%nat -> sinlat (J - 1 - j)%nat = - sinlat j) ->
      (r < N)%nat -> (a < R)%nat -> (l < L)%nat ->
      let E := sw_explicit_terms fast R L I J N f p wq rad wa wb dens omega sinlat in
      let T := E orog vort dive pot in
      let T' := E (option_map (mir_modal fast false) orog) (fun k => mir_modal fast true (vort k))
                  (fun k => mir_modal fast false (dive k)) (fun k => mir_modal fast false (pot k)) in
      fst (fst T') r (a, l) = mir_modal fast true (un (fst (fst T) r)) a l /\
      snd (fst T') r (a, l) = mir_modal fast false (un (snd (fst T) r)) a l /\
      snd T' r (a, l) = mir_modal fast false (un (snd T r)) a l.
    Proof.
      pose proof C10_H_parity_from_recurrence as Hpar.
      intros; eapply sw_explicit_terms_mirror_equivariant; eassumption.
    Qed.

    Theorem C10_sw_explicit_terms_rot_equivariant_from_recurrence k (rc rs : nat -> F) (omega : F) (sinlat : nat -> F)
            (orog : option marr) (vort dive pot : nat -> marr) r a l :
      H_rot_table fast R I f k rc rs -> H_rot_unit rc rs -> sym_rows fast R wa -> sym_rows fast R wb ->
      (r < N)%nat -> (a < R)%nat -> (l < L)%nat ->
      let E := sw_explicit_terms fast R L I J N f p wq rad wa wb dens omega sinlat in
      let T := E orog vort dive pot in
      let T' := E (option_map (rot_modal fast rc rs) orog) (fun n => rot_modal fast rc rs (vort n))
                  (fun n => rot_modal fast rc rs (dive n)) (fun n => rot_modal fast rc rs (pot n)) in
      fst (fst T') r (a, l) = rot_modal fast rc rs (un (fst (fst T) r)) a l /\
      snd (fst T') r (a, l) = rot_modal fast rc rs (un (snd (fst T) r)) a l /\
      snd T' r (a, l) = rot_modal fast rc rs (un (snd T r)) a l.
    Proof.
      pose proof C10_H_p_pairs_from_recurrence as Hpp.
      intros; eapply sw_explicit_terms_rot_equivariant; eassumption.
    Qed.
  End ShallowWater.
End C10_from_recurrence.

(** Non-vacuity over Qc: J = 4 nodes x = (-3/5, -5/13, 5/13, 3/5) with y = sqrt(1 - x^2) = (4/5, 12/13, 12/13, 4/5) exactly,
    np.sqrt := identity (any function is allowed), M = 2, L = 3, reference layout with R = 3 rows: the node hypotheses hold,
    the recurrence (run by vm_compute) produces non-zero values of both parities, and the two discharged table facts hold
    on it as the theorems say. *)
Definition rx (i : nat) : Qc := ex_q [-3 # 5; -5 # 13; 5 # 13; 3 # 5]%Q i.
Definition ry (i : nat) : Qc := ex_q [4 # 5; 12 # 13; 12 # 13; 4 # 5]%Q i.
Definition rsq (t : Qc) : Qc := t.
Definition rp : nat -> nat -> nat -> Qc := leg_basis_p false rsq 4 rx ry 2 3.

Example C10_from_recurrence_example :
  layout_ok false 3 /\ H_x_antisym 4 rx /\ H_y_sym 4 ry /\
  (forall j, (j < 4)%nat -> ry j * ry j = leg_y2 (rx j)) /\
  H_parity false 3 3 4 rp /\ H_p_pairs false 3 3 4 rp /\
  rp 0%nat 0%nat 1%nat = Q2Qc (-9 # 10) /\ rp 0%nat 3%nat 1%nat = Q2Qc (9 # 10) /\
  rp 1%nat 1%nat 2%nat = Q2Qc (225 # 169) /\ rp 2%nat 2%nat 2%nat = Q2Qc (-225 # 169) /\ rp 1%nat 0%nat 0%nat = 0.
Proof.
  split; [reflexivity|].
  split. { intros j Hj. destruct j as [|[|[|[|j]]]]; try lia; apply Qc_is_canon; vm_compute; reflexivity. }
  split. { intros j Hj. destruct j as [|[|[|[|j]]]]; try lia; apply Qc_is_canon; vm_compute; reflexivity. }
  split. { intros j Hj. destruct j as [|[|[|[|j]]]]; try lia; apply Qc_is_canon; vm_compute; reflexivity. }
  assert (Hx : H_x_antisym 4 rx).
  { intros j Hj. destruct j as [|[|[|[|j]]]]; try lia; apply Qc_is_canon; vm_compute; reflexivity. }
  assert (Hy : H_y_sym 4 ry).
  { intros j Hj. destruct j as [|[|[|[|j]]]]; try lia; apply Qc_is_canon; vm_compute; reflexivity. }
  split. { apply (C10_H_parity_from_recurrence rsq false 3 2 3 4 rx ry); [lia|exact Hx|exact Hy]. }
  split. { apply (C10_H_p_pairs_from_recurrence rsq false 3 2 3 4 rx ry). reflexivity. }
  repeat split; apply Qc_is_canon; vm_compute; reflexivity.
Qed.

From Dino Require Import Model.Filters Model.PrimEq Model.Implicit Gen.PrimEqSrc Thm.PrimEqSrc.
(** ** Tie to the source by translation: the nodal column algebra of Model/PrimEq.v that this property reasons about
    is the code of dinosaur/primitive_equations.py (transcribed from the AST on every run by tools/translate/gen_primeq.py). *)
Theorem C10_model_is_source {F : Type} {o : Ops F} {Fc : FieldC o} (c : @PEcfg F) (m : @Moist F)
    (inc_va : bool) (x : @NCol F) (Tf g vg s q qc qi rt : nat -> F) (k : nat) :
  u_dot_grad x k = u_dot_grad_src x k /\
  t_omega_over_sigma_sp c Tf g vg k = t_omega_over_sigma_sp_src c Tf g vg k /\
  combined_u c inc_va x (rt_dry c x) k = combined_u_src c inc_va x k /\
  combined_v c inc_va x (rt_dry c x) k = combined_v_src c inc_va x k /\
  kinetic x k = kinetic_src x k /\
  temp_vertical_tendency c inc_va x k = temp_vertical_tendency_src c inc_va x k /\
  hsa_nodal x s k = hsa_nodal_src x s k /\
  hsa_mu x s k = hsa_u_src x s k * n_sec2 x /\
  hsa_mv x s k = hsa_v_src x s k * n_sec2 x /\
  temp_adiabatic c x k = temp_adiabatic_src c x k /\
  log_pressure_tendency c x = log_pressure_tendency_src c x /\
  moisture_contribution c m q k = moisture_contribution_src c m q k /\
  rt_moist c m x q k = rt_moist_src c x (moisture_contribution c m q) k /\
  rt_cloud c m x q qc qi k = rt_cloud_src c x (moisture_contribution c m q) qc qi k /\
  combined_u c inc_va x rt k = combined_u_moist_src c inc_va x q rt k /\
  combined_v c inc_va x rt k = combined_v_moist_src c inc_va x q rt k /\
  temp_adiabatic_moist c m x q k = temp_adiabatic_moist_src c m x q k.
Proof. exact (primeq_model_is_source c m inc_va x Tf g vg s q qc qi rt k). Qed.

Print Assumptions C10_rot_group.
Print Assumptions C10_rot_steps.
Print Assumptions C10_rot_inverse.
Print Assumptions C10_mir_involutive.
Print Assumptions C10_rot_mir_commute.
Print Assumptions C10_synth_rot_equivariant.
Print Assumptions C10_analysis_rot_equivariant.
Print Assumptions C10_synth_mir_equivariant.
Print Assumptions C10_analysis_mir_equivariant.
Print Assumptions C10_nodal_pointwise_equivariant.
Print Assumptions C10_column_ops_equivariant.
Print Assumptions C10_dlon_equivariant.
Print Assumptions C10_l_operators_equivariant.
Print Assumptions C10_lat_derivatives_rot_equivariant.
Print Assumptions C10_lat_derivatives_mirror_sign.
Print Assumptions C10_vector_calculus_mirror.
Print Assumptions C10_vector_calculus_rot.
Print Assumptions C10_coriolis_symmetry.
Print Assumptions C10_step_equivariant.
Print Assumptions C10_trajectory_equivariant.
Print Assumptions C10_leapfrog_trajectory_equivariant.
Print Assumptions C10_integrators_equivariant.
Print Assumptions C10_primeq_nodal_shift_equivariant.
Print Assumptions C10_primeq_nodal_mirror_equivariant.
Print Assumptions C10_get_cos_lat_vector_mirror.
Print Assumptions C10_primeq_columns_of_mirrored_state.
Print Assumptions C10_primeq_tendency_mirror_equivariant.
Print Assumptions C10_primeq_mirrored_state_tendency.
Print Assumptions C10_primeq_humidity_mirror.
Print Assumptions C10_get_cos_lat_vector_rot.
Print Assumptions C10_primeq_columns_of_rotated_state.
Print Assumptions C10_primeq_tendency_rot_equivariant.
Print Assumptions C10_primeq_rotated_state_tendency.
Print Assumptions C10_primeq_humidity_rot.
Print Assumptions C10_implicit_terms_equivariant.
Print Assumptions C10_implicit_inverse_equivariant.
Print Assumptions C10_example.
Print Assumptions C10_sw_nodal_equivariant.
Print Assumptions C10_sw_tendency_mirror_equivariant.
Print Assumptions C10_sw_explicit_terms_mirror_equivariant.
Print Assumptions C10_sw_tendency_rot_equivariant.
Print Assumptions C10_sw_explicit_terms_rot_equivariant.
Print Assumptions C10_sw_example.
Print Assumptions C10_H_parity_from_recurrence.
Print Assumptions C10_H_p_pairs_from_recurrence.
Print Assumptions C10_legendre_table_flip.
Print Assumptions C10_synth_mir_equivariant_from_recurrence.
Print Assumptions C10_analysis_mir_equivariant_from_recurrence.
Print Assumptions C10_synth_rot_equivariant_from_recurrence.
Print Assumptions C10_analysis_rot_equivariant_from_recurrence.
Print Assumptions C10_primeq_tendency_mirror_equivariant_from_recurrence.
Print Assumptions C10_primeq_mirrored_state_tendency_from_recurrence.
Print Assumptions C10_sw_explicit_terms_mirror_equivariant_from_recurrence.
Print Assumptions C10_sw_explicit_terms_rot_equivariant_from_recurrence.
Print Assumptions C10_from_recurrence_example.
Print Assumptions C10_model_is_source.
