(** Property C09 - the two spherical-harmonic implementations are
    observationally equivalent under the fixed re-indexing of their coefficient
    layouts; the fast implementation's tuning options never change results.
    Statements only; proofs in Thm/SHTFast.v (and Thm/SHT.v).
    Every theorem: arbitrary field [F] (hence the reals), arbitrary sizes
    M, L, I, J, arbitrary paddings (Mh >= M, Lf >= L, If >= I, Jf >= J), arbitrary
    tables, arbitrary inputs.  [tables_related] (the fast f, p, w are the
    reference ones re-indexed by phi, with the zero m=-0 column and zero
    padding) is an EXACT table obligation checked by tools/props/C09.py on the
    arrays dumped from both implementations.
    Scope: transforms, masks, modal axes / eigenvalue tables, shapes, options.
    The differential operators (C02) and sharded execution (C07) are compared
    implementation-vs-implementation by the plugin, not modelled here. *)
From Dino Require Import Base.Ops Base.Sums Base.Inst Model.SHT Model.SHTFast Thm.SHT Thm.SHTFast.
From Coq Require Import Qcanon.
Local Open Scope F_scope.

Section C09.
  Context {F : Type} {o : Ops F} {Fc : FieldC o}.
  Variables (M L I J Mh Lf If Jf : nat).
  Hypothesis HM : (1 <= M)%nat.
  Hypothesis HMh : (M <= Mh)%nat.
  Hypothesis HLf : (L <= Lf)%nat.
  Hypothesis HIf : (I <= If)%nat.
  Hypothesis HJf : (J <= Jf)%nat.
  Variable fr : nat -> nat -> F.           (* reference tables *)
  Variable pr : nat -> nat -> nat -> F.
  Variable wr : nat -> F.
  Variable ff : nat -> nat -> F.           (* fast tables (unstacked f) *)
  Variable pf : nat -> nat -> nat -> F.
  Variable wf : nat -> F.
  Let K := modal_rows_real M.
  Let TR := tables_related M L I J Mh Lf If Jf fr pr wr ff pf wf.

  (** synth_fast . E = pad . synth_real *)
  Theorem C09_synth_equiv rev x i j : TR -> (i < If)%nat -> (j < Jf)%nat ->
    synth_fast_u rev Mh Lf Jf ff pf (embed M L x) i j = pad2 I J (synth K L J fr pr x) i j.
  Proof. unfold TR. intros. eapply synth_fast_embed; eauto. Qed.

  (** analysis_fast . pad = E . analysis_real *)
  Theorem C09_analysis_equiv rev z k l : TR -> (k < 2 * Mh)%nat -> (l < Lf)%nat ->
    analysis_fast_u rev Mh If Jf ff pf wf (pad2 I J z) k l = embed M L (analysis K I J fr pr wr z) k l.
  Proof. unfold TR. intros. eapply analysis_fast_pad; eauto. Qed.

  (** fast_padding_inert: for ARBITRARY fast-layout inputs (anything in the extra
      row, in the modal padding, in the nodal padding) the fast transforms are
      the reference transforms of the projected / cropped input; the padded
      output entries and the extra row are exactly zero *)
  Theorem C09_fast_padding_inert rev y z :
    TR ->
    (forall i j, (i < If)%nat -> (j < Jf)%nat ->
       synth_fast_u rev Mh Lf Jf ff pf y i j = pad2 I J (synth K L J fr pr (proj y)) i j) /\
    (forall k l, (k < 2 * Mh)%nat -> (l < Lf)%nat ->
       analysis_fast_u rev Mh If Jf ff pf wf z k l = embed M L (analysis K I J fr pr wr z) k l) /\
    (forall i j, (i < If)%nat -> (j < Jf)%nat -> (I <= i \/ J <= j)%nat ->
       synth_fast_u rev Mh Lf Jf ff pf y i j = 0) /\
    (forall k l, (k < 2 * Mh)%nat -> (l < Lf)%nat -> (k = 1 \/ 2 * M <= k \/ L <= l)%nat ->
       analysis_fast_u rev Mh If Jf ff pf wf z k l = 0).
  Proof.
    unfold TR. intros T. repeat split; intros.
    - eapply synth_fast_general; eauto.
    - eapply analysis_fast_general; eauto.
    - eapply synth_fast_padding_zero with (M:=M) (L:=L) (I:=I) (J:=J) (If:=If); eauto.
    - eapply analysis_fast_extra_zero with (M:=M) (L:=L) (I:=I) (J:=J) (Lf:=Lf); eauto.
  Qed.

  (** the re-indexing: Pi . E = id; E puts zeros in the extra row and the padding *)
  Theorem C09_reindex (x : nat -> nat -> F) :
    (forall a l, (a < K)%nat -> (l < L)%nat -> proj (embed M L x) a l = x a l) /\
    (forall l, embed M L x 1 l = 0) /\
    (forall k l, (2 * M <= k \/ L <= l)%nat -> embed M L x k l = 0).
  Proof.
    repeat split; intros.
    - now apply proj_embed.
    - apply embed_row1.
    - now apply embed_pad.
  Qed.

  (** options: stacked vs unstacked Fourier step (with the Fortran-reshaped table
      of [basis]) and einsum argument order are irrelevant, in any combination *)
  Theorem C09_options_irrelevant rev rev' (f : nat -> nat -> F) p w y z :
    (forall i j, (j < Jf)%nat ->
       synth_fast_s rev Mh Lf Jf (stack_f f) p y i j = synth_fast_u rev' Mh Lf Jf f p y i j) /\
    (forall k l, (k < 2 * Mh)%nat ->
       analysis_fast_s rev Mh If Jf (stack_f f) p w z k l = analysis_fast_u rev' Mh If Jf f p w z k l) /\
    (forall i j, (j < Jf)%nat ->
       synth_fast_u true Mh Lf Jf f p y i j = synth_fast_u false Mh Lf Jf f p y i j) /\
    (forall k l, (k < 2 * Mh)%nat ->
       analysis_fast_u true Mh If Jf f p w z k l = analysis_fast_u false Mh If Jf f p w z k l).
  Proof.
    repeat split; intros.
    - now apply stacked_irrelevant_synth.
    - now apply stacked_irrelevant_analysis.
    - now apply rev_irrelevant_synth.
    - now apply rev_irrelevant_analysis.
  Qed.

  (** base_shape_multiple (any other admissible padding) is irrelevant on resolved entries *)
  Theorem C09_base_multiple_irrelevant Mh' Lf' If' Jf' ff' pf' wf' rev rev' y y' z z' :
    (M <= Mh')%nat -> (L <= Lf')%nat -> (I <= If')%nat -> (J <= Jf')%nat ->
    TR -> tables_related M L I J Mh' Lf' If' Jf' fr pr wr ff' pf' wf' ->
    (forall a l, (a < 2 * M - 1)%nat -> (l < L)%nat -> y (phi a) l = y' (phi a) l) ->
    (forall i j, (i < I)%nat -> (j < J)%nat -> z i j = z' i j) ->
    (forall i j, (i < I)%nat -> (j < J)%nat ->
       synth_fast_u rev Mh Lf Jf ff pf y i j = synth_fast_u rev' Mh' Lf' Jf' ff' pf' y' i j) /\
    (forall a l, (a < 2 * M - 1)%nat -> (l < L)%nat ->
       analysis_fast_u rev Mh If Jf ff pf wf z (phi a) l
       = analysis_fast_u rev' Mh' If' Jf' ff' pf' wf' z' (phi a) l).
  Proof.
    unfold TR. intros. split; intros.
    - eapply base_multiple_irrelevant_synth with (M:=M) (L:=L) (I:=I) (J:=J) (If:=If) (If':=If') (wf:=wf) (wf':=wf'); eauto.
    - eapply base_multiple_irrelevant_analysis with (M:=M) (L:=L) (I:=I) (J:=J) (Lf:=Lf) (Lf':=Lf'); eauto.
  Qed.
End C09.

(** masks: the fast mask is the embedded reference mask *)
Theorem C09_mask_equiv M L :
  (forall a l, (a < 2 * M - 1)%nat -> (l < L)%nat -> mask_fast M L (phi a) l = mask_real a l) /\
  (forall l, mask_fast M L 1 l = false) /\
  (forall k l, (2 * M <= k \/ L <= l)%nat -> mask_fast M L k l = false).
Proof.
  repeat split; intros.
  - now apply mask_fast_phi.
  - apply mask_fast_row1.
  - now apply mask_fast_pad.
Qed.

(** modal axes (hence every table computed from them, e.g. the Laplacian
    eigenvalues -l(l+1)/r^2): re-indexed on the resolved part, zero on the extra row / padding *)
Theorem C09_axes_equiv M L :
  (forall a, (a < 2 * M - 1)%nat -> m_fast M (phi a) = m_real a) /\
  (forall l, (l < L)%nat -> l_fast L l = l_real l) /\
  (forall k, (k = 1 \/ 2 * M <= k)%nat -> m_fast M k = 0%Z) /\
  (forall l, (L <= l)%nat -> l_fast L l = 0%Z).
Proof.
  repeat split; intros.
  - now apply m_fast_phi.
  - unfold l_fast, l_real. now replace (l <? L) with true by (symmetry; now apply Nat.ltb_lt).
  - unfold m_fast. destruct H as [->|H]; [reflexivity|].
    replace (k <? 2 * M) with false by (symmetry; now apply Nat.ltb_ge).
    now rewrite Bool.orb_true_r.
  - unfold l_fast. now replace (l <? L) with false by (symmetry; now apply Nat.ltb_ge).
Qed.

Theorem C09_eigenvalues_equiv {F} {o : Ops F} (r : F) L l : (l < L)%nat ->
  lap_eig r (l_fast L l) = lap_eig r (l_real l).
Proof.
  intros H. unfold l_fast, l_real. now replace (l <? L) with true by (symmetry; now apply Nat.ltb_lt).
Qed.

(** shapes: padded sizes dominate the limits, are multiples of the requested
    multiple, pad by less than one multiple; the padded modal row count is even *)
Theorem C09_shapes base xs x : (1 <= base)%nat -> (1 <= xs)%nat ->
  (x <= round_to_multiple x (base * xs))%nat /\
  (round_to_multiple x (base * xs) < x + base * xs)%nat /\
  (round_to_multiple x (base * xs) mod (base * xs) = 0)%nat /\
  (forall M, exists Mh, modal_rows_fast base xs M = (2 * Mh)%nat /\ (M <= Mh)%nat).
Proof.
  intros Hb Hx.
  destruct (round_to_multiple_spec x (base * xs)) as (A & B & C); [nia|].
  repeat split; auto. intros M. now apply modal_rows_fast_even.
Qed.

(** *** non-vacuity: [tables_related] holds for concrete tables over Qc (the
    orthonormal reference tables of C01's example, M = 2, L = 2, 4 x 2 nodes, one
    padded latitude), and the statements are non-trivial on them *)
Definition exq (l : list Q) (n : nat) : Qc := Q2Qc (nth n l 0%Q).
Definition ex_f (i a : nat) : Qc :=
  exq (nth a [[1#2; 1#2; 1#2; 1#2]; [1#2; -1#2; 1#2; -1#2]; [1#2; 1#2; -1#2; -1#2]]%Q []) i.
Definition ex_p (a j l : nat) : Qc :=
  match a with
  | O => exq (nth l [[1; 1]; [-1; 1]]%Q []) j
  | _ => exq (nth l [[0; 0]; [1; 1]]%Q []) j
  end.
Definition ex_w (j : nat) : Qc := Q2Qc (1#2).
Definition ex_ff (i k : nat) : Qc := match k with O => ex_f i 0 | S O => Q2Qc 0 | S k' => ex_f i k' end.
Definition ex_pf (m j l : nat) : Qc := if j <? 2 then ex_p (2 * m) j l else Q2Qc 0.
Definition ex_wf (j : nat) : Qc := if j <? 2 then ex_w j else Q2Qc 0.
Definition ex_y (k l : nat) : Qc := Q2Qc (inject_Z (Z.of_nat (1 + k + 4 * l))).

Ltac qc := apply Qc_is_canon; vm_compute; reflexivity.

Example C09_hyps_satisfiable :
  tables_related 2 2 4 2 2 2 4 3 ex_f ex_p ex_w ex_ff ex_pf ex_wf /\
  (* garbage in the extra row does not reach the grid; its analysis is zero; row 3 returns *)
  synth_fast_u false 2 2 3 ex_ff ex_pf ex_y 1 1
    = synth_fast_u true 2 2 3 ex_ff ex_pf (fun k l => if k =? 1 then 0 else ex_y k l) 1 1 /\
  analysis_fast_u false 2 4 3 ex_ff ex_pf ex_wf (synth_fast_u false 2 2 3 ex_ff ex_pf ex_y) 1 1 = 0 /\
  analysis_fast_u false 2 4 3 ex_ff ex_pf ex_wf (synth_fast_u false 2 2 3 ex_ff ex_pf ex_y) 3 1 = ex_y 3 1 /\
  synth_fast_u false 2 2 3 ex_ff ex_pf ex_y 1 1 <> 0.
Proof.
  split.
  { constructor.
    - intros i a Hi Ha. destruct a as [|[|[|a]]]; try lia; reflexivity.
    - intros i Hi. reflexivity.
    - intros i k Hi Hk H. lia.
    - intros a j l Ha Hj Hl.
      destruct a as [|[|[|a]]]; try lia; destruct j as [|[|j]]; try lia; destruct l as [|[|l]]; try lia; qc.
    - intros m j l Hm Hj Hl H. unfold ex_pf.
      destruct j as [|[|[|j]]]; try lia; reflexivity.
    - intros j Hj. unfold ex_wf. destruct j as [|[|j]]; try lia; reflexivity.
    - intros j H1 H2. unfold ex_wf. destruct j as [|[|[|j]]]; try lia; reflexivity. }
  split. { qc. }
  split. { qc. }
  split. { qc. }
  intro H. vm_compute in H. discriminate H.
Qed.

Print Assumptions C09_synth_equiv.
Print Assumptions C09_analysis_equiv.
Print Assumptions C09_fast_padding_inert.
Print Assumptions C09_reindex.
Print Assumptions C09_options_irrelevant.
Print Assumptions C09_base_multiple_irrelevant.
Print Assumptions C09_mask_equiv.
Print Assumptions C09_axes_equiv.
Print Assumptions C09_eigenvalues_equiv.
Print Assumptions C09_shapes.
Print Assumptions C09_hyps_satisfiable.
