(** Property C09 - the two spherical-harmonic implementations are
    observationally equivalent under the fixed re-indexing of their coefficient
    layouts; the fast implementation's tuning options never change results.
    Statements only; proofs in Thm/SHTFast.v (and Thm/SHT.v).
    Every theorem: arbitrary field [F] (hence the reals), arbitrary sizes
    M, L, I, J, arbitrary paddings (Mh >= M, Lf >= L, If >= I, Jf >= J), arbitrary
    tables, arbitrary inputs.  [tables_related] (the fast f, p, w are the
    reference ones re-indexed by phi, with the zero m=-0 column and zero
    padding) is an EXACT table obligation checked by tools/props/C09.py on the
    arrays dumped from both implementations.
    Scope: transforms, masks, modal axes / eigenvalue tables, shapes, options.
    Sharded execution (C07) is compared implementation-vs-implementation by the plugin.
    "Hence the same model tendencies" ([Section C09_whole_state], proofs in
    Thm/PrimEqFullFast.v): the whole-state primitive-equation model on the fast layout
    (Model/PrimEqFullFast.v: explicit_terms, implicit_terms, implicit_inverse composed from
    the fast transforms and the fast = true differential operators on padded shapes) returns,
    on every in-range coefficient (phi a, l), the value the reference whole-state model
    (Model/PrimEqFull.v) returns at (a, l) - for the embedded state E s and in fact for EVERY
    fast state that agrees with s on the in-range coefficients (garbage in the extra row or in
    the padding is inert).  Extra hypothesis: [dtables_related] (the derivative recurrence
    weights a, b of the fast grid are the reference ones re-indexed; a is zero in the padded
    columns) - an exact table obligation like [tables_related].
    "... and trajectories": C09_step_equiv / C09_filter_equiv / C09_trajectory_equiv below. *)
From Dino Require Import Model.Integrators.
From Dino Require Import Model.Sigma Model.Implicit Model.PrimEq Model.Deriv Model.PrimEqFull Model.PrimEqFullFast Thm.PrimEqFullFast.
From Dino Require Import Base.Ops Base.Sums Base.Inst Model.SHT Model.SHTFast Thm.SHT Thm.SHTFast.
From Coq Require Import Qcanon.
Local Open Scope F_scope.

Section C09.
  Context {F : Type} {o : Ops F} {Fc : FieldC o}.
  Variables (M L I J Mh Lf If Jf : nat).
  Hypothesis HM : (1 <= M)%nat.
  Hypothesis HMh : (M <= Mh)%nat.
  Hypothesis HLf : (L <= Lf)%nat.
  Hypothesis HIf : (I <= If)%nat.
  Hypothesis HJf : (J <= Jf)%nat.
  Variable fr : nat -> nat -> F.           (* reference tables *)
  Variable pr : nat -> nat -> nat -> F.
  Variable wr : nat -> F.
  Variable ff : nat -> nat -> F.           (* fast tables (unstacked f) *)
  Variable pf : nat -> nat -> nat -> F.
  Variable wf : nat -> F.
  Let K := modal_rows_real M.
  Let TR := tables_related M L I J Mh Lf If Jf fr pr wr ff pf wf.

  (** synth_fast . E = pad . synth_real *)
  Theorem C09_synth_equiv rev x i j : TR -> (i < If)%nat -> (j < Jf)%nat ->
    synth_fast_u rev Mh Lf Jf ff pf (embed M L x) i j = pad2 I J (synth K L J fr pr x) i j.
  Proof. unfold TR. intros. eapply synth_fast_embed; eauto. Qed.

  (** analysis_fast . pad = E . analysis_real *)
  Theorem C09_analysis_equiv rev z k l : TR -> (k < 2 * Mh)%nat -> (l < Lf)%nat ->
    analysis_fast_u rev Mh If Jf ff pf wf (pad2 I J z) k l = embed M L (analysis K I J fr pr wr z) k l.
  Proof. unfold TR. intros. eapply analysis_fast_pad; eauto. Qed.

  (** fast_padding_inert: for ARBITRARY fast-layout inputs (anything in the extra
      row, in the modal padding, in the nodal padding) the fast transforms are
      the reference transforms of the projected / cropped input; the padded
      output entries and the extra row are exactly zero *)
  Theorem C09_fast_padding_inert rev y z :
    TR ->
    (forall i j, (i < If)%nat -> (j < Jf)%nat ->
       synth_fast_u rev Mh Lf Jf ff pf y i j = pad2 I J (synth K L J fr pr (proj y)) i j) /\
    (forall k l, (k < 2 * Mh)%nat -> (l < Lf)%nat ->
       analysis_fast_u rev Mh If Jf ff pf wf z k l = embed M L (analysis K I J fr pr wr z) k l) /\
    (forall i j, (i < If)%nat -> (j < Jf)%nat -> (I <= i \/ J <= j)%nat ->
       synth_fast_u rev Mh Lf Jf ff pf y i j = 0) /\
    (forall k l, (k < 2 * Mh)%nat -> (l < Lf)%nat -> (k = 1 \/ 2 * M <= k \/ L <= l)%nat ->
       analysis_fast_u rev Mh If Jf ff pf wf z k l = 0).
  Proof.
    unfold TR. intros T. repeat split; intros.
    - eapply synth_fast_general; eauto.
    - eapply analysis_fast_general; eauto.
    - eapply synth_fast_padding_zero with (M:=M) (L:=L) (I:=I) (J:=J) (If:=If); eauto.
    - eapply analysis_fast_extra_zero with (M:=M) (L:=L) (I:=I) (J:=J) (Lf:=Lf); eauto.
  Qed.

  (** the re-indexing: Pi . E = id; E puts zeros in the extra row and the padding *)
  Theorem C09_reindex (x : nat -> nat -> F) :
    (forall a l, (a < K)%nat -> (l < L)%nat -> proj (embed M L x) a l = x a l) /\
    (forall l, embed M L x 1 l = 0) /\
    (forall k l, (2 * M <= k \/ L <= l)%nat -> embed M L x k l = 0).
  Proof.
    repeat split; intros.
    - now apply proj_embed.
    - apply embed_row1.
    - now apply embed_pad.
  Qed.

  (** options: stacked vs unstacked Fourier step (with the Fortran-reshaped table
      of [basis]) and einsum argument order are irrelevant, in any combination *)
  Theorem C09_options_irrelevant rev rev' (f : nat -> nat -> F) p w y z :
    (forall i j, (j < Jf)%nat ->
       synth_fast_s rev Mh Lf Jf (stack_f f) p y i j = synth_fast_u rev' Mh Lf Jf f p y i j) /\
    (forall k l, (k < 2 * Mh)%nat ->
       analysis_fast_s rev Mh If Jf (stack_f f) p w z k l = analysis_fast_u rev' Mh If Jf f p w z k l) /\
    (forall i j, (j < Jf)%nat ->
       synth_fast_u true Mh Lf Jf f p y i j = synth_fast_u false Mh Lf Jf f p y i j) /\
    (forall k l, (k < 2 * Mh)%nat ->
       analysis_fast_u true Mh If Jf f p w z k l = analysis_fast_u false Mh If Jf f p w z k l).
  Proof.
    repeat split; intros.
    - now apply stacked_irrelevant_synth.
    - now apply stacked_irrelevant_analysis.
    - now apply rev_irrelevant_synth.
    - now apply rev_irrelevant_analysis.
  Qed.

  (** base_shape_multiple (any other admissible padding) is irrelevant on resolved entries *)
  Theorem C09_base_multiple_irrelevant Mh' Lf' If' Jf' ff' pf' wf' rev rev' y y' z z' :
    (M <= Mh')%nat -> (L <= Lf')%nat -> (I <= If')%nat -> (J <= Jf')%nat ->
    TR -> tables_related M L I J Mh' Lf' If' Jf' fr pr wr ff' pf' wf' ->
    (forall a l, (a < 2 * M - 1)%nat -> (l < L)%nat -> y (phi a) l = y' (phi a) l) ->
    (forall i j, (i < I)%nat -> (j < J)%nat -> z i j = z' i j) ->
    (forall i j, (i < I)%nat -> (j < J)%nat ->
       synth_fast_u rev Mh Lf Jf ff pf y i j = synth_fast_u rev' Mh' Lf' Jf' ff' pf' y' i j) /\
    (forall a l, (a < 2 * M - 1)%nat -> (l < L)%nat ->
       analysis_fast_u rev Mh If Jf ff pf wf z (phi a) l
       = analysis_fast_u rev' Mh' If' Jf' ff' pf' wf' z' (phi a) l).
  Proof.
    unfold TR. intros. split; intros.
    - eapply base_multiple_irrelevant_synth with (M:=M) (L:=L) (I:=I) (J:=J) (If:=If) (If':=If') (wf:=wf) (wf':=wf'); eauto.
    - eapply base_multiple_irrelevant_analysis with (M:=M) (L:=L) (I:=I) (J:=J) (Lf:=Lf) (Lf':=Lf'); eauto.
  Qed.
End C09.

(** *** "hence the same model tendencies": whole-state primitive equations, fast vs reference *)
Section C09_whole_state.
  Context {F : Type} {o : Ops F} {Fc : FieldC o}.
  Variable g : @HGrid F.                                 (* the reference grid *)
  Variables (Mh Lf If Jf : nat) (stacked rev : bool).    (* padded shapes and options of the fast grid *)
  Variable ff : nat -> nat -> F.
  Variable pf : nat -> nat -> nat -> F.
  Variable wf : nat -> F.
  Variables af bf : nat -> nat -> F.
  Variables sec2f sinf : nat -> F.
  Let M := hM g.
  Let L := hL g.
  Let q := fast_grid_of g Mh Lf If Jf stacked rev ff pf wf af bf sec2f sinf.
  Hypothesis HM : (1 <= hM g)%nat.
  Hypothesis HMh : (hM g <= Mh)%nat.
  Hypothesis HLf : (hL g <= Lf)%nat.
  Hypothesis HIf : (hI g <= If)%nat.
  Hypothesis HJf : (hJ g <= Jf)%nat.
  Hypothesis T : tables_related (hM g) (hL g) (hI g) (hJ g) Mh Lf If Jf (hf g) (hp g) (hw g) ff pf wf.
  Hypothesis DT : dtables_related (hM g) (hL g) Lf af bf (ha g) (hb g).
  Hypothesis H_sec2 : forall j, (j < hJ g)%nat -> sec2f j = hsec2 g j.
  Hypothesis H_sin : forall j, (j < hJ g)%nat -> sinf j = hsin g j.
  Variable c : @PEcfg F.

  (** explicit_terms_fast (E s) = E (explicit_terms s) on every in-range coefficient, every field, every tracer *)
  Theorem C09_explicit_terms_equiv grav orog (s : @State F) k a l :
    (k < cK c)%nat -> (a < 2 * hM g - 1)%nat -> (l < hL g)%nat ->
    let out_f := explicit_terms_full_fast q c grav (embed M L orog) (embed_state M L s) in
    let out := explicit_terms_full g c grav orog s in
    s_vort out_f k (phi a) l = embed M L (s_vort out k) (phi a) l /\
    s_div out_f k (phi a) l = embed M L (s_div out k) (phi a) l /\
    s_temp out_f k (phi a) l = embed M L (s_temp out k) (phi a) l /\
    s_lnps out_f (phi a) l = embed M L (s_lnps out) (phi a) l /\
    length (s_tr out_f) = length (s_tr out) /\
    (forall n, (n < length (s_tr s))%nat ->
       nth n (s_tr out_f) zero3 k (phi a) l = embed M L (nth n (s_tr out) zero3 k) (phi a) l).
  Proof.
    intros Hk Ha Hl out_f out. rewrite !embed_phi by assumption.
    destruct (explicit_terms_full_fast_equiv g Mh Lf If Jf stacked rev ff pf wf af bf sec2f sinf
                HM HMh HLf HIf HJf T DT H_sec2 H_sin c grav (embed M L orog) orog (mrel_embed M L orog)
                (embed_state M L s) s (srel_embed_state g s) k Hk) as (E1 & E2 & E3 & E4 & E5 & E6).
    repeat split; auto. intros n Hn. rewrite embed_phi by assumption. now apply E6.
  Qed.

  (** the same for ANY fast state that represents s (whatever sits in the extra row and the padding) *)
  Theorem C09_explicit_terms_padding_inert grav orogf orog (sf s : @State F) k a l :
    mrel (hM g) (hL g) orogf orog -> srel (hM g) (hL g) sf s ->
    (k < cK c)%nat -> (a < 2 * hM g - 1)%nat -> (l < hL g)%nat ->
    s_vort (explicit_terms_full_fast q c grav orogf sf) k (phi a) l = s_vort (explicit_terms_full g c grav orog s) k a l /\
    s_div (explicit_terms_full_fast q c grav orogf sf) k (phi a) l = s_div (explicit_terms_full g c grav orog s) k a l /\
    s_temp (explicit_terms_full_fast q c grav orogf sf) k (phi a) l = s_temp (explicit_terms_full g c grav orog s) k a l /\
    s_lnps (explicit_terms_full_fast q c grav orogf sf) (phi a) l = s_lnps (explicit_terms_full g c grav orog s) a l.
  Proof.
    intros Ho Hs Hk Ha Hl.
    destruct (explicit_terms_full_fast_equiv g Mh Lf If Jf stacked rev ff pf wf af bf sec2f sinf
                HM HMh HLf HIf HJf T DT H_sec2 H_sin c grav orogf orog Ho sf s Hs k Hk) as (E1 & E2 & E3 & E4 & _).
    repeat split; auto.
  Qed.

  Theorem C09_implicit_terms_equiv (s : @State F) k a l :
    (a < 2 * hM g - 1)%nat -> (l < hL g)%nat ->
    let out_f := implicit_terms_full_fast q c (embed_state M L s) in
    let out := implicit_terms_full g c s in
    s_vort out_f k (phi a) l = embed M L (s_vort out k) (phi a) l /\
    s_div out_f k (phi a) l = embed M L (s_div out k) (phi a) l /\
    s_temp out_f k (phi a) l = embed M L (s_temp out k) (phi a) l /\
    s_lnps out_f (phi a) l = embed M L (s_lnps out) (phi a) l.
  Proof.
    intros Ha Hl out_f out. rewrite !embed_phi by assumption.
    destruct (implicit_terms_full_fast_equiv g Mh Lf If Jf stacked rev ff pf wf af bf sec2f sinf c
                (embed_state M L s) s (srel_embed_state g s) k) as (E1 & E2 & E3 & E4).
    repeat split; auto.
  Qed.

  Theorem C09_implicit_inverse_equiv eta invt (s : @State F) k a l :
    (a < 2 * hM g - 1)%nat -> (l < hL g)%nat ->
    let out_f := implicit_inverse_full_fast q c eta invt (embed_state M L s) in
    let out := implicit_inverse_full g c eta invt s in
    s_vort out_f k (phi a) l = embed M L (s_vort out k) (phi a) l /\
    s_div out_f k (phi a) l = embed M L (s_div out k) (phi a) l /\
    s_temp out_f k (phi a) l = embed M L (s_temp out k) (phi a) l /\
    s_lnps out_f (phi a) l = embed M L (s_lnps out) (phi a) l /\
    trel (hM g) (hL g) (s_tr out_f) (s_tr out).
  Proof.
    intros Ha Hl out_f out. rewrite !embed_phi by assumption.
    destruct (implicit_inverse_full_fast_equiv g Mh Lf If Jf stacked rev ff pf wf af bf sec2f sinf c
                (embed_state M L s) s (srel_embed_state g s) eta invt k) as (E1 & E2 & E3 & E4 & E5).
    repeat split; auto; apply E5.
  Qed.

  (** *** "... and trajectories".  State space: [PwOps] (pointwise operations on the four prognostic
      fields; the tracer list is dropped as in C12: tracers are passive in the dry equations - their
      tendencies are covered by C09_explicit_terms_equiv, their time stepping is NOT).  The model
      operators are composed with the in-range normal forms on the output side ([FxR] ... [GinvF],
      Thm/PrimEqFullFast.v), so "equal on every in-range coefficient" reads as equality of states.
      [invt eta l] = np.linalg.inv(implicit_matrix(eta))[l], the same table on both sides. *)
  Variable invt : F -> nat -> @Mat F.
  Hypothesis HK : (0 < cK c)%nat.
  Variables (grav : F) (orog : nat -> nat -> F).
  Let Fr := FxR g c grav orog.
  Let Gr := GR g c.
  Let Ginvr := GinvR g c invt.
  Let Ff := FxF g Mh Lf If Jf stacked rev ff pf wf af bf sec2f sinf c grav orog.
  Let Gf := GF g Mh Lf If Jf stacked rev ff pf wf af bf sec2f sinf c.
  Let Ginvf := GinvF g Mh Lf If Jf stacked rev ff pf wf af bf sec2f sinf c invt.
  Let ES := embed_state M L.

  (** one step of EVERY integrator of Model/Integrators.v (backward-forward Euler, crank_nicolson_rk2,
      the low-storage RK + CN family for any coefficient lists, imex_runge_kutta for ANY tableau,
      semi-implicit leapfrog) on the fast model from E u  =  E (the reference step from u) *)
  Theorem C09_step_equiv dt alpha al be ga a_ex a_im b_ex b_im u p0 q0 :
    euler_step (vo := PwOps) Ff Ginvf dt (ES u) = ES (euler_step (vo := PwOps) Fr Ginvr dt u) /\
    cn_rk2_step (vo := PwOps) Ff Gf Ginvf dt (ES u) = ES (cn_rk2_step (vo := PwOps) Fr Gr Ginvr dt u) /\
    ls_step (vo := PwOps) Ff Gf Ginvf dt al be ga (ES u) = ES (ls_step (vo := PwOps) Fr Gr Ginvr dt al be ga u) /\
    imex_step (vo := PwOps) Ff Gf Ginvf dt a_ex a_im b_ex b_im (ES u)
    = option_map ES (imex_step (vo := PwOps) Fr Gr Ginvr dt a_ex a_im b_ex b_im u) /\
    leapfrog_step (vo := PwOps) Ff Gf Ginvf dt alpha (ES p0, ES q0)
    = (ES (fst (leapfrog_step (vo := PwOps) Fr Gr Ginvr dt alpha (p0, q0))),
       ES (snd (leapfrog_step (vo := PwOps) Fr Gr Ginvr dt alpha (p0, q0)))).
  Proof. unfold Ff, Gf, Ginvf, Fr, Gr, Ginvr, ES, M, L. eapply whole_state_step_equiv; eauto. Qed.

  (** spectral filters (a factor per total wavenumber; the fast table agrees on l < L) commute with E *)
  Theorem C09_filter_equiv (sigmaf sigma : nat -> F) u w :
    (forall l, (l < hL g)%nat -> sigmaf l = sigma l) ->
    lfilter sigmaf (ES u) (ES w) = ES (lfilter sigma u w).
  Proof. unfold ES, M, L. apply lfilter_equiv. Qed.

  (** any number of filtered steps, any step functions / filters that commute with E (previous two theorems) *)
  Theorem C09_trajectory_equiv (step step' : @State F -> @State F) (fl fl' : list (@State F -> @State F -> @State F)) :
    (forall u, step' (ES u) = ES (step u)) ->
    Forall2 (fun f' f => forall u w, f' (ES u) (ES w) = ES (f u w)) fl' fl ->
    forall n u, Nat.iter n (filtered_step step' fl') (ES u) = ES (Nat.iter n (filtered_step step fl) u).
  Proof. unfold ES, M, L. apply whole_state_trajectory_equiv. Qed.

  (** instance: n steps of crank_nicolson_rk2 followed by a spectral filter *)
  Corollary C09_trajectory_cn_rk2_filtered dt (sigmaf sigma : nat -> F) n u :
    (forall l, (l < hL g)%nat -> sigmaf l = sigma l) ->
    Nat.iter n (filtered_step (cn_rk2_step (vo := PwOps) Ff Gf Ginvf dt) [lfilter sigmaf]) (ES u)
    = ES (Nat.iter n (filtered_step (cn_rk2_step (vo := PwOps) Fr Gr Ginvr dt) [lfilter sigma]) u).
  Proof.
    intros Hs. apply C09_trajectory_equiv.
    - intros u0. exact (proj1 (proj2 (C09_step_equiv dt 0 [] [] [] [] [] [] [] u0 u0 u0))).
    - constructor; [|constructor]. intros u0 w. now apply C09_filter_equiv.
  Qed.
End C09_whole_state.

(** masks: the fast mask is the embedded reference mask *)
Theorem C09_mask_equiv M L :
  (forall a l, (a < 2 * M - 1)%nat -> (l < L)%nat -> mask_fast M L (phi a) l = mask_real a l) /\
  (forall l, mask_fast M L 1 l = false) /\
  (forall k l, (2 * M <= k \/ L <= l)%nat -> mask_fast M L k l = false).
Proof.
  repeat split; intros.
  - now apply mask_fast_phi.
  - apply mask_fast_row1.
  - now apply mask_fast_pad.
Qed.

(** modal axes (hence every table computed from them, e.g. the Laplacian
    eigenvalues -l(l+1)/r^2): re-indexed on the resolved part, zero on the extra row / padding *)
Theorem C09_axes_equiv M L :
  (forall a, (a < 2 * M - 1)%nat -> m_fast M (phi a) = m_real a) /\
  (forall l, (l < L)%nat -> l_fast L l = l_real l) /\
  (forall k, (k = 1 \/ 2 * M <= k)%nat -> m_fast M k = 0%Z) /\
  (forall l, (L <= l)%nat -> l_fast L l = 0%Z).
Proof.
  repeat split; intros.
  - now apply m_fast_phi.
  - unfold l_fast, l_real. now replace (l <? L) with true by (symmetry; now apply Nat.ltb_lt).
  - unfold m_fast. destruct H as [->|H]; [reflexivity|].
    replace (k <? 2 * M) with false by (symmetry; now apply Nat.ltb_ge).
    now rewrite Bool.orb_true_r.
  - unfold l_fast. now replace (l <? L) with false by (symmetry; now apply Nat.ltb_ge).
Qed.

Theorem C09_eigenvalues_equiv {F} {o : Ops F} (r : F) L l : (l < L)%nat ->
  lap_eig r (l_fast L l) = lap_eig r (l_real l).
Proof.
  intros H. unfold l_fast, l_real. now replace (l <? L) with true by (symmetry; now apply Nat.ltb_lt).
Qed.

(** shapes: padded sizes dominate the limits, are multiples of the requested
    multiple, pad by less than one multiple; the padded modal row count is even *)
Theorem C09_shapes base xs x : (1 <= base)%nat -> (1 <= xs)%nat ->
  (x <= round_to_multiple x (base * xs))%nat /\
  (round_to_multiple x (base * xs) < x + base * xs)%nat /\
  (round_to_multiple x (base * xs) mod (base * xs) = 0)%nat /\
  (forall M, exists Mh, modal_rows_fast base xs M = (2 * Mh)%nat /\ (M <= Mh)%nat).
Proof.
  intros Hb Hx.
  destruct (round_to_multiple_spec x (base * xs)) as (A & B & C); [nia|].
  repeat split; auto. intros M. now apply modal_rows_fast_even.
Qed.

(** *** non-vacuity: [tables_related] holds for concrete tables over Qc (the
    orthonormal reference tables of C01's example, M = 2, L = 2, 4 x 2 nodes, one
    padded latitude), and the statements are non-trivial on them *)
Definition exq (l : list Q) (n : nat) : Qc := Q2Qc (nth n l 0%Q).
Definition ex_f (i a : nat) : Qc :=
  exq (nth a [[1#2; 1#2; 1#2; 1#2]; [1#2; -1#2; 1#2; -1#2]; [1#2; 1#2; -1#2; -1#2]]%Q []) i.
Definition ex_p (a j l : nat) : Qc :=
  match a with
  | O => exq (nth l [[1; 1]; [-1; 1]]%Q []) j
  | _ => exq (nth l [[0; 0]; [1; 1]]%Q []) j
  end.
Definition ex_w (j : nat) : Qc := Q2Qc (1#2).
Definition ex_ff (i k : nat) : Qc := match k with O => ex_f i 0 | S O => Q2Qc 0 | S k' => ex_f i k' end.
Definition ex_pf (m j l : nat) : Qc := if j <? 2 then ex_p (2 * m) j l else Q2Qc 0.
Definition ex_wf (j : nat) : Qc := if j <? 2 then ex_w j else Q2Qc 0.
Definition ex_y (k l : nat) : Qc := Q2Qc (inject_Z (Z.of_nat (1 + k + 4 * l))).

Ltac qc := apply Qc_is_canon; vm_compute; reflexivity.

Example C09_hyps_satisfiable :
  tables_related 2 2 4 2 2 2 4 3 ex_f ex_p ex_w ex_ff ex_pf ex_wf /\
  (* garbage in the extra row does not reach the grid; its analysis is zero; row 3 returns *)
  synth_fast_u false 2 2 3 ex_ff ex_pf ex_y 1 1
    = synth_fast_u true 2 2 3 ex_ff ex_pf (fun k l => if k =? 1 then 0 else ex_y k l) 1 1 /\
  analysis_fast_u false 2 4 3 ex_ff ex_pf ex_wf (synth_fast_u false 2 2 3 ex_ff ex_pf ex_y) 1 1 = 0 /\
  analysis_fast_u false 2 4 3 ex_ff ex_pf ex_wf (synth_fast_u false 2 2 3 ex_ff ex_pf ex_y) 3 1 = ex_y 3 1 /\
  synth_fast_u false 2 2 3 ex_ff ex_pf ex_y 1 1 <> 0.
Proof.
  split.
  { constructor.
    - intros i a Hi Ha. destruct a as [|[|[|a]]]; try lia; reflexivity.
    - intros i Hi. reflexivity.
    - intros i k Hi Hk H. lia.
    - intros a j l Ha Hj Hl.
      destruct a as [|[|[|a]]]; try lia; destruct j as [|[|j]]; try lia; destruct l as [|[|l]]; try lia; qc.
    - intros m j l Hm Hj Hl H. unfold ex_pf.
      destruct j as [|[|[|j]]]; try lia; reflexivity.
    - intros j Hj. unfold ex_wf. destruct j as [|[|j]]; try lia; reflexivity.
    - intros j H1 H2. unfold ex_wf. destruct j as [|[|[|j]]]; try lia; reflexivity. }
  split. { qc. }
  split. { qc. }
  split. { qc. }
  intro H. vm_compute in H. discriminate H.
Qed.

(** *** non-vacuity of the whole-state statements: the same tables, recurrence weights over Qc,
    one level; both table relations hold and a re-indexed implicit tendency is non-zero *)
Definition ex_ar (a l : nat) : Qc := if l =? 1 then Q2Qc (1#2) else Q2Qc 0.
Definition ex_br (a l : nat) : Qc := if l =? 0 then Q2Qc (1#3) else Q2Qc 0.
Definition ex_af (k l : nat) : Qc := match k with O => ex_ar 0 l | S O => Q2Qc 0 | S k' => ex_ar k' l end.
Definition ex_bf (k l : nat) : Qc := match k with O => ex_br 0 l | S O => Q2Qc 0 | S k' => ex_br k' l end.
Definition ex_g : @HGrid Qc :=
  mkHG 2 2 4 2 (Q2Qc 1) ex_f ex_p ex_w ex_ar ex_br (fun _ => Q2Qc 2) (fun _ => Q2Qc (1#2)) (Q2Qc 1).
Definition ex_c : @PEcfg Qc :=
  mkPE 1 (Q2Qc 2) (Q2Qc (1#4)) (fun _ => Q2Qc (-1)) (fun k => Q2Qc (inject_Z (Z.of_nat k))) (fun _ => Q2Qc 3).
Definition ex_s : @State Qc := mkState (fun _ => ex_y) (fun _ => ex_y) (fun _ => ex_y) ex_y [].
Definition ex_q : @FGrid Qc :=
  fast_grid_of ex_g 2 2 4 3 false false ex_ff ex_pf ex_wf ex_af ex_bf (fun _ => Q2Qc 2) (fun _ => Q2Qc (1#2)).

Example C09_whole_state_satisfiable :
  dtables_related 2 2 2 ex_af ex_bf ex_ar ex_br /\
  s_div (implicit_terms_full_fast ex_q ex_c (embed_state 2 2 ex_s)) 0 3 1 = s_div (implicit_terms_full ex_g ex_c ex_s) 0 2 1 /\
  s_div (implicit_terms_full ex_g ex_c ex_s) 0 2 1 <> 0 /\
  s_temp (explicit_terms_full_fast ex_q ex_c (Q2Qc 1) (fun _ _ => Q2Qc 0) (embed_state 2 2 ex_s)) 0 3 0
  = s_temp (explicit_terms_full ex_g ex_c (Q2Qc 1) (fun _ _ => Q2Qc 0) ex_s) 0 2 0.
Proof.
  split.
  { constructor.
    - intros a l Ha Hl. destruct a as [|[|[|a]]]; try lia; reflexivity.
    - intros a l Ha H1 H2. lia.
    - intros a l Ha Hl. destruct a as [|[|[|a]]]; try lia; reflexivity. }
  split. { qc. }
  split. { intro H. vm_compute in H. discriminate H. }
  qc.
Qed.

(** non-vacuity of the step theorems: one backward-forward Euler step on the tiny instance (one level,
    hypothesis 0 < K holds), implicit-inverse tables = identity matrices; the re-indexed coefficient of
    the fast step equals the reference one and is not zero *)
Definition ex_inv (eta : Qc) (l : nat) : @Mat Qc := fun i j => if i =? j then Q2Qc 1 else Q2Qc 0.
Example C09_step_satisfiable :
  (0 < cK ex_c)%nat /\
  let Ff := FxF ex_g 2 2 4 3 false false ex_ff ex_pf ex_wf ex_af ex_bf (fun _ => Q2Qc 2) (fun _ => Q2Qc (1#2)) ex_c (Q2Qc 1) (fun _ _ => Q2Qc 0) in
  let Ginvf := GinvF ex_g 2 2 4 3 false false ex_ff ex_pf ex_wf ex_af ex_bf (fun _ => Q2Qc 2) (fun _ => Q2Qc (1#2)) ex_c ex_inv in
  let Fr := FxR ex_g ex_c (Q2Qc 1) (fun _ _ => Q2Qc 0) in
  let Ginvr := GinvR ex_g ex_c ex_inv in
  s_temp (euler_step (vo := PwOps) Ff Ginvf (Q2Qc (1#2)) (embed_state 2 2 ex_s)) 0 3 0
  = s_temp (euler_step (vo := PwOps) Fr Ginvr (Q2Qc (1#2)) ex_s) 0 2 0 /\
  s_temp (euler_step (vo := PwOps) Fr Ginvr (Q2Qc (1#2)) ex_s) 0 2 0 <> 0.
Proof.
  split; [cbn; lia|]. cbv zeta. split.
  - qc.
  - intro H. vm_compute in H. discriminate H.
Qed.

Print Assumptions C09_synth_equiv.
Print Assumptions C09_analysis_equiv.
Print Assumptions C09_fast_padding_inert.
Print Assumptions C09_reindex.
Print Assumptions C09_options_irrelevant.
Print Assumptions C09_base_multiple_irrelevant.
Print Assumptions C09_mask_equiv.
Print Assumptions C09_axes_equiv.
Print Assumptions C09_eigenvalues_equiv.
Print Assumptions C09_shapes.
Print Assumptions C09_hyps_satisfiable.
Print Assumptions C09_explicit_terms_equiv.
Print Assumptions C09_explicit_terms_padding_inert.
Print Assumptions C09_implicit_terms_equiv.
Print Assumptions C09_implicit_inverse_equiv.
Print Assumptions C09_whole_state_satisfiable.
Print Assumptions C09_step_equiv.
Print Assumptions C09_filter_equiv.
Print Assumptions C09_trajectory_equiv.
Print Assumptions C09_trajectory_cn_rk2_filtered.
Print Assumptions C09_step_satisfiable.
