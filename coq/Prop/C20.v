(** Property C20 - physical forcings are bounded, periodic and dissipative.
    Statements only; proofs are in Thm/Forcings.v.

    Solar radiation: statements over the reals with Coq's [cos], [sin], [PI],
    for all orbital/daily phases, longitudes and latitudes (no restriction on
    the latitude is needed), all mean irradiances S and variations V with
    0 <= V <= S; the constants of the source (Gen/Constants.v, regenerated on
    every run) are shown to satisfy this.
    Held-Suarez: statements for every ordered field (hence the reals), every
    grid (operators as arbitrary matrices), every state and parameter set with
    the stated signs.

    NOT proved: "the global mean equals one quarter of the instantaneous solar
    constant up to quadrature error" (an integral over the sphere of
    max(0, .)); it is explored numerically against Grid.integrate by
    tools/props/C20.py. *)
From Dino Require Import Base.Ops Base.Sums Base.Inst Base.Ord Gen.Constants Model.Forcings Thm.Forcings.
From Coq Require Import Reals Qcanon Lra Qreals.
Local Open Scope F_scope.

(** ** the translator understood the source, and the source formulas are the model's *)
Theorem C20_gen_constants_complete : gen_constants_ok = true.
Proof. reflexivity. Qed.

Section C20_any_field.
  Context {F : Type} {o : Ops F} {Fc : FieldC o}.
  Variables (cosf sinf : F -> F) (pi : F).

  Theorem C20_source_formulas_match_model op syn lon lat S V p :
    gen_get_direct_solar_irradiance cosf sinf pi op S V p = direct_solar_irradiance cosf op S V p /\
    gen_get_declination cosf sinf pi op = declination sinf pi op /\
    gen_equation_of_time cosf sinf pi op = equation_of_time cosf sinf pi op /\
    gen_get_hour_angle cosf sinf pi op syn lon = hour_angle cosf sinf pi op syn lon /\
    gen_get_solar_sin_altitude cosf sinf pi op syn lon lat = solar_sin_altitude cosf sinf pi op syn lon lat /\
    gen_get_radiation_flux cosf sinf pi op syn lon lat S V = radiation_flux cosf sinf pi S V op syn lon lat.
  Proof.
    split; [apply gen_irradiance_ok|]. split; [apply gen_declination_ok|].
    split; [apply gen_equation_of_time_ok|]. split; [apply gen_hour_angle_ok|].
    split; [apply gen_sin_altitude_ok|apply gen_radiation_flux_ok].
  Qed.

  (** exact zero at night in any field (the mask is a 0 factor, not a small number) *)
  Theorem C20_flux_zero_at_night_any_field S V op syn lon lat :
    fleb (solar_sin_altitude cosf sinf pi op syn lon lat) 0 = true ->
    radiation_flux cosf sinf pi S V op syn lon lat = 0.
  Proof. intros H. unfold radiation_flux. now apply flux_of_night. Qed.
End C20_any_field.

(** ** solar radiation over the reals *)
Notation Rsinalt := (@solar_sin_altitude R ROps cos sin PI).
Notation Rflux := (@radiation_flux R ROps cos sin PI).
Notation Rnflux := (@normalized_radiation_flux R ROps cos sin PI).
Notation Rsrflux := (@solar_radiation_flux R ROps cos sin PI).
Notation S0 := (@TOTAL_SOLAR_IRRADIANCE R ROps PI).
Notation V0 := (@SOLAR_IRRADIANCE_VARIATION R ROps PI).

Theorem C20_source_constants_ordered : (0 <= V0 <= S0)%R.
Proof.
  unfold TOTAL_SOLAR_IRRADIANCE, SOLAR_IRRADIANCE_VARIATION. rewrite !fofQ_R.
  split.
  - replace 0%R with (Q2R 0) by (unfold Q2R; cbn; lra). apply Q2R_le_of_bool. reflexivity.
  - apply Q2R_le_of_bool. reflexivity.
Qed.

Theorem C20_sin_altitude_le_1 op syn lon lat : (-1 <= Rsinalt op syn lon lat <= 1)%R.
Proof. exact (sin_altitude_bounds op syn lon lat). Qed.

Theorem C20_flux_nonneg S V op syn lon lat : (0 <= V -> V <= S -> 0 <= Rflux S V op syn lon lat)%R.
Proof. exact (flux_nonneg S V op syn lon lat). Qed.

Theorem C20_flux_le_perihelion S V op syn lon lat : (0 <= V -> V <= S -> Rflux S V op syn lon lat <= S + V)%R.
Proof. exact (flux_le_perihelion S V op syn lon lat). Qed.

(** with the constants of the source, in any non-negative unit scale [k]
    ([SolarRadiation] nondimensionalises S and V by the same factor) *)
Theorem C20_flux_bounds_source_constants k op syn lon lat :
  (0 <= k -> 0 <= Rflux (k * S0) (k * V0) op syn lon lat <= k * (S0 + V0))%R.
Proof.
  intros Hk. destruct C20_source_constants_ordered as [H0 H1].
  assert (A : (0 <= k * V0)%R) by now apply Rmult_le_pos.
  assert (B : (k * V0 <= k * S0)%R) by now apply Rmult_le_compat_l.
  split; [now apply flux_nonneg|].
  replace (k * (S0 + V0))%R with (k * S0 + k * V0)%R by ring. now apply flux_le_perihelion.
Qed.

Theorem C20_flux_zero_at_night S V op syn lon lat :
  (Rsinalt op syn lon lat <= 0)%R -> Rflux S V op syn lon lat = 0%R.
Proof. exact (flux_zero_at_night S V op syn lon lat). Qed.

Theorem C20_flux_pos_by_day S V op syn lon lat :
  (0 <= V -> V < S -> 0 < Rsinalt op syn lon lat -> 0 < Rflux S V op syn lon lat)%R.
Proof. exact (flux_pos_by_day S V op syn lon lat). Qed.

Theorem C20_flux_periodic S V op syn lon lat (n m : Z) :
  Rflux S V (op + IZR n * (2 * PI))%R (syn + IZR m * (2 * PI))%R lon lat = Rflux S V op syn lon lat.
Proof. exact (flux_periodic S V op syn lon lat n m). Qed.

(** [SolarRadiation.radiation_flux]: the phase reduction is invisible ... *)
Theorem C20_flux_wrap_invariant S V ref_o ref_s rate_o rate_s t n_o n_s lon lat :
  Rsrflux S V ref_o ref_s rate_o rate_s t n_o n_s lon lat
  = Rflux S V (ref_o + rate_o * t)%R (ref_s + rate_s * t)%R lon lat.
Proof. exact (flux_wrap_invariant S V ref_o ref_s rate_o rate_s t n_o n_s lon lat). Qed.

(** ... and the flux is periodic in model time *)
Theorem C20_flux_time_periodic S V ref_o ref_s rate_o rate_s t T (a b : Z) n_o n_s n_o' n_s' lon lat :
  (rate_o * T = IZR a * (2 * PI))%R -> (rate_s * T = IZR b * (2 * PI))%R ->
  Rsrflux S V ref_o ref_s rate_o rate_s (t + T)%R n_o' n_s' lon lat
  = Rsrflux S V ref_o ref_s rate_o rate_s t n_o n_s lon lat.
Proof. exact (flux_time_periodic S V ref_o ref_s rate_o rate_s t T a b n_o n_s n_o' n_s' lon lat). Qed.

Theorem C20_normalized_in_unit_interval S V op syn lon lat :
  (0 <= V -> V <= S -> 0 < S + V -> 0 <= Rnflux S V op syn lon lat <= 1)%R.
Proof. exact (normalized_in_unit_interval S V op syn lon lat). Qed.

Theorem C20_normalized_is_scaled S V op syn lon lat :
  (S + V <> 0)%R -> Rnflux S V op syn lon lat = (Rflux S V op syn lon lat / (S + V))%R.
Proof. exact (normalized_is_scaled S V op syn lon lat). Qed.

(** ** Held-Suarez forcing, every ordered field *)
Section C20_HS.
  Context {F : Type} {o : Ops F} {Oc : OrdFieldC o}.

  Theorem C20_hs_kv_nonneg (P : HSParams F) s : fle 0 (hp_kf P) -> fle 0 (hs_kv P s).
  Proof. exact (hs_kv_nonneg P s). Qed.

  Theorem C20_hs_kv_zero_above_boundary_layer (P : HSParams F) s :
    flt (hp_sigma_b P) 1 -> fle s (hp_sigma_b P) -> hs_kv P s = 0.
  Proof. exact (hs_kv_zero_above_boundary_layer P s). Qed.

  Theorem C20_hs_kt_ge_ka (P : HSParams F) s cl :
    flt 0 (hp_ka P) -> fle (hp_ka P) (hp_ks P) -> fle (hp_ka P) (hs_kt P s cl) /\ flt 0 (hs_kt P s cl).
  Proof. intros H0 H. split; [now apply hs_kt_ge_ka|now apply hs_kt_pos]. Qed.

  Theorem C20_hs_kt_le_ks (P : HSParams F) s cl :
    fle (hp_ka P) (hp_ks P) -> flt (hp_sigma_b P) 1 -> fle s 1 -> fle (cl * cl) 1 ->
    fle (hs_kt P s cl) (hp_ks P).
  Proof. exact (hs_kt_le_ks P s cl). Qed.

  Theorem C20_hs_teq_ge_minT (P : HSParams F) pk logp cl sl : fle (hp_minT P) (hs_teq P pk logp cl sl).
  Proof. exact (hs_teq_ge_minT P pk logp cl sl). Qed.

  (** what is coded: the drag goes through the wind. Vorticity and divergence
      tendencies are minus the level's friction rate times the round trip
      (vor, div) -> cos(lat) u,v -> nodal -> / cos^2 -> modal -> curl, div ... *)
  Theorem C20_hs_drag_through_wind (G : HSGrid F) P sigma (vor div : nat -> F) i :
    hs_vorticity_tendency G P sigma vor div i = (- hs_kv P sigma) * roundtrip_vor G vor div i /\
    hs_divergence_tendency G P sigma vor div i = (- hs_kv P sigma) * roundtrip_div G vor div i.
  Proof. split; [apply hs_vorticity_tendency_linear|apply hs_divergence_tendency_linear]. Qed.

  (** ... so, where that round trip is the identity (table obligation
      H_uv_roundtrip), the tendencies are -kv(sigma) * (vor, div) *)
  Theorem C20_hs_drag_linear (G : HSGrid F) P sigma (vor div : nat -> F) i :
    roundtrip_vor G vor div i = vor i -> roundtrip_div G vor div i = div i ->
    hs_vorticity_tendency G P sigma vor div i = (- hs_kv P sigma) * vor i /\
    hs_divergence_tendency G P sigma vor div i = (- hs_kv P sigma) * div i.
  Proof. exact (hs_drag_linear G P sigma vor div i). Qed.

  (** no drag above the boundary layer, for every state (no round-trip hypothesis) *)
  Theorem C20_hs_drag_zero_above_boundary_layer (G : HSGrid F) P sigma (vor div : nat -> F) i :
    flt (hp_sigma_b P) 1 -> fle sigma (hp_sigma_b P) ->
    hs_vorticity_tendency G P sigma vor div i = 0 /\ hs_divergence_tendency G P sigma vor div i = 0.
  Proof. exact (hs_drag_zero_above_boundary_layer G P sigma vor div i). Qed.

  Theorem C20_hs_temperature_tendency_is_relaxation (G : HSGrid F) P sigma tref (tv pk logp : nat -> F) i :
    hs_temperature_tendency G P sigma tref tv pk logp i
    = matop (g_nn G) (g_toM G)
            (fun p => (- hs_kt P sigma (g_cosl G p)) *
                      ((tref + matop (g_nm G) (g_toN G) tv p)
                       - hs_teq P (pk p) (logp p) (g_cosl G p) (g_sinl G p))) i.
  Proof. exact (hs_temperature_tendency_is_relaxation G P sigma tref tv pk logp i). Qed.

  (** pointwise dissipation: the tendencies oppose the departure / the wind *)
  Theorem C20_hs_nodal_dissipative kt kv tref tvar teq cu cl :
    fle 0 kt -> fle 0 kv -> cl <> 0 ->
    fle (((tref + tvar) - teq) * hs_nodal_temperature_tendency kt tref tvar teq) 0 /\
    fle (cu * hs_nodal_velocity_tendency kv cu cl) 0.
  Proof.
    intros H1 H2 H3. split; [now apply hs_nodal_temperature_relaxes|now apply hs_nodal_velocity_damped].
  Qed.

  Theorem C20_hs_lnps_tendency_zero (lnps : nat -> F) i : hs_log_surface_pressure_tendency lnps i = 0.
  Proof. exact (hs_lnps_tendency_zero lnps i). Qed.
End C20_HS.

(** Over the reals, with cos(latitude), p^kappa and log p as the code uses them. *)
Theorem C20_hs_rates_R (P : HSParams R) (sigma lat ps kappa : R) :
  (0 <= hp_kf P -> 0 < hp_ka P <= hp_ks P -> hp_sigma_b P < 1 -> sigma <= 1 ->
   let p := hs_p_over_p0 P sigma ps in
   0 <= hs_kv P sigma /\
   (sigma <= hp_sigma_b P -> hs_kv P sigma = 0) /\
   hp_ka P <= hs_kt P sigma (cos lat) <= hp_ks P /\
   hp_minT P <= hs_teq P (Rpower p kappa) (ln p) (cos lat) (sin lat))%R.
Proof.
  intros Hkf [Hka Hks] Hb Hs p.
  assert (Hc : (cos lat * cos lat <= 1)%R).
  { pose proof (sin2_cos2 lat) as H. pose proof (Rle_0_sqr (sin lat)) as H2. unfold Rsqr in *. lra. }
  split; [|split; [|split; [split|]]].
  - exact (proj1 (fle_R _ _) (hs_kv_nonneg P sigma (proj2 (fle_R _ _) Hkf))).
  - intros Hs2.
    exact (hs_kv_zero_above_boundary_layer P sigma (proj2 (flt_R _ _) Hb) (proj2 (fle_R _ _) Hs2)).
  - exact (proj1 (fle_R _ _) (hs_kt_ge_ka P sigma (cos lat) (proj2 (fle_R _ _) Hks))).
  - exact (proj1 (fle_R _ _) (hs_kt_le_ks P sigma (cos lat) (proj2 (fle_R _ _) Hks) (proj2 (flt_R _ _) Hb)
                                          (proj2 (fle_R _ _) Hs) (proj2 (fle_R _ _) Hc))).
  - exact (proj1 (fle_R _ _) (hs_teq_ge_minT P _ _ _ _)).
Qed.

(** ** non-vacuity *)

(** the sun is below the horizon somewhere and above it somewhere at every
    instant (uses the generated obliquity: |declination| < pi/2) *)
Example C20_night_and_day_exist op syn :
  (exists lon, Rsinalt op syn lon 0 <= 0)%R /\ (exists lon, 0 < Rsinalt op syn lon 0)%R.
Proof. exact (night_and_day_exist op syn). Qed.

(** the Held-Suarez hypotheses hold for the default parameters of the source
    (per-day rates) on a concrete (degenerate one-mode) grid over Qc, where
    the round-trip hypothesis holds too *)
Definition hs_defaults_Qc : HSParams Qc :=
  mkHSParams (Q2Qc hs_default_p0_Q) (Q2Qc hs_default_sigma_b_Q) (Q2Qc hs_default_kf_Q)
             (Q2Qc hs_default_ka_Q) (Q2Qc hs_default_ks_Q) (Q2Qc hs_default_minT_Q)
             (Q2Qc hs_default_maxT_Q) (Q2Qc hs_default_dTy_Q) (Q2Qc hs_default_dThz_Q).

Example C20_hs_hyps_satisfiable :
  let P := hs_defaults_Qc in
  let one := fun _ _ : nat => Q2Qc 1 in let zero := fun _ _ : nat => Q2Qc 0 in
  let G := mkHSGrid Qc 1 1 one one one zero zero one one zero zero one (fun _ => Q2Qc 1) (fun _ => Q2Qc 0) in
  let vor := fun _ : nat => Q2Qc (3 # 1) in let div := fun _ : nat => Q2Qc (-5 # 7) in
  fle 0 (hp_kf P) /\ flt 0 (hp_ka P) /\ fle (hp_ka P) (hp_ks P) /\ flt (hp_sigma_b P) 1 /\
  flt 0 (hp_minT P) /\ fle (hp_minT P) (hp_maxT P) /\
  roundtrip_vor G vor div 0%nat = vor 0%nat /\ roundtrip_div G vor div 0%nat = div 0%nat /\
  hs_vorticity_tendency G P (Q2Qc (17 # 20)) vor div 0%nat = - (Q2Qc (1 # 2)) * vor 0%nat.
Proof. cbv zeta. repeat split; vm_compute; reflexivity. Qed.

Print Assumptions C20_gen_constants_complete.
Print Assumptions C20_source_formulas_match_model.
Print Assumptions C20_flux_zero_at_night_any_field.
Print Assumptions C20_source_constants_ordered.
Print Assumptions C20_sin_altitude_le_1.
Print Assumptions C20_flux_nonneg.
Print Assumptions C20_flux_le_perihelion.
Print Assumptions C20_flux_bounds_source_constants.
Print Assumptions C20_flux_zero_at_night.
Print Assumptions C20_flux_pos_by_day.
Print Assumptions C20_flux_periodic.
Print Assumptions C20_flux_wrap_invariant.
Print Assumptions C20_flux_time_periodic.
Print Assumptions C20_normalized_in_unit_interval.
Print Assumptions C20_normalized_is_scaled.
Print Assumptions C20_hs_kv_nonneg.
Print Assumptions C20_hs_kv_zero_above_boundary_layer.
Print Assumptions C20_hs_kt_ge_ka.
Print Assumptions C20_hs_kt_le_ks.
Print Assumptions C20_hs_teq_ge_minT.
Print Assumptions C20_hs_drag_through_wind.
Print Assumptions C20_hs_drag_linear.
Print Assumptions C20_hs_drag_zero_above_boundary_layer.
Print Assumptions C20_hs_temperature_tendency_is_relaxation.
Print Assumptions C20_hs_nodal_dissipative.
Print Assumptions C20_hs_lnps_tendency_zero.
Print Assumptions C20_hs_rates_R.
Print Assumptions C20_night_and_day_exist.
Print Assumptions C20_hs_hyps_satisfiable.
