(** Property C17 - vertical interpolation is exact on affine data with the
    documented extrapolation; simple horizontal regridders.  Statements only;
    proofs are in Thm/Interp.v.  Every theorem is for an arbitrary ordered
    field [F] (hence the reals), an arbitrary number n >= 2 of strictly
    increasing nodes, all data and ALL queries.

    [incr n X]    : X 0 < X 1 < ... < X (n-1)
    [interp_ref]  : jnp.interp (default path of [interp], [vertical_interpolation], [_vertical_interp])
    [dot_interp]  : [_dot_interp] (accelerator / matrix path)
    [lin_extrap]  : [linear_interp_with_linear_extrap]
    [safe_extrap k] : [_linear_interp_with_safe_extrap(n=k)], [None] = NaN
    [segj X Y j x]: the chord through nodes j, j+1 evaluated at x. *)
From Dino Require Import Base.Ops Base.Sums Base.Inst Base.Ord Model.Interp Thm.Interp.
From Coq Require Import Reals Qcanon Lra.
From Dino Require Import Model.ArrDSL Gen.InterpSrc Thm.InterpSrc.
Local Open Scope F_scope.

Section C17.
  Context {F : Type} {o : Ops F} {Oc : OrdFieldC o}.
  Variables (n : nat) (X : nat -> F).
  Hypothesis Hn : (2 <= n)%nat.
  Hypothesis Hinc : incr n X.

  (** the source value is returned at source coordinates *)
  Theorem C17_interp_at_nodes Y j : (j < n)%nat -> interp_ref n X Y (X j) = Y j.
  Proof. exact (interp_at_nodes n X Hn Hinc Y j). Qed.

  (** agreement with the reference piecewise-linear interpolant on every closed cell
      (the bracket chosen by the search at a tie does not matter) *)
  Theorem C17_interp_ref_on_segment Y j x :
    (S j < n)%nat -> fle (X j) x -> fle x (X (S j)) -> interp_ref n X Y x = segj X Y j x.
  Proof. exact (interp_ref_on_segment n X Hn Hinc Y j x). Qed.

  Theorem C17_interp_affine_exact Y a c x :
    (forall i, (i < n)%nat -> Y i = a * X i + c) ->
    fle (X 0%nat) x -> fle x (X (n - 1)%nat) -> interp_ref n X Y x = a * x + c.
  Proof. exact (interp_affine_exact n X Hn Hinc Y a c x). Qed.

  Theorem C17_interp_between_neighbours Y j x :
    (S j < n)%nat -> fle (X j) x -> fle x (X (S j)) ->
    fle (fmin (Y j) (Y (S j))) (interp_ref n X Y x) /\
    fle (interp_ref n X Y x) (fmax (Y j) (Y (S j))).
  Proof. exact (interp_between_neighbours n X Hn Hinc Y j x). Qed.

  (** the accelerator (matrix) path equals the default path for every query:
      below, at a node, inside, at the last node, above *)
  Theorem C17_dot_interp_eq_ref Y x : dot_interp n X Y x = interp_ref n X Y x.
  Proof. exact (dot_interp_eq_ref n X Hn Hinc Y x). Qed.

  (** unlimited linear extrapolation: first / last chord continued, reference interpolant inside *)
  Theorem C17_linear_extrap_formula Y x :
    (flt x (X 0%nat) -> lin_extrap n X Y x = segj X Y 0 x) /\
    (fle (X (n - 1)%nat) x -> lin_extrap n X Y x = segj X Y (n - 2) x) /\
    (fle (X 0%nat) x -> fle x (X (n - 1)%nat) -> lin_extrap n X Y x = interp_ref n X Y x).
  Proof. exact (linear_extrap_formula n X Hn Hinc Y x). Qed.

  Theorem C17_lin_extrap_affine_exact Y a c x :
    (forall i, (i < n)%nat -> Y i = a * X i + c) -> lin_extrap n X Y x = a * x + c.
  Proof. exact (lin_extrap_affine_exact n X Hn Hinc Y a c x). Qed.

  (** safe extrapolation, completely: on the CLOSED window
      [X 0 - k (X 1 - X 0), X (n-1) + k (X (n-1) - X (n-2))] it is the linearly
      extrapolating interpolant, strictly beyond it is missing *)
  Theorem C17_safe_extrap_char k Y x :
    safe_extrap k n X Y x = if in_window k n X x then Some (lin_extrap n X Y x) else None.
  Proof. exact (safe_extrap_char n X Hn Hinc k Y x). Qed.

  Theorem C17_safe_extrap_window k Y x :
    (flt x (win_lo k X) \/ flt (win_hi k n X) x -> safe_extrap k n X Y x = None) /\
    (fle (win_lo k X) x -> fle x (win_hi k n X) -> safe_extrap k n X Y x = Some (lin_extrap n X Y x)) /\
    (fle (X 0%nat) x -> fle x (X (n - 1)%nat) -> safe_extrap k n X Y x = Some (interp_ref n X Y x)).
  Proof. exact (safe_extrap_window n X Hn Hinc k Y x). Qed.

  Theorem C17_safe_extrap_affine_exact k Y a c x :
    (forall i, (i < n)%nat -> Y i = a * X i + c) ->
    fle (win_lo k X) x -> fle x (win_hi k n X) -> safe_extrap k n X Y x = Some (a * x + c).
  Proof. exact (safe_extrap_affine_exact n X Hn Hinc k Y a c x). Qed.
End C17.

Section C17_wrappers.
  Context {F : Type} {o : Ops F} {Oc : OrdFieldC o}.

  (** pressure -> sigma -> pressure of a column affine in pressure (P: pressure
      centers, sigma: sigma centers, sp: surface pressure; intermediate sigma
      levels may be missing): a returned number is the original value; ... *)
  Theorem C17_roundtrip_partial nP nS (P sigma fld : nat -> F) sp a c j :
    (2 <= nP)%nat -> (2 <= nS)%nat -> incr nP P -> incr nS sigma -> sp <> 0 ->
    (forall i, (i < nP)%nat -> fld i = a * P i + c) -> (j < nP)%nat ->
    roundtrip_p_s_p nP nS P sigma fld sp j = None \/
    roundtrip_p_s_p nP nS P sigma fld sp j = Some (fld j).
  Proof. intros H1 H2 H3 H4 H5 H6. exact (roundtrip_partial nP nS P sigma fld sp a c H1 H2 H3 H4 H5 H6 j). Qed.

  (** ... it is returned on the doubly covered range; ... *)
  Theorem C17_roundtrip_defined nP nS (P sigma fld : nat -> F) sp a c j :
    (2 <= nP)%nat -> (2 <= nS)%nat -> incr nP P -> incr nS sigma -> sp <> 0 ->
    (forall i, (i < nP)%nat -> fld i = a * P i + c) -> (j < nP)%nat ->
    (forall k, (k < nS)%nat -> in_window 1 nP P (sigma k * sp) = true) ->
    in_window 1 nS sigma (P j / sp) = true ->
    roundtrip_p_s_p nP nS P sigma fld sp j = Some (fld j).
  Proof. intros H1 H2 H3 H4 H5 H6. exact (roundtrip_defined nP nS P sigma fld sp a c H1 H2 H3 H4 H5 H6 j). Qed.

  (** ... and missing outside the safe window of the sigma levels. *)
  Theorem C17_roundtrip_outside nP nS (P sigma fld : nat -> F) sp j :
    (2 <= nS)%nat -> in_window 1 nS sigma (P j / sp) = false ->
    roundtrip_p_s_p nP nS P sigma fld sp j = None.
  Proof. intros H2. exact (roundtrip_outside nP nS P sigma fld sp H2 j). Qed.

  (** surface pressure: the code interpolates pressure as a function of
      relative height (g*orography - geopotential) at 0, with unlimited linear
      extrapolation.  With i the selected bracket, p lies on the chord of the
      levels and the geopotential chord over the same two levels equals g*oro at p. *)
  Theorem C17_surface_pressure_on_segment n (L phi : nat -> F) (oro g : F) :
    (2 <= n)%nat -> incr n (rel_height phi oro g) ->
    (forall i, (S i < n)%nat -> L (S i) - L i <> 0) ->
    let i := bracket n (rel_height phi oro g) 0 in
    let p := surface_pressure n L phi oro g in
    p = seg (rel_height phi oro g) L i 0 /\ seg L phi i p = oro * g.
  Proof. exact (surface_pressure_on_segment n L phi oro g). Qed.

  (** hence: the piecewise-linear (linearly extrapolated below ground / above the
      top) geopotential profile, evaluated at the returned pressure, is g*orography *)
  Theorem C17_surface_pressure_is_intercept n (L phi : nat -> F) (oro g : F) :
    (2 <= n)%nat -> incr n (rel_height phi oro g) -> incr n L ->
    lin_extrap n L phi (surface_pressure n L phi oro g) = oro * g.
  Proof. exact (surface_pressure_is_intercept n L phi oro g). Qed.

  Theorem C17_bilinear_constants nlon nlat lonS latS (f : nat -> nat -> F) lonT latT c a b :
    (2 <= nlon)%nat -> (2 <= nlat)%nat -> incr nlon lonS -> incr nlat latS ->
    (forall i j, (i < nlon)%nat -> (j < nlat)%nat -> f i j = c) ->
    bilinear nlon nlat lonS latS f lonT latT a b = c.
  Proof. exact (bilinear_constants nlon nlat lonS latS f lonT latT c a b). Qed.

  Theorem C17_bilinear_identity_same_grid nlon nlat lonS latS (f : nat -> nat -> F) a b :
    (2 <= nlon)%nat -> (2 <= nlat)%nat -> incr nlon lonS -> incr nlat latS ->
    (a < nlon)%nat -> (b < nlat)%nat ->
    bilinear nlon nlat lonS latS f lonS latS a b = f a b.
  Proof. exact (bilinear_identity_same_grid nlon nlat lonS latS f a b). Qed.

  Theorem C17_nearest_constants (idx : nat -> nat) (f : nat -> F) N c t :
    (forall i, (i < N)%nat -> f i = c) -> (idx t < N)%nat -> nearest idx f t = c.
  Proof. exact (nearest_constants idx f N c t). Qed.

  (** given that the neighbour index of a point of the same grid is itself (table obligation) *)
  Theorem C17_nearest_identity_same_grid (idx : nat -> nat) (f : nat -> F) t :
    idx t = t -> nearest idx f t = f t.
  Proof. exact (nearest_identity_same_grid idx f t). Qed.
End C17_wrappers.

(** Over the reals. *)
Lemma fmin_R (x y : R) : @fmin R ROps x y = Rmin x y.
Proof. unfold fmin, Rmin; cbn; unfold Rleb. destruct (Rle_dec x y); reflexivity. Qed.
Lemma fmax_R (x y : R) : @fmax R ROps x y = Rmax x y.
Proof. unfold fmax, Rmax; cbn; unfold Rleb. destruct (Rle_dec x y); reflexivity. Qed.

Theorem C17_interp_between_neighbours_R (n : nat) (X Y : nat -> R) j x :
  (2 <= n)%nat -> (forall i, (S i < n)%nat -> (X i < X (S i))%R) ->
  (S j < n)%nat -> (X j <= x <= X (S j))%R ->
  (Rmin (Y j) (Y (S j)) <= interp_ref n X Y x <= Rmax (Y j) (Y (S j)))%R.
Proof.
  intros Hn Hinc Hj [A B].
  assert (Hinc' : incr n X) by (intros i Hi; apply flt_R; now apply Hinc).
  destruct (interp_between_neighbours n X Hn Hinc' Y j x Hj) as [L U]; try (apply fle_R; assumption).
  rewrite fmin_R in L. rewrite fmax_R in U. split; apply fle_R; assumption.
Qed.

Lemma incr_R n (X : nat -> R) : (forall i, (S i < n)%nat -> (X i < X (S i))%R) -> incr n X.
Proof. intros H i Hi. apply flt_R. now apply H. Qed.

Lemma nsc_R k (d : R) : @nsc R ROps k d = (INR k * d)%R.
Proof.
  induction k as [|k IH].
  - cbn. lra.
  - rewrite S_INR. cbn [nsc]. rewrite IH. cbn. lra.
Qed.

Theorem C17_dot_interp_eq_ref_R (n : nat) (X Y : nat -> R) (x : R) :
  (2 <= n)%nat -> (forall i, (S i < n)%nat -> (X i < X (S i))%R) ->
  dot_interp n X Y x = interp_ref n X Y x.
Proof. intros Hn H. exact (dot_interp_eq_ref n X Hn (incr_R n X H) Y x). Qed.

(** the documented window over the reals, end points included *)
Theorem C17_safe_extrap_window_R (n k : nat) (X Y : nat -> R) (x : R) :
  (2 <= n)%nat -> (forall i, (S i < n)%nat -> (X i < X (S i))%R) ->
  let lo := (X 0%nat - INR k * (X 1%nat - X 0%nat))%R in
  let hi := (X (n - 1)%nat + INR k * (X (n - 1)%nat - X (n - 2)%nat))%R in
  ((lo <= x <= hi)%R -> safe_extrap k n X Y x = Some (lin_extrap n X Y x)) /\
  ((x < lo \/ hi < x)%R -> safe_extrap k n X Y x = None).
Proof.
  intros Hn H lo hi.
  destruct (safe_extrap_window n X Hn (incr_R n X H) k Y x) as (W0 & W1 & _).
  assert (El : @win_lo R ROps k X = lo) by (unfold win_lo, lo; rewrite nsc_R; reflexivity).
  assert (Eh : @win_hi R ROps k n X = hi) by (unfold win_hi, hi; rewrite nsc_R; reflexivity).
  rewrite El, Eh in *. split.
  - intros [A B]. apply W1; apply fle_R; assumption.
  - intros [A|A]; apply W0; [left|right]; apply flt_R; assumption.
Qed.

(** Non-vacuity: the hypotheses are met by concrete uneven instances over Qc
    (4 pressure levels, 3 sigma levels, a monotone geopotential column). *)
Example C17_hyps_satisfiable :
  let q := fun l (k : nat) => Q2Qc (nth k l 0%Q) in
  let P := q [100; 200; 350; 400]%Q in
  let sigma := q [1#4; 1#2; 7#8]%Q in
  let phi := q [50; 30; 20; 5]%Q in
  let sp := Q2Qc 400 in
  incr 4 P /\ incr 3 sigma /\ sp <> 0 /\
  incr 4 (rel_height phi (Q2Qc 3) (Q2Qc 10)) /\
  (forall k, (k < 3)%nat -> in_window 1 4 P (sigma k * sp) = true) /\
  (forall j, (j < 4)%nat -> in_window 1 3 sigma (P j / sp) = true) /\
  safe_extrap 1 4 P phi (Q2Qc 450) = Some (Q2Qc (-10)) /\
  safe_extrap 1 4 P phi (Q2Qc 451) = None.
Proof.
  cbv zeta. repeat split.
  - intros i Hi. destruct i as [|[|[|i]]]; try lia; vm_compute; reflexivity.
  - intros i Hi. destruct i as [|[|i]]; try lia; vm_compute; reflexivity.
  - intro H. discriminate H.
  - intros i Hi. destruct i as [|[|[|i]]]; try lia; vm_compute; reflexivity.
  - intros k Hk. destruct k as [|[|[|k]]]; try lia; vm_compute; reflexivity.
  - intros j Hj. destruct j as [|[|[|[|j]]]]; try lia; vm_compute; reflexivity.
Qed.

(** The model is the source: the array programs of dinosaur/vertical_interpolation.py, transcribed
    from the AST on every run (Gen/InterpSrc.v, tools/translate/gen_interp.py) into the array DSL of
    Model/ArrDSL.v with LENGTH-CHECKED elementwise operations, have the lengths and the entries /
    values of the hand-written Model/Interp.v, for every node count n = m + 2 >= 2, all nodes, data
    (without missing values) and queries, and every number k of extrapolation rounds.
    [safe_extrap_xp_src] / [safe_extrap_fp_src] are the loop of _linear_interp_with_safe_extrap applied to
    the nodes / the data; its final jnp.interp(.., left=nan, right=nan) is pinned textually by the
    translator (jnp.interp semantics are trusted: [interp_nan]). *)
Theorem C17_model_is_source {F : Type} {o : Ops F} {Fc : FieldC o}
    (m k nh : nat) (xpf fpf y lev phi ha hb : nat -> F) (x oro g sp : F) :
  let n := S (S m) in
  dot_interp_src x (n, xpf) (n, fpf) = dot_interp n xpf fpf x /\
  linear_interp_with_linear_extrap_src x (n, xpf) (n, fpf) = lin_extrap n xpf fpf x /\
  (fst (extrapolate_left_src (n, y)) = S n /\
   forall i, (i < S n)%nat -> snd (extrapolate_left_src (n, y)) i = extr_left eLF y i) /\
  (fst (extrapolate_right_src (n, y)) = S n /\
   forall i, (i < S n)%nat -> snd (extrapolate_right_src (n, y)) i = extr_right eRF n y i) /\
  (fst (extrapolate_both_src (n, y)) = S (S n) /\
   forall i, (i < S (S n))%nat -> snd (extrapolate_both_src (n, y)) i = extr_both eLF eRF n y i) /\
  ((fst (safe_extrap_xp_src k (n, y)) = (n + 2 * k)%nat /\
    forall i, (i < n + 2 * k)%nat -> snd (safe_extrap_xp_src k (n, y)) i = pad_x k n y i) /\
   (fst (safe_extrap_fp_src k (n, y)) = (n + 2 * k)%nat /\
    forall i, (i < n + 2 * k)%nat -> snd (safe_extrap_fp_src k (n, y)) i = pad_x k n y i)) /\
  surface_pressure_src (n, lev) (n, phi) oro g = surface_pressure n lev phi oro g /\
  (fst (hyb_sigma_boundaries_src (S nh, ha) (S nh, hb) sp) = S nh /\
   forall i, snd (hyb_sigma_boundaries_src (S nh, ha) (S nh, hb) sp) i = hyb_sigma_boundaries ha hb sp i) /\
  (fst (hyb_sigma_centers_src (S nh, ha) (S nh, hb) sp) = nh /\
   forall i, (i < nh)%nat -> snd (hyb_sigma_centers_src (S nh, ha) (S nh, hb) sp) i = hyb_sigma_centers ha hb sp i).
Proof.
  intros n.
  split; [exact (dot_interp_matches m xpf fpf x)|].
  split; [exact (lin_extrap_matches m xpf fpf x)|].
  split; [exact (extrapolate_left_matches m y)|].
  split; [exact (extrapolate_right_matches m y)|].
  split; [exact (extrapolate_both_matches m y)|].
  split; [exact (safe_extrap_matches k m y)|].
  split; [exact (surface_pressure_matches m lev phi oro g)|].
  split; [exact (hyb_sigma_boundaries_matches (S nh) ha hb sp)|].
  exact (hyb_sigma_centers_matches nh ha hb sp).
Qed.

(** the translator understood every statement it is meant to transcribe (fail closed), and the
    documented default number of extrapolation cells is 1 *)
Theorem C17_gen_interp_complete : gen_interp_ok = true /\ safe_extrap_default_n = 1%nat.
Proof. split; reflexivity. Qed.

Print Assumptions C17_interp_at_nodes.
Print Assumptions C17_interp_ref_on_segment.
Print Assumptions C17_interp_affine_exact.
Print Assumptions C17_interp_between_neighbours.
Print Assumptions C17_interp_between_neighbours_R.
Print Assumptions C17_dot_interp_eq_ref.
Print Assumptions C17_linear_extrap_formula.
Print Assumptions C17_lin_extrap_affine_exact.
Print Assumptions C17_safe_extrap_char.
Print Assumptions C17_safe_extrap_window.
Print Assumptions C17_safe_extrap_affine_exact.
Print Assumptions C17_roundtrip_partial.
Print Assumptions C17_roundtrip_defined.
Print Assumptions C17_roundtrip_outside.
Print Assumptions C17_surface_pressure_on_segment.
Print Assumptions C17_surface_pressure_is_intercept.
Print Assumptions C17_bilinear_constants.
Print Assumptions C17_bilinear_identity_same_grid.
Print Assumptions C17_nearest_constants.
Print Assumptions C17_nearest_identity_same_grid.
Print Assumptions C17_dot_interp_eq_ref_R.
Print Assumptions C17_safe_extrap_window_R.
Print Assumptions C17_hyps_satisfiable.
Print Assumptions C17_model_is_source.
Print Assumptions C17_gen_interp_complete.
