(** Property C03 - the implicit solve is the exact resolvent of the implicit
    tendency.  Statements only; proofs are in Thm/Implicit.v (and Thm/Sigma.v).
    Every theorem of the first section is for an arbitrary field [F] (hence the
    reals), an arbitrary number of layers [cK c], arbitrary boundaries [cb c],
    log-centre table [cls c], reference temperatures [cTref c], [ckappa c],
    [cR c], Laplacian eigenvalue [lam] and step size [eta] of either sign.

    [inv : nat -> Mat -> Mat] stands for [np.linalg.inv]; that it returns a
    (left) inverse of the matrices the code applies it to is a hypothesis
    (checked numerically per explored configuration by the plugin).  The only
    other side conditions are that the first and the last layer have non-zero
    thickness (the cumulative-sum form of H divides by them) and that the
    boolean equality test of the carrier is sound (used by the
    [(down_weights != 0).any()] branch).  Divisions by the other thicknesses
    occur identically on both sides of every statement. *)
From Dino Require Import Base.Ops Base.Sums Base.Inst Base.Ord Model.Sigma Thm.Sigma Model.Implicit Thm.Implicit.
From Dino Require Import Model.Filters Gen.ImplicitSrc Thm.ImplicitSrc.
From Coq Require Import Reals Qcanon Lra.
Local Open Scope F_scope.

Section C03.
  Context {F : Type} {o : Ops F} {Fc : FieldC o}.
  Hypothesis feqb_sound : forall x y : F, feqb x y = true -> x = y.

  (** the assembled (2K+1)x(2K+1) matrix IS the operator I - eta*implicit_terms *)
  Theorem C03_matrix_is_I_minus_eta_L (c : PEcfg) (eta lam : F) (x : Col) i :
    (i < 2 * cK c + 1)%nat ->
    matvec (2 * cK c + 1) (implicit_matrix c eta lam) (stack (cK c) x) i
    = stack (cK c) (col_minus_scaled x eta (implicit_terms false c lam x)) i.
  Proof. exact (matrix_is_I_minus_eta_L c eta lam x i). Qed.

  (** implicit_terms is linear, for both vertical matrix-product strategies *)
  Theorem C03_L_linear (sp : bool) (c : PEcfg) (lam a b : F) (x y : Col) :
    col_eq (cK c) (implicit_terms sp c lam (col_lin a x b y))
                  (col_lin a (implicit_terms sp c lam x) b (implicit_terms sp c lam y)).
  Proof. exact (L_linear sp c lam a b x y). Qed.

  (** 'split' = 'stacked' on every right-hand side, whatever inv returns *)
  Theorem C03_split_eq_stacked inv (c : PEcfg) (eta lam : F) (y : Col) :
    col_eq (cK c) (inverse_split inv c eta lam y) (inverse_stacked inv c eta lam y).
  Proof. exact (split_eq_stacked inv c eta lam y). Qed.

  Theorem C03_stacked_resolvent inv (c : PEcfg) (eta lam : F) (x : Col) (sp : bool) :
    is_left_inverse (2 * cK c + 1) (inv (2 * cK c + 1)%nat (implicit_matrix c eta lam)) (implicit_matrix c eta lam) ->
    thickness (cb c) 0%nat <> 0 -> thickness (cb c) (cK c - 1)%nat <> 0 ->
    col_eq (cK c) (inverse_stacked inv c eta lam (col_minus_scaled x eta (implicit_terms sp c lam x))) x.
  Proof. exact (stacked_resolvent feqb_sound inv c eta lam x sp). Qed.

  Theorem C03_split_resolvent inv (c : PEcfg) (eta lam : F) (x : Col) (sp : bool) :
    is_left_inverse (2 * cK c + 1) (inv (2 * cK c + 1)%nat (implicit_matrix c eta lam)) (implicit_matrix c eta lam) ->
    thickness (cb c) 0%nat <> 0 -> thickness (cb c) (cK c - 1)%nat <> 0 ->
    col_eq (cK c) (inverse_split inv c eta lam (col_minus_scaled x eta (implicit_terms sp c lam x))) x.
  Proof. exact (split_resolvent feqb_sound inv c eta lam x sp). Qed.

  (** Schur-complement identity behind 'blockwise', for arbitrary blocks G (n x m), H (m x n) *)
  Theorem C03_schur_blockwise_generic n m (G H A B : @Mat F) (u v yu yv : nat -> F) :
    is_left_inverse n A (fun i j => eye i j - matmul m G H i j) ->
    is_left_inverse m B (fun i j => eye i j - matmul n H G i j) ->
    (forall i, (i < n)%nat -> yu i = u i + matvec m G v i) ->
    (forall i, (i < m)%nat -> yv i = matvec n H u i + v i) ->
    (forall i, (i < n)%nat -> matvec n A (fun g => yu g - matvec m G yv g) i = u i) /\
    (forall i, (i < m)%nat -> matvec m B (fun g => yv g - matvec n H yu g) i = v i).
  Proof. exact (schur_blockwise_generic n m G H A B u v yu yv). Qed.

  (** ... and the code's use of it (cumulative-sum G and H products, block slicing) *)
  Theorem C03_blockwise_resolvent inv (c : PEcfg) (eta lam : F) (x : Col) (sp : bool) :
    is_left_inverse (cK c) (inv (cK c) (schur_div c eta lam)) (schur_div c eta lam) ->
    is_left_inverse (cK c + 1) (inv (cK c + 1)%nat (schur_temp_logp c eta lam)) (schur_temp_logp c eta lam) ->
    thickness (cb c) 0%nat <> 0 -> thickness (cb c) (cK c - 1)%nat <> 0 ->
    col_eq (cK c) (inverse_blockwise inv c eta lam (col_minus_scaled x eta (implicit_terms sp c lam x))) x.
  Proof. exact (blockwise_resolvent feqb_sound inv c eta lam x sp). Qed.

  (** all strategies agree on every right-hand side when the inverses exist *)
  Theorem C03_blockwise_eq_split inv (c : PEcfg) (eta lam : F) (y : Col) :
    let n := (2 * cK c + 1)%nat in
    let M := implicit_matrix c eta lam in
    is_left_inverse n (inv n M) M -> is_left_inverse n M (inv n M) ->
    is_left_inverse (cK c) (inv (cK c) (schur_div c eta lam)) (schur_div c eta lam) ->
    is_left_inverse (cK c + 1) (inv (cK c + 1)%nat (schur_temp_logp c eta lam)) (schur_temp_logp c eta lam) ->
    thickness (cb c) 0%nat <> 0 -> thickness (cb c) (cK c - 1)%nat <> 0 ->
    col_eq (cK c) (inverse_blockwise inv c eta lam y) (inverse_split inv c eta lam y).
  Proof. exact (blockwise_eq_split feqb_sound inv c eta lam y). Qed.

  (** H applied densely = cumulative-sum form, every K, every (uneven) level set *)
  Theorem C03_temperature_sparse_eq_dense (c : PEcfg) (div : nat -> F) r :
    (r < cK c)%nat ->
    thickness (cb c) 0%nat <> 0 -> thickness (cb c) (cK c - 1)%nat <> 0 ->
    temp_implicit_sparse c div r = temp_implicit_dense c div r.
  Proof. exact (temperature_sparse_eq_dense feqb_sound c div r). Qed.

  Theorem C03_geopotential_sparse_eq_dense K R (ls T : nat -> F) j :
    (j < K)%nat -> geo_diff_sparse K R ls T j = geo_diff_dense K R ls T j.
  Proof. exact (geo_sparse_eq_dense K R ls T j). Qed.

  Theorem C03_implicit_terms_sparse_eq_dense (c : PEcfg) (lam : F) (x : Col) (sp : bool) :
    thickness (cb c) 0%nat <> 0 -> thickness (cb c) (cK c - 1)%nat <> 0 ->
    col_eq (cK c) (implicit_terms sp c lam x) (implicit_terms false c lam x).
  Proof. exact (implicit_terms_sparse_eq_dense feqb_sound c lam x sp). Qed.

  (** TimeReversedImExODE: the resolvent at -eta of the negated operator *)
  Theorem C03_time_reversed inv (c : PEcfg) (eta lam : F) (x : Col) (sp : bool) :
    is_left_inverse (2 * cK c + 1) (inv (2 * cK c + 1)%nat (implicit_matrix c (- eta) lam))
                    (implicit_matrix c (- eta) lam) ->
    thickness (cb c) 0%nat <> 0 -> thickness (cb c) (cK c - 1)%nat <> 0 ->
    col_eq (cK c) (tr_implicit_inverse inv c eta lam (col_minus_scaled x eta (tr_implicit_terms sp c lam x))) x.
  Proof. exact (time_reversed feqb_sound inv c eta lam x sp). Qed.

  Theorem C03_with_time_resolvent inv (c : PEcfg) (eta lam : F) (t : F) (x : Col) (sp : bool) :
    is_left_inverse (2 * cK c + 1) (inv (2 * cK c + 1)%nat (implicit_matrix c eta lam)) (implicit_matrix c eta lam) ->
    thickness (cb c) 0%nat <> 0 -> thickness (cb c) (cK c - 1)%nat <> 0 ->
    let L := wt_implicit_terms sp c lam (t, x) in
    let r := wt_implicit_inverse inv c eta lam (t - eta * fst L, col_minus_scaled x eta (snd L)) in
    fst r = t /\ col_eq (cK c) (snd r) x.
  Proof. exact (with_time_resolvent feqb_sound inv c eta lam t x sp). Qed.

  Theorem C03_passive_resolvent (eta v : F) : passive_inverse (v - eta * passive_terms v) = v.
  Proof. exact (passive_resolvent eta v). Qed.

  (** shallow water: the Schur solve is the resolvent under the side condition the code needs *)
  Theorem C03_sw_resolvent (Phi lam eta : F) (x : F * F) :
    sw_schur Phi lam eta <> 0 ->
    sw_implicit_inverse Phi lam eta (sw_minus_scaled x eta (sw_implicit_terms Phi lam x)) = x.
  Proof. exact (sw_resolvent Phi lam eta x). Qed.

  Theorem C03_sw_L_linear (Phi lam a b : F) (x y : F * F) :
    sw_implicit_terms Phi lam (a * fst x + b * fst y, a * snd x + b * snd y)
    = (a * fst (sw_implicit_terms Phi lam x) + b * fst (sw_implicit_terms Phi lam y),
       a * snd (sw_implicit_terms Phi lam x) + b * snd (sw_implicit_terms Phi lam y)).
  Proof. exact (sw_L_linear Phi lam a b x y). Qed.

  Theorem C03_sw_time_reversed (Phi lam eta : F) (x : F * F) :
    sw_schur Phi lam (- eta) <> 0 ->
    sw_tr_implicit_inverse Phi lam eta (sw_minus_scaled x eta (sw_tr_implicit_terms Phi lam x)) = x.
  Proof. exact (sw_time_reversed Phi lam eta x). Qed.
End C03.

(** In every ordered field: reference potential >= 0 and eigenvalue <= 0 give
    1 - eta^2 Phi lam >= 1, so the shallow-water side condition holds for every eta. *)
Theorem C03_sw_side_condition {F} {o : Ops F} {Oc : OrdFieldC o} (Phi lam eta : F) :
  fle 0 Phi -> fle lam 0 -> sw_schur Phi lam eta <> 0.
Proof. exact (sw_side_condition Phi lam eta). Qed.

(** Over the reals: the shallow-water solve is the resolvent for all admissible parameters. *)
Theorem C03_sw_resolvent_R (Phi lam eta : R) (x : R * R) :
  (0 <= Phi)%R -> (lam <= 0)%R ->
  sw_implicit_inverse Phi lam eta (sw_minus_scaled x eta (sw_implicit_terms Phi lam x)) = x.
Proof.
  intros HP Hl. apply sw_resolvent. apply sw_side_condition; now apply fle_R.
Qed.

(** Over the reals, for any strictly increasing sigma boundaries (K >= 1): every
    strategy returns x from x - eta*implicit_terms(x) as soon as np.linalg.inv
    returns left inverses. *)
Theorem C03_resolvent_R (inv : nat -> @Mat R -> @Mat R) (c : @PEcfg R) (eta lam : R) (x : @Col R) (sp : bool) (m : Method) :
  (1 <= cK c)%nat ->
  (forall k, (k < cK c)%nat -> (cb c k < cb c (S k))%R) ->
  is_left_inverse (2 * cK c + 1) (inv (2 * cK c + 1)%nat (implicit_matrix c eta lam)) (implicit_matrix c eta lam) ->
  is_left_inverse (cK c) (inv (cK c) (schur_div c eta lam)) (schur_div c eta lam) ->
  is_left_inverse (cK c + 1) (inv (cK c + 1)%nat (schur_temp_logp c eta lam)) (schur_temp_logp c eta lam) ->
  col_eq (cK c) (implicit_inverse m inv c eta lam (col_minus_scaled x eta (implicit_terms sp c lam x))) x.
Proof.
  intros HK Hb HM HA HB.
  assert (E : forall x y : R, feqb x y = true -> x = y) by (intros a b; apply (proj1 (feqb_spec a b))).
  assert (T : forall k, (k < cK c)%nat -> thickness (cb c) k <> 0).
  { intros k Hk. unfold thickness. cbn. specialize (Hb k Hk). lra. }
  assert (T0 : thickness (cb c) 0%nat <> 0) by (apply T; lia).
  assert (T1 : thickness (cb c) (cK c - 1)%nat <> 0) by (apply T; lia).
  destruct m; cbn [implicit_inverse].
  - now apply (split_resolvent E).
  - now apply (stacked_resolvent E).
  - now apply (blockwise_resolvent E).
Qed.

(** Non-vacuity: the hypotheses are met by a concrete uneven 2-layer instance
    over Qc with non-uniform reference temperature (so that the
    [(down_weights != 0).any()] branch is the non-trivial one), eta = 1/2,
    lam = -2, with the exact rational inverses. *)
Definition ex_mat (n : nat) (l : list Q) : @Mat Qc := fun i j => Q2Qc (nth (i * n + j) l 0%Q).
Definition ex_cfg : @PEcfg Qc :=
  mkPE 2 (Q2Qc 2) (Q2Qc (1#4))
       (fun k => Q2Qc (nth k [-2; -1#2]%Q 0%Q))
       (fun k => Q2Qc (nth k [0; 1#4; 1]%Q 0%Q))
       (fun k => Q2Qc (nth k [250; 300]%Q 0%Q)).
Definition ex_inv (n : nat) (_ : @Mat Qc) : @Mat Qc :=
  if Nat.eqb n 5 then
    ex_mat 5 [127712#4056237; -1600#50077; 63856#1352079; 189680#4056237; -13904000#4056237;
              -44000#4056237; 752#50077; -22000#1352079; -49088#4056237; 14547200#4056237;
              -81050#150231; 26475#50077; 9552#50077; -123200#150231; 7130000#150231;
              -365600#4056237; -125#50077; -182800#1352079; 3132112#4056237; -188875000#4056237;
              536#4056237; -82#50077; 268#1352079; -5302#4056237; 339037#4056237]%Q
  else if Nat.eqb n 2 then
    ex_mat 2 [127712#4056237; -1600#50077; -44000#4056237; 752#50077]%Q
  else
    ex_mat 3 [9552#50077; -123200#150231; 7130000#150231;
              -182800#1352079; 3132112#4056237; -188875000#4056237;
              268#1352079; -5302#4056237; 339037#4056237]%Q.

Tactic Notation "check_entries" integer(n) :=
  let i := fresh "i" in let j := fresh "j" in
  intros i j ? ?;
  do n (destruct i as [|i];
        [do n (destruct j as [|j]; [apply Qc_is_canon; vm_compute; reflexivity|]); exfalso; lia|]);
  exfalso; lia.

Example C03_hyps_satisfiable :
  let c := ex_cfg in let eta := Q2Qc (1#2) in let lam := Q2Qc (-2) in
  let M := implicit_matrix c eta lam in
  (forall x y : Qc, feqb x y = true -> x = y) /\
  is_left_inverse 5 (ex_inv 5 M) M /\ is_left_inverse 5 M (ex_inv 5 M) /\
  is_left_inverse 2 (ex_inv 2 (schur_div c eta lam)) (schur_div c eta lam) /\
  is_left_inverse 3 (ex_inv 3 (schur_temp_logp c eta lam)) (schur_temp_logp c eta lam) /\
  thickness (cb c) 0%nat <> 0 /\ thickness (cb c) 1%nat <> 0 /\
  thickness (cb c) 0%nat <> thickness (cb c) 1%nat /\
  any_nonzero 2 (down_weights c) = true /\
  @sw_schur Qc QcOps (Q2Qc 5) (Q2Qc (-6)) (Q2Qc (-37)) <> 0.
Proof.
  cbv zeta. repeat apply conj.
  - intros x y. apply (proj1 (feqb_spec x y)).
  - check_entries 5.
  - check_entries 5.
  - check_entries 2.
  - check_entries 3.
  - intro H. vm_compute in H. discriminate H.
  - intro H. vm_compute in H. discriminate H.
  - intro H. vm_compute in H. discriminate H.
  - vm_compute. reflexivity.
  - intro H. vm_compute in H. discriminate H.
Qed.

(** ** Tie to the source by translation (regenerated on every run).
    The vertical operators the theorems above are about ARE the numpy
    constructions of dinosaur/primitive_equations.py: [*_src] are transcribed
    from the AST by tools/translate/gen_implicit.py (get_sigma_ratios,
    get_geopotential_weights, get_temperature_implicit_weights statement by
    statement, and the weight vectors of the two 'sparse' methods). *)
Theorem C03_model_is_source {F : Type} {o : Ops F} {Fc : FieldC o} (c : @PEcfg F) (r s : nat) :
  (r < cK c)%nat -> (s < cK c)%nat ->
  alpha (cK c) (cls c) r = alpha_src c r /\
  geo_weights (cK c) (cR c) (cls c) r s = geo_weights_src c r s /\
  temp_weights c r s = temp_weights_src c r s /\
  neg_temp_weights c r r = diag_weights_src c r /\
  up_weights c r = up_weights_src c r /\
  down_weights c r = down_weights_src c r /\
  fmul (cR c) (alpha (cK c) (cls c) r) = geo_alpha_src c r /\
  (if Nat.eqb r 0 then f0 else fadd (fmul (cR c) (alpha (cK c) (cls c) r)) (fmul (cR c) (alpha (cK c) (cls c) (r - 1)%nat)))
    = geo_alpha2_src c r.
Proof.
  intros Hr Hs.
  split; [now apply alpha_matches_source|].
  split; [now apply geo_weights_matches_source|].
  split; [now apply temp_weights_matches_source|].
  split; [now apply (sparse_weights_match_source c r)|].
  split; [now apply (sparse_weights_match_source c r)|].
  split; [now apply (sparse_weights_match_source c r)|].
  split; now apply (geo_sparse_weights_match_source c r).
Qed.

Theorem C03_gen_implicit_complete : gen_implicit_ok = true.
Proof. exact gen_implicit_complete. Qed.

Print Assumptions C03_matrix_is_I_minus_eta_L.
Print Assumptions C03_L_linear.
Print Assumptions C03_split_eq_stacked.
Print Assumptions C03_stacked_resolvent.
Print Assumptions C03_split_resolvent.
Print Assumptions C03_schur_blockwise_generic.
Print Assumptions C03_blockwise_resolvent.
Print Assumptions C03_blockwise_eq_split.
Print Assumptions C03_temperature_sparse_eq_dense.
Print Assumptions C03_geopotential_sparse_eq_dense.
Print Assumptions C03_implicit_terms_sparse_eq_dense.
Print Assumptions C03_time_reversed.
Print Assumptions C03_with_time_resolvent.
Print Assumptions C03_passive_resolvent.
Print Assumptions C03_sw_resolvent.
Print Assumptions C03_sw_L_linear.
Print Assumptions C03_sw_time_reversed.
Print Assumptions C03_sw_side_condition.
Print Assumptions C03_sw_resolvent_R.
Print Assumptions C03_resolvent_R.
Print Assumptions C03_hyps_satisfiable.
Print Assumptions C03_model_is_source.
Print Assumptions C03_gen_implicit_complete.
