(** Property C06 - IMEX integrators reach their design order and never amplify
    stiff linear modes.  Statements only; proofs are in Thm/Integrators.v and
    Thm/IntegratorsStab.v.  Every coefficient is the one of Gen/Tableaux.v, which
    is re-translated from dinosaur/time_integration.py on every run.

    Formalised: the order conditions on the generated coefficients, the Taylor
    coefficients of the linear multiplier, the reductions, A-stability for all z, the
    length validations, and (section NonlinearOrder) the ORDER ITSELF for nonlinear F:
    the step functions of the model, run at the carrier "truncated power series in h",
    reproduce the Taylor series of the exact flow of the scalar problem
    u' = F(u) + g u with symbolic u0, g, F^(j)(u0)/j! over every field of characteristic
    0, up to the design order and not beyond.
    Still cited, not formalised (Butcher; Kennedy and Carpenter): that for SYSTEMS
    (vector-valued elementary differentials) the same tree conditions suffice; the
    scalar problem separates all conditions of the orders claimed here (see the
    header of Thm/IntegratorsOrder.v). *)
From Dino Require Import Base.Ops Base.Sums Base.Inst Gen.Tableaux Model.Integrators
  Thm.Integrators Thm.IntegratorsStab Thm.IntegratorsArk Thm.IntegratorsSil3
  Model.SeriesH Thm.IntegratorsOrder.
From Coq Require Import Reals Qreals Qabs Lra.

(** the translator understood every construct it had to read (fail-closed switch) *)
Theorem C06_gen_complete : gen_complete = true.
Proof. exact gen_complete_ok. Qed.

(** ** Order conditions ([..._ok eps t]: every listed residual has |.| <= eps; eps = 0: exact).
    Tableaux: hand-derived Butcher forms of the two directly coded schemes, Butcher
    forms computed by [lowstorage_to_butcher] from the generated alphas/betas/gammas,
    and the generated SIL3 tableau. *)
Theorem C06_order_euler :
  additive_order1_ok 0 euler_tab = true /\ additive_order2_ok 0 euler_tab = false.
Proof. exact order_euler. Qed.

Theorem C06_order_cn_rk2 :
  additive_order2_ok 0 rk2_tab = true /\
  additive_order3_ok 0 rk2_tab = false /\ explicit_order3_tall_ok 0 rk2_tab = false.
Proof. exact order_cn_rk2. Qed.

Theorem C06_order_cn_rk3 :
  additive_order2_ok 0 rk3_tab = true /\ explicit_order3_ok 0 rk3_tab = true /\
  additive_order3_ok 0 rk3_tab = false /\ explicit_order4_ok 0 rk3_tab = false.
Proof. exact order_cn_rk3. Qed.

Theorem C06_order_cn_rk4 :
  additive_order2_ok eps13 rk4_tab = true /\
  explicit_order3_ok eps13 rk4_tab = true /\ explicit_order4_ok eps13 rk4_tab = true /\
  coupling_bIcEcE_ok (1 # 1000) rk4_tab = false /\
  explicit_order5_bushy_ok (1 # 100000) rk4_tab = false.
Proof. exact order_cn_rk4. Qed.

Theorem C06_order_sil3 :
  additive_order2_ok 0 sil3_tab = true /\
  explicit_order3_tall_ok 0 sil3_tab = true /\ explicit_order3_bushy_ok 0 sil3_tab = false /\
  explicit_order4_tall_ok 0 sil3_tab = false /\ additive_order3_ok 0 sil3_tab = false.
Proof. exact order_sil3. Qed.

(** meaning of the deciders: a list of residuals passes iff each one is within eps *)
Theorem C06_order_decider_sound (eps : Q) (l : list Q) :
  all_within eps l = true <-> Forall (fun x => Qabs x <= eps)%Q l.
Proof. exact (all_within_spec eps l). Qed.

Theorem C06_rk4_near_carpenter_kennedy :
  let eps := (6 # 10000000000000)%Q in
  close_lists eps rk4_betas ck_A = true /\ close_lists eps rk4_gammas ck_B = true /\
  close_lists eps rk4_alphas ck_c = true.
Proof. exact rk4_near_carpenter_kennedy. Qed.

(** ** Linear right-hand sides F u = a u, G u = b u: the step functions of the model
    run in the truncated power-series algebra Q[[x,y]] (x = dt a, y = dt b); the
    coefficient of x^i y^j of the one-step multiplier equals 1/(i! j!) up to the
    design order, and not beyond.
    (Full statement "for every commutative ring and all scalars a, b the multiplier
    is the rational function with this expansion" needs the evaluation homomorphism
    Q[[x,y]] -> germs, which is not formalised: the series run *is* the expansion
    because the step only uses ring operations and inverses of units 1 - eta y.) *)
Theorem C06_linear_taylor_series :
  let E := ser_exp 1 in
  (taylor_upto 0 1 ser_euler E = true /\ taylor_upto 0 2 ser_euler E = false) /\
  (taylor_upto 0 2 ser_rk2 E = true /\ taylor_x_upto 0 3 ser_rk2 E = false) /\
  (taylor_upto 0 2 ser_rk3 E = true /\ taylor_x_upto 0 3 ser_rk3 E = true /\
   taylor_upto 0 3 ser_rk3 E = false /\ taylor_x_upto 0 4 ser_rk3 E = false) /\
  (taylor_upto eps13 2 ser_rk4 E = true /\ taylor_x_upto eps13 4 ser_rk4 E = true /\
   taylor_upto (1 # 100000) 3 ser_rk4 E = false /\ taylor_x_upto (1 # 100000) 5 ser_rk4 E = false) /\
  (is_some_ser ser_sil3 = true /\
   taylor_upto 0 2 (some_ser ser_sil3) E = true /\ taylor_x_upto 0 3 (some_ser ser_sil3) E = true /\
   taylor_upto 0 3 (some_ser ser_sil3) E = false /\ taylor_x_upto 0 4 (some_ser ser_sil3) E = false).
Proof. exact linear_taylor_series. Qed.

Theorem C06_leapfrog_second_order_series :
  taylor_upto 0 2 (ser_leapfrog leapfrog_alpha_default) (ser_exp 1) = true /\
  taylor_upto 0 3 (ser_leapfrog leapfrog_alpha_default) (ser_exp 1) = false /\
  taylor_upto 0 1 (ser_leapfrog 1) (ser_exp 1) = true /\
  taylor_upto 0 2 (ser_leapfrog 1) (ser_exp 1) = false.
Proof. exact leapfrog_second_order_series. Qed.

(** ** Reduction to the underlying explicit / implicit method: any carrier, any
    module V over it with x + 0 = x and c.0 = 0, any operators. *)
Section Reduction.
  Context {F : Type} {o : Ops F} {V : Type} {vo : VOps F V}.
  Hypothesis vadd_0_r : forall x : V, vadd x vzero = x.
  Hypothesis vscal_0 : forall c : F, vscal c (vzero : V) = vzero.
  Variable Fx G : V -> V.
  Variable Ginv : V -> F -> V.

  (** G = 0 and G_inv = id: forward Euler / Heun / the explicit 2N low-storage
      Runge-Kutta scheme with the same betas, gammas (every list length) *)
  Theorem C06_reduces_to_explicit dt u :
    euler_step Fx (fun x _ => x) dt u = vadd u (vscal dt (Fx u)) /\
    cn_rk2_step Fx (fun _ => vzero) (fun x _ => x) dt u =
      (let k1 := Fx u in let k2 := Fx (vadd u (vscal dt k1)) in
       vadd u (vscal dt (vscal half (vadd k2 k1)))) /\
    forall be ga al h, length al = S (length be) ->
      ls_loop Fx (fun _ => vzero) (fun x _ => x) dt al be ga h u = ls_explicit_loop Fx dt be ga h u.
  Proof.
    split; [|split].
    - exact (euler_reduces_to_explicit Fx dt u).
    - exact (cn_rk2_reduces_to_explicit vadd_0_r vscal_0 Fx dt u).
    - intros be ga al h Hl. exact (ls_reduces_to_explicit vadd_0_r vscal_0 Fx dt be ga al h u Hl).
  Qed.

  (** F = 0: backward Euler / one Crank-Nicolson step / the chain of Crank-Nicolson
      substeps of sizes dt (alpha_{k+1} - alpha_k) *)
  Theorem C06_reduces_to_implicit dt u :
    euler_step (fun _ => vzero) Ginv dt u = backward_euler_step Ginv dt u /\
    cn_rk2_step (fun _ => vzero) G Ginv dt u = cn_substep G Ginv (fmul half dt) u /\
    forall be ga al, length be = length ga -> length al = S (length be) ->
      ls_step (fun _ => vzero) G Ginv dt al be ga u = cn_chain G Ginv dt al u.
  Proof.
    split; [|split].
    - exact (euler_reduces_to_implicit vadd_0_r vscal_0 Ginv dt u).
    - exact (cn_rk2_reduces_to_implicit vadd_0_r vscal_0 G Ginv dt u).
    - intros be ga al Hg Hl. exact (ls_reduces_to_implicit vadd_0_r vscal_0 G Ginv dt be ga al u Hg Hl).
  Qed.
End Reduction.

(** ** The interpreter of `imex_runge_kutta` (skipping zero coefficients, evaluating
    F(Y_i), G(Y_i) only when a later coefficient needs them) never fails and computes
    the additive Runge-Kutta step in Butcher form: every tableau (all shapes and
    sizes), every carrier whose zero test is sound, every module with x + 0 = x and
    0.x = 0, all operators F, G, G_inv, all step sizes. *)
Section ImexIsArk.
  Context {F : Type} {o : Ops F} {V : Type} {vo : VOps F V}.
  Hypothesis nz_false_zero : forall c : F, nz c = false -> c = f0.
  Hypothesis vadd_0_r : forall x : V, vadd x vzero = x.
  Hypothesis vscal_0_l : forall x : V, vscal f0 x = vzero.
  Theorem C06_imex_is_ark (Fx G : V -> V) (Ginv : V -> F -> V) dt a_ex a_im b_ex b_im y0 :
    imex_step Fx G Ginv dt a_ex a_im b_ex b_im y0 = Some (ark_step Fx G Ginv dt a_ex a_im b_ex b_im y0).
  Proof. exact (imex_is_ark nz_false_zero vadd_0_r vscal_0_l Fx G Ginv dt a_ex a_im b_ex b_im y0). Qed.
End ImexIsArk.

(** ** The step functions are additive Runge-Kutta steps in Butcher form.
    Any field of scalars, any module over it, ARBITRARY (nonlinear) F and G; the only
    hypothesis on G_inv is that y = G_inv(x, eta) solves y = x + eta G(y), i.e.
    (1 - eta G) y = x (linearity of G is not even needed).  The low-storage 2N +
    Crank-Nicolson step equals [ark_step] with the Butcher arrays of
    [lowstorage_to_butcher] for EVERY coefficient list (all lengths, by induction over
    the stage loop with the invariant  h_k = sum_j hc_kj F(Y_j),
    u_k = y0 + dt sum_j ue_kj F(Y_j) + dt sum_j ui_kj G(Y_j));  the two directly coded
    schemes equal [ark_step] on their hand-derived tableaux.  These are exactly the
    tableaux whose order conditions are decided above. *)
Section StepFunctionsAreArk.
  Context {F : Type} {o : Ops F} {Fc : FieldC o} {V : Type} {vo : VOps F V} {Mc : ModuleC o vo}.
  Variable Fx G : V -> V.
  Variable Ginv : V -> F -> V.
  Hypothesis Ginv_solves : forall x eta, Ginv x eta = vadd x (vscal eta (G (Ginv x eta))).

  Theorem C06_lowstorage_is_ark dt y0 (al be ga : list F) :
    ls_step Fx G Ginv dt al be ga y0 =
    (let '(ae, ai, bex, bim) := lowstorage_to_butcher al be ga in
     ark_step Fx G Ginv dt ae ai bex bim y0).
  Proof. exact (lowstorage_is_ark Fx G Ginv Ginv_solves dt y0 al be ga). Qed.

  Theorem C06_direct_schemes_are_ark dt y0 :
    euler_step Fx Ginv dt y0 =
      (let '(ae, ai, bex, bim) := @euler_tableau F o in ark_step Fx G Ginv dt ae ai bex bim y0) /\
    cn_rk2_step Fx G Ginv dt y0 =
      (let '(ae, ai, bex, bim) := @cn_rk2_tableau F o in ark_step Fx G Ginv dt ae ai bex bim y0).
  Proof.
    split; [exact (euler_is_ark Fx G Ginv Ginv_solves dt y0)|exact (cn_rk2_is_ark Fx G Ginv Ginv_solves dt y0)].
  Qed.
End StepFunctionsAreArk.

(** ** Reduction of the imex_runge_kutta interpreter: with G = 0, G_inv = id it is the
    classical explicit Runge-Kutta step (a_ex, b_ex); with F = 0 the diagonally
    implicit Runge-Kutta step (a_im, b_im).  Every tableau with as many a_ex as a_im
    rows (guaranteed by the validation), every F / G / G_inv. *)
Section ImexReduces.
  Context {F : Type} {o : Ops F} {V : Type} {vo : VOps F V}.
  Hypothesis nz_false_zero : forall c : F, nz c = false -> c = f0.
  Hypothesis vadd_0_r : forall x : V, vadd x vzero = x.
  Hypothesis vscal_0_l : forall x : V, vscal f0 x = vzero.
  Hypothesis vscal_0_r : forall c : F, vscal c (vzero : V) = vzero.

  Theorem C06_imex_reduces_to_explicit (Fx : V -> V) dt a_ex a_im b_ex b_im y0 :
    length a_ex = length a_im ->
    imex_step Fx (fun _ => vzero) (fun x _ => x) dt a_ex a_im b_ex b_im y0
    = Some (erk_step Fx dt a_ex b_ex y0).
  Proof.
    intros Hl. rewrite (imex_is_ark nz_false_zero vadd_0_r vscal_0_l). f_equal.
    exact (ark_reduces_to_explicit vadd_0_r vscal_0_r Fx dt y0 a_ex a_im b_ex b_im Hl).
  Qed.

  Theorem C06_imex_reduces_to_implicit (G : V -> V) (Ginv : V -> F -> V) dt a_ex a_im b_ex b_im y0 :
    length a_ex = length a_im ->
    imex_step (fun _ => vzero) G Ginv dt a_ex a_im b_ex b_im y0
    = Some (dirk_step G Ginv dt a_im b_im y0).
  Proof.
    intros Hl. rewrite (imex_is_ark nz_false_zero vadd_0_r vscal_0_l). f_equal.
    exact (ark_reduces_to_implicit vadd_0_r vscal_0_r G Ginv dt y0 a_ex a_im b_ex b_im Hl).
  Qed.
End ImexReduces.

(** ** Order for NONLINEAR F by formal power series in the step size h.
    K: any field with 1 + .. + 1 <> 0 (characteristic 0; [ofZ] is the canonical map
    Z -> K).  u0, g, c_j = F^(j)(u0)/j! (j = 0..4): arbitrary elements of K.
    [run_*]: the step functions [euler_step], [cn_rk2_step], [ls_step], [imex_step],
    [leapfrog_step] of Model/Integrators.v at the carrier of power series truncated
    after h^4, dt = h, F = Taylor's formula, G = g., G_inv = geometric series, on the
    coefficients of Gen/Tableaux.v.  [exact_flow]: the Taylor series of the solution.
    [tcoef s k]: coefficient of h^k.  Negative parts: witnesses u0 = g = 1,
    (c0..c4) = (1, 2, 1, 1, 1). *)
Local Open Scope F_scope.
Section NonlinearOrder.
  Context {K : Type} {oK : Ops K} {Kc : FieldC oK}.
  Hypothesis char0 : forall p : positive, @ofZ K oK (Zpos p) <> 0.
  Variables u0 g c0 c1 c2 c3 c4 : K.
  Notation cs := [c0; c1; c2; c3; c4].
  Notation W := [1; 1 + 1; 1; 1; 1].
  Notation EX := (exact_flow (@ofQ K oK) NN).

  (** the comparison series starts at u0 and solves dE/dh = F(E) + g E modulo h^4 *)
  Theorem C06_series_exact_flow_is_taylor :
    let E := EX cs u0 g in
    tcoef E 0 = u0 /\
    forall k, (k <= 3)%nat ->
      tcoef (tderiv (@ofQ K oK) E) k = tcoef (tadd (Fser NN cs u0 E) (Gser NN g E)) k.
  Proof. exact (exact_flow_solves_ode char0 u0 g c0 c1 c2 c3 c4). Qed.

  (** the geometric series is the inverse of 1 - eta g in the truncated ring *)
  Theorem C06_series_ginv_is_inverse (x0 x1 x2 x3 x4 e1 e2 e3 e4 : K) :
    let x := [x0; x1; x2; x3; x4] in let eta := [0; e1; e2; e3; e4] in
    let y := Ginvser NN g x eta in
    forall k, (k <= 4)%nat -> tcoef (tsub y (tmul NN eta (Gser NN g y))) k = tcoef x k.
  Proof. exact (Ginvser_solves char0 x0 x1 x2 x3 x4 e1 e2 e3 e4 g). Qed.

  Theorem C06_nonlinear_order_euler :
    (forall k, (k <= 1)%nat -> tcoef (run_euler NN cs u0 g) k = tcoef (EX cs u0 g) k) /\
    tcoef (run_euler NN W 1 1) 2 <> tcoef (EX W 1 1) 2.
  Proof. split; [exact (euler_order1 char0 u0 g c0 c1 c2 c3 c4)|exact (euler_not_order2 char0 u0 g c0 c1 c2 c3 c4)]. Qed.

  Theorem C06_nonlinear_order_cn_rk2 :
    (forall k, (k <= 2)%nat -> tcoef (run_rk2 (@ofQ K oK) NN cs u0 g) k = tcoef (EX cs u0 g) k) /\
    tcoef (run_rk2 (@ofQ K oK) NN W 1 1) 3 <> tcoef (EX W 1 1) 3.
  Proof. split; [exact (rk2_order2 char0 u0 g c0 c1 c2 c3 c4)|exact (rk2_not_order3 char0 u0 g c0 c1 c2 c3 c4)]. Qed.

  (** Williamson RK3 + CN: order 2 for every g, not 3; with g = 0 order 3, not 4 *)
  Theorem C06_nonlinear_order_cn_rk3 :
    let RK3 := fun cs u0 g => run_ls (@ofQ K oK) NN cs u0 g rk3_alphas rk3_betas rk3_gammas in
    (forall k, (k <= 2)%nat -> tcoef (RK3 cs u0 g) k = tcoef (EX cs u0 g) k) /\
    tcoef (RK3 W 1 1) 3 <> tcoef (EX W 1 1) 3 /\
    (forall k, (k <= 3)%nat -> tcoef (RK3 cs u0 0) k = tcoef (EX cs u0 0) k) /\
    tcoef (RK3 W 1 0) 4 <> tcoef (EX W 1 0) 4.
  Proof.
    cbv zeta. repeat split.
    - exact (rk3_order2 char0 u0 g c0 c1 c2 c3 c4).
    - exact (rk3_not_order3_general char0 u0 g c0 c1 c2 c3 c4).
    - exact (rk3_order3_G0 char0 u0 g c0 c1 c2 c3 c4).
    - exact (rk3_not_order4_G0 char0 u0 g c0 c1 c2 c3 c4).
  Qed.

  (** Carpenter-Kennedy RK4 + CN, 13-digit decimals ("to rounding" made explicit as in
      C06_order_cn_rk4): the h^k coefficient of the step is the exact one plus the value
      at (u0, g, c0..c4) of a defect polynomial all of whose coefficients are <= 1e-13
      in absolute value - for k <= 2 and every g, for k <= 4 when g = 0; the h^3 defect
      for general g has a coefficient > 1e-5, and the h^3 coefficients differ at W *)
  Theorem C06_nonlinear_order_cn_rk4 :
    let RK4 := fun cs u0 g => run_ls (@ofQ K oK) NN cs u0 g rk4_alphas rk4_betas rk4_gammas in
    let rho := rho7 u0 g c0 c1 c2 c3 c4 in
    near_upto eps13 2 (rk4P csV p0 p1) (XP csV p0 p1) = true /\
    near_upto (1 # 100000) 3 (rk4P csV p0 p1) (XP csV p0 p1) = false /\
    near_upto eps13 4 (rk4P csV p0 []) (XP csV p0 []) = true /\
    (forall k, tcoef (RK4 cs u0 g) k =
               tcoef (EX cs u0 g) k + pev rho (defect (rk4P csV p0 p1) (XP csV p0 p1) k)) /\
    (forall k, tcoef (RK4 cs u0 0) k =
               tcoef (EX cs u0 0) k + pev rho (defect (rk4P csV p0 []) (XP csV p0 []) k)) /\
    tcoef (RK4 W 1 1) 3 <> tcoef (EX W 1 1) 3.
  Proof.
    cbv zeta. pose proof rk4_defects_general as H. cbv zeta in H.
    apply andb_prop in H. destruct H as [H1 H2]. apply Bool.negb_true_iff in H2.
    split; [|split; [|split; [|split; [|split]]]].
    - exact H1.
    - exact H2.
    - exact rk4_defects_G0.
    - exact (rk4_order2_near char0 u0 g c0 c1 c2 c3 c4).
    - exact (rk4_order4_G0_near char0 u0 g c0 c1 c2 c3 c4).
    - exact (rk4_not_order3_general char0 u0 g c0 c1 c2 c3 c4).
  Qed.

  (** SIL3 through the zero-skipping interpreter: order 2 for every g, not 3; g = 0:
      order 2 only for nonlinear F, order 3 for linear F (c2 = c3 = c4 = 0), not 4 *)
  Theorem C06_nonlinear_order_sil3 :
    let SIL3 := fun cs u0 g => run_imex (@ofQ K oK) NN cs u0 g sil3_a_ex sil3_a_im sil3_b_ex sil3_b_im in
    (exists s, SIL3 cs u0 g = Some s /\ forall k, (k <= 2)%nat -> tcoef s k = tcoef (EX cs u0 g) k) /\
    (exists s, SIL3 W 1 1 = Some s /\ tcoef s 3 <> tcoef (EX W 1 1) 3) /\
    (exists s, SIL3 W 1 0 = Some s /\ tcoef s 3 <> tcoef (EX W 1 0) 3) /\
    (exists s, SIL3 [c0; c1; 0; 0; 0] u0 0 = Some s /\
               forall k, (k <= 3)%nat -> tcoef s k = tcoef (EX [c0; c1; 0; 0; 0] u0 0) k) /\
    (exists s, SIL3 [1; 1 + 1; 0; 0; 0] 1 0 = Some s /\ tcoef s 4 <> tcoef (EX [1; 1 + 1; 0; 0; 0] 1 0) 4).
  Proof.
    cbv zeta. split; [|split; [|split; [|split]]].
    - exact (sil3_order2 char0 u0 g c0 c1 c2 c3 c4).
    - exact (sil3_not_order3_general char0 u0 g c0 c1 c2 c3 c4).
    - exact (sil3_G0_nonlinear_not_order3 char0 u0 g c0 c1 c2 c3 c4).
    - exact (sil3_G0_linear_order3 char0 u0 g c0 c1 c2 c3 c4).
    - exact (sil3_G0_linear_not_order4 char0 u0 g c0 c1 c2 c3 c4).
  Qed.

  (** semi-implicit leapfrog from the exact snapshots u(-h), u(0): second-order
      consistent for the default alpha read from the source, not third; alpha = 1 only first *)
  Theorem C06_nonlinear_order_leapfrog :
    let LF := fun al cs u0 g => run_leapfrog (@ofQ K oK) NN cs u0 g al in
    (forall k, (k <= 2)%nat -> tcoef (LF leapfrog_alpha_default cs u0 g) k = tcoef (EX cs u0 g) k) /\
    tcoef (LF leapfrog_alpha_default W 1 1) 3 <> tcoef (EX W 1 1) 3 /\
    (forall k, (k <= 1)%nat -> tcoef (LF 1%Q cs u0 g) k = tcoef (EX cs u0 g) k) /\
    tcoef (LF 1%Q W 1 1) 2 <> tcoef (EX W 1 1) 2.
  Proof.
    cbv zeta. pose proof (leapfrog_alpha1_order1_only char0 u0 g c0 c1 c2 c3 c4) as [H3 H4].
    repeat split.
    - exact (leapfrog_order2 char0 u0 g c0 c1 c2 c3 c4).
    - exact (leapfrog_not_order3 char0 u0 g c0 c1 c2 c3 c4).
    - exact H3.
    - exact H4.
  Qed.
End NonlinearOrder.
Local Close Scope F_scope.

(** ** A-stability over the reals: u' = z u treated implicitly (F = 0, G = z.,
    G_inv(., eta) = (1 - eta z)^-1 .), complex numbers as pairs, |.|^2 = nsq.
    For every step size dt >= 0 and every z with Re z <= 0. *)
Local Open Scope R_scope.

Theorem C06_A_stable_backward_euler (z u : Cplx) (dt : R) :
  0 <= dt -> fst z <= 0 ->
  nsq (euler_step (vo := CVOps) F0 (Ginvz z) dt u) <= nsq u.
Proof. exact (A_stable_backward_euler z u dt). Qed.

(** every coefficient set with non-decreasing alphas - in particular the generated
    RK3 and RK4 sets (their monotonicity is a computed fact about Gen/Tableaux.v) *)
Theorem C06_A_stable_cn_lowstorage (z u : Cplx) (dt : R) :
  0 <= dt -> fst z <= 0 ->
  (forall al be ga, NonDec al ->
     nsq (ls_step (o := ROps) (vo := CVOps) F0 (Gz z) (Ginvz z) dt al be ga u) <= nsq u) /\
  nsq (ls_step (o := ROps) (vo := CVOps) F0 (Gz z) (Ginvz z) dt
         (map Q2R rk3_alphas) (map Q2R rk3_betas) (map Q2R rk3_gammas) u) <= nsq u /\
  nsq (ls_step (o := ROps) (vo := CVOps) F0 (Gz z) (Ginvz z) dt
         (map Q2R rk4_alphas) (map Q2R rk4_betas) (map Q2R rk4_gammas) u) <= nsq u.
Proof.
  intros Hd Hx. split; [|split].
  - intros al be ga Hal. now apply A_stable_cn_lowstorage_any.
  - now apply A_stable_cn_rk3.
  - now apply A_stable_cn_rk4.
Qed.

Theorem C06_A_stable_cn_rk2 (z u : Cplx) (dt : R) :
  0 <= dt -> fst z <= 0 ->
  nsq (cn_rk2_step (o := ROps) (vo := CVOps) F0 (Gz z) (Ginvz z) dt u) <= nsq u.
Proof. exact (A_stable_cn_rk2 z u dt). Qed.

(** leapfrog with F = 0: future = rho^2 * previous for both characteristic roots *)
Theorem C06_A_stable_leapfrog (z prev cur : Cplx) (dt alpha : R) :
  0 <= dt -> / 2 <= alpha -> fst z <= 0 ->
  nsq (snd (leapfrog_step (o := ROps) (vo := CVOps) F0 (Gz z) (Ginvz z) dt alpha (prev, cur))) <= nsq prev.
Proof. exact (A_stable_leapfrog z prev cur dt alpha). Qed.

Theorem C06_A_stable_leapfrog_default (z prev cur : Cplx) (dt : R) :
  0 <= dt -> fst z <= 0 ->
  nsq (snd (leapfrog_step (o := ROps) (vo := CVOps) F0 (Gz z) (Ginvz z) dt (Q2R leapfrog_alpha_default)
              (prev, cur))) <= nsq prev.
Proof. intros. apply A_stable_leapfrog; auto. exact leapfrog_default_alpha_ok. Qed.

(** SIL3: through the zero-skipping interpreter on the GENERATED tableau.  The
    implicit stability function is derived in Coq from the generated a_im, b_im
    (r(0,w) = (12 + 5 w)/((w - 3)(w - 4)), w = dt z, by the field tactic on C), and
    |D|^2 - |N|^2 = t^4 + 14 t^3 + 48 t^2 + 288 t + 2 t^2 s + 14 t s + s^2
    (t = - Re w >= 0, s = (Im w)^2) has only non-negative coefficients.  A changed
    generated coefficient makes the derivation, hence the check, fail. *)
Theorem C06_A_stable_sil3 (z u : Cplx) (dt : R) :
  0 <= dt -> fst z <= 0 ->
  exists y, imex_step (o := ROps) (vo := CVOps) F0 (Gz z) (Ginvz z) dt
              (RLL sil3_a_ex) (RLL sil3_a_im) (RL sil3_b_ex) (RL sil3_b_im) u = Some y /\
            nsq y <= nsq u.
Proof. exact (A_stable_sil3 z u dt). Qed.

(** the hypothesis of section NonlinearOrder holds over the reals (non-vacuity), and
    the real instance of the order statements for the schemes with G = 0 *)
Lemma ofZ_R_pos (p : positive) : 0 < @ofZ R ROps (Zpos p).
Proof.
  induction p as [|p IH] using Pos.peano_ind.
  - change (0 < 1). lra.
  - rewrite Pos2Z.inj_succ. unfold Z.succ. rewrite (@ofZ_add R ROps RFieldC).
    change (0 < @ofZ R ROps (Zpos p) + 1). lra.
Qed.
Example C06_nonlinear_hyps_satisfiable : forall p : positive, @ofZ R ROps (Zpos p) <> 0.
Proof. intros p. pose proof (ofZ_R_pos p). lra. Qed.

Theorem C06_nonlinear_order_reals (u0 c0 c1 c2 c3 c4 : R) :
  let EX := exact_flow (@ofQ R ROps) NN in
  (forall k, (k <= 3)%nat ->
     tcoef (run_ls (@ofQ R ROps) NN [c0; c1; c2; c3; c4] u0 0 rk3_alphas rk3_betas rk3_gammas) k
     = tcoef (EX [c0; c1; c2; c3; c4] u0 0) k) /\
  (exists s, run_imex (@ofQ R ROps) NN [c0; c1; 0; 0; 0] u0 0 sil3_a_ex sil3_a_im sil3_b_ex sil3_b_im = Some s /\
     forall k, (k <= 3)%nat -> tcoef s k = tcoef (EX [c0; c1; 0; 0; 0] u0 0) k).
Proof.
  cbv zeta. split.
  - exact (rk3_order3_G0 C06_nonlinear_hyps_satisfiable u0 0 c0 c1 c2 c3 c4).
  - exact (sil3_G0_linear_order3 C06_nonlinear_hyps_satisfiable u0 0 c0 c1 0 0 0).
Qed.

Local Close Scope R_scope.

(** ** Length validation: the translated acceptance predicates reject exactly the
    inconsistent shapes (all lengths). *)
Theorem C06_lengths_validated (la lb lg : nat) :
  ls_rejects la lb lg = false <-> (la = S lb /\ lb = lg).
Proof. exact (ls_lengths_validated la lb lg). Qed.

Theorem C06_tableau_validated (a_ex_rows a_im_rows : list nat) (n_b_ex n_b_im : nat) :
  tableau_rejects a_ex_rows a_im_rows n_b_ex n_b_im = false <->
  (S (length a_ex_rows) = n_b_ex /\ S (length a_im_rows) = n_b_ex /\ n_b_im = n_b_ex /\
   (forall i, (i < length a_ex_rows)%nat -> nth i a_ex_rows 0%nat = (i + 1)%nat) /\
   (forall i, (i < length a_im_rows)%nat -> nth i a_im_rows 0%nat = (i + 2)%nat)).
Proof. exact (tableau_validated a_ex_rows a_im_rows n_b_ex n_b_im). Qed.

(** ** Non-vacuity: the module hypotheses hold for V = Cplx over R; G_inv of the
    stability theorems really inverts 1 - eta G; the generated shapes are accepted
    and a truncated alpha list (the historical defect) is rejected. *)
Example C06_hyps_satisfiable :
  (forall x : Cplx, vadd x vzero = x) /\ (forall c : R, vscal c (vzero : Cplx) = vzero) /\
  (forall c : R, nz c = false -> c = 0%R) /\ (forall x : Cplx, vscal 0%R x = vzero) /\
  ModuleC ROps CVOps /\
  (forall (x : Cplx) (eta : R),
     Ginvz (0, 1)%R x eta = vadd x (vscal eta (Gz (0, 1)%R (Ginvz (0, 1)%R x eta)))) /\
  (forall (z u : Cplx) (eta : R), (0 <= eta)%R -> (fst z <= 0)%R ->
     Ginvz z (vadd u (vscal (- eta)%R (Gz z u))) eta = u) /\
  NonDec (map Q2R rk4_alphas) /\
  ls_rejects (length rk4_alphas) (length rk4_betas) (length rk4_gammas) = false /\
  ls_rejects 5 3 3 = true /\ ls_rejects 4 3 4 = true /\
  tableau_rejects (map (@length Q) sil3_a_ex) (map (@length Q) sil3_a_im) (length sil3_b_ex) (length sil3_b_im) = false /\
  tableau_rejects [1; 3]%nat [2; 3]%nat 3 3 = true.
Proof.
  repeat match goal with |- _ /\ _ => split end.
  - intros [a b]. cbn. f_equal; ring.
  - intros c. cbn. f_equal; ring.
  - intros c H. unfold nz in H. apply Bool.negb_false_iff in H. cbn in H. unfold Reqb in H.
    destruct (Req_EM_T c 0); [assumption|discriminate].
  - intros [a b]. cbn. f_equal; ring.
  - exact Cplx_module.
  - exact Ginvz_solves_imag.
  - intros z u eta He Hx. apply Ginvz_inverse.
    pose proof (Dz_ge_1 z eta He Hx). lra.
  - apply nondec_Q2R, rk4_alphas_nondecreasing.
  - vm_compute. reflexivity.
  - vm_compute. reflexivity.
  - vm_compute. reflexivity.
  - vm_compute. reflexivity.
  - vm_compute. reflexivity.
Qed.

Print Assumptions C06_gen_complete.
Print Assumptions C06_order_euler.
Print Assumptions C06_order_cn_rk2.
Print Assumptions C06_order_cn_rk3.
Print Assumptions C06_order_cn_rk4.
Print Assumptions C06_order_sil3.
Print Assumptions C06_order_decider_sound.
Print Assumptions C06_rk4_near_carpenter_kennedy.
Print Assumptions C06_linear_taylor_series.
Print Assumptions C06_leapfrog_second_order_series.
Print Assumptions C06_series_exact_flow_is_taylor.
Print Assumptions C06_series_ginv_is_inverse.
Print Assumptions C06_nonlinear_order_euler.
Print Assumptions C06_nonlinear_order_cn_rk2.
Print Assumptions C06_nonlinear_order_cn_rk3.
Print Assumptions C06_nonlinear_order_cn_rk4.
Print Assumptions C06_nonlinear_order_sil3.
Print Assumptions C06_nonlinear_order_leapfrog.
Print Assumptions C06_nonlinear_hyps_satisfiable.
Print Assumptions C06_nonlinear_order_reals.
Print Assumptions C06_imex_is_ark.
Print Assumptions C06_lowstorage_is_ark.
Print Assumptions C06_direct_schemes_are_ark.
Print Assumptions C06_imex_reduces_to_explicit.
Print Assumptions C06_imex_reduces_to_implicit.
Print Assumptions C06_reduces_to_explicit.
Print Assumptions C06_reduces_to_implicit.
Print Assumptions C06_A_stable_backward_euler.
Print Assumptions C06_A_stable_cn_lowstorage.
Print Assumptions C06_A_stable_cn_rk2.
Print Assumptions C06_A_stable_sil3.
Print Assumptions C06_A_stable_leapfrog.
Print Assumptions C06_A_stable_leapfrog_default.
Print Assumptions C06_lengths_validated.
Print Assumptions C06_tableau_validated.
Print Assumptions C06_hyps_satisfiable.
