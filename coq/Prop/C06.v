(** Property C06 - IMEX integrators reach their design order and never amplify
    stiff linear modes.  Statements only; proofs are in Thm/Integrators.v and
    Thm/IntegratorsStab.v.  Every coefficient is the one of Gen/Tableaux.v, which
    is re-translated from dinosaur/time_integration.py on every run.

    Trusted mathematics (cited, not formalised): "rooted-tree order conditions up
    to p  =>  local error O(h^(p+1)) for every smooth F" (Butcher; Kennedy and
    Carpenter for additive schemes).  Formalised: the conditions themselves on the
    generated coefficients, the Taylor coefficients of the linear multiplier, the
    reductions, A-stability for all z, the length validations. *)
From Dino Require Import Base.Ops Base.Sums Base.Inst Gen.Tableaux Model.Integrators
  Thm.Integrators Thm.IntegratorsStab.
From Coq Require Import Reals Qreals Qabs Lra.

(** the translator understood every construct it had to read (fail-closed switch) *)
Theorem C06_gen_complete : gen_complete = true.
Proof. exact gen_complete_ok. Qed.

(** ** Order conditions ([..._ok eps t]: every listed residual has |.| <= eps; eps = 0: exact).
    Tableaux: hand-derived Butcher forms of the two directly coded schemes, Butcher
    forms computed by [lowstorage_to_butcher] from the generated alphas/betas/gammas,
    and the generated SIL3 tableau. *)
Theorem C06_order_euler :
  additive_order1_ok 0 euler_tab = true /\ additive_order2_ok 0 euler_tab = false.
Proof. exact order_euler. Qed.

Theorem C06_order_cn_rk2 :
  additive_order2_ok 0 rk2_tab = true /\
  additive_order3_ok 0 rk2_tab = false /\ explicit_order3_tall_ok 0 rk2_tab = false.
Proof. exact order_cn_rk2. Qed.

Theorem C06_order_cn_rk3 :
  additive_order2_ok 0 rk3_tab = true /\ explicit_order3_ok 0 rk3_tab = true /\
  additive_order3_ok 0 rk3_tab = false /\ explicit_order4_ok 0 rk3_tab = false.
Proof. exact order_cn_rk3. Qed.

Theorem C06_order_cn_rk4 :
  additive_order2_ok eps13 rk4_tab = true /\
  explicit_order3_ok eps13 rk4_tab = true /\ explicit_order4_ok eps13 rk4_tab = true /\
  coupling_bIcEcE_ok (1 # 1000) rk4_tab = false /\
  explicit_order5_bushy_ok (1 # 100000) rk4_tab = false.
Proof. exact order_cn_rk4. Qed.

Theorem C06_order_sil3 :
  additive_order2_ok 0 sil3_tab = true /\
  explicit_order3_tall_ok 0 sil3_tab = true /\ explicit_order3_bushy_ok 0 sil3_tab = false /\
  explicit_order4_tall_ok 0 sil3_tab = false /\ additive_order3_ok 0 sil3_tab = false.
Proof. exact order_sil3. Qed.

(** meaning of the deciders: a list of residuals passes iff each one is within eps *)
Theorem C06_order_decider_sound (eps : Q) (l : list Q) :
  all_within eps l = true <-> Forall (fun x => Qabs x <= eps)%Q l.
Proof. exact (all_within_spec eps l). Qed.

Theorem C06_rk4_near_carpenter_kennedy :
  let eps := (6 # 10000000000000)%Q in
  close_lists eps rk4_betas ck_A = true /\ close_lists eps rk4_gammas ck_B = true /\
  close_lists eps rk4_alphas ck_c = true.
Proof. exact rk4_near_carpenter_kennedy. Qed.

(** ** Linear right-hand sides F u = a u, G u = b u: the step functions of the model
    run in the truncated power-series algebra Q[[x,y]] (x = dt a, y = dt b); the
    coefficient of x^i y^j of the one-step multiplier equals 1/(i! j!) up to the
    design order, and not beyond.
    (Full statement "for every commutative ring and all scalars a, b the multiplier
    is the rational function with this expansion" needs the evaluation homomorphism
    Q[[x,y]] -> germs, which is not formalised: the series run *is* the expansion
    because the step only uses ring operations and inverses of units 1 - eta y.) *)
Theorem C06_linear_taylor_series :
  let E := ser_exp 1 in
  (taylor_upto 0 1 ser_euler E = true /\ taylor_upto 0 2 ser_euler E = false) /\
  (taylor_upto 0 2 ser_rk2 E = true /\ taylor_x_upto 0 3 ser_rk2 E = false) /\
  (taylor_upto 0 2 ser_rk3 E = true /\ taylor_x_upto 0 3 ser_rk3 E = true /\
   taylor_upto 0 3 ser_rk3 E = false /\ taylor_x_upto 0 4 ser_rk3 E = false) /\
  (taylor_upto eps13 2 ser_rk4 E = true /\ taylor_x_upto eps13 4 ser_rk4 E = true /\
   taylor_upto (1 # 100000) 3 ser_rk4 E = false /\ taylor_x_upto (1 # 100000) 5 ser_rk4 E = false) /\
  (is_some_ser ser_sil3 = true /\
   taylor_upto 0 2 (some_ser ser_sil3) E = true /\ taylor_x_upto 0 3 (some_ser ser_sil3) E = true /\
   taylor_upto 0 3 (some_ser ser_sil3) E = false /\ taylor_x_upto 0 4 (some_ser ser_sil3) E = false).
Proof. exact linear_taylor_series. Qed.

Theorem C06_leapfrog_second_order_series :
  taylor_upto 0 2 (ser_leapfrog leapfrog_alpha_default) (ser_exp 1) = true /\
  taylor_upto 0 3 (ser_leapfrog leapfrog_alpha_default) (ser_exp 1) = false /\
  taylor_upto 0 1 (ser_leapfrog 1) (ser_exp 1) = true /\
  taylor_upto 0 2 (ser_leapfrog 1) (ser_exp 1) = false.
Proof. exact leapfrog_second_order_series. Qed.

(** ** Reduction to the underlying explicit / implicit method: any carrier, any
    module V over it with x + 0 = x and c.0 = 0, any operators. *)
Section Reduction.
  Context {F : Type} {o : Ops F} {V : Type} {vo : VOps F V}.
  Hypothesis vadd_0_r : forall x : V, vadd x vzero = x.
  Hypothesis vscal_0 : forall c : F, vscal c (vzero : V) = vzero.
  Variable Fx G : V -> V.
  Variable Ginv : V -> F -> V.

  (** G = 0 and G_inv = id: forward Euler / Heun / the explicit 2N low-storage
      Runge-Kutta scheme with the same betas, gammas (every list length) *)
  Theorem C06_reduces_to_explicit dt u :
    euler_step Fx (fun x _ => x) dt u = vadd u (vscal dt (Fx u)) /\
    cn_rk2_step Fx (fun _ => vzero) (fun x _ => x) dt u =
      (let k1 := Fx u in let k2 := Fx (vadd u (vscal dt k1)) in
       vadd u (vscal dt (vscal half (vadd k2 k1)))) /\
    forall be ga al h, length al = S (length be) ->
      ls_loop Fx (fun _ => vzero) (fun x _ => x) dt al be ga h u = ls_explicit_loop Fx dt be ga h u.
  Proof.
    split; [|split].
    - exact (euler_reduces_to_explicit Fx dt u).
    - exact (cn_rk2_reduces_to_explicit vadd_0_r vscal_0 Fx dt u).
    - intros be ga al h Hl. exact (ls_reduces_to_explicit vadd_0_r vscal_0 Fx dt be ga al h u Hl).
  Qed.

  (** F = 0: backward Euler / one Crank-Nicolson step / the chain of Crank-Nicolson
      substeps of sizes dt (alpha_{k+1} - alpha_k) *)
  Theorem C06_reduces_to_implicit dt u :
    euler_step (fun _ => vzero) Ginv dt u = backward_euler_step Ginv dt u /\
    cn_rk2_step (fun _ => vzero) G Ginv dt u = cn_substep G Ginv (fmul half dt) u /\
    forall be ga al, length be = length ga -> length al = S (length be) ->
      ls_step (fun _ => vzero) G Ginv dt al be ga u = cn_chain G Ginv dt al u.
  Proof.
    split; [|split].
    - exact (euler_reduces_to_implicit vadd_0_r vscal_0 Ginv dt u).
    - exact (cn_rk2_reduces_to_implicit vadd_0_r vscal_0 G Ginv dt u).
    - intros be ga al Hg Hl. exact (ls_reduces_to_implicit vadd_0_r vscal_0 G Ginv dt be ga al u Hg Hl).
  Qed.
End Reduction.

(** ** The interpreter of `imex_runge_kutta` (skipping zero coefficients, evaluating
    F(Y_i), G(Y_i) only when a later coefficient needs them) never fails and computes
    the additive Runge-Kutta step in Butcher form: every tableau (all shapes and
    sizes), every carrier whose zero test is sound, every module with x + 0 = x and
    0.x = 0, all operators F, G, G_inv, all step sizes. *)
Section ImexIsArk.
  Context {F : Type} {o : Ops F} {V : Type} {vo : VOps F V}.
  Hypothesis nz_false_zero : forall c : F, nz c = false -> c = f0.
  Hypothesis vadd_0_r : forall x : V, vadd x vzero = x.
  Hypothesis vscal_0_l : forall x : V, vscal f0 x = vzero.
  Theorem C06_imex_is_ark (Fx G : V -> V) (Ginv : V -> F -> V) dt a_ex a_im b_ex b_im y0 :
    imex_step Fx G Ginv dt a_ex a_im b_ex b_im y0 = Some (ark_step Fx G Ginv dt a_ex a_im b_ex b_im y0).
  Proof. exact (imex_is_ark nz_false_zero vadd_0_r vscal_0_l Fx G Ginv dt a_ex a_im b_ex b_im y0). Qed.
End ImexIsArk.

(** PARTIAL (linear test equation only): in the series algebra the directly coded
    and the low-storage step functions coincide, coefficient by coefficient up to
    x^5 y^5, with [ark_step] on the Butcher forms used in the order conditions above
    ([euler_tab], [rk2_tab], [lowstorage_to_butcher] of the generated lists), and the
    interpreter on the generated SIL3 tableau with [ark_step].
    Missing for the full statement: the same identity for arbitrary F and linear G
    with G_inv = (1 - eta G)^-1 in an arbitrary module (needs induction over the 2N
    recurrence); it is tested on the implementation by the runner ls_vs_ark. *)
Theorem C06_stepfn_is_ark_linear_series_partial :
  ser_eqb (ser_ark euler_tab) ser_euler = true /\
  ser_eqb (ser_ark rk2_tab) ser_rk2 = true /\
  ser_eqb (ser_ark rk3_tab) ser_rk3 = true /\
  ser_eqb (ser_ark rk4_tab) ser_rk4 = true /\
  ser_eqb (ser_ark sil3_tab) (some_ser ser_sil3) = true.
Proof. exact stepfn_is_ark_linear_series. Qed.

(** ** A-stability over the reals: u' = z u treated implicitly (F = 0, G = z.,
    G_inv(., eta) = (1 - eta z)^-1 .), complex numbers as pairs, |.|^2 = nsq.
    For every step size dt >= 0 and every z with Re z <= 0. *)
Local Open Scope R_scope.

Theorem C06_A_stable_backward_euler (z u : Cplx) (dt : R) :
  0 <= dt -> fst z <= 0 ->
  nsq (euler_step (vo := CVOps) F0 (Ginvz z) dt u) <= nsq u.
Proof. exact (A_stable_backward_euler z u dt). Qed.

(** every coefficient set with non-decreasing alphas - in particular the generated
    RK3 and RK4 sets (their monotonicity is a computed fact about Gen/Tableaux.v) *)
Theorem C06_A_stable_cn_lowstorage (z u : Cplx) (dt : R) :
  0 <= dt -> fst z <= 0 ->
  (forall al be ga, NonDec al ->
     nsq (ls_step (o := ROps) (vo := CVOps) F0 (Gz z) (Ginvz z) dt al be ga u) <= nsq u) /\
  nsq (ls_step (o := ROps) (vo := CVOps) F0 (Gz z) (Ginvz z) dt
         (map Q2R rk3_alphas) (map Q2R rk3_betas) (map Q2R rk3_gammas) u) <= nsq u /\
  nsq (ls_step (o := ROps) (vo := CVOps) F0 (Gz z) (Ginvz z) dt
         (map Q2R rk4_alphas) (map Q2R rk4_betas) (map Q2R rk4_gammas) u) <= nsq u.
Proof.
  intros Hd Hx. split; [|split].
  - intros al be ga Hal. now apply A_stable_cn_lowstorage_any.
  - now apply A_stable_cn_rk3.
  - now apply A_stable_cn_rk4.
Qed.

Theorem C06_A_stable_cn_rk2 (z u : Cplx) (dt : R) :
  0 <= dt -> fst z <= 0 ->
  nsq (cn_rk2_step (o := ROps) (vo := CVOps) F0 (Gz z) (Ginvz z) dt u) <= nsq u.
Proof. exact (A_stable_cn_rk2 z u dt). Qed.

(** leapfrog with F = 0: future = rho^2 * previous for both characteristic roots *)
Theorem C06_A_stable_leapfrog (z prev cur : Cplx) (dt alpha : R) :
  0 <= dt -> / 2 <= alpha -> fst z <= 0 ->
  nsq (snd (leapfrog_step (o := ROps) (vo := CVOps) F0 (Gz z) (Ginvz z) dt alpha (prev, cur))) <= nsq prev.
Proof. exact (A_stable_leapfrog z prev cur dt alpha). Qed.

Theorem C06_A_stable_leapfrog_default (z prev cur : Cplx) (dt : R) :
  0 <= dt -> fst z <= 0 ->
  nsq (snd (leapfrog_step (o := ROps) (vo := CVOps) F0 (Gz z) (Ginvz z) dt (Q2R leapfrog_alpha_default)
              (prev, cur))) <= nsq prev.
Proof. intros. apply A_stable_leapfrog; auto. exact leapfrog_default_alpha_ok. Qed.

(* NOT PROVED (kept visible):
   C06_A_stable_sil3 : forall z u dt, 0 <= dt -> fst z <= 0 ->
     nsq (imex_step F0 (Gz z) (Ginvz z) dt (sil3 tableau) u) <= nsq u
   (certificate |D|^2 - |N|^2 >= 0 with N = 5z+12, D = (z-3)(z-4));
   C06_lowstorage_is_ark : ls_step = ark_step (lowstorage_to_butcher ...) for arbitrary F,
     linear G with exact G_inv (only the linear series case is proved, see above).
   Both are covered dynamically only: stability oracle on the implementation over a
   grid of the closed left half-plane; extracted ark_step / ls_step vs the
   implementation (runner ls_vs_ark). *)

Local Close Scope R_scope.

(** ** Length validation: the translated acceptance predicates reject exactly the
    inconsistent shapes (all lengths). *)
Theorem C06_lengths_validated (la lb lg : nat) :
  ls_rejects la lb lg = false <-> (la = S lb /\ lb = lg).
Proof. exact (ls_lengths_validated la lb lg). Qed.

Theorem C06_tableau_validated (a_ex_rows a_im_rows : list nat) (n_b_ex n_b_im : nat) :
  tableau_rejects a_ex_rows a_im_rows n_b_ex n_b_im = false <->
  (S (length a_ex_rows) = n_b_ex /\ S (length a_im_rows) = n_b_ex /\ n_b_im = n_b_ex /\
   (forall i, (i < length a_ex_rows)%nat -> nth i a_ex_rows 0%nat = (i + 1)%nat) /\
   (forall i, (i < length a_im_rows)%nat -> nth i a_im_rows 0%nat = (i + 2)%nat)).
Proof. exact (tableau_validated a_ex_rows a_im_rows n_b_ex n_b_im). Qed.

(** ** Non-vacuity: the module hypotheses hold for V = Cplx over R; G_inv of the
    stability theorems really inverts 1 - eta G; the generated shapes are accepted
    and a truncated alpha list (the historical defect) is rejected. *)
Example C06_hyps_satisfiable :
  (forall x : Cplx, vadd x vzero = x) /\ (forall c : R, vscal c (vzero : Cplx) = vzero) /\
  (forall c : R, nz c = false -> c = 0%R) /\ (forall x : Cplx, vscal 0%R x = vzero) /\
  (forall (z u : Cplx) (eta : R), (0 <= eta)%R -> (fst z <= 0)%R ->
     Ginvz z (vadd u (vscal (- eta)%R (Gz z u))) eta = u) /\
  NonDec (map Q2R rk4_alphas) /\
  ls_rejects (length rk4_alphas) (length rk4_betas) (length rk4_gammas) = false /\
  ls_rejects 5 3 3 = true /\ ls_rejects 4 3 4 = true /\
  tableau_rejects (map (@length Q) sil3_a_ex) (map (@length Q) sil3_a_im) (length sil3_b_ex) (length sil3_b_im) = false /\
  tableau_rejects [1; 3]%nat [2; 3]%nat 3 3 = true.
Proof.
  repeat match goal with |- _ /\ _ => split end.
  - intros [a b]. cbn. f_equal; ring.
  - intros c. cbn. f_equal; ring.
  - intros c H. unfold nz in H. apply Bool.negb_false_iff in H. cbn in H. unfold Reqb in H.
    destruct (Req_EM_T c 0); [assumption|discriminate].
  - intros [a b]. cbn. f_equal; ring.
  - intros z u eta He Hx. apply Ginvz_inverse.
    pose proof (Dz_ge_1 z eta He Hx). lra.
  - apply nondec_Q2R, rk4_alphas_nondecreasing.
  - vm_compute. reflexivity.
  - vm_compute. reflexivity.
  - vm_compute. reflexivity.
  - vm_compute. reflexivity.
  - vm_compute. reflexivity.
Qed.

Print Assumptions C06_gen_complete.
Print Assumptions C06_order_euler.
Print Assumptions C06_order_cn_rk2.
Print Assumptions C06_order_cn_rk3.
Print Assumptions C06_order_cn_rk4.
Print Assumptions C06_order_sil3.
Print Assumptions C06_order_decider_sound.
Print Assumptions C06_rk4_near_carpenter_kennedy.
Print Assumptions C06_linear_taylor_series.
Print Assumptions C06_leapfrog_second_order_series.
Print Assumptions C06_imex_is_ark.
Print Assumptions C06_stepfn_is_ark_linear_series_partial.
Print Assumptions C06_reduces_to_explicit.
Print Assumptions C06_reduces_to_implicit.
Print Assumptions C06_A_stable_backward_euler.
Print Assumptions C06_A_stable_cn_lowstorage.
Print Assumptions C06_A_stable_cn_rk2.
Print Assumptions C06_A_stable_leapfrog.
Print Assumptions C06_A_stable_leapfrog_default.
Print Assumptions C06_lengths_validated.
Print Assumptions C06_tableau_validated.
Print Assumptions C06_hyps_satisfiable.
