(** Property C08 - derivatives.  JAX's AD itself is outside the model; what is
    proved is what the derivative of every carrier-generic model function IS
    (evaluation at dual numbers), that it is linear in the tangent, that it
    agrees exactly with central differences for maps of degree <= 2 (error
    h^2*c3 for degree 3), and the adjoint identities <A v, w> = <v, A^T w>.
    Proofs: Thm/Dual.v, Thm/Adjoint.v. *)
From Dino Require Import Base.Ops Base.Sums Base.Inst Base.Ord Model.Dual Model.Sigma Model.Combinators Thm.Dual Thm.Adjoint Thm.Combinators.
From Coq Require Import Qcanon.
Local Open Scope F_scope.

Section C08.
  Context {F : Type} {o : Ops F} {Fc : FieldC o}.

  Theorem C08_dual_ring :
    ring_theory (dconst 0) (dconst 1) (@dadd F o) (@dmul F o) (@dsub F o) (@dopp F o) eq.
  Proof. exact dual_ring. Qed.

  (** every expression of field operations: value at x + eps v = (f x, Df(x).v) *)
  Theorem C08_dual_is_derivative (x v : nat -> F) (e : expr F) :
    eval (o := DualOps) (fun i => dvar (x i) (v i)) (lift e) = mkdual (eval x e) (deriv x v e).
  Proof. exact (dual_eval x v e). Qed.

  Theorem C08_derivative_linear (x v w : nat -> F) (s t : F) (e : expr F) :
    denoms_nz x e ->
    deriv x (fun i => s * v i + t * w i) e = s * deriv x v e + t * deriv x w e.
  Proof. exact (deriv_linear x v w s t e). Qed.

  Theorem C08_central_difference_exact_deg2 (x v : nat -> F) (e : expr F) (h : F) :
    no_div e = true -> (degree e <= 2)%nat -> 1 + 1 <> 0 -> h <> 0 ->
    (eval (fun i => x i + h * v i) e - eval (fun i => x i + (- h) * v i) e) / ((1 + 1) * h)
    = deriv x v e.
  Proof. exact (central_difference_exact_deg2 x v e h). Qed.

  Theorem C08_central_difference_deg3 (x v : nat -> F) (e : expr F) (h : F) :
    no_div e = true -> (degree e <= 3)%nat -> 1 + 1 <> 0 -> h <> 0 ->
    (eval (fun i => x i + h * v i) e - eval (fun i => x i + (- h) * v i) e) / ((1 + 1) * h)
    = deriv x v e + h * h * coef (texp x v e) 3.
  Proof. exact (central_difference_deg3 x v e h). Qed.

  Theorem C08_matvec_adjoint n m (a : nat -> nat -> F) (v w : nat -> F) :
    dot n (matvec m a v) w = dot m v (matvec n (transpose a) w).
  Proof. exact (matvec_adjoint n m a v w). Qed.

  Theorem C08_compose_adjoint n m k (a b : nat -> nat -> F) (v w : nat -> F) :
    dot n (matvec m a (matvec k b v)) w
    = dot k v (matvec m (transpose b) (matvec n (transpose a) w)).
  Proof. exact (compose_adjoint n m k a b v w). Qed.

  Theorem C08_cumsum_adjoint K (x w : nat -> F) :
    dot K (cumsum_dot K x) w = dot K x (revcumsum_dot K w).
  Proof. exact (cumsum_adjoint K x w). Qed.

  Theorem C08_product_jacobian_adjoint n (x y vx vy w : nat -> F) :
    dot n (fun i => x i * vy i + vx i * y i) w
    = dot n vx (fun i => y i * w i) + dot n vy (fun i => x i * w i).
  Proof. exact (product_jacobian_adjoint n x y vx vy w). Qed.

  Theorem C08_linear_jvp_is_self m (a : nat -> nat -> F) (x v : nat -> F) i :
    matvec (o := DualOps) m (fun i j => dconst (a i j)) (fun j => dvar (x j) (v j)) i
    = mkdual (matvec m a x i) (matvec m a v i).
  Proof. exact (linear_jvp_is_self m a x v i). Qed.

  Theorem C08_linear_jvp_vjp n m (a : nat -> nat -> F) (x v w : nat -> F) :
    dot n (fun i => ep (matvec (o := DualOps) m (fun i j => dconst (a i j)) (fun j => dvar (x j) (v j)) i)) w
    = dot m v (matvec n (transpose a) w).
  Proof. exact (linear_jvp_vjp n m a x v w). Qed.

  Theorem C08_advection_jvp K (b w x dw dx : nat -> F) n :
    centered_vertical_advection (o := DualOps) K (fun k => dconst (b k))
        (fun k => dvar (w k) (dw k)) (fun k => dvar (x k) (dx k)) 0 0 0 0 n
    = mkdual (centered_vertical_advection K b w x 0 0 0 0 n)
             (centered_vertical_advection K b dw x 0 0 0 0 n
              + centered_vertical_advection K b w dx 0 0 0 0 n).
  Proof. exact (advection_jvp K b w x dw dx n). Qed.
End C08.

(** Checkpointing / scan nesting: the nested (checkpointed) scan IS the flat scan as a
    function of (init, xs) for every accepted factorisation (C14), so every quantity computed
    from its values - difference quotients, hence derivatives of any order - coincides.
    ([jax.checkpoint] being semantically the identity is part of the trusted base.) *)
Theorem C08_checkpoint_irrelevant {C X Y R : Type} (f : C -> X -> C * Y) length lengths
        (D : (C -> list X -> option (C * list Y)) -> (C * list X) -> R)
        (Dext : forall g1 g2 p, (forall init xs, List.length xs = List.length (snd p) -> g1 init xs = g2 init xs) -> D g1 p = D g2 p)
        init (xs : list X) :
  nested_accepts length (Some (List.length xs)) lengths = true ->
  D (fun i x => nested_checkpoint_scan f i (inr x) length lengths) (init, xs)
  = D (fun i x => Some (scan f i x)) (init, xs).
Proof.
  intros Hacc. apply Dext. intros i x Hlen. cbn in Hlen.
  apply nested_scan_eq_scan. now rewrite Hlen.
Qed.

(** Non-vacuity: a concrete degree-2 expression over Qc (x0*x1 - 3*x0), its
    derivative from dual numbers and the exact central difference with h = 1/2. *)
Example C08_example :
  let e := ESub (EMul (EVar 0) (EVar 1)) (EMul (EConst (Q2Qc 3)) (EVar 0)) in
  let x := fun i : nat => Q2Qc (nth i [2; 5]%Q 0%Q) in
  let v := fun i : nat => Q2Qc (nth i [1; -1#1]%Q 0%Q) in
  no_div e = true /\ (degree e <= 2)%nat /\ deriv x v e = Q2Qc 0 /\
  ep (eval (o := DualOps) (fun i => dvar (x i) (v i)) (lift e)) = Q2Qc 0 /\
  ((eval (fun i => x i + Q2Qc (1#2) * v i) e - eval (fun i => x i + (- Q2Qc (1#2)) * v i) e)
     / ((1 + 1) * Q2Qc (1#2)) = Q2Qc 0).
Proof.
  cbv zeta. repeat split; try reflexivity; try (cbn; lia); apply Qc_is_canon; vm_compute; reflexivity.
Qed.

Print Assumptions C08_dual_ring.
Print Assumptions C08_dual_is_derivative.
Print Assumptions C08_derivative_linear.
Print Assumptions C08_central_difference_exact_deg2.
Print Assumptions C08_central_difference_deg3.
Print Assumptions C08_matvec_adjoint.
Print Assumptions C08_compose_adjoint.
Print Assumptions C08_cumsum_adjoint.
Print Assumptions C08_product_jacobian_adjoint.
Print Assumptions C08_linear_jvp_is_self.
Print Assumptions C08_linear_jvp_vjp.
Print Assumptions C08_advection_jvp.
Print Assumptions C08_checkpoint_irrelevant.
Print Assumptions C08_example.
