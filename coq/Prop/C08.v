(** Property C08 - derivatives.  JAX's AD itself is outside the model; what is
    proved is what the derivative of every carrier-generic model function IS
    (evaluation at dual numbers), that it is linear in the tangent, that it
    agrees exactly with central differences for maps of degree <= 2 (error
    h^2*c3 for degree 3), and the adjoint identities <A v, w> = <v, A^T w>.
    Proofs: Thm/Dual.v, Thm/Adjoint.v. *)
From Dino Require Import Base.Ops Base.Sums Base.Inst Base.Ord Model.Dual Model.Sigma Model.Combinators Thm.Dual Thm.Adjoint Thm.Combinators.
From Dino Require Import Model.Filters Model.PrimEq Model.Implicit Gen.PrimEqSrc Thm.PrimEqSrc.
From Dino Require Gen.DerivExprs Model.SHT Model.Deriv Model.Implicit Model.PrimEq Model.Filters Thm.Deriv.
From Dino Require Import Thm.AdjointOps Thm.AdjointJvp Thm.AdjointLin.
From Coq Require Import Qcanon.
Local Open Scope F_scope.

Section C08.
  Context {F : Type} {o : Ops F} {Fc : FieldC o}.

  Theorem C08_dual_ring :
    ring_theory (dconst 0) (dconst 1) (@dadd F o) (@dmul F o) (@dsub F o) (@dopp F o) eq.
  Proof. exact dual_ring. Qed.

  (** every expression of field operations: value at x + eps v = (f x, Df(x).v) *)
  Theorem C08_dual_is_derivative (x v : nat -> F) (e : expr F) :
    eval (o := DualOps) (fun i => dvar (x i) (v i)) (lift e) = mkdual (eval x e) (deriv x v e).
  Proof. exact (dual_eval x v e). Qed.

  Theorem C08_derivative_linear (x v w : nat -> F) (s t : F) (e : expr F) :
    denoms_nz x e ->
    deriv x (fun i => s * v i + t * w i) e = s * deriv x v e + t * deriv x w e.
  Proof. exact (deriv_linear x v w s t e). Qed.

  Theorem C08_central_difference_exact_deg2 (x v : nat -> F) (e : expr F) (h : F) :
    no_div e = true -> (degree e <= 2)%nat -> 1 + 1 <> 0 -> h <> 0 ->
    (eval (fun i => x i + h * v i) e - eval (fun i => x i + (- h) * v i) e) / ((1 + 1) * h)
    = deriv x v e.
  Proof. exact (central_difference_exact_deg2 x v e h). Qed.

  Theorem C08_central_difference_deg3 (x v : nat -> F) (e : expr F) (h : F) :
    no_div e = true -> (degree e <= 3)%nat -> 1 + 1 <> 0 -> h <> 0 ->
    (eval (fun i => x i + h * v i) e - eval (fun i => x i + (- h) * v i) e) / ((1 + 1) * h)
    = deriv x v e + h * h * coef (texp x v e) 3.
  Proof. exact (central_difference_deg3 x v e h). Qed.

  Theorem C08_matvec_adjoint n m (a : nat -> nat -> F) (v w : nat -> F) :
    dot n (matvec m a v) w = dot m v (matvec n (transpose a) w).
  Proof. exact (matvec_adjoint n m a v w). Qed.

  Theorem C08_compose_adjoint n m k (a b : nat -> nat -> F) (v w : nat -> F) :
    dot n (matvec m a (matvec k b v)) w
    = dot k v (matvec m (transpose b) (matvec n (transpose a) w)).
  Proof. exact (compose_adjoint n m k a b v w). Qed.

  Theorem C08_cumsum_adjoint K (x w : nat -> F) :
    dot K (cumsum_dot K x) w = dot K x (revcumsum_dot K w).
  Proof. exact (cumsum_adjoint K x w). Qed.

  Theorem C08_product_jacobian_adjoint n (x y vx vy w : nat -> F) :
    dot n (fun i => x i * vy i + vx i * y i) w
    = dot n vx (fun i => y i * w i) + dot n vy (fun i => x i * w i).
  Proof. exact (product_jacobian_adjoint n x y vx vy w). Qed.

  Theorem C08_linear_jvp_is_self m (a : nat -> nat -> F) (x v : nat -> F) i :
    matvec (o := DualOps) m (fun i j => dconst (a i j)) (fun j => dvar (x j) (v j)) i
    = mkdual (matvec m a x i) (matvec m a v i).
  Proof. exact (linear_jvp_is_self m a x v i). Qed.

  Theorem C08_linear_jvp_vjp n m (a : nat -> nat -> F) (x v w : nat -> F) :
    dot n (fun i => ep (matvec (o := DualOps) m (fun i j => dconst (a i j)) (fun j => dvar (x j) (v j)) i)) w
    = dot m v (matvec n (transpose a) w).
  Proof. exact (linear_jvp_vjp n m a x v w). Qed.

  Theorem C08_advection_jvp K (b w x dw dx : nat -> F) n :
    centered_vertical_advection (o := DualOps) K (fun k => dconst (b k))
        (fun k => dvar (w k) (dw k)) (fun k => dvar (x k) (dx k)) 0 0 0 0 n
    = mkdual (centered_vertical_advection K b w x 0 0 0 0 n)
             (centered_vertical_advection K b dw x 0 0 0 0 n
              + centered_vertical_advection K b w dx 0 0 0 0 n).
  Proof. exact (advection_jvp K b w x dw dx n). Qed.
End C08.

(** Checkpointing / scan nesting: the nested (checkpointed) scan IS the flat scan as a
    function of (init, xs) for every accepted factorisation (C14), so every quantity computed
    from its values - difference quotients, hence derivatives of any order - coincides.
    ([jax.checkpoint] being semantically the identity is part of the trusted base.) *)
Theorem C08_checkpoint_irrelevant {C X Y R : Type} (f : C -> X -> C * Y) length lengths
        (D : (C -> list X -> option (C * list Y)) -> (C * list X) -> R)
        (Dext : forall g1 g2 p, (forall init xs, List.length xs = List.length (snd p) -> g1 init xs = g2 init xs) -> D g1 p = D g2 p)
        init (xs : list X) :
  nested_accepts length (Some (List.length xs)) lengths = true ->
  D (fun i x => nested_checkpoint_scan f i (inr x) length lengths) (init, xs)
  = D (fun i x => Some (scan f i x)) (init, xs).
Proof.
  intros Hacc. apply Dext. intros i x Hlen. cbn in Hlen.
  apply nested_scan_eq_scan. now rewrite Hlen.
Qed.

(** Non-vacuity: a concrete degree-2 expression over Qc (x0*x1 - 3*x0), its
    derivative from dual numbers and the exact central difference with h = 1/2. *)
Example C08_example :
  let e := ESub (EMul (EVar 0) (EVar 1)) (EMul (EConst (Q2Qc 3)) (EVar 0)) in
  let x := fun i : nat => Q2Qc (nth i [2; 5]%Q 0%Q) in
  let v := fun i : nat => Q2Qc (nth i [1; -1#1]%Q 0%Q) in
  no_div e = true /\ (degree e <= 2)%nat /\ deriv x v e = Q2Qc 0 /\
  ep (eval (o := DualOps) (fun i => dvar (x i) (v i)) (lift e)) = Q2Qc 0 /\
  ((eval (fun i => x i + Q2Qc (1#2) * v i) e - eval (fun i => x i + (- Q2Qc (1#2)) * v i) e)
     / ((1 + 1) * Q2Qc (1#2)) = Q2Qc 0).
Proof.
  cbv zeta. repeat split; try reflexivity; try (cbn; lia); apply Qc_is_canon; vm_compute; reflexivity.
Qed.


(** ** Transposes of the concrete linear operators and forward mode of the concrete nonlinear
    nodal terms (Thm/AdjointOps.v, Thm/AdjointJvp.v, Thm/AdjointLin.v).  All sizes, every carrier. *)
Section C08ops.
  Context {F : Type} {o : Ops F} {Fc : FieldC o}.

  (** *** (a) spherical-harmonic transforms: mutually adjoint up to the quadrature weights,
      for arbitrary tables f, p, w *)
  Theorem C08_synth_analysis_adjoint (K L I J : nat) (f : nat -> nat -> F) (p : nat -> nat -> nat -> F) (w : nat -> F) x z :
    dot2w I J w (SHT.synth K L J f p x) z = dot2 K L x (SHT.analysis K I J f p w z).
  Proof. exact (synth_analysis_adjoint K L I J f p w x z). Qed.

  Theorem C08_synth_adjoint (K L I J : nat) (f : nat -> nat -> F) (p : nat -> nat -> nat -> F) (x z : nat -> nat -> F) :
    dot2 I J (SHT.synth K L J f p x) z = dot2 K L x (synthT I J f p z).
  Proof. exact (synth_adjoint K L I J f p x z). Qed.

  Theorem C08_synthT_is_unweighted_analysis (K L I J : nat) (f : nat -> nat -> F) (p : nat -> nat -> nat -> F) (z : nat -> nat -> F) a l : (a < K)%nat ->
    synthT I J f p z a l = SHT.analysis K I J f p (fun _ => 1) z a l.
  Proof. exact (synthT_is_unweighted_analysis K I J f p z a l). Qed.

  Theorem C08_analysis_adjoint (K L I J : nat) (f : nat -> nat -> F) (p : nat -> nat -> nat -> F) (w : nat -> F) z y :
    dot2 K L (SHT.analysis K I J f p w z) y = dot2 I J z (analysisT K L f p w y).
  Proof. exact (analysis_adjoint K L I J f p w z y). Qed.

  Theorem C08_analysisT_is_weighted_synth (K L J : nat) (f : nat -> nat -> F) (p : nat -> nat -> nat -> F) (w : nat -> F) y i j : (j < J)%nat ->
    analysisT K L f p w y i j = w j * SHT.synth K L J f p y i j.
  Proof. exact (analysisT_is_weighted_synth K L J f p w y i j). Qed.

  Theorem C08_synth_jvp_is_self (K L J : nat) (f : nat -> nat -> F) (p : nat -> nat -> nat -> F) (x v : nat -> nat -> F) i j : (j < J)%nat ->
    SHT.synth (o := DualOps) K L J (fun i a => dconst (f i a)) (fun a j l => dconst (p a j l))
              (fun a l => dvar (x a l) (v a l)) i j
    = mkdual (SHT.synth K L J f p x i j) (SHT.synth K L J f p v i j).
  Proof. exact (synth_jvp_is_self K L J f p x v i j). Qed.

  (** *** (b) spectral derivative operators *)
  Theorem C08_d_dlon_skew (fast : bool) (R : nat) (x y : nat -> nat -> F) l :
    Thm.Deriv.layout_ok fast R ->
    sumn R (fun i => Deriv.d_dlon fast R x i l * y i l) = - sumn R (fun i => x i l * Deriv.d_dlon fast R y i l).
  Proof. exact (d_dlon_skew fast R x y l). Qed.

  Theorem C08_D1_adjoint (L C : nat) (a b x y : nat -> nat -> F) i :
    sumn C (fun l => Deriv.D1 L C a b x i l * y i l) = sumn C (fun l => x i l * D1T L C a b y i l).
  Proof. exact (D1_adjoint L C a b x y i). Qed.

  Theorem C08_D2_adjoint (L C : nat) (a b x y : nat -> nat -> F) i :
    sumn C (fun l => Deriv.D2 L C a b x i l * y i l) = sumn C (fun l => x i l * D2T L C a b y i l).
  Proof. exact (D2_adjoint L C a b x y i). Qed.

  Theorem C08_D1T_is_neg_D2 (L C : nat) (a b y : nat -> nat -> F) i l :
    H_ab_shift C a b -> H_b_trunc L C b -> (l < C)%nat ->
    D1T L C a b y i l = - Deriv.D2 L C a b y i l.
  Proof. exact (D1T_is_neg_D2 L C a b y i l). Qed.

  Theorem C08_diag_self_adjoint (L C n : nat) (r : F) (x y : nat -> nat -> F) i l :
    Deriv.laplacian L r x i l * y i l = x i l * Deriv.laplacian L r y i l /\
    Deriv.inverse_laplacian L r x i l * y i l = x i l * Deriv.inverse_laplacian L r y i l /\
    Deriv.clip L C n x i l * y i l = x i l * Deriv.clip L C n y i l.
  Proof.
    split; [exact (laplacian_self_adjoint L r x y i l)|].
    split; [exact (inverse_laplacian_self_adjoint L r x y i l) | exact (clip_self_adjoint L C n x y i l)].
  Qed.

  Theorem C08_cos_lat_grad_adjoint (fast : bool) (L R C : nat) (r : F) (a b x u v : nat -> nat -> F) :
    Thm.Deriv.layout_ok fast R ->
    dot2 R C (fst (Deriv.cos_lat_grad fast L R C r a b false x)) u
    + dot2 R C (snd (Deriv.cos_lat_grad fast L R C r a b false x)) v
    = dot2 R C x (cos_lat_gradT fast L R C r a b (u, v)).
  Proof. exact (cos_lat_grad_adjoint fast L R C r a b x u v). Qed.

  Theorem C08_grad_div_adjoint (fast : bool) (L R C : nat) (r : F) (a b x u v : nat -> nat -> F) :
    Thm.Deriv.layout_ok fast R -> H_ab_shift C a b -> H_b_trunc L C b ->
    dot2 R C (fst (Deriv.cos_lat_grad fast L R C r a b false x)) u
    + dot2 R C (snd (Deriv.cos_lat_grad fast L R C r a b false x)) v
    = - dot2 R C x (Deriv.div_cos_lat fast L R C r a b false (u, v)).
  Proof. exact (grad_div_adjoint fast L R C r a b x u v). Qed.

  (** *** (c) forward mode of the nodal column algebra of the primitive equations = explicit
      product-rule linearisation.  [dcfg], [dmoist], [dcol]: constants with zero tangent, state
      with tangent; [tracks X x dx]: X has primal part x and tangent dx. *)
  Theorem C08_u_dot_grad_jvp (x dx : @PrimEq.NCol F) :
    tracks (PrimEq.u_dot_grad (dcol x dx)) (PrimEq.u_dot_grad x) (d_u_dot_grad x dx).
  Proof. exact (u_dot_grad_dual x dx). Qed.

  Theorem C08_sigma_dot_jvp c G (g dg : nat -> F) : tracks G g dg ->
    tracks (PrimEq.sigma_dot (dcfg c) G) (PrimEq.sigma_dot c g) (PrimEq.sigma_dot c dg).
  Proof. exact (sigma_dot_dual c G g dg). Qed.

  Theorem C08_vertical_tendency_jvp c W XX (w dw xx dxx : nat -> F) : tracks W w dw -> tracks XX xx dxx ->
    tracks (PrimEq.vertical_tendency (dcfg c) W XX) (PrimEq.vertical_tendency c w xx)
           (d_vertical_tendency c w xx dw dxx).
  Proof. exact (vertical_tendency_dual c W XX w dw xx dxx). Qed.

  Theorem C08_t_omega_jvp c Tf G VG (t dt g dg vg dvg : nat -> F) n :
    thickness (Implicit.cb c) n <> 0 -> tracks Tf t dt -> tracks G g dg -> tracks VG vg dvg ->
    PrimEq.t_omega_over_sigma_sp (dcfg c) Tf G VG n
    = mkdual (PrimEq.t_omega_over_sigma_sp c t g vg n) (d_t_omega c t g vg dt dg dvg n).
  Proof. exact (t_omega_dual c Tf G VG t dt g dg vg dvg n). Qed.

  Theorem C08_temp_adiabatic_jvp c (x dx : @PrimEq.NCol F) n : thickness (Implicit.cb c) n <> 0 ->
    PrimEq.temp_adiabatic (dcfg c) (dcol x dx) n
    = mkdual (PrimEq.temp_adiabatic c x n) (d_temp_adiabatic c x dx n).
  Proof. exact (temp_adiabatic_jvp c x dx n). Qed.

  Theorem C08_temp_vertical_tendency_jvp c va (x dx : @PrimEq.NCol F) n :
    PrimEq.temp_vertical_tendency (dcfg c) va (dcol x dx) n
    = mkdual (PrimEq.temp_vertical_tendency c va x n) (d_temp_vertical_tendency c va x dx n).
  Proof. exact (temp_vertical_tendency_jvp c va x dx n). Qed.

  Theorem C08_kinetic_jvp (x dx : @PrimEq.NCol F) k : 1 + 1 <> 0 ->
    PrimEq.kinetic (dcol x dx) k = mkdual (PrimEq.kinetic x k) (d_kinetic x dx k).
  Proof. exact (kinetic_jvp x dx k). Qed.

  Theorem C08_hsa_jvp (x dx : @PrimEq.NCol F) S (s ds : nat -> F) k : tracks S s ds ->
    PrimEq.hsa_nodal (dcol x dx) S k = mkdual (PrimEq.hsa_nodal x s k) (d_hsa_nodal x dx s ds k) /\
    PrimEq.hsa_mu (dcol x dx) S k = mkdual (PrimEq.hsa_mu x s k) (d_hsa_mu x dx s ds k) /\
    PrimEq.hsa_mv (dcol x dx) S k = mkdual (PrimEq.hsa_mv x s k) (d_hsa_mv x dx s ds k).
  Proof.
    intros H. split; [exact (hsa_nodal_jvp x dx S s ds k H)|].
    split; [exact (hsa_mu_jvp x dx S s ds k H) | exact (hsa_mv_jvp x dx S s ds k H)].
  Qed.

  Theorem C08_rt_jvp c m (x dx : @PrimEq.NCol F) Q QC QI (q dq qc dqc qi dqi : nat -> F) :
    tracks Q q dq -> tracks QC qc dqc -> tracks QI qi dqi ->
    tracks (PrimEq.rt_dry (dcfg c) (dcol x dx)) (PrimEq.rt_dry c x) (d_rt_dry c dx) /\
    tracks (PrimEq.rt_moist (dcfg c) (dmoist m) (dcol x dx) Q) (PrimEq.rt_moist c m x q) (d_rt_moist c m x dx q dq) /\
    tracks (PrimEq.rt_cloud (dcfg c) (dmoist m) (dcol x dx) Q QC QI) (PrimEq.rt_cloud c m x q qc qi)
           (d_rt_cloud c m x dx q qc qi dq dqc dqi).
  Proof.
    intros HQ HC HI. split; [exact (rt_dry_jvp c x dx)|].
    split; [exact (rt_moist_jvp c m x dx Q q dq HQ) | exact (rt_cloud_jvp c m x dx Q QC QI q dq qc dqc qi dqi HQ HC HI)].
  Qed.

  Theorem C08_combined_uv_jvp c va (x dx : @PrimEq.NCol F) RT (rt drt : nat -> F) k : tracks RT rt drt ->
    PrimEq.combined_u (dcfg c) va (dcol x dx) RT k
    = mkdual (PrimEq.combined_u c va x rt k) (d_combined_u c va x dx rt drt k) /\
    PrimEq.combined_v (dcfg c) va (dcol x dx) RT k
    = mkdual (PrimEq.combined_v c va x rt k) (d_combined_v c va x dx rt drt k).
  Proof.
    intros H. split; [exact (combined_u_jvp c va x dx RT rt drt k H) | exact (combined_v_jvp c va x dx RT rt drt k H)].
  Qed.

  (** the "finite for every admissible state" side conditions: layer thickness and
      1 + (Cp_vapor/Cp - 1) q are the denominators that involve the level set / the state *)
  Theorem C08_temp_adiabatic_moist_jvp c m (x dx : @PrimEq.NCol F) Q (q dq : nat -> F) n :
    thickness (Implicit.cb c) n <> 0 -> (forall k, moist_den c m q k <> 0) -> tracks Q q dq ->
    PrimEq.temp_adiabatic_moist (dcfg c) (dmoist m) (dcol x dx) Q n
    = mkdual (PrimEq.temp_adiabatic_moist c m x q n) (d_temp_adiabatic_moist c m x dx q dq n).
  Proof. exact (temp_adiabatic_moist_jvp c m x dx Q q dq n). Qed.

  Theorem C08_humidity_terms_jvp c m (x dx : @PrimEq.NCol F) Q GX GY (q dq gqx dgqx gqy dgqy : nat -> F) lap dlap k :
    tracks Q q dq -> tracks GX gqx dgqx -> tracks GY gqy dgqy ->
    PrimEq.humidity_div_nodal (dcfg c) (dmoist m) (dcol x dx) Q GX GY (mkdual lap dlap) k
    = mkdual (PrimEq.humidity_div_nodal c m x q gqx gqy lap k)
             (d_humidity_div_nodal c m x dx q gqx gqy dq dgqx dgqy lap dlap k) /\
    PrimEq.humidity_curl_nodal (dcfg c) (dmoist m) (dcol x dx) GX GY k
    = mkdual (PrimEq.humidity_curl_nodal c m x gqx gqy k) (d_humidity_curl_nodal c m x dx gqx gqy dgqx dgqy k) /\
    tracks (PrimEq.humidity_temperature_diff (dcfg c) (dmoist m) (dcol x dx) Q)
           (PrimEq.humidity_temperature_diff c m x q) (d_humidity_temperature_diff c m x dx q dq).
  Proof.
    intros HQ HX HY. split; [exact (humidity_div_nodal_jvp c m x dx Q GX GY q dq gqx dgqx gqy dgqy lap dlap k HQ HX HY)|].
    split; [exact (humidity_curl_nodal_jvp c m x dx GX GY gqx dgqx gqy dgqy k HX HY)
           | exact (humidity_temperature_diff_jvp c m x dx Q q dq HQ)].
  Qed.

  Theorem C08_temp_nodal_total_jvp c va (x dx : @PrimEq.NCol F) n : thickness (Implicit.cb c) n <> 0 ->
    PrimEq.temp_nodal_total (dcfg c) va (dcol x dx) n
    = mkdual (PrimEq.temp_nodal_total c va x n)
             (d_hsa_nodal x dx (PrimEq.n_temp x) (PrimEq.n_temp dx) n + d_temp_vertical_tendency c va x dx n
              + d_temp_adiabatic c x dx n).
  Proof. exact (temp_nodal_total_jvp c va x dx n). Qed.

  Theorem C08_log_pressure_tendency_jvp c (x dx : @PrimEq.NCol F) :
    PrimEq.log_pressure_tendency (dcfg c) (dcol x dx)
    = mkdual (PrimEq.log_pressure_tendency c x)
             (- sigma_integral (Implicit.cK c) (Implicit.cb c) (d_u_dot_grad x dx)).
  Proof. exact (log_pressure_tendency_jvp c x dx). Qed.

  (** *** (d) filters: linear and diagonal in the state *)
  Theorem C08_filter_jvp_is_self (sc x dx : @Filters.arr F) idx : fst dx = fst x ->
    fst (Filters.rescale (carr sc) (darr x dx)) = fst (Filters.rescale sc x) /\
    snd (Filters.rescale (carr sc) (darr x dx)) idx
    = mkdual (snd (Filters.rescale sc x) idx) (snd (Filters.rescale sc dx) idx).
  Proof. exact (rescale_jvp_is_self sc x dx idx). Qed.

  Theorem C08_filter_self_adjoint (sc x y : @Filters.arr F) idx : fst y = fst x ->
    snd (Filters.rescale sc x) idx * snd y idx = snd x idx * snd (Filters.rescale sc y) idx.
  Proof. exact (rescale_self_adjoint sc x y idx). Qed.
End C08ops.

(** Non-vacuity of the hypotheses of this part, over Qc: recurrence tables with a[., l+1] = b[., l]
    (and a concrete entry where D1^T = -D2 is evaluated), an uneven two-layer level set with
    non-zero thicknesses, a humidity column with non-zero moist denominators, and the moist
    adiabatic term evaluated at dual numbers on that instance with a non-zero tangent. *)
Example C08_ops_example :
  let a := fun (_ l : nat) => Q2Qc (nth l [0; 1#2; 1#3]%Q 0%Q) in
  let b := fun (_ l : nat) => Q2Qc (nth l [1#2; 1#3; 0]%Q 0%Q) in
  let y := fun (i l : nat) => Q2Qc (nth l [2; -3#1; 5]%Q 0%Q) in
  let c := @Implicit.mkPE Qc 2 (Q2Qc 287) (Q2Qc (2#7)) (fun k => Q2Qc (nth k [-2#1; -1#4]%Q 0%Q))
                          (fun k => Q2Qc (nth k [0; 1#4; 1]%Q 0%Q)) (fun k => Q2Qc (nth k [250; 260]%Q 0%Q)) in
  let m := @PrimEq.mkMoist Qc (Q2Qc 461) (Q2Qc 1860) in
  let col := fun s : Q => @PrimEq.mkNCol Qc (fun k => Q2Qc (s * (1 + inject_Z (Z.of_nat k)))) (fun _ => Q2Qc (s * 2))
                 (fun _ => Q2Qc s) (fun k => Q2Qc (s * (3 - inject_Z (Z.of_nat k)))) (fun _ => Q2Qc (5 * s))
                 (Q2Qc (s / 2)) (Q2Qc (s / 3)) (Q2Qc 2) (Q2Qc (1#10)) in
  let q := fun k : nat => Q2Qc (nth k [1#100; 1#50]%Q 0%Q) in
  let dq := fun k : nat => Q2Qc (nth k [1; -1#2]%Q 0%Q) in
  H_ab_shift 3 a b /\ H_b_trunc 3 3 b /\ Thm.Deriv.layout_ok false 3 /\
  D1T 3 3 a b y 1%nat 1%nat = - Deriv.D2 3 3 a b y 1%nat 1%nat /\ D1T 3 3 a b y 1%nat 1%nat <> 0 /\
  (forall n, (n < 2)%nat -> thickness (Implicit.cb c) n <> 0) /\ (forall k, moist_den c m q k <> 0) /\
  ep (PrimEq.temp_adiabatic_moist (dcfg c) (dmoist m) (dcol (col 1) (col (1#2))) (fun k => mkdual (q k) (dq k)) 1%nat)
  = d_temp_adiabatic_moist c m (col 1) (col (1#2)) q dq 1%nat /\
  d_temp_adiabatic_moist c m (col 1) (col (1#2)) q dq 1%nat <> 0.
Proof.
  cbv zeta.
  split; [intros i l H; destruct l as [|[|l]]; [reflexivity|reflexivity|lia]|].
  split; [intros i l H1 H2; lia|].
  split; [reflexivity|].
  split; [apply Qc_is_canon; vm_compute; reflexivity|].
  split; [intro H; vm_compute in H; discriminate H|].
  split; [intros n Hn; destruct n as [|[|n]]; [| |lia]; intro H; vm_compute in H; discriminate H|].
  split; [intros k; destruct k as [|[|[|k]]]; intro H; vm_compute in H; discriminate H|].
  split; [apply Qc_is_canon; vm_compute; reflexivity|].
  intro H; vm_compute in H; discriminate H.
Qed.

(** ** Tie to the source by translation: the nodal column algebra of Model/PrimEq.v that this property reasons about
    is the code of dinosaur/primitive_equations.py (transcribed from the AST on every run by tools/translate/gen_primeq.py). *)
Theorem C08_model_is_source {F : Type} {o : Ops F} {Fc : FieldC o} (c : @PEcfg F) (m : @Moist F)
    (inc_va : bool) (x : @NCol F) (Tf g vg s q qc qi rt : nat -> F) (k : nat) :
  u_dot_grad x k = u_dot_grad_src x k /\
  t_omega_over_sigma_sp c Tf g vg k = t_omega_over_sigma_sp_src c Tf g vg k /\
  combined_u c inc_va x (rt_dry c x) k = combined_u_src c inc_va x k /\
  combined_v c inc_va x (rt_dry c x) k = combined_v_src c inc_va x k /\
  kinetic x k = kinetic_src x k /\
  temp_vertical_tendency c inc_va x k = temp_vertical_tendency_src c inc_va x k /\
  hsa_nodal x s k = hsa_nodal_src x s k /\
  hsa_mu x s k = hsa_u_src x s k * n_sec2 x /\
  hsa_mv x s k = hsa_v_src x s k * n_sec2 x /\
  temp_adiabatic c x k = temp_adiabatic_src c x k /\
  log_pressure_tendency c x = log_pressure_tendency_src c x /\
  moisture_contribution c m q k = moisture_contribution_src c m q k /\
  rt_moist c m x q k = rt_moist_src c x (moisture_contribution c m q) k /\
  rt_cloud c m x q qc qi k = rt_cloud_src c x (moisture_contribution c m q) qc qi k /\
  combined_u c inc_va x rt k = combined_u_moist_src c inc_va x q rt k /\
  combined_v c inc_va x rt k = combined_v_moist_src c inc_va x q rt k /\
  temp_adiabatic_moist c m x q k = temp_adiabatic_moist_src c m x q k.
Proof. exact (primeq_model_is_source c m inc_va x Tf g vg s q qc qi rt k). Qed.

Print Assumptions C08_dual_ring.
Print Assumptions C08_dual_is_derivative.
Print Assumptions C08_derivative_linear.
Print Assumptions C08_central_difference_exact_deg2.
Print Assumptions C08_central_difference_deg3.
Print Assumptions C08_matvec_adjoint.
Print Assumptions C08_compose_adjoint.
Print Assumptions C08_cumsum_adjoint.
Print Assumptions C08_product_jacobian_adjoint.
Print Assumptions C08_linear_jvp_is_self.
Print Assumptions C08_linear_jvp_vjp.
Print Assumptions C08_advection_jvp.
Print Assumptions C08_checkpoint_irrelevant.
Print Assumptions C08_example.
Print Assumptions C08_synth_analysis_adjoint.
Print Assumptions C08_synth_adjoint.
Print Assumptions C08_synthT_is_unweighted_analysis.
Print Assumptions C08_analysis_adjoint.
Print Assumptions C08_analysisT_is_weighted_synth.
Print Assumptions C08_synth_jvp_is_self.
Print Assumptions C08_d_dlon_skew.
Print Assumptions C08_D1_adjoint.
Print Assumptions C08_D2_adjoint.
Print Assumptions C08_D1T_is_neg_D2.
Print Assumptions C08_diag_self_adjoint.
Print Assumptions C08_cos_lat_grad_adjoint.
Print Assumptions C08_grad_div_adjoint.
Print Assumptions C08_u_dot_grad_jvp.
Print Assumptions C08_sigma_dot_jvp.
Print Assumptions C08_vertical_tendency_jvp.
Print Assumptions C08_t_omega_jvp.
Print Assumptions C08_temp_adiabatic_jvp.
Print Assumptions C08_temp_vertical_tendency_jvp.
Print Assumptions C08_kinetic_jvp.
Print Assumptions C08_hsa_jvp.
Print Assumptions C08_rt_jvp.
Print Assumptions C08_combined_uv_jvp.
Print Assumptions C08_temp_adiabatic_moist_jvp.
Print Assumptions C08_humidity_terms_jvp.
Print Assumptions C08_temp_nodal_total_jvp.
Print Assumptions C08_log_pressure_tendency_jvp.
Print Assumptions C08_filter_jvp_is_self.
Print Assumptions C08_filter_self_adjoint.
Print Assumptions C08_ops_example.
Print Assumptions C08_model_is_source.
