(** Property C13 - vertical (sigma) calculus.  Statements only; proofs are in
    Thm/Sigma.v.  Every theorem is for an arbitrary field [F] (hence the
    reals), an arbitrary number of layers [K] and arbitrary boundaries. *)
From Dino Require Import Base.Ops Base.Sums Base.Inst Base.Ord Model.Sigma Thm.Sigma.
From Dino Require Import Model.ArrDSL Gen.SigmaSrc Thm.SigmaSrc.
From Coq Require Import Reals Qcanon Lra.
Local Open Scope F_scope.

Section C13.
  Context {F : Type} {o : Ops F} {Fc : FieldC o}.
  Hypothesis two_nz : two <> 0.

  (** cumulative integrals end at the total integral (both strategies, both directions) *)
  Theorem C13_cumint_last_is_total (dot : bool) K (b x : nat -> F) :
    (0 < K)%nat ->
    cum_sigma_integral dot true K b x (K - 1) = sigma_integral K b x /\
    cum_sigma_integral dot false K b x 0 = sigma_integral K b x.
  Proof. exact (cumint_last_is_total dot K b x). Qed.

  (** downward + upward = total + local layer contribution, any mix of strategies *)
  Theorem C13_down_plus_up (d1 d2 : bool) K (b x : nat -> F) j :
    (j < K)%nat ->
    cum_sigma_integral d1 true K b x j + cum_sigma_integral d2 false K b x j
    = sigma_integral K b x + x j * thickness b j.
  Proof. exact (down_plus_up d1 d2 K b x j). Qed.

  (** matmul-with-mask cumsum = sequential cumsum, forward and reverse *)
  Theorem C13_cumsum_methods_agree K (x : nat -> F) j (d1 d2 : bool) :
    (j < K)%nat ->
    cumsum_m d1 K x j = cumsum_m d2 K x j /\ revcumsum_m d1 K x j = revcumsum_m d2 K x j.
  Proof. exact (cumsum_methods_agree K x j d1 d2). Qed.

  Theorem C13_centered_difference_affine (b x : nat -> F) (a c : F) k :
    c2c b k <> 0 ->
    x k = a * centers b k + c -> x (S k) = a * centers b (S k) + c ->
    centered_difference b x k = a.
  Proof. exact (centered_difference_affine b x a c k). Qed.

  (** summation by parts: thickness-weighted column sum of advection equals
      the column sum of x times the velocity convergence (zero boundary velocity) *)
  Theorem C13_advection_sbp K (b w x : nat -> F) (dt db : F) :
    (0 < K)%nat ->
    (forall k, (S k < K)%nat -> c2c b k <> 0) ->
    sumn K (fun n => thickness b n * centered_vertical_advection K b w x 0 0 dt db n)
    = sumn K (fun n => x n * (pad_tb K 0 0 w (S n) - pad_tb K 0 0 w n)).
  Proof. exact (advection_sbp two_nz K b w x dt db). Qed.

  Theorem C13_geopotential_is_trapezoid (dot : bool) K R (ls T : nat -> F) j :
    (j < K)%nat ->
    geo_diff_dense K R ls T j = R * cum_log_sigma_integral dot false K ls T j.
  Proof. exact (geopotential_is_trapezoid two_nz dot K R ls T j). Qed.

  Theorem C13_geo_sparse_eq_dense K R (ls T : nat -> F) j :
    (j < K)%nat -> geo_diff_sparse K R ls T j = geo_diff_dense K R ls T j.
  Proof. exact (geo_sparse_eq_dense K R ls T j). Qed.

  Theorem C13_rejects_bad_levels tol0 tol1 K (b : nat -> F) :
    sigma_accepts tol0 tol1 K b = true <->
    (fleb (fabs (b 0%nat)) tol0 = true /\ fleb (fabs (b K - 1)) tol1 = true /\
     forall k, (k < K)%nat -> fleb (b (S k)) (b k) = false).
  Proof. exact (rejects_bad_levels tol0 tol1 K b). Qed.
End C13.

(** Over the reals: a level set is accepted iff the end points are within the
    [isclose] tolerances of 0 and 1 and every difference is strictly positive. *)
Theorem C13_rejects_bad_levels_R (tol0 tol1 : R) K (b : nat -> R) :
  sigma_accepts tol0 tol1 K b = true <->
  ((Rabs (b 0%nat) <= tol0)%R /\ (Rabs (b K - 1) <= tol1)%R /\
   forall k, (k < K)%nat -> (b k < b (S k))%R).
Proof.
  rewrite rejects_bad_levels.
  assert (A : forall x : R, @fabs R ROps x = Rabs x).
  { intros x. unfold fabs; cbn. unfold Rleb. destruct (Rle_dec 0 x).
    - now rewrite Rabs_right by lra.
    - rewrite Rabs_left by lra. reflexivity. }
  rewrite !A. cbn. rewrite !Rleb_true.
  split; intros (H1 & H2 & H3); repeat split; auto; intros k Hk; apply Rleb_false; auto.
Qed.

(** Non-vacuity: the hypotheses are met by a concrete uneven 3-layer level set over Qc. *)
Example C13_hyps_satisfiable :
  let b := fun k : nat => Q2Qc (nth k [0; 1#4; 3#4; 1]%Q 0%Q) in
  (@two Qc QcOps <> 0) /\ (forall k, (S k < 3)%nat -> c2c b k <> 0) /\
  sigma_accepts (Q2Qc (1#100000000)) (Q2Qc (1#100000)) 3 b = true.
Proof.
  cbv zeta. split; [|split].
  - intro H. discriminate H.
  - intros k Hk. destruct k as [|[|k]]; [| |lia]; intro H; vm_compute in H; discriminate H.
  - vm_compute. reflexivity.
Qed.

(** The model is the source: every array program of dinosaur/sigma_coordinates.py along the
    vertical axis, transcribed from the AST on every run (Gen/SigmaSrc.v, tools/translate/gen_sigma.py)
    into the array DSL of Model/ArrDSL.v, has the lengths and the entries of the hand-written
    Model/Sigma.v, for every layer count, boundaries, column, velocities, cumsum method, direction
    and default / explicit boundary values.  [ls] is the table log(centers).
    (The two validity tests of __init__ need the order axioms: see C13_init_is_source.) *)
Theorem C13_model_is_source {F : Type} {o : Ops F} {Fc : FieldC o}
    (K : nat) (bf xf wf ls : nat -> F) (flog : F -> F) (dot downward : bool) (wbv dbv : option (F * F)) (y : arr F) :
  let b : arr F := (S K, bf) in let x : arr F := (K, xf) in let w : arr F := ((K - 1)%nat, wf) in
  (0 < K)%nat -> (forall k, (k < K)%nat -> flog (centers bf k) = ls k) ->
  (fst (internal_boundaries_src b) = (K - 1)%nat /\
   forall k, (k < K - 1)%nat -> snd (internal_boundaries_src b) k = bf (S k)) /\
  (fst (centers_src b) = K /\ forall k, (k < K)%nat -> snd (centers_src b) k = centers bf k) /\
  (fst (layer_thickness_src b) = K /\ forall k, (k < K)%nat -> snd (layer_thickness_src b) k = thickness bf k) /\
  (fst (center_to_center_src b) = (K - 1)%nat /\
   forall k, (k < K - 1)%nat -> snd (center_to_center_src b) k = c2c bf k) /\
  layers_src b = K /\
  (centered_difference_accepts_src y b = Nat.eqb K (fst y) /\
   cumulative_sigma_integral_accepts_src y b = Nat.eqb K (fst y) /\
   sigma_integral_accepts_src y b = Nat.eqb K (fst y) /\
   cumulative_log_sigma_integral_accepts_src y b = Nat.eqb K (fst y)) /\
  (fst (centered_difference_src x b) = (K - 1)%nat /\
   forall k, (k < K - 1)%nat -> snd (centered_difference_src x b) k = centered_difference bf xf k) /\
  (fst (cumulative_sigma_integral_src dot downward x b) = K /\
   forall j, (j < K)%nat ->
     snd (cumulative_sigma_integral_src dot downward x b) j = cum_sigma_integral dot downward K bf xf j) /\
  sigma_integral_src x b = sigma_integral K bf xf /\
  (fst (centered_vertical_advection_src w x b wbv dbv) = K /\
   forall n, (n < K)%nat ->
     snd (centered_vertical_advection_src w x b wbv dbv) n
     = centered_vertical_advection K bf wf xf (fst (bv_or wbv (0, 0))) (snd (bv_or wbv (0, 0)))
                                   (fst (bv_or dbv (0, 0))) (snd (bv_or dbv (0, 0))) n) /\
  (fst (cumulative_log_sigma_integral_src flog dot downward x b) = K /\
   forall j, (j < K)%nat ->
     snd (cumulative_log_sigma_integral_src flog dot downward x b) j
     = cum_log_sigma_integral dot downward K ls xf j) /\
  (fst (upwind_vertical_advection_src w x b) = K /\
   forall n, (n < K)%nat ->
     snd (upwind_vertical_advection_src w x b) n = upwind_vertical_advection K bf wf xf n).
Proof.
  intros b x w HK Hls.
  split; [exact (internal_boundaries_matches K bf)|].
  split; [exact (centers_matches K bf)|].
  split; [exact (layer_thickness_matches K bf)|].
  split; [exact (center_to_center_matches K bf)|].
  split; [exact (layers_matches K bf)|].
  split; [exact (guards_match K bf y)|].
  split; [exact (centered_difference_matches K bf xf)|].
  split; [exact (cumulative_sigma_integral_matches K bf xf dot downward)|].
  split; [exact (sigma_integral_matches K bf xf)|].
  split; [exact (centered_vertical_advection_matches K bf xf wf wbv dbv HK)|].
  split; [exact (cumulative_log_sigma_integral_matches K bf xf flog ls dot downward Hls)|].
  exact (upwind_vertical_advection_matches K bf xf wf HK).
Qed.

(** the two validity tests of SigmaCoordinates.__init__, transcribed over an abstract [isclose]
    whose uses with targets 0 and 1 are the tolerance tests, are the acceptance predicate of the model *)
Theorem C13_init_is_source {F : Type} {o : Ops F} {Oc : OrdFieldC o}
    (isclose : F -> F -> bool) (tol0 tol1 : F) K (bf : nat -> F) :
  (forall a, isclose a 0 = fleb (fabs a) tol0) ->
  (forall a, isclose a 1 = fleb (fabs (a - 1)) tol1) ->
  init_accepts_src isclose (S K, bf) = sigma_accepts tol0 tol1 K bf.
Proof. exact (init_accepts_matches isclose tol0 tol1 K bf). Qed.

(** the translator understood every statement it is meant to transcribe (fail closed) *)
Theorem C13_gen_sigma_complete : gen_sigma_ok = true.
Proof. reflexivity. Qed.

Print Assumptions C13_cumint_last_is_total.
Print Assumptions C13_down_plus_up.
Print Assumptions C13_cumsum_methods_agree.
Print Assumptions C13_centered_difference_affine.
Print Assumptions C13_advection_sbp.
Print Assumptions C13_geopotential_is_trapezoid.
Print Assumptions C13_geo_sparse_eq_dense.
Print Assumptions C13_rejects_bad_levels.
Print Assumptions C13_rejects_bad_levels_R.
Print Assumptions C13_hyps_satisfiable.
Print Assumptions C13_model_is_source.
Print Assumptions C13_gen_sigma_complete.
Print Assumptions C13_init_is_source.
