(** Model of the persistence layer of dinosaur/xarray_utils.py:
    - [_infer_dims_shape_and_coords] and the lookup in [data_to_xarray]: the
      shape -> dimension-names table of a coordinate system, built in the order
      of the code, with its overwrites and its two collision errors;
    - [Grid.asdict], [SigmaCoordinates/LayerCoordinates/PressureCoordinates.asdict],
      [CoordinateSystem.asdict] and [coordinate_system_from_attrs]: record <->
      association list through the class registry.
    Definitions only (proofs: Thm/Attrs.v).

    Shapes and dimension-name tuples are integer lists ([Trees.str]); the
    shape-keyed dictionaries are the insertion-ordered [dset]/[dget] of
    Model/Trees.v.  Dimension names are tokens. *)
From Coq Require Import ZArith List Bool.
Import ListNotations.
From Dino Require Import Base.Ops Base.Ord Model.Trees Model.Sigma.
Local Open Scope Z_scope.

(** * shape -> dims *)
(** documented dimension names *)
Definition d_level : Z := 1.
Definition d_lon : Z := 2.
Definition d_lat : Z := 3.
Definition d_lon_mode : Z := 4.
Definition d_lat_mode : Z := 5.
Definition d_time : Z := 6.
Definition d_sample : Z := 7.
Definition d_realization : Z := 8.
Definition d_surface : Z := 9.

Definition NODAL : list Z := [d_lon; d_lat].
Definition MODAL : list Z := [d_lon_mode; d_lat_mode].

Definition shape := list Z.
Definition table := list (shape * list Z).

(** [_maybe_update_shape_and_dim_with_realization_time_sample]; [times] and
    [samples] are the lengths of the 1-d coordinate vectors when given *)
Definition update_shape_dims (times samples : option Z) (include_realization : bool)
           (sd : shape * list Z) : shape * list Z :=
  let '(sh, dims) := sd in
  let not_scalar := nonempty sh in
  let '(sh, dims) := match times with Some t => (t :: sh, d_time :: dims) | None => (sh, dims) end in
  let '(sh, dims) := match samples with Some s => (s :: sh, d_sample :: dims) | None => (sh, dims) end in
  if not_scalar && include_realization then (1 :: sh, d_realization :: dims) else (sh, dims).

(** the loop over [additional_coords] (name token, value.shape); [None] = ValueError *)
Fixpoint add_coords (K : Z) (modal nodal : shape) (addl : list (Z * shape)) (t : table) : option table :=
  match addl with
  | [] => Some t
  | (dim, vshape) :: r =>
      if Z.eqb dim d_realization then add_coords K modal nodal r t
      else if negb (Nat.eqb (length vshape) 1) then None
      else if str_eqb vshape [K] then None
      else
        let t := dset (vshape ++ modal) (dim :: MODAL) t in
        let t := dset (vshape ++ nodal) (dim :: NODAL) t in
        let t := dset vshape [dim] t in
        add_coords K modal nodal r t
  end.

(** [basic_shape_to_dims] in the insertion order of the code *)
Definition basic_table (K : Z) (modal nodal : shape) (addl : list (Z * shape)) : option table :=
  let t := dset [] [] [] in
  let t := dset (K :: modal) (d_level :: MODAL) t in
  let t := dset (K :: nodal) (d_level :: NODAL) t in
  let t := dset nodal NODAL t in
  let t := dset modal MODAL t in
  let t := dset (1 :: nodal) NODAL t in          (* coords.surface_nodal_shape *)
  add_coords K modal nodal addl t.

Definition has_name (n : Z) (addl : list (Z * shape)) : bool := existsb (fun c => Z.eqb (fst c) n) addl.

(** [_infer_dims_shape_and_coords(...)[1]] *)
Definition shape_to_dims (K : Z) (modal nodal : shape) (times samples : option Z)
           (addl : list (Z * shape)) : option table :=
  match basic_table K modal nodal addl with
  | None => None
  | Some basic =>
      Some (dict_of (map (update_shape_dims times samples (has_name d_realization addl)) basic))
  end.

(** [data_to_xarray]: the default [surface] coordinate, then the table; a
    user-supplied dictionary keeps its order and [surface] is appended *)
Definition with_surface (K : Z) (addl : list (Z * shape)) : list (Z * shape) :=
  if negb (Z.eqb K 1) && negb (has_name d_surface addl) then addl ++ [(d_surface, [1])] else addl.
Definition xarray_table (K : Z) (modal nodal : shape) (times samples : option Z)
           (addl : list (Z * shape)) : option table :=
  shape_to_dims K modal nodal times samples (with_surface K addl).
(** dims assigned to a value of shape [sh]: outer [None] = the table could not be
    built, inner [None] = "Value of shape ... is not recognized" *)
Definition dims_of (K : Z) (modal nodal : shape) (times samples : option Z)
           (addl : list (Z * shape)) (sh : shape) : option (option (list Z)) :=
  match xarray_table K modal nodal times samples addl with
  | None => None
  | Some t => Some (dget sh t)
  end.

(** admissible coordinate systems: more than one layer... precisely: the number
    of layers is not 1 and the nodal and modal horizontal shapes differ *)
Definition admissible (K : Z) (modal nodal : shape) : bool :=
  negb (Z.eqb K 1) && negb (str_eqb nodal modal) &&
  Nat.eqb (length modal) 2 && Nat.eqb (length nodal) 2.

(** * attrs *)
(** attribute keys and class names are character-code lists; their spelling is
    certified in Thm/Attrs.v ([keys_spelled]) *)

Section Attrs.
  Context {F : Type} {o : Ops F}.
  (** np.isclose tolerances of SigmaCoordinates.__init__ (see Model/Sigma.v) *)
  Variables tol0 tol1 : F.

  Inductive aval : Type :=
  | AInt (z : Z) | AStr (x : str) | ANum (x : F) | AList (l : list F).
  Definition attrs := list (str * aval).

  (** [spherical_harmonic.Grid] after [__post_init__] (radius is never None);
      [mesh] is what asdict records of the mesh: its rendered shape string *)
  Record grid : Type := mkGrid {
    g_lw : Z; g_tw : Z; g_lon_nodes : Z; g_lat_nodes : Z;
    g_spacing : str; g_offset : F; g_radius : F;
    g_impl : str; g_mesh : option str }.

  Inductive vertical : Type :=
  | VSigma (boundaries : list F)
  | VLayer (layers : Z)
  | VPressure (centers : list F).

  Definition k_lw : str := [108; 111; 110; 103; 105; 116; 117; 100; 101; 95; 119; 97; 118; 101; 110; 117; 109; 98; 101; 114; 115]. (* "longitude_wavenumbers" *)
  Definition k_tw : str := [116; 111; 116; 97; 108; 95; 119; 97; 118; 101; 110; 117; 109; 98; 101; 114; 115]. (* "total_wavenumbers" *)
  Definition k_lon_nodes : str := [108; 111; 110; 103; 105; 116; 117; 100; 101; 95; 110; 111; 100; 101; 115]. (* "longitude_nodes" *)
  Definition k_lat_nodes : str := [108; 97; 116; 105; 116; 117; 100; 101; 95; 110; 111; 100; 101; 115]. (* "latitude_nodes" *)
  Definition k_spacing : str := [108; 97; 116; 105; 116; 117; 100; 101; 95; 115; 112; 97; 99; 105; 110; 103]. (* "latitude_spacing" *)
  Definition k_offset : str := [108; 111; 110; 103; 105; 116; 117; 100; 101; 95; 111; 102; 102; 115; 101; 116]. (* "longitude_offset" *)
  Definition k_radius : str := [114; 97; 100; 105; 117; 115]. (* "radius" *)
  Definition k_impl : str := [115; 112; 104; 101; 114; 105; 99; 97; 108; 95; 104; 97; 114; 109; 111; 110; 105; 99; 115; 95; 105; 109; 112; 108]. (* "spherical_harmonics_impl" *)
  Definition k_mesh : str := [115; 112; 109; 100; 95; 109; 101; 115; 104]. (* "spmd_mesh" *)
  Definition k_htype : str := [104; 111; 114; 105; 122; 111; 110; 116; 97; 108; 95; 103; 114; 105; 100; 95; 116; 121; 112; 101]. (* "horizontal_grid_type" *)
  Definition k_vtype : str := [118; 101; 114; 116; 105; 99; 97; 108; 95; 103; 114; 105; 100; 95; 116; 121; 112; 101]. (* "vertical_grid_type" *)
  Definition k_boundaries : str := [98; 111; 117; 110; 100; 97; 114; 105; 101; 115]. (* "boundaries" *)
  Definition k_layers : str := [108; 97; 121; 101; 114; 115]. (* "layers" *)
  Definition k_centers : str := [99; 101; 110; 116; 101; 114; 115]. (* "centers" *)
  Definition n_grid : str := [71; 114; 105; 100]. (* "Grid" *)
  Definition n_sigma : str := [83; 105; 103; 109; 97; 67; 111; 111; 114; 100; 105; 110; 97; 116; 101; 115]. (* "SigmaCoordinates" *)
  Definition n_layer : str := [76; 97; 121; 101; 114; 67; 111; 111; 114; 100; 105; 110; 97; 116; 101; 115]. (* "LayerCoordinates" *)
  Definition n_pressure : str := [80; 114; 101; 115; 115; 117; 114; 101; 67; 111; 111; 114; 100; 105; 110; 97; 116; 101; 115]. (* "PressureCoordinates" *)
  Definition default_impl : str := [82; 101; 97; 108; 83; 112; 104; 101; 114; 105; 99; 97; 108; 72; 97; 114; 109; 111; 110; 105; 99; 115]. (* "RealSphericalHarmonics" *)
  Definition spacings : list str :=
    [[103; 97; 117; 115; 115] (* "gauss" *);
     [101; 113; 117; 105; 97; 110; 103; 117; 108; 97; 114] (* "equiangular" *);
     [101; 113; 117; 105; 97; 110; 103; 117; 108; 97; 114; 95; 119; 105; 116; 104; 95; 112; 111; 108; 101; 115] (* "equiangular_with_poles" *)].

  (** [Grid.asdict]: dataclasses.asdict in field order, then the two overwrites *)
  Definition grid_asdict (g : grid) : attrs :=
    let items := [ (k_lw, AInt (g_lw g)); (k_tw, AInt (g_tw g)); (k_lon_nodes, AInt (g_lon_nodes g));
                   (k_lat_nodes, AInt (g_lat_nodes g)); (k_spacing, AStr (g_spacing g));
                   (k_offset, ANum (g_offset g)); (k_radius, ANum (g_radius g));
                   (k_impl, AStr []); (k_mesh, AStr []) ] in
    let items := dset k_impl (AStr (g_impl g)) items in
    dset k_mesh (AStr (match g_mesh g with Some m => m | None => [] end)) items.

  Definition vertical_asdict (v : vertical) : attrs :=
    match v with
    | VSigma b => [(k_boundaries, AList b)]
    | VLayer n => [(k_layers, AInt n)]
    | VPressure c => [(k_centers, AList c)]
    end.
  Definition vertical_name (v : vertical) : str :=
    match v with VSigma _ => n_sigma | VLayer _ => n_layer | VPressure _ => n_pressure end.

  (** [CoordinateSystem.asdict] ([None] = "keys ... collide") *)
  Definition cs_asdict (g : grid) (v : vertical) : option attrs :=
    let h := grid_asdict g in
    let vd := vertical_asdict v in
    if existsb (fun kv => dmem (fst kv) vd) h then None
    else
      let out := dmerge h vd in
      let out := dset k_htype (AStr n_grid) out in
      Some (dset k_vtype (AStr (vertical_name v)) out).

  (** constructor validation *)
  Fixpoint increasing (l : list F) : bool :=
    match l with
    | x :: ((y :: _) as r) => fltb x y && increasing r
    | _ => true
    end.
  Definition vertical_ok (v : vertical) : bool :=
    match v with
    | VSigma b => sigma_accepts tol0 tol1 (length b - 1) (fun k => nth k b f0)
    | VLayer _ => true
    | VPressure c => increasing c
    end.
  Definition grid_ok (g : grid) : bool := existsb (str_eqb (g_spacing g)) spacings.

  Definition get_int (k : str) (a : attrs) : option Z :=
    match dget k a with Some (AInt z) => Some z | _ => None end.
  Definition get_str (k : str) (a : attrs) : option str :=
    match dget k a with Some (AStr x) => Some x | _ => None end.
  Definition get_num (k : str) (a : attrs) : option F :=
    match dget k a with Some (ANum x) => Some x | _ => None end.
  Definition get_list (k : str) (a : attrs) : option (list F) :=
    match dget k a with Some (AList l) => Some l | _ => None end.

  (** [coordinate_system_from_attrs]: only the registry class 'Grid' is a
      horizontal grid; every dataclass field must be present (KeyError), the
      implementation class and the mesh are read and dropped; the constructors
      validate.  Result: the grid and the optional vertical. *)
  Definition from_attrs (a : attrs) : option (grid * option vertical) :=
    match get_str k_htype a with
    | None => None
    | Some hn =>
        if negb (str_eqb hn n_grid) then None else
        match get_int k_lw a, get_int k_tw a, get_int k_lon_nodes a, get_int k_lat_nodes a,
              get_str k_spacing a, get_num k_offset a, get_num k_radius a,
              dget k_impl a, dget k_mesh a with
        | Some lw, Some tw, Some ln, Some lt, Some sp, Some off, Some rad, Some _, Some _ =>
            let g := mkGrid lw tw ln lt sp off rad default_impl None in
            if negb (grid_ok g) then None else
            match dget k_vtype a with
            | None => Some (g, None)
            | Some (AStr vn) =>
                let v :=
                    if str_eqb vn n_sigma then option_map VSigma (get_list k_boundaries a)
                    else if str_eqb vn n_layer then option_map VLayer (get_int k_layers a)
                    else if str_eqb vn n_pressure then option_map VPressure (get_list k_centers a)
                    else None in
                match v with
                | Some v => if vertical_ok v then Some (g, Some v) else None
                | None => None
                end
            | Some _ => None
            end
        | _, _, _, _, _, _, _, _, _ => None
        end
    end.

  (** what survives the round trip: everything but the implementation class and the mesh *)
  Definition restored (g : grid) : grid :=
    mkGrid (g_lw g) (g_tw g) (g_lon_nodes g) (g_lat_nodes g) (g_spacing g) (g_offset g) (g_radius g)
           default_impl None.
End Attrs.
