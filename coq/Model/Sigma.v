(** Model of dinosaur/sigma_coordinates.py, the cumulative sums of
    jax_numpy_utils.py (single-device paths) and the geopotential operators of
    primitive_equations.py.  Definitions only.

    A column is an index function [nat -> F]; [K] is the number of layers,
    [b] the [K+1] boundaries, [ls] the table [log(centers)] (the only
    transcendental input). *)
From Dino Require Import Base.Ops Base.Sums Base.Ord.
Local Open Scope F_scope.

Section Sigma.
  Context {F : Type} {o : Ops F}.

  Definition two : F := 1 + 1.
  Definition half : F := 1 / two.

  (** [SigmaCoordinates] derived arrays. *)
  Definition centers (b : nat -> F) (k : nat) : F := (b (S k) + b k) / two.
  Definition thickness (b : nat -> F) (k : nat) : F := b (S k) - b k.
  Definition c2c (b : nat -> F) (k : nat) : F := centers b (S k) - centers b k.

  (** [SigmaCoordinates.__init__]: np.isclose(a, t) with default tolerances is
      |a - t| <= atol + rtol*|t|; the two uses have t = 0 and t = 1. The
      tolerances are passed in ([tol0] = atol, [tol1] = atol + rtol). *)
  Fixpoint all_increasing (n : nat) (b : nat -> F) : bool :=
    match n with O => true | S k => all_increasing k b && fltb (b k) (b (S k)) end.
  Definition sigma_accepts (tol0 tol1 : F) (K : nat) (b : nat -> F) : bool :=
    fleb (fabs (b 0%nat)) tol0 && fleb (fabs (b K - 1)) tol1 && all_increasing K b.

  (** [centered_difference]: K-1 outputs. *)
  Definition centered_difference (b x : nat -> F) (k : nat) : F :=
    (x (S k) - x k) * (1 / c2c b k).

  (** [jax_numpy_utils.cumsum] / [reverse_cumsum]. *)
  Definition ind (c : bool) : F := if c then 1 else 0.
  Definition cumsum_dot (K : nat) (x : nat -> F) (j : nat) : F :=
    sumn K (fun i => ind (Nat.leb i j) * x i).
  Definition revcumsum_dot (K : nat) (x : nat -> F) (j : nat) : F :=
    sumn K (fun i => ind (Nat.leb j i) * x i).
  Definition cumsum_seq (x : nat -> F) (j : nat) : F := sumn (S j) x.
  (** flip (cumsum (flip x)) *)
  Definition revcumsum_seq (K : nat) (x : nat -> F) (j : nat) : F :=
    sumn (S (K - 1 - j)) (fun i => x (K - 1 - i)%nat).

  Definition cumsum_m (dot : bool) (K : nat) (x : nat -> F) : nat -> F :=
    if dot then cumsum_dot K x else cumsum_seq x.
  Definition revcumsum_m (dot : bool) (K : nat) (x : nat -> F) : nat -> F :=
    if dot then revcumsum_dot K x else revcumsum_seq K x.

  (** [cumulative_sigma_integral], [sigma_integral]. *)
  Definition xdsigma (b x : nat -> F) (k : nat) : F := x k * thickness b k.
  Definition cum_sigma_integral (dot downward : bool) (K : nat) (b x : nat -> F) : nat -> F :=
    if downward then cumsum_m dot K (xdsigma b x) else revcumsum_m dot K (xdsigma b x).
  Definition sigma_integral (K : nat) (b x : nat -> F) : F := sumn K (xdsigma b x).

  (** [cumulative_log_sigma_integral] with [ls] = log(centers). *)
  Definition log_integrand (K : nat) (x : nat -> F) (k : nat) : F :=
    if Nat.ltb (S k) K then (x (S k) + x k) / two else x k.
  Definition dlog (K : nat) (ls : nat -> F) (k : nat) : F :=
    if Nat.ltb (S k) K then ls (S k) - ls k else 0 - ls k.
  Definition cum_log_sigma_integral (dot downward : bool) (K : nat) (ls x : nat -> F) : nat -> F :=
    let xd := fun k => log_integrand K x k * dlog K ls k in
    if downward then cumsum_m dot K xd else revcumsum_m dot K xd.

  (** [centered_vertical_advection]: [w] has K-1 entries (internal
      boundaries); padded arrays have K+1 entries. *)
  Definition pad_tb (K : nat) (top bot : F) (v : nat -> F) (k : nat) : F :=
    if Nat.eqb k 0 then top else if Nat.ltb k K then v (k - 1)%nat else bot.
  Definition centered_vertical_advection (K : nat) (b w x : nat -> F)
             (wt wb dt db : F) (n : nat) : F :=
    let wp := pad_tb K wt wb w in
    let dp := pad_tb K dt db (centered_difference b x) in
    (- half) * (wp (S n) * dp (S n) + wp n * dp n).

  (** [upwind_vertical_advection]. *)
  Definition upwind_vertical_advection (K : nat) (b w x : nat -> F) (n : nat) : F :=
    let d := centered_difference b x in
    let w_up := fun k => if Nat.eqb k 0 then 0 else w (k - 1)%nat in
    let w_down := fun k => if Nat.ltb (S k) K then w k else 0 in
    let d_up := fun k => if Nat.eqb k 0 then 0 else d (k - 1)%nat in
    let d_down := fun k => if Nat.ltb (S k) K then d k else 0 in
    - (fmax (w_up n) 0 * d_up n + fmin (w_down n) 0 * d_down n).

  (** [get_sigma_ratios] (alpha), [get_geopotential_weights] (G),
      [get_geopotential_diff] dense and sparse. *)
  Definition alpha (K : nat) (ls : nat -> F) (k : nat) : F :=
    if Nat.ltb (S k) K then (ls (S k) - ls k) / two else - ls k.
  Definition geo_weights (K : nat) (R : F) (ls : nat -> F) (j k : nat) : F :=
    R * (if Nat.eqb j k then alpha K ls j
         else if Nat.ltb j k then alpha K ls k + alpha K ls (k - 1)%nat else 0).
  Definition geo_diff_dense (K : nat) (R : F) (ls T : nat -> F) (j : nat) : F :=
    sumn K (fun k => geo_weights K R ls j k * T k).
  Definition geo_diff_sparse (K : nat) (R : F) (ls T : nat -> F) (j : nat) : F :=
    let al := fun k => R * alpha K ls k in
    let al2 := fun k => if Nat.eqb k 0 then 0 else al k + al (k - 1)%nat in
    revcumsum_dot K (fun k => al2 k * T k) j + (al j - al2 j) * T j.
End Sigma.
