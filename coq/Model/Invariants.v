(** Model for property C11 (structural invariants along trajectories).
    Definitions only.

    1. An abstract vector space interface [VSp] (own interface of this file),
       the term language [stepterm] of "IMEX steps"
           u_i | 0 | a + b | c * a | F(a) | G(a) | G_inv(a, eta)
       with its evaluator, and the encodings of all integrators of
       dinosaur/time_integration.py as such terms (same association of sums,
       same zero skipping as the code).
    2. The scalar ("one component") image of a term: evaluation in the carrier
       itself with F = const phi, G = 0, G_inv = id, and closed forms of it for
       the low-storage and Butcher-tableau schemes (consistency sums).
    3. step_with_filters / repeated application (trajectories).
    4. Stacks of modal arrays, the support pattern (triangular mask, clipped top
       total wavenumber, padding; mask and clip from Model/Deriv.v), operators
       acting independently per (m,l), states carrying a time.
    5. A small executable test bench (diagonal ODE on lists) for extraction. *)
From Dino Require Import Base.Ops Base.Sums Model.Deriv.
From Coq Require Import Qround.
Local Open Scope F_scope.

(** * 1. vector spaces, step terms *)
Class VSp (F V : Type) := mkVSp {
  vz : V;
  va : V -> V -> V;
  vs : F -> V -> V }.

Inductive stepterm (F : Type) : Type :=
| TVar (i : nat)
| TZero
| TAdd (a b : stepterm F)
| TScale (c : F) (a : stepterm F)
| TF (a : stepterm F)
| TG (a : stepterm F)
| TGinv (eta : F) (a : stepterm F).
Arguments TVar {F} i.
Arguments TZero {F}.
Arguments TAdd {F} a b.
Arguments TScale {F} c a.
Arguments TF {F} a.
Arguments TG {F} a.
Arguments TGinv {F} eta a.

Section Eval.
  Context {F V : Type} {vo : VSp F V}.
  Context (Fx G : V -> V) (Ginv : F -> V -> V).

  (** [env i] is the i-th input snapshot (one for the Runge-Kutta schemes,
      two - previous, current - for leapfrog). *)
  Fixpoint eval (t : stepterm F) (env : nat -> V) : V :=
    match t with
    | TVar i => env i
    | TZero => vz
    | TAdd a b => va (eval a env) (eval b env)
    | TScale c a => vs c (eval a env)
    | TF a => Fx (eval a env)
    | TG a => G (eval a env)
    | TGinv eta a => Ginv eta (eval a env)
    end.

  Definition env1 (u : V) : nat -> V := fun _ => u.
  Definition env2 (p c : V) : nat -> V := fun i => match i with O => p | _ => c end.

  (** a one-snapshot step function from a term *)
  Definition step_of (t : stepterm F) (u : V) : V := eval t (env1 u).
  (** leapfrog: (previous, current) |-> (current, future) *)
  Definition lf_step_of (t : stepterm F) (pc : V * V) : V * V :=
    (snd pc, eval t (env2 (fst pc) (snd pc))).

  (** [step_with_filters]: u_next = step(u); for f in filters: u_next = f(u, u_next) *)
  Definition with_filters {S : Type} (step : S -> S) (filters : list (S -> S -> S)) (u : S) : S :=
    fold_left (fun un f => f u un) filters (step u).
  (** [runge_kutta_step_filter] *)
  Definition rk_filter {S : Type} (f : S -> S) : S -> S -> S := fun _ un => f un.
  (** [leapfrog_step_filter] *)
  Definition lf_filter {S : Type} (f : S -> S) : S * S -> S * S -> S * S :=
    fun _ un => (fst un, f (snd un)).

  (** [repeated] / the carry of [trajectory_from_step] *)
  Fixpoint iter {S : Type} (k : nat) (step : S -> S) (u : S) : S :=
    match k with O => u | S k' => iter k' step (step u) end.
End Eval.

(** ** the integrators of time_integration.py as terms *)
Section Schemes.
  Context {F : Type} {o : Ops F}.
  Notation term := (stepterm F).

  Definition ihalf : F := 1 / (1 + 1).
  Definition itwo : F := 1 + 1.
  Definition U : term := TVar 0.

  (** backward_forward_euler:  g = u0 + dt*F(u0);  u1 = G_inv(g, dt) *)
  Definition euler_term (dt : F) : term := TGinv dt (TAdd U (TScale dt (TF U))).

  (** crank_nicolson_rk2 *)
  Definition cn_rk2_term (dt : F) : term :=
    let g := TAdd U (TScale (ihalf * dt) (TG U)) in
    let h1 := TF U in
    let u1 := TGinv (ihalf * dt) (TAdd g (TScale dt h1)) in
    let h2 := TScale ihalf (TAdd (TF u1) h1) in
    TGinv (ihalf * dt) (TAdd g (TScale dt h2)).

  (** low_storage_runge_kutta_crank_nicolson, any coefficient lists:
        h = F(u) + beta[k]*h;  mu = 0.5*dt*(alpha[k+1]-alpha[k]);
        u = G_inv(u + gamma[k]*dt*h + mu*G(u), mu) *)
  Fixpoint ls_term (dt : F) (al be ga : list F) (h u : term) {struct be} : term :=
    match be, ga, al with
    | b :: be', g :: ga', a0 :: ((a1 :: _) as al') =>
        let h' := TAdd (TF u) (TScale b h) in
        let mu := ihalf * dt * (a1 - a0) in
        ls_term dt al' be' ga' h'
                (TGinv mu (TAdd (TAdd u (TScale (g * dt) h')) (TScale mu (TG u))))
    | _, _, _ => u
    end.
  Definition ls_step_term (dt : F) (al be ga : list F) : term := ls_term dt al be ga TZero U.

  (** imex_runge_kutta, any tableau in the ImExButcherTableau format; [tnz c] is
      Python's truthiness [if c]; using a stage that was never computed is an
      error ([None]). *)
  Definition tnz (c : F) : bool := negb (feqb c 0).

  Fixpoint tsum_skip (cs : list F) (xs : list (option term)) (acc : term) : option term :=
    match cs, xs with
    | c :: cs', x :: xs' =>
        if tnz c then
          match x with
          | Some v => tsum_skip cs' xs' (TAdd acc (TScale c v))
          | None => None
          end
        else tsum_skip cs' xs' acc
    | _, _ => Some acc
    end.

  Definition tneeded (i : nat) (rest : list (list F)) (b : list F) : bool :=
    existsb (fun row => tnz (nth i row 0)) rest || tnz (nth i b 0).

  Fixpoint imex_stage_terms (dt : F) (b_ex b_im : list F) (i : nat)
      (rex rim : list (list F)) (fs gs : list (option term))
      : option (list (option term) * list (option term)) :=
    match rex, rim with
    | re :: rex', ri :: rim' =>
        match tsum_skip re fs TZero, tsum_skip ri gs TZero with
        | Some ex, Some im =>
            let Ystar := TAdd (TAdd U (TScale dt ex)) (TScale dt im) in
            let Y := TGinv (dt * nth i ri 0) Ystar in
            let f := if tneeded i rex' b_ex then Some (TF Y) else None in
            let g := if tneeded i rim' b_im then Some (TG Y) else None in
            imex_stage_terms dt b_ex b_im (S i) rex' rim' (fs ++ [f]) (gs ++ [g])
        | _, _ => None
        end
    | _, _ => Some (fs, gs)
    end.

  Definition imex_term (dt : F) (a_ex a_im : list (list F)) (b_ex b_im : list F) : option term :=
    match imex_stage_terms dt b_ex b_im 1 a_ex a_im [Some (TF U)] [Some (TG U)] with
    | Some (fs, gs) =>
        match tsum_skip b_ex fs TZero, tsum_skip b_im gs TZero with
        | Some ex, Some im => Some (TAdd (TAdd U (TScale dt ex)) (TScale dt im))
        | _, _ => None
        end
    | None => None
    end.

  (** semi_implicit_leapfrog: variable 0 = previous, 1 = current; the term is
      the future snapshot *)
  Definition leapfrog_term (dt alpha : F) : term :=
    TGinv (itwo * dt * alpha)
          (TAdd (TVar 0) (TScale (itwo * dt)
                                 (TAdd (TF (TVar 1)) (TScale (1 - alpha) (TG (TVar 0)))))).

  (** robert_asselin_leapfrog_filter on one leaf: (1 - 2r) c + r (p + f) *)
  Definition ra_term (r : F) (p c f : term) : term :=
    TAdd (TScale (1 - itwo * r) c) (TScale r (TAdd p f)).
End Schemes.

(** * 2. the scalar image of a term *)
Section Scalar.
  Context {F : Type} {o : Ops F}.

  Definition FSp : VSp F F := {| vz := 0; va := fadd; vs := fmul |}.

  (** value of one component P(u) that sees F = phi (constant), G = 0, G_inv = id *)
  Definition aeval (phi : F) (t : stepterm F) (pe : nat -> F) : F :=
    eval (vo := FSp) (fun _ => phi) (fun _ => 0) (fun _ x => x) t pe.

  (** closed form for the low-storage loop: result = u + dt * ls_w *)
  Fixpoint ls_w (phi : F) (al be ga : list F) (hv : F) {struct be} : F :=
    match be, ga, al with
    | b :: be', g :: ga', a0 :: ((a1 :: _) as al') =>
        let h' := phi + b * hv in g * h' + ls_w phi al' be' ga' h'
    | _, _, _ => 0
    end.
  (** the explicit consistency sum of a low-storage scheme (sum of its b_ex) *)
  Definition ls_consistency (al be ga : list F) : F := ls_w 1 al be ga 0.

  (** sum of the non-zero ("truthy") entries among the first n *)
  Fixpoint skipsum (cs : list F) (n : nat) : F :=
    match cs, n with
    | c :: cs', S n' => (if tnz c then c else 0) + skipsum cs' n'
    | _, _ => 0
    end.
  Definition imex_consistency (a_ex a_im : list (list F)) (b_ex : list F) : F :=
    skipsum b_ex (S (Nat.min (length a_ex) (length a_im))).
End Scalar.

(** * 4. stacks of modal arrays *)
Section Modal.
  Context {F : Type} {o : Ops F}.

  (** all levels of all prognostic fields in one index [k]; [x k i l] with
      [i] the row (longitudinal index) and [l] the column (total wavenumber) *)
  Definition stack := nat -> nat -> nat -> F.
  Definition StackSp : VSp F stack :=
    {| vz := fun _ _ _ => 0;
       va := fun x y k i l => x k i l + y k i l;
       vs := fun c x k i l => c * x k i l |}.

  (** entries that have to vanish: outside the triangular mask (including the
      unused row 1 and the padded rows/columns of the fast layout) or at the top
      total wavenumber l >= L-1 *)
  Definition must_vanish (fast : bool) (M L i l : nat) : bool :=
    negb (mask fast M L i l) || Nat.leb (L - 1) l.

  (** [Grid.clip_wavenumbers] (n = 1) on every leaf *)
  Definition clip_stack (L C : nat) (x : stack) : stack := fun k => clip L C 1 (x k).
  (** [explicit_terms]: anything, followed by the clip *)
  Definition explicit_model (L C : nat) (pre : stack -> stack) (x : stack) : stack :=
    clip_stack L C (pre x).

  (** operators acting independently on every (i,l): a matrix over the level /
      field index for every (i,l) (implicit terms, implicit inverse: the matrices
      depend on l only) *)
  Definition diagop (N : nat) (A : nat -> nat -> nat -> nat -> F) (x : stack) : stack :=
    fun k i l => sumn N (fun k' => A i l k k' * x k' i l).
  (** filters: a scaling per leaf and total wavenumber *)
  Definition lfilter (s : nat -> nat -> F) (x : stack) : stack := fun k i l => s k l * x k i l.

  (** the last modal operations of the vorticity and divergence tendencies
      (one level).  primitive_equations.py (dry classes):
        vorticity:  clip(-curl_cos_lat((cu, cv), clip=False))
        divergence: clip(-div_cos_lat((cu, cv), clip=False) + -laplacian(ke) + -g*laplacian(orography))
      with (cu, cv), ke arbitrary modal arrays (outputs of to_modal). *)
  Definition pe_vort_tend (fast : bool) (L R C : nat) (r : F) (a b : arr2) (uv : vec2) : arr2 :=
    clip L C 1 (fun i l => - curl_cos_lat fast L R C r a b false uv i l).
  Definition pe_div_tend (fast : bool) (L R C : nat) (r : F) (a b : arr2) (g : F)
             (uv : vec2) (ke oro : arr2) : arr2 :=
    clip L C 1 (fun i l => - div_cos_lat fast L R C r a b false uv i l
                           + - laplacian L r ke i l + (- g) * laplacian L r oro i l).
  (** shallow_water.py: clip(-div_cos_lat(b)), clip(-laplacian(p + e) + curl_cos_lat(b)),
      clip(-div_cos_lat(g)) with the default clip=True of the inner operators *)
  Definition sw_vort_tend (fast : bool) (L R C : nat) (r : F) (a b : arr2) (bv : vec2) : arr2 :=
    clip L C 1 (fun i l => - div_cos_lat fast L R C r a b true bv i l).
  Definition sw_div_tend (fast : bool) (L R C : nat) (r : F) (a b : arr2) (bv : vec2) (pe : arr2) : arr2 :=
    clip L C 1 (fun i l => - laplacian L r pe i l + curl_cos_lat fast L R C r a b true bv i l).
  Definition sw_pot_tend (fast : bool) (L R C : nat) (r : F) (a b : arr2) (gv : vec2) : arr2 :=
    clip L C 1 (fun i l => - div_cos_lat fast L R C r a b true gv i l).
  (** shallow-water implicit terms / inverse at one (i,l) of one layer:
      eig = laplacian eigenvalue, phi = reference potential, (d, p) = (divergence, potential) *)
  Definition sw_impl_div (eig p : F) : F := - (p * eig).
  Definition sw_impl_pot (phi d : F) : F := (- phi) * d.
  Definition sw_schur (eta phi eig : F) : F := 1 / (1 - eta * eta * phi * eig).
  Definition sw_inv_div (eta phi eig d p : F) : F := sw_schur eta phi eig * (d - eta * (p * eig)).
  Definition sw_inv_pot (eta phi eig d p : F) : F := sw_schur eta phi eig * ((- eta) * phi * d + p).

  (** executable check of the pattern on an R x C array *)
  Definition pattern_ok (fast : bool) (M L R C : nat) (x : nat -> nat -> F) : bool :=
    forallb (fun i => forallb (fun l => negb (must_vanish fast M L i l) || feqb (x i l) 0) (seq 0 C))
            (seq 0 R).

  (** states that carry a time: (fields, sim_time) *)
  Definition TimedSp {V} (vo : VSp F V) : VSp F (V * F) :=
    {| vz := (vz, 0);
       va := fun x y => (va (fst x) (fst y), snd x + snd y);
       vs := fun c x => (vs c (fst x), c * snd x) |}.
  (** PrimitiveEquationsWithTime: explicit tendency of time = tdot (1.0 in the
      code), implicit tendency 0, the inverse passes the time through *)
  Definition timed_F {V} (tdot : F) (Fx : V -> V) (x : V * F) : V * F := (Fx (fst x), tdot).
  Definition timed_G {V} (G : V -> V) (x : V * F) : V * F := (G (fst x), 0).
  Definition timed_Ginv {V} (Ginv : F -> V -> V) (eta : F) (x : V * F) : V * F :=
    (Ginv eta (fst x), snd x).
  (** a filter acts on the array leaves only (shape rule: see Thm) *)
  Definition timed_filter {V} (f : V -> V) (x : V * F) : V * F := (f (fst x), snd x).
End Modal.

(** * time_integration.maybe_fix_sim_time_roundoff:
        state.sim_time = dt * jnp.round(state.sim_time / dt)
    [rnd] is the rounding to an integer (jnp.round: to nearest, ties to even);
    [rhe] is its exact model on rationals. *)
Definition rhe (x : Q) : Z :=
  let f := Qfloor x in
  match Qcompare (x - inject_Z f) (1 # 2) with
  | Lt => f
  | Gt => (f + 1)%Z
  | Eq => if Z.even f then f else (f + 1)%Z
  end.

Section FixTime.
  Context {F : Type} {o : Ops F}.
  Definition fix_time (rnd : F -> Z) (dt t : F) : F := dt * fofZ (rnd (t / dt)).
  (** as a state filter: only the time leaf is touched *)
  Definition fix_time_filter {V} (rnd : F -> Z) (dt : F) (x : V * F) : V * F :=
    (fst x, fix_time rnd dt (snd x)).
End FixTime.

(** * 5. executable test bench: diagonal ODE on lists *)
Section Bench.
  Context {F : Type} {o : Ops F}.
  Definition lzip (f : F -> F -> F) (a b : list F) : list F :=
    map (fun p => f (fst p) (snd p)) (combine a b).
  Definition ListSp (d : nat) : VSp F (list F) :=
    {| vz := repeat 0 d; va := lzip fadd; vs := fun c => map (fmul c) |}.
  (** F(u)_i = a_i u_i^2 + b_i;  G(u)_i = - c_i u_i;  G_inv(u, eta)_i = u_i / (1 + eta c_i) *)
  Definition bench_F (a b u : list F) : list F :=
    map (fun p => fst (fst p) * snd p * snd p + snd (fst p)) (combine (combine a b) u).
  Definition bench_G (c u : list F) : list F := lzip (fun ci ui => - (ci * ui)) c u.
  Definition bench_Ginv (c : list F) (eta : F) (u : list F) : list F :=
    lzip (fun ci ui => ui / (1 + eta * ci)) c u.
  Definition bench_filter (s u : list F) : list F := lzip fmul s u.
End Bench.
