(** Model of the stepping / scan combinators of dinosaur/time_integration.py:
    [step_with_filters], [repeated], [trajectory_from_step],
    [nested_checkpoint_scan] / [_inner_nested_scan], [accumulate_repeated],
    [_dfi_lanczos_weights] (sinc values are tables), [TimeReversedImExODE],
    [digital_filter_initialization] and (as a solver the DFI can be run with)
    [backward_forward_euler].  Definitions only.

    [jax.lax.scan] is modelled by its documented semantics on lists:
    [scan f init xs] threads the carry through [xs] from left to right and
    stacks the per-step outputs.  A scan with [xs=None, length=n] is a scan over
    [n] copies of the (leafless) value [tt].  Carry, scanned and output types
    are arbitrary (pytrees are just values of these types); [jax.checkpoint]
    is semantically the identity and is modelled as such.

    Arrays with a leading scan axis are lists; [x.reshape(lengths + rest)]
    followed by scanning the leading axis is row-major chunking ([chunks]). *)
From Dino Require Import Base.Ops Base.Sums.
Local Open Scope F_scope.

(** ** lax.scan *)
Section Scan.
  Context {C X Y : Type}.

  Fixpoint scan (f : C -> X -> C * Y) (init : C) (xs : list X) : C * list Y :=
    match xs with
    | [] => (init, [])
    | x :: r => let cy := f init x in
                let r' := scan f (fst cy) r in
                (fst r', snd cy :: snd r')
    end.
End Scan.

(** [scan_fn(f, init, xs=None, length=n)] *)
Definition scan_len {C Y : Type} (f : C -> unit -> C * Y) (init : C) (n : nat) : C * list Y :=
  scan f init (repeat tt n).

(** ** step_with_filters, repeated, trajectory_from_step *)
Section Stepping.
  Context {S : Type}.

  (** [for filter_fn in filters: u_next = filter_fn(u, u_next)] *)
  Definition step_with_filters (step : S -> S) (filters : list (S -> S -> S)) (u : S) : S :=
    fold_left (fun u_next phi => phi u u_next) filters (step u).

  (** [repeated(fn, steps)]: the [steps == 1] shortcut returns [fn] itself,
      otherwise a scan of length [steps] whose outputs are [None]. *)
  Definition repeated (fn : S -> S) (steps : nat) : S -> S :=
    if Nat.eqb steps 1 then fn
    else fun x_initial => fst (scan_len (fun x _ => (fn x, tt)) x_initial steps).

  (** [trajectory_from_step]: [inner_steps != 1] wraps the step in [repeated];
      the outer scan returns (final carry, stacked post-processed frames). *)
  Definition trajectory_from_step {Y : Type} (step_fn : S -> S) (outer_steps inner_steps : nat)
             (start_with_input : bool) (post_process : S -> Y) (x : S) : S * list Y :=
    let step_fn' := if negb (Nat.eqb inner_steps 1) then repeated step_fn inner_steps else step_fn in
    let step := fun carry_in (_ : unit) =>
                  let carry_out := step_fn' carry_in in
                  let frame := if start_with_input then carry_in else carry_out in
                  (carry_out, post_process frame) in
    scan_len step x outer_steps.
End Stepping.

(** ** nested_checkpoint_scan *)
Section Nested.
  Context {C X Y : Type}.

  (** [math.prod] *)
  Definition lprod (l : list nat) : nat := fold_right Nat.mul 1%nat l.

  (** leading axis of an array reshaped from [n*m] rows to [(n, m)] *)
  Fixpoint chunks (n m : nat) (xs : list X) : list (list X) :=
    match n with
    | O => []
    | Datatypes.S k => firstn m xs :: chunks k m (skipn m xs)
    end.

  (** [_inner_nested_scan]; [xs] is the row-major content of the array of
      shape [lengths + ...]; [jnp.concatenate] of the stacked sub-outputs is
      [concat]. The empty [lengths] never reaches this function's result
      (Python raises IndexError), see [nested_accepts]. *)
  Fixpoint inner_nested_scan (f : C -> X -> C * Y) (lengths : list nat) (init : C) (xs : list X)
    : C * list Y :=
    match lengths with
    | [] => (init, [])
    | l :: rest =>
      match rest with
      | [] => scan f init xs
      | _ :: _ =>
        let r := scan (fun carry sub => inner_nested_scan f rest carry sub) init
                      (chunks l (lprod rest) xs) in
        (fst r, concat (snd r))
      end
    end.

  (** Which calls do not raise.  [length]: the optional [length] argument;
      [xs_len]: leading size of the arrays in [xs] ([None] when [xs] has no
      leaves).  [jnp.concatenate] of zero sub-outputs raises, so a zero is only
      tolerated in the last position. *)
  Definition opt_eqb (a : option nat) (n : nat) : bool :=
    match a with None => true | Some k => Nat.eqb k n end.
  Definition nested_accepts (length xs_len : option nat) (lengths : list nat) : bool :=
    opt_eqb length (lprod lengths) && opt_eqb xs_len (lprod lengths)
    && negb (Nat.eqb (List.length lengths) 0)
    && forallb (fun l => negb (Nat.eqb l 0)) (removelast lengths).

  (** [xs = None] is passed as [inl xnone]: the scanned value seen by [f]. *)
  Definition nested_checkpoint_scan (f : C -> X -> C * Y) (init : C) (xs : X + list X)
             (length : option nat) (lengths : list nat) : option (C * list Y) :=
    let xs_len := match xs with inl _ => None | inr l => Some (List.length l) end in
    if nested_accepts length xs_len lengths then
      Some (inner_nested_scan f lengths init
              (match xs with inl xnone => repeat xnone (lprod lengths) | inr l => l end))
    else None.
End Nested.

(** ** accumulate_repeated, DFI *)
Section Accumulate.
  Context {F : Type} {o : Ops F}.

  Fixpoint map2 {A B D : Type} (g : A -> B -> D) (la : list A) (lb : list B) : list D :=
    match la, lb with
    | a :: ra, b :: rb => g a b :: map2 g ra rb
    | _, _ => []
    end.

  (** states are flattened pytrees: lists of field elements *)
  Definition V := list F.
  Definition zeros_like (x : V) : V := map (fun _ => 0) x.
  Definition vneg (x : V) : V := map (fun a => - a) x.
  Definition vscal (c : F) (x : V) : V := map (fun a => c * a) x.
  Definition vadd (x y : V) : V := map2 (fun a b => a + b) x y.
  (** [np.sum] *)
  Definition vsum (w : list F) : F := sumn (List.length w) (ofl w).

  (** [accumulate_repeated]: carry = (state, averaged);
      [averaged = a + weight * s] leafwise on the *new* state. *)
  Definition accumulate_repeated (step_fn : V -> V) (weights : list F) (state : V) : V :=
    let f := fun (carry : V * V) weight =>
               let state' := step_fn (fst carry) in
               let averaged := map2 (fun s a => a + weight * s) state' (snd carry) in
               ((state', averaged), tt) in
    snd (fst (scan f (state, zeros_like state) weights)).

  (** [_dfi_lanczos_weights]: product of two sinc tables
      [s1 n = sinc(n/(N+1))], [s2 n = sinc(n*time_span/(cutoff_period*N))], n = 1..N;
      [N = round(time_span/(2 dt))] is the length of the tables. *)
  Definition dfi_lanczos_weights (s1 s2 : list F) : list F := map2 (fun a b => a * b) s1 s2.

  Record ImEx := mkImEx {
    explicit_terms : V -> V;
    implicit_terms : V -> V;
    implicit_inverse : V -> F -> V }.

  (** [TimeReversedImExODE] *)
  Definition time_reversed (e : ImEx) : ImEx :=
    {| explicit_terms := fun s => vneg (explicit_terms e s);
       implicit_terms := fun s => vneg (implicit_terms e s);
       implicit_inverse := fun s h => implicit_inverse e s (- h) |}.

  Definition two : F := 1 + 1.

  (** [digital_filter_initialization(equation, ode_solver, filters, ...)(state)];
      [weights] is the result of [_dfi_lanczos_weights]. Python's [sum(xs)]
      starts from the integer 0. *)
  Definition dfi (ode_solver : ImEx -> F -> V -> V) (equation : ImEx)
             (filters : list (V -> V -> V)) (weights : list F) (dt : F) (state : V) : V :=
    let forward_step := step_with_filters (ode_solver equation dt) filters in
    let backward_step := step_with_filters (ode_solver (time_reversed equation) dt) filters in
    let total_weight := 1 + two * vsum weights in
    let init_weight := 1 / total_weight in
    let weights' := map (fun w => w / total_weight) weights in
    let init_term := map (fun x => x * init_weight) state in
    let forward_term := accumulate_repeated forward_step weights' state in
    let backward_term := accumulate_repeated backward_step weights' state in
    map2 (fun ab c => ab + c) (map2 (fun a b => 0 + a + b) init_term forward_term) backward_term.

  (** [backward_forward_euler]: g = u0 + dt*F(u0); u1 = G_inv(g, dt). *)
  Definition backward_forward_euler (e : ImEx) (dt : F) (u0 : V) : V :=
    implicit_inverse e (vadd u0 (vscal dt (explicit_terms e u0))) dt.

  (** *** Parametric families used to execute the combinators (test fixtures):
      affine steps on vectors, affine filters, a linear ImEx equation and a
      second solver that also exercises [implicit_terms]. *)
  Definition dot (a b : list F) : F := sumn (List.length a) (fun i => ofl a i * ofl b i).
  Definition matvec (A : list (list F)) (u : V) : V := map (fun row => dot row u) A.
  Definition affine (A : list (list F)) (b : V) (u : V) : V := vadd (matvec A u) b.
  (** scan body: carry' = A c + b + x, output = P carry' + Q c *)
  Definition affine_body (A : list (list F)) (b : V) (P Q : list (list F)) (c x : V) : V * V :=
    let c' := vadd (affine A b c) x in (c', vadd (matvec P c') (matvec Q c)).
  (** filter(u, u_next) = al*u + be*u_next + ga *)
  Definition affine_filter (al be ga : F) (u un : V) : V :=
    map2 (fun a b => al * a + be * b + ga) u un.
  Definition linear_imex (A : list (list F)) (d : V) : ImEx :=
    {| explicit_terms := fun u => matvec A u;
       implicit_terms := fun u => map2 (fun a b => a * b) d u;
       implicit_inverse := fun u h => map2 (fun a di => a / (1 - h * di)) u d |}.
  (** u1 = G_inv(u0 + dt*F(u0) + (dt/2)*G(u0), dt/2)  (a Crank-Nicolson-like step) *)
  Definition cn_solver (e : ImEx) (dt : F) (u0 : V) : V :=
    implicit_inverse e
      (vadd (vadd u0 (vscal dt (explicit_terms e u0))) (vscal (dt / two) (implicit_terms e u0)))
      (dt / two).
End Accumulate.
