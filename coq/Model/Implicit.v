(** Model of the implicit (semi-implicit) part of dinosaur/primitive_equations.py,
    dinosaur/shallow_water.py and time_integration.TimeReversedImExODE
    (property C03).  Definitions only.

    Everything acts independently on every spectral coefficient (m,l); the
    model therefore works on one vertical column of one coefficient:
      [c_div], [c_temp] : K entries,  [c_lnps] : 1 entry,
    with [lam] = [laplacian_eigenvalues[l]] (an input table entry).
    [ls] is the table log(centers) (input), [b] the K+1 boundaries.
    [np.linalg.inv] is a parameter [inv : nat -> Mat -> Mat] of the model
    (size, matrix |-> matrix); theorems assume it returns a left inverse of
    the matrices it is applied to, the plugin re-checks this numerically. *)
From Dino Require Import Base.Ops Base.Sums Base.Ord Model.Sigma.
Local Open Scope F_scope.

Section Implicit.
  Context {F : Type} {o : Ops F}.

  Definition Mat := nat -> nat -> F.

  (** einsum('gh,h->g'), '@', np.eye, sub-block slicing A[r0:.., c0:..] *)
  Definition matvec (n : nat) (A : Mat) (x : nat -> F) (g : nat) : F :=
    sumn n (fun h => A g h * x h).
  Definition matmul (n : nat) (A B : Mat) : Mat :=
    fun i j => sumn n (fun k => A i k * B k j).
  Definition eye : Mat := fun i j => delta i j.
  Definition blk (A : Mat) (r0 c0 : nat) : Mat := fun i j => A (r0 + i)%nat (c0 + j)%nat.
  (** materialise an n x m array (numpy arrays are materialised; keeps execution polynomial) *)
  Definition memo2 (n m : nat) (f : Mat) : Mat :=
    let l := map (fun i => tab m (f i)) (seq 0 n) in
    fun i j => nth j (nth i l []) 0.

  (** Configuration of one [PrimitiveEquations] instance (vertical part). *)
  Record PEcfg := mkPE {
    cK : nat;            (* coords.vertical.layers *)
    cR : F;              (* physics_specs.R = ideal_gas_constant *)
    ckappa : F;          (* physics_specs.kappa *)
    cls : nat -> F;      (* log(centers) *)
    cb : nat -> F;       (* boundaries *)
    cTref : nat -> F }.  (* reference_temperature *)

  (** One column of the state: divergence, temperature_variation, log_surface_pressure. *)
  Record Col := mkCol { c_div : nat -> F; c_temp : nat -> F; c_lnps : F }.

  Definition col_lin (a : F) (x : Col) (c : F) (y : Col) : Col :=
    mkCol (fun k => a * c_div x k + c * c_div y k)
          (fun k => a * c_temp x k + c * c_temp y k)
          (a * c_lnps x + c * c_lnps y).
  (** [state - eta * terms] (tree_math arithmetic of the callers) *)
  Definition col_minus_scaled (x : Col) (eta : F) (t : Col) : Col :=
    mkCol (fun k => c_div x k - eta * c_div t k)
          (fun k => c_temp x k - eta * c_temp t k)
          (c_lnps x - eta * c_lnps t).
  Definition col_neg (x : Col) : Col :=
    mkCol (fun k => - c_div x k) (fun k => - c_temp x k) (- c_lnps x).

  (** jnp.concatenate([divergence, temperature_variation, log_surface_pressure]) *)
  Definition stack (K : nat) (x : Col) (i : nat) : F :=
    if Nat.ltb i K then c_div x i
    else if Nat.ltb i (2 * K) then c_temp x (i - K)%nat else c_lnps x.
  Definition unstack (K : nat) (v : nat -> F) : Col :=
    mkCol (fun g => v g) (fun g => v (K + g)%nat) (v (2 * K)%nat).

  (** *** get_temperature_implicit_weights (H), following the numpy construction *)
  Definition tril : Mat := fun r s => ind (Nat.leb s r).
  (** a = np.roll(a, 1, axis=0); a[0] = 0 *)
  Definition roll1_zero (K : nat) (a : Mat) : Mat :=
    fun r s => if Nat.eqb r 0 then 0 else a ((r + K - 1) mod K)%nat s.

  Definition temp_weights (c : PEcfg) : Mat :=
    let K := cK c in
    let th := thickness (cb c) in
    let p := tril in
    let al := alpha K (cls c) in
    let p_alpha : Mat := fun r s => p r s * al r in
    let p_alpha_shifted := roll1_zero K p_alpha in
    let h0 : Mat := fun r s =>
      ckappa c * cTref c r * (p_alpha r s + p_alpha_shifted r s) / th r in
    (* np.concatenate((temp_diff / thickness_sum, [0])) *)
    let k0 := fun r => if Nat.ltb (S r) K
                       then (cTref c (S r) - cTref c r) / (th r + th (S r)) else 0 in
    let thickness_cumulative := cumsum_seq th in       (* np.cumsum *)
    let k1 : Mat := fun r s => p r s - thickness_cumulative r in
    let k : Mat := fun r s => k0 r * k1 r s in
    let k_shifted := roll1_zero K k in
    fun r s => (h0 r s - k r s - k_shifted r s) * th s.

  (** *** get_temperature_implicit, method 'dense' and 'sparse' *)
  Definition neg_temp_weights (c : PEcfg) : Mat := fun r s => - temp_weights c r s.

  Definition temp_implicit_dense (c : PEcfg) (div : nat -> F) (r : nat) : F :=
    matvec (cK c) (neg_temp_weights c) div r.

  (** (v != 0).any() *)
  Definition any_nonzero (n : nat) (v : nat -> F) : bool :=
    existsb (fun i => negb (feqb (v i) 0)) (seq 0 n).

  Definition up_weights (c : PEcfg) (r : nat) : F :=
    if Nat.eqb r 0 then 0 else neg_temp_weights c r 0%nat / thickness (cb c) 0%nat.
  Definition down_weights (c : PEcfg) (r : nat) : F :=
    if Nat.ltb (S r) (cK c)
    then neg_temp_weights c r (cK c - 1)%nat / thickness (cb c) (cK c - 1)%nat else 0.

  Definition temp_implicit_sparse (c : PEcfg) (div : nat -> F) (r : nat) : F :=
    let K := cK c in
    let th := thickness (cb c) in
    let diag_weights := fun r => neg_temp_weights c r r in
    let wd := fun k => th k * div k in                        (* weighted_divergence *)
    let up_divergence := fun r => cumsum_dot K wd r - wd r in
    let result := up_weights c r * up_divergence r + diag_weights r * div r in
    if any_nonzero K (down_weights c) then
      let down_divergence := fun r => revcumsum_dot K wd r - wd r in
      result + down_weights c r * down_divergence r
    else result.

  Definition temp_implicit (sparse : bool) :=
    if sparse then temp_implicit_sparse else temp_implicit_dense.
  Definition geo_diff (sparse : bool) (c : PEcfg) (T : nat -> F) (k : nat) : F :=
    (if sparse then geo_diff_sparse else geo_diff_dense) (cK c) (cR c) (cls c) T k.

  (** *** PrimitiveEquations.implicit_terms for one coefficient (m,l) *)
  Definition implicit_terms (sparse : bool) (c : PEcfg) (lam : F) (x : Col) : Col :=
    let geopotential_diff := geo_diff sparse c (c_temp x) in
    let rt_log_p := fun k => cR c * cTref c k * c_lnps x in
    mkCol
      (fun k => - ((geopotential_diff k + rt_log_p k) * lam))     (* -laplacian(..) *)
      (temp_implicit sparse c (c_div x))
      (- matvec (cK c) (fun _ h => thickness (cb c) h) (c_div x) 0%nat).

  (** *** _get_implicit_term_matrix, for one total wavenumber *)
  Definition implicit_matrix (c : PEcfg) (eta lam : F) : Mat :=
    let K := cK c in
    fun i j =>
      if Nat.ltb i K then                                        (* row0 *)
        if Nat.ltb j K then eye i j
        else if Nat.ltb j (2 * K) then eta * (lam * geo_weights K (cR c) (cls c) i (j - K)%nat)
        else eta * cR c * (lam * cTref c i)
      else if Nat.ltb i (2 * K) then                             (* row1 *)
        if Nat.ltb j K then eta * temp_weights c (i - K)%nat j
        else if Nat.ltb j (2 * K) then eye (i - K)%nat (j - K)%nat
        else 0
      else                                                       (* row2 *)
        if Nat.ltb j K then eta * thickness (cb c) j
        else if Nat.ltb j (2 * K) then 0 else 1.

  (** *** PrimitiveEquations.implicit_inverse *)
  Definition lnps_vec (x : Col) : nat -> F := fun _ => c_lnps x.

  Definition inverse_split (inv : nat -> Mat -> Mat) (c : PEcfg) (eta lam : F) (x : Col) : Col :=
    let K := cK c in
    let inverse := inv (2 * K + 1)%nat (implicit_matrix c eta lam) in
    let dv := 0%nat in let tp := K in let lp := (2 * K)%nat in
    mkCol
      (fun g => matvec K (blk inverse dv dv) (c_div x) g
                + matvec K (blk inverse dv tp) (c_temp x) g
                + matvec 1 (blk inverse dv lp) (lnps_vec x) g)
      (fun g => matvec K (blk inverse tp dv) (c_div x) g
                + matvec K (blk inverse tp tp) (c_temp x) g
                + matvec 1 (blk inverse tp lp) (lnps_vec x) g)
      (matvec K (blk inverse lp dv) (c_div x) 0%nat
       + matvec K (blk inverse lp tp) (c_temp x) 0%nat
       + matvec 1 (blk inverse lp lp) (lnps_vec x) 0%nat).

  Definition inverse_stacked (inv : nat -> Mat -> Mat) (c : PEcfg) (eta lam : F) (x : Col) : Col :=
    let K := cK c in
    let inverse := inv (2 * K + 1)%nat (implicit_matrix c eta lam) in
    let stacked_inverse := matvec (2 * K + 1) inverse (stack K x) in
    unstack K stacked_inverse.

  (** the same matrix, materialised (used where entries are read many times) *)
  Definition implicit_matrix_tab (c : PEcfg) (eta lam : F) : Mat :=
    memo2 (2 * cK c + 1) (2 * cK c + 1) (implicit_matrix c eta lam).

  (** I - GH and I - HG of the 'blockwise' branch, from the assembled matrix M *)
  Definition schur_div_of (K : nat) (M : Mat) : Mat :=
    fun i j => eye i j - matmul (K + 1) (blk M 0 K) (blk M K 0) i j.
  Definition schur_temp_logp_of (K : nat) (M : Mat) : Mat :=
    fun i j => eye i j - matmul K (blk M K 0) (blk M 0 K) i j.
  Definition schur_div (c : PEcfg) (eta lam : F) : Mat :=
    schur_div_of (cK c) (implicit_matrix_tab c eta lam).
  Definition schur_temp_logp (c : PEcfg) (eta lam : F) : Mat :=
    schur_temp_logp_of (cK c) (implicit_matrix_tab c eta lam).

  Definition inverse_blockwise (inv : nat -> Mat -> Mat) (c : PEcfg) (eta lam : F) (x : Col) : Col :=
    let K := cK c in
    let M := implicit_matrix_tab c eta lam in
    let div_inverse := inv K (schur_div_of K M) in
    let gt := geo_diff true c (c_temp x) in
    let div_from_temp := fun g => eta * lam * gt g in
    let div_from_logp := matvec 1 (blk M 0 (2 * K)) (lnps_vec x) in
    let inverted_divergence :=
      matvec K div_inverse (memo K (fun g => c_div x g - div_from_temp g - div_from_logp g)) in
    let temp_logp_inverse := inv (K + 1)%nat (schur_temp_logp_of K M) in
    let hd := fun g => - temp_implicit true c (c_div x) g in
    let temp_from_div := fun g => eta * hd g in
    let temp_part := memo K (fun g => c_temp x g - temp_from_div g) in
    let logp_from_div := matvec K (blk M (2 * K) 0) (c_div x) 0%nat in
    let logp_part_value := c_lnps x - logp_from_div in
    let logp_part : nat -> F := fun _ => logp_part_value in
    mkCol
      inverted_divergence
      (fun g => matvec K (blk temp_logp_inverse 0 0) temp_part g
                + matvec 1 (blk temp_logp_inverse 0 K) logp_part g)
      (matvec K (blk temp_logp_inverse K 0) temp_part 0%nat
       + matvec 1 (blk temp_logp_inverse K K) logp_part 0%nat).

  Inductive Method := Split | Stacked | Blockwise.
  Definition implicit_inverse (m : Method) :=
    match m with Split => inverse_split | Stacked => inverse_stacked | Blockwise => inverse_blockwise end.

  (** vorticity and tracers: tendency zero, inverse = identity *)
  Definition passive_terms (v : F) : F := 0.
  Definition passive_inverse (v : F) : F := v.

  (** *** PrimitiveEquationsWithTime: (sim_time, state) *)
  Definition wt_implicit_terms (sparse : bool) (c : PEcfg) (lam : F) (tx : F * Col) : F * Col :=
    (0, implicit_terms sparse c lam (snd tx)).
  Definition wt_implicit_inverse (inv : nat -> Mat -> Mat) (c : PEcfg) (eta lam : F) (tx : F * Col) : F * Col :=
    (fst tx, inverse_split inv c eta lam (snd tx)).

  (** *** time_integration.TimeReversedImExODE wrapped around the primitive equations *)
  Definition tr_implicit_terms (sparse : bool) (c : PEcfg) (lam : F) (x : Col) : Col :=
    col_neg (implicit_terms sparse c lam x).
  (** forward_eq.implicit_inverse(state, -step_size): the default method 'split' *)
  Definition tr_implicit_inverse (inv : nat -> Mat -> Mat) (c : PEcfg) (eta lam : F) (x : Col) : Col :=
    implicit_inverse Split inv c (- eta) lam x.

  (** *** shallow_water.ShallowWaterEquations, one layer (reference potential
      [Phi]) and one coefficient: (divergence, potential). *)
  Definition sw_implicit_terms (Phi lam : F) (dp : F * F) : F * F :=
    (- (snd dp * lam), (- Phi) * fst dp).
  Definition sw_schur (Phi lam eta : F) : F := 1 - eta * eta * Phi * lam.
  Definition sw_implicit_inverse (Phi lam eta : F) (dp : F * F) : F * F :=
    let inverse_schur_complement := 1 / sw_schur Phi lam eta in
    (inverse_schur_complement * (fst dp - eta * (snd dp * lam)),
     inverse_schur_complement * ((- eta) * Phi * fst dp + snd dp)).
  Definition sw_minus_scaled (x : F * F) (eta : F) (t : F * F) : F * F :=
    (fst x - eta * fst t, snd x - eta * snd t).
  Definition sw_tr_implicit_terms (Phi lam : F) (dp : F * F) : F * F :=
    let t := sw_implicit_terms Phi lam dp in (- fst t, - snd t).
  Definition sw_tr_implicit_inverse (Phi lam eta : F) := sw_implicit_inverse Phi lam (- eta).
End Implicit.
