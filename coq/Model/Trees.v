(** Model of the restructuring utilities of dinosaur/pytree_utils.py and of the
    spectral down/up-sampling helpers of dinosaur/coordinate_systems.py.
    Definitions only (proofs: Thm/Trees.v).

    Strings are lists of character codes ([list Z]); a Python [dict] is an
    association list in insertion order whose keys are unique ([dset] replaces
    in place, appends otherwise - exactly CPython's behaviour); Python
    exceptions are [None].  Leaves of nested dictionaries are integers. *)
From Coq Require Import ZArith List Bool Lia.
Import ListNotations.

(** ** strings *)
Definition str := list Z.

Fixpoint str_eqb (a b : str) : bool :=
  match a, b with
  | [], [] => true
  | x :: a', y :: b' => Z.eqb x y && str_eqb a' b'
  | _, _ => false
  end.

(** [sep in k] for a one-character [sep] *)
Definition contains (sep : Z) (k : str) : bool := existsb (Z.eqb sep) k.

(** [s.split(sep)] for a one-character [sep]: never empty *)
Fixpoint split (sep : Z) (s : str) : list str :=
  match s with
  | [] => [[]]
  | c :: r =>
      if Z.eqb c sep then [] :: split sep r
      else match split sep r with h :: t => (c :: h) :: t | [] => [[c]] end
  end.

(** truthiness of a string *)
Definition nonempty {A} (s : list A) : bool := match s with [] => false | _ => true end.

(** ** insertion-ordered dictionaries *)
Section Dict.
  Context {V : Type}.
  Fixpoint dget (k : str) (d : list (str * V)) : option V :=
    match d with
    | [] => None
    | (k', v) :: r => if str_eqb k k' then Some v else dget k r
    end.
  (** [d[k] = v] *)
  Fixpoint dset (k : str) (v : V) (d : list (str * V)) : list (str * V) :=
    match d with
    | [] => [(k, v)]
    | (k', v') :: r => if str_eqb k k' then (k', v) :: r else (k', v') :: dset k v r
    end.
  Definition dmem (k : str) (d : list (str * V)) : bool :=
    match dget k d with Some _ => true | None => false end.
  (** [a | b] and [dict(items)] *)
  Definition dmerge (a b : list (str * V)) : list (str * V) :=
    fold_left (fun d kv => dset (fst kv) (snd kv) d) b a.
  Definition dict_of (items : list (str * V)) : list (str * V) := dmerge [] items.
End Dict.

(** [(np.unique(keys, return_counts=True)[1] > 1).any()] *)
Fixpoint has_dup (l : list str) : bool :=
  match l with
  | [] => false
  | x :: r => existsb (str_eqb x) r || has_dup r
  end.

(** ** nested dictionaries *)
Inductive tree : Type :=
| Leaf (v : Z)
| Node (l : list (str * tree)).

Definition dict := list (str * tree).

(** Python's [==] on nested dictionaries (order-insensitive). *)
Fixpoint tree_eqb (t1 t2 : tree) : bool :=
  match t1, t2 with
  | Leaf a, Leaf b => Z.eqb a b
  | Node l1, Node l2 =>
      Nat.eqb (length l1) (length l2) &&
      forallb (fun kc => let '(k, c) := kc in
                         match dget k l2 with Some c2 => tree_eqb c c2 | None => false end) l1
  | _, _ => false
  end.

(** path lookup and what is found there: [None] nothing, [Some (Some v)] a leaf,
    [Some None] a (possibly empty) dictionary *)
Fixpoint getp (q : list str) (t : tree) : option tree :=
  match q with
  | [] => Some t
  | k :: r => match t with
              | Leaf _ => None
              | Node l => match dget k l with Some c => getp r c | None => None end
              end
  end.
Definition view (q : list str) (t : tree) : option (option Z) :=
  match getp q t with
  | None => None
  | Some (Leaf v) => Some (Some v)
  | Some (Node _) => Some None
  end.

(** *** flatten_dict *)
Definition flat_result : Type := list (str * Z) * list str.

(** the [for k, v in input_dict.items()] loop; [rec] is the recursive call *)
Definition new_key_of (sep : Z) (prefix : str) (nested : bool) (k : str) : str :=
  if nonempty prefix || nested then prefix ++ sep :: k else k.

Definition flatten_loop (rec : str -> tree -> option flat_result)
           (sep : Z) (prefix : str) (nested : bool) : list (str * tree) -> option flat_result :=
  fix loop (l : list (str * tree)) : option flat_result :=
    match l with
    | [] => Some ([], [])
    | (k, v) :: r =>
        if contains sep k then None
        else
          let new_key := new_key_of sep prefix nested k in
          let here :=
              match v with
              | Node [] => Some ([], [new_key])
              | Node _ => rec new_key v
              | Leaf x => Some ([(new_key, x)], [])
              end in
          match here, loop r with
          | Some (i1, e1), Some (i2, e2) => Some (i1 ++ i2, e1 ++ e2)
          | _, _ => None
          end
    end.

(** the two duplicate checks and [dict(items), tuple(empty_keys)] *)
Definition flatten_post (r : option flat_result) : option flat_result :=
  match r with
  | None => None
  | Some (items, empties) =>
      if has_dup (map fst items) then None
      else if has_dup empties then None
      else Some (dict_of items, empties)
  end.

(** [flatten_dict(Node l, prefix, sep, _nested=nested)]; the recursive call
    passes [_nested=True] *)
Fixpoint flatten_t (sep : Z) (prefix : str) (nested : bool) (t : tree) {struct t} : option flat_result :=
  match t with
  | Leaf _ => None
  | Node l =>
      flatten_post
        ((fix loop (l : list (str * tree)) : option flat_result :=
            match l with
            | [] => Some ([], [])
            | (k, v) :: r =>
                if contains sep k then None
                else
                  let new_key := new_key_of sep prefix nested k in
                  let here :=
                      match v with
                      | Node [] => Some ([], [new_key])
                      | Node _ => flatten_t sep new_key true v
                      | Leaf x => Some ([(new_key, x)], [])
                      end in
                  match here, loop r with
                  | Some (i1, e1), Some (i2, e2) => Some (i1 ++ i2, e1 ++ e2)
                  | _, _ => None
                  end
            end) l)
  end.

(** [flatten_dict(d, prefix, sep)] (public call: [_nested=False]) *)
Definition flatten_dict (sep : Z) (prefix : str) (d : dict) : option flat_result :=
  flatten_t sep prefix false (Node d).

(** *** unflatten_dict *)
(** the body of the [for key, value in ...] loop for [sub_keys = path];
    walking into a leaf raises TypeError *)
Fixpoint ins (path : list str) (val : tree) (d : dict) : option dict :=
  match path with
  | [] => None
  | [k] => Some (dset k val d)
  | k :: rest =>
      match dget k d with
      | Some (Node sub) =>
          match ins rest val sub with Some sub' => Some (dset k (Node sub') d) | None => None end
      | Some (Leaf _) => None
      | None =>
          match ins rest val [] with Some sub' => Some (dset k (Node sub') d) | None => None end
      end
  end.

Definition ins_all (sep : Z) (entries : dict) (acc : option dict) : option dict :=
  fold_left (fun acc kv => match acc with
                           | Some d => ins (split sep (fst kv)) (snd kv) d
                           | None => None end) entries acc.

Definition leaf_entries (flat : list (str * Z)) : dict := map (fun kv => (fst kv, Leaf (snd kv))) flat.
Definition empty_entries (empties : list str) : dict := dict_of (map (fun k => (k, Node [])) empties).

(** [unflatten_dict(flat_dict, empty_keys, sep)] *)
Definition unflatten_dict (sep : Z) (flat : list (str * Z)) (empties : list str) : option dict :=
  ins_all sep (dmerge (leaf_entries flat) (empty_entries empties)) (Some []).

(** *** replace_with_matching_or_default (sep is the default '&' = 38) *)
Definition amp : Z := 38%Z.
Definition replace_with_matching_or_default
           (x repl : dict) (default : Z) (check_used : bool) : option dict :=
  match flatten_dict amp [] x, flatten_dict amp [] repl with
  | Some (flat_x, empty_keys), Some (flat_r, _) =>
      if check_used && existsb (fun kv => negb (dmem (fst kv) flat_x)) flat_r then None
      else
        let flat_result :=
            dict_of (map (fun kv => (fst kv, match dget (fst kv) flat_r with
                                             | Some v => v | None => default end)) flat_x) in
        unflatten_dict amp flat_result empty_keys
  | _, _ => None
  end.

(** *** well-formedness of an input dictionary (boolean precondition) *)
(** keys unique per level and free of [sep], at every level *)
Fixpoint wf_tree (sep : Z) (t : tree) : bool :=
  match t with
  | Leaf _ => true
  | Node l =>
      negb (has_dup (map fst l)) &&
      forallb (fun kc => let '(k, c) := kc in negb (contains sep k) && wf_tree sep c) l
  end.
Definition wf_dict (sep : Z) (d : dict) : bool := wf_tree sep (Node d).

(** ** pytrees of arrays, seen along the packing axis *)
(** An array is the list of its slabs along the axis in question
    ([moveaxis(a, axis, 0)]); a pytree is the list of its leaves (the treedef
    only contributes the number of leaves). *)
Section Arrays.
  Context {A : Type}.

  (** [np.cumsum] *)
  Fixpoint cumsum_from (s : nat) (l : list nat) : list nat :=
    match l with [] => [] | n :: r => (s + n) :: cumsum_from (s + n) r end.
  Definition cumsum := cumsum_from 0.

  (** [a[st:en]] for 0 <= st, en *)
  Definition slice (st en : nat) (a : list A) : list A := skipn st (firstn en a).
  (** [np.split(a, indices)]: pieces between consecutive division points *)
  Fixpoint pieces (st : nat) (idx : list nat) (a : list A) : list (list A) :=
    match idx with
    | [] => [slice st (length a) a]
    | e :: r => slice st e a :: pieces e r a
    end.
  Definition split_at (idx : list nat) (a : list A) : list (list A) := pieces 0 idx a.
  (** [np.split(a, n)]: n equal sections *)
  Fixpoint chunks (sz n : nat) (a : list A) : list (list A) :=
    match n with O => [] | S n' => firstn sz a :: chunks sz n' (skipn sz a) end.
  Definition split_sections (n : nat) (a : list A) : option (list (list A)) :=
    match n with
    | O => None
    | _ => if Nat.eqb (Nat.modulo (length a) n) 0 then Some (chunks (Nat.div (length a) n) n a) else None
    end.
  (** [squeeze(x, axis)] of a size-1 axis *)
  Definition squeeze1 (p : list A) : option A := match p with [x] => Some x | _ => None end.
  Fixpoint all_some {B} (l : list (option B)) : option (list B) :=
    match l with
    | [] => Some []
    | None :: _ => None
    | Some x :: r => match all_some r with Some r' => Some (x :: r') | None => None end
    end.

  (** [tree_unflatten(tree_def, leaves)] with [nleaves] expected leaves *)
  Definition tree_unflatten {B} (nleaves : nat) (leaves : list B) : option (list B) :=
    if Nat.eqb (length leaves) nleaves then Some leaves else None.

  (** [pack_pytree]: [None] for the empty pytree, else concatenate *)
  Definition pack_pytree (flat : list (list A)) : option (list A) :=
    match flat with [] => None | _ => Some (concat flat) end.
  (** [unpack_to_pytree(array, shapes)]; [sizes] = [x[axis] for x in shapes] *)
  Definition unpack_to_pytree (array : list A) (sizes : list nat) : option (list (list A)) :=
    let splits := removelast (cumsum sizes) in
    tree_unflatten (length sizes) (split_at splits array).

  (** [stack_pytree]: leaves become the slabs along the new axis *)
  Definition stack_pytree (flat : list A) : option (list A) :=
    match flat with [] => None | _ => Some flat end.
  (** [unstack_to_pytree(array, shapes)] *)
  Definition unstack_to_pytree (array : list A) (nleaves : nat) : option (list A) :=
    match split_sections (length array) array with
    | None => None
    | Some sp => match all_some (map squeeze1 sp) with
                 | None => None
                 | Some leaves => tree_unflatten nleaves leaves
                 end
    end.

  (** Python slice bound normalisation for an axis of length [n] *)
  Definition norm_index (i : Z) (n : nat) : nat :=
    if Z.ltb i 0 then Z.to_nat (Z.max 0 (i + Z.of_nat n)) else Nat.min (Z.to_nat i) n.
  (** [split_along_axis(inputs, split_idx, axis)] leafwise: a[0:i], a[i:] *)
  Definition split_along_axis (split_idx : Z) (inputs : list (list A))
    : list (list A) * list (list A) :=
    (map (fun a => slice 0 (norm_index split_idx (length a)) a) inputs,
     map (fun a => slice (norm_index split_idx (length a)) (length a) a) inputs).

  (** [zip( * ls)] (truncates to the shortest) *)
  Fixpoint zip_cons {B} (l : list B) (r : list (list B)) : list (list B) :=
    match l, r with x :: l', y :: r' => (x :: y) :: zip_cons l' r' | _, _ => [] end.
  Fixpoint zip_star {B} (ls : list (list B)) : list (list B) :=
    match ls with
    | [] => []
    | [l] => map (fun x => [x]) l
    | l :: r => zip_cons l (zip_star r)
    end.

  (** [concat_along_axis(pytrees, axis)] = tree_map(concatenate, *pytrees):
      all pytrees need the same number of leaves *)
  Definition concat_along_axis (pytrees : list (list (list A))) : option (list (list A)) :=
    match pytrees with
    | [] => None
    | t0 :: rest =>
        if forallb (fun t => Nat.eqb (length t) (length t0)) rest
        then Some (map (@concat A) (zip_star pytrees))
        else None
    end.

  (** [split_axis(inputs, axis, keep_dims=True)]: one pytree per index *)
  Definition split_axis_keep (inputs : list (list A)) : option (list (list (list A))) :=
    match inputs with
    | [] => None
    | a0 :: rest =>
        let n := length a0 in
        if forallb (fun a => Nat.eqb (length a) n) rest then
          match all_some (map (split_sections n) inputs) with
          | Some splits => Some (zip_star splits)
          | None => None
          end
        else None
    end.
  (** [keep_dims=False]: the size-1 axis is squeezed away *)
  Definition split_axis_squeeze (inputs : list (list A)) : option (list (list A)) :=
    match split_axis_keep inputs with
    | None => None
    | Some trees => all_some (map (fun t => all_some (map squeeze1 t)) trees)
    end.
End Arrays.

(** ** spectral down-/up-sampling: prefix slice / zero padding of the last two axes *)
(** A coefficient array is a list of [M] rows (longitudinal index) of [L]
    entries (total wavenumber index); leading axes are mapped over. *)
Section Spectral.
  Context {F : Type} (zero : F).

  (** [x[..., 0:M', 0:L']] *)
  Definition slice2 (M' L' : nat) (x : list (list F)) : list (list F) :=
    firstn M' (map (firstn L') x).
  (** [jnp.pad(x, ((0, dM), (0, dL)))] *)
  Definition pad2 (dM dL : nat) (L : nat) (x : list (list F)) : list (list F) :=
    map (fun row => row ++ repeat zero dL) x ++ repeat (repeat zero (L + dL)) dM.

  (** get_spectral_downsample_fn: (Mw, Lw) wavenumber counts, (M, L) modal shapes *)
  Definition downsample (Mw Lw Mw' Lw' : nat) (M' L' : nat) (x : list (list F))
    : option (list (list F)) :=
    if Nat.ltb Lw Lw' || Nat.ltb Mw Mw' then None else Some (slice2 M' L' x).
  (** get_spectral_upsample_fn from modal shape (M, L) to (M', L') *)
  Definition upsample (M L M' L' : nat) (x : list (list F)) : option (list (list F)) :=
    if Nat.ltb M' M || Nat.ltb L' L then None else Some (pad2 (M' - M) (L' - L) L x).
  (** get_spectral_interpolate_fn *)
  Definition interpolate (Mw Lw M L Mw' Lw' M' L' : nat) (x : list (list F))
    : option (list (list F)) :=
    if Nat.ltb Lw Lw' && Nat.ltb Mw Mw' then upsample M L M' L' x
    else if Nat.leb Lw' Lw && Nat.leb Mw' Mw then downsample Mw Lw Mw' Lw' M' L' x
    else None.

  Definition coef (x : list (list F)) (m l : nat) : F := nth l (nth m x []) zero.
End Spectral.
