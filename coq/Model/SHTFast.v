(** Model of the fast spherical-harmonic transform layout (properties C09, C01):
    dinosaur/spherical_harmonic.py
      _round_to_multiple, _unstack_m, _stack_m, _transform_einsum (argument order),
      FastSphericalHarmonics.__post_init__ (default of stacked_fourier_transforms),
        nodal_shape / modal_shape / paddings / modal_axes / mask / basis (the
        Fortran-order reshape of f for stacked transforms) / inverse_transform /
        transform,
    and the fixed re-indexing between the two coefficient layouts.
    Definitions only.

    Fast layout: modal rows k = 2m + s, s = 0 (cos, +m) / 1 (sin, -m); row 1 is
    the extra "m = -0" row; [Mh] = number of |m| values after padding (the
    padded modal array has [2*Mh] rows), [Lf],[If],[Jf] = padded sizes.
    Tables as dumped from [basis]: [f i k] (unstacked, If x 2Mh) or
    [f3 i s m] (stacked, If x 2 x Mh), [p m j l] (Mh x Jf x Lf, one copy per |m|),
    [w j] (Jf). *)
From Dino Require Import Base.Ops Base.Sums Model.SHT.
Local Open Scope F_scope.

(** *** integer part: shapes, paddings, modal axes, mask *)

(** _round_to_multiple(x, multiple) = multiple * ceil(x / multiple) *)
Definition ceil_div (x m : nat) : nat := (x + m - 1) / m.
Definition round_to_multiple (x m : nat) : nat := m * ceil_div x m.

(** modal_shape: multiples (2*base*x_shards, base*y_shards) of limits (2M, L);
    nodal_shape: multiples (base*x_shards, base*y_shards) of limits (I, J) *)
Definition modal_rows_fast (base xs M : nat) : nat := round_to_multiple (2 * M) (2 * base * xs).
Definition modal_cols_fast (base ys L : nat) : nat := round_to_multiple L (base * ys).
Definition nodal_rows_fast (base xs I : nat) : nat := round_to_multiple I (base * xs).
Definition nodal_cols_fast (base ys J : nat) : nat := round_to_multiple J (base * ys).

(** __post_init__: stack iff 2*ceil(M/256) <= ceil(M/128) *)
Definition default_stacked (M : nat) : bool := Nat.leb (2 * ceil_div M 256) (ceil_div M 128).

(** modal_axes[0] = pad([0, 0, 1, -1, 2, -2, ...], (0, pad)); modal_axes[1] = pad(arange(L)) *)
Definition m_fast (M k : nat) : Z :=
  if (k <? 2) || negb (k <? 2 * M) then 0%Z
  else if Nat.even k then Z.of_nat (k / 2) else (- Z.of_nat (k / 2))%Z.
Definition l_fast (L l : nat) : Z := if l <? L then Z.of_nat l else 0%Z.
(** mask = (abs(m) <= l) & (i != 1) & (i < i_lim) & (j < j_lim) *)
Definition mask_fast (M L k l : nat) : bool :=
  Z.leb (Z.abs (m_fast M k)) (l_fast L l) && negb (k =? 1) && (k <? 2 * M) && (l <? L).

(** the fixed re-indexing: real row a  |->  fast row phi a *)
Definition phi (a : nat) : nat := match a with O => O | S _ => S a end.

Section Fast.
  Context {F : Type} {o : Ops F}.

  Definition sh_memo3 (b n m : nat) (g : nat -> nat -> nat -> F) : nat -> nat -> nat -> F :=
    let t := map (fun q => sh_memo2 n m (g q)) (seq 0 b) in
    fun q => nth q t (fun _ _ => 0).

  (** einsum(subscripts, lhs, rhs) vs. the reversed call einsum(.., rhs, lhs) *)
  Definition emul (rev : bool) (a b : F) : F := if rev then b * a else a * b.

  (** jnp.reshape(x, (..., 2, n/2, L), order='F') and its inverse *)
  Definition unstack_m (x : nat -> nat -> F) : nat -> nat -> nat -> F :=
    fun s m l => x (2 * m + s)%nat l.
  Definition stack_m (x : nat -> nat -> nat -> F) : nat -> nat -> F :=
    fun k l => x (k mod 2)%nat (k / 2)%nat l.
  (** basis: f = np.reshape(f, (-1, 2, f.shape[-1] // 2), order='F') *)
  Definition stack_f (f : nat -> nat -> F) : nat -> nat -> nat -> F :=
    fun i s m => f i (2 * m + s)%nat.

  (** 'mjl,...sml->...smj' *)
  Definition inv_legendre_f (rev : bool) (Lf : nat) (p : nat -> nat -> nat -> F)
             (xs : nat -> nat -> nat -> F) : nat -> nat -> nat -> F :=
    fun s m j => sumn Lf (fun l => emul rev (p m j l) (xs s m l)).
  (** 'mjl,...smj->...sml' *)
  Definition fwd_legendre_f (rev : bool) (Jf : nat) (p : nat -> nat -> nat -> F)
             (fx : nat -> nat -> nat -> F) : nat -> nat -> nat -> F :=
    fun s m l => sumn Jf (fun j => emul rev (p m j l) (fx s m j)).

  (** inverse_transform, stacked_fourier_transforms = False:
      _unstack_m; inv_legendre; _stack_m; 'im,...mj->...ij' *)
  Definition synth_fast_u (rev : bool) (Mh Lf Jf : nat) (f : nat -> nat -> F) p
             (x : nat -> nat -> F) : nat -> nat -> F :=
    let px := inv_legendre_f rev Lf p (unstack_m x) in
    let st := sh_memo2 (2 * Mh) Jf (stack_m px) in
    fun i j => sumn (2 * Mh) (fun k => emul rev (f i k) (st k j)).
  (** inverse_transform, stacked: _unstack_m; inv_legendre; 'ism,...smj->...ij' *)
  Definition synth_fast_s (rev : bool) (Mh Lf Jf : nat) (f3 : nat -> nat -> nat -> F) p
             (x : nat -> nat -> F) : nat -> nat -> F :=
    let px := sh_memo3 2 Mh Jf (inv_legendre_f rev Lf p (unstack_m x)) in
    fun i j => sumn 2 (fun s => sumn Mh (fun m => emul rev (f3 i s m) (px s m j))).

  (** transform, unstacked: x = w * x; 'im,...ij->...mj'; _unstack_m; fwd_legendre; _stack_m *)
  Definition analysis_fast_u (rev : bool) (Mh If Jf : nat) (f : nat -> nat -> F) p (w : nat -> F)
             (z : nat -> nat -> F) : nat -> nat -> F :=
    let wx := sh_memo2 If Jf (fun i j => w j * z i j) in
    let fx := sh_memo2 (2 * Mh) Jf (fun k j => sumn If (fun i => emul rev (f i k) (wx i j))) in
    stack_m (fwd_legendre_f rev Jf p (unstack_m fx)).
  (** transform, stacked: x = w * x; 'ism,...ij->...smj'; fwd_legendre; _stack_m *)
  Definition analysis_fast_s (rev : bool) (Mh If Jf : nat) (f3 : nat -> nat -> nat -> F) p (w : nat -> F)
             (z : nat -> nat -> F) : nat -> nat -> F :=
    let wx := sh_memo2 If Jf (fun i j => w j * z i j) in
    let fx := sh_memo3 2 Mh Jf (fun s m j => sumn If (fun i => emul rev (f3 i s m) (wx i j))) in
    stack_m (fwd_legendre_f rev Jf p fx).

  (** leading axes *)
  Definition synth_fast_batch (stacked rev : bool) (Mh Lf Jf : nat) f f3 p
             (x : nat -> nat -> nat -> F) : nat -> nat -> nat -> F :=
    fun n => if stacked then synth_fast_s rev Mh Lf Jf f3 p (x n) else synth_fast_u rev Mh Lf Jf f p (x n).
  Definition analysis_fast_batch (stacked rev : bool) (Mh If Jf : nat) f f3 p w
             (z : nat -> nat -> nat -> F) : nat -> nat -> nat -> F :=
    fun n => if stacked then analysis_fast_s rev Mh If Jf f3 p w (z n)
             else analysis_fast_u rev Mh If Jf f p w (z n).

  (** *** the re-indexing between the layouts *)
  (** E : real modal (2M-1 x L)  ->  fast modal (insert the zero m=-0 row, zero-pad) *)
  Definition embed (M L : nat) (x : nat -> nat -> F) : nat -> nat -> F :=
    fun k l => if (k <? 2 * M) && (l <? L)
               then match k with O => x O l | S O => 0 | S k' => x k' l end
               else 0.
  (** Pi : fast modal -> real modal *)
  Definition proj (y : nat -> nat -> F) : nat -> nat -> F := fun a l => y (phi a) l.
  (** nodal zero padding *)
  Definition pad2 (I J : nat) (z : nat -> nat -> F) : nat -> nat -> F :=
    fun i j => if (i <? I) && (j <? J) then z i j else 0.
End Fast.
