(** Whole-state executable model of the dry primitive equations on the FAST
    spherical-harmonic layout (property C09, "hence the same model tendencies"):
      PrimitiveEquations.explicit_terms / implicit_terms / implicit_inverse
      with spherical_harmonics_impl = FastSphericalHarmonics
      (padded shapes, extra m = -0 row, stacked / unstacked Fourier step, either einsum
      argument order).  Definitions only.

    The composition of Model/PrimEqFull.v is re-stated ONCE, parametric in a record
    [HOps] of horizontal operators ([*_o] definitions, the same text as PrimEqFull.v with
    the operators abstracted); [real_ops g] gives back Model/PrimEqFull.v (equalities by
    [reflexivity] in Thm/PrimEqFullFast.v), [fast_ops q] is the fast layout:
      Model/SHTFast.v  synth_fast_{u,s} / analysis_fast_{u,s}
      Model/Deriv.v    cos_lat_grad / div_cos_lat / curl_cos_lat / get_cos_lat_vector with
                       fast = true on (2*Mh) x Lf arrays, laplacian, clip L Lf 1.
    Tables (inputs): the fast basis f (If x 2Mh; the stacked transform uses its
    Fortran-order reshape [stack_f]), p (Mh x Jf x Lf), w (Jf), the derivative recurrence
    weights a b (2Mh x Lf), sec2_lat, sin_lat (Jf). *)
From Dino Require Import Model.Integrators.
From Dino Require Import Base.Ops Base.Sums Base.Ord Model.Sigma Model.Implicit Model.PrimEq Model.SHT Model.SHTFast
     Model.Deriv Model.PrimEqFull.
Local Open Scope F_scope.

Section PrimEqFullFast.
  Context {F : Type} {o : Ops F}.

  (** the horizontal operators the whole-state composition is built from (one level each) *)
  Record HOps := mkHO {
    oR : nat; oC : nat; oI : nat; oJ : nat;                  (* stored modal / nodal shapes *)
    o_tn : (nat -> nat -> F) -> nat -> nat -> F;             (* Grid.to_nodal *)
    o_tm : (nat -> nat -> F) -> nat -> nat -> F;             (* Grid.to_modal *)
    o_grad : (nat -> nat -> F) -> @vec2 F;                   (* cos_lat_grad, clip=False *)
    o_div : (nat -> nat -> F) -> (nat -> nat -> F) -> nat -> nat -> F;   (* div_cos_lat *)
    o_curl : (nat -> nat -> F) -> (nat -> nat -> F) -> nat -> nat -> F;  (* curl_cos_lat *)
    o_lap : (nat -> nat -> F) -> nat -> nat -> F;            (* laplacian *)
    o_clip : (nat -> nat -> F) -> nat -> nat -> F;           (* clip_wavenumbers *)
    o_uv : (nat -> nat -> F) -> (nat -> nat -> F) -> @vec2 F;  (* get_cos_lat_vector(clip=False) *)
    o_sec2 : nat -> F;                                       (* sec2_lat *)
    o_cor : nat -> F;                                        (* coriolis_parameter *)
    o_eig : nat -> F }.                                      (* laplacian_eigenvalues *)

  Section WithOps.
  Variable O : HOps.

  Definition X_of_o (d : @Diag F) (p : Wi) : NCol :=
    let i := fst p in let j := snd p in
    mkNCol (fun k => d_u d k i j) (fun k => d_v d k i j) (fun k => d_vort d k i j) (fun k => d_div d k i j)
           (fun k => d_temp d k i j) (d_gx d i j) (d_gy d i j) (o_sec2 O j) (o_cor O j).

  Definition to_nodal3_o (K : nat) (x : nat -> nat -> nat -> F) : nat -> nat -> nat -> F :=
    memo3 K (oI O) (oJ O) (fun k => o_tn O (x k)).
  Definition diagnostic_state_o (K : nat) (s : State) : Diag :=
    let cos_lat_grad_log_sp := o_grad O (s_lnps s) in
    mkDiag (to_nodal3_o K (s_vort s)) (to_nodal3_o K (s_div s)) (to_nodal3_o K (s_temp s))
           (to_nodal3_o K (fun k => fst (o_uv O (s_vort s k) (s_div s k))))
           (to_nodal3_o K (fun k => snd (o_uv O (s_vort s k) (s_div s k))))
           (sh_memo2 (oI O) (oJ O) (o_tn O (fst cos_lat_grad_log_sp)))
           (sh_memo2 (oI O) (oJ O) (o_tn O (snd cos_lat_grad_log_sp)))
           (map (to_nodal3_o K) (s_tr s)).

  Definition tm_o (z : nat -> nat -> F) : nat -> nat -> F := sh_memo2 (oR O) (oC O) (o_tm O z).
  Definition vort_of_o (cu cv : nat -> nat -> F) : nat -> nat -> F :=
    o_clip O (fun a l => - o_curl O cu cv a l + 0).
  Definition div_of_o (grav : F) (orog cu cv ke : nat -> nat -> F) : nat -> nat -> F :=
    o_clip O (fun a l => - o_div O cu cv a l + - o_lap O ke a l + - grav * o_lap O orog a l + 0).
  Definition scalar_of_o (tot mu mv : nat -> nat -> F) : nat -> nat -> F :=
    o_clip O (fun a l => tot a l + - o_div O mu mv a l).

  Definition explicit_level_o (c : @PEcfg F) (grav : F) (orog : nat -> nat -> F) (d : Diag) (r : nat) : Lev :=
    let X := fun i j => X_of_o d (i, j) in
    let cu := tm_o (fun i j => combined_u c true (X i j) (rt_dry c (X i j)) r) in
    let cv := tm_o (fun i j => combined_v c true (X i j) (rt_dry c (X i j)) r) in
    let ke := tm_o (fun i j => kinetic (X i j) r) in
    let tmu := tm_o (fun i j => hsa_mu (X i j) (n_temp (X i j)) r) in
    let tmv := tm_o (fun i j => hsa_mv (X i j) (n_temp (X i j)) r) in
    let ttot := tm_o (fun i j => temp_nodal_total c true (X i j) r) in
    mkLev (sh_memo2 (oR O) (oC O) (vort_of_o cu cv))
          (sh_memo2 (oR O) (oC O) (div_of_o grav orog cu cv ke))
          (sh_memo2 (oR O) (oC O) (scalar_of_o ttot tmu tmv))
          (map (fun t =>
                  let s := fun i j => tr_of t (i, j) in
                  sh_memo2 (oR O) (oC O)
                           (scalar_of_o (tm_o (fun i j => tracer_nodal_total c true (X i j) (s i j) r))
                                        (tm_o (fun i j => hsa_mu (X i j) (s i j) r))
                                        (tm_o (fun i j => hsa_mv (X i j) (s i j) r))))
               (d_tr d)).
  Definition lnps_explicit_o (c : @PEcfg F) (d : Diag) : nat -> nat -> F :=
    o_clip O (tm_o (fun i j => log_pressure_tendency c (X_of_o d (i, j)))).

  Definition explicit_terms_of_diag_o (c : @PEcfg F) (grav : F) (orog : nat -> nat -> F) (d : Diag) : State :=
    let lv := map (explicit_level_o c grav orog d) (seq 0 (cK c)) in
    let ntr := length (d_tr d) in
    mkState (fun k => l_vort (nth k lv lev0)) (fun k => l_div (nth k lv lev0)) (fun k => l_temp (nth k lv lev0))
            (sh_memo2 (oR O) (oC O) (lnps_explicit_o c d))
            (map (fun n => fun k => nth n (l_tr (nth k lv lev0)) (fun _ _ => 0)) (seq 0 ntr)).

  (** PrimitiveEquations.explicit_terms *)
  Definition explicit_terms_full_o (c : @PEcfg F) (grav : F) (orog : nat -> nat -> F) (s : State) : State :=
    let d := diagnostic_state_o (cK c) s in
    explicit_terms_of_diag_o c grav orog d.

  (** PrimitiveEquations.implicit_terms (method 'dense') *)
  Definition implicit_terms_full_o (c : @PEcfg F) (s : State) : State :=
    mkState zero3
            (fun k a l => div_tendency_implicit Wi (fun x => unc (o_lap O (cur x))) c
                                                (fun k' => unc (s_temp s k')) (unc (s_lnps s)) k (a, l))
            (fun k a l => temp_tendency_implicit Wi c (fun k' => unc (s_div s k')) k (a, l))
            (fun a l => lnps_implicit_col c (fun k' => s_div s k' a l))
            (map (fun _ => zero3) (s_tr s)).

  (** PrimitiveEquations.implicit_inverse(state, eta, method='split') *)
  Definition implicit_inverse_full_o (c : @PEcfg F) (eta : F) (invt : nat -> Mat) (s : State) : State :=
    let out := fun a l => inverse_split (fun _ _ => invt l) c eta (o_eig O l) (col_of s a l) in
    mkState (s_vort s)
            (fun k a l => c_div (out a l) k)
            (fun k a l => c_temp (out a l) k)
            (fun a l => c_lnps (out a l))
            (s_tr s).
  End WithOps.

  (** *** the reference instance: exactly Model/PrimEqFull.v *)
  Definition real_ops (g : @HGrid F) : HOps :=
    mkHO (hR g) (hL g) (hI g) (hJ g) (to_nodal g) (to_modal g) (gradm g) (divm g) (curlm g) (lapm g) (clipm g) (uvm g)
         (hsec2 g) (coriolis g) (Deriv.lap_eig (hL g) (hr g)).

  (** *** the fast instance.  spherical_harmonic.Grid with FastSphericalHarmonics:
      limits (M, L, I, J), padded shapes (2*Mh, Lf) modal and (If, Jf) nodal *)
  Record FGrid := mkFG {
    gM : nat; gL : nat; gI : nat; gJ : nat;
    gMh : nat; gLf : nat; gIf : nat; gJf : nat;
    gstacked : bool;                             (* stacked_fourier_transforms *)
    grev : bool;                                 (* reverse_einsum_arg_order *)
    gr : F;                                      (* radius *)
    gf : nat -> nat -> F;                        (* basis.f [i, k] (unstacked view) *)
    gp : nat -> nat -> nat -> F;                 (* basis.p [m, j, l] *)
    gw : nat -> F;                               (* basis.w [j] *)
    ga : nat -> nat -> F; gb : nat -> nat -> F;  (* _derivative_recurrence_weights, padded *)
    gsec2 : nat -> F; gsin : nat -> F;           (* sec2_lat, sin_lat (padded) *)
    gomega : F }.

  Definition to_nodal_f (q : FGrid) (x : nat -> nat -> F) : nat -> nat -> F :=
    if gstacked q then synth_fast_s (grev q) (gMh q) (gLf q) (gJf q) (stack_f (gf q)) (gp q) x
    else synth_fast_u (grev q) (gMh q) (gLf q) (gJf q) (gf q) (gp q) x.
  Definition to_modal_f (q : FGrid) (z : nat -> nat -> F) : nat -> nat -> F :=
    if gstacked q then analysis_fast_s (grev q) (gMh q) (gIf q) (gJf q) (stack_f (gf q)) (gp q) (gw q) z
    else analysis_fast_u (grev q) (gMh q) (gIf q) (gJf q) (gf q) (gp q) (gw q) z.

  Definition fast_ops (q : FGrid) : HOps :=
    let R := (2 * gMh q)%nat in
    mkHO R (gLf q) (gIf q) (gJf q) (to_nodal_f q) (to_modal_f q)
         (cos_lat_grad true (gL q) R (gLf q) (gr q) (ga q) (gb q) false)
         (fun x y => div_cos_lat true (gL q) R (gLf q) (gr q) (ga q) (gb q) false (x, y))
         (fun x y => curl_cos_lat true (gL q) R (gLf q) (gr q) (ga q) (gb q) false (x, y))
         (Deriv.laplacian (gL q) (gr q))
         (Deriv.clip (gL q) (gLf q) 1)
         (get_cos_lat_vector true (gL q) R (gLf q) (gr q) (ga q) (gb q) false)
         (gsec2 q) (fun j => two * gomega q * gsin q j)
         (Deriv.lap_eig (gL q) (gr q)).

  Definition diagnostic_state_fast (q : FGrid) := diagnostic_state_o (fast_ops q).
  Definition explicit_terms_full_fast (q : FGrid) := explicit_terms_full_o (fast_ops q).
  Definition implicit_terms_full_fast (q : FGrid) := implicit_terms_full_o (fast_ops q).
  Definition implicit_inverse_full_fast (q : FGrid) := implicit_inverse_full_o (fast_ops q).

  (** *** the re-indexing of a whole state: E on every level of every field, and Pi *)
  Definition embed_state (M L : nat) (s : @State F) : @State F :=
    mkState (fun k => embed M L (s_vort s k)) (fun k => embed M L (s_div s k)) (fun k => embed M L (s_temp s k))
            (embed M L (s_lnps s)) (map (fun t => fun k => embed M L (t k)) (s_tr s)).
  Definition proj_state (s : @State F) : @State F :=
    mkState (fun k => proj (s_vort s k)) (fun k => proj (s_div s k)) (fun k => proj (s_temp s k))
            (proj (s_lnps s)) (map (fun t => fun k => proj (t k)) (s_tr s)).

  (** *** time stepping (Model/Integrators.v) on whole states.
      [PwOps]: State as a vector space, pointwise operations on the four prognostic fields (the
      tracer list is dropped: tracers are passive in the dry equations, as in Thm/ScalingFull.v).
      [norm_real] / [norm_fast]: the in-range part of a state in normal form (reference layout:
      k < K, a < 2M-1, l < L, zero elsewhere; fast layout: E of the normal form of Pi), so that
      "equal on every in-range coefficient" is equality. *)
  Definition inr3 (K R L k a l : nat) : bool := (k <? K) && (a <? R) && (l <? L).
  Definition inr2 (R L a l : nat) : bool := (a <? R) && (l <? L).
  Definition cl3 (K R L : nat) (x : nat -> nat -> nat -> F) : nat -> nat -> nat -> F :=
    fun k a l => if inr3 K R L k a l then x k a l else 0.
  Definition cl2 (R L : nat) (x : nat -> nat -> F) : nat -> nat -> F :=
    fun a l => if inr2 R L a l then x a l else 0.
  Definition norm_real (K M L : nat) (s : @State F) : @State F :=
    let R := (2 * M - 1)%nat in
    mkState (cl3 K R L (s_vort s)) (cl3 K R L (s_div s)) (cl3 K R L (s_temp s)) (cl2 R L (s_lnps s)) [].
  Definition norm_fast (K M L : nat) (y : @State F) : @State F :=
    embed_state M L (norm_real K M L (proj_state y)).
  Definition PwOps : VOps F (@State F) :=
    mkVOps F (@State F)
      (mkState zero3 zero3 zero3 (fun _ _ => 0) [])
      (fun x y => mkState (fun k a l => s_vort x k a l + s_vort y k a l) (fun k a l => s_div x k a l + s_div y k a l)
                          (fun k a l => s_temp x k a l + s_temp y k a l) (fun a l => s_lnps x a l + s_lnps y a l) [])
      (fun t x => mkState (fun k a l => t * s_vort x k a l) (fun k a l => t * s_div x k a l)
                          (fun k a l => t * s_temp x k a l) (fun a l => t * s_lnps x a l) []).

  (** a spectral filter: every coefficient is multiplied by a factor that depends on the total
      wavenumber index only (exponential_filter, horizontal_diffusion_filter of
      dinosaur/filtering.py; runge_kutta_step_filter: a function of the state after the step) *)
  Definition lfilter (sigma : nat -> F) (u w : @State F) : @State F :=
    mkState (fun k a l => sigma l * s_vort w k a l) (fun k a l => sigma l * s_div w k a l)
            (fun k a l => sigma l * s_temp w k a l) (fun a l => sigma l * s_lnps w a l) [].
  (** time_integration.step_with_filters *)
  Fixpoint apply_filters_s (fl : list (@State F -> @State F -> @State F)) (u un : @State F) : @State F :=
    match fl with [] => un | f :: fl' => apply_filters_s fl' u (f u un) end.
  Definition filtered_step (step : @State F -> @State F) (fl : list (@State F -> @State F -> @State F))
             (u : @State F) : @State F := apply_filters_s fl u (step u).
End PrimEqFullFast.
