(** Model of the non-dimensionalisation of dinosaur/scales.py as used by the
    dynamical core (property C12).  Definitions only.

    A dimension is an exponent vector over (length, time, mass, temperature);
    a scale is a 4-tuple of field elements (the magnitudes, in SI base units, of
    the four quantities handed to [scales.Scale]).  [factor s d] is
    [Scale._scaling_factor] for a quantity of dimension [d]:
    nondimensionalize = value / factor, dimensionalize = value * factor.

    [dim_of] is a dimension-typing function for the expression language
    [expr] of Thm/Dual.v (all field operations): variables carry the declared
    dimension, literal constants are dimensionless, sums need equal dimensions,
    products add and quotients subtract exponents.

    The dimension assignment of the dynamical core (what the plugin uses):
      vorticity, divergence : T^-1      temperature, T_ref : Theta
      orography, radius : L             geopotential, shallow-water potential : L^2 T^-2
      R, R_vapor, Cp : L^2 T^-2 Theta^-1    g : L T^-2     kappa, q, sigma : 1
      Omega : T^-1   dt, eta, filter tau : T   surface pressure : M L^-1 T^-2
      log_surface_pressure: log of a pressure, i.e. an additive shift of the
      constant mode by -log(factor s pressure). *)
From Dino Require Import Base.Ops Base.Sums Model.Sigma Model.Implicit Model.PrimEq Model.Integrators Model.Forcings Thm.Dual.
Local Open Scope F_scope.

(** exponent vectors *)
Record dim : Type := mkdim { dL : Z; dT : Z; dM : Z; dK : Z }.
Definition dzero : dim := mkdim 0 0 0 0.
Definition dadd (a b : dim) : dim :=
  mkdim (dL a + dL b) (dT a + dT b) (dM a + dM b) (dK a + dK b).
Definition dsub (a b : dim) : dim :=
  mkdim (dL a - dL b) (dT a - dT b) (dM a - dM b) (dK a - dK b).
Definition dopp (a : dim) : dim := mkdim (- dL a) (- dT a) (- dM a) (- dK a).
Definition dim_eqb (a b : dim) : bool :=
  Z.eqb (dL a) (dL b) && Z.eqb (dT a) (dT b) && Z.eqb (dM a) (dM b) && Z.eqb (dK a) (dK b).

(** the dimensions used by the dynamical core *)
Definition d_one : dim := dzero.
Definition d_length : dim := mkdim 1 0 0 0.
Definition d_time : dim := mkdim 0 1 0 0.
Definition d_mass : dim := mkdim 0 0 1 0.
Definition d_temp : dim := mkdim 0 0 0 1.
Definition d_rate : dim := mkdim 0 (-1) 0 0.             (* vorticity, divergence, Omega, omega/p *)
Definition d_rate2 : dim := mkdim 0 (-2) 0 0.            (* tendencies of vorticity/divergence *)
Definition d_geopot : dim := mkdim 2 (-2) 0 0.           (* Phi, R*T, shallow-water potential *)
Definition d_gas : dim := mkdim 2 (-2) 0 (-1).           (* R, R_vapor, Cp *)
Definition d_grav : dim := mkdim 1 (-2) 0 0.             (* g *)
Definition d_pressure : dim := mkdim (-1) (-2) 1 0.
Definition d_temp_rate : dim := mkdim 0 (-1) 0 1.        (* temperature tendency *)
Definition d_vel : dim := mkdim 1 (-1) 0 0.              (* cos_lat_u *)
Definition d_invlen : dim := mkdim (-1) 0 0 0.           (* cos_lat_grad_log_sp: gradient on a sphere of radius a *)
Definition d_accel : dim := mkdim 1 (-2) 0 0.            (* terms of the momentum equation *)

Section Scaling.
  Context {F : Type} {o : Ops F}.

  (** integer powers, negative exponents allowed *)
  Fixpoint npow (x : F) (k : nat) : F := match k with O => 1 | S k' => x * npow x k' end.
  Definition zpow (x : F) (z : Z) : F :=
    match z with
    | Z0 => 1
    | Zpos p => npow x (Pos.to_nat p)
    | Zneg p => 1 / npow x (Pos.to_nat p)
    end.

  Record scale : Type := mkscale { sL : F; sT : F; sM : F; sK : F }.

  (** [Scale._scaling_factor(dimensionality)] *)
  Definition factor (s : scale) (d : dim) : F :=
    zpow (sL s) (dL d) * zpow (sT s) (dT d) * zpow (sM s) (dM d) * zpow (sK s) (dK d).

  (** [Scale.nondimensionalize] / [Scale.dimensionalize] on magnitudes in base units *)
  Definition nondim (s : scale) (d : dim) (x : F) : F := x / factor s d.
  Definition redim (s : scale) (d : dim) (v : F) : F := v * factor s d.

  Definition sinv (s : scale) : scale := mkscale (1 / sL s) (1 / sT s) (1 / sM s) (1 / sK s).
  Definition sunit : scale := mkscale 1 1 1 1.

  (** an environment of dimensioned variables seen through a scale *)
  Definition rescale (s : scale) (dv : nat -> dim) (x : nat -> F) : nat -> F :=
    fun i => factor s (dv i) * x i.
  Definition nondim_env (s : scale) (dv : nat -> dim) (x : nat -> F) : nat -> F :=
    fun i => nondim s (dv i) (x i).

  (** dimension typing of expressions *)
  Fixpoint dim_of (dv : nat -> dim) (e : expr F) : option dim :=
    match e with
    | EConst _ => Some dzero
    | EVar i => Some (dv i)
    | EAdd a b | ESub a b =>
        match dim_of dv a, dim_of dv b with
        | Some da, Some db => if dim_eqb da db then Some da else None
        | _, _ => None
        end
    | EMul a b =>
        match dim_of dv a, dim_of dv b with
        | Some da, Some db => Some (dadd da db)
        | _, _ => None
        end
    | EOpp a => dim_of dv a
    | EDiv a b =>
        match dim_of dv a, dim_of dv b with
        | Some da, Some db => Some (dsub da db)
        | _, _ => None
        end
    end.

  (** boolean version of "no denominator vanishes" (executable side condition) *)
  Fixpoint denoms_nzb (x : nat -> F) (e : expr F) : bool :=
    match e with
    | EConst _ | EVar _ => true
    | EAdd a b | ESub a b | EMul a b => denoms_nzb x a && denoms_nzb x b
    | EOpp a => denoms_nzb x a
    | EDiv a b => denoms_nzb x a && denoms_nzb x b && negb (feqb (eval x b) 0)
    end.

  (** *** the column operators of Model/Sigma.v seen through a scale: a column
      of dimension [d] is multiplied by [factor s d] *)
  Definition scol (c : F) (x : nat -> F) : nat -> F := fun k => c * x k.

  (** *** the log-surface-pressure variable.  [E] stands for exp. *)
  (** nodal: lnps under scale s = log(ps / factor s pressure): the difference
      between two scales is the constant [shift]. *)
  Definition shift_field (c : F) (x : nat -> F) : nat -> F := fun i => x i + c.
  (** modal: only the constant mode (index 0) is shifted, by [c00 * c] *)
  Definition shift_mode0 (c : F) (x : nat -> F) : nat -> F :=
    fun i => if Nat.eqb i 0 then x i + c else x i.
  (** a linear operator given by a matrix (rows x cols) *)
  Definition lin (n : nat) (A : nat -> nat -> F) (x : nat -> F) : nat -> F :=
    fun i => sumn n (fun j => A i j * x j).
  (** Held-Suarez: sigma * exp(lnps) / p0 *)
  Definition p_over_p0 (E : F -> F) (sigma lnps p0 : F) : F := sigma * E lnps / p0.

  (** *** one nodal column of the primitive equations (Model/PrimEq.v) seen through
      multipliers: [ku] velocity, [kr] rates, [kT] temperature, [kg] inverse
      length, [kR] gas constant; kappa, sigma, sec2_lat are dimensionless *)
  Definition scale_ncol (ku kr kT kg : F) (x : @NCol F) : NCol :=
    mkNCol (scol ku (n_u x)) (scol ku (n_v x)) (scol kr (n_vort x)) (scol kr (n_div x)) (scol kT (n_temp x))
           (kg * n_gx x) (kg * n_gy x) (n_sec2 x) (kr * n_f x).
  Definition scale_cfg (kT kR : F) (c : @PEcfg F) : PEcfg :=
    mkPE (cK c) (kR * cR c) (ckappa c) (cls c) (cb c) (scol kT (cTref c)).
  (** constants of the moist classes: R_vapor, Cp_vapor (L^2 T^-2 Theta^-1) *)
  Definition scale_moist (kR : F) (m : @Moist F) : Moist := mkMoist (kR * mRv m) (kR * mCpv m).

  (** Held-Suarez parameters (Model/Forcings.v): pressure [kp], rates [kr], temperatures [kT] *)
  Definition scale_hs (kp kr kT : F) (P : HSParams F) : HSParams F :=
    mkHSParams (kp * hp_p0 P) (hp_sigma_b P) (kr * hp_kf P) (kr * hp_ka P) (kr * hp_ks P)
               (kT * hp_minT P) (kT * hp_maxT P) (kT * hp_dTy P) (kT * hp_dThz P).

  (** the Held-Suarez parameters non-dimensionalised with a scale (what
      [HeldSuarezForcing.__init__] computes with [physics_specs.nondimensionalize]) *)
  Definition nondim_hs (s : scale) (P : HSParams F) : HSParams F :=
    mkHSParams (nondim s d_pressure (hp_p0 P)) (hp_sigma_b P) (nondim s d_rate (hp_kf P)) (nondim s d_rate (hp_ka P))
               (nondim s d_rate (hp_ks P)) (nondim s d_temp (hp_minT P)) (nondim s d_temp (hp_maxT P))
               (nondim s d_temp (hp_dTy P)) (nondim s d_temp (hp_dThz P)).
  (** the complete equilibrium temperature from the surface pressure: [pw] is
      x |-> x ** kappa and [lg] is log (any functions: they only see p/p0) *)
  Definition hs_teq_of_ps (pw lg : F -> F) (P : HSParams F) (sigma ps cl sl : F) : F :=
    hs_teq P (pw (hs_p_over_p0 P sigma ps)) (lg (hs_p_over_p0 P sigma ps)) cl sl.
  Definition scale_pos (s : scale) : bool :=
    negb (fleb (sL s) 0) && negb (fleb (sT s) 0) && negb (fleb (sM s) 0) && negb (fleb (sK s) 0).

  (** *** the implicit column model (Model/Implicit.v) as a state space for the
      integrators of Model/Integrators.v: one spectral coefficient (m,l), state
      = (divergence[K], temperature[K], lnps).  Entries beyond the K layers
      carry no information; [clipK] is the projection onto the K + K + 1 active
      entries. *)
  Definition clipv (K : nat) (v : nat -> F) : nat -> F := fun k => if Nat.ltb k K then v k else 0.
  Definition clipK (K : nat) (x : @Col F) : Col := mkCol (clipv K (c_div x)) (clipv K (c_temp x)) (c_lnps x).
  Definition ColOps : VOps F (@Col F) :=
    mkVOps F (@Col F) (mkCol (fun _ => 0) (fun _ => 0) 0)
      (fun x y => mkCol (fun k => c_div x k + c_div y k) (fun k => c_temp x k + c_temp y k) (c_lnps x + c_lnps y))
      (fun a x => mkCol (fun k => a * c_div x k) (fun k => a * c_temp x k) (a * c_lnps x)).
  (** implicit terms and resolvent of one coefficient with Laplacian eigenvalue [lam] *)
  Definition col_G (c : @PEcfg F) (lam : F) (x : Col) : Col := clipK (cK c) (implicit_terms false c lam x).
  Definition col_Ginv (inv : nat -> Mat -> Mat) (c : @PEcfg F) (lam : F) (x : Col) (eta : F) : Col :=
    clipK (cK c) (inverse_stacked inv c eta lam x).
  (** change of scale of a column: divergence [kr], temperature [kT], lnps shifted by [shift] *)
  Definition col_L (K : nat) (kr kT : F) (x : @Col F) : Col :=
    mkCol (clipv K (scol kr (c_div x))) (clipv K (scol kT (c_temp x))) (c_lnps x).
  Definition col_shift (shift : F) : @Col F := mkCol (fun _ => 0) (fun _ => 0) shift.
End Scaling.
