(** Dual numbers F[eps]/(eps^2) as an [Ops] instance: running any carrier-generic
    model at this carrier computes the forward-mode derivative (C08). *)
From Dino Require Import Base.Ops Base.Sums.
Local Open Scope F_scope.

Section Dual.
  Context {F : Type} {o : Ops F}.

  Record dual : Type := mkdual { re : F; ep : F }.

  Definition dconst (c : F) : dual := mkdual c 0.
  Definition dvar (x v : F) : dual := mkdual x v.

  Definition dadd (a b : dual) := mkdual (re a + re b) (ep a + ep b).
  Definition dsub (a b : dual) := mkdual (re a - re b) (ep a - ep b).
  Definition dopp (a : dual) := mkdual (- re a) (- ep a).
  Definition dmul (a b : dual) := mkdual (re a * re b) (re a * ep b + ep a * re b).
  Definition dinv (a : dual) := mkdual (finv (re a)) (- (ep a / (re a * re a))).
  Definition ddiv (a b : dual) :=
    mkdual (re a / re b) ((ep a * re b - re a * ep b) / (re b * re b)).

  #[export] Instance DualOps : Ops dual := {|
    f0 := dconst 0; f1 := dconst 1;
    fadd := dadd; fmul := dmul; fsub := dsub; fopp := dopp;
    fdiv := ddiv; finv := dinv;
    fofZ z := dconst (fofZ z);
    fleb a b := fleb (re a) (re b);
    feqb a b := feqb (re a) (re b) |}.
End Dual.
Arguments dual F : clear implicits.
