(** SPECIFICATION (deliberately short) of what dinosaur/primitive_equations.py
    and dinosaur/shallow_water.py discretise: the sigma-coordinate primitive
    equations of Durran, "Numerical Methods for Fluid Dynamics", section 8.6 (as
    quoted in the docstrings of the code) and the layered shallow-water
    equations, written POINTWISE on fields [P -> F] over an abstract set [P] of
    points of the sphere, with ABSTRACT EXACT horizontal derivatives
      [dlon] = d/dlon,   [dmu] = cos(lat) d/dlat = (1 - mu^2) d/dmu
    (section variables; the theorems assume linearity, the Leibniz rule and that
    they commute - a commutative differential ring) and the documented vertical
    finite differences on the sigma levels of Model/Sigma.v.  Definitions only;
    nothing here is taken from Model/PrimEq.v. *)
From Dino Require Import Base.Ops Base.Sums Base.Ord Model.Sigma Model.Implicit.
Local Open Scope F_scope.

(** ** Vertical discretisation (one column; level 0 = top) *)
Section Vertical.
  Context {F : Type} {o : Ops F}.
  Variable c : @PEcfg F.

  (** sum_{k <= n} g_k dsigma_k *)
  Definition spec_cum (g : nat -> F) (n : nat) : F :=
    sumn (S n) (fun k => g k * thickness (cb c) k).
  (** sigma_dot at the lower boundary of layer r (r = 0 .. K-2), Durran 8.107:
      sigma_{r+1/2} * sum_all G dsigma - sum_{k<=r} G dsigma *)
  Definition spec_sigma_dot (g : nat -> F) (r : nat) : F :=
    cb c (S r) * sumn (cK c) (fun k => g k * thickness (cb c) k) - spec_cum g r.
  (** dX/dsigma at the boundary between layers r and r+1 *)
  Definition spec_ddsigma (x : nat -> F) (r : nat) : F :=
    (x (S r) - x r) / (centers (cb c) (S r) - centers (cb c) r).
  (** the tendency - sigma_dot dX/dsigma at layer n: mean of the two adjacent
      boundaries, no flux through top and bottom *)
  Definition spec_vadv (w x : nat -> F) (n : nat) : F :=
    - ((if Nat.ltb (S n) (cK c) then w n * spec_ddsigma x n else 0)
       + (if Nat.eqb n 0 then 0 else w (n - 1)%nat * spec_ddsigma x (n - 1))) / two.
  (** the same tendency with first-order UPWIND differences (the public option
      [vertical_advection = upwind_vertical_advection]): downward motion (sigma_dot > 0) at the upper
      boundary brings in the difference above, upward motion (sigma_dot < 0) at the lower boundary the
      difference below; no flux through top and bottom *)
  Definition spec_vadv_upwind (w x : nat -> F) (n : nat) : F :=
    - (fmax (if Nat.eqb n 0 then 0 else w (n - 1)%nat) 0 * (if Nat.eqb n 0 then 0 else spec_ddsigma x (n - 1))
       + fmin (if Nat.ltb (S n) (cK c) then w n else 0) 0 * (if Nat.ltb (S n) (cK c) then spec_ddsigma x n else 0)).
  (** omega/p at layer n, Durran 8.124; [ug] = u . grad ln ps, [g] = div + ug *)
  Definition spec_omega_p (g ug : nat -> F) (n : nat) : F :=
    ug n - (alpha (cK c) (cls c) n * spec_cum g n
            + (if Nat.eqb n 0 then 0 else alpha (cK c) (cls c) (n - 1) * spec_cum g (n - 1)))
           / thickness (cb c) n.
  (** hydrostatic geopotential above the surface value [phis] *)
  Definition spec_phi (phis : F) (T : nat -> F) (j : nat) : F :=
    phis + geo_diff_dense (cK c) (cR c) (cls c) T j.
End Vertical.

(** ** Horizontal calculus and the equations in the ring of smooth nodal fields.
    The carrier [F] of this section is the commutative RING OF FIELDS on the sphere
    (its elements are whole fields, not values; products are pointwise products of
    fields); [dlon], [dmu] are its two derivations, [mu] the field sin(lat), the radius
    [a] and all physical constants are constant fields.  [x / y] is [x * finv y]; the
    theorems only use it for the units [a], [two] and [cos2]. *)
Section Spec.
  Context {F : Type} {o : Ops F}.
  Variables dlon dmu : F -> F.
  Variable mu : F.                   (* sin(lat) *)
  Variable a : F.                    (* radius *)

  Definition cos2 : F := 1 - mu * mu.
  Definition sec2 : F := 1 / cos2.
  (** cos(lat) * gradient *)
  Definition grad_x (f : F) : F := dlon f / a.
  Definition grad_y (f : F) : F := dmu f / a.
  (** divergence and vertical curl of the tangent vector (A, B) / cos(lat) *)
  Definition sdiv (A B : F) : F := sec2 * (dlon A + dmu B) / a.
  Definition scurl (A B : F) : F := sec2 * (dlon B - dmu A) / a.
  Definition slap (f : F) : F := sdiv (grad_x f) (grad_y f).
  (** cos(lat) * velocity from stream function and velocity potential *)
  Definition vel_u (psi chi : F) : F := grad_x chi - grad_y psi.
  Definition vel_v (psi chi : F) : F := grad_y chi + grad_x psi.
  Definition kin (U V : F) : F := sec2 * (U * U + V * V) / two.

  (** *** primitive equations *)
  Record PEState := mkPES {
    st_psi : nat -> F; st_chi : nat -> F;       (* stream function, velocity potential *)
    st_T : nat -> F;                            (* absolute temperature *)
    st_lnps : F;
    st_q : nat -> F }.                          (* specific humidity (0 for the dry equations) *)

  Section PE.
  Variable c : @PEcfg F.
  Variables Omega grav Rv Cpv : F.
  Variable oro : F.
  Variable st : PEState.

  Definition U k := vel_u (st_psi st k) (st_chi st k).
  Definition V k := vel_v (st_psi st k) (st_chi st k).
  Definition zeta k := slap (st_psi st k).
  Definition delta k := slap (st_chi st k).
  Definition fcor : F := two * Omega * mu.
  Definition gx := grad_x (st_lnps st).
  Definition gy := grad_y (st_lnps st).
  (** u . grad ln ps *)
  Definition ugrad k : F := sec2 * (U k * gx + V k * gy).
  Definition gfull k : F := delta k + ugrad k.
  Definition sdot : nat -> F := spec_sigma_dot c gfull.
  (** virtual temperature and the moist adiabatic factor *)
  Definition Tv k : F := st_T st k * (1 + (Rv / cR c - 1) * st_q st k).
  Definition afac k : F :=
    (1 + (Rv / cR c - 1) * st_q st k) / (1 + (Cpv / (cR c / ckappa c) - 1) * st_q st k).
  (** cos(lat) * [ (zeta+f) k x v + sigma_dot dv/dsigma + R Tv grad ln ps ] *)
  Definition mom_u k : F :=
    - V k * (zeta k + fcor) - spec_vadv c sdot U k + cR c * Tv k * gx.
  Definition mom_v k : F :=
    U k * (zeta k + fcor) - spec_vadv c sdot V k + cR c * Tv k * gy.
  Definition phi k : F := spec_phi c (grav * oro) Tv k.
  Definition energy k : F := kin (U k) (V k) + phi k.

  Definition spec_vort_tend k : F := - scurl (mom_u k) (mom_v k).
  Definition spec_div_tend k : F := - sdiv (mom_u k) (mom_v k) - slap (energy k).
  Definition spec_temp_tend k : F :=
    - (sec2 * (U k * dlon (st_T st k) + V k * dmu (st_T st k)) / a)
    + spec_vadv c sdot (st_T st) k
    + ckappa c * (st_T st k * afac k * spec_omega_p c gfull ugrad k).
  Definition spec_lnps_tend : F :=
    - sumn (cK c) (fun k => gfull k * thickness (cb c) k).
  Definition spec_tracer_tend (X : nat -> F) k : F :=
    - (sec2 * (U k * dlon (X k) + V k * dmu (X k)) / a)
    + spec_vadv c sdot X k.
  End PE.

  (** *** layered shallow water; [Rm i j] = weight of the potential of layer j in
      the pressure of layer i (1 for the layer itself and the denser layers below,
      rho_j / rho_i for lighter layers above), [ref] the mean potentials *)
  Record SWState := mkSWS { w_psi : nat -> F; w_chi : nat -> F; w_pot : nat -> F }.

  Section SW.
  Variable Kl : nat.
  Variable Rm : nat -> nat -> F.
  Variable ref : nat -> F.
  Variable Omega : F.
  Variable oro : F.
  Variable st : SWState.

  Definition wU i := vel_u (w_psi st i) (w_chi st i).
  Definition wV i := vel_v (w_psi st i) (w_chi st i).
  Definition wzeta i := slap (w_psi st i).
  Definition wabs i : F := wzeta i + two * Omega * mu.
  Definition wflux_u i : F := wU i * wabs i.
  Definition wflux_v i : F := wV i * wabs i.
  Definition wpress i : F := sumn Kl (fun j => Rm i j * w_pot st j) + oro.
  Definition sw_vort_tend i : F := - sdiv (wflux_u i) (wflux_v i).
  Definition sw_div_tend i : F :=
    scurl (wflux_u i) (wflux_v i) - slap (wpress i + kin (wU i) (wV i)).
  Definition sw_pot_tend i : F :=
    - sdiv (wU i * (ref i + w_pot st i)) (wV i * (ref i + w_pot st i)).
  End SW.

  (** polynomials in mu (coefficient list, increasing degree) and the value of their formal derivative
      (Horner form of the product rule) *)
  Fixpoint peval (cs : list F) (x : F) : F :=
    match cs with nil => 0 | c0 :: r => c0 + x * peval r x end.
  Fixpoint pdiff (cs : list F) (x : F) : F :=
    match cs with nil => 0 | _ :: r => peval r x + x * pdiff r x end.
End Spec.
