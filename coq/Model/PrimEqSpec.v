(** SPECIFICATION (deliberately short) of what dinosaur/primitive_equations.py
    and dinosaur/shallow_water.py discretise: the sigma-coordinate primitive
    equations of Durran, "Numerical Methods for Fluid Dynamics", section 8.6 (as
    quoted in the docstrings of the code) and the layered shallow-water
    equations, written POINTWISE on fields [P -> F] over an abstract set [P] of
    points of the sphere, with ABSTRACT EXACT horizontal derivatives
      [dlon] = d/dlon,   [dmu] = cos(lat) d/dlat = (1 - mu^2) d/dmu
    (section variables; the theorems assume linearity, the Leibniz rule and that
    they commute - a commutative differential ring) and the documented vertical
    finite differences on the sigma levels of Model/Sigma.v.  Definitions only;
    nothing here is taken from Model/PrimEq.v. *)
From Dino Require Import Base.Ops Base.Sums Base.Ord Model.Sigma Model.Implicit.
Local Open Scope F_scope.

(** ** Vertical discretisation (one column; level 0 = top) *)
Section Vertical.
  Context {F : Type} {o : Ops F}.
  Variable c : @PEcfg F.

  (** sum_{k <= n} g_k dsigma_k *)
  Definition spec_cum (g : nat -> F) (n : nat) : F :=
    sumn (S n) (fun k => g k * thickness (cb c) k).
  (** sigma_dot at the lower boundary of layer r (r = 0 .. K-2), Durran 8.107:
      sigma_{r+1/2} * sum_all G dsigma - sum_{k<=r} G dsigma *)
  Definition spec_sigma_dot (g : nat -> F) (r : nat) : F :=
    cb c (S r) * sumn (cK c) (fun k => g k * thickness (cb c) k) - spec_cum g r.
  (** dX/dsigma at the boundary between layers r and r+1 *)
  Definition spec_ddsigma (x : nat -> F) (r : nat) : F :=
    (x (S r) - x r) / (centers (cb c) (S r) - centers (cb c) r).
  (** the tendency - sigma_dot dX/dsigma at layer n: mean of the two adjacent
      boundaries, no flux through top and bottom *)
  Definition spec_vadv (w x : nat -> F) (n : nat) : F :=
    - ((if Nat.ltb (S n) (cK c) then w n * spec_ddsigma x n else 0)
       + (if Nat.eqb n 0 then 0 else w (n - 1)%nat * spec_ddsigma x (n - 1))) / two.
  (** omega/p at layer n, Durran 8.124; [ug] = u . grad ln ps, [g] = div + ug *)
  Definition spec_omega_p (g ug : nat -> F) (n : nat) : F :=
    ug n - (alpha (cK c) (cls c) n * spec_cum g n
            + (if Nat.eqb n 0 then 0 else alpha (cK c) (cls c) (n - 1) * spec_cum g (n - 1)))
           / thickness (cb c) n.
  (** hydrostatic geopotential above the surface value [phis] *)
  Definition spec_phi (phis : F) (T : nat -> F) (j : nat) : F :=
    phis + geo_diff_dense (cK c) (cR c) (cls c) T j.
End Vertical.

(** ** Horizontal calculus and the pointwise equations *)
Section Spec.
  Context {F : Type} {o : Ops F}.
  Variable P : Type.
  Notation fld := (P -> F).
  Variables dlon dmu : fld -> fld.
  Variable mu : fld.                 (* sin(lat) *)
  Variable a : F.                    (* radius *)

  Definition cos2 : fld := fun p => 1 - mu p * mu p.
  Definition sec2 : fld := fun p => 1 / cos2 p.
  (** cos(lat) * gradient *)
  Definition grad_x (f : fld) : fld := fun p => dlon f p / a.
  Definition grad_y (f : fld) : fld := fun p => dmu f p / a.
  (** divergence and vertical curl of the tangent vector (A, B) / cos(lat) *)
  Definition sdiv (A B : fld) : fld := fun p => sec2 p * (dlon A p + dmu B p) / a.
  Definition scurl (A B : fld) : fld := fun p => sec2 p * (dlon B p - dmu A p) / a.
  Definition slap (f : fld) : fld := sdiv (grad_x f) (grad_y f).
  (** cos(lat) * velocity from stream function and velocity potential *)
  Definition vel_u (psi chi : fld) : fld := fun p => grad_x chi p - grad_y psi p.
  Definition vel_v (psi chi : fld) : fld := fun p => grad_y chi p + grad_x psi p.
  Definition kin (U V : fld) : fld := fun p => sec2 p * (U p * U p + V p * V p) / two.

  (** *** primitive equations *)
  Record PEState := mkPES {
    st_psi : nat -> fld; st_chi : nat -> fld;   (* stream function, velocity potential *)
    st_T : nat -> fld;                          (* absolute temperature *)
    st_lnps : fld;
    st_q : nat -> fld }.                        (* specific humidity (0 for the dry equations) *)

  Section PE.
  Variable c : @PEcfg F.
  Variables Omega grav Rv Cpv : F.
  Variable oro : fld.
  Variable st : PEState.

  Definition U k := vel_u (st_psi st k) (st_chi st k).
  Definition V k := vel_v (st_psi st k) (st_chi st k).
  Definition zeta k := slap (st_psi st k).
  Definition delta k := slap (st_chi st k).
  Definition fcor : fld := fun p => two * Omega * mu p.
  Definition gx := grad_x (st_lnps st).
  Definition gy := grad_y (st_lnps st).
  (** u . grad ln ps *)
  Definition ugrad k : fld := fun p => sec2 p * (U k p * gx p + V k p * gy p).
  Definition gfull k : fld := fun p => delta k p + ugrad k p.
  Definition sdot (p : P) : nat -> F := spec_sigma_dot c (fun k => gfull k p).
  (** virtual temperature and the moist adiabatic factor *)
  Definition Tv k : fld := fun p => st_T st k p * (1 + (Rv / cR c - 1) * st_q st k p).
  Definition afac k : fld := fun p =>
    (1 + (Rv / cR c - 1) * st_q st k p) / (1 + (Cpv / (cR c / ckappa c) - 1) * st_q st k p).
  (** cos(lat) * [ (zeta+f) k x v + sigma_dot dv/dsigma + R Tv grad ln ps ] *)
  Definition mom_u k : fld := fun p =>
    - V k p * (zeta k p + fcor p) - spec_vadv c (sdot p) (fun j => U j p) k + cR c * Tv k p * gx p.
  Definition mom_v k : fld := fun p =>
    U k p * (zeta k p + fcor p) - spec_vadv c (sdot p) (fun j => V j p) k + cR c * Tv k p * gy p.
  Definition phi k : fld := fun p => spec_phi c (grav * oro p) (fun j => Tv j p) k.
  Definition energy k : fld := fun p => kin (U k) (V k) p + phi k p.

  Definition spec_vort_tend k : fld := fun p => - scurl (mom_u k) (mom_v k) p.
  Definition spec_div_tend k : fld := fun p => - sdiv (mom_u k) (mom_v k) p - slap (energy k) p.
  Definition spec_temp_tend k : fld := fun p =>
    - (sec2 p * (U k p * dlon (st_T st k) p + V k p * dmu (st_T st k) p) / a)
    + spec_vadv c (sdot p) (fun j => st_T st j p) k
    + ckappa c * (st_T st k p * afac k p * spec_omega_p c (fun j => gfull j p) (fun j => ugrad j p) k).
  Definition spec_lnps_tend : fld := fun p =>
    - sumn (cK c) (fun k => gfull k p * thickness (cb c) k).
  Definition spec_tracer_tend (X : nat -> fld) k : fld := fun p =>
    - (sec2 p * (U k p * dlon (X k) p + V k p * dmu (X k) p) / a)
    + spec_vadv c (sdot p) (fun j => X j p) k.
  End PE.

  (** *** layered shallow water; [Rm i j] = weight of the potential of layer j in
      the pressure of layer i (1 on and below the diagonal side of denser layers,
      rho_j / rho_i for lighter layers above), [ref] the mean potentials *)
  Record SWState := mkSWS { w_psi : nat -> fld; w_chi : nat -> fld; w_pot : nat -> fld }.

  Section SW.
  Variable Kl : nat.
  Variable Rm : nat -> nat -> F.
  Variable ref : nat -> F.
  Variable Omega : F.
  Variable oro : fld.
  Variable st : SWState.

  Definition wU i := vel_u (w_psi st i) (w_chi st i).
  Definition wV i := vel_v (w_psi st i) (w_chi st i).
  Definition wzeta i := slap (w_psi st i).
  Definition wabs i : fld := fun p => wzeta i p + two * Omega * mu p.
  Definition wflux_u i : fld := fun p => wU i p * wabs i p.
  Definition wflux_v i : fld := fun p => wV i p * wabs i p.
  Definition wpress i : fld := fun p => sumn Kl (fun j => Rm i j * w_pot st j p) + oro p.
  Definition sw_vort_tend i : fld := fun p => - sdiv (wflux_u i) (wflux_v i) p.
  Definition sw_div_tend i : fld := fun p =>
    scurl (wflux_u i) (wflux_v i) p - slap (fun p' => wpress i p' + kin (wU i) (wV i) p') p.
  Definition sw_pot_tend i : fld := fun p =>
    - sdiv (fun p' => wU i p' * (ref i + w_pot st i p')) (fun p' => wV i p' * (ref i + w_pot st i p')) p.
  End SW.

  (** polynomials in mu (coefficient list, increasing degree) and the value of their formal derivative
      (Horner form of the product rule) *)
  Fixpoint peval (cs : list F) (x : F) : F :=
    match cs with nil => 0 | c0 :: r => c0 + x * peval r x end.
  Fixpoint pdiff (cs : list F) (x : F) : F :=
    match cs with nil => 0 | _ :: r => peval r x + x * pdiff r x end.
End Spec.
