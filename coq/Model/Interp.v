(** Model of dinosaur/vertical_interpolation.py (1-D interpolation routines and
    the sigma / pressure / hybrid wrappers), of the Bilinear / Nearest
    regridders of dinosaur/horizontal_interpolation.py and of
    primitive_equations._vertical_interp.  Definitions only.

    A node list is an index function [xp : nat -> F] with a length [n]; data
    likewise.  NaN ("missing") is [None]; data that may contain NaN is
    [nat -> option F].  Comparisons are the boolean tests of [Ops]. *)
From Dino Require Import Base.Ops Base.Sums Base.Ord.
Local Open Scope F_scope.

Section Interp.
  Context {F : Type} {o : Ops F}.

  Definition indb (c : bool) : F := if c then 1 else 0.

  (** [jnp.searchsorted(xp, x, side='right', method='compare_all')]:
      the number of nodes [xp i <= x]  (for sorted [xp] the default binary
      search used inside [jnp.interp] returns the same number). *)
  Fixpoint ssr (n : nat) (xp : nat -> F) (x : F) : nat :=
    match n with
    | O => O
    | S k => (ssr k xp x + (if fleb (xp k) x then 1 else 0))%nat
    end.

  (** [jnp.clip(u, lo, hi)] = minimum(maximum(u, lo), hi). *)
  Definition clipn (lo hi u : nat) : nat := Nat.min (Nat.max u lo) hi.

  (** upper index of the bracketing pair: [clip(searchsorted(..), 1, n-1)]. *)
  Definition bracket (n : nat) (xp : nat -> F) (x : F) : nat :=
    clipn 1 (n - 1) (ssr n xp x).

  (** the straight line through nodes [i-1], [i], as [jnp.interp] writes it:
      [fp[i-1] + (delta / dx) * df]. *)
  Definition seg (xp fp : nat -> F) (i : nat) (x : F) : F :=
    fp (i - 1)%nat + ((x - xp (i - 1)%nat) / (xp i - xp (i - 1)%nat)) * (fp i - fp (i - 1)%nat).

  Definition interp_core (n : nat) (xp fp : nat -> F) (x : F) : F :=
    seg xp fp (bracket n xp x) x.

  (** [jnp.interp(x, xp, fp)] (= [interp] on CPU, [vertical_interpolation],
      [_vertical_interp] per column): constant outside the node range. *)
  Definition interp_ref (n : nat) (xp fp : nat -> F) (x : F) : F :=
    let f := interp_core n xp fp x in
    let f := if fltb x (xp 0%nat) then fp 0%nat else f in
    if fltb (xp (n - 1)%nat) x then fp (n - 1)%nat else f.

  (** [_dot_interp] / [linear_interp_with_linear_extrap]: weights. *)
  Definition w_of (xp : nat -> F) (x : F) (i : nat) : F := (x - xp i) / (xp (S i) - xp i).
  (** [jnp.pad(1 - w, [(0, 1)])] *)
  Definition w_left (n : nat) (xp : nat -> F) (x : F) (i : nat) : F :=
    if Nat.ltb (S i) n then 1 - w_of xp x i else 0.
  (** [jnp.pad(w, [(1, 0)])] *)
  Definition w_right (xp : nat -> F) (x : F) (i : nat) : F :=
    match i with O => 0 | S j => w_of xp x j end.
  Definition base_weights (n : nat) (xp : nat -> F) (x : F) (i : nat) : F :=
    let u := bracket n xp x in
    w_left n xp x i * indb (Nat.eqb i (u - 1)) + w_right xp x i * indb (Nat.eqb i u).

  (** [linear_interp_with_linear_extrap]: [jnp.dot(weights, fp)]. *)
  Definition lin_extrap (n : nat) (xp fp : nat -> F) (x : F) : F :=
    sumn n (fun i => base_weights n xp x i * fp i).

  (** [_dot_interp]: the two [where] overrides, in the order of the code. *)
  Definition dot_weights (n : nat) (xp : nat -> F) (x : F) (i : nat) : F :=
    let w := base_weights n xp x i in
    let w := if fltb x (xp 0%nat) then indb (Nat.eqb i 0) else w in
    if fltb (xp (n - 1)%nat) x then indb (Nat.eqb i (n - 1)) else w.
  Definition dot_interp (n : nat) (xp fp : nat -> F) (x : F) : F :=
    sumn n (fun i => dot_weights n xp x i * fp i).

  (** Data with missing values. *)
  Definition olift2 (f : F -> F -> F) (a b : option F) : option F :=
    match a, b with Some u, Some v => Some (f u v) | _, _ => None end.

  Definition seg_o (xp : nat -> F) (fp : nat -> option F) (i : nat) (x : F) : option F :=
    olift2 (fun a b => a + ((x - xp (i - 1)%nat) / (xp i - xp (i - 1)%nat)) * (b - a))
           (fp (i - 1)%nat) (fp i).

  (** [jnp.interp(x, xp, fp, left=nan, right=nan)]. *)
  Definition interp_nan (n : nat) (xp : nat -> F) (fp : nat -> option F) (x : F) : option F :=
    let f := seg_o xp fp (bracket n xp x) x in
    let f := if fltb x (xp 0%nat) then None else f in
    if fltb (xp (n - 1)%nat) x then None else f.

  (** [_extrapolate_left], [_extrapolate_right], [_extrapolate_both] on an
      array of length [n], generic in the element type (coordinates: [F],
      data: [option F]).  [eL a b] is [a - (b - a)] with a = y[0], b = y[1];
      [eR a b] is [a + (a - b)] with a = y[-1], b = y[-2]. *)
  Section Pad.
    Context {T : Type} (eL eR : T -> T -> T).
    Definition extr_right (n : nat) (y : nat -> T) : nat -> T :=
      fun i => if Nat.ltb i n then y i else eR (y (n - 1)%nat) (y (n - 2)%nat).
    Definition extr_left (y : nat -> T) : nat -> T :=
      fun i => match i with O => eL (y 0%nat) (y 1%nat) | S j => y j end.
    Definition extr_both (n : nat) (y : nat -> T) : nat -> T := extr_left (extr_right n y).
    (** [for _ in range(k): y = _extrapolate_both(y)]; result has length n + 2k. *)
    Fixpoint pad (k n : nat) (y : nat -> T) : nat -> T :=
      match k with O => y | S k' => pad k' (n + 2) (extr_both n y) end.
  End Pad.

  Definition eLF (a b : F) : F := a - (b - a).
  Definition eRF (a b : F) : F := a + (a - b).
  Definition pad_x := pad eLF eRF.
  Definition pad_o := pad (olift2 eLF) (olift2 eRF).

  (** [_linear_interp_with_safe_extrap(x, xp, fp, n=k)]. *)
  Definition safe_extrap_o (k n : nat) (xp : nat -> F) (fp : nat -> option F) (x : F) : option F :=
    interp_nan (n + 2 * k) (pad_x k n xp) (pad_o k n fp) x.
  Definition safe_extrap (k n : nat) (xp fp : nat -> F) (x : F) : option F :=
    safe_extrap_o k n xp (fun i => Some (fp i)) x.

  (** The documented window: [k] first (last) cells beyond the ends. *)
  Fixpoint nsc (k : nat) (d : F) : F := match k with O => 0 | S j => nsc j d + d end.
  Definition win_lo (k : nat) (xp : nat -> F) : F := xp 0%nat - nsc k (xp 1%nat - xp 0%nat).
  Definition win_hi (k n : nat) (xp : nat -> F) : F :=
    xp (n - 1)%nat + nsc k (xp (n - 1)%nat - xp (n - 2)%nat).
  Definition in_window (k n : nat) (xp : nat -> F) (x : F) : bool :=
    fleb (win_lo k xp) x && fleb x (win_hi k n xp).

  (** Wrappers, one column; [sigma] are the sigma centers, [P] the pressure
      centers, [sp] the surface pressure of the column. *)
  Definition interp_pressure_to_sigma_o (nP : nat) (P : nat -> F) (fld : nat -> option F)
             (sigma : nat -> F) (sp : F) (k : nat) : option F :=
    safe_extrap_o 1 nP P fld (sigma k * sp).
  Definition interp_sigma_to_pressure_o (nS : nat) (sigma : nat -> F) (fld : nat -> option F)
             (P : nat -> F) (sp : F) (j : nat) : option F :=
    safe_extrap_o 1 nS sigma fld (P j / sp).
  Definition interp_pressure_to_sigma nP P (fld : nat -> F) sigma sp k :=
    interp_pressure_to_sigma_o nP P (fun i => Some (fld i)) sigma sp k.
  Definition interp_sigma_to_pressure nS sigma (fld : nat -> F) P sp j :=
    interp_sigma_to_pressure_o nS sigma (fun i => Some (fld i)) P sp j.
  Definition roundtrip_p_s_p (nP nS : nat) (P sigma fld : nat -> F) (sp : F) (j : nat) : option F :=
    interp_sigma_to_pressure_o nS sigma (interp_pressure_to_sigma nP P fld sigma sp) P sp j.

  (** [HybridCoordinates.get_sigma_boundaries / get_sigma_centers]. *)
  Definition hyb_sigma_boundaries (a b : nat -> F) (sp : F) (i : nat) : F := a i / sp + b i.
  Definition hyb_sigma_centers (a b : nat -> F) (sp : F) (i : nat) : F :=
    (hyb_sigma_boundaries a b sp (S i) + hyb_sigma_boundaries a b sp i) / (1 + 1).
  Definition interp_hybrid_to_sigma (nH : nat) (a b fld sigma : nat -> F) (sp : F) (k : nat) : option F :=
    safe_extrap 1 nH (hyb_sigma_centers a b sp) fld (sigma k).

  (** [get_surface_pressure], one column: nodes are the relative heights
      [orography*g - geopotential] per level, data are the pressure levels, the
      query is 0. *)
  Definition rel_height (phi : nat -> F) (oro g : F) (i : nat) : F := oro * g - phi i.
  Definition surface_pressure (n : nat) (levels phi : nat -> F) (oro g : F) : F :=
    lin_extrap n (rel_height phi oro g) levels 0.

  (** horizontal [BilinearRegridder]: latitude pass then longitude pass, both
      [jnp.interp]; field indexed [lon][lat]. *)
  Definition bilinear (nlon nlat : nat) (lonS latS : nat -> F) (f : nat -> nat -> F)
             (lonT latT : nat -> F) (a b : nat) : F :=
    interp_ref nlon lonS (fun i => interp_ref nlat latS (f i) (latT b)) (lonT a).

  (** [NearestRegridder]: gather with the BallTree indices (an input). *)
  Definition nearest (idx : nat -> nat) (f : nat -> F) (t : nat) : F := f (idx t).
End Interp.
