(** Model of the spectral differential operators of dinosaur
    (property C02): jax_numpy_utils.shift, fourier.real_basis_derivative(_with_zero_imag),
    and the methods of spherical_harmonic.Grid that act on modal arrays.
    Definitions only.

    A modal array is an index function [nat -> nat -> F] (row [i] = position on
    the longitudinal-wavenumber axis, column [l] = position on the
    total-wavenumber axis) with an explicit shape [(R, C)].
      reference layout (RealSphericalHarmonics): R = 2M-1, C = L,
          rows m = [0, +1, -1, +2, -2, ...]   (row 2j-1: cos, row 2j: sin)
      fast layout (FastSphericalHarmonics):      R >= 2M, C >= L (zero padding),
          rows m = [0, 0, +1, -1, +2, -2, ..., 0 (padding)] (row 2j: cos, row 2j+1: sin)
    where M = longitude_wavenumbers, L = total_wavenumbers.  The wavenumber axis
    [l] is [0..L-1] followed by *zeros* in the padded columns (as in the code).
    The recurrence weight tables [a b] (square roots) are parameters; the
    arithmetic expressions come from Gen/DerivExprs.v (regenerated from the
    source on every run). *)
From Dino Require Import Base.Ops Base.Sums Gen.DerivExprs.
Local Open Scope F_scope.

Section Deriv.
  Context {F : Type} {o : Ops F}.

  Definition arr2 := nat -> nat -> F.

  (** [jax_numpy_utils.shift] on an axis of length [n] (index [k < n]). *)
  Definition shift1 (n : nat) (off : Z) (x : nat -> F) (k : nat) : F :=
    if Z.leb (Z.of_nat n) (Z.abs off) then 0
    else if Z.ltb 0 off
         then (if Nat.ltb k (Z.to_nat off) then 0 else x (k - Z.to_nat off)%nat)
         else (if Nat.ltb (k + Z.to_nat (- off)) n then x (k + Z.to_nat (- off))%nat else 0).

  (** along the last axis (columns, length [C]) and along axis -2 (rows, length [R]) *)
  Definition shift_cols (C : nat) (off : Z) (x : arr2) : arr2 :=
    fun i l => shift1 C off (x i) l.
  Definition shift_rows (R : nat) (off : Z) (x : arr2) : arr2 :=
    fun i l => shift1 R off (fun i' => x i' l) i.

  (** [fourier.real_basis_derivative] along axis -2 of length [R]. *)
  Definition dlon_ref (R : nat) (x : arr2) : arr2 :=
    fun i l => lit (dref_j i) *
               dref_sel (dref_cond i) (shift_rows R dref_down_off x i l) (shift_rows R dref_up_off x i l).

  (** [fourier.real_basis_derivative_with_zero_imag] along axis -2. *)
  Definition dlon_fast (R off : nat) (x : arr2) : arr2 :=
    fun i l => lit (dfast_j off i) *
               dfast_sel (dfast_cond i) (shift_rows R dfast_down_off x i l) (shift_rows R dfast_up_off x i l).

  (** [Grid.d_dlon] (single device: frequency offset 0). *)
  Definition d_dlon (fast : bool) (R : nat) (x : arr2) : arr2 :=
    if fast then dlon_fast R 0 x else dlon_ref R x.

  (** The wavenumber axes and the mask ([modal_axes], [mask]). *)
  Definition maxis (fast : bool) (M i : nat) : Z :=
    if fast
    then (if Nat.ltb i (2 * M) then (if Nat.even i then Z.of_nat (i / 2) else (- Z.of_nat (i / 2))%Z) else 0%Z)
    else (if Nat.eqb i 0 then 0%Z else if Nat.odd i then Z.of_nat ((i + 1) / 2) else (- Z.of_nat (i / 2))%Z).
  Definition mabs (fast : bool) (M i : nat) : nat := Z.to_nat (Z.abs (maxis fast M i)).
  Definition laxis (L l : nat) : nat := if Nat.ltb l L then l else 0%nat.
  Definition mask (fast : bool) (M L i l : nat) : bool :=
    if fast
    then Nat.leb (mabs fast M i) (laxis L l) && negb (Nat.eqb i 1) && Nat.ltb i (2 * M) && Nat.ltb l L
    else Nat.leb (mabs fast M i) (laxis L l).

  (** Closed forms of the *squares* of the recurrence weights
      ([_derivative_recurrence_weights] without the square root), shape (R, C). *)
  Definition ind (c : bool) : F := if c then 1 else 0.
  Definition a2_table (fast : bool) (M L C i l : nat) : F :=
    if Nat.eqb l 0 then 0
    else a2_expr (ind (mask fast M L i l)) (lit (laxis L l)) (lit (mabs fast M i)).
  Definition b2_table (fast : bool) (M L C i l : nat) : F :=
    if Nat.eqb (S l) C then 0
    else b2_expr (ind (mask fast M L i l)) (lit (laxis L l)) (lit (mabs fast M i)).

  (** [Grid.laplacian_eigenvalues], [laplacian], [inverse_laplacian]. *)
  Definition lap_eig (L : nat) (r : F) (l : nat) : F := lap_eig_expr (lit (laxis L l)) r.
  Definition inv_eig (L : nat) (r : F) (l : nat) : F :=
    if Nat.eqb l 0 then 0 else if Nat.leb L l then 0 else 1 / lap_eig L r l.
  Definition laplacian (L : nat) (r : F) (x : arr2) : arr2 := fun i l => x i l * lap_eig L r l.
  Definition inverse_laplacian (L : nat) (r : F) (x : arr2) : arr2 := fun i l => x i l * inv_eig L r l.

  (** [Grid.clip_wavenumbers] ([C] columns of which [C - L] are padding; the
      code raises for n <= 0: [clip_accepts]). *)
  Definition clip_accepts (n : Z) : bool := Z.ltb 0 n.
  Definition clip (L C n : nat) (x : arr2) : arr2 :=
    fun i l => x i l * (if Nat.ltb l (C - (n + (C - L))) then 1 else 0).

  (** [Grid.cos_lat_d_dlat] (D1), [Grid.sec_lat_d_dlat_cos2] (D2) and the
      tridiagonal "multiply by sin(lat)" operator with the same tables. *)
  Definition D1 (L C : nat) (a b : arr2) (x : arr2) : arr2 :=
    fun i l =>
      shift_cols C d1_om (fun i l => d1_wm (lit (laxis L l)) (a i l) * x i l) i l +
      shift_cols C d1_op (fun i l => d1_wp (lit (laxis L l)) (b i l) * x i l) i l.
  Definition D2 (L C : nat) (a b : arr2) (x : arr2) : arr2 :=
    fun i l =>
      shift_cols C d2_om (fun i l => d2_wm (lit (laxis L l)) (a i l) * x i l) i l +
      shift_cols C d2_op (fun i l => d2_wp (lit (laxis L l)) (b i l) * x i l) i l.
  Definition Mmu (C : nat) (a b : arr2) (x : arr2) : arr2 :=
    fun i l =>
      shift_cols C (-1) (fun i l => a i l * x i l) i l +
      shift_cols C 1 (fun i l => b i l * x i l) i l.

  (** pairs of modal arrays *)
  Definition vec2 := (arr2 * arr2)%type.
  Definition clip_if (c : bool) (L C : nat) (x : arr2) : arr2 := if c then clip L C 1 x else x.

  Definition cos_lat_grad (fast : bool) (L R C : nat) (r : F) (a b : arr2) (c : bool) (x : arr2) : vec2 :=
    (clip_if c L C (fun i l => d_dlon fast R x i l / r),
     clip_if c L C (fun i l => D1 L C a b x i l / r)).
  Definition k_cross (v : vec2) : vec2 := (fun i l => - snd v i l, fst v).
  Definition div_cos_lat (fast : bool) (L R C : nat) (r : F) (a b : arr2) (c : bool) (v : vec2) : arr2 :=
    clip_if c L C (fun i l => (d_dlon fast R (fst v) i l + D2 L C a b (snd v) i l) / r).
  Definition curl_cos_lat (fast : bool) (L R C : nat) (r : F) (a b : arr2) (c : bool) (v : vec2) : arr2 :=
    clip_if c L C (fun i l => (d_dlon fast R (snd v) i l - D2 L C a b (fst v) i l) / r).

  (** [get_cos_lat_vector] *)
  Definition get_cos_lat_vector (fast : bool) (L R C : nat) (r : F) (a b : arr2) (c : bool)
             (vort dive : arr2) : vec2 :=
    let sf := inverse_laplacian L r vort in
    let vp := inverse_laplacian L r dive in
    let g1 := cos_lat_grad fast L R C r a b c vp in
    let g2 := k_cross (cos_lat_grad fast L R C r a b c sf) in
    (fun i l => fst g1 i l + fst g2 i l, fun i l => snd g1 i l + snd g2 i l).

  (** spectral part of [uv_nodal_to_vor_div_modal]: applied to the modal
      transforms of u/cos(lat), v/cos(lat). *)
  Definition uv_to_vor_div (fast : bool) (L R C : nat) (r : F) (a b : arr2) (c : bool) (uv : vec2) : vec2 :=
    (curl_cos_lat fast L R C r a b c uv, div_cos_lat fast L R C r a b c uv).
End Deriv.
