(** Model for property C10: the symmetry actions of the rotating sphere on
    modal and nodal arrays, and the few table-level objects the equivariance
    theorems talk about.  Executable definitions only.

    Layouts (dinosaur/fourier.py real_basis / real_basis_with_zero_imag,
    dinosaur/spherical_harmonic.py modal_axes):
      reference: rows m = [0, +1, -1, +2, -2, ...]; row 2j-1 holds the cos(j lon)
                 coefficient, row 2j the sin(j lon) coefficient, row 0 is m = 0;
      fast:      rows [0 (real), 0 (zero imaginary), +1, -1, ...]; row 2j cos,
                 row 2j+1 sin, zero padding behind.
    The row bookkeeping (wavenumber of a row, which row of a pair is the cosine
    row) is *the code's own*: the expressions [dref_j], [dref_cond], [dfast_j],
    [dfast_cond] are regenerated from fourier.real_basis_derivative(_with_zero_imag)
    on every run (Gen/DerivExprs.v).

    Actions.
      [rot_modal]  rotation about the polar axis by an angle whose per-wavenumber
                   cosines / sines are the abstract tables [c s : nat -> F]
                   (c j = cos(j delta), s j = sin(j delta)); for a rotation by k
                   grid steps delta = 2 pi k / I.  On the (cos, sin) pair of
                   wavenumber j:  cos' = c*cos + s*sin,  sin' = c*sin - s*cos.
      [mir_modal]  reflection about the equator: multiplication by (-1)^(l+|m|),
                   times -1 for pseudo-scalars (vorticity).
      [shift_lon]  nodal: z'[i, j] = z[(i + k) mod I, j].
      [flip_lat]   nodal: z'[i, j] = z[i, J-1-j]. *)
From Dino Require Import Base.Ops Base.Sums Gen.DerivExprs Model.Sigma Model.Implicit Model.PrimEq.
Local Open Scope F_scope.

(** *** row bookkeeping of the two layouts (integers only) *)
Definition sy_wav (fast : bool) (i : nat) : nat := if fast then dfast_j 0 i else dref_j i.
Definition sy_cos (fast : bool) (i : nat) : bool := if fast then dfast_cond i else dref_cond i.
Definition sy_partner (fast : bool) (i : nat) : nat := if sy_cos fast i then S i else (i - 1)%nat.

Section Symmetry.
  Context {F : Type} {o : Ops F}.

  Definition marr := nat -> nat -> F.      (* modal (row, l) or nodal (i, j) array *)

  (** (-1)^n *)
  Definition sgn_pow (n : nat) : F := if Nat.even n then 1 else - (1).
  Definition sgn_if (b : bool) : F := if b then - (1) else 1.

  (** signed sine entry of the 2x2 rotation block seen from row [i] *)
  Definition rot_s (fast : bool) (s : nat -> F) (i : nat) : F :=
    if sy_cos fast i then s (sy_wav fast i) else - s (sy_wav fast i).

  Definition rot_modal (fast : bool) (c s : nat -> F) (x : marr) : marr :=
    fun i l => c (sy_wav fast i) * x i l + rot_s fast s i * x (sy_partner fast i) l.

  Definition mir_modal (fast : bool) (pseudo : bool) (x : marr) : marr :=
    fun i l => sgn_if pseudo * sgn_pow (l + sy_wav fast i) * x i l.

  Definition shift_lon (I k : nat) (z : marr) : marr := fun i j => z ((i + k) mod I)%nat j.
  Definition flip_lat (J : nat) (z : marr) : marr := fun i j => z i (J - 1 - j)%nat.

  (** composition / inverse of rotation tables (angle addition) *)
  Definition rot_c_comp (c1 s1 c2 s2 : nat -> F) : nat -> F := fun j => c1 j * c2 j - s1 j * s2 j.
  Definition rot_s_comp (c1 s1 c2 s2 : nat -> F) : nat -> F := fun j => s1 j * c2 j + c1 j * s2 j.
  Definition rot_s_inv (s : nat -> F) : nat -> F := fun j => - s j.
  (** tables of the rotation by k steps from those of one step *)
  Fixpoint rot_c_pow (k : nat) (c s : nat -> F) : nat -> F :=
    match k with O => fun _ => 1 | S k' => rot_c_comp c s (rot_c_pow k' c s) (rot_s_pow k' c s) end
  with rot_s_pow (k : nat) (c s : nat -> F) : nat -> F :=
    match k with O => fun _ => 0 | S k' => rot_s_comp c s (rot_c_pow k' c s) (rot_s_pow k' c s) end.

  (** leading (level) axis: the actions are applied level by level *)
  Definition stack3 := nat -> nat -> nat -> F.
  Definition rot_stack (fast : bool) (c s : nat -> F) (x : stack3) : stack3 := fun n => rot_modal fast c s (x n).
  Definition mir_stack (fast : bool) (pseudo : bool) (x : stack3) : stack3 := fun n => mir_modal fast pseudo (x n).

  (** primitive_equations.coriolis_parameter / shallow_water.coriolis_parameter:
      2 * angular_velocity * sin_lat on the nodal mesh (sin_lat table is an input) *)
  Definition coriolis (omega : F) (sinlat : nat -> F) : marr := fun _ j => (1 + 1) * omega * sinlat j.

  (** pointwise nodal product (the nonlinear terms are built from these) *)
  Definition nodal_mul (y z : marr) : marr := fun i j => y i j * z i j.

  (** a column (vertical) operator: acts on the level axis with a matrix, pointwise in the horizontal *)
  Definition column_op (N : nat) (A : nat -> nat -> F) (x : stack3) : stack3 :=
    fun n i j => sumn N (fun n' => A n n' * x n' i j).

  (** operators that are functions of l only (laplacian, inverse laplacian, clip, filters) *)
  Definition l_scale (e : nat -> F) (x : marr) : marr := fun i l => x i l * e l.

  (** the mirror residuals of the three table facts (used by the plugin to report
      the table obligations through the same definitions the theorems use) *)
  Definition parity_residual (fast : bool) (J : nat) (p : nat -> nat -> nat -> F) (a j l : nat) : F :=
    p a (J - 1 - j)%nat l - sgn_pow (l + sy_wav fast a) * p a j l.
  Definition rot_table_residual (fast : bool) (I k : nat) (c s : nat -> F) (f : marr) (i a : nat) : F :=
    f ((i + k) mod I)%nat a - (c (sy_wav fast a) * f i a - rot_s fast s a * f i (sy_partner fast a)).

  (** *** nodal columns of the primitive equations (Model/PrimEq.v [NCol]) under the symmetries.
      Parities of the per-node inputs under the reflection about the equator: u = cos_lat_u[0] even,
      v odd, vorticity odd (pseudo-scalar), divergence, T', every tracer even, grad(lnps) = (even, odd),
      sec2_lat even, Coriolis f odd.  [ncol_mirror] applies the signs; the node permutation itself
      (j -> J-1-j) is a re-indexing of the family of columns. *)
  Definition ncol_mirror (x : @NCol F) : @NCol F :=
    mkNCol (n_u x) (fun k => - n_v x k) (fun k => - n_vort x k) (n_div x) (n_temp x)
           (n_gx x) (- n_gy x) (n_sec2 x) (- n_f x).
  (** the family of nodal columns assembled from nodal fields and the two grid tables *)
  Definition mk_cols {P : Type} (U V Z D T : P -> nat -> F) (gx gy sec2 cor : P -> F) : P -> @NCol F :=
    fun p => mkNCol (U p) (V p) (Z p) (D p) (T p) (gx p) (gy p) (sec2 p) (cor p).
End Symmetry.
