(** Model of dinosaur/time_integration.py: the six IMEX integrators as terms over
    an abstract vector space [V] (operations [VOps]) with three operators
    [Fx] (explicit terms, arbitrary), [G] (implicit terms) and [Ginv x eta]
    (= implicit_inverse(x, eta), "(1 - eta G)^-1 x").  Scalars: any carrier [F].
    Executable definitions only; the algorithmic structure of the code is kept
    (same association of sums, zero-skipping, lazily evaluated stages). *)
From Dino Require Import Base.Ops Base.Sums.
Local Open Scope F_scope.

Class VOps (F V : Type) := mkVOps {
  vzero : V;
  vadd : V -> V -> V;
  vscal : F -> V -> V }.

Section Steps.
  Context {F : Type} {o : Ops F} {V : Type} {vo : VOps F V}.
  Context (Fx G : V -> V) (Ginv : V -> F -> V).

  Definition half : F := 1 / (1 + 1).
  Definition two : F := 1 + 1.
  Infix "+v" := vadd (at level 50, left associativity).
  Infix "*v" := vscal (at level 40, left associativity).

  (** backward_forward_euler:  g = u0 + dt*F(u0);  u1 = G_inv(g, dt) *)
  Definition euler_step (dt : F) (u0 : V) : V :=
    let g := u0 +v dt *v Fx u0 in
    Ginv g dt.

  (** semi_implicit_leapfrog: u = (previous, current) |-> (current, future) *)
  Definition leapfrog_step (dt alpha : F) (u : V * V) : V * V :=
    let (previous, current) := u in
    let explicit_current := Fx current in
    let implicit_previous := G previous in
    let intermediate :=
      previous +v (two * dt) *v (explicit_current +v (1 - alpha) *v implicit_previous) in
    let eta := two * dt * alpha in
    (current, Ginv intermediate eta).

  (** crank_nicolson_rk2 *)
  Definition cn_rk2_step (dt : F) (u0 : V) : V :=
    let g := u0 +v (half * dt) *v G u0 in
    let h1 := Fx u0 in
    let u1 := Ginv (g +v dt *v h1) (half * dt) in
    let h2 := half *v (Fx u1 +v h1) in
    Ginv (g +v dt *v h2) (half * dt).

  (** low_storage_runge_kutta_crank_nicolson:
        for k in range(len(betas)):
          h = F(u) + betas[k]*h
          mu = 0.5*dt*(alphas[k+1] - alphas[k])
          u = G_inv(u + gammas[k]*dt*h + mu*G(u), mu)
      (the lists are consumed in parallel; [al] is the tail of alphas from index k). *)
  Fixpoint ls_loop (dt : F) (al be ga : list F) (h u : V) {struct be} : V :=
    match be, ga, al with
    | b :: be', g :: ga', a0 :: ((a1 :: _) as al') =>
        let h' := Fx u +v b *v h in
        let mu := half * dt * (a1 - a0) in
        ls_loop dt al' be' ga' h' (Ginv (u +v (g * dt) *v h' +v mu *v G u) mu)
    | _, _, _ => u
    end.
  Definition ls_step (dt : F) (al be ga : list F) (u : V) : V := ls_loop dt al be ga vzero u.

  (** imex_runge_kutta.  Tableau format of ImExButcherTableau: row i-1 of a_ex has
      the i coefficients of stage i, row i-1 of a_im has i+1 (the last one is the
      diagonal entry).  [nz c] is Python's truthiness test `if c` of a coefficient. *)
  Definition nz (c : F) : bool := negb (feqb c 0).

  (** dt * sum(c[j] * x[j] for j in range(i) if c[j]); using a stage whose value
      was never computed (None) is an error. *)
  Fixpoint wsum_skip (cs : list F) (xs : list (option V)) (acc : V) : option V :=
    match cs, xs with
    | c :: cs', x :: xs' =>
        if nz c then
          match x with
          | Some v => wsum_skip cs' xs' (acc +v c *v v)
          | None => None
          end
        else wsum_skip cs' xs' acc
    | _, _ => Some acc
    end.

  (** any(a[j][i] for j in range(i, num_steps-1)) or b[i]  ([rest] = rows i.. of a) *)
  Definition needed (i : nat) (rest : list (list F)) (b : list F) : bool :=
    existsb (fun row => nz (nth i row 0)) rest || nz (nth i b 0).

  Fixpoint imex_stages (dt : F) (y0 : V) (b_ex b_im : list F) (i : nat)
      (rex rim : list (list F)) (fs gs : list (option V))
      : option (list (option V) * list (option V)) :=
    match rex, rim with
    | re :: rex', ri :: rim' =>
        match wsum_skip re fs vzero, wsum_skip ri gs vzero with
        | Some ex, Some im =>
            let Ystar := y0 +v dt *v ex +v dt *v im in
            let Y := Ginv Ystar (dt * nth i ri 0) in
            let f := if needed i rex' b_ex then Some (Fx Y) else None in
            let g := if needed i rim' b_im then Some (G Y) else None in
            imex_stages dt y0 b_ex b_im (S i) rex' rim' (fs ++ [f]) (gs ++ [g])
        | _, _ => None
        end
    | _, _ => Some (fs, gs)
    end.

  Definition imex_step (dt : F) (a_ex a_im : list (list F)) (b_ex b_im : list F) (y0 : V) : option V :=
    match imex_stages dt y0 b_ex b_im 1 a_ex a_im [Some (Fx y0)] [Some (G y0)] with
    | Some (fs, gs) =>
        match wsum_skip b_ex fs vzero, wsum_skip b_im gs vzero with
        | Some ex, Some im => Some (y0 +v dt *v ex +v dt *v im)
        | _, _ => None
        end
    | None => None
    end.

  (** Reference additive Runge-Kutta step in Butcher form: every stage derivative
      is evaluated, nothing is skipped (same tableau format). *)
  Fixpoint wsum (cs : list F) (xs : list V) (acc : V) : V :=
    match cs, xs with
    | c :: cs', x :: xs' => wsum cs' xs' (acc +v c *v x)
    | _, _ => acc
    end.

  Fixpoint ark_stages (dt : F) (y0 : V) (i : nat) (rex rim : list (list F)) (fs gs : list V)
      : list V * list V :=
    match rex, rim with
    | re :: rex', ri :: rim' =>
        let Ystar := y0 +v dt *v wsum re fs vzero +v dt *v wsum ri gs vzero in
        let Y := Ginv Ystar (dt * nth i ri 0) in
        ark_stages dt y0 (S i) rex' rim' (fs ++ [Fx Y]) (gs ++ [G Y])
    | _, _ => (fs, gs)
    end.

  Definition ark_step (dt : F) (a_ex a_im : list (list F)) (b_ex b_im : list F) (y0 : V) : V :=
    let (fs, gs) := ark_stages dt y0 1 a_ex a_im [Fx y0] [G y0] in
    y0 +v dt *v wsum b_ex fs vzero +v dt *v wsum b_im gs vzero.

  (** Classical explicit Runge-Kutta step (a, b) and the "theta" schemes used as
      reduction targets. *)
  Fixpoint erk_stages (dt : F) (y0 : V) (rows : list (list F)) (fs : list V) : list V :=
    match rows with
    | r :: rows' => erk_stages dt y0 rows' (fs ++ [Fx (y0 +v dt *v wsum r fs vzero)])
    | [] => fs
    end.
  Definition erk_step (dt : F) (a : list (list F)) (b : list F) (y0 : V) : V :=
    y0 +v dt *v wsum b (erk_stages dt y0 a [Fx y0]) vzero.

  (** diagonally implicit Runge-Kutta step (a, b), a in the a_im format *)
  Fixpoint dirk_stages (dt : F) (y0 : V) (i : nat) (rows : list (list F)) (gs : list V) : list V :=
    match rows with
    | r :: rows' =>
        dirk_stages dt y0 (S i) rows'
          (gs ++ [G (Ginv (y0 +v dt *v wsum r gs vzero) (dt * nth i r 0))])
    | [] => gs
    end.
  Definition dirk_step (dt : F) (a : list (list F)) (b : list F) (y0 : V) : V :=
    y0 +v dt *v wsum b (dirk_stages dt y0 1 a [G y0]) vzero.

  (** explicit 2N low-storage Runge-Kutta step (Williamson form) *)
  Fixpoint ls_explicit_loop (dt : F) (be ga : list F) (h u : V) : V :=
    match be, ga with
    | b :: be', g :: ga' =>
        let h' := Fx u +v b *v h in ls_explicit_loop dt be' ga' h' (u +v (g * dt) *v h')
    | _, _ => u
    end.

  (** one Crank-Nicolson substep of size 2*mu:  (1 - mu G)^-1 (u + mu G u) *)
  Definition cn_substep (mu : F) (u : V) : V := Ginv (u +v mu *v G u) mu.
  Fixpoint cn_chain (dt : F) (al : list F) (u : V) : V :=
    match al with
    | a0 :: ((a1 :: _) as al') => cn_chain dt al' (cn_substep (half * dt * (a1 - a0)) u)
    | _ => u
    end.
  Definition backward_euler_step (dt : F) (u : V) : V := Ginv u dt.
End Steps.

(** ** Butcher form of the 2N low-storage + Crank-Nicolson scheme (s = n+1 stages,
    the last stage is the result).  Returns (a_ex, a_im, b_ex, b_im) in the
    ImExButcherTableau format. *)
Section Butcher.
  Context {F : Type} {o : Ops F}.

  Definition ladd (l1 l2 : list F) : list F := map (fun p => fst p + snd p) (combine l1 l2).

  (** state: [hc] coefficients of h_k on F(Y_0..Y_k); [ue] explicit coefficients of
      u_k on F(Y_0..Y_{k-1}); implicit coefficients of u_k on G(Y_0..Y_k) = uprev ++ [ulast]. *)
  Fixpoint ls2b_loop (al be ga : list F) (hc ue uprev : list F) (ulast : F)
      (AE AI : list (list F)) {struct be} : list (list F) * list (list F) :=
    match be, ga, al with
    | b :: be', g :: ga', a0 :: ((a1 :: _) as al') =>
        let hc' := map (fmul b) hc ++ [1] in
        let ue' := ladd (ue ++ [0]) (map (fmul g) hc') in
        let mu := @half F o * (a1 - a0) in
        let uprev' := uprev ++ [ulast + mu] in
        ls2b_loop al' be' ga' hc' ue' uprev' mu (AE ++ [ue']) (AI ++ [uprev' ++ [mu]])
    | _, _, _ => (AE, AI)
    end.

  Definition lowstorage_to_butcher (al be ga : list F)
      : list (list F) * list (list F) * list F * list F :=
    let (AE, AI) := ls2b_loop al be ga [] [] [] 0 [] [] in
    (AE, AI, last AE [] ++ [0], last AI []).

  (** Hand-derived Butcher forms of the two directly coded schemes. *)
  Definition euler_tableau : list (list F) * list (list F) * list F * list F :=
    ([[1]], [[0; 1]], [1; 0], [0; 1]).
  Definition cn_rk2_tableau : list (list F) * list (list F) * list F * list F :=
    let h := @half F o in
    ([[1]; [h; h]], [[h; h]; [h; 0; h]], [h; h; 0], [h; 0; h]).

  (** *** Order conditions of additive Runge-Kutta methods (rooted trees up to
      order 3 with every explicit/implicit colouring; explicit trees of order 4).
      [sel]: true = explicit tableau, false = implicit tableau. *)
  Definition T := (list (list F) * list (list F) * list F * list F)%type.
  Definition t_aex (t : T) := fst (fst (fst t)).
  Definition t_aim (t : T) := snd (fst (fst t)).
  Definition t_bex (t : T) := snd (fst t).
  Definition t_bim (t : T) := snd t.
  Definition stages (t : T) : nat := length (t_bex t).

  Definition A (t : T) (sel : bool) (i j : nat) : F :=
    match i with
    | O => 0
    | S i' => nth j (nth i' (if sel then t_aex t else t_aim t) []) 0
    end.
  Definition bvec (t : T) (sel : bool) (i : nat) : F := nth i (if sel then t_bex t else t_bim t) 0.
  Definition cvec (t : T) (sel : bool) (i : nat) : F := sumn (stages t) (fun j => A t sel i j).
  Definition q (n d : Z) : F := fofZ n / fofZ d.

  (** stage-time vectors, materialised once per condition ([memo]) *)
  Definition cmem (t : T) (sel : bool) : nat -> F := memo (stages t) (cvec t sel).

  Definition oc_sum (t : T) X : F := sumn (stages t) (bvec t X) - 1.
  Definition oc_bc (t : T) X Y : F :=
    let cY := cmem t Y in sumn (stages t) (fun i => bvec t X i * cY i) - q 1 2.
  Definition oc_bcc (t : T) X Y Z : F :=
    let cY := cmem t Y in let cZ := cmem t Z in
    sumn (stages t) (fun i => bvec t X i * cY i * cZ i) - q 1 3.
  Definition oc_bAc (t : T) X Y Z : F :=
    let cZ := cmem t Z in
    sumn (stages t) (fun i => bvec t X i * sumn (stages t) (fun j => A t Y i j * cZ j)) - q 1 6.

  Definition bools := [true; false].
  Definition order1 (t : T) : list F := map (oc_sum t) bools.
  Definition order2 (t : T) : list F :=
    flat_map (fun X => map (oc_bc t X) bools) bools.
  Definition order3 (t : T) : list F :=
    flat_map (fun X => flat_map (fun Y => flat_map (fun Z => [oc_bcc t X Y Z; oc_bAc t X Y Z]) bools) bools) bools.
  (** stage-time consistency c_ex = c_im (makes all coupling conditions collapse) *)
  Definition c_consistency (t : T) : list F :=
    map (fun i => cvec t true i - cvec t false i) (seq 0 (stages t)).

  (** explicit-only conditions *)
  Definition Ac (t : T) (f : nat -> F) : nat -> F :=
    memo (stages t) (fun i => sumn (stages t) (fun j => A t true i j * f j)).
  Definition ex_order3_bushy (t : T) : F := oc_bcc t true true true.
  Definition ex_order3_tall (t : T) : F := oc_bAc t true true true.
  Definition ex_order4 (t : T) : list F :=
    let s := stages t in let b := bvec t true in let c := cmem t true in
    let Acv := Ac t c in let Ac2 := Ac t (fun j => c j * c j) in let AAc := Ac t Acv in
    [ sumn s (fun i => b i * c i * c i * c i) - q 1 4;
      sumn s (fun i => b i * c i * Acv i) - q 1 8;
      sumn s (fun i => b i * Ac2 i) - q 1 12;
      sumn s (fun i => b i * AAc i) - q 1 24 ].
  Definition ex_order4_tall (t : T) : F :=
    let AAc := Ac t (Ac t (cmem t true)) in
    sumn (stages t) (fun i => bvec t true i * AAc i) - q 1 24.
  Definition ex_order5_bushy (t : T) : F :=
    let c := cmem t true in
    sumn (stages t) (fun i => bvec t true i * c i * c i * c i * c i) - q 1 5.

  Definition all_zero (l : list F) : bool := forallb (fun x => feqb x 0) l.
  Definition fabsb (x : F) : F := if fleb 0 x then x else - x.
  Definition all_within (eps : F) (l : list F) : bool := forallb (fun x => fleb (fabsb x) eps) l.
  Fixpoint nondecreasing (l : list F) : bool :=
    match l with
    | a0 :: ((a1 :: _) as l') => fleb a0 a1 && nondecreasing l'
    | _ => true
    end.
End Butcher.

(** ** Truncated bivariate formal power series Q[[x,y]] / (x^N, y^N) as a vector
    space over the scalars, with F = multiplication by x, G = multiplication by y,
    G_inv(., eta) = multiplication by (1 - eta y)^-1 (geometric series, exact modulo
    y^N).  Running a step function on the series 1 yields the Taylor coefficients
    of the one-step multiplier r(dt a, dt b) of u' = a u + b u at dt = 1. *)
Section Series.
  Context {F : Type} {o : Ops F}.
  Definition ser := list (list F).
  Definition szero (N : nat) : ser := repeat (repeat 0 N) N.
  Definition sone (N : nat) : ser :=
    match N with O => [] | S n => (1 :: repeat 0 n) :: repeat (repeat 0 N) n end.
  Definition sadd (a b : ser) : ser := map (fun p => ladd (fst p) (snd p)) (combine a b).
  Definition sscal (c : F) (a : ser) : ser := map (map (fmul c)) a.
  Definition smulx (N : nat) (a : ser) : ser := repeat 0 N :: removelast a.
  Definition smuly (a : ser) : ser := map (fun r => 0 :: removelast r) a.
  Fixpoint sgeom (n : nat) (eta : F) (v w : ser) : ser :=
    match n with O => w | S n' => sgeom n' eta v (sadd v (sscal eta (smuly w))) end.
  Definition sinv (N : nat) (v : ser) (eta : F) : ser := sgeom N eta v v.
  Definition SerOps (N : nat) : VOps F ser := {| vzero := szero N; vadd := sadd; vscal := sscal |}.
  Definition scoef (a : ser) (i j : nat) : F := nth j (nth i a []) 0.
End Series.
