(** Model of the nodal ("grid point") column algebra of
    dinosaur/primitive_equations.py: [compute_diagnostic_state] after the
    modal->nodal transforms, and every nodal expression that
    [PrimitiveEquations], [PrimitiveEquationsWithTime], [MoistPrimitiveEquations]
    and [MoistPrimitiveEquationsWithCloudMoisture] hand to [to_modal].
    Definitions only.

    Everything here is pointwise in the horizontal and column-wise in the
    vertical, so the model works on the data of ONE horizontal node:
    a record [NCol] of K-vectors (index functions [nat -> F], layer index
    0 = top) and per-node scalars.  The vertical configuration is the record
    [PEcfg] of Model/Implicit.v (K, R, kappa, log(centers), boundaries, T_ref);
    the implicit column operators G, H, sum(dsigma * .) are the ones of
    Model/Sigma.v and Model/Implicit.v.  Horizontal transforms (to_nodal,
    to_modal, grad, div, curl, laplacian, clip) are NOT part of this model;
    the theorems treat them as abstract linear operators. *)
From Dino Require Import Base.Ops Base.Sums Base.Ord Model.Sigma Model.Implicit.
Local Open Scope F_scope.

Section PrimEq.
  Context {F : Type} {o : Ops F}.

  (** Nodal data of one horizontal node (fields of [DiagnosticState] that are
      produced by linear transforms of the modal state, and grid tables). *)
  Record NCol := mkNCol {
    n_u : nat -> F;        (* cos_lat_u[0]  (K) *)
    n_v : nat -> F;        (* cos_lat_u[1]  (K) *)
    n_vort : nat -> F;     (* vorticity     (K) *)
    n_div : nat -> F;      (* divergence    (K) *)
    n_temp : nat -> F;     (* temperature_variation (K) *)
    n_gx : F;              (* cos_lat_grad_log_sp[0] (surface field) *)
    n_gy : F;              (* cos_lat_grad_log_sp[1] *)
    n_sec2 : F;            (* grid.sec2_lat at the node *)
    n_f : F }.             (* coriolis_parameter at the node *)

  (** Extra physical constants of the moist classes. *)
  Record Moist := mkMoist {
    mRv : F;               (* physics_specs.R_vapor *)
    mCpv : F }.            (* physics_specs.Cp_vapor *)

  Section WithCfg.
  Variable c : @PEcfg F.
  Let K := cK c.
  Let b := cb c.
  Let th := thickness (cb c).

  (** *** compute_diagnostic_state, nodal part *)
  (** sum(tree_map(lambda x, y: x * y * sec2_lat, cos_lat_u, grad)) ; python's
      [sum] starts from the integer 0. *)
  Definition u_dot_grad (x : NCol) (k : nat) : F :=
    0 + n_u x k * n_gx x * n_sec2 x + n_v x k * n_gy x * n_sec2 x.

  (** cumulative_sigma_integral with the defaults (downward, 'dot') *)
  Definition cumint (g : nat -> F) : nat -> F := cum_sigma_integral true true K b g.
  (** np.cumsum(layer_thickness) *)
  Definition sum_sigma (r : nat) : F := cumsum_seq th r.
  (** slice(sum_sigma * f[-1:] - f, 0, -1): K-1 entries (internal boundaries) *)
  Definition sigma_dot (g : nat -> F) (r : nat) : F :=
    let f := cumint g in sum_sigma r * f (K - 1)%nat - f r.
  Definition g_explicit (x : NCol) : nat -> F := u_dot_grad x.
  Definition g_full_diag (x : NCol) (k : nat) : F := n_div x k + u_dot_grad x k.
  Definition sigma_dot_explicit (x : NCol) : nat -> F := sigma_dot (g_explicit x).
  Definition sigma_dot_full (x : NCol) : nat -> F := sigma_dot (g_full_diag x).

  (** *** PrimitiveEquations._vertical_tendency (centered_vertical_advection, default boundary values) *)
  Definition vertical_tendency (w xx : nat -> F) : nat -> F :=
    centered_vertical_advection K b w xx 0 0 0 0.

  (** *** PrimitiveEquations._t_omega_over_sigma_sp *)
  Definition g_part (g : nat -> F) (n : nat) : F :=
    let f := cumint g in
    let af := fun k => alpha K (cls c) k * f k in
    (* jnp.pad(alpha * f, [(1, 0)])[:-1] : shifted down by one, zero on top *)
    (af n + (if Nat.eqb n 0 then 0 else af (n - 1)%nat)) / th n.
  Definition t_omega_over_sigma_sp (Tf g vg : nat -> F) (n : nat) : F :=
    Tf n * (vg n - g_part g n).

  (** np.unique(T_ref.ravel()).size > 1 *)
  Definition tref_nonuniform : bool :=
    existsb (fun k => negb (feqb (cTref c k) (cTref c 0%nat))) (seq 0 K).

  (** *** nodal_temperature_vertical_tendency *)
  Definition temp_vertical_tendency (inc_va : bool) (x : NCol) (n : nat) : F :=
    let tendency := if inc_va then vertical_tendency (sigma_dot_full x) (n_temp x) n else 0 in
    if tref_nonuniform
    then tendency + vertical_tendency (sigma_dot_explicit x) (cTref c) n
    else tendency.

  (** *** nodal_temperature_adiabatic_tendency (dry) *)
  Definition g_full_adiabatic (x : NCol) (k : nat) : F := u_dot_grad x k + n_div x k.
  Definition temp_adiabatic (x : NCol) (n : nat) : F :=
    let mean_t_part := t_omega_over_sigma_sp (cTref c) (g_explicit x) (u_dot_grad x) n in
    let variation_t_part := t_omega_over_sigma_sp (n_temp x) (g_full_adiabatic x) (u_dot_grad x) n in
    ckappa c * (mean_t_part + variation_t_part).

  (** *** MoistPrimitiveEquations.nodal_temperature_adiabatic_tendency *)
  Definition temp_adiabatic_moist (m : Moist) (x : NCol) (q : nat -> F) (n : nat) : F :=
    let gas_const_ratio := mRv m / cR c in
    let heat_capacity_ratio := mCpv m / (cR c / ckappa c) in
    let mean_t_part := t_omega_over_sigma_sp (cTref c) (g_explicit x) (u_dot_grad x) n in
    let variation_temperature_component := fun k =>
      n_temp x k * ((1 + (gas_const_ratio - 1) * q k) / (1 + (heat_capacity_ratio - 1) * q k)) in
    let humidity_reference_component := fun k =>
      cTref c k * (((gas_const_ratio - heat_capacity_ratio) * q k) / (1 + (heat_capacity_ratio - 1) * q k)) in
    let variation_and_humidity_terms := fun k =>
      variation_temperature_component k + humidity_reference_component k in
    let variation_and_Tv_part :=
      t_omega_over_sigma_sp variation_and_humidity_terms (g_full_adiabatic x) (u_dot_grad x) n in
    ckappa c * (mean_t_part + variation_and_Tv_part).

  (** *** nodal_log_pressure_tendency *)
  Definition log_pressure_tendency (x : NCol) : F := - sigma_integral K b (u_dot_grad x).

  (** *** horizontal_scalar_advection: nodal term, and the two nodal arrays
      that [div_sec_lat] passes to [to_modal] *)
  Definition hsa_nodal (x : NCol) (s : nat -> F) (k : nat) : F := s k * n_div x k.
  Definition hsa_mu (x : NCol) (s : nat -> F) (k : nat) : F := n_u x k * s k * n_sec2 x.
  Definition hsa_mv (x : NCol) (s : nat -> F) (k : nat) : F := n_v x k * s k * n_sec2 x.

  (** *** the nodal arrays combined in explicit_terms before to_modal *)
  (** to_modal_fn(dT_dt_horizontal_nodal + dT_dt_vertical + dT_dt_adiabatic) *)
  Definition temp_nodal_total (inc_va : bool) (x : NCol) (n : nat) : F :=
    hsa_nodal x (n_temp x) n + temp_vertical_tendency inc_va x n + temp_adiabatic x n.
  Definition temp_nodal_total_moist (inc_va : bool) (m : Moist) (x : NCol) (q : nat -> F) (n : nat) : F :=
    hsa_nodal x (n_temp x) n + temp_vertical_tendency inc_va x n + temp_adiabatic_moist m x q n.
  (** to_modal_fn(x + y_z[0]) for a tracer: vertical + horizontal nodal *)
  Definition tracer_nodal_total (inc_va : bool) (x : NCol) (s : nat -> F) (n : nat) : F :=
    (if inc_va then vertical_tendency (sigma_dot_full x) s n else 0) + hsa_nodal x s n.

  (** *** kinetic_energy_tendency: argument of to_modal *)
  Definition kinetic (x : NCol) (k : nat) : F :=
    (n_u x k * n_u x k + n_v x k * n_v x k) * n_sec2 x / two.

  (** *** curl_and_div_tendencies: the two arguments of to_modal.
      [rt] is R*T' (dry) or the virtual-temperature variant of the moist classes. *)
  Definition rt_dry (x : NCol) (k : nat) : F := cR c * n_temp x k.
  Definition moisture_contribution (m : Moist) (q : nat -> F) (k : nat) : F :=
    (mRv m / cR c - 1) * q k.
  (** MoistPrimitiveEquations._virtual_temperature *)
  Definition rt_moist (m : Moist) (x : NCol) (q : nat -> F) (k : nat) : F :=
    cR c * n_temp x k * (1 + moisture_contribution m q k).
  (** MoistPrimitiveEquationsWithCloudMoisture._virtual_temperature *)
  Definition rt_cloud (m : Moist) (x : NCol) (q qc qi : nat -> F) (k : nat) : F :=
    cR c * n_temp x k * (1 + moisture_contribution m q k - qc k - qi k).

  Definition combined_u (inc_va : bool) (x : NCol) (rt : nat -> F) (k : nat) : F :=
    let total_vorticity := n_vort x k + n_f x in
    let nodal_vorticity_u := - n_v x k * total_vorticity * n_sec2 x in
    let sigma_dot_u := if inc_va then - vertical_tendency (sigma_dot_full x) (n_u x) k else 0 in
    let vertical_term_u := (sigma_dot_u + rt k * n_gx x) * n_sec2 x in
    nodal_vorticity_u + vertical_term_u.
  Definition combined_v (inc_va : bool) (x : NCol) (rt : nat -> F) (k : nat) : F :=
    let total_vorticity := n_vort x k + n_f x in
    let nodal_vorticity_v := n_u x k * total_vorticity * n_sec2 x in
    let sigma_dot_v := if inc_va then - vertical_tendency (sigma_dot_full x) (n_v x) k else 0 in
    let vertical_term_v := (sigma_dot_v + rt k * n_gy x) * n_sec2 x in
    nodal_vorticity_v + vertical_term_v.

  (** *** MoistPrimitiveEquations.divergence_tendency_due_to_humidity:
      [gqx],[gqy] = nodal cos_lat_grad of specific humidity (K), [lap_lsp] =
      nodal laplacian(log_surface_pressure) at the node. *)
  Definition humidity_div_nodal (m : Moist) (x : NCol) (q gqx gqy : nat -> F) (lap_lsp : F) (k : nat) : F :=
    let nodal_laplacian_correction_term := q k * lap_lsp * cTref c k * (mRv m - cR c) in
    let coefficient := cTref c k * (mRv m - cR c) in
    let nodal_dot_term := coefficient * n_sec2 x * (gqx k * n_gx x + gqy k * n_gy x) in
    nodal_dot_term + nodal_laplacian_correction_term.
  (** temperature_diff and its (nodal, column) geopotential: argument of to_modal *)
  Definition humidity_temperature_diff (m : Moist) (x : NCol) (q : nat -> F) (k : nat) : F :=
    q k * (n_temp x k + cTref c k) * (mRv m / cR c - 1).
  Definition humidity_geo_nodal (sparse : bool) (m : Moist) (x : NCol) (q : nat -> F) : nat -> F :=
    geo_diff sparse c (humidity_temperature_diff m x q).
  (** vorticity_tendency_due_to_humidity: argument of to_modal *)
  Definition humidity_curl_nodal (m : Moist) (x : NCol) (gqx gqy : nat -> F) (k : nat) : F :=
    let coefficient := cTref c k * (mRv m - cR c) in
    coefficient * n_sec2 x * (n_gx x * gqy k - n_gy x * gqx k).

  (** The nodal vector whose (div, curl) the implicit term -laplacian(R T_ref lnps)
      and the explicit humidity corrections (nodal_dot_term + laplacian
      correction, nodal_curl_term) represent when the horizontal operators are
      exact: (R T_ref + (Rv - R) T_ref q) * sec2 * cos_lat_grad(lnps).
      [effective_pgf_*] = combined_* + this vector is what the divergence and
      vorticity equations effectively differentiate. *)
  Definition tref_pgf_u (m : Moist) (x : NCol) (q : nat -> F) (k : nat) : F :=
    (cR c * cTref c k + cTref c k * (mRv m - cR c) * q k) * n_gx x * n_sec2 x.
  Definition tref_pgf_v (m : Moist) (x : NCol) (q : nat -> F) (k : nat) : F :=
    (cR c * cTref c k + cTref c k * (mRv m - cR c) * q k) * n_gy x * n_sec2 x.
  Definition effective_pgf_u (inc_va : bool) (m : Moist) (x : NCol) (rt q : nat -> F) (k : nat) : F :=
    combined_u inc_va x rt k + tref_pgf_u m x q k.
  Definition effective_pgf_v (inc_va : bool) (m : Moist) (x : NCol) (rt q : nat -> F) (k : nat) : F :=
    combined_v inc_va x rt k + tref_pgf_v m x q k.

  (** *** implicit_terms, column operators applied to one nodal or modal column *)
  (** get_temperature_implicit (dense): -H . divergence *)
  Definition temp_implicit_col (dv : nat -> F) : nat -> F := temp_implicit_dense c dv.
  (** -(layer_thickness . divergence) *)
  Definition lnps_implicit_col (dv : nat -> F) : F :=
    - matvec K (fun _ h => th h) dv 0%nat.
  (** geopotential_diff + rt_log_p, the argument of -laplacian *)
  Definition div_implicit_potential (sparse : bool) (Tcol : nat -> F) (lnps : F) (k : nat) : F :=
    geo_diff sparse c Tcol k + cR c * cTref c k * lnps.
  End WithCfg.

  (** the same atmosphere seen through another reference profile *)
  Definition with_tref (c : @PEcfg F) (Tref : nat -> F) : @PEcfg F :=
    mkPE (cK c) (cR c) (ckappa c) (cls c) (cb c) Tref.
  Definition with_temp (x : NCol) (Tp : nat -> F) : NCol :=
    mkNCol (n_u x) (n_v x) (n_vort x) (n_div x) Tp (n_gx x) (n_gy x) (n_sec2 x) (n_f x).
End PrimEq.

(** ** explicit_terms / implicit_terms assembled over abstract horizontal operators.
    [W] indexes modal coefficients, [P] horizontal nodes; every operator acts
    on one level.  [X p] is the nodal column at node [p]. Not executed. *)
Section ModalAssembly.
  Context {F : Type} {o : Ops F}.
  Variables W P : Type.
  Variable toM : (P -> F) -> W -> F.                       (* grid.to_modal *)
  Variable divc curlc : (W -> F) -> (W -> F) -> W -> F.    (* div_cos_lat, curl_cos_lat, clip=False *)
  Variable lap clip : (W -> F) -> W -> F.                  (* laplacian, clip_wavenumbers *)
  Variable c : @PEcfg F.
  Variable grav : F.                                       (* physics_specs.g *)

  (** temperature: clip(to_modal(nodal total) + (-div_sec_lat(u T', v T'))) + (-H.div) *)
  Definition temp_tendency_explicit (X : P -> NCol) (r : nat) (w : W) : F :=
    clip (fun w' => toM (fun p => temp_nodal_total c true (X p) r) w'
                    + - divc (toM (fun p => hsa_mu (X p) (n_temp (X p)) r))
                             (toM (fun p => hsa_mv (X p) (n_temp (X p)) r)) w') w.
  Definition temp_tendency_explicit_moist (m : Moist) (X : P -> NCol) (q : P -> nat -> F) (r : nat) (w : W) : F :=
    clip (fun w' => toM (fun p => temp_nodal_total_moist c true m (X p) (q p) r) w'
                    + - divc (toM (fun p => hsa_mu (X p) (n_temp (X p)) r))
                             (toM (fun p => hsa_mv (X p) (n_temp (X p)) r)) w') w.
  Definition temp_tendency_implicit (dv : nat -> W -> F) (r : nat) (w : W) : F :=
    temp_implicit_col c (fun s => dv s w) r.

  (** divergence: clip(-div(to_modal combined) - lap(to_modal kinetic) - g lap(orography) [+ humidity]) - lap(G T' + R T_ref lnps) *)
  Definition div_tendency_explicit (X : P -> NCol) (rt : P -> nat -> F) (orog hum : W -> F) (r : nat) (w : W) : F :=
    clip (fun w' => - divc (toM (fun p => combined_u c true (X p) (rt p) r))
                           (toM (fun p => combined_v c true (X p) (rt p) r)) w'
                    + - lap (toM (fun p => kinetic (X p) r)) w'
                    + - grav * lap orog w'
                    + hum w') w.
  Definition div_tendency_implicit (Tm : nat -> W -> F) (lnps : W -> F) (r : nat) (w : W) : F :=
    - lap (fun w' => div_implicit_potential c false (fun k => Tm k w') (lnps w') r) w.
  (** divergence_tendency_due_to_humidity *)
  Definition humidity_div_modal (m : Moist) (X : P -> NCol) (q gqx gqy : P -> nat -> F) (lapn : P -> F) (r : nat) (w : W) : F :=
    - lap (toM (fun p => humidity_geo_nodal c false m (X p) (q p) r)) w
    - toM (fun p => humidity_div_nodal c m (X p) (q p) (gqx p) (gqy p) (lapn p) r) w.

  (** vorticity: clip(-curl(to_modal combined) [+ humidity]) + 0 *)
  Definition vort_tendency_explicit (X : P -> NCol) (rt : P -> nat -> F) (hum : W -> F) (r : nat) (w : W) : F :=
    clip (fun w' => - curlc (toM (fun p => combined_u c true (X p) (rt p) r))
                            (toM (fun p => combined_v c true (X p) (rt p) r)) w'
                    + hum w') w.
  Definition humidity_curl_modal (m : Moist) (X : P -> NCol) (gqx gqy : P -> nat -> F) (r : nat) (w : W) : F :=
    toM (fun p => humidity_curl_nodal c m (X p) (gqx p) (gqy p) r) w.
End ModalAssembly.
