(** A tiny DSL for 1-D array programs along one axis (the vertical axis of
    dinosaur/sigma_coordinates.py).  Definitions only.  An array is a pair
    [(length, index function)].  The generated file Gen/SigmaSrc.v
    (tools/translate/gen_sigma.py) is written in these combinators; the generic
    lemmas about them are in Thm/SigmaSrc.v. *)
From Dino Require Import Base.Ops Base.Sums Base.Ord Model.Sigma.
Local Open Scope F_scope.

(** python slice / index bound: [None], a non-negative literal, a negative literal [-i] *)
Inductive bnd : Type := BNone | BPos (i : nat) | BNeg (i : nat).

Definition norm_bound (n d : nat) (b : bnd) : nat :=
  match b with BNone => d | BPos i => Nat.min n i | BNeg i => (n - i)%nat end.

Fixpoint all_upto (n : nat) (p : nat -> bool) : bool :=
  match n with O => true | S k => all_upto k p && p k end.

Definition arr (F : Type) : Type := (nat * (nat -> F))%type.
Definition barr : Type := (nat * (nat -> bool))%type.

Section ArrDSL.
  Context {F : Type} {o : Ops F}.
  Local Notation arr := (arr F).

  (** small non-negative integer literals of the source: 0 + 1 + ... + 1 *)
  Fixpoint a_nat (n : nat) : F := match n with O => 0 | S k => a_nat k + 1 end.

  (** [x[lo:hi]], [lax.slice_in_dim(x, lo, hi)]: bounds clamped to [0, len], empty when hi <= lo *)
  Definition a_slice (lo hi : bnd) (a : arr) : arr :=
    let l := norm_bound (fst a) 0 lo in
    let h := norm_bound (fst a) (fst a) hi in
    ((h - l)%nat, fun k => snd a (l + k)%nat).
  (** [x[i]] *)
  Definition a_get (a : arr) (i : bnd) : F := snd a (norm_bound (fst a) 0 i).

  Definition a_const (n : nat) (v : F) : arr := (n, fun _ => v).
  Definition a_concat (a c : arr) : arr :=
    ((fst a + fst c)%nat, fun k => if Nat.ltb k (fst a) then snd a k else snd c (k - fst a)%nat).
  Definition a_concatl (l : list arr) : arr := fold_right a_concat (a_const 0 0) l.
  Definition a_pad_front (v : F) (a : arr) : arr := a_concat (a_const 1 v) a.
  (** np.diff *)
  Definition a_diff (a : arr) : arr := ((fst a - 1)%nat, fun k => snd a (S k) - snd a k).
  Definition a_map (f : F -> F) (a : arr) : arr := (fst a, fun k => f (snd a k)).
  (** elementwise binary operation of two arrays of equal length (python raises on unequal lengths;
      here the length of the left operand is used - a length mismatch between the operands is NOT
      detected by the theorems about the transcription) *)
  Definition a_map2 (f : F -> F -> F) (a c : arr) : arr := (fst a, fun k => f (snd a k) (snd c k)).
  Definition a_scale (c : F) (a : arr) : arr := a_map (fmul c) a.
  (** jax_numpy_utils.cumsum / reverse_cumsum; the method is the opaque parameter [dot] *)
  Definition a_cumsum (dot : bool) (a : arr) : arr := (fst a, cumsum_m dot (fst a) (snd a)).
  Definition a_revcumsum (dot : bool) (a : arr) : arr := (fst a, revcumsum_m dot (fst a) (snd a)).
  Definition a_sum (a : arr) : F := sumn (fst a) (snd a).
  (** elementwise test, python [all] *)
  Definition a_mapb (f : F -> bool) (a : arr) : barr := (fst a, fun k => f (snd a k)).
  Definition a_all (a : barr) : bool := all_upto (fst a) (snd a).
  (** explicit (top, bottom) boundary values or the default *)
  Definition bv_or (p : option (F * F)) (d : F * F) : F * F := match p with None => d | Some q => q end.
End ArrDSL.

(** *** additions for dinosaur/vertical_interpolation.py (property C17); C13 uses none of these *)
Fixpoint count_upto (n : nat) (p : nat -> bool) : nat :=
  match n with O => O | S k => (count_upto k p + (if p k then 1 else 0))%nat end.
(** integer arrays (jnp.arange) *)
Definition narr : Type := (nat * (nat -> nat))%type.
Definition a_arange (n : nat) : narr := (n, fun k => k).
Definition a_mapn (f : nat -> bool) (a : narr) : barr := (fst a, fun k => f (snd a k)).
(** jnp.clip(u, lo, hi) = minimum(maximum(u, lo), hi) *)
Definition a_clipn (u lo hi : nat) : nat := Nat.min (Nat.max u lo) hi.

Section ArrDSL2.
  Context {F : Type} {o : Ops F}.
  Local Notation arr := (arr F).

  (** length-checked elementwise operations: python raises on unequal lengths; here the result
      is EMPTY, so the length equalities proved about a transcription detect the mismatch *)
  Definition chk_len (n m : nat) : nat := if Nat.eqb n m then n else 0%nat.
  Definition a_map2_chk (f : F -> F -> F) (a c : arr) : arr :=
    (chk_len (fst a) (fst c), fun k => f (snd a k) (snd c k)).
  Definition a_map2b_chk (f : F -> bool -> F) (a : arr) (c : barr) : arr :=
    (chk_len (fst a) (fst c), fun k => f (snd a k) (snd c k)).
  (** boolean array used as numbers *)
  Definition a_ofb (c : barr) : arr := (fst c, fun k => ind (snd c k)).
  (** jnp.where(scalar condition, a, c) *)
  Definition a_if_chk (t : bool) (a c : arr) : arr :=
    (chk_len (fst a) (fst c), fun k => if t then snd a k else snd c k).
  (** jnp.dot of two 1-D arrays *)
  Definition a_dot_chk (a c : arr) : F := a_sum (a_map2_chk fmul a c).
  (** jnp.pad(a, [(l, r)]) with zeros *)
  Definition a_pad (l r : nat) (a : arr) : arr := a_concatl [a_const l 0; a; a_const r 0].
  (** jnp.searchsorted(a, x, side=..., method='compare_all'): number of entries before the insertion point *)
  Definition a_count (p : F -> bool) (a : arr) : nat := count_upto (fst a) (fun k => p (snd a k)).
End ArrDSL2.
