(** Model of the model-parallel (sharded) code paths of dinosaur (property C07):
    jax_numpy_utils.py  ([_parallel_dot_cumsum], [_allgather_matmul_twoway],
    [_matmul_reducescatter_twoway], the subscript logic of [sharded_einsum]) and
    spherical_harmonic.py ([_round_to_multiple], padded shapes, [_unstack_m] /
    [_stack_m], the frequency-offset longitude derivative, vertical pad/crop).
    Definitions only.

    A mesh axis is a ring of [n] devices; a distributed value is a function
    [nat -> shard] of the device id [d < n] ([lax.axis_index] = [d],
    [lax.psum 1] = [n]).  [lax.ppermute] is modelled from its [perm] list
    (device [dst] receives the value of the [src] with [perm src = dst], zeros
    when there is none), [lax.all_gather(tiled)] as concatenation in device
    order.  That XLA's collectives and [shard_map] behave like this is NOT
    proved; it is exercised by the correspondence on up to 8 devices. *)
From Dino Require Import Base.Ops Base.Sums Base.Ord Model.Sigma.
Local Open Scope F_scope.

(** * Collectives *)
Section Collectives.
  Variable n : nat.                       (* axis_size = lax.psum(1, axis_name) *)

  (** Python's [%] on integers (result in [0, n) for n > 0). *)
  Definition pymod (z : Z) : nat := Z.to_nat (z mod Z.of_nat n).

  (** [perm_fwd = [(j, (j + 1) % axis_size) ...]], [perm_bwd = [(j, (j - 1) % axis_size) ...]]:
      the destination of source [j]. *)
  Definition perm_fwd (j : nat) : nat := pymod (Z.of_nat j + 1).
  Definition perm_bwd (j : nat) : nat := pymod (Z.of_nat j - 1).

  (** [lax.ppermute x axis_name perm] seen from device [d]. *)
  Definition ppermute {T : Type} (zero : T) (perm : nat -> nat) (x : nat -> T) (d : nat) : T :=
    match find (fun s => Nat.eqb (perm s) d) (seq 0 n) with
    | Some s => x s
    | None => zero
    end.

  (** [lax.all_gather x axis_name tiled=True] of shards of length [c]
      (the same on every device): global index [g] lives on device [g / c]. *)
  Definition all_gather_tiled {T : Type} (c : nat) (x : nat -> nat -> T) : nat -> T :=
    fun g => x (g / c)%nat (g mod c)%nat.

  (** [lax.fori_loop lo hi body init], iterations [i = lo .. hi-1], by
      recursion on the number of iterations already done. *)
  Fixpoint fori_iter {S : Type} (lo cnt : nat) (body : nat -> S -> S) (init : S) : S :=
    match cnt with
    | O => init
    | Datatypes.S k => body (lo + k)%nat (fori_iter lo k body init)
    end.
  Definition fori_loop {S : Type} (lo hi : nat) (body : nat -> S -> S) (init : S) : S :=
    fori_iter lo (hi - lo) body init.
End Collectives.

Section Sharding.
  Context {F : Type} {o : Ops F}.

  Definition zshard : nat -> F := fun _ => 0.

  (** * [_parallel_dot_cumsum]
      [x d] is the shard of device [d] (length [c]) along the summed axis. *)
  Section ParCumsum.
    Variable n c : nat.
    Variable reverse : bool.
    Variable x : nat -> nat -> F.

    (** partials = _single_device_dot_cumsum(x, axis, reverse) *)
    Definition pc_partials (d : nat) : nat -> F :=
      if reverse then revcumsum_dot c (x d) else cumsum_dot c (x d).
    (** last_partial = index_in_dim(partials, 0 if reverse else -1): a shard of length 1 *)
    Definition pc_last_partial (d : nat) : nat -> F :=
      fun _ => pc_partials d (if reverse then 0 else c - 1)%nat.
    (** sums = all_gather(last_partial, axis=axis, tiled=True): length n *)
    Definition pc_sums : nat -> F := all_gather_tiled 1 pc_last_partial.
    (** op = greater if reverse else less; op(i, axis_index) *)
    Definition pc_op (i d : nat) : bool := if reverse then Nat.ltb d i else Nat.ltb i d.
    (** indices = range(1, size) if reverse else range(size - 1); the k-th index *)
    Definition pc_index (k : nat) : nat := if reverse then (1 + k)%nat else k.
    (** for i in indices: total += op(i, axis_index) * sums[i]  -- first [k] iterations *)
    Fixpoint pc_loop (d k : nat) (total : F) : F :=
      match k with
      | O => total
      | S k' => pc_loop d k' total + ind (pc_op (pc_index k') d) * pc_sums (pc_index k')
      end.
    (** size = sums.shape[axis] = n; both ranges have size - 1 elements *)
    Definition parallel_dot_cumsum (d j : nat) : F :=
      pc_loop d (n - 1) (pc_partials d j).
  End ParCumsum.

  (** [_dot_cumsum]: the axis is sharded ([sharded = true]: custom parallel
      implementation over the ring) or not (single device on the whole axis).
      Output indexed by the global position [g < n*c]. *)
  Definition dot_cumsum (sharded reverse : bool) (n c : nat) (X : nat -> F) (g : nat) : F :=
    if sharded then
      parallel_dot_cumsum n c reverse (fun d j => X (d * c + j)%nat) (g / c) (g mod c)
    else (if reverse then revcumsum_dot (n * c) X g else cumsum_dot (n * c) X g).

  (** * [_allgather_matmul_twoway]
      [lhs d a j]: the (un-split along [j]) coefficient block of device [d],
      row [a], column [j < n*c];  [rhs d j']: the shard of device [d] along the
      reduced axis, [j' < c]. The batch axes are pointwise and not modelled. *)
  Section AllGather.
    Variable n c : nat.                    (* axis_size; chunk_size = lhs.shape[split_axis] // axis_size *)
    Variable rev : bool.                   (* reverse_arg_order *)
    Variable lhs : nat -> nat -> nat -> F.
    Variable rhs : nat -> nat -> F.

    (** matmul = einsum(spec, l, r) or, reversed, einsum(spec', r, l), on one chunk *)
    Definition chunk_matmul (len : nat) (l r : nat -> F) : F :=
      sumn len (fun j => if rev then r j * l j else l j * r j).

    (** chunk_index = (axis_index + i) % axis_size *)
    Definition ag_chunk_index (d : nat) (i : Z) : nat := pymod n (Z.of_nat d + i).
    (** lax.dynamic_slice_in_dim(lhs, chunk_index * chunk_size, chunk_size, split_axis) *)
    Definition ag_get_lhs_chunk (d : nat) (i : Z) (a : nat) : nat -> F :=
      fun j => lhs d a (ag_chunk_index d i * c + j)%nat.
    (** indexed_computation(i, rhs_fwd, rhs_bwd) on device d *)
    Definition ag_indexed_computation (d : nat) (i : nat) (rf rb : nat -> F) (a : nat) : F :=
      chunk_matmul c (ag_get_lhs_chunk d (- Z.of_nat i) a) rf
      + chunk_matmul c (ag_get_lhs_chunk d (Z.of_nat i + 1) a) rb.

    Record ag_state := mk_ag { ag_acc : nat -> nat -> F; ag_fwd : nat -> nat -> F; ag_bwd : nat -> nat -> F }.

    (** collective_matmul(i, carrys) *)
    Definition ag_body (i : nat) (s : ag_state) : ag_state :=
      let rf := ppermute n zshard (perm_fwd n) (ag_fwd s) in
      let rb := ppermute n zshard (perm_bwd n) (ag_bwd s) in
      mk_ag (fun d a => ag_acc s d a + ag_indexed_computation d i (rf d) (rb d) a) rf rb.

    Definition ag_init : ag_state :=
      let rf := rhs in
      let rb := ppermute n zshard (perm_bwd n) rhs in
      mk_ag (fun d a => ag_indexed_computation d 0 (rf d) (rb d) a) rf rb.

    (** [None] = ValueError('axis_size must be 1 or even') *)
    Definition allgather_matmul_twoway : option (nat -> nat -> F) :=
      if Nat.eqb n 1 then Some (fun d a => chunk_matmul c (lhs d a) (rhs d))
      else if Nat.eqb (n mod 2) 1 then None
      else Some (ag_acc (fori_loop 1 (n / 2) ag_body ag_init)).
  End AllGather.

  (** * [_matmul_reducescatter_twoway]
      [lhs d a j']: block of device [d] (sharded like [rhs] along the reduced
      axis, [j' < cj]), full scatter axis [a < n*c];  output on device [d]:
      rows [a' < c] = global rows [d*c + a']. *)
  Section ReduceScatter.
    Variable n c cj : nat.
    Variable rev : bool.
    Variable lhs : nat -> nat -> nat -> F.
    Variable rhs : nat -> nat -> F.

    (** indexed_computation(i): chunk_index = (axis_index + axis_size // 2 + i) % axis_size *)
    Definition rs_chunk_index (d : nat) (i : Z) : nat :=
      pymod n (Z.of_nat d + Z.of_nat (n / 2) + i).
    Definition rs_indexed_computation (d : nat) (i : Z) (a : nat) : F :=
      chunk_matmul rev cj (lhs d (rs_chunk_index d i * c + a)%nat) (rhs d).

    Record rs_state := mk_rs { rs_fwd : nat -> nat -> F; rs_bwd : nat -> nat -> F }.

    Definition rs_body (i : nat) (s : rs_state) : rs_state :=
      let af := ppermute n zshard (perm_fwd n) (rs_fwd s) in
      let ab := ppermute n zshard (perm_bwd n) (rs_bwd s) in
      mk_rs (fun d a => af d a + rs_indexed_computation d (- Z.of_nat i) a)
            (fun d a => ab d a + rs_indexed_computation d (Z.of_nat i + 1) a).

    Definition rs_init : rs_state :=
      mk_rs (fun d a => rs_indexed_computation d 0 a) (fun d a => rs_indexed_computation d 1 a).

    Definition matmul_reducescatter_twoway : option (nat -> nat -> F) :=
      if Nat.eqb n 1 then Some (fun d a => chunk_matmul rev cj (lhs d a) (rhs d))
      else if Nat.eqb (n mod 2) 1 then None
      else
        let s := fori_loop 1 (n / 2) rs_body rs_init in
        let af := ppermute n zshard (perm_fwd n) (rs_fwd s) in
        Some (fun d a => af d a + rs_bwd s d a).
  End ReduceScatter.

  (** * Padded shapes ([FastSphericalHarmonics.nodal_shape / modal_shape]) *)
  (** [_round_to_multiple x multiple = multiple * math.ceil(x / multiple)] *)
  Definition round_to_multiple (x multiple : nat) : nat := (multiple * ((x + multiple - 1) / multiple))%nat.
  Definition nodal_shape_x (lon_nodes base xs : nat) : nat := round_to_multiple lon_nodes (base * xs).
  Definition nodal_shape_y (lat_nodes base ys : nat) : nat := round_to_multiple lat_nodes (base * ys).
  Definition modal_shape_x (lon_wavenumbers base xs : nat) : nat :=
    round_to_multiple (2 * lon_wavenumbers) (2 * base * xs).
  Definition modal_shape_y (total_wavenumbers base ys : nat) : nat := round_to_multiple total_wavenumbers (base * ys).

  (** * [_unstack_m] / [_stack_m]: Fortran-order reshapes of the local block
      (Z, M, L) <-> (Z, 2, M/2, L).  [flatF*] is the Fortran-order flattening. *)
  Definition flatF3 (Z M : nat) (x : nat -> nat -> nat -> F) (p : nat) : F :=
    x (p mod Z)%nat ((p / Z) mod M)%nat (p / (Z * M))%nat.
  Definition unstack_m (Z M : nat) (x : nat -> nat -> nat -> F) (z s k l : nat) : F :=
    flatF3 Z M x (z + Z * (s + 2 * (k + (M / 2) * l)))%nat.
  Definition flatF4 (Z S K : nat) (y : nat -> nat -> nat -> nat -> F) (p : nat) : F :=
    y (p mod Z)%nat ((p / Z) mod S)%nat ((p / (Z * S)) mod K)%nat (p / (Z * S * K))%nat.
  (** input (Z, 2, K, L); output (Z, -1, L) with -1 = 2*K *)
  Definition stack_m (Z K : nat) (y : nat -> nat -> nat -> nat -> F) (z m l : nat) : F :=
    flatF4 Z 2 K y (z + Z * (m + (2 * K) * l))%nat.

  (** shard_map with in_spec P(z,'x','y'): device [d] of the x-ring holds
      m in [d*Mloc, (d+1)*Mloc); out_spec P(z,None,'x','y') reassembles k. *)
  Definition shard_m (Mloc : nat) (X : nat -> nat -> nat -> F) (d : nat) : nat -> nat -> nat -> F :=
    fun z m l => X z (d * Mloc + m)%nat l.
  Definition unstack_m_sharded (Z Mloc : nat) (X : nat -> nat -> nat -> F) (z s kg l : nat) : F :=
    let h := (Mloc / 2)%nat in
    unstack_m Z Mloc (shard_m Mloc X (kg / h)) z s (kg mod h) l.
  Definition shard_k (Kloc : nat) (Y : nat -> nat -> nat -> nat -> F) (d : nat) : nat -> nat -> nat -> nat -> F :=
    fun z s k l => Y z s (d * Kloc + k)%nat l.
  Definition stack_m_sharded (Z Kloc : nat) (Y : nat -> nat -> nat -> nat -> F) (z mg l : nat) : F :=
    let Mloc := (2 * Kloc)%nat in
    stack_m Z Kloc (shard_k Kloc Y (mg / Mloc)) z (mg mod Mloc) l.

  (** * [fourier.real_basis_derivative_with_zero_imag(u, axis, frequency_offset)] *)
  (** [jax_numpy_utils.shift(u, -1)] and [shift(u, +1)] (zero fill) *)
  Definition shift_down (len : nat) (u : nat -> F) (i : nat) : F :=
    if Nat.leb len 1 then 0 else if Nat.ltb (i + 1) len then u (i + 1)%nat else 0.
  Definition shift_up (len : nat) (u : nat -> F) (i : nat) : F :=
    if Nat.leb len 1 then 0 else if Nat.eqb i 0 then 0 else u (i - 1)%nat.
  (** j * where((i + 1) % 2, u_down, -u_up), j = frequency_offset + i // 2 *)
  Definition real_basis_derivative (len offset : nat) (u : nat -> F) (i : nat) : F :=
    fofZ (Z.of_nat (offset + i / 2)) *
    (if Nat.eqb ((i + 1) mod 2) 0 then - shift_up len u i else shift_down len u i).
  (** [_fourier_derivative_for_real_basis_with_zero_imag] on a mesh:
      frequency_offset = u.shape[axis] // 2 * axis_index('x') *)
  Definition dlon_sharded (Mloc : nat) (X : nat -> F) (g : nat) : F :=
    let d := (g / Mloc)%nat in
    real_basis_derivative Mloc (Mloc / 2 * d) (fun i => X (d * Mloc + i)%nat) (g mod Mloc).
  Definition dlon_global (M : nat) (X : nat -> F) (g : nat) : F := real_basis_derivative M 0 X g.

End Sharding.

(** * [_vertical_pad], [_vertical_crop], [_with_vertical_padding] (3-D field with
    K > 1 levels on a mesh with [zs] = mesh.shape['z']); a level is any payload [T]
    (a horizontal slice), [zero] the zero slice. *)
Section Vertical.
  Context {T : Type}.
  Variable zero : T.
  (** z_padding = _round_to_multiple(field.shape[0], z_multiple) - field.shape[0] *)
  Definition vertical_padding (K zs : nat) : nat := (round_to_multiple K zs - K)%nat.
  (** jnp.pad(field, [(0, z_padding), (0, 0), (0, 0)]) *)
  Definition vertical_pad (K : nat) (x : nat -> T) : nat -> T := fun k => if Nat.ltb k K then x k else zero.
  (** _vertical_crop: `if not padding: return field`, else slice_in_dim(field, 0, -padding):
      the levels [0, Kp - padding) are kept *)
  Definition vertical_crop_len (Kp padding : nat) : nat := if Nat.eqb padding 0 then Kp else (Kp - padding)%nat.
  (** g(x) = _vertical_crop(f(_vertical_pad(x))): (number of levels returned, levels) *)
  Definition with_vertical_padding (K zs : nat) (f : nat -> (nat -> T) -> nat -> T) (x : nat -> T) : nat * (nat -> T) :=
    let p := vertical_padding K zs in
    let Kp := (K + p)%nat in
    (vertical_crop_len Kp p, f Kp (vertical_pad K x)).
End Vertical.

(** * Subscript logic of [sharded_einsum] (subscripts are numbers, specs are
    lists of optional mesh-axis numbers, [None] in the result = ValueError) *)
Section EinsumLogic.
  Definition sub_in (s : nat) (l : list nat) : bool := existsb (Nat.eqb s) l.
  Fixpoint sub_index (s : nat) (l : list nat) : nat :=
    match l with [] => 0 | h :: t => if Nat.eqb s h then 0 else S (sub_index s t) end.
  Definition spec_at (spec : list (option nat)) (i : nat) : option nat := nth i spec None.
  Definition is_some {A} (x : option A) : bool := match x with Some _ => true | None => false end.

  Definition determine_reduce_subscript (lhs rhs out : list nat) (rhs_spec : list (option nat)) : option nat :=
    match filter (fun s => negb (sub_in s out) && sub_in s rhs && is_some (spec_at rhs_spec (sub_index s rhs))) lhs with
    | [s] => Some s
    | _ => None
    end.
  Definition determine_transfer_subscript (lhs rhs out : list nat) (out_spec : list (option nat)) : option nat :=
    match filter (fun s => negb (sub_in s rhs) && sub_in s out && is_some (spec_at out_spec (sub_index s out))) lhs with
    | [s] => Some s
    | _ => None
    end.
  (** lhs partition spec chosen by sharded_einsum *)
  Definition lhs_partitions (gather : bool) (lhs rhs out : list nat) (rhs_spec out_spec : list (option nat)) : list (option nat) :=
    map (fun s => if gather then (if sub_in s out then spec_at out_spec (sub_index s out) else None)
                  else (if sub_in s rhs then spec_at rhs_spec (sub_index s rhs) else None)) lhs.
  (** default strategy: gather_inputs = prod(out_shape) > prod(rhs.shape) *)
  Definition default_gather (out_size rhs_size : nat) : bool := Nat.ltb rhs_size out_size.
End EinsumLogic.
