(** Closed form of the real Fourier basis (properties C01, C09):
    dinosaur/fourier.py  real_basis, real_basis_with_zero_imag, quadrature_nodes.
    Definitions only.

    The code builds  dft = scipy.linalg.dft(nodes)[:, :wavenumbers] / sqrt(pi),
    cos = real(dft[:, 1:]), sin = -imag(dft[:, 1:])  and fills
        f[:, 0] = 1 / sqrt(2 pi);  f[:, 1::2] = cos;  f[:, 2::2] = sin,
    i.e. column 0 is the constant, column 2k-1 is cos(k x_i)/sqrt(pi), column 2k
    is sin(k x_i)/sqrt(pi), with x_i = 2 pi i / nodes (quadrature_nodes:
    linspace(0, 2 pi, nodes, endpoint=False), weight 2 pi / nodes).

    [real_basis_g] is carrier-generic: the values cos(k x_i), sin(k x_i) and the two
    square roots are *inputs* (so that the same term runs at Q on numpy's tables
    for the correspondence); [real_basis_R] is its instance over Coq's reals with
    the genuine [cos], [sin], [sqrt], [PI] and an arbitrary longitude offset
    (the code's transform uses offset 0; the offset only enters Grid.nodal_axes). *)
From Dino Require Import Base.Ops Base.Sums Base.Inst.
From Coq Require Import Reals.
Local Open Scope F_scope.

Section Gen.
  Context {F : Type} {o : Ops F}.
  (** [sq2pi] = sqrt(2 pi), [sqpi] = sqrt(pi), [c k i] = cos(k x_i), [s k i] = sin(k x_i) *)
  Variables (sq2pi sqpi : F) (c s : nat -> nat -> F).

  (** fourier.real_basis: columns [const, cos 1, sin 1, cos 2, sin 2, ...] *)
  Definition real_basis_g (i a : nat) : F :=
    match a with
    | O => 1 / sq2pi
    | S _ => if Nat.odd a then c ((a + 1) / 2)%nat i / sqpi else s (a / 2)%nat i / sqpi
    end.

  (** fourier.real_basis_with_zero_imag: columns [const, 0, cos 1, sin 1, cos 2, sin 2, ...] *)
  Definition real_basis_zi_g (i k : nat) : F :=
    match k with
    | O => 1 / sq2pi
    | S O => 0
    | S (S _) => if Nat.even k then c (k / 2)%nat i / sqpi else s (k / 2)%nat i / sqpi
    end.
End Gen.

(** *** over the reals *)
Local Open Scope R_scope.

(** quadrature_nodes: x_i = 2 pi i / I (shifted by an arbitrary longitude offset), weight 2 pi / I *)
Definition lon_node (off : R) (I i : nat) : R := off + 2 * PI * INR i / INR I.
Definition fourier_weight (I : nat) : R := 2 * PI / INR I.

Definition real_basis_R (off : R) (I : nat) : nat -> nat -> R :=
  real_basis_g (sqrt (2 * PI)) (sqrt PI)
               (fun k i => cos (INR k * lon_node off I i))
               (fun k i => sin (INR k * lon_node off I i)).

Definition real_basis_zi_R (off : R) (I : nat) : nat -> nat -> R :=
  real_basis_zi_g (sqrt (2 * PI)) (sqrt PI)
                  (fun k i => cos (INR k * lon_node off I i))
                  (fun k i => sin (INR k * lon_node off I i)).
