(** Model of the reference spherical-harmonic transform (properties C01, C09):
    dinosaur/spherical_harmonic.py
      RealSphericalHarmonics.modal_axes / modal_shape / nodal_shape / mask /
        inverse_transform / transform,
      Grid.to_nodal / to_modal / mask / integrate / laplacian_eigenvalues.
    Definitions only.

    Conventions.  [M] = longitude_wavenumbers, [L] = total_wavenumbers,
    [I],[J] = longitude / latitude nodes, [K] = number of modal rows
    ([2M-1] in this layout).  Arrays are index functions: modal [x a l],
    nodal [z i j], Fourier matrix [f i a], Legendre array [p a j l], quadrature
    weights [w j] (the code's [basis.w] is one-dimensional over latitude:
    [w = wf * wp] with the scalar trapezoid weight [wf = 2 pi / I]).
    The three tables are *parameters*: they come from scipy/numpy special
    functions and are passed to the executable model exactly as dumped from
    [grid.spherical_harmonics.basis]. *)
From Dino Require Import Base.Ops Base.Sums.
Local Open Scope F_scope.

(** *** integer part: modal axes, mask, shapes (RealSphericalHarmonics) *)

(** modal_axes[0] = [0, 1, -1, 2, -2, ...]  (row [a] of the modal array) *)
Definition m_real (a : nat) : Z :=
  if Nat.even a then (- Z.of_nat (a / 2))%Z else Z.of_nat ((a + 1) / 2).
(** modal_axes[1] = arange(L) *)
Definition l_real (l : nat) : Z := Z.of_nat l.
(** |m| of row [a], as a natural number: [0,1,1,2,2,...] *)
Definition mabs_real (a : nat) : nat := (a + 1) / 2.
(** mask = abs(m) <= l on the meshgrid of the modal axes *)
Definition mask_real (a l : nat) : bool := Z.leb (Z.abs (m_real a)) (l_real l).
(** modal_shape = (2M-1, L); nodal_shape = (I, J); paddings (0,0) *)
Definition modal_rows_real (M : nat) : nat := 2 * M - 1.

Section SHT.
  Context {F : Type} {o : Ops F}.

  (** 2-D staging: materialise an intermediate array once. *)
  Definition sh_memo2 (n m : nat) (g : nat -> nat -> F) : nat -> nat -> F :=
    let t := map (fun a => map (g a) (seq 0 m)) (seq 0 n) in
    fun a j => nth j (nth a t []) 0.

  Definition ofb (b : bool) : F := if b then 1 else 0.

  (** array views of flat row-major lists (I/O boundary of the executable model) *)
  Fixpoint chunks (n m : nat) (l : list F) : list (list F) :=
    match n with O => [] | S n' => firstn m l :: chunks n' m (skipn m l) end.
  Definition arr1 (l : list F) : nat -> F := fun i => nth i l 0.
  Definition arr2 (n m : nat) (l : list F) : nat -> nat -> F :=
    let t := chunks n m l in fun i j => nth j (nth i t []) 0.
  Definition arr3 (n m k : nat) (l : list F) : nat -> nat -> nat -> F :=
    let t := map (chunks m k) (chunks n (m * k) l) in
    fun a j q => nth q (nth j (nth a t []) []) 0.
  Definition tab2 (n m : nat) (g : nat -> nat -> F) : list F :=
    concat (map (fun i => map (g i) (seq 0 m)) (seq 0 n)).
  Definition tab3 (b n m : nat) (g : nat -> nat -> nat -> F) : list F :=
    concat (map (fun q => tab2 n m (g q)) (seq 0 b)).

  (** *** inverse_transform:  einsum('mjl,...ml->...mj', p, x); einsum('im,...mj->...ij', f, px) *)
  Definition inv_legendre (L : nat) (p : nat -> nat -> nat -> F) (x : nat -> nat -> F)
    : nat -> nat -> F := fun a j => sumn L (fun l => p a j l * x a l).
  Definition inv_fourier (K : nat) (f : nat -> nat -> F) (px : nat -> nat -> F)
    : nat -> nat -> F := fun i j => sumn K (fun a => f i a * px a j).
  Definition synth (K L J : nat) f p (x : nat -> nat -> F) : nat -> nat -> F :=
    inv_fourier K f (sh_memo2 K J (inv_legendre L p x)).

  (** *** transform:  wx = w * x; einsum('im,...ij->...mj', f, wx); einsum('mjl,...mj->...ml', p, fwx) *)
  Definition fwd_fourier (I : nat) (f : nat -> nat -> F) (wx : nat -> nat -> F)
    : nat -> nat -> F := fun a j => sumn I (fun i => f i a * wx i j).
  Definition fwd_legendre (J : nat) (p : nat -> nat -> nat -> F) (fwx : nat -> nat -> F)
    : nat -> nat -> F := fun a l => sumn J (fun j => p a j l * fwx a j).
  Definition analysis (K I J : nat) f p (w : nat -> F) (z : nat -> nat -> F) : nat -> nat -> F :=
    let wx := sh_memo2 I J (fun i j => w j * z i j) in
    fwd_legendre J p (sh_memo2 K J (fwd_fourier I f wx)).

  (** leading (batch / level) axes: the einsum ellipsis *)
  Definition synth_batch (K L J : nat) f p (x : nat -> nat -> nat -> F) : nat -> nat -> nat -> F :=
    fun n => synth K L J f p (x n).
  Definition analysis_batch (K I J : nat) f p w (z : nat -> nat -> nat -> F) : nat -> nat -> nat -> F :=
    fun n => analysis K I J f p w (z n).

  (** *** Grid.integrate:  einsum('y,...xy->...', basis.w * radius**2, z) *)
  Definition integrate (I J : nat) (w : nat -> F) (r : F) (z : nat -> nat -> F) : F :=
    sumn J (fun j => (w j * (r * r)) * sumn I (fun i => z i j)).

  (** Grid.mask applied to a modal array (the property's "mask (.) x") *)
  Definition apply_mask (mk : nat -> nat -> bool) (x : nat -> nat -> F) : nat -> nat -> F :=
    fun a l => if mk a l then x a l else 0.

  (** Grid.laplacian_eigenvalues = -l * (l + 1) / radius**2 over the (padded) l axis *)
  Definition lap_eig (r : F) (lz : Z) : F := fofZ (- lz * (lz + 1))%Z / (r * r).

  (** *** the Gram operator of the tables (what analysis . synth is, with no hypotheses) *)
  Definition ylm (f : nat -> nat -> F) (p : nat -> nat -> nat -> F) (a l i j : nat) : F :=
    f i a * p a j l.
  Definition sum2 (n m : nat) (g : nat -> nat -> F) : F := sumn n (fun i => sumn m (fun j => g i j)).
  Definition gram (I J : nat) f p (w : nat -> F) (a l b l' : nat) : F :=
    sum2 I J (fun i j => w j * (ylm f p a l i j * ylm f p b l' i j)).
  Definition gram_apply (K L : nat) (G : nat -> nat -> nat -> nat -> F) (x : nat -> nat -> F)
    : nat -> nat -> F := fun a l => sum2 K L (fun b l' => G a l b l' * x b l').
End SHT.

(** *** which grids resolve their truncation (the predicate under which C01
    claims the round trip): enough longitudes for the trapezoid rule on products
    of the 2M-1 Fourier columns, and a latitude rule exact for the products of
    Legendre functions of degree < L.  Spacing: 0 gauss, 1 equiangular,
    2 equiangular_with_poles.  Degree of exactness (measured, DESIGN C01):
    2J-1 (gauss), J-1+(J mod 2) (both equiangular rules). *)
Definition exact_degree (spacing J : nat) : nat :=
  match spacing with O => 2 * J - 1 | _ => J - 1 + J mod 2 end.
Definition resolves (spacing I J M L : nat) : bool :=
  (1 <=? M) && (M <=? L) && (2 * M - 1 <=? I) && (1 <=? J) && (2 * (L - 1) <=? exact_degree spacing J).
