(** Model of dinosaur/associated_legendre.py (property C01, Legendre half):
      _evaluate_rhombus(n_l, n_m, x, truncation='triangle'), evaluate(n_m, n_l, x),
      the normalisation step of _compute_weights.
    Definitions only.

    What is modelled, statement by statement (arithmetic expressions, the sign of the
    diagonal recurrence, m_max, the row offsets k-1 / k-2, the ValueError guard and the
    slice bounds of the final re-indexing are NOT written here: they are the
    definitions of Gen/Legendre.v, regenerated from the source by
    tools/translate/gen_legendre.py):

      y = np.sqrt(1 - x*x)                       the table [y] is a PARAMETER (like [x]);
                                                 its radicand is [leg_y2 (x i)]
      p = np.zeros((n_l, n_m, len(x)))           [fun _ _ _ => 0]          (index order k, m, i)
      p[0,0] = p[0,0] + 1/np.sqrt(2)             [leg_diag 0 i = leg_init sq 0]
      for m in 1..n_m-1: p[0,m] = -sqrt(..)*y*p[0,m-1]      [leg_diag]
      for k in 1..n_l-1:                         [rh_loop], one [rh_step] per k
        m_max = min(n_m, n_l-k)                  [leg_m_max]
        p[k,:m_max] = a*(x*p[k-1,:m_max] - b*p[k-2,:m_max])  [rh_step]: the new row is
                                                 materialised ([sh_memo2]) from the CURRENT
                                                 array and written over columns < m_max only.
    np.sqrt is the parameter [sq : F -> F] (square roots are not field operations); it
    is applied to the generated radicands [rad_init], [rad_diag m], [rad_a m k], [rad_b m k].

    The read p[k-2] for k = 1 is p[-1]: numpy wraps a negative index to the LAST row
    n_l-1 ([pyidx]).  The model reads exactly that row of the current array; that it is
    still all-zero at that moment (row n_l-1 is written only in the last iteration, and
    for n_l = 2 the right-hand side is evaluated before the assignment) is a THEOREM
    (Thm/Legendre.v, rh_loop_spec), not an assumption of the model.

    evaluate: r = transpose(rhombus, (1,2,0)), i.e. r[m,i,k] = rhombus[k,m,i];
      p = zeros((n_m, len(x), n_l)); p[m, :, m:n_l] = r[m, :, 0:n_l-m].
    Python exceptions: [legendre_accepts] is the ValueError guard (n_m > n_l rejected);
    [legendre_defined] additionally excludes n_m = 0 (IndexError at p[0,0] in the code)
    and records that the two slices of the re-indexing have equal lengths. *)
From Dino Require Import Base.Ops Base.Sums Model.SHT Gen.Legendre.
Local Open Scope F_scope.

(** numpy index normalisation: index z < 0 of an axis of length n means z + n *)
Definition pyidx (n : nat) (z : Z) : nat :=
  Z.to_nat (if (z <? 0)%Z then (z + Z.of_nat n)%Z else z).

(** evaluate's guard and shape conditions (integers only) *)
Definition legendre_accepts (n_m n_l : nat) : bool := negb (leg_rejects n_m n_l).
Definition legendre_slices_ok (n_m n_l : nat) : bool :=
  forallb (fun m => Nat.eqb (leg_dst_hi m n_l - leg_dst_lo m n_l) (leg_src_hi m n_l - leg_src_lo m n_l)
                    && Nat.leb (leg_dst_hi m n_l) n_l && Nat.leb (leg_src_hi m n_l) n_l)
          (seq 0 n_m).
Definition legendre_defined (n_m n_l : nat) : bool :=
  Nat.leb 1 n_m && legendre_accepts n_m n_l && legendre_slices_ok n_m n_l.

Section Legendre.
  Context {F : Type} {o : Ops F}.
  Variable sq : F -> F.          (* np.sqrt *)
  Variable nx : nat.             (* len(x) *)
  Variables x y : nat -> F.      (* nodes, and the table np.sqrt(1 - x*x) *)

  Definition larr3 := nat -> nat -> nat -> F.

  (** row k = 0: p[0,0] = 0 + 1/sqrt(2);  p[0,m] = -sqrt(1 + 1/(2m)) * y * p[0,m-1] *)
  Fixpoint leg_diag (m i : nat) : F :=
    match m with
    | O => leg_init sq 0
    | S m' => leg_diag_step sq (llit (S m')) (y i) (leg_diag m' i)
    end.
  Definition rh_init (n_m : nat) : larr3 :=
    fun k m i => if Nat.eqb k 0 then (if Nat.ltb m n_m then leg_diag m i else 0) else 0.

  (** p[k, :m_max] = row *)
  Definition rh_set_row (p : larr3) (k m_max : nat) (row : nat -> nat -> F) : larr3 :=
    fun k' m i => if Nat.eqb k' k then (if Nat.ltb m m_max then row m i else p k' m i) else p k' m i.

  (** one iteration of `for k in range(1, n_l)` on the current array [p] *)
  Definition rh_step (n_l n_m : nat) (p : larr3) (k : nat) : larr3 :=
    let m_max := leg_m_max n_m n_l k in
    let r1 := p (pyidx n_l (Z.of_nat k + leg_off1)) in
    let r2 := p (pyidx n_l (Z.of_nat k + leg_off2)) in
    let row := sh_memo2 m_max nx (fun m i =>
                 leg_step (sq (rad_a (llit m) (llit k))) (sq (rad_b (llit m) (llit k)))
                          (x i) (r1 m i) (r2 m i)) in
    rh_set_row p k m_max row.

  (** iterations k = 1 .. K *)
  Fixpoint rh_loop (n_l n_m K : nat) (p0 : larr3) : larr3 :=
    match K with O => p0 | S K' => rh_step n_l n_m (rh_loop n_l n_m K' p0) (S K') end.

  (** _evaluate_rhombus(n_l, n_m, x, truncation='triangle')[k, m, i] *)
  Definition rhombus_triangle (n_l n_m : nat) : larr3 := rh_loop n_l n_m (n_l - 1) (rh_init n_m).

  (** evaluate(n_m, n_l, x)[m, i, l] *)
  Definition legendre_evaluate (n_m n_l : nat) : larr3 :=
    let rh := rhombus_triangle n_l n_m in
    fun m i l =>
      if Nat.ltb m n_m && Nat.leb (leg_dst_lo m n_l) l && Nat.ltb l (leg_dst_hi m n_l) && Nat.ltb l n_l
      then rh (leg_src_lo m n_l + (l - leg_dst_lo m n_l))%nat m i else 0.

  (** the coefficients the code computes, as tables (for the statements of the theorems) *)
  Definition leg_a (m l : nat) : F := sq (rad_a (llit m) (llit (l - m))).
  Definition leg_b (m l : nat) : F := sq (rad_b (llit m) (llit (l - m))).

  (** _compute_weights: legendre[k, j] = evaluate(n_m=1, n_l=n, x)[0].T;  z = e_0;
      w = solve(legendre, z) is an INPUT; returned: w / w.sum() * 2 *)
  Definition weights_matrix (n : nat) : nat -> nat -> F := fun k j => legendre_evaluate 1 n 0%nat j k.
  Definition weights_residual (n : nat) (w : nat -> F) : nat -> F :=
    fun k => sumn n (fun j => weights_matrix n k j * w j) - delta k 0%nat.
  Definition weights_normalise (n : nat) (w : nat -> F) : nat -> F :=
    let s := sumn n w in fun j => leg_weight_norm (w j) s.
End Legendre.

(** all radicands the model applies [sq] to, for given sizes (the order is irrelevant):
    used by the executable model to receive np.sqrt as a finite table *)
Section Radicands.
  Context {F : Type} {o : Ops F}.
  Definition legendre_radicands (n_m n_l : nat) : list F :=
    rad_init :: map (fun m => rad_diag (llit (S m))) (seq 0 (n_m - 1))
    ++ concat (map (fun k => concat (map (fun m => [rad_a (llit m) (llit (S k)); rad_b (llit m) (llit (S k))])
                                         (seq 0 (leg_m_max n_m n_l (S k)))))
                   (seq 0 (n_l - 1))).
  (** np.sqrt given as a finite table of (radicand, value) pairs; 0 outside the table *)
  Fixpoint sq_table (keys vals : list F) (t : F) : F :=
    match keys, vals with
    | k :: ks, v :: vs => if feqb k t then v else sq_table ks vs t
    | _, _ => 0
    end.
End Radicands.

(** *** coefficient-list model (polynomial structure of the table).
    Polynomials in x are coefficient lists, lowest degree first.  [PolyOps] makes them a carrier,
    so that the GENERATED update expression [leg_step] and radicand [leg_y2] are run verbatim on
    coefficient lists (the same recurrence, now independent of any node):
      p[m, i, l] = y_i^m * peval (leg_q m l) (x_i)          (Thm/LegendrePoly.v)
    Division, inverse, order on lists are dummies: the recurrence step and 1 - x*x use none. *)
Section LegendrePoly.
  Context {F : Type} {o : Ops F}.

  Fixpoint padd (p q : list F) : list F :=
    match p, q with
    | [], _ => q
    | _, [] => p
    | a :: p', b :: q' => (a + b) :: padd p' q'
    end.
  Definition pscale (c : F) (p : list F) : list F := map (fun a => c * a) p.
  Definition popp (p : list F) : list F := map (fun a => - a) p.
  Definition psub (p q : list F) : list F := padd p (popp q).
  Definition pmulx (p : list F) : list F := 0 :: p.
  Fixpoint pmul (p q : list F) : list F :=
    match p with [] => [] | a :: p' => padd (pscale a q) (pmulx (pmul p' q)) end.
  Fixpoint peval (p : list F) (t : F) : F :=
    match p with [] => 0 | a :: p' => a + t * peval p' t end.
  Definition pconst (c : F) : list F := [c].
  Definition pX : list F := [0; 1].

  Definition PolyOps : Ops (list F) := {|
    f0 := []; f1 := pconst 1;
    fadd := padd; fmul := pmul; fsub := psub; fopp := popp;
    fdiv := fun _ _ => []; finv := fun _ => [];
    fofZ := fun z => pconst (fofZ z);
    fleb := fun _ _ => false; feqb := fun _ _ => false |}.

  Fixpoint ppow (p : list F) (n : nat) : list F :=
    match n with O => pconst 1 | S k => pmul p (ppow p k) end.
  Fixpoint lpow (t : F) (n : nat) : F := match n with O => 1 | S k => t * lpow t k end.

  (** formal derivative d/dx on coefficient lists *)
  Fixpoint pderiv_from (n : nat) (p : list F) : list F :=
    match p with [] => [] | a :: p' => (llit n * a) :: pderiv_from (S n) p' end.
  Definition pderiv (p : list F) : list F := match p with [] => [] | _ :: p' => pderiv_from 1 p' end.

  Variable sq : F -> F.

  (** p[0, m] = leg_cdiag m * y^m: the diagonal recurrence with y := 1 *)
  Fixpoint leg_cdiag (m : nat) : F :=
    match m with
    | O => leg_init sq 0
    | S m' => leg_diag_step sq (llit (S m')) 1 (leg_cdiag m')
    end.

  (** the three-term recurrence on coefficient lists: (q_{m,m+k}, q_{m,m+k-1}) *)
  Fixpoint leg_qs (m k : nat) : list F * list F :=
    match k with
    | O => (pconst (leg_cdiag m), [])
    | S k' => let pr := leg_qs m k' in
              (@leg_step (list F) PolyOps (pconst (sq (rad_a (llit m) (llit (S k')))))
                         (pconst (sq (rad_b (llit m) (llit (S k'))))) pX (fst pr) (snd pr), fst pr)
    end.
  (** q_{m,l}: p[m, i, l] = y_i^m * peval (leg_q m l) (x_i), degree <= l - m *)
  Definition leg_q (m l : nat) : list F := fst (leg_qs m (l - m)).

  (** the Gram integrand p[m,i,l] p[m,i,l'] as ONE polynomial in x: (1 - x^2)^m q_{m,l} q_{m,l'} *)
  Definition leg_gram_poly (m l l' : nat) : list F :=
    pmul (ppow (@leg_y2 (list F) PolyOps pX) m) (pmul (leg_q m l) (leg_q m l')).

  (** a linear functional on polynomials given by its moments mom n = Int(x^n) *)
  Fixpoint pint_from (mom : nat -> F) (s : nat) (p : list F) : F :=
    match p with [] => 0 | a :: p' => a * mom s + pint_from mom (S s) p' end.
  Definition pint (mom : nat -> F) (p : list F) : F := pint_from mom 0 p.

  (** D = (1 - x^2) d/dx on y^m q(x) is y^m (leg_y2(x) q' - m x q) *)
  Definition leg_Dm (m : nat) (q : list F) : list F :=
    psub (pmul (@leg_y2 (list F) PolyOps pX) (pderiv q)) (pscale (llit m) (pmul pX q)).
End LegendrePoly.
