(** Model of dinosaur/scales.py ([Scale], [nondimensionalize], [dimensionalize])
    and of the phase arithmetic of dinosaur/radiation.py.  Definitions only.

    Dimensions.  A scale is defined over [n] base dimensions (pint's [length],
    [time], [mass], [temperature], ... - whatever quantities were handed to
    [Scale(...)]); entry [i] is [Some v] when a scale [v] (magnitude in base
    units, after [to_base_units()]) was given for dimension [i] and [None]
    otherwise ("No scale has been set for ...", a ValueError).

    Units.  pint is abstracted by a table of [U] named units; unit [j] has a
    conversion factor [cv j] to base units and a dimension vector [ud j]
    (exponent of base dimension [i] is [ud j i]).  A compound unit is an
    exponent vector [e : nat -> Z] over the table (meter^1 second^-2 ...).
    Its conversion factor is the product of powers, its dimension the integer
    combination: pint's registry is a group homomorphism on the units used
    (table obligation, checked against pint by the plugin).

    Not modelled: offset units (degC, autoconvert_offset_to_baseunit),
    fractional exponents, array broadcasting (conversion is elementwise). *)
From Dino Require Import Base.Ops Base.Sums.
Local Open Scope F_scope.

Section Units.
  Context {F : Type} {o : Ops F}.

  (** integer powers on a field: [q ** k] for [k] in Z *)
  Fixpoint npow (x : F) (k : nat) : F := match k with O => 1 | S k' => x * npow x k' end.
  Definition zpow (x : F) (z : Z) : F :=
    match z with
    | Z0 => 1
    | Zpos p => npow x (Pos.to_nat p)
    | Zneg p => 1 / npow x (Pos.to_nat p)
    end.

  Fixpoint prodn (n : nat) (f : nat -> F) : F :=
    match n with O => 1 | S k => prodn k f * f k end.
  Fixpoint sumZ (n : nat) (f : nat -> Z) : Z :=
    match n with O => 0%Z | S k => (sumZ k f + f k)%Z end.

  (** the unit table *)
  Variable U : nat.                    (* number of named units *)
  Variable cv : nat -> F.              (* factor to base units *)
  Variable ud : nat -> nat -> Z.       (* ud j i : exponent of dimension i in unit j *)

  Definition conv (e : nat -> Z) : F := prodn U (fun j => zpow (cv j) (e j)).
  Definition dimof (e : nat -> Z) (i : nat) : Z := sumZ U (fun j => (e j * ud j i)%Z).

  (** unit-expression arithmetic (products, quotients, powers of units) *)
  Definition umul (e1 e2 : nat -> Z) : nat -> Z := fun j => (e1 j + e2 j)%Z.
  Definition udiv (e1 e2 : nat -> Z) : nat -> Z := fun j => (e1 j - e2 j)%Z.
  Definition upow (e : nat -> Z) (k : Z) : nat -> Z := fun j => (e j * k)%Z.
  Definition uone : nat -> Z := fun _ => 0%Z.

  (** [Scale]: [n] dimensions, scale values as total function [sc] plus a
      presence mask [has] *)
  Variable n : nat.
  Variable has : nat -> bool.
  Variable sc : nat -> F.

  (** [Scale._scaling_factor]: Quantity(1) * prod scale_d ** exponent_d *)
  Definition factor (d : nat -> Z) : F := 1 * prodn n (fun i => zpow (sc i) (d i)).
  (** the ValueError branch: some dimension with non-zero exponent has no scale *)
  Fixpoint covers (k : nat) (d : nat -> Z) : bool :=
    match k with O => true | S k' => covers k' d && (has k' || Z.eqb (d k') 0) end.

  (** [nondimensionalize]: (quantity / factor).to(dimensionless).magnitude *)
  Definition nondim (m : F) (e : nat -> Z) : F := m / factor (dimof e) * conv e.
  (** [dimensionalize(value, unit)]: (value * factor).to(unit), magnitude *)
  Definition dimen (v : F) (e : nat -> Z) : F := v * factor (dimof e) / conv e.

  Definition nondim_opt (m : F) (e : nat -> Z) : option F :=
    if covers n (dimof e) then Some (nondim m e) else None.
  Definition dimen_opt (v : F) (e : nat -> Z) : option F :=
    if covers n (dimof e) then Some (dimen v e) else None.

  (** a quantity (magnitude, unit) expressed in base units *)
  Definition base_value (m : F) (e : nat -> Z) : F := m * conv e.
End Units.

(** [Scale.__init__]: each scale quantity (value [v i] in unit [w i]) is stored
    in base units. *)
Section MkScale.
  Context {F : Type} {o : Ops F}.
  Definition mk_scale (U : nat) (cv : nat -> F) (v : nat -> F) (w : nat -> nat -> Z) : nat -> F :=
    fun i => v i * conv U cv (w i).
End MkScale.

(** Phase arithmetic of radiation.py.  [ffloor] is the floor function of the
    carrier ([Qfloor] when executed, [Zfloor] over the reals). *)
Section Phase.
  Context {F : Type} {o : Ops F}.
  Variable ffloor : F -> Z.

  (** [x - x // p * p] *)
  Definition reduce (p x : F) : F := x - fofZ (ffloor (x / p)) * p.

  (** [datetime_to_orbital_time]: [yday] = tm_yday, [diy] = days in the year,
      [twopi] = 2 * pi (a table value) *)
  Definition fraction_of_day (hour minute : Z) : F := fofZ (60 * hour + minute) / fofZ 1440.
  Definition fraction_of_year (yday diy hour minute : Z) : F :=
    (fofZ (yday - 1) + fraction_of_day hour minute) / fofZ diy.
  Definition orbital_phase_of_date (twopi : F) (yday diy hour minute : Z) : F :=
    twopi * fraction_of_year yday diy hour minute.
  Definition synodic_phase_of_date (twopi : F) (hour minute : Z) : F :=
    twopi * fraction_of_day hour minute.

  (** [SolarRadiation.time_to_orbital_time] for one component: reference
      phase + rate * time, then reduction by [twopi] *)
  Definition phase_at (twopi ref rate t : F) : F := reduce twopi (ref + rate * t).
End Phase.
