(** END-TO-END executable whole-state model of the dry primitive equations
    (dinosaur/primitive_equations.py):
      compute_diagnostic_state,
      PrimitiveEquations.explicit_terms / implicit_terms / implicit_inverse (method 'split')
    on the reference ("RealSphericalHarmonics") layout, include_vertical_advection = True,
    vertical_matmul_method 'dense', any number of tracers.  Definitions only.

    It is a COMPOSITION of the existing model functions:
      Model/SHT.v    synth / analysis                 (Grid.to_nodal / to_modal)
      Model/Deriv.v  get_cos_lat_vector, cos_lat_grad, div_cos_lat, curl_cos_lat,
                     laplacian, clip                  (Grid methods)
      Model/PrimEq.v the nodal column algebra + [Section ModalAssembly]
      Model/Implicit.v implicit_terms / inverse_split per coefficient column.
    [Section Concrete] instantiates the abstract operators toM / divc / curlc / lap / clip
    of ModalAssembly with the concrete ones; [Section Staged] is the same composition with
    every intermediate array materialised once (what is executed); Thm/PrimEqFull.v proves
    the two equal on the index range.

    Tables (inputs): Fourier matrix f, Legendre array p, quadrature weights w, derivative
    recurrence weights a b, sec2_lat, sin_lat, log(centers); np.linalg.inv of the implicit
    matrices (one (2K+1)x(2K+1) table per total wavenumber). *)
From Dino Require Import Base.Ops Base.Sums Base.Ord Model.Sigma Model.Implicit Model.PrimEq Model.SHT Model.Deriv.
Local Open Scope F_scope.

Section PrimEqFull.
  Context {F : Type} {o : Ops F}.

  (** modal / nodal index pairs: (row a, column l) resp. (longitude i, latitude j) *)
  Definition Wi : Type := (nat * nat)%type.
  Definition cur (x : Wi -> F) : nat -> nat -> F := fun a l => x (a, l).
  Definition unc (x : nat -> nat -> F) : Wi -> F := fun w => x (fst w) (snd w).

  (** horizontal configuration: spherical_harmonic.Grid with RealSphericalHarmonics *)
  Record HGrid := mkHG {
    hM : nat; hL : nat; hI : nat; hJ : nat;     (* longitude/total wavenumbers, longitude/latitude nodes *)
    hr : F;                                      (* radius *)
    hf : nat -> nat -> F;                        (* basis.f [i, a] *)
    hp : nat -> nat -> nat -> F;                 (* basis.p [a, j, l] *)
    hw : nat -> F;                               (* basis.w [j] *)
    ha : nat -> nat -> F; hb : nat -> nat -> F;  (* _derivative_recurrence_weights *)
    hsec2 : nat -> F;                            (* sec2_lat [j] *)
    hsin : nat -> F;                             (* sin_lat = nodal_axes[1] [j] *)
    homega : F }.                                (* physics_specs.angular_velocity *)
  Definition hR (g : HGrid) : nat := modal_rows_real (hM g).

  (** primitive_equations.State (modal), tracers in a fixed order *)
  Record State := mkState {
    s_vort : nat -> nat -> nat -> F;             (* [k, a, l] *)
    s_div : nat -> nat -> nat -> F;
    s_temp : nat -> nat -> nat -> F;
    s_lnps : nat -> nat -> F;                    (* the code's leading axis of length 1 dropped *)
    s_tr : list (nat -> nat -> nat -> F) }.

  (** the nodal arrays of DiagnosticState that come out of to_nodal (the derived
      fields u_dot_grad, sigma_dot_* are functions of these: Model/PrimEq.v) *)
  Record Diag := mkDiag {
    d_vort : nat -> nat -> nat -> F;             (* [k, i, j] *)
    d_div : nat -> nat -> nat -> F;
    d_temp : nat -> nat -> nat -> F;
    d_u : nat -> nat -> nat -> F;
    d_v : nat -> nat -> nat -> F;
    d_gx : nat -> nat -> F;
    d_gy : nat -> nat -> F;
    d_tr : list (nat -> nat -> nat -> F) }.

  (** 3-D staging *)
  Definition memo3 (n m q : nat) (x : nat -> nat -> nat -> F) : nat -> nat -> nat -> F :=
    let t := map (fun k => map (fun a => map (x k a) (seq 0 q)) (seq 0 m)) (seq 0 n) in
    fun k a j => nth j (nth a (nth k t []) []) 0.

  Section WithGrid.
  Variable g : HGrid.
  Let R := hR g.
  Let L := hL g.
  Let I := hI g.
  Let J := hJ g.

  (** *** the concrete horizontal operators (one level) *)
  Definition to_nodal (x : nat -> nat -> F) : nat -> nat -> F := synth R L J (hf g) (hp g) x.
  Definition to_modal (z : nat -> nat -> F) : nat -> nat -> F := analysis R I J (hf g) (hp g) (hw g) z.
  Definition gradm (x : nat -> nat -> F) : vec2 := cos_lat_grad false L R L (hr g) (ha g) (hb g) false x.
  Definition divm (x y : nat -> nat -> F) : nat -> nat -> F := div_cos_lat false L R L (hr g) (ha g) (hb g) false (x, y).
  Definition curlm (x y : nat -> nat -> F) : nat -> nat -> F := curl_cos_lat false L R L (hr g) (ha g) (hb g) false (x, y).
  Definition lapm (x : nat -> nat -> F) : nat -> nat -> F := Deriv.laplacian L (hr g) x.
  Definition clipm (x : nat -> nat -> F) : nat -> nat -> F := Deriv.clip L L 1 x.
  (** spherical_harmonic.get_cos_lat_vector(vorticity, divergence, grid, clip=False) *)
  Definition uvm (vo dv : nat -> nat -> F) : vec2 :=
    get_cos_lat_vector false L R L (hr g) (ha g) (hb g) false vo dv.
  (** PrimitiveEquations.coriolis_parameter = 2 * angular_velocity * sin_lat *)
  Definition coriolis (j : nat) : F := two * homega g * hsin g j.

  (** *** [Section Concrete]: the operators in the shape ModalAssembly expects *)
  Definition toN_c (x : Wi -> F) : Wi -> F := unc (to_nodal (cur x)).
  Definition toM_c (z : Wi -> F) : Wi -> F := unc (to_modal (cur z)).
  Definition divc_c (x y : Wi -> F) : Wi -> F := unc (divm (cur x) (cur y)).
  Definition curlc_c (x y : Wi -> F) : Wi -> F := unc (curlm (cur x) (cur y)).
  Definition lap_c (x : Wi -> F) : Wi -> F := unc (lapm (cur x)).
  Definition clip_c (x : Wi -> F) : Wi -> F := unc (clipm (cur x)).

  (** the nodal column at node p = (i, j) *)
  Definition X_of (d : Diag) (p : Wi) : NCol :=
    let i := fst p in let j := snd p in
    mkNCol (fun k => d_u d k i j) (fun k => d_v d k i j) (fun k => d_vort d k i j) (fun k => d_div d k i j)
           (fun k => d_temp d k i j) (d_gx d i j) (d_gy d i j) (hsec2 g j) (coriolis j).
  Definition tr_of (t : nat -> nat -> nat -> F) (p : Wi) : nat -> F := fun k => t k (fst p) (snd p).

  (** *** compute_diagnostic_state: the to_nodal calls, every array materialised once *)
  Definition to_nodal3 (K : nat) (x : nat -> nat -> nat -> F) : nat -> nat -> nat -> F :=
    memo3 K I J (fun k => to_nodal (x k)).
  Definition diagnostic_state (K : nat) (s : State) : Diag :=
    let cos_lat_grad_log_sp := gradm (s_lnps s) in
    mkDiag (to_nodal3 K (s_vort s)) (to_nodal3 K (s_div s)) (to_nodal3 K (s_temp s))
           (to_nodal3 K (fun k => fst (uvm (s_vort s k) (s_div s k))))
           (to_nodal3 K (fun k => snd (uvm (s_vort s k) (s_div s k))))
           (sh_memo2 I J (to_nodal (fst cos_lat_grad_log_sp)))
           (sh_memo2 I J (to_nodal (snd cos_lat_grad_log_sp)))
           (map (to_nodal3 K) (s_tr s)).

  (** *** the same nodal columns WITHOUT materialisation (ideal columns of the theorems): level entries
      beyond the K levels are 0, exactly as the materialised arrays read outside their range *)
  Definition lev_guard (K : nat) (x : nat -> F) : nat -> F := fun k => if Nat.ltb k K then x k else 0.
  Definition dv_of (K : nat) (s : State) (k : nat) : Wi -> F :=
    if Nat.ltb k K then unc (s_div s k) else fun _ => 0.
  Definition X_ideal (K : nat) (s : State) (p : Wi) : NCol :=
    let i := fst p in let j := snd p in
    let gl := gradm (s_lnps s) in
    mkNCol (lev_guard K (fun k => to_nodal (fst (uvm (s_vort s k) (s_div s k))) i j))
           (lev_guard K (fun k => to_nodal (snd (uvm (s_vort s k) (s_div s k))) i j))
           (lev_guard K (fun k => to_nodal (s_vort s k) i j))
           (fun k => toN_c (dv_of K s k) p)
           (lev_guard K (fun k => to_nodal (s_temp s k) i j))
           (to_nodal (fst gl) i j) (to_nodal (snd gl) i j) (hsec2 g j) (coriolis j).
  (** a state that differs from [s] in the temperature variation only *)
  Definition with_stemp (s : State) (t : nat -> nat -> nat -> F) : State :=
    mkState (s_vort s) (s_div s) t (s_lnps s) (s_tr s).

  (** *** explicit_terms, abstract assembly of the two fields ModalAssembly lacks *)
  (** log_surface_pressure: clip(to_modal(nodal_log_pressure_tendency)) *)
  Definition lnps_tendency_explicit_c (c : @PEcfg F) (X : Wi -> NCol) (w : Wi) : F :=
    clip_c (toM_c (fun p => log_pressure_tendency c (X p))) w.
  (** a tracer: clip(to_modal(vertical + nodal horizontal) + (-div_sec_lat(u s, v s))) *)
  Definition tracer_tendency_explicit_c (c : @PEcfg F) (X : Wi -> NCol) (s : Wi -> nat -> F) (r : nat) (w : Wi) : F :=
    clip_c (fun w' => toM_c (fun p => tracer_nodal_total c true (X p) (s p) r) w'
                      + - divc_c (toM_c (fun p => hsa_mu (X p) (s p) r))
                                 (toM_c (fun p => hsa_mv (X p) (s p) r)) w') w.

  (** *** [Section Staged]: what is executed.  [tm] = to_modal with the result materialised *)
  Definition tm (z : nat -> nat -> F) : nat -> nat -> F := sh_memo2 R L (to_modal z).
  (** the spectral combinations, on materialised modal arrays *)
  Definition vort_of (cu cv : nat -> nat -> F) : nat -> nat -> F :=
    clipm (fun a l => - curlm cu cv a l + 0).
  Definition div_of (grav : F) (orog cu cv ke : nat -> nat -> F) : nat -> nat -> F :=
    clipm (fun a l => - divm cu cv a l + - lapm ke a l + - grav * lapm orog a l + 0).
  Definition scalar_of (tot mu mv : nat -> nat -> F) : nat -> nat -> F :=
    clipm (fun a l => tot a l + - divm mu mv a l).

  Record Lev := mkLev {
    l_vort : nat -> nat -> F; l_div : nat -> nat -> F; l_temp : nat -> nat -> F;
    l_tr : list (nat -> nat -> F) }.

  Definition explicit_level (c : @PEcfg F) (grav : F) (orog : nat -> nat -> F) (d : Diag) (r : nat) : Lev :=
    let X := fun i j => X_of d (i, j) in
    let cu := tm (fun i j => combined_u c true (X i j) (rt_dry c (X i j)) r) in
    let cv := tm (fun i j => combined_v c true (X i j) (rt_dry c (X i j)) r) in
    let ke := tm (fun i j => kinetic (X i j) r) in
    let tmu := tm (fun i j => hsa_mu (X i j) (n_temp (X i j)) r) in
    let tmv := tm (fun i j => hsa_mv (X i j) (n_temp (X i j)) r) in
    let ttot := tm (fun i j => temp_nodal_total c true (X i j) r) in
    mkLev (sh_memo2 R L (vort_of cu cv))
          (sh_memo2 R L (div_of grav orog cu cv ke))
          (sh_memo2 R L (scalar_of ttot tmu tmv))
          (map (fun t =>
                  let s := fun i j => tr_of t (i, j) in
                  sh_memo2 R L (scalar_of (tm (fun i j => tracer_nodal_total c true (X i j) (s i j) r))
                                          (tm (fun i j => hsa_mu (X i j) (s i j) r))
                                          (tm (fun i j => hsa_mv (X i j) (s i j) r))))
               (d_tr d)).
  Definition lnps_explicit (c : @PEcfg F) (d : Diag) : nat -> nat -> F :=
    clipm (tm (fun i j => log_pressure_tendency c (X_of d (i, j)))).

  Definition lev0 : Lev := mkLev (fun _ _ => 0) (fun _ _ => 0) (fun _ _ => 0) [].
  Definition zero3 : nat -> nat -> nat -> F := fun _ _ _ => 0.

  (** explicit_terms from a given diagnostic state (also used as a stage on its own) *)
  Definition explicit_terms_of_diag (c : @PEcfg F) (grav : F) (orog : nat -> nat -> F) (d : Diag) : State :=
    let lv := map (explicit_level c grav orog d) (seq 0 (cK c)) in
    let ntr := length (d_tr d) in
    mkState (fun k => l_vort (nth k lv lev0)) (fun k => l_div (nth k lv lev0)) (fun k => l_temp (nth k lv lev0))
            (sh_memo2 R L (lnps_explicit c d))
            (map (fun n => fun k => nth n (l_tr (nth k lv lev0)) (fun _ _ => 0)) (seq 0 ntr)).

  (** PrimitiveEquations.explicit_terms *)
  Definition explicit_terms_full (c : @PEcfg F) (grav : F) (orog : nat -> nat -> F) (s : State) : State :=
    let d := diagnostic_state (cK c) s in
    explicit_terms_of_diag c grav orog d.

  (** PrimitiveEquations.implicit_terms (method 'dense'): the ModalAssembly instance, coefficient by coefficient *)
  Definition implicit_terms_full (c : @PEcfg F) (s : State) : State :=
    mkState zero3
            (fun k a l => div_tendency_implicit Wi lap_c c (fun k' => unc (s_temp s k')) (unc (s_lnps s)) k (a, l))
            (fun k a l => temp_tendency_implicit Wi c (fun k' => unc (s_div s k')) k (a, l))
            (fun a l => lnps_implicit_col c (fun k' => s_div s k' a l))
            (map (fun _ => zero3) (s_tr s)).

  (** the column of one coefficient *)
  Definition col_of (s : State) (a l : nat) : Col :=
    mkCol (fun k => s_div s k a l) (fun k => s_temp s k a l) (s_lnps s a l).

  (** PrimitiveEquations.implicit_inverse(state, eta, method='split'); [invt l] is
      np.linalg.inv(implicit_matrix)[l] *)
  Definition implicit_inverse_full (c : @PEcfg F) (eta : F) (invt : nat -> Mat) (s : State) : State :=
    let out := fun a l => inverse_split (fun _ _ => invt l) c eta (Deriv.lap_eig L (hr g) l) (col_of s a l) in
    mkState (s_vort s)
            (fun k a l => c_div (out a l) k)
            (fun k a l => c_temp (out a l) k)
            (fun a l => c_lnps (out a l))
            (s_tr s).

  (** state - eta * terms on the fields the implicit operator touches (tree_math arithmetic) *)
  Definition state_minus_scaled (x : State) (eta : F) (t : State) : State :=
    mkState (fun k a l => s_vort x k a l - eta * s_vort t k a l)
            (fun k a l => s_div x k a l - eta * s_div t k a l)
            (fun k a l => s_temp x k a l - eta * s_temp t k a l)
            (fun a l => s_lnps x a l - eta * s_lnps t a l)
            (s_tr x).

  (** *** MoistPrimitiveEquations / MoistPrimitiveEquationsWithCloudMoisture . explicit_terms
      Tracer order convention: tracer 0 = specific_humidity (cloud class: 1 = specific_cloud_liquid_water_content,
      2 = specific_cloud_ice_water_content); every tracer (humidity included) is advected like in the dry class. *)
  (** the additional nodal arrays: to_nodal(cos_lat_grad(q, clip=False)) and to_nodal(laplacian(lnps)) *)
  Record MDiag := mkMDiag {
    m_gqx : nat -> nat -> nat -> F; m_gqy : nat -> nat -> nat -> F; m_lap : nat -> nat -> F }.
  Definition q_modal (s : State) : nat -> nat -> nat -> F := nth 0 (s_tr s) zero3.
  Definition moist_diag (K : nat) (s : State) : MDiag :=
    mkMDiag (to_nodal3 K (fun k => fst (gradm (q_modal s k))))
            (to_nodal3 K (fun k => snd (gradm (q_modal s k))))
            (sh_memo2 I J (to_nodal (lapm (s_lnps s)))).
  Definition trn (d : Diag) (n : nat) (p : Wi) : nat -> F := tr_of (nth n (d_tr d) zero3) p.
  Definition gq_of (t : nat -> nat -> nat -> F) (p : Wi) : nat -> F := fun k => t k (fst p) (snd p).
  (** R*T' times the virtual-temperature factor: MoistPrimitiveEquations (cloud = false) or
      MoistPrimitiveEquationsWithCloudMoisture (cloud = true) ._virtual_temperature *)
  Definition rt_full (cloud : bool) (c : @PEcfg F) (m : @Moist F) (d : Diag) (p : Wi) : nat -> F :=
    if cloud then rt_cloud c m (X_of d p) (trn d 0 p) (trn d 1 p) (trn d 2 p)
    else rt_moist c m (X_of d p) (trn d 0 p).

  Definition vort_of_h (cu cv hum : nat -> nat -> F) : nat -> nat -> F :=
    clipm (fun a l => - curlm cu cv a l + hum a l).
  Definition div_of_h (grav : F) (orog cu cv ke hum : nat -> nat -> F) : nat -> nat -> F :=
    clipm (fun a l => - divm cu cv a l + - lapm ke a l + - grav * lapm orog a l + hum a l).
  (** divergence_tendency_due_to_humidity on materialised modal arrays *)
  Definition hum_div_of (geo dn : nat -> nat -> F) : nat -> nat -> F := fun a l => - lapm geo a l - dn a l.

  Definition explicit_level_moist (cloud : bool) (c : @PEcfg F) (m : @Moist F) (grav : F) (orog : nat -> nat -> F)
             (d : Diag) (md : MDiag) (r : nat) : Lev :=
    let X := fun i j => X_of d (i, j) in
    let q := fun i j => trn d 0 (i, j) in
    let gqx := fun i j => gq_of (m_gqx md) (i, j) in
    let gqy := fun i j => gq_of (m_gqy md) (i, j) in
    let cu := tm (fun i j => combined_u c true (X i j) (rt_full cloud c m d (i, j)) r) in
    let cv := tm (fun i j => combined_v c true (X i j) (rt_full cloud c m d (i, j)) r) in
    let hcurl := tm (fun i j => humidity_curl_nodal c m (X i j) (gqx i j) (gqy i j) r) in
    let ke := tm (fun i j => kinetic (X i j) r) in
    let hgeo := tm (fun i j => humidity_geo_nodal c false m (X i j) (q i j) r) in
    let hdn := tm (fun i j => humidity_div_nodal c m (X i j) (q i j) (gqx i j) (gqy i j) (m_lap md i j) r) in
    let tmu := tm (fun i j => hsa_mu (X i j) (n_temp (X i j)) r) in
    let tmv := tm (fun i j => hsa_mv (X i j) (n_temp (X i j)) r) in
    let ttot := tm (fun i j => temp_nodal_total_moist c true m (X i j) (q i j) r) in
    mkLev (sh_memo2 R L (vort_of_h cu cv hcurl))
          (sh_memo2 R L (div_of_h grav orog cu cv ke (hum_div_of hgeo hdn)))
          (sh_memo2 R L (scalar_of ttot tmu tmv))
          (map (fun t =>
                  let s := fun i j => tr_of t (i, j) in
                  sh_memo2 R L (scalar_of (tm (fun i j => tracer_nodal_total c true (X i j) (s i j) r))
                                          (tm (fun i j => hsa_mu (X i j) (s i j) r))
                                          (tm (fun i j => hsa_mv (X i j) (s i j) r))))
               (d_tr d)).

  Definition explicit_terms_of_diag_moist (cloud : bool) (c : @PEcfg F) (m : @Moist F) (grav : F) (orog : nat -> nat -> F)
             (d : Diag) (md : MDiag) : State :=
    let lv := map (explicit_level_moist cloud c m grav orog d md) (seq 0 (cK c)) in
    let ntr := length (d_tr d) in
    mkState (fun k => l_vort (nth k lv lev0)) (fun k => l_div (nth k lv lev0)) (fun k => l_temp (nth k lv lev0))
            (sh_memo2 R L (lnps_explicit c d))
            (map (fun n => fun k => nth n (l_tr (nth k lv lev0)) (fun _ _ => 0)) (seq 0 ntr)).

  (** MoistPrimitiveEquations.explicit_terms (cloud = false), MoistPrimitiveEquationsWithCloudMoisture (cloud = true) *)
  Definition explicit_terms_full_moist (cloud : bool) (c : @PEcfg F) (m : @Moist F) (grav : F) (orog : nat -> nat -> F)
             (s : State) : State :=
    let d := diagnostic_state (cK c) s in
    let md := moist_diag (cK c) s in
    explicit_terms_of_diag_moist cloud c m grav orog d md.
  End WithGrid.
End PrimEqFull.
