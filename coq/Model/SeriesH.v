(** C06, order of the integrators for NONLINEAR F: the step functions of
    Model/Integrators.v run with the carrier instantiated at truncated formal power
    series in the step size h.  Executable definitions only.

    Setting: scalar autonomous  u' = F(u) + g u,  u(0) = u0, where u0, g and the
    Taylor coefficients  c_j = F^(j)(u0) / j!  (j = 0..) are arbitrary elements of an
    arbitrary carrier [B].  A series  a_0 + a_1 h + ... + a_(N-1) h^(N-1)  is the list
    of its coefficients (a list shorter than N stands for the series padded with
    zeros; [] is the zero series, so that x + 0 = x and 0 * x = 0 hold on the nose -
    the two module laws the zero-skipping interpreter [imex_step] relies on).
    Products are truncated after h^(N-1), which is exact modulo h^N.

    - [Fser cs u0 y] = c_0 + c_1 d + c_2 d^2 + ...  with d = y - u0.  For a series y
      whose constant term is u0 (every stage value of every scheme, and the exact
      solution) d has no constant term, d^j = O(h^j), and this finite sum IS Taylor's
      formula for F(y) as a formal power series modulo h^N (N <= length cs).
    - [Gser g y] = g y,  [Ginvser g x eta] = (1 - eta g)^-1 x  as the geometric series
      in eta (exact modulo h^N when eta has no constant term: eta = dt * coefficient).
    - [exact_flow]: Picard iteration  E <- u0 + int_0^h (F(E) + g E)  in the truncated
      ring; N iterations are exact modulo h^N.
    - [run_*]: the REAL step functions [euler_step], [cn_rk2_step], [ls_step],
      [imex_step], [leapfrog_step] of Model/Integrators.v at this carrier, dt = h,
      on the coefficient lists of Gen/Tableaux.v.

    Rational constants (tableau coefficients, 1/(k+1) of the integration) enter
    through an injection [cq : Q -> B] which is a parameter of the model. *)
From Dino Require Import Base.Ops Base.Sums Model.Integrators.
From Coq Require Import Qabs InitialRing.
Local Open Scope F_scope.

Section Tps.
  Context {B : Type} {oB : Ops B}.
  Variable cq : Q -> B.
  Variable N : nat.

  Definition tps := list B.
  Fixpoint tadd (a b : tps) : tps :=
    match a, b with
    | [], _ => b
    | _, [] => a
    | x :: a', y :: b' => (x + y) :: tadd a' b'
    end.
  Definition topp (a : tps) : tps := map fopp a.
  Definition tsub (a b : tps) : tps := tadd a (topp b).
  Definition tcoef (a : tps) (k : nat) : B := nth k a 0.
  (** Cauchy product, truncated after h^(N-1) *)
  Definition tmul (a b : tps) : tps :=
    match a with
    | [] => []
    | _ => map (fun k => sumn (S k) (fun i => tcoef a i * tcoef b (k - i))) (seq 0 N)
    end.
  (** inverse of a series with invertible constant term c0:  c (1 + r + r^2 + ...),
      c = 1/c0, r = 1 - c b (no constant term); a constant series is inverted directly *)
  Definition tinv (b : tps) : tps :=
    match b with
    | [x] => [finv x]
    | _ => let c := finv (tcoef b 0) in
           let r := tsub [@f1 B oB] (tmul [c] b) in
           tmul [c] (Nat.iter N (fun s => tadd [@f1 B oB] (tmul r s)) [@f1 B oB])
    end.
  Definition tdiv (a b : tps) : tps := tmul a (tinv b).
  (** structural equality test (so that [nz c] is false exactly for the series []) *)
  Fixpoint teqb (a b : tps) : bool :=
    match a, b with
    | [], [] => true
    | x :: a', y :: b' => feqb x y && teqb a' b'
    | _, _ => false
    end.

  Definition TpsOps : Ops tps := {|
    f0 := []; f1 := [@f1 B oB];
    fadd := tadd; fmul := tmul; fsub := tsub; fopp := topp;
    fdiv := tdiv; finv := tinv;
    fofZ z := [cq (inject_Z z)];
    fleb _ _ := false; feqb := teqb |}.
  Definition TpsV : VOps tps tps := {| vzero := []; vadd := tadd; vscal := tmul |}.

  (** a rational constant as a series; 0 is the series [] (Python's `if coefficient`) *)
  Definition tq (q : Q) : tps := if Qeq_bool q 0 then [] else [cq q].
  Definition hh : tps := [0; 1].

  (** int_0^h  and d/dh *)
  Fixpoint tint_from (k : nat) (a : tps) : tps :=
    match a with
    | [] => []
    | x :: a' => cq (1 # Pos.of_nat (S k)) * x :: tint_from (S k) a'
    end.
  Definition tint (a : tps) : tps := 0 :: tint_from 0 a.
  Fixpoint tder_from (k : nat) (a : tps) : tps :=
    match a with
    | [] => []
    | x :: a' => cq (inject_Z (Z.of_nat k)) * x :: tder_from (S k) a'
    end.
  Definition tderiv (a : tps) : tps := match a with [] => [] | _ :: a' => tder_from 1 a' end.
  (** h -> -h *)
  Fixpoint talt (s : bool) (a : tps) : tps :=
    match a with
    | [] => []
    | x :: a' => (if s then - x else x) :: talt (negb s) a'
    end.

  Section ODE.
    Variable cs : list B.     (* c_j = F^(j)(u0) / j! *)
    Variable u0 g : B.
    Definition Fser (y : tps) : tps :=
      let d := tsub y [u0] in fold_right (fun c acc => tadd [c] (tmul d acc)) [] cs.
    Definition Gser (y : tps) : tps := tmul [g] y.
    Definition Ginvser (x eta : tps) : tps :=
      Nat.iter N (fun y => tadd x (tmul eta (Gser y))) x.

    Definition picard (E : tps) : tps := firstn N (tadd [u0] (tint (tadd (Fser E) (Gser E)))).
    Definition exact_flow : tps := Nat.iter N picard [u0].
    Definition exact_flow_back : tps := talt false exact_flow.     (* u(-h) *)

    Definition run_euler : tps :=
      euler_step (vo := TpsV) Fser Ginvser hh [u0].
    Definition run_rk2 : tps :=
      cn_rk2_step (o := TpsOps) (vo := TpsV) Fser Gser Ginvser hh [u0].
    Definition run_ls (al be ga : list Q) : tps :=
      ls_step (o := TpsOps) (vo := TpsV) Fser Gser Ginvser hh (map tq al) (map tq be) (map tq ga) [u0].
    Definition run_imex (a_ex a_im : list (list Q)) (b_ex b_im : list Q) : option tps :=
      imex_step (o := TpsOps) (vo := TpsV) Fser Gser Ginvser hh
        (map (map tq) a_ex) (map (map tq) a_im) (map tq b_ex) (map tq b_im) [u0].
    Definition run_ark (a_ex a_im : list (list Q)) (b_ex b_im : list Q) : tps :=
      ark_step (o := TpsOps) (vo := TpsV) Fser Gser Ginvser hh
        (map (map tq) a_ex) (map (map tq) a_im) (map tq b_ex) (map tq b_im) [u0].
    (** previous = u(-h), current = u0 exactly; result: the future snapshot *)
    Definition run_leapfrog (alpha : Q) : tps :=
      snd (leapfrog_step (o := TpsOps) (vo := TpsV) Fser Gser Ginvser hh (tq alpha)
             (exact_flow_back, [u0])).
  End ODE.
End Tps.

(** ** Reified carrier: sparse multivariate polynomials over Q in [nv] variables
    (sorted by the lexicographic order of the exponent vectors, zero coefficients
    dropped).  The series arithmetic of the theorems is executed here by
    [vm_compute]; Thm/IntegratorsOrder.v proves the evaluation map into any field of
    characteristic 0 to be a homomorphism. *)
Definition mono := list nat.
Fixpoint mcmp (a b : mono) : comparison :=
  match a, b with
  | [], [] => Eq
  | [], _ :: _ => Lt
  | _ :: _, [] => Gt
  | x :: a', y :: b' => match Nat.compare x y with Eq => mcmp a' b' | c => c end
  end.
Fixpoint mmul (a b : mono) : mono :=
  match a, b with
  | [], _ => b
  | _, [] => a
  | x :: a', y :: b' => (x + y)%nat :: mmul a' b'
  end.
Definition poly := list (mono * Q).

Fixpoint padd (a : poly) : poly -> poly :=
  match a with
  | [] => fun b => b
  | (m, c) :: a' =>
      fix aux (b : poly) : poly :=
        match b with
        | [] => (m, c) :: a'
        | (n, d) :: b' =>
            match mcmp m n with
            | Lt => (m, c) :: padd a' b
            | Eq => let s := Qred (c + d) in
                    if Qeq_bool s 0 then padd a' b' else (m, s) :: padd a' b'
            | Gt => (n, d) :: aux b'
            end
        end
  end.
Definition pscale (m : mono) (c : Q) (b : poly) : poly :=
  map (fun t => (mmul m (fst t), Qred (c * snd t))) b.
Definition pmul (a b : poly) : poly :=
  fold_right (fun t acc => padd (pscale (fst t) (snd t) b) acc) [] a.
Definition popp (a : poly) : poly := map (fun t => (fst t, Qopp (snd t))) a.
Definition psub (a b : poly) : poly := padd a (popp b).

Definition nv : nat := 12.
Definition pconst (c : Q) : poly := if Qeq_bool c 0 then [] else [(repeat 0%nat nv, Qred c)].
Definition pvar (i : nat) : poly := [(repeat 0%nat i ++ 1%nat :: repeat 0%nat (nv - S i), 1%Q)].
Definition pinv (p : poly) : poly :=
  match p with
  | [(m, c)] => if forallb (Nat.eqb 0) m then [(m, Qred (/ c))] else []
  | _ => []
  end.
Definition pzerob (p : poly) : bool := forallb (fun t => Qeq_bool (snd t) 0) p.
Definition peqb (a b : poly) : bool := pzerob (psub a b).

Definition POps : Ops poly := {|
  f0 := []; f1 := pconst 1;
  fadd := padd; fmul := pmul; fsub := psub; fopp := popp;
  fdiv a b := pmul a (pinv b); finv := pinv;
  fofZ z := pconst (inject_Z z);
  fleb _ _ := false; feqb := peqb |}.

(** deciders on series of polynomials: coefficients of h^0..h^p agree exactly /
    up to a defect polynomial all of whose coefficients are <= eps in absolute value *)
Definition pcoef (a : list poly) (k : nat) : poly := nth k a [].
Definition defect (a b : list poly) (k : nat) : poly := psub (pcoef a k) (pcoef b k).
Definition psmall (eps : Q) (p : poly) : bool := forallb (fun t => Qle_bool (Qabs (snd t)) eps) p.
Definition agree_upto (p : nat) (a b : list poly) : bool :=
  forallb (fun k => pzerob (defect a b k)) (seq 0 (S p)).
Definition near_upto (eps : Q) (p : nat) (a b : list poly) : bool :=
  forallb (fun k => psmall eps (defect a b k)) (seq 0 (S p)).
(** the value of a constant polynomial (None if not constant) *)
Definition pconst_val (p : poly) : option Q :=
  match p with
  | [] => Some 0%Q
  | [(m, c)] => if forallb (Nat.eqb 0) m then Some c else None
  | _ => None
  end.
Definition some_tps (x : option (list poly)) : list poly := match x with Some s => s | None => [] end.

(** ** Evaluation of a polynomial in a carrier [K] at the point [rho] (variable i |-> rho i).
    [ofZ] is the canonical map Z -> K built from 0, 1, +, *, - (no assumption on
    [fofZ]);  [ofQ q] = ofZ (num q) / ofZ (den q). *)
Section Eval.
  Context {K : Type} {oK : Ops K}.
  Definition ofZ : Z -> K := gen_phiZ 0 1 fadd fmul fopp.
  Definition ofQ (q : Q) : K := ofZ (Qnum q) / ofZ (Zpos (Qden q)).
  Variable rho : nat -> K.
  Fixpoint fpow (x : K) (n : nat) : K := match n with O => 1 | S k => x * fpow x k end.
  Fixpoint mev (i : nat) (m : mono) : K :=
    match m with [] => 1 | e :: m' => fpow (rho i) e * mev (S i) m' end.
  Definition tev (t : mono * Q) : K := ofQ (snd t) * mev 0 (fst t).
  Fixpoint pev (p : poly) : K := match p with [] => 0 | t :: p' => tev t + pev p' end.
End Eval.
