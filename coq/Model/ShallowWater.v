(** Model of dinosaur/shallow_water.py: [get_density_ratios],
    [ShallowWaterEquations.coriolis_parameter], [state_to_nodal] and
    [ShallowWaterEquations.explicit_terms] (all layers, orography, density ratios).
    Definitions only.

    1. [SWCol]: the nodal data of ONE horizontal node (all layers: index 0 = top)
       and the nodal expressions that [explicit_terms] hands to [to_modal]
       (nodal_b, nodal_g, nodal_e), same products and sign conventions.
    2. [Section SWAssembly]: [explicit_terms] assembled over abstract linear
       horizontal operators (to_modal, div_cos_lat, curl_cos_lat with their default
       clip=True, laplacian, clip_wavenumbers), as [Section ModalAssembly] of
       Model/PrimEq.v.  Every transform is let-bound once (as in the code), so that
       the same definitions can be executed.
    3. [Section SWConcrete]: the instantiation with the transforms of Model/SHT.v
       ([analysis] / [synth]) and the spectral operators of Model/Deriv.v on the
       un-padded modal shape (R, L) and nodal shape (I, J); every transform is
       materialised once ([sw_stage]).  [sw_explicit_terms] is the whole method:
       modal state -> (vorticity, divergence, potential) tendencies.

    The tables f, p, w (basis), the recurrence weights a, b and sin(latitude) are
    parameters; sec2_lat and the Coriolis parameter are computed from sin(latitude)
    as in the code. *)
From Dino Require Import Base.Ops Base.Sums Gen.DerivExprs Model.SHT Model.Deriv.
Local Open Scope F_scope.

Section ShallowWater.
  Context {F : Type} {o : Ops F}.

  (** *** get_density_ratios:
        ratios = np.minimum(density / density[..., np.newaxis], 1); np.fill_diagonal(ratios, 0)
      entry [a, b] = min(density[b] / density[a], 1), zero on the diagonal *)
  Definition sw_min (x y : F) : F := if fleb x y then x else y.
  Definition density_ratio (dens : nat -> F) (a b : nat) : F :=
    if Nat.eqb a b then 0 else sw_min (dens b / dens a) 1.

  (** *** Grid.sec2_lat = 1 / (1 - sin_lat**2);
          coriolis_parameter = 2 * angular_velocity * sin_lat *)
  Definition sw_sec2 (sinlat : nat -> F) (j : nat) : F := 1 / (1 - sinlat j * sinlat j).
  Definition sw_coriolis (omega : F) (sinlat : nat -> F) (j : nat) : F := (1 + 1) * omega * sinlat j.

  (** nodal data of one horizontal node: nodal_u = to_nodal(get_cos_lat_vector(...)),
      nodal_state = to_nodal(clip_wavenumbers(state)), and the two grid tables *)
  Record SWCol := mkSWCol {
    s_u : nat -> F;        (* nodal_u[0]              (layers) *)
    s_v : nat -> F;        (* nodal_u[1]              (layers) *)
    s_vort : nat -> F;     (* nodal_state.vorticity   (layers) *)
    s_pot : nat -> F;      (* nodal_state.potential   (layers) *)
    s_sec2 : F;            (* grid.sec2_lat at the node *)
    s_f : F }.             (* coriolis_parameter at the node *)

  (** total_vorticity = nodal_state.vorticity + self.coriolis_parameter *)
  Definition sw_total_vorticity (x : SWCol) (k : nat) : F := s_vort x k + s_f x.
  (** nodal_b = nodal_u * total_vorticity * sec2_lat *)
  Definition sw_b_u (x : SWCol) (k : nat) : F := s_u x k * sw_total_vorticity x k * s_sec2 x.
  Definition sw_b_v (x : SWCol) (k : nat) : F := s_v x k * sw_total_vorticity x k * s_sec2 x.
  (** nodal_g = nodal_u * nodal_state.potential * sec2_lat *)
  Definition sw_g_u (x : SWCol) (k : nat) : F := s_u x k * s_pot x k * s_sec2 x.
  Definition sw_g_v (x : SWCol) (k : nat) : F := s_v x k * s_pot x k * s_sec2 x.
  (** nodal_e = (nodal_u * nodal_u).sum(0) * sec2_lat / 2 *)
  Definition sw_e (x : SWCol) (k : nat) : F := (s_u x k * s_u x k + s_v x k * s_v x k) * s_sec2 x / (1 + 1).

  (** the symmetry actions on the per-node inputs: [sg] = -1 for the reflection about the equator
      (u even, v odd, vorticity odd, potential even, sec2 even, f odd), [sg] = 1 for rotations *)
  Definition swcol_act (sg : F) (x : SWCol) : SWCol :=
    mkSWCol (s_u x) (fun k => sg * s_v x k) (fun k => sg * s_vort x k) (s_pot x) (s_sec2 x) (sg * s_f x).
  Definition swcol_mirror (x : SWCol) : SWCol := swcol_act (- (1)) x.
End ShallowWater.

(** ** explicit_terms over abstract horizontal operators.  [W] indexes modal coefficients,
    [P] horizontal nodes; every operator acts on one layer; [X p] is the nodal column at node [p],
    [pot b] the modal potential of layer [b], [orog] the modal orography (None: no orography). *)
Section SWAssembly.
  Context {F : Type} {o : Ops F}.
  Variables W P : Type.
  Variable toM : (P -> F) -> W -> F.                       (* grid.to_modal *)
  Variable divc curlc : (W -> F) -> (W -> F) -> W -> F.    (* div_cos_lat, curl_cos_lat (default clip=True) *)
  Variable lap clip : (W -> F) -> W -> F.                  (* laplacian, clip_wavenumbers *)
  Variable N : nat.                                        (* number of layers *)
  Variable dens : nat -> F.                                (* physics_specs.densities *)

  (** p = einsum('ab,...bml->...aml', density_ratios, state.potential); if orography is not None: p = p + orography *)
  Definition sw_pressure (pot : nat -> W -> F) (orog : option (W -> F)) (a : nat) : W -> F :=
    fun w => let p := sumn N (fun b => density_ratio dens a b * pot b w) in
             match orog with Some h => p + h w | None => p end.

  (** explicit_vorticity = clip(-div_cos_lat(b)) *)
  Definition sw_vort_explicit (X : P -> SWCol) (r : nat) : W -> F :=
    let bu := toM (fun p => sw_b_u (X p) r) in
    let bv := toM (fun p => sw_b_v (X p) r) in
    let d := divc bu bv in
    clip (fun w => - d w).
  (** explicit_divergence = clip(-laplacian(p + e) + curl_cos_lat(b)) *)
  Definition sw_div_explicit (X : P -> SWCol) (pot : nat -> W -> F) (orog : option (W -> F)) (r : nat) : W -> F :=
    let bu := toM (fun p => sw_b_u (X p) r) in
    let bv := toM (fun p => sw_b_v (X p) r) in
    let e := toM (fun p => sw_e (X p) r) in
    let pr := sw_pressure pot orog r in
    let lpe := lap (fun w => pr w + e w) in
    let cb := curlc bu bv in
    clip (fun w => - lpe w + cb w).
  (** explicit_potential = clip(-div_cos_lat(g)) *)
  Definition sw_pot_explicit (X : P -> SWCol) (r : nat) : W -> F :=
    let gu := toM (fun p => sw_g_u (X p) r) in
    let gv := toM (fun p => sw_g_v (X p) r) in
    let d := divc gu gv in
    clip (fun w => - d w).
End SWAssembly.

(** ** the concrete operators: un-padded modal shape (R, L), nodal shape (I, J) *)
Section SWConcrete.
  Context {F : Type} {o : Ops F}.
  Variables (fast : bool) (R L I J N : nat).
  Variable f : nat -> nat -> F.                (* basis.f  [I, R] *)
  Variable p : nat -> nat -> nat -> F.         (* basis.p  [R, J, L] (rows expanded in the fast layout) *)
  Variable wq : nat -> F.                      (* basis.w  [J] *)
  Variables (rad : F) (wa wb : @arr2 F).       (* radius, _derivative_recurrence_weights *)

  Definition Wn := (nat * nat)%type.           (* (row, l) of a modal array, (i, j) of a nodal array *)
  Definition sw_un (a : Wn -> F) : arr2 := fun i l => a (i, l).
  Definition sw_pk (x : arr2) : Wn -> F := fun w => x (fst w) (snd w).
  (** materialise an n x m array once *)
  Definition sw_stage (n m : nat) (g : arr2) : Wn -> F :=
    let t := sh_memo2 n m g in fun w => t (fst w) (snd w).
  (** one materialised array per layer *)
  Definition sw_stack (g : nat -> Wn -> F) : nat -> Wn -> F :=
    let t := map g (seq 0 N) in fun k => nth k t (fun _ => 0).

  Definition sw_toM (z : Wn -> F) : Wn -> F := sw_stage R L (analysis R I J f p wq (sw_un z)).
  Definition sw_toN (x : arr2) : Wn -> F := sw_stage I J (synth R L J f p x).
  Definition sw_divc (a b : Wn -> F) : Wn -> F :=
    sw_stage R L (div_cos_lat fast L R L rad wa wb true (sw_un a, sw_un b)).
  Definition sw_curlc (a b : Wn -> F) : Wn -> F :=
    sw_stage R L (curl_cos_lat fast L R L rad wa wb true (sw_un a, sw_un b)).
  Definition sw_lap (a : Wn -> F) : Wn -> F := fun w => laplacian L rad (sw_un a) (fst w) (snd w).
  Definition sw_clip (a : Wn -> F) : Wn -> F := fun w => clip L L 1 (sw_un a) (fst w) (snd w).

  (** u = get_cos_lat_vector(vorticity, divergence, grid) (clip=True); nodal_u = to_nodal(u);
      nodal_state = to_nodal(clip_wavenumbers(state)) *)
  Definition sw_cols_of_state (vort dive pot : nat -> @arr2 F) (sec2 cor : nat -> F) : Wn -> SWCol :=
    let uv := fun k => get_cos_lat_vector fast L R L rad wa wb true (vort k) (dive k) in
    let U := sw_stack (fun k => sw_toN (fst (uv k))) in
    let V := sw_stack (fun k => sw_toN (snd (uv k))) in
    let Z := sw_stack (fun k => sw_toN (clip L L 1 (vort k))) in
    let Ph := sw_stack (fun k => sw_toN (clip L L 1 (pot k))) in
    fun q => mkSWCol (fun k => U k q) (fun k => V k q) (fun k => Z k q) (fun k => Ph k q) (sec2 (snd q)) (cor (snd q)).

  (** ShallowWaterEquations.explicit_terms: State -> State, with the two latitude tables as given *)
  Definition sw_explicit_terms_tab (dens : nat -> F) (sec2 cor : nat -> F) (orog : option (@arr2 F))
             (vort dive pot : nat -> @arr2 F) : (nat -> Wn -> F) * (nat -> Wn -> F) * (nat -> Wn -> F) :=
    let X := sw_cols_of_state vort dive pot sec2 cor in
    let potw := fun k => sw_pk (pot k) in
    let orogw := option_map sw_pk orog in
    (sw_vort_explicit Wn Wn sw_toM sw_divc sw_clip X,
     sw_div_explicit Wn Wn sw_toM sw_curlc sw_lap sw_clip N dens X potw orogw,
     sw_pot_explicit Wn Wn sw_toM sw_divc sw_clip X).
  (** ... with sec2_lat = 1 / (1 - sin_lat**2) and coriolis_parameter = 2 * angular_velocity * sin_lat as in the code *)
  Definition sw_explicit_terms (dens : nat -> F) (omega : F) (sinlat : nat -> F) :=
    sw_explicit_terms_tab dens (sw_sec2 sinlat) (sw_coriolis omega sinlat).

  (** the nodal arrays handed to to_modal (bge_nodal: b[0], b[1], g[0], g[1], e) for layer [r] *)
  Definition sw_bge_nodal (omega : F) (sinlat : nat -> F) (vort dive pot : nat -> @arr2 F) (r : nat)
    : list (Wn -> F) :=
    let X := sw_cols_of_state vort dive pot (sw_sec2 sinlat) (sw_coriolis omega sinlat) in
    [fun q => sw_b_u (X q) r; fun q => sw_b_v (X q) r; fun q => sw_g_u (X q) r; fun q => sw_g_v (X q) r;
     fun q => sw_e (X q) r].
End SWConcrete.
