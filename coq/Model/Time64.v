(** Binary64 model of the time conversions (definitions only), written with
    Coq's primitive floats so that it runs bit-exactly under [vm_compute]:

    - [PrimitiveEquationsSpecs.nondimensionalize_timedelta64] /
      [dimensionalize_timedelta64] (primitive_equations.py),
    - [xarray_utils.datetime64_to_nondim_time] / [nondim_time_to_datetime64] /
      [nondim_time_delta_from_time_axis].

    The sequence of float operations was measured on the implementation
    (pint 0.26, numpy float64; compared with [float.hex]):
      nondimensionalize(s seconds)   = fl(s / T)
      dimensionalize(v, second)      = fl(v * T)
      nondimensionalize(h hours)     = fl(fl(h / T) * 3600)
      dimensionalize(v, minute)      = fl(fl(v * T) * fl(1/60))
    where [T] is the float magnitude of the time scale in seconds
    ([scale['[time]'].magnitude]).  Integer -> float conversion is the
    primitive (correctly rounded, exact below 2^53); [np.round] is round half
    to even to an integer ([Bnearbyint mode_NE] of Flocq, executable);
    [int(x)] / [astype('timedelta64[s]')] truncate toward zero ([Btrunc]). *)
From Coq Require Import ZArith PrimFloat Uint63 List FloatOps.
From Flocq Require Import IEEE754.BinarySingleNaN IEEE754.PrimFloat.
Import ListNotations.
Local Open Scope float_scope.

(** int64 -> float64 *)
Definition of_Z (s : Z) : float :=
  if (s <? 0)%Z then - (of_uint63 (Uint63.of_Z (- s))) else of_uint63 (Uint63.of_Z s).
(** np.round / np.rint on a float64 *)
Definition rint (x : float) : float := B2Prim (@Bnearbyint prec emax Hmax mode_NE (Prim2B x)).
(** int(x), astype(int64) *)
Definition trunc (x : float) : Z := Btrunc (Prim2B x).

Definition f1000 : float := 1000.
Definition f3600 : float := 3600.
Definition f60 : float := 60.
Definition c_min : float := 1 / f60.      (* pint's second -> minute factor, fl(1/60) *)

(** whole-second durations *)
Definition nondim_td (T : float) (s : Z) : float := of_Z s / T.
Definition dim_s (T nd : float) : float := nd * T.
Definition snap_ms (dt : float) : float := rint (dt * f1000) / f1000.
(** current code: snap to milliseconds, then truncate *)
Definition dim_td (T nd : float) : Z := trunc (snap_ms (dim_s T nd)).
(** code before commit 93ce349: truncate directly *)
Definition dim_td_old (T nd : float) : Z := trunc (dim_s T nd).
Definition td_roundtrip (T : float) (s : Z) : Z := dim_td T (nondim_td T s).
Definition td_roundtrip_old (T : float) (s : Z) : Z := dim_td_old T (nondim_td T s).

(** calendar times at minute resolution: [M] = minutes since the reference *)
Definition hours_of_minutes (M : Z) : float := of_Z M / f60.
Definition nondim_hours (T h : float) : float := h / T * f3600.
Definition nondim_dt (T : float) (M : Z) : float := nondim_hours T (hours_of_minutes M).
Definition dim_min (T nd : float) : float := nd * T * c_min.
Definition dim_dt (T nd : float) : Z := trunc (rint (dim_min T nd)).
Definition dt_roundtrip (T : float) (M : Z) : Z := dim_dt T (nondim_dt T M).

(** batch helpers for the correspondence runs *)
Fixpoint zrange (a : Z) (step : Z) (n : nat) : list Z :=
  match n with O => [] | S k => a :: zrange (a + step) step k end.
Definition deviations (f : Z -> Z) (l : list Z) : list (Z * Z) :=
  filter (fun p => negb (Z.eqb (fst p) (snd p))) (map (fun s => (s, f s)) l).
Definition td_trace (T : float) (s : Z) : float * float * float * Z :=
  let nd := nondim_td T s in let d := dim_s T nd in (nd, d, snap_ms d, dim_td T nd).
Definition dt_trace (T : float) (M : Z) : float * float * Z :=
  let nd := nondim_dt T M in (nd, dim_min T nd, dim_dt T nd).

(** the default time scale 1 / (2 * 7.292e-5 / s), as computed by pint *)
Definition T_default : float := 0x1.ac8d453b1ec0fp+12.
