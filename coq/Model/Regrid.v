(** Model of the conservative regridders (property C16):
    dinosaur/horizontal_interpolation.py  (_latitude_cell_bounds, _latitude_overlap,
      conservative_latitude_weights, _align_phase_with, _periodic_upper_bounds,
      _periodic_lower_bounds, _periodic_overlap, _longitude_overlap,
      conservative_longitude_weights, ConservativeRegridder._mean / __call__)
    dinosaur/vertical_interpolation.py    (HybridCoordinates.get_sigma_boundaries,
      _interval_overlap, conservative_regrid_weights, regrid_hybrid_to_sigma).
    Definitions only.

    Conventions: a grid axis with [n] cells has [n] centres and [n+1] bounds,
    all index functions [nat -> F].  Weight matrices are [target -> source -> F].
    [sin] is not a field operation: the latitude overlap receives the tables
    [st k = sin (target bound k)], [ss k = sin (source bound k)] as inputs and
    selects from them exactly where the code evaluates [sin(min ..)], [sin(max ..)].
    NaN is modelled by [None]. *)
From Dino Require Import Base.Ops Base.Sums Base.Ord.
Local Open Scope F_scope.

Section Regrid.
  Context {F : Type} {o : Ops F}.

  Definition two : F := 1 + 1.
  Definition ind (c : bool) : F := if c then 1 else 0.

  (** 2-D staging (weights are computed once and then indexed). *)
  Definition memo2 (n m : nat) (f : nat -> nat -> F) : nat -> nat -> F :=
    let l := map (fun i => tab m (f i)) (seq 0 n) in
    fun i j => nth j (nth i l []) 0.

  (** *** generic pieces *)

  (** overlap length of [lo1,hi1] and [lo2,hi2]:
      [maximum(minimum(hi1,hi2) - maximum(lo1,lo2), 0)] *)
  Definition ov (lo1 hi1 lo2 hi2 : F) : F := fmax (fmin hi1 hi2 - fmax lo1 lo2) 0.

  (** [weights /= sum(weights, axis=1, keepdims=True)] with [m] source cells *)
  Definition row_total (m : nat) (w : nat -> nat -> F) (i : nat) : F := sumn m (w i).
  Definition normalize_rows (m : nat) (w : nat -> nat -> F) (i j : nat) : F :=
    w i j / row_total m w i.

  (** [einsum('ab,b->a', weights, field)] *)
  Definition apply_weights (m : nat) (w : nat -> nat -> F) (x : nat -> F) (i : nat) : F :=
    sumn m (fun j => w i j * x j).

  (** *** vertical: _interval_overlap, conservative_regrid_weights, regrid_hybrid_to_sigma *)
  Definition interval_overlap (sb tb : nat -> F) (i j : nat) : F :=
    ov (tb i) (tb (S i)) (sb j) (sb (S j)).
  Definition vert_weights (m : nat) (sb tb : nat -> F) : nat -> nat -> F :=
    normalize_rows m (interval_overlap sb tb).
  (** HybridCoordinates.get_sigma_boundaries: a / sp + b *)
  Definition hybrid_bounds (a b : nat -> F) (sp : F) (k : nat) : F := a k / sp + b k.
  Definition regrid_hybrid_to_sigma (m : nat) (a b : nat -> F) (sp : F) (tb x : nat -> F) (i : nat) : F :=
    apply_weights m (vert_weights m (hybrid_bounds a b sp) tb) x i.

  (** *** latitude *)
  (** _latitude_cell_bounds: [-pi/2, midpoints, pi/2]; [n] centres, [n+1] bounds *)
  Definition lat_bounds (hpi : F) (n : nat) (x : nat -> F) (k : nat) : F :=
    if Nat.eqb k 0 then - hpi
    else if Nat.ltb k n then (x (k - 1)%nat + x k) / two
    else hpi.

  (** _latitude_overlap: (upper > lower) * (sin(upper) - sin(lower)), the sines
      taken from the tables at the selected bound. *)
  Definition lat_overlap (tb sb st ss : nat -> F) (i j : nat) : F :=
    let up_t := fleb (tb (S i)) (sb (S j)) in          (* minimum picks the target bound *)
    let upper := if up_t then tb (S i) else sb (S j) in
    let s_upper := if up_t then st (S i) else ss (S j) in
    let lo_s := fleb (tb i) (sb j) in                  (* maximum picks the source bound *)
    let lower := if lo_s then sb j else tb i in
    let s_lower := if lo_s then ss j else st i in
    ind (fltb lower upper) * (s_upper - s_lower).

  (** conservative_latitude_weights(source_points, target_points) *)
  Definition lat_weights (hpi : F) (n m : nat) (tx sx st ss : nat -> F) : nat -> nat -> F :=
    normalize_rows m (lat_overlap (lat_bounds hpi n tx) (lat_bounds hpi m sx) st ss).

  (** *** longitude *)
  (** _align_phase_with: x + period*shift_up - period*shift_down *)
  Definition align_phase (x target period : F) : F :=
    let shift_down := fltb (target + period / two) x in
    let shift_up := fltb x (target - period / two) in
    x + period * ind shift_up - period * ind shift_down.

  (** jnp.roll(x, -1)[i] = x[(i+1) mod n];  jnp.roll(x, +1)[i] = x[(i-1) mod n] *)
  Definition roll_m1 (n : nat) (x : nat -> F) (i : nat) : F := x (Nat.modulo (i + 1) n).
  Definition roll_p1 (n : nat) (x : nat -> F) (i : nat) : F := x (Nat.modulo (i + n - 1) n).

  Definition per_upper (n : nat) (period : F) (x : nat -> F) (i : nat) : F :=
    (x i + align_phase (roll_m1 n x i) (x i) period) / two.
  Definition per_lower (n : nat) (period : F) (x : nat -> F) (i : nat) : F :=
    (align_phase (roll_p1 n x i) (x i) period + x i) / two.

  (** _periodic_overlap(x0, x1, y0, y1, period): the interval [y0,y1] is moved
      as a whole next to x0 (shift = align(y0, x0) - y0), then the overlaps with
      its images at offsets -period, 0, +period are accumulated (overlap = 0;
      overlap += ...). *)
  Definition per_overlap (period x0 x1 y0 y1 : F) : F :=
    let shift := align_phase y0 x0 period - y0 in
    let y0' := y0 + shift in
    let y1' := y1 + shift in
    let term := fun offset => fmax (fmin x1 (y1' + offset) - fmax x0 (y0' + offset)) 0 in
    0 + term (- period) + term 0 + term period.

  (** [points % period] for a float array: the quotient floor(x/period) is
      supplied as a witness [k] and validated ([0 <= r < period]). *)
  Definition pmod (period : F) (k : Z) (x : F) : F := x - fofZ k * period.
  Definition pmod_ok (period : F) (k : Z) (x : F) : bool :=
    let r := pmod period k x in fleb 0 r && fltb r period.

  (** _longitude_overlap(first_points, second_points) on points already reduced mod period *)
  Definition lon_overlap (period : F) (n m : nat) (fp sp : nat -> F) (i j : nat) : F :=
    per_overlap period (per_lower n period fp i) (per_upper n period fp i)
                       (per_lower m period sp j) (per_upper m period sp j).

  (** conservative_longitude_weights(source_points, target_points):
      overlap(target, source), rows normalised; [tp], [sp] reduced mod period *)
  Definition lon_weights (period : F) (n m : nat) (tp sp : nat -> F) : nat -> nat -> F :=
    normalize_rows m (lon_overlap period n m tp sp).

  (** *** ConservativeRegridder *)
  Definition notnull (v : option F) : F := match v with Some _ => 1 | None => 0 end.
  Definition val0 (v : option F) : F := match v with Some x => x | None => 0 end.

  (** _mean: einsum('ab,cd,bd->ac', lon_weights, lat_weights, field);
      [nb] source longitudes, [nd] source latitudes *)
  Definition mean2 (nb nd : nat) (wlon wlat : nat -> nat -> F) (f : nat -> nat -> F) (a c : nat) : F :=
    sumn nb (fun b => sumn nd (fun d => wlon a b * wlat c d * f b d)).

  (** jnp.isclose(x, 1, rtol) = |x - 1| <= atol + rtol*|1|;  [tol] = atol + rtol *)
  Definition isclose1 (tol x : F) : bool := fleb (fabs (x - 1)) tol.

  (** __call__ *)
  Definition regrid_call (skipna : bool) (tol : F) (nb nd : nat) (wlon wlat : nat -> nat -> F)
             (field : nat -> nat -> option F) (a c : nat) : option F :=
    let mean := mean2 nb nd wlon wlat (fun b d => val0 (field b d)) a c in
    let frac := mean2 nb nd wlon wlat (fun b d => notnull (field b d)) a c in
    if skipna then (if feqb frac 0 then None else Some (mean / frac))   (* 0/0 = NaN *)
    else if isclose1 tol frac then Some (mean / frac) else None.
End Regrid.
