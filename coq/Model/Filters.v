(** Model of dinosaur/filtering.py and of the step filters of
    dinosaur/time_integration.py.  Definitions only.

    Shapes are [list nat]; an array is a pair (shape, index function
    [list nat -> F]) (multi-indices, row major); a pytree is the list of its
    leaves ([jax.tree_util.tree_map] keeps the structure; trusted).  [jnp.exp]
    is not a field operation: the filters take it as a parameter [fexp]; the
    exponents are rational functions of the total wavenumber and are modelled
    exactly. *)
From Dino Require Import Base.Ops Base.Sums Base.Ord.
Local Open Scope F_scope.

(** * numpy broadcasting on shapes *)

(** one pair of dimensions *)
Definition bdim (a b : nat) : option nat :=
  if Nat.eqb a b then Some a
  else if Nat.eqb a 1 then Some b
  else if Nat.eqb b 1 then Some a else None.

(** shapes of equal rank *)
Fixpoint bzip (a b : list nat) : option (list nat) :=
  match a, b with
  | [], [] => Some []
  | x :: a', y :: b' =>
      match bdim x y, bzip a' b' with
      | Some d, Some r => Some (d :: r)
      | _, _ => None
      end
  | _, _ => None
  end.

(** prepend ones up to rank [n] *)
Definition lpad (n : nat) (s : list nat) : list nat := repeat 1%nat (n - length s) ++ s.

(** [np.broadcast_shapes]; [None] = ValueError *)
Definition broadcast_shapes (a b : list nat) : option (list nat) :=
  let n := Nat.max (length a) (length b) in bzip (lpad n a) (lpad n b).

Fixpoint shape_eqb (a b : list nat) : bool :=
  match a, b with
  | [], [] => true
  | x :: a', y :: b' => Nat.eqb x y && shape_eqb a' b'
  | _, _ => false
  end.

(** [filtering._preserves_shape]: the try/except makes it total *)
Definition preserves_shape (target scaling : list nat) : bool :=
  match broadcast_shapes target scaling with
  | Some s => shape_eqb target s
  | None => false
  end.

(** index into a source of shape [s] for the index [idx] of the broadcast
    result (trailing axes aligned, size-one axes pinned to 0) *)
Definition bidx (s idx : list nat) : list nat :=
  map (fun di : nat * nat => if Nat.eqb (fst di) 1 then 0%nat else snd di)
      (combine s (skipn (length idx - length s) idx)).

(** row-major flattening (extraction boundary) *)
Fixpoint ravel_acc (acc : nat) (s idx : list nat) : nat :=
  match s, idx with
  | d :: s', i :: idx' => ravel_acc (acc * d + i) s' idx'
  | _, _ => acc
  end.
Definition ravel (s idx : list nat) : nat := ravel_acc 0 s idx.
Fixpoint all_indices (s : list nat) : list (list nat) :=
  match s with
  | [] => [[]]
  | d :: s' => flat_map (fun i => map (cons i) (all_indices s')) (seq 0 d)
  end.

Fixpoint maxn (n : nat) (f : nat -> nat) : nat :=
  match n with O => O | S k => Nat.max (maxn k f) (f k) end.

Section Filters.
  Context {F : Type} {o : Ops F}.

  Definition arr : Type := list nat * (list nat -> F).
  Definition tree : Type := list arr.
  Definition scalar_arr (x : F) : arr := ([], fun _ => x).
  Definition of_flat (s : list nat) (f : nat -> F) : arr := (s, fun idx => f (ravel s idx)).
  Definition to_flat (a : arr) : list F := map (snd a) (all_indices (fst a)).
  Definition map_arr (g : F -> F) (a : arr) : arr := (fst a, fun idx => g (snd a idx)).
  (** [x[i]] for a leading index *)
  Definition slice (i : nat) (a : arr) : arr := (tl (fst a), fun idx => snd a (i :: idx)).

  Definition ftwo : F := 1 + 1.
  Definition indb (b : bool) : F := if b then 1 else 0.
  Fixpoint fnat (n : nat) : F := match n with O => 0 | S k => fnat k + 1 end.
  Fixpoint fpow (x : F) (n : nat) : F := match n with O => 1 | S k => x * fpow x k end.
  (** max of [f 0 .. f n] (n+1 entries, as np.max of a non-empty array) *)
  Fixpoint fmaxn (n : nat) (f : nat -> F) : F :=
    match n with O => f 0%nat | S k => fmax (fmaxn k f) (f (S k)) end.

  (** ** [_make_filter_fn]: [rescale] on one leaf and the tree map *)
  Definition rescale (sc x : arr) : arr :=
    if preserves_shape (fst x) (fst sc)
    then (fst x, fun idx => snd sc (bidx (fst sc) idx) * snd x idx)
    else x.
  Definition filter_tree (sc : arr) (t : tree) : tree := map (rescale sc) t.

  (** ** [exponential_filter]
      [lw] is [grid.modal_axes[1]] (total wavenumber of each of the [L] columns,
      0 on padded columns); k = l / max l;
      exponent = (k > c) * (-a * ((k - c) / (1 - c)) ** (2 * p)). *)
  Definition exp_exponent (a c : F) (p lmax l : nat) : F :=
    let k := fnat l / fnat lmax in
    indb (fltb c k) * (- a * fpow ((k - c) / (1 - c)) (2 * p)).

  (** array-valued attenuation [att] (shape [] for a python scalar); [None] if
      the attenuation cannot be broadcast against the wavenumber axis *)
  Definition exp_filter_exponent (L : nat) (lw : nat -> nat) (att : arr) (c : F) (p : nat)
    : option arr :=
    match broadcast_shapes (fst att) [L] with
    | None => None
    | Some sh => Some (sh, fun idx =>
        exp_exponent (snd att (bidx (fst att) idx)) c p (maxn L lw) (lw (last idx 0%nat)))
    end.

  Definition exponential_filter (fexp : F -> F) (L : nat) (lw : nat -> nat) (att : arr) (c : F)
             (p : nat) (t : tree) : option tree :=
    match exp_filter_exponent L lw att c p with
    | None => None
    | Some e => Some (filter_tree (map_arr fexp e) t)
    end.

  (** ** [Grid.laplacian_eigenvalues] and [horizontal_diffusion_filter]
      eigenvalue = -l * (l + 1) / radius**2; exponent = -scale * (-eig) ** order *)
  Definition lap_eig (r : F) (l : nat) : F := (- fnat l) * (fnat l + 1) / (r * r).
  Definition hd_exponent (scale r : F) (order l : nat) : F :=
    (- scale) * fpow (- lap_eig r l) order.

  Definition hd_filter_exponent (L : nat) (lw : nat -> nat) (scale : arr) (r : F) (order : nat)
    : option arr :=
    match broadcast_shapes (fst scale) [L] with
    | None => None
    | Some sh => Some (sh, fun idx =>
        hd_exponent (snd scale (bidx (fst scale) idx)) r order (lw (last idx 0%nat)))
    end.

  Definition horizontal_diffusion_filter (fexp : F -> F) (L : nat) (lw : nat -> nat) (scale : arr)
             (r : F) (order : nat) (t : tree) : option tree :=
    match hd_filter_exponent L lw scale r order with
    | None => None
    | Some e => Some (filter_tree (map_arr fexp e) t)
    end.

  (** ** step filters of time_integration.py *)
  Definition runge_kutta_step_filter {T U} (f : T -> U) (u u_next : T) : U := f u_next.
  Definition leapfrog_step_filter {T} (f : T -> option T) (u u_next : T * T) : option (T * T) :=
    match f (snd u_next) with
    | None => None
    | Some fut => Some (fst u_next, fut)
    end.

  (** attenuation = dt / tau ([tau] scalar or array) *)
  Definition exp_step_att (dt : F) (tau : arr) : arr := map_arr (fun t => dt / t) tau.
  Definition exponential_step_filter fexp L lw (dt : F) (tau : arr) (c : F) (p : nat)
             (u u_next : tree) : option tree :=
    runge_kutta_step_filter (exponential_filter fexp L lw (exp_step_att dt tau) c p) u u_next.
  Definition exponential_leapfrog_step_filter fexp L lw (dt : F) (tau : arr) (c : F) (p : nat)
             (u u_next : tree * tree) : option (tree * tree) :=
    leapfrog_step_filter (exponential_filter fexp L lw (exp_step_att dt tau) c p) u u_next.

  (** scale = dt / (tau * abs(eigenvalues).max() ** order) *)
  Definition max_abs_eig (L : nat) (lw : nat -> nat) (r : F) : F :=
    fmaxn (L - 1) (fun j => fabs (lap_eig r (lw j))).
  Definition hd_step_scale (L : nat) (lw : nat -> nat) (dt : F) (tau : arr) (r : F) (order : nat) : arr :=
    map_arr (fun t => dt / (t * fpow (max_abs_eig L lw r) order)) tau.
  Definition horizontal_diffusion_step_filter fexp L lw (dt : F) (tau : arr) (r : F) (order : nat)
             (u u_next : tree) : option tree :=
    runge_kutta_step_filter
      (horizontal_diffusion_filter fexp L lw (hd_step_scale L lw dt tau r order) r order) u u_next.

  (** ** [robert_asselin_leapfrog_filter]: (1 - 2 r) c + r (p + f), leafwise *)
  Definition ra_value (r p c f : F) : F := (1 - ftwo * r) * c + r * (p + f).
  Definition ra_leaf (r : F) (p c f : arr) : arr :=
    (fst c, fun idx => ra_value r (snd p idx) (snd c idx) (snd f idx)).
  (** tree_map over three trees: [None] when the structures differ *)
  Fixpoint map3 (g : arr -> arr -> arr -> arr) (a b c : tree) : option tree :=
    match a, b, c with
    | [], [], [] => Some []
    | x :: a', y :: b', z :: c' =>
        match map3 g a' b' c' with Some r => Some (g x y z :: r) | None => None end
    | _, _, _ => None
    end.
  Definition robert_asselin_leapfrog_filter (r : F) (u u_next : tree * tree) : option (tree * tree) :=
    match map3 (ra_leaf r) (fst u) (snd u) (snd u_next) with
    | Some cur => Some (cur, snd u_next)
    | None => None
    end.
End Filters.
