(** Model of dinosaur/radiation.py (top-of-atmosphere incident solar radiation)
    and dinosaur/held_suarez.py (HeldSuarezForcing).  Definitions only.

    Trigonometric functions are not part of the field interface: every
    definition is parametrised by [cosf sinf : F -> F] and by the value [pi]
    (the code uses the float [jnp.pi]).  Instantiated
    - at [R] with Coq's [cos], [sin], [PI] for the theorems (Thm/Forcings.v),
    - at [Q] with finite lookup tables (argument -> value) whose entries are
      evaluated by numpy at the model's own exact rational arguments, for the
      differential correspondence (Extract/ExC20.v).
    [exp], [log] and [p^kappa] of the Held-Suarez equilibrium temperature enter
    as tables.  The numeric constants (solar constant, variation, perihelion,
    equinox, obliquity, Held-Suarez defaults) come from Gen/Constants.v, which
    is regenerated from the source on every run; the *formulas* below are
    written by hand and Thm/Forcings.v proves them equal to the generated
    transcription of the source. *)
From Dino Require Import Base.Ops Base.Sums Base.Ord Gen.Constants.
Local Open Scope F_scope.

(** ** radiation.py *)
Section Radiation.
  Context {F : Type} {o : Ops F}.
  Variables (cosf sinf : F -> F) (pi : F).

  Definition ftwo : F := fofQ (2 # 1).
  Definition two_pi : F := ftwo * pi.

  (** [datetime_to_orbital_time]: calendar quantities (days in the year, day of
      year - 1, hour, minute) are integers computed by [datetime]. *)
  Definition fraction_of_day (hour minute : Z) : F :=
    fofZ (60 * hour + minute) / MINUTES_PER_DAY pi.
  Definition datetime_orbital_phase (days_this_year full_days hour minute : Z) : F :=
    two_pi * ((fofZ full_days + fraction_of_day hour minute) / fofZ days_this_year).
  Definition datetime_synodic_phase (hour minute : Z) : F :=
    two_pi * fraction_of_day hour minute.

  (** [SolarRadiation.time_to_orbital_time]: [x - x // (2 pi) * (2 pi)]; the
      integer [n = x // (2 pi)] is an input, accepted iff it is the floor. *)
  Definition phase_raw (ref rate time : F) : F := ref + rate * time.
  Definition floor_ok (x : F) (n : Z) : bool :=
    fleb (fofZ n * two_pi) x && fltb x ((fofZ n + 1) * two_pi).
  Definition wrap_phase (x : F) (n : Z) : F := x - fofZ n * two_pi.

  (** [get_direct_solar_irradiance] *)
  Definition direct_solar_irradiance (orbital_phase mean variation perihelion : F) : F :=
    mean + variation * cosf (orbital_phase - perihelion).

  (** [get_declination] *)
  Definition declination (orbital_phase : F) : F :=
    EARTH_AXIS_INCLINATION pi * sinf (orbital_phase - SPRING_EQUINOX pi).

  (** [equation_of_time] *)
  Definition eot_minutes (b : F) : F :=
    fofQ (987 # 100) * sinf (ftwo * b) - fofQ (753 # 100) * cosf b - fofQ (3 # 2) * sinf b.
  Definition equation_of_time (orbital_phase : F) : F :=
    two_pi * eot_minutes (orbital_phase - SPRING_EQUINOX pi) / MINUTES_PER_DAY pi.

  (** [get_hour_angle] *)
  Definition hour_angle (orbital_phase synodic_phase longitude : F) : F :=
    synodic_phase + equation_of_time orbital_phase + longitude - pi.

  (** [get_solar_sin_altitude] *)
  Definition sin_altitude_of (cos_lat sin_lat cos_dec sin_dec cos_h : F) : F :=
    cos_lat * cos_dec * cos_h + sin_lat * sin_dec.
  Definition solar_sin_altitude (orbital_phase synodic_phase longitude latitude : F) : F :=
    let dec := declination orbital_phase in
    let h := hour_angle orbital_phase synodic_phase longitude in
    sin_altitude_of (cosf latitude) (sinf latitude) (cosf dec) (sinf dec) (cosf h).

  (** [get_radiation_flux]: [flux * is_daytime * sin_altitude] with
      [is_daytime = sin_altitude > 0]. *)
  Definition daytime (s : F) : F := if fleb s 0 then 0 else 1.
  Definition flux_of (irradiance s : F) : F := irradiance * daytime s * s.
  Definition radiation_flux (mean variation orbital_phase synodic_phase longitude latitude : F) : F :=
    flux_of (direct_solar_irradiance orbital_phase mean variation (PERIHELION pi))
            (solar_sin_altitude orbital_phase synodic_phase longitude latitude).

  (** [get_normalized_radiation_flux] / [SolarRadiation.normalized] *)
  Definition normalized_radiation_flux (mean variation orbital_phase synodic_phase longitude latitude : F) : F :=
    let scale := mean + variation in
    radiation_flux (mean / scale) (variation / scale) orbital_phase synodic_phase longitude latitude.

  (** [SolarRadiation.radiation_flux time] on the nodal mesh point (lon, lat);
      [n_o], [n_s] are the floors of the two raw phases. *)
  Definition solar_radiation_flux (mean variation ref_o ref_s rate_o rate_s time : F) (n_o n_s : Z)
             (longitude latitude : F) : F :=
    radiation_flux mean variation
                   (wrap_phase (phase_raw ref_o rate_o time) n_o)
                   (wrap_phase (phase_raw ref_s rate_s time) n_s) longitude latitude.
End Radiation.

(** ** held_suarez.py *)

(** Forcing parameters after nondimensionalisation. *)
Record HSParams (F : Type) : Type := mkHSParams {
  hp_p0 : F; hp_sigma_b : F; hp_kf : F; hp_ka : F; hp_ks : F;
  hp_minT : F; hp_maxT : F; hp_dTy : F; hp_dThz : F }.
Arguments mkHSParams {F}. Arguments hp_p0 {F}. Arguments hp_sigma_b {F}. Arguments hp_kf {F}.
Arguments hp_ka {F}. Arguments hp_ks {F}. Arguments hp_minT {F}. Arguments hp_maxT {F}.
Arguments hp_dTy {F}. Arguments hp_dThz {F}.

(** The horizontal operators of the grid as real matrices on flattened
    modal ([nm] entries) and nodal ([nn] entries) arrays:
    [to_nodal], [to_modal], [get_cos_lat_vector(vor, div, clip=False)]
    (four blocks), [curl_cos_lat] and [div_cos_lat] (two blocks each, default
    clipping included), plus cos/sin of latitude per nodal point. *)
Record HSGrid (F : Type) : Type := mkHSGrid {
  g_nm : nat; g_nn : nat;
  g_toN : nat -> nat -> F; g_toM : nat -> nat -> F;
  g_CUv : nat -> nat -> F; g_CUd : nat -> nat -> F; g_CVv : nat -> nat -> F; g_CVd : nat -> nat -> F;
  g_CRu : nat -> nat -> F; g_CRv : nat -> nat -> F; g_DVu : nat -> nat -> F; g_DVv : nat -> nat -> F;
  g_cosl : nat -> F; g_sinl : nat -> F }.
Arguments g_nm {F}. Arguments g_nn {F}. Arguments g_toN {F}. Arguments g_toM {F}.
Arguments g_CUv {F}. Arguments g_CUd {F}. Arguments g_CVv {F}. Arguments g_CVd {F}.
Arguments g_CRu {F}. Arguments g_CRv {F}. Arguments g_DVu {F}. Arguments g_DVv {F}.
Arguments g_cosl {F}. Arguments g_sinl {F}.

Section HeldSuarez.
  Context {F : Type} {o : Ops F}.

  (** [np.maximum(0, (sigma - sigma_b) / (1 - sigma_b))] *)
  Definition hs_cutoff (sigma_b sigma : F) : F := fmax 0 ((sigma - sigma_b) / (1 - sigma_b)).
  (** [HeldSuarezForcing.kv] (one value per level) *)
  Definition hs_kv (P : HSParams F) (sigma : F) : F := hp_kf P * hs_cutoff (hp_sigma_b P) sigma.
  (** [HeldSuarezForcing.kt] at a level and a latitude with cosine [cl] *)
  Definition pow4 (c : F) : F := (c * c) * (c * c).
  Definition hs_kt (P : HSParams F) (sigma cl : F) : F :=
    hp_ka P + (hp_ks P - hp_ka P) * (hs_cutoff (hp_sigma_b P) sigma * pow4 cl).
  (** [equilibrium_temperature]: [p_over_p0 = sigma * ps / p0]; the values
      [pk = p_over_p0 ** kappa] and [logp = log(p_over_p0)] are inputs. *)
  Definition hs_p_over_p0 (P : HSParams F) (sigma ps : F) : F := sigma * ps / hp_p0 P.
  Definition hs_teq_unbounded (P : HSParams F) (pk logp cl sl : F) : F :=
    pk * (hp_maxT P - hp_dTy P * (sl * sl) - hp_dThz P * logp * (cl * cl)).
  Definition hs_teq (P : HSParams F) (pk logp cl sl : F) : F :=
    fmax (hp_minT P) (hs_teq_unbounded P pk logp cl sl).

  (** matrix-vector product, unstaged and staged *)
  Definition matop (m : nat) (A : nat -> nat -> F) (x : nat -> F) (i : nat) : F :=
    sumn m (fun j => A i j * x j).
  Definition matopm (n m : nat) (A : nat -> nat -> F) (x : nat -> F) : nat -> F :=
    memo n (matop m A x).
  Definition vadd (x y : nat -> F) (i : nat) : F := x i + y i.

  (** nodal pieces of [explicit_terms] *)
  Definition hs_nodal_velocity_tendency (kv cu cl : F) : F := (- kv) * cu / (cl * cl).
  Definition hs_nodal_temperature_tendency (kt tref tvar teq : F) : F := (- kt) * ((tref + tvar) - teq).

  (** [explicit_terms] for one level with centre [sigma] and reference
      temperature [tref].  [vor div tv] are the level's modal coefficients,
      [lnps] the modal log surface pressure; [ps p] must be
      [exp (to_nodal lnps p)], [pk p], [logp p] the power and logarithm of
      [hs_p_over_p0 P sigma (ps p)]. *)
  Section Level.
    Variables (G : HSGrid F) (P : HSParams F) (sigma tref : F).
    Variables (vor div tv : nat -> F) (pk logp : nat -> F).
    Let nm := g_nm G. Let nn := g_nn G.

    Definition hs_cos_lat_u : nat -> F :=
      memo nm (vadd (matop nm (g_CUv G) vor) (matop nm (g_CUd G) div)).
    Definition hs_cos_lat_v : nat -> F :=
      memo nm (vadd (matop nm (g_CVv G) vor) (matop nm (g_CVd G) div)).
    Definition hs_ut_nodal (cm : nat -> F) : nat -> F :=
      let cn := matopm nn nm (g_toN G) cm in
      memo nn (fun p => hs_nodal_velocity_tendency (hs_kv P sigma) (cn p) (g_cosl G p)).
    Definition hs_ut_modal (cm : nat -> F) : nat -> F := matopm nm nn (g_toM G) (hs_ut_nodal cm).
    Definition hs_vorticity_tendency : nat -> F :=
      let u := hs_ut_modal hs_cos_lat_u in let v := hs_ut_modal hs_cos_lat_v in
      vadd (matop nm (g_CRu G) u) (matop nm (g_CRv G) v).
    Definition hs_divergence_tendency : nat -> F :=
      let u := hs_ut_modal hs_cos_lat_u in let v := hs_ut_modal hs_cos_lat_v in
      vadd (matop nm (g_DVu G) u) (matop nm (g_DVv G) v).
    Definition hs_tt_nodal : nat -> F :=
      let tn := matopm nn nm (g_toN G) tv in
      memo nn (fun p => hs_nodal_temperature_tendency
                          (hs_kt P sigma (g_cosl G p)) tref (tn p)
                          (hs_teq P (pk p) (logp p) (g_cosl G p) (g_sinl G p))).
    Definition hs_temperature_tendency : nat -> F := matop nn (g_toM G) hs_tt_nodal.
  End Level.

  (** [jnp.zeros_like(state.log_surface_pressure)] *)
  Definition hs_log_surface_pressure_tendency (lnps : nat -> F) (i : nat) : F := 0.
  Definition hs_nodal_lnps (G : HSGrid F) (lnps : nat -> F) : nat -> F := matop (g_nm G) (g_toN G) lnps.
End HeldSuarez.
