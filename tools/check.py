"""Entry point: ./check Cxx [--tier quick|thorough] [--replay file]."""
import argparse, importlib, json, os, sys, time, traceback
sys.path.insert(0, os.path.dirname(os.path.abspath(__file__)))
from harness import core


def main():
    ap = argparse.ArgumentParser()
    ap.add_argument('prop')
    ap.add_argument('--tier', default=os.environ.get('VERIF_TIER', 'quick'))
    ap.add_argument('--replay')
    ap.add_argument('--no-build', action='store_true')
    a = ap.parse_args()
    t0 = time.time()
    seed = int(os.environ.get('VERIF_SEED', '0'))
    tier = a.tier if a.tier in ('quick', 'thorough') else 'quick'
    plug = importlib.import_module('props.' + a.prop)
    theorems = list(getattr(plug, 'THEOREMS', []))
    if a.no_build:
        bres = core.BuildResult()
    else:
        bres = core.build(a.prop, theorems, tier)
    ctx = core.Ctx(a.prop, tier, seed, level=getattr(plug, 'LEVEL', 'proof'))
    try:
        ctx.model = core.Model(a.prop)
    except Exception as e:
        bres.failed.append('cannot start extracted model: %r' % e)
    try:
        if a.replay:
            rp = json.load(open(a.replay))
            if rp.get('runner'):
                ctx.begin_case(rp['runner'], rp['args'])
                plug.RUNNERS[rp['runner']](ctx, rp['args'])
                print('replay of', rp['runner'], json.dumps(rp['args'])[:400])
                print(' oracle failures:', json.dumps(ctx.oracle_failures)[:1500])
                print(' model/implementation mismatches:', json.dumps(ctx.mismatches)[:1500])
            else:
                print('replay file names broken obligations only:', rp.get('broken_obligations'))
        else:
            gen = iter(plug.generate(ctx))
            while True:
                try:
                    runner, args = next(gen)
                except StopIteration:
                    break
                except Exception:
                    # the implementation (or the plugin) raised while cases were being generated:
                    # an obligation that no longer checks, not a crash of the check
                    ctx.cur = ('<generate>', None)
                    ctx.mismatches.append(dict(ctx._where(), what='exception while generating cases',
                                               detail=traceback.format_exc()[-1500:]))
                    break
                ctx.begin_case(runner, args, nontrivial=args.get('_nontrivial', True) if isinstance(args, dict) else True)
                try:
                    plug.RUNNERS[runner](ctx, args)
                except Exception as e:
                    ctx.mismatches.append(dict(ctx._where(), what='exception in runner',
                                               detail=traceback.format_exc()[-1500:]))
    finally:
        if ctx.model: ctx.model.close()
    rc = core.finish(ctx, bres, theorems, t0, getattr(plug, 'LEVEL_NOTE', ''), replay_mode=bool(a.replay))
    sys.exit(rc)


if __name__ == '__main__':
    main()
