"""Writes /verif/MANIFEST.json from the per-property plugin metadata."""
import importlib, json, os, sys
sys.path.insert(0, os.path.dirname(os.path.abspath(__file__)))
VERIF = os.path.dirname(os.path.dirname(os.path.abspath(__file__)))
ids = [json.loads(l)['id'] for l in open(os.path.join(VERIF, 'properties.jsonl'))]
checks = []; na = []
ready = set(open(os.path.join(VERIF, 'tools', 'ready.txt')).read().split())
for i in ids:
    if i not in ready:
        na.append({'property_id': i, 'reason': 'check under construction (see DESIGN.md section 5); not claimed until it passes on the unchanged tree'}); continue
    if not os.path.exists(os.path.join(VERIF, 'tools', 'props', i + '.py')):
        na.append({'property_id': i, 'reason': 'check not built yet (planned, see DESIGN.md section 5)'}); continue
    src = open(os.path.join(VERIF, 'tools', 'props', i + '.py')).read()
    meta = {}
    # metadata are plain string/list constants at the top of the plugin; evaluate them without importing jax
    import ast
    for node in ast.parse(src).body:
        if isinstance(node, ast.Assign) and isinstance(node.targets[0], ast.Name) and node.targets[0].id.isupper():
            try: meta[node.targets[0].id] = ast.literal_eval(node.value)
            except Exception: pass
    if meta.get('NOT_APPLICABLE'):
        na.append({'property_id': i, 'reason': meta['NOT_APPLICABLE']}); continue
    checks.append({
        'property_id': i,
        'quick_cmd': f'./check {i} --tier quick',
        'thorough_cmd': f'./check {i} --tier thorough',
        'evidence_file': f'/verif/evidence/{i}.json',
        'replay_cmd_template': f'./check {i} --replay {{path}}',
        'engine': 'coq-model+correspondence',
        'level_claimed': {'category': meta.get('LEVEL', 'proof'),
                          'text': meta.get('LEVEL_TEXT', meta.get('LEVEL_NOTE', '')),
                          'design_ref': f'DESIGN.md section 5, {i}'},
        'level_note': meta.get('LEVEL_NOTE', ''),
        'technique': meta.get('TECHNIQUE', 'Coq theorems over an executable Gallina model + differential correspondence (extracted OCaml vs implementation)'),
    })
m = {
    'version': 1,
    'setup_cmd': './setup.sh',
    'hooks': {'guard': 'GOOGLE_RESEARCH_DINOSAUR_VERIF', 'enable': 'no source hooks are needed; checks import /repo directly (PYTHONPATH=/repo) with GOOGLE_RESEARCH_DINOSAUR_VERIF=1 set',
              'baseline_off_cmd': 'cd /repo && /venv/bin/python -m pytest -ra -q -p no:cacheprovider --timeout=900 --continue-on-collection-errors',
              'source_commits': [], 'add_only': True},
    'engines': [{'name': 'coq-model+correspondence', 'path': '/verif/check', 'serves_properties': [c['property_id'] for c in checks],
                 'kind_free_text': 'Coq 8.16 proofs (coq/Thm, coq/Prop) about Gallina models (coq/Model, coq/Gen regenerated from /repo), extracted to OCaml and compared with the implementation on generated inputs; property oracles search for failing inputs'}],
    'checks': checks,
    'not_applicable': na,
    'notes': 'see DESIGN.md; known_findings.json lists fixed/known defects',
}
json.dump(m, open(os.path.join(VERIF, 'MANIFEST.json'), 'w'), indent=1)
print('checks:', [c['property_id'] for c in checks], 'n/a:', [n['property_id'] for n in na])
