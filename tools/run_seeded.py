"""Runs the checks against the seeded changes kept under /verif/seeded/<id>/.
For each: scratch copy of /repo (outside /repo and /verif), apply patch.diff, run
demo (must fail), run the property's check (must exit 1 with a VIOLATION line),
remove the copy.  Writes seeded/<id>/result.json.  Usage:
  tools/run_seeded.py [id ...] [--tier quick|thorough]"""
import json, os, shutil, subprocess, sys, tempfile, time
VERIF = os.path.dirname(os.path.dirname(os.path.abspath(__file__)))


def main():
    args = [a for a in sys.argv[1:] if not a.startswith('--')]
    tier = 'quick'
    if '--tier' in sys.argv: tier = sys.argv[sys.argv.index('--tier') + 1]; args = [a for a in args if a != tier]
    root = os.path.join(VERIF, 'seeded')
    ids = args or sorted(d for d in os.listdir(root) if os.path.isdir(os.path.join(root, d)))
    for sid in ids:
        d = os.path.join(root, sid)
        meta = json.load(open(os.path.join(d, 'meta.json')))
        prop = meta['property']
        tmp = tempfile.mkdtemp(prefix='seedrun_')
        scratch = os.path.join(tmp, 'repo')
        try:
            subprocess.run(['git', 'clone', '-q', '/repo', scratch], check=True)
            r = subprocess.run(['git', '-C', scratch, 'apply', os.path.join(d, 'patch.diff')], capture_output=True, text=True)
            if r.returncode != 0:
                res = {'applies': False, 'stderr': r.stderr[-500:]}
            else:
                env = dict(os.environ, PYTHONPATH=scratch, JAX_PLATFORMS='cpu')
                demo = subprocess.run(['/venv/bin/python', os.path.join(d, 'demo.py')], cwd=scratch, env=env, capture_output=True, text=True, timeout=1800)
                t0 = time.time()
                env2 = dict(os.environ, DINOSAUR_REPO=scratch)
                chk = subprocess.run([os.path.join(VERIF, 'check'), prop, '--tier', tier], cwd=VERIF, env=env2, capture_output=True, text=True, timeout=7200)
                lines = [l for l in chk.stdout.splitlines() if l.startswith(('VIOLATION', 'KNOWN-FINDING', '[' + prop))]
                res = {'applies': True, 'demo_exit': demo.returncode, 'check_exit': chk.returncode, 'detected': chk.returncode == 1 and any(l.startswith('VIOLATION') for l in lines),
                       'with_failing_input': any(l.startswith('VIOLATION') and 'no-failing-input-found' not in l for l in lines),
                       'lines': lines[:6], 'tier': tier, 'wall_s': round(time.time() - t0, 1),
                       'stages': [l.strip()[:300] for l in chk.stdout.splitlines() if l.strip().startswith(('broken:', 'failing:'))][:4]}
            json.dump(res, open(os.path.join(d, 'result.json'), 'w'), indent=1)
            print(sid, prop, json.dumps({k: res.get(k) for k in ('applies', 'demo_exit', 'check_exit', 'detected', 'with_failing_input')}))
        finally:
            shutil.rmtree(tmp, ignore_errors=True)
    # leave evidence of the unchanged tree in place: re-run is the caller's job


if __name__ == '__main__':
    main()
