"""Small helpers shared by property plugins."""
import itertools
import numpy as np


def setup_jax():
    import jax
    jax.config.update('jax_enable_x64', True)
    return jax


def uneven_boundaries(rng, K, denom_bits=6):
    """Strictly increasing boundaries 0..1 with uneven integer-ratio thicknesses."""
    inc = rng.integers(1, 2 ** denom_bits, size=K).astype(np.int64)
    c = np.concatenate([[0], np.cumsum(inc)])
    return (c / c[-1]).astype(np.float64)


def small_rationals(rng, shape, lo=-16, hi=16, denom=8):
    return rng.integers(lo, hi + 1, size=shape).astype(np.float64) / denom


def columns(a, axis):
    """Yield (index_tuple, 1-D column) for every column of `a` along `axis`."""
    a = np.asarray(a)
    m = np.moveaxis(a, axis, -1)
    for idx in itertools.product(*[range(s) for s in m.shape[:-1]]):
        yield idx, m[idx]


def shape_with_axis(rng, K, ndim, axis, maxother=3):
    shape = [int(rng.integers(1, maxother + 1)) for _ in range(ndim)]
    shape[axis] = K
    return tuple(shape)
