"""Builders of small dynamical-core instances of the implementation (grids,
coordinate systems, equation objects, admissible random states, integrators and
filters) shared by the plugins of the properties that ride on whole tendencies
and steps (C05, C08, C10, C11, C12)."""
import functools
import numpy as np

from harness import util


def mods():
    util.setup_jax()
    import jax, jax.numpy as jnp
    from dinosaur import (spherical_harmonic as sh, sigma_coordinates as sc, coordinate_systems as cs,
                          primitive_equations as pe, shallow_water as sw, time_integration as ti,
                          filtering, scales, layer_coordinates as lc)
    return dict(jax=jax, jnp=jnp, sh=sh, sc=sc, cs=cs, pe=pe, sw=sw, ti=ti, filtering=filtering, scales=scales, lc=lc)


def grid(M=4, L=5, I=12, J=6, spacing='gauss', impl='real', radius=None, offset=0.0, **fast_kw):
    m = mods(); sh = m['sh']
    if impl == 'real':
        k = sh.RealSphericalHarmonics
    else:
        k = functools.partial(sh.FastSphericalHarmonics, **fast_kw) if fast_kw else sh.FastSphericalHarmonics
    return sh.Grid(longitude_wavenumbers=M, total_wavenumbers=L, longitude_nodes=I, latitude_nodes=J,
                   latitude_spacing=spacing, longitude_offset=offset, radius=radius, spherical_harmonics_impl=k)


def coords(g, boundaries):
    m = mods()
    return m['cs'].CoordinateSystem(g, m['sc'].SigmaCoordinates(np.asarray(boundaries, dtype=np.float64)))


def layer_coords(g, layers):
    m = mods()
    return m['cs'].CoordinateSystem(g, m['lc'].LayerCoordinates(layers))


def modal_field(rng, g, lead=(), degree=2, zero_mean=False, amp=1.0, denom=16):
    """Random band-limited real spectral field: coefficients only for l <= degree (< L-1),
    inside the triangular mask, small rationals (exactly representable)."""
    shape = tuple(lead) + tuple(g.modal_shape)
    x = rng.integers(-denom, denom + 1, size=shape).astype(np.float64) / denom * amp
    mm, ll = g.modal_mesh
    ok = np.asarray(g.mask) & (ll <= degree) & (ll < g.total_wavenumbers - 1)
    x = x * ok
    if zero_mean:
        x[..., 0, 0] = 0.0
    return x


def pe_state(rng, c, degree=2, tracers=(), with_time=False, amp=None, lnps0=0.0):
    """Admissible primitive-equation state: zero-mean vorticity/divergence, top wavenumber clipped."""
    m = mods(); pe = m['pe']; g = c.horizontal; K = c.vertical.layers
    amp = amp or dict(vort=0.1, div=0.02, T=2.0, lnps=0.05, tr=0.01)
    lnps = modal_field(rng, g, (1,), degree, amp=amp['lnps']); lnps[0, 0, 0] = lnps0
    kw = dict(vorticity=modal_field(rng, g, (K,), degree, True, amp['vort']),
              divergence=modal_field(rng, g, (K,), degree, True, amp['div']),
              temperature_variation=modal_field(rng, g, (K,), degree, False, amp['T']),
              log_surface_pressure=lnps,
              tracers={t: modal_field(rng, g, (K,), degree, False, amp['tr']) for t in tracers})
    return pe.StateWithTime(sim_time=0.0, **kw) if with_time else pe.State(**kw)


def pe_specs(scale=None):
    m = mods()
    return m['pe'].PrimitiveEquationsSpecs.from_si(scale=scale) if scale is not None else m['pe'].PrimitiveEquationsSpecs.from_si()


PE_CLASSES = {'dry': 'PrimitiveEquations', 'time': 'PrimitiveEquationsWithTime', 'moist': 'MoistPrimitiveEquations',
              'cloud': 'MoistPrimitiveEquationsWithCloudMoisture'}
PE_TRACERS = {'dry': (), 'time': (), 'moist': ('specific_humidity',),
              'cloud': ('specific_humidity', 'specific_cloud_liquid_water_content', 'specific_cloud_ice_water_content')}


def pe_equation(kind, c, specs, tref, orography=None, **kw):
    m = mods(); pe = m['pe']
    if orography is None:
        orography = np.zeros(c.horizontal.modal_shape)
    return getattr(pe, PE_CLASSES[kind])(np.asarray(tref, dtype=np.float64), orography, c, specs, **kw)


def sw_equation(c, densities, ref_potential, orography=None, radius=1.0, omega=1.0, g=1.0):
    m = mods(); sw = m['sw']
    specs = sw.ShallowWaterSpecs(np.asarray(densities, dtype=np.float64), radius, omega, g, m['scales'].DEFAULT_SCALE)
    if orography is None:
        orography = np.zeros(c.horizontal.modal_shape)
    return sw.ShallowWaterEquations(c, specs, orography, np.asarray(ref_potential, dtype=np.float64))


def sw_state(rng, c, degree=2, amp=None):
    m = mods(); sw = m['sw']; g = c.horizontal; K = c.vertical.layers
    amp = amp or dict(vort=0.1, div=0.02, pot=0.1)
    return sw.State(vorticity=modal_field(rng, g, (K,), degree, True, amp['vort']),
                    divergence=modal_field(rng, g, (K,), degree, True, amp['div']),
                    potential=modal_field(rng, g, (K,), degree, False, amp['pot']))


INTEGRATORS = ('backward_forward_euler', 'crank_nicolson_rk2', 'crank_nicolson_rk3', 'crank_nicolson_rk4', 'imex_rk_sil3')


def integrator(name, eq, dt):
    m = mods(); ti = m['ti']
    return getattr(ti, name)(eq, dt)


def step_filters(names, g, dt):
    """names: subset of ('exponential', 'diffusion')."""
    m = mods(); ti = m['ti']
    out = []
    for n in names:
        if n == 'exponential':
            out.append(ti.exponential_step_filter(g, dt, tau=10 * dt, order=3))
        elif n == 'diffusion':
            out.append(ti.horizontal_diffusion_step_filter(g, dt, tau=20 * dt, order=1))
        else:
            raise ValueError(n)
    return out


def tree_leaves(x):
    m = mods()
    return m['jax'].tree_util.tree_leaves(x)


def tree_to_np(x):
    m = mods()
    return m['jax'].tree_util.tree_map(lambda a: np.asarray(a, dtype=np.float64), x)


def tree_vdot(a, b):
    la, lb = tree_leaves(a), tree_leaves(b)
    return float(sum(np.vdot(np.asarray(x, dtype=np.float64), np.asarray(y, dtype=np.float64)) for x, y in zip(la, lb)))


def tree_maxabs(a):
    return max([float(np.max(np.abs(np.asarray(x, dtype=np.float64)))) if np.size(x) else 0.0 for x in tree_leaves(a)] + [0.0])


def tree_all_finite(a):
    return all(bool(np.all(np.isfinite(np.asarray(x, dtype=np.float64)))) for x in tree_leaves(a))
