"""Shared machinery of the /verif checks: Coq build, extracted-model client,
comparison policy, verdict, evidence.  See DESIGN.md sections 1.1, 2.4."""
from __future__ import annotations
import fcntl, hashlib, json, math, os, re, subprocess, sys, time
from fractions import Fraction

VERIF = os.path.dirname(os.path.dirname(os.path.dirname(os.path.abspath(__file__))))
COQ = os.path.join(VERIF, 'coq')
REPO = os.environ.get('DINOSAUR_REPO', '/repo')
def driver_path(prop_id): return os.path.join(COQ, 'Extract', 'ml', prop_id, 'driver')

ALLOWED_AXIOMS = {
    # real-number axioms of the standard library (statements instantiated at R)
    'ClassicalDedekindReals.sig_forall_dec', 'ClassicalDedekindReals.sig_not_dec',
    'FunctionalExtensionality.functional_extensionality_dep',
    'Classical_Prop.classic',
}
ALLOWED_AXIOM_PREFIXES = ('FloatAxioms.', 'PrimFloat.', 'Uint63.', 'PrimInt63.', 'Coq.Floats.', 'Uint63Axioms.', 'Sint63Axioms.')
FORBIDDEN = re.compile(r'\b(Admitted|admit|Axiom|Axioms|Parameter|Parameters|Conjecture|Conjectures|Abort All)\b|Unset\s+Guard|bypass_check|type-in-type|impredicative-set|Admit\s+Obligations|Unset\s+Positivity|Unset\s+Universe')


def sh(cmd, timeout=1800, cwd=None, env=None):
    p = subprocess.run(cmd, shell=True, cwd=cwd, env=env, stdout=subprocess.PIPE,
                       stderr=subprocess.STDOUT, timeout=timeout, text=True)
    return p.returncode, p.stdout


# ---------------------------------------------------------------------------
# Coq build
# ---------------------------------------------------------------------------
class BuildResult:
    def __init__(self):
        self.ok = True
        self.log = ''
        self.failed = []          # names of obligations (files / theorems) that no longer check
        self.assumptions = {}     # theorem -> list of axioms
        self.bad_axioms = {}      # theorem -> list of disallowed axioms
        self.gate = []            # forbidden-token hits
        self.gen = {}             # translator report
        self.wall = 0.0


def coq_files():
    out = []
    for d in ('Base', 'Gen', 'Model', 'Thm', 'Prop', 'Extract'):
        p = os.path.join(COQ, d)
        if os.path.isdir(p):
            for f in sorted(os.listdir(p)):
                if f.endswith('.v'):
                    out.append(f'{d}/{f}')
    return out


def _strip_comments(s):
    out = []; depth = 0; i = 0
    while i < len(s):
        if s.startswith('(*', i): depth += 1; i += 2; continue
        if s.startswith('*)', i) and depth: depth -= 1; i += 2; continue
        if not depth: out.append(s[i])
        i += 1
    return ''.join(out)


def forbidden_gate():
    hits = []
    for f in coq_files():
        try:
            src = _strip_comments(open(os.path.join(COQ, f)).read())
        except FileNotFoundError:      # a temporary file of a concurrent builder disappeared
            continue
        for m in FORBIDDEN.finditer(src):
            hits.append(f'{f}: {m.group(0)}')
    proj = open(os.path.join(COQ, '_CoqProject')).read()
    for bad in ('type-in-type', 'impredicative-set', 'bypass'):
        if bad in proj: hits.append(f'_CoqProject: {bad}')
    return hits


def write_if_changed(path, text):
    if os.path.exists(path) and open(path).read() == text:
        return False
    with open(path, 'w') as f: f.write(text)
    return True


def regen(res):
    """Regenerate coq/Gen/*.v from the current /repo working tree."""
    sys.path.insert(0, os.path.join(VERIF, 'tools'))
    try:
        from translate import gen_all
        res.gen = gen_all.generate(REPO, os.path.join(COQ, 'Gen'))
    except Exception as e:  # translator gap: recorded, never fatal by itself
        res.gen = {'error': repr(e)}


def parse_print_assumptions(out, theorems):
    """coqc prints, per `Print Assumptions`, either 'Closed under the global
    context' or 'Axioms:' followed by 'name : type' lines."""
    blocks = []
    cur = None
    for line in out.splitlines():
        if line.startswith('Closed under the global context'):
            if cur is not None: blocks.append(cur)
            blocks.append([]); cur = None
        elif line.startswith('Axioms:'):
            if cur is not None: blocks.append(cur)
            cur = []
        elif cur is not None:
            m = re.match(r'^([A-Za-z_][\w\.\']*)\s*$', line) or re.match(r'^([A-Za-z_][\w\.\']*)\s+:', line)
            if m and not line.startswith(' '): cur.append(m.group(1))
    if cur is not None: blocks.append(cur)
    return blocks


def build(prop_id, theorems, tier='quick', extra_targets=()):
    """Regenerate Gen, build Prop/<id>.vo and the extracted driver under a lock;
    returns BuildResult."""
    t0 = time.time()
    res = BuildResult()
    os.makedirs(os.path.join(COQ, 'Gen'), exist_ok=True)
    lock = open(os.path.join(VERIF, '.build.lock'), 'w')
    fcntl.flock(lock, fcntl.LOCK_EX)
    try:
        regen(res)
        files = coq_files()
        proj = ('-Q . Dino\n-arg -w -arg -notation-overridden,-ambiguous-paths,'
                '-deprecated-hint-without-locality,-deprecated-instance-without-locality,-deprecated-hint-rewrite-without-locality\n'
                + '\n'.join(files) + '\n')
        changed = write_if_changed(os.path.join(COQ, '_CoqProject'), proj)
        if changed or not os.path.exists(os.path.join(COQ, 'Makefile')):
            rc, out = sh('coq_makefile -f _CoqProject -o Makefile', cwd=COQ, timeout=120)
            res.log += out
        res.gate = forbidden_gate()
        if res.gate:
            res.ok = False; res.failed.append('forbidden-token gate: ' + '; '.join(res.gate))
        if tier == 'thorough' and os.environ.get('VERIF_CLEAN', '1') == '1' and prop_id is not None:
            sh(f'rm -f Prop/{prop_id}.vo Prop/{prop_id}.glob', cwd=COQ)
        # 1. the extracted model (definitions only; must build even when a proof breaks)
        if prop_id is not None:
            ml = os.path.join(COQ, 'Extract', 'ml', prop_id)
            os.makedirs(ml, exist_ok=True)
            rc, out = sh(f'timeout 1500 make -j16 Extract/Ex{prop_id}.vo 2>&1 | tail -40', cwd=COQ, timeout=1600)
            res.log += out
            drv = driver_path(prop_id)
            if not os.path.exists(os.path.join(COQ, 'Extract', f'Ex{prop_id}.vo')) or not os.path.exists(os.path.join(ml, 'dispatch.ml')):
                res.ok = False; res.failed.append(f'model build (Extract/Ex{prop_id}.vo): ' + out[-800:])
                if os.path.exists(drv): os.remove(drv)
            else:
                dsrc = os.path.join(COQ, 'Extract', 'ml', 'driver.ml')
                need = (not os.path.exists(drv) or
                        os.path.getmtime(drv) < max(os.path.getmtime(os.path.join(ml, 'dispatch.ml')), os.path.getmtime(dsrc)))
                if need:
                    rc, out = sh('cp ../driver.ml . && ocamlfind ocamlopt -w -a -o driver dispatch.mli dispatch.ml driver.ml 2>&1 | tail -20',
                                 cwd=ml, timeout=600)
                    res.log += out
                    if rc != 0 or not os.path.exists(drv):
                        res.ok = False; res.failed.append('ocaml driver build: ' + out[-500:])
        # 2. the property's theorems
        if prop_id is not None:
            tgt = f'Prop/{prop_id}.vo'
            rc, out = sh(f'timeout 1500 make -j16 {tgt} {" ".join(extra_targets)} 2>&1 | tail -60', cwd=COQ, timeout=1600)
            res.log += out
            if not os.path.exists(os.path.join(COQ, tgt)) or 'Error' in out:
                res.ok = False
                m = re.findall(r'File "\./([^"]+)", line (\d+)', out)
                res.failed.append(f'proof build {tgt}: ' + (', '.join(f'{a}:{b}' for a, b in m) or out[-600:]))
            else:
                rc, out = sh(f'timeout 600 coqc -q -Q . Dino -w -all Prop/{prop_id}.v', cwd=COQ, timeout=700)
                if rc != 0:
                    res.ok = False; res.failed.append(f'coqc Prop/{prop_id}.v: ' + out[-600:])
                else:
                    blocks = parse_print_assumptions(out, theorems)
                    if theorems and len(blocks) != len(theorems):
                        res.ok = False
                        res.failed.append(f'Print Assumptions: expected {len(theorems)} blocks, got {len(blocks)}')
                    for th, ax in zip(theorems, blocks):
                        res.assumptions[th] = ax
                        bad = [a for a in ax if a not in ALLOWED_AXIOMS and not a.startswith(ALLOWED_AXIOM_PREFIXES)]
                        if bad:
                            res.ok = False; res.bad_axioms[th] = bad
                            res.failed.append(f'theorem {th} depends on disallowed axioms {bad}')
                if tier == 'thorough' and os.environ.get('VERIF_COQCHK', '1') == '1':
                    # independent re-check of the compiled property file and everything it depends on
                    p = subprocess.run(f'timeout 3000 coqchk -silent -o -Q . Dino Dino.Prop.{prop_id}', shell=True, cwd=COQ,
                                       stdout=subprocess.PIPE, stderr=subprocess.STDOUT, text=True, timeout=3100)
                    out = p.stdout
                    res.log += out[-3000:]
                    res.coqchk = out[-3000:]
                    summ = out[out.find('CONTEXT SUMMARY'):] if 'CONTEXT SUMMARY' in out else ''
                    ok = (p.returncode == 0 and summ != '' and
                          re.search(r'type-in-type:\s*<none>', summ) is not None and
                          re.search(r'unsafe \(co\)fixpoints:\s*<none>', summ) is not None and
                          re.search(r'positivity is assumed:\s*<none>', summ) is not None)
                    ax = []
                    m = re.search(r'\* Axioms:(.*?)\n\s*\n\* ', summ, re.S)
                    if m:
                        ax = [a.strip() for a in m.group(1).split('\n') if a.strip() and a.strip() != '<none>']
                    res.coqchk_axioms = ax
                    badax = [a for a in ax if (a[4:] if a.startswith('Coq.') else a) not in
                             {('Logic.' + x) if x.startswith(('Classical_Prop', 'FunctionalExtensionality')) else ('Reals.' + x) for x in ALLOWED_AXIOMS}
                             and not any(t in a for t in ('Floats.', 'PrimFloat', 'Uint63', 'PrimInt63', 'Sint63', 'FloatAxioms', 'Numbers.Cyclic'))
                             and not a.startswith(('Coq.Logic.', 'Coq.Reals.', 'Coq.Floats.', 'Coq.Numbers.', 'Flocq.', 'Coquelicot.', 'Interval.'))]
                    if not ok or badax:
                        res.ok = False; res.failed.append(f'coqchk (exit {p.returncode}) bad axioms {badax}: ' + summ[-600:] + out[-300:])
    finally:
        fcntl.flock(lock, fcntl.LOCK_UN); lock.close()
    res.wall = time.time() - t0
    return res


# ---------------------------------------------------------------------------
# Extracted model client
# ---------------------------------------------------------------------------
def fr(x) -> Fraction:
    """Exact rational value of a python/numpy number (floats are dyadic)."""
    if isinstance(x, Fraction): return x
    if isinstance(x, bool): return Fraction(int(x))
    if isinstance(x, int): return Fraction(x)
    import numpy as np
    if isinstance(x, (np.integer,)): return Fraction(int(x))
    if isinstance(x, (np.bool_,)): return Fraction(int(bool(x)))
    return Fraction(float(x))


def _hexint(n: int) -> str:
    return ('-' if n < 0 else '') + format(abs(n), 'x')


def _hexq(q: Fraction) -> str:
    return _hexint(q.numerator) if q.denominator == 1 else _hexint(q.numerator) + '/' + format(q.denominator, 'x')


def _parseq(s: str) -> Fraction:
    if '/' in s:
        a, b = s.split('/'); return Fraction(int(a, 16), int(b, 16))
    return Fraction(int(s, 16))


class Model:
    def __init__(self, prop_id: str):
        self.prop = int(prop_id[1:])
        # the extracted models recurse on lists / naturals (not tail-recursive): long axes (L = 600 total wavenumbers,
        # 1030 levels) need more than the 8 MB default stack.  Raised for the driver process only.
        def _big_stack():
            import resource
            soft, hard = resource.getrlimit(resource.RLIMIT_STACK)
            for want in (resource.RLIM_INFINITY, 1 << 32, 1 << 30, 1 << 28):
                try:
                    if hard != resource.RLIM_INFINITY and (want == resource.RLIM_INFINITY or want > hard): want = hard
                    resource.setrlimit(resource.RLIMIT_STACK, (want, hard)); return
                except (ValueError, OSError):
                    continue
        self.p = subprocess.Popen([driver_path(prop_id)], stdin=subprocess.PIPE, stdout=subprocess.PIPE, text=True, bufsize=1,
                                  preexec_fn=_big_stack)
        self._big_stack = _big_stack
        self.calls = 0

    def call(self, cmd: int, ints=(), arrs=()):
        """ints: iterable of int; arrs: iterable of iterables of numbers (exactly converted)."""
        if self.p.poll() is not None:
            # the driver died on an earlier case (reported there): restart it so that one failing case does not
            # turn every later comparison into a follow-on error
            self.p = subprocess.Popen([driver_path('C%02d' % self.prop)], stdin=subprocess.PIPE, stdout=subprocess.PIPE, text=True,
                                      bufsize=1, preexec_fn=self._big_stack)
        line = (f'{_hexint(self.prop)} {_hexint(cmd)} | ' + ' '.join(_hexint(int(i)) for i in ints) + ' | ' +
                ' ; '.join(','.join(_hexq(fr(v)) for v in a) for a in arrs) + '\n')
        self.p.stdin.write(line); self.p.stdin.flush()
        out = self.p.stdout.readline()
        self.calls += 1
        if not out: raise RuntimeError('model driver died')
        out = out.strip()
        if out == 'N': return None
        if out.startswith('S'):
            return [_parseq(t) for t in out[1:].split()]
        raise RuntimeError('model driver: ' + out)

    def close(self):
        try: self.p.stdin.close(); self.p.wait(timeout=5)
        except Exception: self.p.kill()


# ---------------------------------------------------------------------------
# Check context: comparison, recording, verdict
# ---------------------------------------------------------------------------
def jsonable(x):
    import numpy as np
    if isinstance(x, Fraction): return str(x)
    if isinstance(x, (np.ndarray,)): return jsonable(x.tolist())
    if isinstance(x, (np.floating,)): return float(x)
    if isinstance(x, (np.integer,)): return int(x)
    if isinstance(x, (np.bool_,)): return bool(x)
    if isinstance(x, dict): return {str(k): jsonable(v) for k, v in x.items()}
    if isinstance(x, (list, tuple)): return [jsonable(v) for v in x]
    if isinstance(x, float) and (math.isnan(x) or math.isinf(x)): return repr(x)
    if hasattr(x, '__array__') and not isinstance(x, (str, bytes)):      # jax arrays and other array-likes in args / details
        try: return jsonable(np.asarray(x))
        except Exception: return repr(x)
    return x


class Ctx:
    def __init__(self, prop_id, tier, seed, level='proof'):
        import numpy as np
        self.id = prop_id; self.tier = tier; self.seed = seed; self.level = level
        self.rng = np.random.Generator(np.random.PCG64(seed))
        self.model = None
        self.cur = None                  # (runner, args) of the case being run
        self.cases = 0; self.case_keys = set(); self.nontrivial = set()
        self.comparisons = 0
        self.mismatches = []             # model vs implementation
        self.oracle_failures = []        # property statement fails on the implementation
        self.to_results = []             # table obligations
        self.samples = []
        self.dist = {}
        self.notes = []
        self.tol_rel = 2.0 ** -36

    # -- bookkeeping -------------------------------------------------------
    def count(self, key, n=1): self.dist[key] = self.dist.get(key, 0) + n

    def begin_case(self, runner, args, nontrivial=True):
        self.cur = (runner, args); self.cases += 1
        k = hashlib.sha1(json.dumps([runner, jsonable(args)], sort_keys=True).encode()).hexdigest()
        self.case_keys.add(k)
        if nontrivial: self.nontrivial.add(k)
        self.count('runner:' + runner)
        if len(self.samples) < 6 and not any(s['runner'] == runner for s in self.samples):
            self.samples.append({'runner': runner, 'args': jsonable(args)})

    def _where(self):
        r, a = self.cur if self.cur else ('?', None)
        return {'runner': r, 'args': jsonable(a)}

    # -- correspondence ----------------------------------------------------
    def corr(self, name, impl, model, scale=None, tol_rel=None, tol_abs=0.0):
        """impl: array-like of floats (implementation); model: list of Fraction
        (exact model value) or None; entrywise |impl-model| <= tol_rel*scale+tol_abs."""
        import numpy as np
        self.comparisons += 1
        impl = np.asarray(impl, dtype=np.float64).ravel()
        if model is None:
            self.mismatches.append(dict(self._where(), what=name, detail='model returned None')); return False
        if len(model) != impl.size:
            self.mismatches.append(dict(self._where(), what=name,
                                        detail=f'shape: impl {impl.size} vs model {len(model)}')); return False
        mod = np.array([float(m) for m in model], dtype=np.float64)
        if scale is None:
            fin = np.abs(mod[np.isfinite(mod)])
            scale = max(float(fin.max()) if fin.size else 0.0, 1e-300)
        tr = self.tol_rel if tol_rel is None else tol_rel
        err = np.abs(impl - mod)
        bad = ~(err <= tr * scale + tol_abs)      # NaN in impl counts as mismatch
        if bad.any():
            i = int(np.argmax(np.where(np.isnan(err), np.inf, err)))
            self.mismatches.append(dict(self._where(), what=name, index=i, impl=float(impl[i]), model=float(mod[i]),
                                        scale=float(scale), tol=float(tr * scale + tol_abs)))
            return False
        return True

    def exact(self, name, impl, model):
        """Structural outputs: exact equality after canonicalisation to python values."""
        self.comparisons += 1
        a = jsonable(impl); b = jsonable(model)
        if a != b:
            self.mismatches.append(dict(self._where(), what=name, impl=a, model=b)); return False
        return True

    # -- property oracles on the implementation ---------------------------
    def oracle(self, clause, ok, detail=None):
        self.comparisons += 1
        if not ok:
            self.oracle_failures.append(dict(self._where(), clause=clause, detail=jsonable(detail)))
        return ok

    def oracle_close(self, clause, a, b, scale=None, tol_rel=None, tol_abs=0.0):
        import numpy as np
        a = np.asarray(a, dtype=np.float64); b = np.asarray(b, dtype=np.float64)
        if a.shape != b.shape:
            return self.oracle(clause, False, f'shapes {a.shape} vs {b.shape}')
        if scale is None:
            scale = max(float(np.nanmax(np.abs(a))) if a.size else 0.0, float(np.nanmax(np.abs(b))) if b.size else 0.0, 1e-300)
        tr = self.tol_rel if tol_rel is None else tol_rel
        err = np.abs(a - b)
        ok = bool(np.all(err <= tr * scale + tol_abs))
        det = None
        if not ok:
            e = np.where(np.isnan(err), np.inf, err)
            i = np.unravel_index(int(np.argmax(e)), e.shape) if e.ndim else ()
            det = {'index': [int(t) for t in i], 'lhs': float(a[i]), 'rhs': float(b[i]), 'tol': float(tr * scale + tol_abs)}
        return self.oracle(clause, ok, det)

    def table_obligation(self, name, ok, detail=None):
        self.to_results.append({'name': name, 'ok': bool(ok), 'detail': jsonable(detail), **self._where()})
        return ok


# ---------------------------------------------------------------------------
def load_known():
    p = os.path.join(VERIF, 'known_findings.json')
    if not os.path.exists(p): return []
    return json.load(open(p))


def finding_key(f):
    """A finding is identified by property + clause + runner + canonical args."""
    return json.dumps([f.get('clause'), f.get('runner'), f.get('args')], sort_keys=True)


def finish(ctx: Ctx, bres: BuildResult, theorems, t0, level_text='', replay_mode=False):
    # evidence of /repo itself lives in /verif/evidence; a run against a scratch tree
    # (DINOSAUR_REPO=..., mutation self-tests, seeded changes) must never overwrite it
    evdir = os.environ.get('VERIF_EVIDENCE_DIR') or (os.path.join(VERIF, 'evidence') if os.path.realpath(REPO) == '/repo'
                                                     else os.path.join(VERIF, 'replay', 'scratch-evidence'))
    os.makedirs(evdir, exist_ok=True)
    os.makedirs(os.path.join(VERIF, 'replay'), exist_ok=True)
    known = [k for k in load_known() if k.get('property') == ctx.id and k.get('status') == 'known']
    known_keys = {json.dumps(k['key'], sort_keys=True): k for k in known}
    lines = []; exit_code = 0
    new_failures = []; seen_known = set()
    for f in ctx.oracle_failures:
        kk = finding_key(f)
        if kk in known_keys: seen_known.add(kk)
        else: new_failures.append(f)
    for kk in seen_known:
        lines.append(f'KNOWN-FINDING: property={ctx.id} {known_keys[kk].get("what", "")}')
    broken = list(bres.failed)
    broken += [f'table obligation {t["name"]}: {t["detail"]}' for t in ctx.to_results if not t['ok']]
    if ctx.mismatches:
        broken.append(f'correspondence: {len(ctx.mismatches)} mismatching comparisons, first: {json.dumps(jsonable(ctx.mismatches[0]))[:600]}')
    nviol = 0
    def write_replay(obj):
        obj = jsonable(obj)
        h = hashlib.sha1(json.dumps(obj, sort_keys=True).encode()).hexdigest()[:12]
        path = os.path.join(VERIF, 'replay', f'{ctx.id}-{h}.json')
        with open(path, 'w') as fh: json.dump(obj, fh, indent=1)
        return path
    if new_failures:
        # group by clause; report the first of each clause
        byc = {}
        for f in new_failures: byc.setdefault(f['clause'], f)
        for clause, f in byc.items():
            path = write_replay({'property': ctx.id, 'kind': 'failing-input', 'clause': clause, 'runner': f['runner'],
                                 'args': f['args'], 'detail': f['detail'], 'seed': ctx.seed, 'tier': ctx.tier,
                                 'broken_obligations': broken})
            lines.append(f'VIOLATION property={ctx.id} replay={path}')
            nviol += 1
        exit_code = 1
    elif broken:
        first = ctx.mismatches[0] if ctx.mismatches else None
        path = write_replay({'property': ctx.id, 'kind': 'obligation-broken', 'broken_obligations': broken,
                             'first_mismatch': first, 'runner': first['runner'] if first else None,
                             'args': first['args'] if first else None, 'seed': ctx.seed, 'tier': ctx.tier})
        lines.append(f'VIOLATION property={ctx.id} replay={path} no-failing-input-found')
        nviol += 1; exit_code = 1
    n_thm = len(theorems); n_to = len(ctx.to_results)
    discharged = sum(1 for t in theorems if t in bres.assumptions and t not in bres.bad_axioms) if not any(
        s.startswith(('proof build', 'coqc Prop', 'forbidden')) for s in bres.failed) else 0
    discharged += sum(1 for t in ctx.to_results if t['ok'])
    axioms = sorted({a for ax in bres.assumptions.values() for a in ax})
    ev = {
        'property_id': ctx.id, 'tier': ctx.tier, 'seed': ctx.seed, 'level': ctx.level,
        'coverage': {
            'obligations': max(1, n_thm + n_to), 'discharged': discharged,
            'checker_cmd': f'cd /verif/coq && make Prop/{ctx.id}.vo && coqc -Q . Dino Prop/{ctx.id}.v  (Print Assumptions)'
                           + ('; coqchk -o' if ctx.tier == 'thorough' else ''),
            'trusted_base': ['Coq 8.16.1 kernel (coqc, vm_compute; no native_compute)',
                             'axioms reported by Print Assumptions: ' + (', '.join(axioms) if axioms else 'none (closed under the global context)'),
                             'extraction (ExtrOcamlBasic only) + OCaml 4.13.1 + Extract/ml/driver.ml (hex I/O, no arithmetic)',
                             'translator tools/translate (Gen/*.v regenerated from /repo this run)',
                             'correspondence harness tools/props/%s.py with tolerance policy of DESIGN.md 2.4' % ctx.id,
                             'numpy/JAX/XLA CPU float64 semantics of the implementation'],
            'theorems': {t: bres.assumptions.get(t, 'NOT CHECKED') for t in theorems},
            'table_obligations': n_to, 'table_obligations_ok': sum(1 for t in ctx.to_results if t['ok']),
            'evaluations': max(1, ctx.cases), 'distinct_nontrivial': len(ctx.nontrivial),
            'rule': 'cases are (runner,args) pairs derived from one PCG64(seed); distinct = distinct sha1 of canonical args; '
                    'non-trivial = flagged by the generator (sizes > 1, non-constant data, uneven levels)',
            'comparisons': ctx.comparisons, 'model_calls': ctx.model.calls if ctx.model else 0,
            'correspondence_mismatches': len(ctx.mismatches), 'oracle_failures': len(ctx.oracle_failures),
            'known_findings_seen': len(seen_known),
            'input_distribution': ctx.dist, 'samples': ctx.samples or [{'note': 'no cases run'}],
            'translator': bres.gen, 'notes': ctx.notes, 'coq_build_s': round(bres.wall, 2),
            'broken_obligations': broken,
        },
        'assumptions': [level_text] if level_text else [],
        'wall_s': round(time.time() - t0, 2), 'violations': nviol,
    }
    if not replay_mode:
        with open(os.path.join(evdir, f'{ctx.id}.json'), 'w') as fh:
            json.dump(jsonable(ev), fh, indent=1)
    for l in lines: print(l)
    print(f'[{ctx.id}] tier={ctx.tier} seed={ctx.seed} cases={ctx.cases} comparisons={ctx.comparisons} '
          f'theorems={n_thm} TO={n_to} mismatches={len(ctx.mismatches)} oracle_failures={len(ctx.oracle_failures)} '
          f'broken={len(broken)} wall={time.time()-t0:.1f}s exit={exit_code}')
    if broken:
        for b in broken[:5]: print('  broken:', b[:400])
    for f in new_failures[:3]: print('  failing:', json.dumps(jsonable(f))[:500])
    return exit_code
