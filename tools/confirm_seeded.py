"""Confirms a candidate seeded change and files it under /verif/seeded/<id>/.
usage: tools/confirm_seeded.py <property> <candidate_dir> <seed_id> [--fast]
Confirms in a scratch clone of /repo (outside /repo and /verif): patch applies;
demo exits 0 on the clean tree and 1 with the patch; the repository's test suite
(unedited) passes with the patch (395 stable tests; the two pre-existing
filtering_test failures and the regrid_test collection error are ignored).
--fast runs only the test files of the touched modules (marked in confirm.json)."""
import json, os, re, shutil, subprocess, sys, tempfile, time
VERIF = os.path.dirname(os.path.dirname(os.path.abspath(__file__)))


def run(cmd, **kw):
    return subprocess.run(cmd, shell=True, capture_output=True, text=True, **kw)


def main():
    prop, cand, sid = sys.argv[1:4]
    fast = '--fast' in sys.argv
    dst = os.path.join(VERIF, 'seeded', sid)
    os.makedirs(dst, exist_ok=True)
    for f in ('patch.diff', 'demo.py', 'notes.md'):
        if os.path.exists(os.path.join(cand, f)):
            shutil.copy(os.path.join(cand, f), os.path.join(dst, f))
    tmp = tempfile.mkdtemp(prefix='seedconf_')
    scratch = os.path.join(tmp, 'repo')
    res = {'property': prop, 'confirmed_at_repo_commit': run('git -C /repo rev-parse --short HEAD').stdout.strip()}
    try:
        run(f'git clone -q /repo {scratch}')
        env = dict(os.environ, PYTHONPATH=scratch, JAX_PLATFORMS='cpu')
        env.pop('XLA_FLAGS', None)
        d0 = run(f'/venv/bin/python {dst}/demo.py', cwd=scratch, env=env, timeout=3600)
        res['demo_clean_exit'] = d0.returncode
        ap = run(f'git -C {scratch} apply {dst}/patch.diff')
        res['applies'] = ap.returncode == 0
        if not res['applies']:
            res['apply_err'] = ap.stderr[-400:]
        else:
            d1 = run(f'/venv/bin/python {dst}/demo.py', cwd=scratch, env=env, timeout=3600)
            res['demo_patched_exit'] = d1.returncode
            res['demo_patched_tail'] = d1.stdout[-600:]
            files = re.findall(r'^\+\+\+ b/(\S+)', open(os.path.join(dst, 'patch.diff')).read(), re.M)
            res['files'] = files
            t0 = time.time()
            if fast:
                tests = sorted({f[:-3] + '_test.py' for f in files if os.path.exists(os.path.join(scratch, f[:-3] + '_test.py'))})
                target = ' '.join(tests) or 'dinosaur'
            else:
                target = ''
            t = run(f'/venv/bin/python -m pytest -q -p no:cacheprovider --timeout=1800 --continue-on-collection-errors {target} 2>&1 | tail -8',
                    cwd=scratch, env=dict(env, PYTHONPATH=scratch), timeout=4 * 3600)
            res['suite'] = 'relevant test files only: ' + target if fast else 'full suite'
            res['suite_tail'] = t.stdout[-700:]
            m = re.search(r'(?:(\d+) failed, )?(\d+) passed', t.stdout)
            failed_names = re.findall(r'^FAILED (\S+)', t.stdout, re.M)
            known = {'dinosaur/filtering_test.py::FilteringTest::test_time_filter_variation0',
                     'dinosaur/filtering_test.py::FilteringTest::test_time_filter_variation1'}
            res['suite_passed'] = int(m.group(2)) if m else None
            res['suite_new_failures'] = [f for f in failed_names if f not in known]
            res['suite_ok'] = bool(m) and not res['suite_new_failures'] and (fast or int(m.group(2)) >= 395)
            res['suite_wall_s'] = round(time.time() - t0)
        res['confirmed'] = bool(res.get('applies') and res.get('demo_clean_exit') == 0 and res.get('demo_patched_exit') == 1 and res.get('suite_ok'))
    finally:
        shutil.rmtree(tmp, ignore_errors=True)
    json.dump(res, open(os.path.join(dst, 'confirm.json'), 'w'), indent=1)
    notes = open(os.path.join(dst, 'notes.md')).read() if os.path.exists(os.path.join(dst, 'notes.md')) else ''
    meta_p = os.path.join(dst, 'meta.json')
    meta = json.load(open(meta_p)) if os.path.exists(meta_p) else {}
    meta.update({'property': prop, 'origin': 'independent sub-agent given only the property text and a scratch worktree',
                 'what_ran': {'demo_clean_exit': res.get('demo_clean_exit'), 'demo_patched_exit': res.get('demo_patched_exit'),
                              'suite': res.get('suite'), 'suite_passed': res.get('suite_passed'), 'suite_new_failures': res.get('suite_new_failures')},
                 'confirmed': res['confirmed']})
    meta.setdefault('needs_to_manifest', notes[:1500])
    json.dump(meta, open(meta_p, 'w'), indent=1)
    print(sid, json.dumps({k: res.get(k) for k in ('applies', 'demo_clean_exit', 'demo_patched_exit', 'suite_passed', 'suite_new_failures', 'confirmed')}))


if __name__ == '__main__':
    main()
