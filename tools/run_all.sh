#!/bin/bash
# Runs every claimed check (MANIFEST.json) at the given tier, N at a time; prints a summary.
# usage: tools/run_all.sh [quick|thorough] [parallel]
cd "$(dirname "$0")/.."
tier=${1:-quick}; par=${2:-4}
mkdir -p /tmp/verif_runall
ids=$(/venv/bin/python -c "import json; print(' '.join(c['property_id'] for c in json.load(open('MANIFEST.json'))['checks']))")
echo "$ids" | tr ' ' '\n' | xargs -P "$par" -I{} bash -c "start=\$(date +%s); ./check {} --tier $tier > /tmp/verif_runall/{}.$tier.log 2>&1; rc=\$?; echo {} exit=\$rc wall=\$((\$(date +%s)-start))s \$(grep -c '^VIOLATION' /tmp/verif_runall/{}.$tier.log) violations \$(grep -c '^KNOWN-FINDING' /tmp/verif_runall/{}.$tier.log) known"
