"""MANIFEST.setup_cmd: regenerate Gen/, build every Coq file and the extracted driver."""
import os, sys
sys.path.insert(0, os.path.dirname(os.path.abspath(__file__)))
from harness import core

import re
ids = sorted(f[:-3] for f in os.listdir(os.path.join(core.VERIF, 'tools', 'props')) if re.fullmatch(r'C\d+\.py', f))
res = core.BuildResult()
for i in ids:
    r = core.build(i, [], 'quick')   # builds Extract/Ex<i>.vo, the driver and Prop/<i>.vo
    if not r.ok:
        res.ok = False; res.failed += [f'{i}: {x}' for x in r.failed]
rc, out = core.sh('timeout 3000 make -k -j16 2>&1 | tail -30', cwd=core.COQ, timeout=3100)
print(out)
print('model/driver build ok' if res.ok else 'BUILD PROBLEM: %s' % res.failed)
sys.exit(0 if res.ok else 1)
