"""MANIFEST.setup_cmd: regenerate Gen/, build every Coq file and the extracted driver."""
import os, sys
sys.path.insert(0, os.path.dirname(os.path.abspath(__file__)))
from harness import core

res = core.build(None, [], 'quick')
rc, out = core.sh('timeout 3000 make -k -j16 2>&1 | tail -30', cwd=core.COQ, timeout=3100)
print(out)
print('model/driver build ok' if res.ok else 'BUILD PROBLEM: %s' % res.failed)
sys.exit(0 if res.ok else 1)
