#!/bin/bash
# Runs tools/run_seeded.py over the given seeded ids (default: those without result.json),
# one process per property (ids of one property sequentially), N properties at a time.
# usage: tools/run_seeded_par.sh [-p N] [id ...]
cd "$(dirname "$0")/.."
par=4
if [ "$1" = "-p" ]; then par=$2; shift 2; fi
ids="$*"
if [ -z "$ids" ]; then
  for d in seeded/*/; do id=$(basename "$d"); [ -f "$d/result.json" ] || ids="$ids $id"; done
fi
props=$(for i in $ids; do echo "${i%%-*}"; done | sort -u)
for p in $props; do
  echo "$(for i in $ids; do [ "${i%%-*}" = "$p" ] && printf '%s ' "$i"; done)"
done | xargs -P "$par" -I{} bash -c "/venv/bin/python tools/run_seeded.py {}"
