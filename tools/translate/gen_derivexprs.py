"""Translator for property C02: regenerates coq/Gen/DerivExprs.v from
<repo>/dinosaur/spherical_harmonic.py and <repo>/dinosaur/fourier.py (Python
`ast` only; nothing is imported from the repository).

Emitted (carrier-generic Gallina, `Context {F} {o : Ops F}`):
  lap_eig_expr l r            <- Grid.laplacian_eigenvalues   (-l*(l+1)/radius**2)
  a2_expr mask l m            <- argument of np.sqrt for `a` in Grid._derivative_recurrence_weights
  b2_expr mask l m            <- argument of np.sqrt for `b`
  a_col0_zeroed, b_last_zeroed   (the `a[:, 0] = 0`, `b[:, -1] = 0` assignments)
  d1_wm l a, d1_wp l b, d1_om, d1_op   <- Grid.cos_lat_d_dlat       (weights and shift offsets)
  d2_wm l a, d2_wp l b, d2_om, d2_op   <- Grid.sec_lat_d_dlat_cos2
  dref_j i, dref_cond i, dref_sel c down up, dref_down_off, dref_up_off
                               <- fourier.real_basis_derivative
  dfast_j off i, dfast_cond i, dfast_sel, dfast_down_off, dfast_up_off
                               <- fourier.real_basis_derivative_with_zero_imag
Integer literals k of field expressions are emitted as [lit k] (= 1+...+1), powers
`x**2` as products.

Fail-closed: an AST shape that is not understood is recorded in report['gaps'],
the affected definition is emitted as a syntactically valid dummy ([0], [0%nat],
[false]) and [gen_derivexprs_complete] as [false], so that
Thm/Deriv.v (lemma gen_derivexprs_complete_ok) no longer compiles."""
from __future__ import annotations
import ast, os

OUT = 'DerivExprs.v'


class Gap(Exception):
    pass


# ---------------------------------------------------------------------------
# expression translation
# ---------------------------------------------------------------------------
def fexpr(node, env):
    """Python arithmetic expression -> Gallina term over F.  env: python name
    (or 'self.attr') -> Gallina variable."""
    if isinstance(node, ast.Name):
        if node.id in env: return env[node.id]
        raise Gap('unknown name %s' % node.id)
    if isinstance(node, ast.Attribute) and isinstance(node.value, ast.Name) and node.value.id == 'self':
        k = 'self.' + node.attr
        if k in env: return env[k]
        raise Gap('unknown attribute %s' % k)
    if isinstance(node, ast.Constant):
        if isinstance(node.value, bool) or not isinstance(node.value, int) or not (0 <= node.value <= 64):
            raise Gap('constant %r' % (node.value,))
        return '(lit %d)' % node.value
    if isinstance(node, ast.UnaryOp):
        if isinstance(node.op, ast.USub): return '(- %s)' % fexpr(node.operand, env)
        if isinstance(node.op, ast.UAdd): return fexpr(node.operand, env)
        raise Gap('unary %s' % type(node.op).__name__)
    if isinstance(node, ast.BinOp):
        if isinstance(node.op, ast.Pow):
            if not (isinstance(node.right, ast.Constant) and isinstance(node.right.value, int)
                    and not isinstance(node.right.value, bool) and 1 <= node.right.value <= 4):
                raise Gap('power with non-literal exponent')
            b = fexpr(node.left, env)
            return '(' + ' * '.join([b] * node.right.value) + ')'
        ops = {ast.Add: '+', ast.Sub: '-', ast.Mult: '*', ast.Div: '/'}
        for k, s in ops.items():
            if isinstance(node.op, k):
                return '(%s %s %s)' % (fexpr(node.left, env), s, fexpr(node.right, env))
        raise Gap('operator %s' % type(node.op).__name__)
    raise Gap('expression %s' % type(node).__name__)


def nexpr(node, env):
    """Python non-negative integer index expression -> Gallina nat term."""
    if isinstance(node, ast.Name):
        if node.id in env: return env[node.id]
        raise Gap('unknown name %s' % node.id)
    if isinstance(node, ast.Constant):
        if isinstance(node.value, bool) or not isinstance(node.value, int) or node.value < 0:
            raise Gap('constant %r' % (node.value,))
        return '%d' % node.value
    if isinstance(node, ast.BinOp):
        l, r = nexpr(node.left, env), nexpr(node.right, env)
        if isinstance(node.op, ast.Add): return '(%s + %s)' % (l, r)
        if isinstance(node.op, ast.Mult): return '(%s * %s)' % (l, r)
        if isinstance(node.op, ast.FloorDiv): return '(Nat.div %s %s)' % (l, r)
        if isinstance(node.op, ast.Mod): return '(Nat.modulo %s %s)' % (l, r)
        raise Gap('integer operator %s' % type(node.op).__name__)
    raise Gap('integer expression %s' % type(node).__name__)


def int_const(node):
    if isinstance(node, ast.Constant) and isinstance(node.value, int) and not isinstance(node.value, bool):
        return node.value
    if isinstance(node, ast.UnaryOp) and isinstance(node.op, (ast.USub, ast.UAdd)):
        v = int_const(node.operand)
        return -v if isinstance(node.op, ast.USub) else v
    raise Gap('integer literal expected, got %s' % type(node).__name__)


def coq_z(v):
    return '(%d)%%Z' % v


# ---------------------------------------------------------------------------
# locating functions
# ---------------------------------------------------------------------------
def strip_doc(body):
    if body and isinstance(body[0], ast.Expr) and isinstance(getattr(body[0], 'value', None), ast.Constant) \
            and isinstance(body[0].value.value, str):
        return body[1:]
    return body


def find_func(scope, name):
    for n in scope:
        if isinstance(n, ast.FunctionDef) and n.name == name:
            return n
    raise Gap('function %s not found' % name)


def find_class(tree, name):
    for n in tree.body:
        if isinstance(n, ast.ClassDef) and n.name == name:
            return n
    raise Gap('class %s not found' % name)


def is_call(node, names):
    """node is a call of <anything>.<name> or <name>, name in names."""
    if not isinstance(node, ast.Call): return False
    f = node.func
    nm = f.attr if isinstance(f, ast.Attribute) else (f.id if isinstance(f, ast.Name) else None)
    return nm in names


def assign_parts(stmt):
    if not (isinstance(stmt, ast.Assign) and len(stmt.targets) == 1):
        raise Gap('assignment expected, got %s' % type(stmt).__name__)
    return stmt.targets[0], stmt.value


def target_names(t):
    if isinstance(t, ast.Name): return [t.id]
    if isinstance(t, ast.Tuple) and all(isinstance(e, ast.Name) for e in t.elts): return [e.id for e in t.elts]
    raise Gap('assignment target %s' % type(t).__name__)


def expect_self_attr(v, attr):
    if not (isinstance(v, ast.Attribute) and isinstance(v.value, ast.Name) and v.value.id == 'self' and v.attr == attr):
        raise Gap('expected self.%s' % attr)


# ---------------------------------------------------------------------------
# the individual items
# ---------------------------------------------------------------------------
def t_lap_eig(grid):
    f = find_func(grid.body, 'laplacian_eigenvalues')
    body = strip_doc(f.body)
    if len(body) != 2: raise Gap('laplacian_eigenvalues: %d statements' % len(body))
    t, v = assign_parts(body[0])
    if target_names(t) != ['_', 'l']: raise Gap('laplacian_eigenvalues: first statement is not `_, l = ...`')
    expect_self_attr(v, 'modal_axes')
    if not isinstance(body[1], ast.Return): raise Gap('laplacian_eigenvalues: no return')
    return fexpr(body[1].value, {'l': 'l', 'self.radius': 'r'})


def sqrt_arg(v):
    if not (is_call(v, ('sqrt',)) and len(v.args) == 1 and not v.keywords):
        raise Gap('np.sqrt(...) expected')
    return v.args[0]


def zeroing(stmt, name):
    """`name[:, k] = 0` -> k"""
    t, v = assign_parts(stmt)
    if int_const(v) != 0: raise Gap('%s[...] assigned a non-zero' % name)
    if not (isinstance(t, ast.Subscript) and isinstance(t.value, ast.Name) and t.value.id == name):
        raise Gap('expected %s[:, k] = 0' % name)
    sl = t.slice
    if not (isinstance(sl, ast.Tuple) and len(sl.elts) == 2 and isinstance(sl.elts[0], ast.Slice)
            and sl.elts[0].lower is None and sl.elts[0].upper is None and sl.elts[0].step is None):
        raise Gap('expected %s[:, k]' % name)
    return int_const(sl.elts[1])


def t_weights(grid):
    f = find_func(grid.body, '_derivative_recurrence_weights')
    body = strip_doc(f.body)
    if len(body) != 6: raise Gap('_derivative_recurrence_weights: %d statements' % len(body))
    t, v = assign_parts(body[0])
    if target_names(t) != ['m', 'l']: raise Gap('weights: first statement is not `m, l = self.modal_mesh`')
    expect_self_attr(v, 'modal_mesh')
    env = {'l': 'l', 'm': 'm', 'self.mask': 'mask'}
    t, v = assign_parts(body[1])
    if target_names(t) != ['a']: raise Gap('weights: second statement does not define a')
    a2 = fexpr(sqrt_arg(v), env)
    if zeroing(body[2], 'a') != 0: raise Gap('weights: a[:, k] = 0 with k != 0')
    t, v = assign_parts(body[3])
    if target_names(t) != ['b']: raise Gap('weights: fourth statement does not define b')
    b2 = fexpr(sqrt_arg(v), env)
    if zeroing(body[4], 'b') != -1: raise Gap('weights: b[:, k] = 0 with k != -1')
    r = body[5]
    if not (isinstance(r, ast.Return) and isinstance(r.value, ast.Tuple)
            and [getattr(e, 'id', None) for e in r.value.elts] == ['a', 'b']):
        raise Gap('weights: return is not `a, b`')
    return a2, b2


def t_dlat(grid, name):
    f = find_func(grid.body, name)
    if [a.arg for a in f.args.args] != ['self', 'x']: raise Gap('%s: arguments' % name)
    body = strip_doc(f.body)
    if len(body) != 5: raise Gap('%s: %d statements' % (name, len(body)))
    t, v = assign_parts(body[0])
    if target_names(t) != ['_', 'l']: raise Gap('%s: first statement is not `_, l = self.modal_mesh`' % name)
    expect_self_attr(v, 'modal_mesh')
    t, v = assign_parts(body[1])
    if target_names(t) != ['a', 'b']: raise Gap('%s: second statement is not `a, b = ...`' % name)
    expect_self_attr(v, '_derivative_recurrence_weights')
    out = {}
    for stmt, var, wname in ((body[2], 'x_lm1', 'a'), (body[3], 'x_lp1', 'b')):
        t, v = assign_parts(stmt)
        if target_names(t) != [var]: raise Gap('%s: expected definition of %s' % (name, var))
        if not (is_call(v, ('shift',)) and len(v.args) == 2 and len(v.keywords) == 1
                and v.keywords[0].arg == 'axis' and int_const(v.keywords[0].value) == -1):
            raise Gap('%s: %s is not shift(w * x, k, axis=-1)' % (name, var))
        arg = v.args[0]
        if not (isinstance(arg, ast.BinOp) and isinstance(arg.op, ast.Mult)
                and isinstance(arg.right, ast.Name) and arg.right.id == 'x'):
            raise Gap('%s: shifted array is not (weight) * x' % name)
        w = fexpr(arg.left, {'l': 'l', wname: wname})
        out[var] = (w, int_const(v.args[1]))
    r = body[4]
    if not (isinstance(r, ast.Return) and isinstance(r.value, ast.BinOp) and isinstance(r.value.op, ast.Add)
            and sorted([getattr(r.value.left, 'id', None) or '', getattr(r.value.right, 'id', None) or '']) == ['x_lm1', 'x_lp1']):
        raise Gap('%s: return is not x_lm1 + x_lp1' % name)
    return out


def t_dlon(tree, name, with_offset):
    f = find_func(tree.body, name)
    body = strip_doc(f.body)
    # skip the two argument validations (if ...: raise)
    core = [s for s in body if not (isinstance(s, ast.If) and all(isinstance(b, ast.Raise) for b in s.body) and not s.orelse)]
    if len(core) != 5: raise Gap('%s: %d statements' % (name, len(core)))
    t, v = assign_parts(core[0])
    if target_names(t) != ['i']: raise Gap('%s: first statement does not define i' % name)
    if not (is_call(v, ('reshape',)) and isinstance(v.func, ast.Attribute) and is_call(v.func.value, ('arange',))):
        raise Gap('%s: i is not jnp.arange(...).reshape(...)' % name)
    ar = v.func.value
    if not (len(ar.args) == 1 and isinstance(ar.args[0], ast.Subscript) and ast.unparse(ar.args[0]) == 'u.shape[axis]'):
        raise Gap('%s: arange argument is not u.shape[axis]' % name)
    t, v = assign_parts(core[1])
    if target_names(t) != ['j']: raise Gap('%s: second statement does not define j' % name)
    env = {'i': 'i'}
    if with_offset: env['frequency_offset'] = 'off'
    j = nexpr(v, env)
    offs = {}
    for stmt, var in ((core[2], 'u_down'), (core[3], 'u_up')):
        t, v = assign_parts(stmt)
        if target_names(t) != [var]: raise Gap('%s: expected definition of %s' % (name, var))
        if not (is_call(v, ('shift',)) and len(v.args) == 3 and not v.keywords
                and getattr(v.args[0], 'id', None) == 'u' and getattr(v.args[2], 'id', None) == 'axis'):
            raise Gap('%s: %s is not shift(u, k, axis)' % (name, var))
        offs[var] = int_const(v.args[1])
    r = core[4]
    if not (isinstance(r, ast.Return) and isinstance(r.value, ast.BinOp) and isinstance(r.value.op, ast.Mult)
            and getattr(r.value.left, 'id', None) == 'j' and is_call(r.value.right, ('where',))):
        raise Gap('%s: return is not j * jnp.where(...)' % name)
    w = r.value.right
    if len(w.args) != 3 or w.keywords: raise Gap('%s: where arguments' % name)
    cond = '(negb (Nat.eqb %s 0))' % nexpr(w.args[0], {'i': 'i'})
    br = {'u_down': 'down', 'u_up': 'up'}
    sel = '(if c then %s else %s)' % (fexpr(w.args[1], br), fexpr(w.args[2], br))
    return j, cond, sel, offs['u_down'], offs['u_up']


# ---------------------------------------------------------------------------
def generate(repo, gen_dir):
    from translate import gen_all
    report = {'gaps': []}
    items = {}

    def attempt(key, fn):
        try:
            items[key] = fn()
        except Gap as e:
            report['gaps'].append('%s: %s' % (key, e)); items[key] = None
        except Exception as e:  # never raise
            report['gaps'].append('%s: %r' % (key, e)); items[key] = None

    grid = None; ftree = None
    try:
        src = open(os.path.join(repo, 'dinosaur', 'spherical_harmonic.py')).read()
        grid = find_class(ast.parse(src), 'Grid')
    except Exception as e:
        report['gaps'].append('spherical_harmonic.py: %r' % e)
    try:
        ftree = ast.parse(open(os.path.join(repo, 'dinosaur', 'fourier.py')).read())
    except Exception as e:
        report['gaps'].append('fourier.py: %r' % e)

    def need(x):
        if x is None: raise Gap('source not available')
        return x

    attempt('lap_eig', lambda: t_lap_eig(need(grid)))
    attempt('weights', lambda: t_weights(need(grid)))
    attempt('d1', lambda: t_dlat(need(grid), 'cos_lat_d_dlat'))
    attempt('d2', lambda: t_dlat(need(grid), 'sec_lat_d_dlat_cos2'))
    attempt('dref', lambda: t_dlon(need(ftree), 'real_basis_derivative', False))
    attempt('dfast', lambda: t_dlon(need(ftree), 'real_basis_derivative_with_zero_imag', True))

    L = []
    L.append('(** GENERATED by tools/translate/gen_derivexprs.py from dinosaur/spherical_harmonic.py and')
    L.append('    dinosaur/fourier.py.  Do not edit: rewritten (only when its content changes) on every ./check run. *)')
    L.append('From Dino Require Import Base.Ops.')
    L.append('Local Open Scope F_scope.')
    L.append('')
    L.append('(** false iff the translator met a construct it does not understand (see evidence). *)')
    L.append('Definition gen_derivexprs_complete : bool := %s.' % ('false' if report['gaps'] else 'true'))
    L.append('')
    L.append('Section DerivExprs.')
    L.append('  Context {F : Type} {o : Ops F}.')
    L.append('  (** integer literal k of the source as 1 + ... + 1 *)')
    L.append('  Fixpoint lit (n : nat) : F := match n with O => 0 | S k => lit k + 1 end.')
    L.append('')
    le = items.get('lap_eig')
    L.append('  (** Grid.laplacian_eigenvalues *)')
    L.append('  Definition lap_eig_expr (l r : F) : F := %s.' % (le or '0'))
    w = items.get('weights')
    L.append('  (** Grid._derivative_recurrence_weights: a = sqrt(a2_expr), a[:,0] = 0; b = sqrt(b2_expr), b[:,-1] = 0 *)')
    L.append('  Definition a2_expr (mask l m : F) : F := %s.' % (w[0] if w else '0'))
    L.append('  Definition b2_expr (mask l m : F) : F := %s.' % (w[1] if w else '0'))
    for key, nm, doc in (('d1', 'd1', 'Grid.cos_lat_d_dlat'), ('d2', 'd2', 'Grid.sec_lat_d_dlat_cos2')):
        d = items.get(key)
        L.append('  (** %s: shift(%s_wm(l,a) * x, %s_om) + shift(%s_wp(l,b) * x, %s_op) *)' % (doc, nm, nm, nm, nm))
        L.append('  Definition %s_wm (l a : F) : F := %s.' % (nm, d['x_lm1'][0] if d else '0'))
        L.append('  Definition %s_wp (l b : F) : F := %s.' % (nm, d['x_lp1'][0] if d else '0'))
    for key, nm, doc, off in (('dref', 'dref', 'fourier.real_basis_derivative', False),
                              ('dfast', 'dfast', 'fourier.real_basis_derivative_with_zero_imag', True)):
        d = items.get(key)
        L.append('  (** %s: j * where(cond, u_down, -u_up) *)' % doc)
        L.append('  Definition %s_sel (c : bool) (down up : F) : F := %s.' % (nm, d[2] if d else '0'))
    L.append('End DerivExprs.')
    L.append('')
    for key, nm in (('d1', 'd1'), ('d2', 'd2')):
        d = items.get(key)
        L.append('Definition %s_om : Z := %s.' % (nm, coq_z(d['x_lm1'][1]) if d else '0%Z'))
        L.append('Definition %s_op : Z := %s.' % (nm, coq_z(d['x_lp1'][1]) if d else '0%Z'))
    for key, nm, off in (('dref', 'dref', False), ('dfast', 'dfast', True)):
        d = items.get(key)
        args = '(off i : nat)' if off else '(i : nat)'
        L.append('Definition %s_j %s : nat := %s%%nat.' % (nm, args, d[0] if d else '0'))
        L.append('Definition %s_cond (i : nat) : bool := %s%%nat.' % (nm, d[1] if d else 'false'))
        L.append('Definition %s_down_off : Z := %s.' % (nm, coq_z(d[3]) if d else '0%Z'))
        L.append('Definition %s_up_off : Z := %s.' % (nm, coq_z(d[4]) if d else '0%Z'))
    L.append('')
    text = '\n'.join(L) + '\n'
    report['changed'] = gen_all.write_if_changed(os.path.join(gen_dir, OUT), text)
    report['items'] = {k: (v is not None) for k, v in items.items()}
    return report
