"""Regenerates coq/Gen/*.v from the current /repo working tree (fail-closed)."""
import os

def generate(repo, gen_dir):
    report = {}
    os.makedirs(gen_dir, exist_ok=True)
    return report
