"""Regenerates coq/Gen/*.v from the current source tree (fail-closed).

Dispatcher: every module tools/translate/gen_<name>.py exposing
`generate(repo, gen_dir) -> dict` is called; an exception in one module is
recorded in the report (key '<name>': {'error': ...}) and never propagates.
Modules must write files only when their content changes (write_if_changed)."""
import importlib, os, pkgutil, traceback


def write_if_changed(path, text):
    if os.path.exists(path) and open(path).read() == text:
        return False
    with open(path, 'w') as f:
        f.write(text)
    return True


def generate(repo, gen_dir):
    report = {}
    os.makedirs(gen_dir, exist_ok=True)
    here = os.path.dirname(os.path.abspath(__file__))
    for m in sorted(pkgutil.iter_modules([here])):
        if not m.name.startswith('gen_') or m.name == 'gen_all':
            continue
        try:
            mod = importlib.import_module('translate.' + m.name)
            report[m.name] = mod.generate(repo, gen_dir)
        except Exception as e:
            report[m.name] = {'error': repr(e), 'trace': traceback.format_exc()[-800:]}
    return report
