"""Shared fail-closed translator of small python arithmetic expressions to Gallina
over the carrier-generic `Ops F` interface (Base/Ops.v).  Used by the gen_*.py
translators that transcribe FORMULAS (not tables) from the source.

An expression is translated purely syntactically (same operations, same
association, same order of operands); nothing is simplified.  Anything that is
not understood raises `Gap`, which the calling translator records and turns
into a failing `*_ok` flag (fail closed).

  Ex(src, env, calls, nat_env).tr(node)  -> Gallina term of type F
  Ex(...).ntr(node)                      -> Gallina term of type nat
"""
import ast
from fractions import Fraction


class Gap(Exception):
    pass


def dotted(node):
    """'jnp.exp' for Attribute/Name chains, else None."""
    parts = []
    while isinstance(node, ast.Attribute):
        parts.append(node.attr); node = node.value
    if isinstance(node, ast.Name):
        parts.append(node.id)
        return '.'.join(reversed(parts))
    return None


def qlit(q: Fraction) -> str:
    """Rational literal.  0 and 1 are the carrier's constants; other small non-negative integers are
    `(fnat n)` (= 0 + 1 + ... + 1, Model/Filters.v; generated files that use them import it), so that
    no ring-morphism hypothesis on `fofZ` is needed to reason about them."""
    if q == 0: return '0'
    if q == 1: return '1'
    if q.denominator == 1 and 0 < q.numerator <= 64:
        return f'(fnat {q.numerator})'
    if q.denominator == 1:
        return f'(fofZ ({q.numerator}))' if q.numerator < 0 else f'(fofZ {q.numerator})'
    n = f'({q.numerator})' if q.numerator < 0 else f'{q.numerator}'
    return f'(fofZ {n} / fofZ {q.denominator})'


class Ex:
    def __init__(self, src, env=None, calls=None, nat_env=None):
        self.src = src                 # source text (literal spelling)
        self.env = dict(env or {})     # python name / dotted name -> Gallina term : F
        self.nat_env = dict(nat_env or {})  # python name -> Gallina term : nat
        self.calls = dict(calls or {})  # dotted callee -> fn(list of translated args) -> Gallina
        self.literals = []             # rational literals met (for the report)

    # -- literals ---------------------------------------------------------
    def lit(self, node) -> Fraction:
        v = node.value
        if isinstance(v, bool) or not isinstance(v, (int, float)):
            raise Gap(f'literal {v!r}')
        if isinstance(v, int):
            q = Fraction(v)
        else:
            seg = ast.get_source_segment(self.src, node) or repr(v)
            try:
                q = Fraction(seg.replace('_', ''))
            except Exception:
                raise Gap(f'float literal spelling {seg!r}')
            if float(q) != v:
                raise Gap(f'float literal {seg!r} does not round-trip')
        self.literals.append(str(q))
        return q

    # -- nat-valued expressions (exponents, counts) -----------------------------
    def ntr(self, node) -> str:
        if isinstance(node, ast.Constant) and isinstance(node.value, int) and not isinstance(node.value, bool) and 0 <= node.value <= 1000:
            return f'{node.value}%nat'
        if isinstance(node, ast.Name) and node.id in self.nat_env:
            return self.nat_env[node.id]
        if isinstance(node, ast.BinOp) and isinstance(node.op, (ast.Add, ast.Mult)):
            s = '+' if isinstance(node.op, ast.Add) else '*'
            return f'({self.ntr(node.left)} {s} {self.ntr(node.right)})%nat'
        raise Gap(f'nat expression {ast.dump(node)[:80]}')

    # -- F-valued expressions ---------------------------------------------------
    def tr(self, node) -> str:
        if isinstance(node, ast.Constant):
            return qlit(self.lit(node))
        d = dotted(node)
        if d is not None and d in self.env:
            return self.env[d]
        if isinstance(node, ast.Name):
            raise Gap(f'unknown name {node.id}')
        if isinstance(node, ast.UnaryOp) and isinstance(node.op, ast.USub):
            return f'(- {self.tr(node.operand)})'
        if isinstance(node, ast.UnaryOp) and isinstance(node.op, ast.UAdd):
            return self.tr(node.operand)
        if isinstance(node, ast.BinOp):
            if isinstance(node.op, ast.Pow):
                base = self.tr(node.left)
                try:
                    return f'(fpow {base} {self.ntr(node.right)})'
                except Gap:
                    raise Gap('power with an exponent that is not a natural-number expression')
            ops = {ast.Add: '+', ast.Sub: '-', ast.Mult: '*', ast.Div: '/'}
            for k, s in ops.items():
                if isinstance(node.op, k):
                    return f'({self.tr(node.left)} {s} {self.tr(node.right)})'
            raise Gap(f'operator {type(node.op).__name__}')
        if isinstance(node, ast.Compare):
            # a boolean used as a number (numpy: True == 1)
            if len(node.ops) != 1:
                raise Gap('chained comparison')
            a, b = self.tr(node.left), self.tr(node.comparators[0])
            op = node.ops[0]
            if isinstance(op, ast.Gt): return f'(indb (fltb {b} {a}))'
            if isinstance(op, ast.Lt): return f'(indb (fltb {a} {b}))'
            if isinstance(op, ast.GtE): return f'(indb (fleb {b} {a}))'
            if isinstance(op, ast.LtE): return f'(indb (fleb {a} {b}))'
            raise Gap(f'comparison {type(op).__name__}')
        if isinstance(node, ast.Call):
            d = dotted(node.func)
            # method call on a translated receiver: x.max()
            if d is None and isinstance(node.func, ast.Attribute):
                key = '.' + node.func.attr
                if key in self.calls and not node.keywords:
                    return self.calls[key]([self.tr(node.func.value)] + [self.tr(a) for a in node.args])
            if d is not None and d in self.calls and not node.keywords:
                return self.calls[d]([self.tr(a) for a in node.args])
            if d is not None and '.' in d:
                recv, meth = d.rsplit('.', 1)
                key = '.' + meth
                if key in self.calls and recv in self.env and not node.keywords:
                    return self.calls[key]([self.env[recv]] + [self.tr(a) for a in node.args])
            raise Gap(f'call {d or ast.dump(node.func)[:60]}')
        raise Gap(f'expression {type(node).__name__}')


# -- small AST helpers shared by the translators --------------------------------
def strip_doc(body):
    body = list(body)
    if body and isinstance(body[0], ast.Expr) and isinstance(body[0].value, ast.Constant) and isinstance(body[0].value.value, str):
        body = body[1:]
    return body


def find_func(scope, name):
    for n in (scope.body if hasattr(scope, 'body') else scope):
        if isinstance(n, (ast.FunctionDef,)) and n.name == name:
            return n
    raise Gap(f'function {name} not found')


def find_class(tree, name):
    for n in tree.body:
        if isinstance(n, ast.ClassDef) and n.name == name:
            return n
    raise Gap(f'class {name} not found')


def params_of(fn):
    """[(name, default AST or None)] of positional-or-keyword parameters; rejects *args/**kw."""
    a = fn.args
    if a.vararg or a.kwarg or a.posonlyargs:
        raise Gap(f'{fn.name}: unsupported parameter kinds')
    names = [x.arg for x in a.args]
    defaults = [None] * (len(names) - len(a.defaults)) + list(a.defaults)
    out = list(zip(names, defaults))
    out += [(k.arg, d) for k, d in zip(a.kwonlyargs, a.kw_defaults)]
    return out


def assigns_of(fn):
    """Straight-line `name = expr` assignments of a function body (in order) and its return
    expression; any other statement kind (besides docstring, nested defs listed in `allow`)
    raises."""
    out = []
    ret = None
    for st in strip_doc(fn.body):
        if isinstance(st, ast.Assign) and len(st.targets) == 1 and isinstance(st.targets[0], ast.Name):
            out.append((st.targets[0].id, st.value))
        elif isinstance(st, ast.Assign) and len(st.targets) == 1 and isinstance(st.targets[0], ast.Tuple) \
                and all(isinstance(e, ast.Name) for e in st.targets[0].elts):
            out.append((tuple(e.id for e in st.targets[0].elts), st.value))
        elif isinstance(st, ast.Return):
            ret = st.value
        elif isinstance(st, ast.FunctionDef):
            out.append(('def:' + st.name, st))
        else:
            raise Gap(f'{fn.name}: statement {type(st).__name__}')
    return out, ret
