"""Translator for property C07: regenerates coq/Gen/ShardingSrc.v from
<repo>/dinosaur/jax_numpy_utils.py (Python `ast` only, nothing imported).

Extracted as Coq terms over Z (Python `//` -> Z.div, `%` -> Z.modulo, which
agree for the positive divisors that occur):
  _allgather_matmul_twoway:     chunk_index expression, the arguments of
      get_lhs_chunk for the forward / backward operand, perm_fwd / perm_bwd,
      fori_loop bounds, the index of the initial computation, the
      `axis_size == 1` / `axis_size % 2` guards;
  _matmul_reducescatter_twoway: the same items;
  _parallel_dot_cumsum:         comparison operators, index ranges, the index
      of the last partial.
The data flow that is not arithmetic (which permutation is applied to which
carry, order of statements) is compared with its expected normal form
(`ast.unparse`), except that the two products of `indexed_computation` may be
written in either order.

Fail-closed: anything not understood is recorded in report['gaps'], the
affected definition is emitted as a sentinel and `src_complete := false`, so
that theorem C07_model_matches_source fails instead of silently passing."""
from __future__ import annotations
import ast, os

SRC = os.path.join('dinosaur', 'jax_numpy_utils.py')
OUT = 'ShardingSrc.v'


class Gap(Exception):
    pass


def coq_expr(node, names):
    """integer expression over the variables `names` (python name -> coq name)"""
    if isinstance(node, ast.Constant) and isinstance(node.value, int) and not isinstance(node.value, bool):
        return str(node.value) if node.value >= 0 else '(%d)' % node.value
    if isinstance(node, ast.Name):
        if node.id in names: return names[node.id]
        raise Gap('unknown name %s' % node.id)
    if isinstance(node, ast.UnaryOp) and isinstance(node.op, ast.USub):
        return '(- %s)' % coq_expr(node.operand, names)
    if isinstance(node, ast.BinOp):
        ops = {ast.Add: '+', ast.Sub: '-', ast.Mult: '*', ast.FloorDiv: '/', ast.Mod: 'mod'}
        for k, v in ops.items():
            if isinstance(node.op, k):
                return '(%s %s %s)' % (coq_expr(node.left, names), v, coq_expr(node.right, names))
    raise Gap('unsupported expression %s' % ast.unparse(node))


def find_func(body, name):
    for n in body:
        if isinstance(n, ast.FunctionDef) and n.name == name:
            return n
    raise Gap('function %s not found' % name)


def assigns(fn):
    """top-level (non-nested) assignments of a function: target name -> value node (last wins)"""
    out = {}
    for n in fn.body:
        if isinstance(n, ast.Assign) and len(n.targets) == 1 and isinstance(n.targets[0], ast.Name):
            out[n.targets[0].id] = n.value
    return out


def unp(nodes):
    return [ast.unparse(n) for n in nodes]


def perm_expr(node, names):
    """[(j, <expr>) for j in range(axis_size)] -> coq expr of the destination"""
    if not (isinstance(node, ast.ListComp) and len(node.generators) == 1):
        raise Gap('perm is not a list comprehension')
    g = node.generators[0]
    if not (isinstance(g.target, ast.Name) and ast.unparse(g.iter) == 'range(axis_size)' and not g.ifs):
        raise Gap('perm generator %s' % ast.unparse(node))
    elt = node.elt
    if not (isinstance(elt, ast.Tuple) and len(elt.elts) == 2 and isinstance(elt.elts[0], ast.Name)
            and elt.elts[0].id == g.target.id):
        raise Gap('perm element %s' % ast.unparse(elt))
    nm = dict(names); nm[g.target.id] = 'j'
    return coq_expr(elt.elts[1], nm)


def guards(fn, pref, defs):
    """`if axis_size == 1: return matmul(lhs, rhs)` and `if axis_size % 2: raise ValueError(...)`"""
    ifs = [n for n in fn.body if isinstance(n, ast.If)]
    if len(ifs) != 2: raise Gap('%s: expected 2 guards, found %d' % (pref, len(ifs)))
    t, r = ifs
    if not (isinstance(t.test, ast.Compare) and len(t.test.ops) == 1 and isinstance(t.test.ops[0], ast.Eq)
            and unp(t.body) == ['return matmul(lhs, rhs)'] and not t.orelse):
        raise Gap('%s: trivial-size guard %s' % (pref, ast.unparse(t)))
    nm = {'axis_size': 'axis_size'}
    defs.append('Definition src_%s_trivial (axis_size : Z) : bool := (%s =? %s).' %
                (pref, coq_expr(t.test.left, nm), coq_expr(t.test.comparators[0], nm)))
    if not (len(r.body) == 1 and isinstance(r.body[0], ast.Raise) and not r.orelse):
        raise Gap('%s: rejection guard %s' % (pref, ast.unparse(r)))
    defs.append('Definition src_%s_reject (axis_size : Z) : bool := negb (%s =? 0).' % (pref, coq_expr(r.test, nm)))


def fori(fn, pref, defs, body_name, carry):
    calls = [n for n in ast.walk(fn) if isinstance(n, ast.Call) and ast.unparse(n.func) == 'lax.fori_loop']
    if len(calls) != 1: raise Gap('%s: fori_loop calls: %d' % (pref, len(calls)))
    c = calls[0]
    if len(c.args) != 4 or ast.unparse(c.args[2]) != body_name or ast.unparse(c.args[3]) != carry:
        raise Gap('%s: fori_loop arguments %s' % (pref, ast.unparse(c)))
    nm = {'axis_size': 'axis_size'}
    defs.append('Definition src_%s_loop_lo (axis_size : Z) : Z := %s.' % (pref, coq_expr(c.args[0], nm)))
    defs.append('Definition src_%s_loop_hi (axis_size : Z) : Z := %s.' % (pref, coq_expr(c.args[1], nm)))


def call_arg(node, fname, nargs=1):
    if not (isinstance(node, ast.Call) and ast.unparse(node.func) == fname and len(node.args) == nargs and not node.keywords):
        raise Gap('expected call of %s: %s' % (fname, ast.unparse(node)))
    return node.args


def _nt(s):
    """tuple targets / returns are unparsed with or without parentheses depending on the python version"""
    return s.replace('(', '').replace(')', '') if (s.endswith('= carrys') or s.endswith('= carrays') or s.startswith('return (')) else s


def expect(stmts, expected, what):
    got = [_nt(x) for x in unp(stmts)]
    expected = [_nt(x) for x in expected]
    if got != expected:
        raise Gap('%s: statements %r differ from the modelled %r' % (what, got, expected))


def tr_allgather(mod, defs):
    fn = find_func(mod.body, '_allgather_matmul_twoway')
    a = assigns(fn)
    if ast.unparse(a.get('axis_size')) != 'lax.psum(1, axis_name)': raise Gap('ag: axis_size')
    if ast.unparse(a.get('axis_index')) != 'lax.axis_index(axis_name)': raise Gap('ag: axis_index')
    if ast.unparse(a.get('chunk_size')) != 'lhs.shape[split_axis] // axis_size': raise Gap('ag: chunk_size')
    guards(fn, 'ag', defs)
    g = find_func(fn.body, 'get_lhs_chunk')
    if [x.arg for x in g.args.args] != ['i']: raise Gap('ag: get_lhs_chunk args')
    ga = assigns(g)
    nm = {'axis_size': 'axis_size', 'axis_index': 'axis_index', 'i': 'i'}
    defs.append('Definition src_ag_chunk_index (axis_size axis_index i : Z) : Z := %s.' % coq_expr(ga['chunk_index'], nm))
    sl = call_arg(ga['lhs_chunk'], 'lax.dynamic_slice_in_dim', 3) if not ga['lhs_chunk'].keywords else None
    if sl is None:
        c = ga['lhs_chunk']
        if not (ast.unparse(c.func) == 'lax.dynamic_slice_in_dim' and len(c.args) == 3 and unp(c.keywords) == ['axis=split_axis']):
            raise Gap('ag: dynamic_slice %s' % ast.unparse(c))
        sl = c.args
    if ast.unparse(sl[0]) != 'lhs' or ast.unparse(sl[2]) != 'chunk_size': raise Gap('ag: slice operands')
    defs.append('Definition src_ag_slice_start (chunk_index chunk_size : Z) : Z := %s.' %
                coq_expr(sl[1], {'chunk_index': 'chunk_index', 'chunk_size': 'chunk_size'}))
    if unp(g.body[-1:]) != ['return lhs_chunk']: raise Gap('ag: get_lhs_chunk return')
    ic = find_func(fn.body, 'indexed_computation')
    if [x.arg for x in ic.args.args] != ['i', 'rhs_fwd', 'rhs_bwd']: raise Gap('ag: indexed_computation args')
    ia = assigns(ic)
    defs.append('Definition src_ag_fwd_arg (i : Z) : Z := %s.' % coq_expr(call_arg(ia['lhs_fwd'], 'get_lhs_chunk')[0], {'i': 'i'}))
    defs.append('Definition src_ag_bwd_arg (i : Z) : Z := %s.' % coq_expr(call_arg(ia['lhs_bwd'], 'get_lhs_chunk')[0], {'i': 'i'}))
    ret = ic.body[-1]
    if not (isinstance(ret, ast.Return) and isinstance(ret.value, ast.BinOp) and isinstance(ret.value.op, ast.Add)):
        raise Gap('ag: indexed_computation return')
    if sorted(unp([ret.value.left, ret.value.right])) != ['matmul(lhs_bwd, rhs_bwd)', 'matmul(lhs_fwd, rhs_fwd)']:
        raise Gap('ag: indexed_computation products %s' % ast.unparse(ret))
    defs.append('Definition src_ag_perm_fwd (axis_size j : Z) : Z := %s.' % perm_expr(a['perm_fwd'], {'axis_size': 'axis_size'}))
    defs.append('Definition src_ag_perm_bwd (axis_size j : Z) : Z := %s.' % perm_expr(a['perm_bwd'], {'axis_size': 'axis_size'}))
    cm = find_func(fn.body, 'collective_matmul')
    expect(cm.body, ['(accum, rhs_fwd, rhs_bwd) = carrys',
                     'rhs_fwd = lax.ppermute(rhs_fwd, axis_name, perm=perm_fwd)',
                     'rhs_bwd = lax.ppermute(rhs_bwd, axis_name, perm=perm_bwd)',
                     'accum += indexed_computation(i, rhs_fwd, rhs_bwd)',
                     'return (accum, rhs_fwd, rhs_bwd)'], 'ag: collective_matmul')
    if [x.arg for x in cm.args.args] != ['i', 'carrys']: raise Gap('ag: collective_matmul args')
    if ast.unparse(a['rhs_fwd']) != 'rhs' or ast.unparse(a['rhs_bwd']) != 'lax.ppermute(rhs, axis_name, perm=perm_bwd)':
        raise Gap('ag: initial carries')
    ini = call_arg(a['accum'], 'indexed_computation', 3)
    if unp(ini[1:]) != ['rhs_fwd', 'rhs_bwd']: raise Gap('ag: initial computation operands')
    defs.append('Definition src_ag_init_arg : Z := %s.' % coq_expr(ini[0], {}))
    fori(fn, 'ag', defs, 'collective_matmul', '(accum, rhs_fwd, rhs_bwd)')
    if unp(fn.body[-1:]) != ['return accum']: raise Gap('ag: return')


def tr_reducescatter(mod, defs):
    fn = find_func(mod.body, '_matmul_reducescatter_twoway')
    a = assigns(fn)
    if ast.unparse(a.get('axis_size')) != 'lax.psum(1, axis_name)': raise Gap('rs: axis_size')
    if ast.unparse(a.get('axis_index')) != 'lax.axis_index(axis_name)': raise Gap('rs: axis_index')
    if ast.unparse(a.get('chunk_size')) != 'lhs.shape[scatter_axis] // axis_size': raise Gap('rs: chunk_size')
    guards(fn, 'rs', defs)
    ic = find_func(fn.body, 'indexed_computation')
    if [x.arg for x in ic.args.args] != ['i']: raise Gap('rs: indexed_computation args')
    ia = assigns(ic)
    nm = {'axis_size': 'axis_size', 'axis_index': 'axis_index', 'i': 'i'}
    defs.append('Definition src_rs_chunk_index (axis_size axis_index i : Z) : Z := %s.' % coq_expr(ia['chunk_index'], nm))
    c = ia['lhs_chunk']
    if not (isinstance(c, ast.Call) and ast.unparse(c.func) == 'lax.dynamic_slice_in_dim' and len(c.args) == 3
            and unp(c.keywords) == ['axis=scatter_axis'] and ast.unparse(c.args[0]) == 'lhs' and ast.unparse(c.args[2]) == 'chunk_size'):
        raise Gap('rs: dynamic_slice %s' % ast.unparse(c))
    defs.append('Definition src_rs_slice_start (chunk_index chunk_size : Z) : Z := %s.' %
                coq_expr(c.args[1], {'chunk_index': 'chunk_index', 'chunk_size': 'chunk_size'}))
    if unp(ic.body[-1:]) != ['return matmul(lhs_chunk, rhs)']: raise Gap('rs: indexed_computation return')
    defs.append('Definition src_rs_perm_fwd (axis_size j : Z) : Z := %s.' % perm_expr(a['perm_fwd'], {'axis_size': 'axis_size'}))
    defs.append('Definition src_rs_perm_bwd (axis_size j : Z) : Z := %s.' % perm_expr(a['perm_bwd'], {'axis_size': 'axis_size'}))
    cm = find_func(fn.body, 'collective_matmul')
    if [x.arg for x in cm.args.args] != ['i', 'carrays']: raise Gap('rs: collective_matmul args')
    if len(cm.body) != 6: raise Gap('rs: collective_matmul length')
    expect(cm.body[:3], ['(accum_fwd, accum_bwd) = carrays',
                         'accum_fwd = lax.ppermute(accum_fwd, axis_name, perm=perm_fwd)',
                         'accum_bwd = lax.ppermute(accum_bwd, axis_name, perm=perm_bwd)'], 'rs: collective_matmul')
    expect(cm.body[5:], ['return (accum_fwd, accum_bwd)'], 'rs: collective_matmul return')
    for st, tgt, nm2 in ((cm.body[3], 'accum_fwd', 'fwd'), (cm.body[4], 'accum_bwd', 'bwd')):
        if not (isinstance(st, ast.AugAssign) and isinstance(st.op, ast.Add) and ast.unparse(st.target) == tgt):
            raise Gap('rs: accumulation %s' % ast.unparse(st))
        defs.append('Definition src_rs_%s_arg (i : Z) : Z := %s.' % (nm2, coq_expr(call_arg(st.value, 'indexed_computation')[0], {'i': 'i'})))
    # initial accumulators: the assignments *before* the loop (the last assignment to accum_fwd is the final permute)
    first = {}
    for n in fn.body:
        if isinstance(n, ast.Assign) and len(n.targets) == 1 and isinstance(n.targets[0], ast.Name) and n.targets[0].id not in first:
            first[n.targets[0].id] = n.value
    defs.append('Definition src_rs_init_fwd_arg : Z := %s.' % coq_expr(call_arg(first['accum_fwd'], 'indexed_computation')[0], {}))
    defs.append('Definition src_rs_init_bwd_arg : Z := %s.' % coq_expr(call_arg(first['accum_bwd'], 'indexed_computation')[0], {}))
    fori(fn, 'rs', defs, 'collective_matmul', '(accum_fwd, accum_bwd)')
    expect(fn.body[-3:], ['accum_fwd = lax.ppermute(accum_fwd, axis_name, perm=perm_fwd)',
                          'accum = accum_fwd + accum_bwd', 'return accum'], 'rs: epilogue')


_CMP = {'jnp.greater': 'Z.gtb', 'jnp.less': 'Z.ltb', 'jnp.greater_equal': 'Z.geb', 'jnp.less_equal': 'Z.leb'}


def ifexp(node, tr):
    """`A if reverse else B` -> (tr A, tr B)"""
    if not (isinstance(node, ast.IfExp) and ast.unparse(node.test) == 'reverse'):
        raise Gap('expected `.. if reverse else ..`: %s' % ast.unparse(node))
    return tr(node.body), tr(node.orelse)


def tr_cumsum(mod, defs):
    fn = find_func(mod.body, '_parallel_dot_cumsum')
    a = assigns(fn)
    if ast.unparse(a['partials']) != '_single_device_dot_cumsum(x, axis=axis, reverse=reverse)': raise Gap('pc: partials')
    lp = a['last_partial']
    if not (isinstance(lp, ast.Call) and ast.unparse(lp.func) == 'lax.index_in_dim' and len(lp.args) == 3
            and ast.unparse(lp.args[0]) == 'partials' and ast.unparse(lp.args[2]) == 'axis'):
        raise Gap('pc: last_partial')
    r, f = ifexp(lp.args[1], lambda n: coq_expr(n, {}))
    defs.append('Definition src_pc_last_index (reverse : bool) : Z := if reverse then %s else %s.' % (r, f))
    if ast.unparse(a['sums']) != 'lax.all_gather(last_partial, axis_name, axis=axis, tiled=True)': raise Gap('pc: all_gather %s' % ast.unparse(a['sums']))
    if ast.unparse(a['axis_index']) != 'lax.axis_index(axis_name)': raise Gap('pc: axis_index')

    def cmp(n):
        s = ast.unparse(n)
        if s not in _CMP: raise Gap('pc: comparison %s' % s)
        return _CMP[s]
    r, f = ifexp(a['op'], cmp)
    defs.append('Definition src_pc_op (reverse : bool) (i axis_index : Z) : bool := if reverse then %s i axis_index else %s i axis_index.' % (r, f))
    if ast.unparse(a['total']) != 'partials' or ast.unparse(a['size']) != 'sums.shape[axis]': raise Gap('pc: total/size')

    def rng(n):
        if not (isinstance(n, ast.Call) and ast.unparse(n.func) == 'range' and len(n.args) in (1, 2)): raise Gap('pc: range %s' % ast.unparse(n))
        nm = {'size': 'size'}
        return ('0', coq_expr(n.args[0], nm)) if len(n.args) == 1 else (coq_expr(n.args[0], nm), coq_expr(n.args[1], nm))
    r, f = ifexp(a['indices'], rng)
    defs.append('Definition src_pc_range_lo (reverse : bool) (size : Z) : Z := if reverse then %s else %s.' % (r[0], f[0]))
    defs.append('Definition src_pc_range_hi (reverse : bool) (size : Z) : Z := if reverse then %s else %s.' % (r[1], f[1]))
    loops = [n for n in fn.body if isinstance(n, ast.For)]
    if len(loops) != 1 or ast.unparse(loops[0].target) != 'i' or ast.unparse(loops[0].iter) != 'indices':
        raise Gap('pc: loop header')
    if unp(loops[0].body) not in (['total += op(i, axis_index) * lax.index_in_dim(sums, i, axis)'],
                                  ['total += lax.index_in_dim(sums, i, axis) * op(i, axis_index)']):
        raise Gap('pc: loop body %r' % unp(loops[0].body))
    if unp(fn.body[-1:]) != ['return total']: raise Gap('pc: return')


_SENTINEL = {
    'ag': ['src_ag_trivial (axis_size : Z) : bool := false', 'src_ag_reject (axis_size : Z) : bool := true',
           'src_ag_chunk_index (axis_size axis_index i : Z) : Z := -1', 'src_ag_slice_start (chunk_index chunk_size : Z) : Z := -1',
           'src_ag_fwd_arg (i : Z) : Z := 0', 'src_ag_bwd_arg (i : Z) : Z := 0', 'src_ag_perm_fwd (axis_size j : Z) : Z := -1',
           'src_ag_perm_bwd (axis_size j : Z) : Z := -1', 'src_ag_init_arg : Z := -1', 'src_ag_loop_lo (axis_size : Z) : Z := 0',
           'src_ag_loop_hi (axis_size : Z) : Z := 0'],
    'rs': ['src_rs_trivial (axis_size : Z) : bool := false', 'src_rs_reject (axis_size : Z) : bool := true',
           'src_rs_chunk_index (axis_size axis_index i : Z) : Z := -1', 'src_rs_slice_start (chunk_index chunk_size : Z) : Z := -1',
           'src_rs_perm_fwd (axis_size j : Z) : Z := -1', 'src_rs_perm_bwd (axis_size j : Z) : Z := -1',
           'src_rs_fwd_arg (i : Z) : Z := 0', 'src_rs_bwd_arg (i : Z) : Z := 0', 'src_rs_init_fwd_arg : Z := -1',
           'src_rs_init_bwd_arg : Z := -1', 'src_rs_loop_lo (axis_size : Z) : Z := 0', 'src_rs_loop_hi (axis_size : Z) : Z := 0'],
    'pc': ['src_pc_last_index (reverse : bool) : Z := 7', 'src_pc_op (reverse : bool) (i axis_index : Z) : bool := false',
           'src_pc_range_lo (reverse : bool) (size : Z) : Z := 0', 'src_pc_range_hi (reverse : bool) (size : Z) : Z := 0'],
}


def generate(repo, gen_dir):
    from translate import gen_all
    report = {'gaps': []}
    lines = ['(** GENERATED by tools/translate/gen_sharding.py from dinosaur/jax_numpy_utils.py - do not edit. *)',
             'From Coq Require Import ZArith Bool.', 'Local Open Scope Z_scope.', '']
    try:
        src = open(os.path.join(repo, SRC)).read()
        mod = ast.parse(src)
    except Exception as e:  # unreadable source: everything is a gap
        mod = None; report['gaps'].append('source: %r' % e)
    for key, tr in (('ag', tr_allgather), ('rs', tr_reducescatter), ('pc', tr_cumsum)):
        defs = []
        try:
            if mod is None: raise Gap('no source')
            tr(mod, defs)
            names = sorted(d.split()[1] for d in defs)
            want = sorted(s.split()[0] for s in _SENTINEL[key])
            if names != want: raise Gap('%s: emitted %r, expected %r' % (key, names, want))
        except Gap as g:
            report['gaps'].append(str(g)); defs = ['Definition %s.' % s for s in _SENTINEL[key]]
        except Exception as e:  # any other surprise in the AST is also a gap
            report['gaps'].append('%s: %r' % (key, e)); defs = ['Definition %s.' % s for s in _SENTINEL[key]]
        lines += defs + ['']
    lines.append('Definition src_complete : bool := %s.' % ('true' if not report['gaps'] else 'false'))
    lines.append('')
    report['changed'] = gen_all.write_if_changed(os.path.join(gen_dir, OUT), '\n'.join(lines))
    report['definitions'] = sum(1 for l in lines if l.startswith('Definition'))
    return report
