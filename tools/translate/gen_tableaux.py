"""Translator for property C06: regenerates coq/Gen/Tableaux.v from
<repo>/dinosaur/time_integration.py (Python `ast`; nothing is imported from
the repository, so this is fast and cannot be influenced by jax).

Emitted (exact rationals; a decimal literal such as 0.1496590219993 is kept as
1496590219993/10^13, `1/3` as 1#3):
  rk2_via_lowstorage, rk2_alphas/betas/gammas (empty unless crank_nicolson_rk2
  delegates to the low-storage factory), rk3_*, rk4_*, sil3_a_ex/a_im/b_ex/b_im,
  leapfrog_alpha_default, and the acceptance conditions
  ls_rejects (low_storage_runge_kutta_crank_nicolson) and tableau_rejects
  (ImExButcherTableau.__post_init__) as boolean functions of the lengths.

Fail-closed: an AST shape that is not understood is recorded in
report['gaps'], the affected definition is emitted as an empty list / `true`
(= rejects everything) and `gen_complete` is emitted as `false`, which makes
`Thm/Integrators.v` fail (theorem gen_complete_ok) instead of silently passing.

Self-check: the factory functions are compiled *from the same AST* into a
sandbox (tree_math stubbed by identity wrappers), run on a recording equation
over formal linear combinations, and the coefficients that actually reach
`F`, `G`, `G_inv` are compared with the emitted ones (report['selfcheck'])."""
from __future__ import annotations
import ast, os, dataclasses, __future__ as _future
from fractions import Fraction

SRC = os.path.join('dinosaur', 'time_integration.py')
OUT = 'Tableaux.v'


class Gap(Exception):
    pass


# ---------------------------------------------------------------------------
# numbers
# ---------------------------------------------------------------------------
def const_q(node, src):
    """Exact rational of a numeric literal expression (literals, unary minus,
    + - * / of literals).  Float literals are read from their source text."""
    if isinstance(node, ast.Constant):
        if isinstance(node.value, bool) or not isinstance(node.value, (int, float)):
            raise Gap('non-numeric constant %r' % (node.value,))
        if isinstance(node.value, int):
            return Fraction(node.value)
        seg = ast.get_source_segment(src, node)
        if seg is None:
            raise Gap('no source text for float literal')
        try:
            return Fraction(seg.replace('_', ''))
        except ValueError:
            raise Gap('unparsed float literal %r' % seg)
    if isinstance(node, ast.UnaryOp) and isinstance(node.op, (ast.USub, ast.UAdd)):
        v = const_q(node.operand, src)
        return -v if isinstance(node.op, ast.USub) else v
    if isinstance(node, ast.BinOp):
        a, b = const_q(node.left, src), const_q(node.right, src)
        if isinstance(node.op, ast.Add): return a + b
        if isinstance(node.op, ast.Sub): return a - b
        if isinstance(node.op, ast.Mult): return a * b
        if isinstance(node.op, ast.Div):
            if b == 0: raise Gap('division by zero in literal')
            return a / b
        raise Gap('operator %s in coefficient' % type(node.op).__name__)
    raise Gap('coefficient expression %s' % type(node).__name__)


def q_list(node, src):
    if not isinstance(node, (ast.List, ast.Tuple)):
        raise Gap('coefficient list is %s' % type(node).__name__)
    return [const_q(e, src) for e in node.elts]


def q_list2(node, src):
    if not isinstance(node, (ast.List, ast.Tuple)):
        raise Gap('coefficient matrix is %s' % type(node).__name__)
    return [q_list(e, src) for e in node.elts]


def coq_q(q: Fraction) -> str:
    if q.denominator == 1:
        return '%d' % q.numerator if q.numerator >= 0 else '(%d)' % q.numerator
    return '(%d # %d)' % (q.numerator, q.denominator)


def coq_qlist(l):
    return '[' + '; '.join(coq_q(x) for x in l) + ']'


def coq_qlist2(m):
    return '[' + ';\n     '.join(coq_qlist(r) for r in m) + ']'


# ---------------------------------------------------------------------------
# locating definitions
# ---------------------------------------------------------------------------
def top_function(tree, name):
    for n in tree.body:
        if isinstance(n, ast.FunctionDef) and n.name == name:
            return n
    raise Gap('function %s not found' % name)


def top_class(tree, name):
    for n in tree.body:
        if isinstance(n, ast.ClassDef) and n.name == name:
            return n
    raise Gap('class %s not found' % name)


def strip_doc(body):
    if body and isinstance(body[0], ast.Expr) and isinstance(body[0].value, ast.Constant) \
            and isinstance(body[0].value.value, str):
        return body[1:]
    return body


def single_return_call(fn, callee):
    """The function body must be (docstring, comments,) `return callee(...)`."""
    body = strip_doc(fn.body)
    if len(body) != 1 or not isinstance(body[0], ast.Return) or not isinstance(body[0].value, ast.Call):
        raise Gap('%s: body is not a single `return %s(...)`' % (fn.name, callee))
    call = body[0].value
    if not (isinstance(call.func, ast.Name) and call.func.id == callee):
        raise Gap('%s: does not delegate to %s' % (fn.name, callee))
    return call


def call_args(call, names, what):
    """Map positional/keyword arguments of `call` onto `names` (the callee's
    leading parameter names).  No *args/**kwargs."""
    out = {}
    for i, a in enumerate(call.args):
        if isinstance(a, ast.Starred) or i >= len(names):
            raise Gap('%s: positional argument %d' % (what, i))
        out[names[i]] = a
    for k in call.keywords:
        if k.arg is None:
            raise Gap('%s: **kwargs' % what)
        if k.arg in out:
            raise Gap('%s: duplicate argument %s' % (what, k.arg))
        out[k.arg] = k.value
    return out


def param_names(fn):
    a = fn.args
    if a.vararg or a.kwarg or a.posonlyargs or a.kwonlyargs:
        raise Gap('%s: unsupported signature' % fn.name)
    return [x.arg for x in a.args]


def dataclass_fields(cls):
    out = []
    for n in cls.body:
        if isinstance(n, ast.AnnAssign) and isinstance(n.target, ast.Name):
            out.append(n.target.id)
    return out


# ---------------------------------------------------------------------------
# acceptance conditions -> Gallina (Z / bool)
# ---------------------------------------------------------------------------
class CondTr:
    """Translates the test of `if <test>: raise ...` into a Gallina boolean.
    `lens` maps a Python expression key ('alphas', 'self.a_ex', ...) to a Gallina
    Z term for its length; `rows` maps such a key to the Gallina list (of row
    lengths, as Z) used for `enumerate(...)`."""

    def __init__(self, lens, rows):
        self.lens, self.rows = lens, rows

    @staticmethod
    def key(e):
        if isinstance(e, ast.Name): return e.id
        if isinstance(e, ast.Attribute) and isinstance(e.value, ast.Name): return e.value.id + '.' + e.attr
        return None

    def z(self, e, loc):
        if isinstance(e, ast.Constant) and isinstance(e.value, int) and not isinstance(e.value, bool):
            return '(%d)' % e.value
        if isinstance(e, ast.Name) and e.id in loc:
            return loc[e.id]
        if isinstance(e, ast.BinOp) and isinstance(e.op, (ast.Add, ast.Sub, ast.Mult)):
            op = {ast.Add: '+', ast.Sub: '-', ast.Mult: '*'}[type(e.op)]
            return '(%s %s %s)' % (self.z(e.left, loc), op, self.z(e.right, loc))
        if isinstance(e, ast.Call) and isinstance(e.func, ast.Name) and e.func.id == 'len' \
                and len(e.args) == 1 and not e.keywords:
            a = e.args[0]
            if isinstance(a, ast.Set):
                return '(py_set_card [%s])' % '; '.join(self.z(x, loc) for x in a.elts)
            k = self.key(a)
            if k is not None and ('len:' + k) in loc: return loc['len:' + k]
            if k is not None and k in self.lens: return self.lens[k]
            raise Gap('len() of %s' % ast.dump(a)[:60])
        raise Gap('integer expression %s' % ast.dump(e)[:80])

    def cmp(self, op, a, b):
        t = type(op)
        if t is ast.Eq: return '(Z.eqb %s %s)' % (a, b)
        if t is ast.NotEq: return '(negb (Z.eqb %s %s))' % (a, b)
        if t is ast.Lt: return '(Z.ltb %s %s)' % (a, b)
        if t is ast.LtE: return '(Z.leb %s %s)' % (a, b)
        if t is ast.Gt: return '(Z.ltb %s %s)' % (b, a)
        if t is ast.GtE: return '(Z.leb %s %s)' % (b, a)
        raise Gap('comparison %s' % t.__name__)

    def b(self, e, loc):
        if isinstance(e, ast.BoolOp):
            f = 'orb' if isinstance(e.op, ast.Or) else 'andb'
            parts = [self.b(v, loc) for v in e.values]
            out = parts[-1]
            for p in reversed(parts[:-1]):
                out = '(%s %s %s)' % (f, p, out)
            return out
        if isinstance(e, ast.UnaryOp) and isinstance(e.op, ast.Not):
            return '(negb %s)' % self.b(e.operand, loc)
        if isinstance(e, ast.Compare):
            # Python semantics of a chained comparison: conjunction of the
            # adjacent pairs (this is what made `a != b != c` too weak).
            terms = [self.z(e.left, loc)] + [self.z(c, loc) for c in e.comparators]
            parts = [self.cmp(op, terms[i], terms[i + 1]) for i, op in enumerate(e.ops)]
            out = parts[-1]
            for p in reversed(parts[:-1]):
                out = '(andb %s %s)' % (p, out)
            return out
        if isinstance(e, ast.Call) and isinstance(e.func, ast.Name) and e.func.id in ('any', 'all') \
                and len(e.args) == 1 and not e.keywords and isinstance(e.args[0], ast.GeneratorExp):
            g = e.args[0]
            if len(g.generators) != 1: raise Gap('nested generator')
            c = g.generators[0]
            if c.ifs or c.is_async: raise Gap('generator with filter')
            it = c.iter
            if not (isinstance(it, ast.Call) and isinstance(it.func, ast.Name) and it.func.id == 'enumerate'
                    and len(it.args) == 1 and not it.keywords):
                raise Gap('generator over %s' % ast.dump(it)[:60])
            k = self.key(it.args[0])
            if k not in self.rows: raise Gap('enumerate(%s)' % k)
            tg = c.target
            if not (isinstance(tg, ast.Tuple) and len(tg.elts) == 2 and all(isinstance(x, ast.Name) for x in tg.elts)):
                raise Gap('generator target')
            iv, rv = tg.elts[0].id, tg.elts[1].id
            loc2 = dict(loc); loc2[iv] = 'py_i'; loc2['len:' + rv] = 'py_rowlen'
            body = self.b(g.elt, loc2)
            fn = 'py_any_enum' if e.func.id == 'any' else 'py_all_enum'
            return '(%s (fun py_i py_rowlen : Z => %s) %s)' % (fn, body, self.rows[k])
        raise Gap('boolean expression %s' % ast.dump(e)[:80])


def raise_tests(stmts, what, allowed_other):
    """All `if test: raise ...` statements of a straight-line body; every other
    statement must satisfy `allowed_other` (else a gap)."""
    tests = []
    for s in stmts:
        if isinstance(s, ast.If):
            if s.orelse or len(s.body) != 1 or not isinstance(s.body[0], ast.Raise):
                raise Gap('%s: `if` that is not `if ...: raise`' % what)
            tests.append(s.test)
        elif not allowed_other(s):
            raise Gap('%s: unexpected statement %s' % (what, type(s).__name__))
    return tests


def _ls_other(s):
    # aliases / unwrap calls / the step function / the final return
    if isinstance(s, ast.Assign):
        return all(isinstance(t, ast.Name) for t in s.targets) and not any(
            isinstance(t, ast.Name) and t.id in ('alphas', 'betas', 'gammas') for t in s.targets)
    return isinstance(s, (ast.FunctionDef, ast.Return))


PRELUDE = '''(** GENERATED by tools/translate/gen_tableaux.py from dinosaur/time_integration.py.
    Do not edit: rewritten (only when its content changes) on every ./check run. *)
From Coq Require Import ZArith QArith List Bool.
Import ListNotations.
Local Open Scope Z_scope.

(** Python built-ins used by the length validations (fixed prelude). *)
Fixpoint py_dedup (l : list Z) : list Z :=
  match l with
  | [] => []
  | x :: r => if existsb (Z.eqb x) r then py_dedup r else x :: py_dedup r
  end.
(** [len({x1, ..., xn})] *)
Definition py_set_card (l : list Z) : Z := Z.of_nat (length (py_dedup l)).
Fixpoint py_any_enum_from (i : Z) (f : Z -> Z -> bool) (rows : list Z) : bool :=
  match rows with [] => false | r :: t => orb (f i r) (py_any_enum_from (i + 1) f t) end.
(** [any(f(i, len(row)) for i, row in enumerate(rows))] *)
Definition py_any_enum := py_any_enum_from 0.
Fixpoint py_all_enum_from (i : Z) (f : Z -> Z -> bool) (rows : list Z) : bool :=
  match rows with [] => true | r :: t => andb (f i r) (py_all_enum_from (i + 1) f t) end.
Definition py_all_enum := py_all_enum_from 0.
Definition py_lens (rows : list nat) : list Z := map Z.of_nat rows.

'''


def analyse(repo):
    """Returns (coq_text, report, data).  Never raises."""
    report = {'source': SRC, 'gaps': [], 'emitted': {}}
    data = {}
    path = os.path.join(repo, SRC)
    try:
        src = open(path).read()
        tree = ast.parse(src)
    except Exception as e:  # unreadable source: everything is a gap
        report['gaps'].append('cannot parse %s: %r' % (path, e))
        src, tree = '', ast.Module(body=[], type_ignores=[])

    def attempt(name, fn, default):
        try:
            v = fn()
            data[name] = v
            return v
        except Gap as g:
            report['gaps'].append('%s: %s' % (name, g))
        except Exception as e:
            report['gaps'].append('%s: internal %r' % (name, e))
        data[name] = default
        return default

    ls_names = ['alphas', 'betas', 'gammas', 'equation', 'time_step']

    def lowstorage(fname):
        fn = top_function(tree, fname)
        call = single_return_call(fn, 'low_storage_runge_kutta_crank_nicolson')
        ls = top_function(tree, 'low_storage_runge_kutta_crank_nicolson')
        if param_names(ls) != ls_names:
            raise Gap('low-storage factory signature changed: %s' % param_names(ls))
        a = call_args(call, ls_names, fname)
        for k in ('alphas', 'betas', 'gammas'):
            if k not in a: raise Gap('%s: %s missing' % (fname, k))
        return tuple(q_list(a[k], src) for k in ('alphas', 'betas', 'gammas'))

    rk3 = attempt('rk3', lambda: lowstorage('crank_nicolson_rk3'), ([], [], []))
    rk4 = attempt('rk4', lambda: lowstorage('crank_nicolson_rk4'), ([], [], []))
    # crank_nicolson_rk2 is hand-written in the current tree; only when it is
    # (re)expressed through the low-storage factory are coefficients emitted.
    rk2_via = False
    rk2 = ([], [], [])
    try:
        rk2 = lowstorage('crank_nicolson_rk2'); rk2_via = True
    except Gap as g:
        report['rk2'] = 'direct step function (not via low-storage factory): %s' % g
        try:
            top_function(tree, 'crank_nicolson_rk2')
        except Gap as g2:
            report['gaps'].append('rk2: %s' % g2)
    data['rk2'] = rk2; data['rk2_via'] = rk2_via

    def sil3():
        fn = top_function(tree, 'imex_rk_sil3')
        call = single_return_call(fn, 'imex_runge_kutta')
        irk = top_function(tree, 'imex_runge_kutta')
        names = param_names(irk)
        if names != ['tableau', 'equation', 'time_step']:
            raise Gap('imex_runge_kutta signature changed: %s' % names)
        a = call_args(call, names, 'imex_rk_sil3')
        t = a.get('tableau')
        if not (isinstance(t, ast.Call) and isinstance(t.func, ast.Name) and t.func.id == 'ImExButcherTableau'):
            raise Gap('tableau argument is not an ImExButcherTableau(...) literal')
        fields = dataclass_fields(top_class(tree, 'ImExButcherTableau'))
        if fields != ['a_ex', 'a_im', 'b_ex', 'b_im']:
            raise Gap('ImExButcherTableau fields changed: %s' % fields)
        ta = call_args(t, fields, 'ImExButcherTableau')
        for k in fields:
            if k not in ta: raise Gap('tableau field %s missing' % k)
        return (q_list2(ta['a_ex'], src), q_list2(ta['a_im'], src), q_list(ta['b_ex'], src), q_list(ta['b_im'], src))

    s3 = attempt('sil3', sil3, ([], [], [], []))

    def leapfrog_alpha():
        fn = top_function(tree, 'semi_implicit_leapfrog')
        names = param_names(fn)
        if 'alpha' not in names: raise Gap('no alpha parameter')
        nd = len(fn.args.defaults)
        idx = names.index('alpha') - (len(names) - nd)
        if idx < 0: raise Gap('alpha has no default')
        return const_q(fn.args.defaults[idx], src)

    lf = attempt('leapfrog_alpha', leapfrog_alpha, None)

    def ls_cond():
        fn = top_function(tree, 'low_storage_runge_kutta_crank_nicolson')
        if param_names(fn) != ls_names: raise Gap('signature changed')
        tests = raise_tests(strip_doc(fn.body), 'low-storage factory', _ls_other)
        tr = CondTr({'alphas': 'la', 'betas': 'lb', 'gammas': 'lg'}, {})
        terms = [tr.b(t, {}) for t in tests]
        return terms

    lsc = attempt('ls_rejects', ls_cond, None)

    def tab_cond():
        cls = top_class(tree, 'ImExButcherTableau')
        if dataclass_fields(cls) != ['a_ex', 'a_im', 'b_ex', 'b_im']: raise Gap('fields changed')
        post = [n for n in cls.body if isinstance(n, ast.FunctionDef) and n.name == '__post_init__']
        others = [n for n in cls.body if isinstance(n, ast.FunctionDef) and n.name != '__post_init__']
        if others: raise Gap('unexpected methods %s' % [n.name for n in others])
        if not post:
            return []        # no validation at all: rejects nothing
        if param_names(post[0]) != ['self']: raise Gap('__post_init__ signature')
        tests = raise_tests(strip_doc(post[0].body), '__post_init__', lambda s: False)
        tr = CondTr({'self.a_ex': '(Z.of_nat (length a_ex_rows))', 'self.a_im': '(Z.of_nat (length a_im_rows))',
                     'self.b_ex': '(Z.of_nat n_b_ex)', 'self.b_im': '(Z.of_nat n_b_im)'},
                    {'self.a_ex': '(py_lens a_ex_rows)', 'self.a_im': '(py_lens a_im_rows)'})
        return [tr.b(t, {}) for t in tests]

    tbc = attempt('tableau_rejects', tab_cond, None)

    def orall(terms):
        if terms is None: return 'true'      # fail-closed: "rejects everything" refutes lengths_validated
        if not terms: return 'false'
        out = terms[-1]
        for p in reversed(terms[:-1]): out = '(orb %s %s)' % (p, out)
        return out

    complete = not report['gaps']
    t = [PRELUDE]
    t.append('(** false iff the translator met a construct it does not understand (see evidence). *)\n')
    t.append('Definition gen_complete : bool := %s.\n\n' % ('true' if complete else 'false'))
    t.append('Definition rk2_via_lowstorage : bool := %s.\n' % ('true' if rk2_via else 'false'))
    for nm, (al, be, ga) in (('rk2', rk2), ('rk3', rk3), ('rk4', rk4)):
        t.append('Definition %s_alphas : list Q := %s%%Q.\n' % (nm, coq_qlist(al)))
        t.append('Definition %s_betas : list Q := %s%%Q.\n' % (nm, coq_qlist(be)))
        t.append('Definition %s_gammas : list Q := %s%%Q.\n\n' % (nm, coq_qlist(ga)))
    t.append('Definition sil3_a_ex : list (list Q) :=\n    %s%%Q.\n' % coq_qlist2(s3[0]))
    t.append('Definition sil3_a_im : list (list Q) :=\n    %s%%Q.\n' % coq_qlist2(s3[1]))
    t.append('Definition sil3_b_ex : list Q := %s%%Q.\n' % coq_qlist(s3[2]))
    t.append('Definition sil3_b_im : list Q := %s%%Q.\n\n' % coq_qlist(s3[3]))
    t.append('Definition leapfrog_alpha_default : Q := %s%%Q.\n\n' % (coq_q(lf) if lf is not None else '0'))
    t.append('(** `low_storage_runge_kutta_crank_nicolson` raises iff this is true. *)\n')
    t.append('Definition ls_rejects (n_alphas n_betas n_gammas : nat) : bool :=\n'
             '  let la := Z.of_nat n_alphas in let lb := Z.of_nat n_betas in let lg := Z.of_nat n_gammas in\n'
             '  %s.\n\n' % orall(lsc))
    t.append('(** `ImExButcherTableau.__post_init__` raises iff this is true\n'
             '    (a_ex_rows / a_im_rows: the lengths of the rows of a_ex / a_im). *)\n')
    t.append('Definition tableau_rejects (a_ex_rows a_im_rows : list nat) (n_b_ex n_b_im : nat) : bool :=\n'
             '  %s.\n' % orall(tbc))
    text = ''.join(t)
    report['emitted'] = {
        'rk2_via_lowstorage': rk2_via,
        'rk3': [[str(x) for x in l] for l in rk3], 'rk4': [[str(x) for x in l] for l in rk4],
        'sil3': {'a_ex': [[str(x) for x in r] for r in s3[0]], 'a_im': [[str(x) for x in r] for r in s3[1]],
                 'b_ex': [str(x) for x in s3[2]], 'b_im': [str(x) for x in s3[3]]},
        'leapfrog_alpha_default': str(lf),
        'ls_rejects_terms': lsc, 'tableau_rejects_terms': tbc}
    report['complete'] = complete
    try:
        report['selfcheck'] = selfcheck(tree, data)
    except Exception as e:
        report['selfcheck'] = {'ok': False, 'error': repr(e)}
    return text, report, data


# ---------------------------------------------------------------------------
# self-check: run the factories (compiled from the same AST) on a recorder
# ---------------------------------------------------------------------------
class Lin:
    """Formal linear combination of symbols with float coefficients."""
    def __init__(self, d=None): self.d = dict(d or {})
    def __add__(self, o):
        if isinstance(o, (int, float)):
            if o == 0: return Lin(self.d)
            raise TypeError('vector + nonzero scalar')
        r = dict(self.d)
        for k, v in o.d.items(): r[k] = r.get(k, 0.0) + v
        return Lin(r)
    __radd__ = __add__
    def __sub__(self, o): return self + (-1.0) * o
    def __neg__(self): return (-1.0) * self
    def __mul__(self, c):
        if not isinstance(c, (int, float)): raise TypeError('vector * vector')
        return Lin({k: v * c for k, v in self.d.items()})
    __rmul__ = __mul__
    def coef(self, k): return self.d.get(k, 0.0)


class Recorder:
    def __init__(self):
        self.n = 0; self.F_args = []; self.G_args = []; self.inv = []
    def sym(self, p):
        self.n += 1
        return Lin({'%s%d' % (p, self.n): 1.0})
    def explicit_terms(self, x):
        self.F_args.append(x); s = Lin({'f%d' % (len(self.F_args) - 1): 1.0}); return s
    def implicit_terms(self, x):
        self.G_args.append(x); return Lin({'g%d' % (len(self.G_args) - 1): 1.0})
    def implicit_inverse(self, x, eta):
        self.inv.append((x, eta)); return Lin({'y%d' % len(self.inv): 1.0})


class _TreeMathStub:
    @staticmethod
    def unwrap(fn, vector_argnums=None): return fn
    @staticmethod
    def wrap(fn): return fn


def sandbox(tree):
    want_f = {'low_storage_runge_kutta_crank_nicolson', 'crank_nicolson_rk2', 'crank_nicolson_rk3',
              'crank_nicolson_rk4', 'imex_runge_kutta', 'imex_rk_sil3', 'backward_forward_euler'}
    body = [n for n in tree.body
            if (isinstance(n, ast.FunctionDef) and n.name in want_f)
            or (isinstance(n, ast.ClassDef) and n.name == 'ImExButcherTableau')]
    mod = ast.Module(body=body, type_ignores=[])
    code = compile(mod, '<time_integration.py: integrator factories>', 'exec',
                   flags=_future.annotations.compiler_flag, dont_inherit=True)
    import sys, types
    m = types.ModuleType('c06_translator_sandbox')
    ns = m.__dict__
    ns.update({'tree_math': _TreeMathStub, 'dataclasses': dataclasses})
    sys.modules[m.__name__] = m        # dataclasses looks the defining module up
    try:
        exec(code, ns)
    finally:
        sys.modules.pop(m.__name__, None)
    return ns


def _close(a, b):
    return abs(a - b) <= 1e-14 * max(1.0, abs(a), abs(b))


def selfcheck(tree, data):
    ns = sandbox(tree)
    bad = []; n = 0
    u0 = Lin({'y0': 1.0})
    for nm in ('rk3', 'rk4') + (('rk2',) if data.get('rk2_via') else ()):
        al, be, ga = data[nm]
        if not be: bad.append('%s: nothing emitted' % nm); continue
        rec = Recorder()
        step = ns['crank_nicolson_' + nm](rec, 1.0)
        step(u0)
        if len(rec.inv) != len(be): bad.append('%s: %d stages run, %d emitted' % (nm, len(rec.inv), len(be))); continue
        for k, (x, eta) in enumerate(rec.inv):
            exp_mu = float(al[k + 1] - al[k]) / 2
            checks = [('mu', eta, exp_mu), ('gamma', x.coef('f%d' % k), float(ga[k])),
                      ('mu*G', x.coef('g%d' % k), exp_mu)]
            if k >= 1:
                checks.append(('gamma*beta', x.coef('f%d' % (k - 1)), float(ga[k] * be[k])))
            for what, got, want in checks:
                n += 1
                if not _close(got, want): bad.append('%s stage %d %s: used %r, emitted %r' % (nm, k, what, got, want))
    a_ex, a_im, b_ex, b_im = data['sil3']
    if not b_ex:
        bad.append('sil3: nothing emitted')
    else:
        rec = Recorder()
        y = ns['imex_rk_sil3'](rec, 1.0)(u0)
        s = len(b_ex)
        # stage i value Y_i is y<i>; F/G are evaluated lazily, so map symbols by argument
        fsym = {}; gsym = {}
        def stage_of(arg):
            ks = [k for k, v in arg.d.items() if v == 1.0]
            return 0 if ks == ['y0'] else int(ks[0][1:])
        for j, a in enumerate(rec.F_args): fsym[stage_of(a)] = 'f%d' % j
        for j, a in enumerate(rec.G_args): gsym[stage_of(a)] = 'g%d' % j
        if len(rec.inv) != s - 1:
            bad.append('sil3: %d implicit solves, %d rows emitted' % (len(rec.inv), s - 1))
        else:
            for i, (x, eta) in enumerate(rec.inv, start=1):
                n += 1
                if not _close(eta, float(a_im[i - 1][i])): bad.append('sil3 stage %d eta' % i)
                for j in range(i):
                    for sym, row, nmx in ((fsym, a_ex, 'a_ex'), (gsym, a_im, 'a_im')):
                        n += 1
                        got = x.coef(sym[j]) if j in sym else 0.0
                        if not _close(got, float(row[i - 1][j])):
                            bad.append('sil3 %s[%d][%d]: used %r, emitted %s' % (nmx, i - 1, j, got, row[i - 1][j]))
            for j in range(s):
                for sym, row, nmx in ((fsym, b_ex, 'b_ex'), (gsym, b_im, 'b_im')):
                    n += 1
                    got = y.coef(sym[j]) if j in sym else 0.0
                    if not _close(got, float(row[j])):
                        bad.append('sil3 %s[%d]: used %r, emitted %s' % (nmx, j, got, row[j]))
    return {'ok': not bad, 'compared': n, 'differences': bad[:10]}


def generate(repo, gen_dir):
    text, report, _ = analyse(repo)
    try:
        from translate.gen_all import write_if_changed
    except Exception:
        def write_if_changed(path, text):
            if os.path.exists(path) and open(path).read() == text: return False
            with open(path, 'w') as f: f.write(text)
            return True
    report['rewritten'] = write_if_changed(os.path.join(gen_dir, OUT), text)
    return report


if __name__ == '__main__':
    import sys, json
    text, report, _ = analyse(sys.argv[1] if len(sys.argv) > 1 else '/repo')
    print(text); print(json.dumps(report, indent=1))
