"""Regenerates coq/Gen/Constants.v from dinosaur/radiation.py and
dinosaur/held_suarez.py (property C20).

* module-level constants of radiation.py (DAYS_PER_YEAR, MINUTES_PER_DAY,
  SECONDS_PER_DAY, TOTAL_SOLAR_IRRADIANCE, SOLAR_IRRADIANCE_VARIATION,
  PERIHELION, SPRING_EQUINOX, EARTH_AXIS_INCLINATION) as exact rationals
  (decimal literals are read from the source text, so 23.45 is 2345/100) and
  as carrier-generic expressions in `pi`;
* the return expressions of the five small formula functions
  (get_direct_solar_irradiance, get_declination, equation_of_time,
  get_hour_angle, get_solar_sin_altitude) as carrier-generic Gallina over
  abstract `cosf`/`sinf`/`pi` (Thm/Forcings.v proves them equal to the
  hand-written model, so a changed formula breaks a proof);
* the shape of the final expression of get_radiation_flux (which factors are
  multiplied: irradiance, daytime mask, sin altitude) and the comparison used
  for the mask;
* default parameters of HeldSuarezForcing.__init__ (magnitudes; pint units are
  replaced by 1 and recorded in a comment).

Fail closed: anything not understood is recorded as a gap, the constant is
emitted as -1 and `gen_constants_ok` as `false`; Prop/C20.v proves
`gen_constants_ok = true` and sign facts about the constants, which then fail.
"""
import ast, os
from fractions import Fraction

RAD_CONSTS = ['DAYS_PER_YEAR', 'MINUTES_PER_DAY', 'SECONDS_PER_DAY', 'TOTAL_SOLAR_IRRADIANCE',
              'SOLAR_IRRADIANCE_VARIATION', 'PERIHELION', 'SPRING_EQUINOX', 'EARTH_AXIS_INCLINATION']
RAD_FUNCS = {
    # name: (parameters in order, parameters that have defaults which are module constants)
    'get_direct_solar_irradiance': ['orbital_phase', 'mean_irradiance', 'variation', 'perihelion'],
    'get_declination': ['orbital_phase'],
    'equation_of_time': ['orbital_phase'],
    'get_hour_angle': ['orbital_phase', 'synodic_phase', 'longitude'],
    'get_solar_sin_altitude': ['orbital_phase', 'synodic_phase', 'longitude', 'latitude'],
}
HS_PARAMS = ['p0', 'sigma_b', 'kf', 'ka', 'ks', 'minT', 'maxT', 'dTy', 'dThz']


class Gap(Exception):
    pass


def _is_units(node):
    """units.X, possibly raised to an integer power."""
    if isinstance(node, ast.Attribute) and isinstance(node.value, ast.Name) and node.value.id == 'units':
        return node.attr
    if isinstance(node, ast.BinOp) and isinstance(node.op, ast.Pow):
        u = _is_units(node.left)
        if u and isinstance(node.right, ast.Constant) and isinstance(node.right.value, int):
            return f'{u}^{node.right.value}'
    return None


def _is_pi(node):
    return (isinstance(node, ast.Attribute) and node.attr == 'pi' and isinstance(node.value, ast.Name)
            and node.value.id in ('jnp', 'np', 'math'))


def _trig(node):
    if (isinstance(node, ast.Call) and isinstance(node.func, ast.Attribute) and node.func.attr in ('cos', 'sin')
            and isinstance(node.func.value, ast.Name) and node.func.value.id in ('jnp', 'np', 'math')
            and len(node.args) == 1 and not node.keywords):
        return node.func.attr
    return None


class Tr:
    """Expression translator: python AST -> (gallina string over F, Fraction or None, units list)."""

    def __init__(self, src, env, calls=None):
        self.src = src          # source text (for literal spelling)
        self.env = env          # name -> (gallina, Fraction|None)
        self.calls = calls or {}  # function name -> (gallina name, [param names])
        self.units = []

    def lit(self, node):
        v = node.value
        if isinstance(v, bool) or not isinstance(v, (int, float)):
            raise Gap(f'literal {v!r}')
        if isinstance(v, int):
            q = Fraction(v)
        else:
            seg = ast.get_source_segment(self.src, node)
            try:
                q = Fraction(seg.replace('_', ''))
            except Exception:
                raise Gap(f'float literal spelling {seg!r}')
            if float(q) != v:
                raise Gap(f'float literal {seg!r} not round-tripping')
        return q

    @staticmethod
    def qlit(q):
        n = f'({q.numerator})' if q.numerator < 0 else f'{q.numerator}'
        return f'(fofQ ({n} # {q.denominator}))'

    def tr(self, node):
        if isinstance(node, ast.Constant):
            q = self.lit(node)
            return self.qlit(q), q
        u = _is_units(node)
        if u:
            self.units.append(u)
            return '1', Fraction(1)
        if _is_pi(node):
            return 'pi', None
        if isinstance(node, ast.Name):
            if node.id in self.env:
                return self.env[node.id]
            raise Gap(f'unknown name {node.id}')
        t = _trig(node)
        if t:
            a, _ = self.tr(node.args[0])
            return f'({t}f {a})', None
        if isinstance(node, ast.Call) and isinstance(node.func, ast.Name) and node.func.id in self.calls:
            gname, params = self.calls[node.func.id]
            if node.args and node.keywords:
                raise Gap('mixed positional/keyword call')
            if node.keywords:
                kw = {k.arg: k.value for k in node.keywords}
                if sorted(kw) != sorted(params):
                    raise Gap(f'call {node.func.id}: keywords {sorted(kw)}')
                args = [kw[p] for p in params]
            else:
                args = node.args
                if len(args) != len(params):
                    raise Gap(f'call {node.func.id}: arity')
            return '(' + gname + ' ' + ' '.join(self.tr(a)[0] for a in args) + ')', None
        if isinstance(node, ast.UnaryOp) and isinstance(node.op, ast.USub):
            a, q = self.tr(node.operand)
            return f'(- {a})', (None if q is None else -q)
        if isinstance(node, ast.UnaryOp) and isinstance(node.op, ast.UAdd):
            return self.tr(node.operand)
        if isinstance(node, ast.BinOp):
            if isinstance(node.op, ast.Pow):
                a, qa = self.tr(node.left)
                if isinstance(node.right, ast.Constant) and isinstance(node.right.value, int) and 1 <= node.right.value <= 8:
                    n = node.right.value
                    return '(' + ' * '.join([a] * n) + ')', (None if qa is None else qa ** n)
                raise Gap('power with non-literal exponent')
            ops = {ast.Add: '+', ast.Sub: '-', ast.Mult: '*', ast.Div: '/'}
            for k, s in ops.items():
                if isinstance(node.op, k):
                    a, qa = self.tr(node.left)
                    b, qb = self.tr(node.right)
                    q = None
                    if qa is not None and qb is not None:
                        if s == '/' and qb == 0:
                            raise Gap('division by zero')
                        q = {'+': qa + qb, '-': qa - qb, '*': qa * qb, '/': qa / qb if qb else None}[s]
                    return f'({a} {s} {b})', q
            raise Gap(f'operator {type(node.op).__name__}')
        raise Gap(f'expression {type(node).__name__}')


def _pi_coeff(node, tr):
    """If the expression is (rational)*pi, return the rational (evaluate with pi := 1
    after checking homogeneity of degree 1 by evaluating at pi := 2)."""
    def ev(n, piv):
        if isinstance(n, ast.Constant): return tr.lit(n)
        if _is_pi(n): return Fraction(piv)
        if isinstance(n, ast.Name) and n.id in tr.env and tr.env[n.id][1] is not None: return tr.env[n.id][1]
        if isinstance(n, ast.BinOp):
            a, b = ev(n.left, piv), ev(n.right, piv)
            if isinstance(n.op, ast.Add): return a + b
            if isinstance(n.op, ast.Sub): return a - b
            if isinstance(n.op, ast.Mult): return a * b
            if isinstance(n.op, ast.Div): return a / b
        raise Gap('pi coefficient')
    c1, c2 = ev(node, 1), ev(node, 2)
    if c2 != 2 * c1: raise Gap('not linear in pi')
    return c1


def _qdef(name, q, comment=''):
    n = f'({q.numerator})' if q.numerator < 0 else f'{q.numerator}'
    return f'Definition {name} : Q := {n} # {q.denominator}.' + (f'  (* {comment} *)' if comment else '')


def _func_body(fn, src, env, calls, params):
    """Straight-line body: optional docstring, `name = expr` assignments, `return expr`."""
    got = [a.arg for a in fn.args.args]
    if got != params or fn.args.vararg or fn.args.kwarg or fn.args.kwonlyargs:
        raise Gap(f'{fn.name}: parameters {got}')
    loc = dict(env)
    for p in params: loc[p] = (p, None)
    tr = Tr(src, loc, calls)
    lets = []
    body = list(fn.body)
    if body and isinstance(body[0], ast.Expr) and isinstance(body[0].value, ast.Constant) and isinstance(body[0].value.value, str):
        body = body[1:]
    for st in body:
        if isinstance(st, ast.Assign) and len(st.targets) == 1 and isinstance(st.targets[0], ast.Name):
            g, _ = tr.tr(st.value)
            nm = st.targets[0].id
            lets.append((nm + '_', g)); loc[nm] = (nm + '_', None)
        elif isinstance(st, ast.Return) and st.value is not None:
            g, _ = tr.tr(st.value)
            return ''.join(f'let {n} := {e} in\n    ' for n, e in lets) + g
        else:
            raise Gap(f'{fn.name}: statement {type(st).__name__}')
    raise Gap(f'{fn.name}: no return')


def _flux_shape(fn, src):
    """get_radiation_flux: returns (mask comparison description, ordered factor names of the
    returned product) e.g. ('sin_altitude > 0', ['flux','is_daytime','sin_altitude'])."""
    assigns = {}
    ret = None
    for st in fn.body:
        if isinstance(st, ast.Assign) and len(st.targets) == 1 and isinstance(st.targets[0], ast.Name):
            assigns[st.targets[0].id] = st.value
        elif isinstance(st, ast.Return):
            ret = st.value
    if ret is None: raise Gap('get_radiation_flux: no return')
    def factors(n):
        if isinstance(n, ast.BinOp) and isinstance(n.op, ast.Mult): return factors(n.left) + factors(n.right)
        if isinstance(n, ast.Name): return [n.id]
        raise Gap('get_radiation_flux: return is not a product of names')
    fs = factors(ret)
    kinds = []
    for f in fs:
        v = assigns.get(f)
        if v is None: raise Gap(f'get_radiation_flux: factor {f} not assigned')
        if isinstance(v, ast.Compare):
            if (len(v.ops) == 1 and isinstance(v.ops[0], ast.Gt) and isinstance(v.left, ast.Name)
                    and isinstance(v.comparators[0], ast.Constant) and v.comparators[0].value == 0
                    and isinstance(assigns.get(v.left.id), ast.Call) and getattr(assigns[v.left.id].func, 'id', '') == 'get_solar_sin_altitude'):
                kinds.append('mask')
            else:
                raise Gap('get_radiation_flux: daytime mask is not `sin_altitude > 0`')
        elif isinstance(v, ast.Call) and isinstance(v.func, ast.Name):
            if v.func.id == 'get_solar_sin_altitude':
                kw = {k.arg: ast.unparse(k.value) for k in v.keywords}
                want = {'orbital_phase': 'orbital_time.orbital_phase', 'synodic_phase': 'orbital_time.synodic_phase',
                        'longitude': 'longitude', 'latitude': 'latitude'}
                if kw != want or v.args: raise Gap(f'get_radiation_flux: sin altitude call {kw}')
                kinds.append('sinalt')
            elif v.func.id == 'get_direct_solar_irradiance':
                kw = {k.arg: ast.unparse(k.value) for k in v.keywords}
                want = {'orbital_phase': 'orbital_time.orbital_phase', 'mean_irradiance': 'mean_irradiance', 'variation': 'variation'}
                if kw != want or v.args: raise Gap(f'get_radiation_flux: irradiance call {kw}')
                kinds.append('irr')
            else:
                raise Gap(f'get_radiation_flux: factor call {v.func.id}')
        else:
            raise Gap(f'get_radiation_flux: factor {f}')
    return kinds


def _generate(repo, gen_dir):
    from translate import gen_all
    report = {'gaps': [], 'constants': {}, 'functions': [], 'hs_defaults': {}}
    gaps = report['gaps']
    out = ['(** GENERATED by tools/translate/gen_constants.py from dinosaur/radiation.py and',
           '    dinosaur/held_suarez.py - do not edit. *)',
           'From Dino Require Import Base.Ops.', 'Local Open Scope F_scope.', '',
           '(** rational literal in an arbitrary carrier *)',
           'Definition fofQ {F : Type} {o : Ops F} (q : Q) : F := fofZ (Qnum q) / fofZ (Zpos (Qden q)).', '']
    qdefs = []; gdefs = []; fdefs = []
    env = {}
    # ---------------- radiation.py ----------------
    try:
        src = open(os.path.join(repo, 'dinosaur', 'radiation.py')).read()
        mod = ast.parse(src)
    except Exception as e:
        gaps.append(f'radiation.py: {e!r}'); src = ''; mod = ast.Module(body=[], type_ignores=[])
    consts = {}
    for st in mod.body:
        if isinstance(st, ast.Assign) and len(st.targets) == 1 and isinstance(st.targets[0], ast.Name) and st.targets[0].id in RAD_CONSTS:
            consts[st.targets[0].id] = st.value
    for name in RAD_CONSTS:
        ok = False
        if name in consts:
            tr = Tr(src, env)
            try:
                g, q = tr.tr(consts[name])
                if q is not None:
                    qdefs.append(_qdef(name + '_Q', q, ('units: ' + ' '.join(tr.units)) if tr.units else ''))
                    gdefs.append(f'  Definition {name} (pi : F) : F := fofQ {name}_Q.')
                    report['constants'][name] = str(q)
                else:
                    c = _pi_coeff(consts[name], tr)
                    qdefs.append(_qdef(name + '_over_pi_Q', c, 'coefficient of pi'))
                    gdefs.append(f'  Definition {name} (pi : F) : F := {g}.')
                    report['constants'][name] = f'{c}*pi'
                env[name] = (f'({name} pi)', q)
                ok = True
            except Gap as e:
                gaps.append(f'{name}: {e}')
            except Exception as e:
                gaps.append(f'{name}: {e!r}')
        else:
            gaps.append(f'{name}: not found')
        if not ok:
            qdefs.append(_qdef(name + '_Q', Fraction(-1), 'GAP'))
            qdefs.append(_qdef(name + '_over_pi_Q', Fraction(-1), 'GAP'))
            gdefs.append(f'  Definition {name} (pi : F) : F := fofQ {name}_Q.')
            env[name] = (f'({name} pi)', None)
    # formula functions
    fns = {st.name: st for st in mod.body if isinstance(st, ast.FunctionDef)}
    calls = {}
    defaults_ok = True
    for name, params in RAD_FUNCS.items():
        body = None
        try:
            if name not in fns: raise Gap(f'{name}: not found')
            body = _func_body(fns[name], src, env, calls, params)
            if name == 'get_direct_solar_irradiance':
                d = [ast.unparse(x) for x in fns[name].args.defaults]
                if d != ['TOTAL_SOLAR_IRRADIANCE', 'SOLAR_IRRADIANCE_VARIATION', 'PERIHELION']:
                    raise Gap(f'{name}: defaults {d}')
        except Gap as e:
            gaps.append(str(e)); body = None
        except Exception as e:
            gaps.append(f'{name}: {e!r}'); body = None
        if body is None:
            body = '- (1)'
        fdefs.append(f'  Definition gen_{name} (cosf sinf : F -> F) (pi : F) ({" ".join(params)} : F) : F :=\n    {body}.')
        calls[name] = ('gen_' + name + ' cosf sinf pi', params)
        report['functions'].append(name)
    # get_radiation_flux shape
    kinds = None
    try:
        if 'get_radiation_flux' not in fns: raise Gap('get_radiation_flux: not found')
        kinds = _flux_shape(fns['get_radiation_flux'], src)
        if sorted(kinds) != ['irr', 'mask', 'sinalt']:
            raise Gap(f'get_radiation_flux: factors {kinds}')
        d = [ast.unparse(x) for x in fns['get_radiation_flux'].args.defaults]
        if d != ['TOTAL_SOLAR_IRRADIANCE', 'SOLAR_IRRADIANCE_VARIATION']:
            raise Gap(f'get_radiation_flux: defaults {d}')
    except Gap as e:
        gaps.append(str(e)); kinds = None
    except Exception as e:
        gaps.append(f'get_radiation_flux: {e!r}'); kinds = None
    report['flux_factors'] = kinds
    if kinds:
        term = {'irr': '(gen_get_direct_solar_irradiance cosf sinf pi orbital_phase mean_irradiance variation (PERIHELION pi))',
                'mask': '(if fleb s 0 then 0 else 1)', 'sinalt': 's'}
        prod = ' * '.join(term[k] for k in kinds)
    else:
        prod = '- (1)'
    fdefs.append('  (** get_radiation_flux: product of the factors in source order; the mask is `sin_altitude > 0` *)\n'
                 '  Definition gen_get_radiation_flux (cosf sinf : F -> F) (pi : F) (orbital_phase synodic_phase longitude latitude mean_irradiance variation : F) : F :=\n'
                 '    let s := gen_get_solar_sin_altitude cosf sinf pi orbital_phase synodic_phase longitude latitude in\n'
                 f'    {prod}.')
    # normalised variant: scale = mean + variation; arguments divided by scale
    norm_ok = False
    try:
        fn = fns['get_normalized_radiation_flux']
        txt = [ast.unparse(s) for s in fn.body if not (isinstance(s, ast.Expr) and isinstance(s.value, ast.Constant))]
        want = ['scale = mean_irradiance + variation',
                'return get_radiation_flux(orbital_time, longitude, latitude, mean_irradiance=mean_irradiance / scale, variation=variation / scale)']
        norm_ok = (txt == want)
        if not norm_ok: gaps.append(f'get_normalized_radiation_flux: body {txt}')
    except Exception as e:
        gaps.append(f'get_normalized_radiation_flux: {e!r}')
    report['normalized_ok'] = norm_ok
    # ---------------- held_suarez.py ----------------
    hs_units = {}
    try:
        hsrc = open(os.path.join(repo, 'dinosaur', 'held_suarez.py')).read()
        hmod = ast.parse(hsrc)
        cls = [s for s in hmod.body if isinstance(s, ast.ClassDef) and s.name == 'HeldSuarezForcing'][0]
        init = [s for s in cls.body if isinstance(s, ast.FunctionDef) and s.name == '__init__'][0]
        names = [a.arg for a in init.args.args]
        defs = init.args.defaults
        dmap = dict(zip(names[len(names) - len(defs):], defs))
    except Exception as e:
        gaps.append(f'held_suarez.py: {e!r}'); dmap = {}; hsrc = ''
    for p in HS_PARAMS:
        q = None
        if p in dmap:
            tr = Tr(hsrc, {})
            try:
                _, q = tr.tr(dmap[p])
                if q is None: raise Gap('not rational')
                hs_units[p] = ' '.join(tr.units)
            except Gap as e:
                gaps.append(f'hs default {p}: {e}'); q = None
            except Exception as e:
                gaps.append(f'hs default {p}: {e!r}'); q = None
        else:
            gaps.append(f'hs default {p}: not found')
        if q is None: q = Fraction(-1)
        report['hs_defaults'][p] = str(q)
        qdefs.append(_qdef(f'hs_default_{p}_Q', q, 'magnitude; pint units in source expression: ' + (hs_units.get(p) or 'none')))
    ok = not gaps
    out += qdefs
    out += ['', f'Definition gen_constants_ok : bool := {"true" if ok else "false"}.']
    if gaps:
        out += ['(* translator gaps:'] + ['   ' + g.replace('*)', '* )') for g in gaps] + ['*)']
    out += ['', 'Section GenForcings.', '  Context {F : Type} {o : Ops F}.',
            '']
    out += gdefs + [''] + fdefs + ['End GenForcings.', '']
    try:
        report['changed'] = gen_all.write_if_changed(os.path.join(gen_dir, 'Constants.v'), '\n'.join(out))
    except Exception as e:
        gaps.append(f'write: {e!r}')
    return report


def generate(repo, gen_dir):
    """Never raises; on an unexpected error the generated file is replaced by a stub that
    makes every dependent file fail to build (fail closed) instead of leaving a stale file."""
    try:
        return _generate(repo, gen_dir)
    except Exception as e:
        try:
            from translate import gen_all
            gen_all.write_if_changed(os.path.join(gen_dir, 'Constants.v'),
                                     '(* GENERATED stub: translator failed: %s *)\nDefinition gen_constants_ok : bool := false.\n'
                                     % repr(e).replace('*)', '* )'))
        except Exception:
            pass
        return {'gaps': ['translator exception: %r' % (e,)], 'error': repr(e)}
