"""Translator for property C01 (Legendre part): regenerates coq/Gen/Legendre.v from
<repo>/dinosaur/associated_legendre.py (Python `ast` only; nothing is imported from
the repository).

Emitted (carrier-generic Gallina, `Context {F} {o : Ops F}`; `sq` stands for np.sqrt):
  leg_y2 x                      <- radicand of  y = np.sqrt(1 - x * x)
  rad_init                      <- radicand of  1 / np.sqrt(2)
  leg_init sq p00               <- p[0, 0] = p[0, 0] + 1 / np.sqrt(2)
  rad_diag m                    <- radicand of  np.sqrt(1 + 1 / (2 * m))
  leg_diag_step sq m y pm1      <- p[0, m] = -np.sqrt(...) * y * p[0, m - 1]      (with its sign)
  rad_a m k, rad_b m k          <- radicands of a, b (m2, mk2, mkp2 = np.square(..) substituted)
  leg_step a b x p1 p2          <- p[k, :m_max] = a * (x * p[k - 1, :m_max] - b * p[k - 2, :m_max])
  leg_weight_norm w s           <- return w / w.sum() * 2              (_compute_weights)
and over nat / Z:
  leg_m_max n_m n_l k           <- m_max = min(n_m, n_l - k)
  leg_off1, leg_off2 : Z        <- the row offsets  k - 1,  k - 2
  leg_rejects n_m n_l           <- if n_m > n_l: raise ValueError
  leg_dst_lo/hi, leg_src_lo/hi  <- p[m, :, m:n_l] = r[m, :, 0:n_l - m]   (slice bounds, nat)
Integer literals k of field expressions are emitted as [llit k] (= 1 + ... + 1).
Everything else in the three functions (loop ranges, array shapes, transpose axes, keyword
arguments, the `truncation == 'triangle'` test, the solve call) is CHECKED to have exactly
the shape the hand-written model Model/Legendre.v assumes.

Fail-closed: an AST shape that is not understood is recorded in report['gaps'], the
affected definitions are emitted as syntactically valid dummies and
[gen_legendre_complete] as [false], so that Thm/Legendre.v (lemma
gen_legendre_complete_ok) no longer compiles."""
from __future__ import annotations
import ast, os

OUT = 'Legendre.v'


class Gap(Exception):
    pass


def strip_doc(body):
    if body and isinstance(body[0], ast.Expr) and isinstance(getattr(body[0], 'value', None), ast.Constant) \
            and isinstance(body[0].value.value, str):
        return body[1:]
    return body


def find_func(tree, name):
    for n in tree.body:
        if isinstance(n, ast.FunctionDef) and n.name == name:
            return n
    raise Gap('function %s not found' % name)


def is_np_call(node, name, nargs=None):
    """np.<name>(...) (or np.linalg.<name>) without keywords."""
    if not (isinstance(node, ast.Call) and isinstance(node.func, ast.Attribute) and node.func.attr == name):
        return False
    if node.keywords: return False
    return nargs is None or len(node.args) == nargs


def int_lit(node):
    if isinstance(node, ast.Constant) and isinstance(node.value, int) and not isinstance(node.value, bool):
        return node.value
    if isinstance(node, ast.UnaryOp) and isinstance(node.op, ast.USub):
        return -int_lit(node.operand)
    raise Gap('integer literal expected, got %s' % ast.dump(node)[:60])


def assign_parts(stmt):
    if not (isinstance(stmt, ast.Assign) and len(stmt.targets) == 1):
        raise Gap('plain assignment expected, got %s' % type(stmt).__name__)
    return stmt.targets[0], stmt.value


def name_is(node, nm):
    return isinstance(node, ast.Name) and node.id == nm


def unparse(n):
    try: return ast.unparse(n)
    except Exception: return '<?>'


def expect_src(node, text, what):
    """Exact (normalised) source form of a structural piece the model hard-wires."""
    if unparse(node) != text:
        raise Gap('%s: expected `%s`, found `%s`' % (what, text, unparse(node)[:80]))


def fexpr(node, env, sqrt_cb=None):
    """Python arithmetic expression -> Gallina term over F.  env maps the *unparsed source text* of
    leaves (names, subscripts) to Gallina variables.  np.sqrt(e) -> sqrt_cb(e) when allowed;
    np.square(e) -> (e * e)."""
    key = unparse(node)
    if key in env and not isinstance(node, (ast.Constant, ast.BinOp, ast.UnaryOp)):
        return env[key]
    if isinstance(node, ast.Constant):
        if isinstance(node.value, bool) or not isinstance(node.value, int) or not (0 <= node.value <= 64):
            raise Gap('constant %r' % (node.value,))
        return '(llit %d)' % node.value
    if isinstance(node, ast.UnaryOp):
        if isinstance(node.op, ast.USub): return '(- %s)' % fexpr(node.operand, env, sqrt_cb)
        raise Gap('unary %s' % type(node.op).__name__)
    if isinstance(node, ast.BinOp):
        ops = {ast.Add: '+', ast.Sub: '-', ast.Mult: '*', ast.Div: '/'}
        for k, s in ops.items():
            if isinstance(node.op, k):
                return '(%s %s %s)' % (fexpr(node.left, env, sqrt_cb), s, fexpr(node.right, env, sqrt_cb))
        raise Gap('operator %s' % type(node.op).__name__)
    if is_np_call(node, 'sqrt', 1) and sqrt_cb is not None:
        return sqrt_cb(node.args[0])
    if is_np_call(node, 'square', 1):
        e = fexpr(node.args[0], env, sqrt_cb)
        return '(%s * %s)' % (e, e)
    raise Gap('expression `%s`' % key[:60])


def nexpr(node, env):
    """non-negative integer expression -> Gallina nat term (truncated subtraction)."""
    if isinstance(node, ast.Name):
        if node.id in env: return env[node.id]
        raise Gap('unknown name %s' % node.id)
    if isinstance(node, ast.Constant):
        v = int_lit(node)
        if v < 0: raise Gap('negative constant')
        return '%d' % v
    if isinstance(node, ast.BinOp):
        l, r = nexpr(node.left, env), nexpr(node.right, env)
        if isinstance(node.op, ast.Add): return '(%s + %s)' % (l, r)
        if isinstance(node.op, ast.Sub): return '(%s - %s)' % (l, r)
        if isinstance(node.op, ast.Mult): return '(%s * %s)' % (l, r)
        raise Gap('integer operator %s' % type(node.op).__name__)
    if isinstance(node, ast.Call) and name_is(node.func, 'min') and len(node.args) == 2 and not node.keywords:
        return '(Nat.min %s %s)' % (nexpr(node.args[0], env), nexpr(node.args[1], env))
    raise Gap('integer expression `%s`' % unparse(node)[:60])


def sub_index(node, arr):
    """`arr[i0, i1, ...]` -> list of index nodes."""
    if not (isinstance(node, ast.Subscript) and name_is(node.value, arr)):
        raise Gap('expected a subscript of %s, found `%s`' % (arr, unparse(node)[:60]))
    sl = node.slice
    return list(sl.elts) if isinstance(sl, ast.Tuple) else [sl]


def slice_bounds(node, env, what):
    if not (isinstance(node, ast.Slice) and node.step is None and node.lower is not None and node.upper is not None):
        raise Gap('%s: expected lower:upper slice' % what)
    return nexpr(node.lower, env), nexpr(node.upper, env)


def row_offset(node, what):
    """`k - c` -> -c"""
    if not (isinstance(node, ast.BinOp) and isinstance(node.op, ast.Sub) and name_is(node.left, 'k')):
        raise Gap('%s: expected k - <literal>, found `%s`' % (what, unparse(node)))
    c = int_lit(node.right)
    if c < 0: raise Gap('%s: negative offset' % what)
    return -c


def range_is(node, lo, hi):
    return (isinstance(node, ast.Call) and name_is(node.func, 'range') and not node.keywords and
            [unparse(a) for a in node.args] == ([hi] if lo is None else [lo, hi]))


# ---------------------------------------------------------------------------
def t_rhombus(tree):
    f = find_func(tree, '_evaluate_rhombus')
    if [a.arg for a in f.args.args] != ['n_l', 'n_m', 'x', 'truncation']:
        raise Gap('_evaluate_rhombus: arguments %s' % [a.arg for a in f.args.args])
    body = strip_doc(f.body)
    if len(body) != 7: raise Gap('_evaluate_rhombus: %d statements (expected 7)' % len(body))
    out = {}
    rads = {}

    def cb(name, args, env):
        def h(arg):
            if name in rads: raise Gap('second np.sqrt in the statement defining %s' % name)
            rads[name] = fexpr(arg, env)
            return '(sq (%s%s))' % (name, ''.join(' ' + a for a in args))
        return h

    # y = np.sqrt(1 - x * x)
    t, v = assign_parts(body[0])
    if not name_is(t, 'y') or not is_np_call(v, 'sqrt', 1): raise Gap('first statement is not y = np.sqrt(...)')
    out['leg_y2'] = fexpr(v.args[0], {'x': 'x'})
    # p = np.zeros((n_l, n_m, len(x)))
    t, v = assign_parts(body[1])
    if not name_is(t, 'p'): raise Gap('second statement does not define p')
    expect_src(v, 'np.zeros((n_l, n_m, len(x)))', 'allocation of p')
    # p[0, 0] = p[0, 0] + 1 / np.sqrt(2)
    t, v = assign_parts(body[2])
    expect_src(t, 'p[0, 0]', 'initial assignment target')
    out['leg_init'] = fexpr(v, {'p[0, 0]': 'p00'}, cb('rad_init', [], {}))
    if 'rad_init' not in rads: raise Gap('initial value has no np.sqrt')
    # for m in range(1, n_m): p[0, m] = -np.sqrt(1 + 1 / (2 * m)) * y * p[0, m - 1]
    lp = body[3]
    if not (isinstance(lp, ast.For) and name_is(lp.target, 'm') and range_is(lp.iter, '1', 'n_m') and not lp.orelse
            and len(lp.body) == 1):
        raise Gap('diagonal loop is not `for m in range(1, n_m): <one statement>`')
    t, v = assign_parts(lp.body[0])
    expect_src(t, 'p[0, m]', 'diagonal assignment target')
    out['leg_diag_step'] = fexpr(v, {'y': 'y', 'p[0, m - 1]': 'pm1'}, cb('rad_diag', ['m'], {'m': 'm'}))
    if 'rad_diag' not in rads: raise Gap('diagonal step has no np.sqrt')
    # m_max = n_m
    t, v = assign_parts(body[4])
    if not (name_is(t, 'm_max') and name_is(v, 'n_m')): raise Gap('expected m_max = n_m')
    # for k in range(1, n_l):
    lp = body[5]
    if not (isinstance(lp, ast.For) and name_is(lp.target, 'k') and range_is(lp.iter, '1', 'n_l') and not lp.orelse
            and len(lp.body) == 8):
        raise Gap('main loop is not `for k in range(1, n_l):` with 8 statements')
    b = lp.body
    iff = b[0]
    if not (isinstance(iff, ast.If) and not iff.orelse and len(iff.body) == 1):
        raise Gap('truncation test')
    expect_src(iff.test, "truncation == 'triangle'", 'truncation test')
    t, v = assign_parts(iff.body[0])
    if not name_is(t, 'm_max'): raise Gap('truncation branch does not assign m_max')
    out['leg_m_max'] = nexpr(v, {'n_m': 'n_m', 'n_l': 'n_l', 'k': 'k'})
    t, v = assign_parts(b[1])
    if not name_is(t, 'm'): raise Gap('expected definition of m')
    expect_src(v, 'np.arange(m_max).reshape((-1, 1))', 'definition of m')
    env = {'m': 'm', 'k': 'k'}
    lets = []
    for stmt, nm in ((b[2], 'm2'), (b[3], 'mk2'), (b[4], 'mkp2')):
        t, v = assign_parts(stmt)
        if not (name_is(t, nm) and is_np_call(v, 'square', 1)): raise Gap('expected %s = np.square(...)' % nm)
        lets.append((nm, fexpr(v, dict(env))))
        env[nm] = nm
    for stmt, nm in ((b[5], 'a'), (b[6], 'b')):
        t, v = assign_parts(stmt)
        if not (name_is(t, nm) and is_np_call(v, 'sqrt', 1)): raise Gap('expected %s = np.sqrt(...)' % nm)
        e = fexpr(v.args[0], dict(env))
        out['rad_' + nm] = ''.join('let %s := %s in ' % l for l in lets) + e
    # p[k, :m_max] = a * (x * p[k - 1, :m_max] - b * p[k - 2, :m_max])
    t, v = assign_parts(b[7])
    expect_src(t, 'p[k, :m_max]', 'recurrence assignment target')
    reads = [n for n in ast.walk(v) if isinstance(n, ast.Subscript)]
    if len(reads) != 2: raise Gap('recurrence reads %d rows of p (expected 2)' % len(reads))
    env2 = {'a': 'a', 'b': 'b', 'x': 'x'}
    offs = []
    for r, gv in zip(reads, ('p1', 'p2')):
        ix = sub_index(r, 'p')
        if len(ix) != 2: raise Gap('recurrence read `%s`' % unparse(r))
        expect_src(ix[1], ':m_max', 'column range of a recurrence read')
        offs.append(row_offset(ix[0], 'row of a recurrence read'))
        env2[unparse(r)] = gv
    if len(env2) != 5: raise Gap('the two recurrence reads are the same row')
    out['leg_step'] = fexpr(v, env2)
    out['leg_off1'], out['leg_off2'] = offs
    if not (isinstance(body[6], ast.Return) and name_is(body[6].value, 'p')): raise Gap('return is not `return p`')
    out.update(rads)
    return out


def t_evaluate(tree):
    f = find_func(tree, 'evaluate')
    if [a.arg for a in f.args.args] != ['n_m', 'n_l', 'x']: raise Gap('evaluate: arguments')
    body = strip_doc(f.body)
    if len(body) != 5: raise Gap('evaluate: %d statements (expected 5)' % len(body))
    out = {}
    g = body[0]
    if not (isinstance(g, ast.If) and not g.orelse and len(g.body) == 1 and isinstance(g.body[0], ast.Raise)
            and isinstance(g.body[0].exc, ast.Call) and name_is(g.body[0].exc.func, 'ValueError')):
        raise Gap('evaluate: first statement is not `if ...: raise ValueError(...)`')
    c = g.test
    if not (isinstance(c, ast.Compare) and len(c.ops) == 1 and len(c.comparators) == 1):
        raise Gap('evaluate: guard is not a single comparison')
    l, r = nexpr(c.left, {'n_m': 'n_m', 'n_l': 'n_l'}), nexpr(c.comparators[0], {'n_m': 'n_m', 'n_l': 'n_l'})
    op = c.ops[0]
    if isinstance(op, ast.Gt): out['leg_rejects'] = '(Nat.ltb %s %s)' % (r, l)
    elif isinstance(op, ast.GtE): out['leg_rejects'] = '(Nat.leb %s %s)' % (r, l)
    elif isinstance(op, ast.Lt): out['leg_rejects'] = '(Nat.ltb %s %s)' % (l, r)
    elif isinstance(op, ast.LtE): out['leg_rejects'] = '(Nat.leb %s %s)' % (l, r)
    else: raise Gap('evaluate: guard operator %s' % type(op).__name__)
    t, v = assign_parts(body[1])
    if not name_is(t, 'r'): raise Gap('evaluate: second statement does not define r')
    expect_src(v, "np.transpose(_evaluate_rhombus(n_l=n_l, n_m=n_m, x=x, truncation='triangle'), (1, 2, 0))", 'definition of r')
    t, v = assign_parts(body[2])
    if not name_is(t, 'p'): raise Gap('evaluate: third statement does not define p')
    expect_src(v, 'np.zeros((n_m, len(x), n_l))', 'allocation of p (evaluate)')
    lp = body[3]
    if not (isinstance(lp, ast.For) and name_is(lp.target, 'm') and range_is(lp.iter, None, 'n_m') and not lp.orelse
            and len(lp.body) == 1):
        raise Gap('evaluate: re-indexing loop is not `for m in range(n_m): <one statement>`')
    t, v = assign_parts(lp.body[0])
    env = {'m': 'm', 'n_l': 'n_l'}
    for node, arr, pre in ((t, 'p', 'leg_dst'), (v, 'r', 'leg_src')):
        ix = sub_index(node, arr)
        if len(ix) != 3 or not name_is(ix[0], 'm'): raise Gap('evaluate: re-indexing `%s`' % unparse(node))
        expect_src(ix[1], ':', 're-indexing node axis')
        out[pre + '_lo'], out[pre + '_hi'] = slice_bounds(ix[2], env, 're-indexing of ' + arr)
    if not (isinstance(body[4], ast.Return) and name_is(body[4].value, 'p')): raise Gap('evaluate: return')
    return out


def t_weights(tree):
    f = find_func(tree, '_compute_weights')
    body = strip_doc(f.body)
    if len(body) != 5: raise Gap('_compute_weights: %d statements (expected 5)' % len(body))
    t, v = assign_parts(body[0])
    if not name_is(t, 'legendre'): raise Gap('_compute_weights: first statement')
    expect_src(v, 'evaluate(n_m=1, n_l=x.shape[0], x=x)[0].T', 'Legendre matrix')
    t, v = assign_parts(body[1]); expect_src(t, 'z', 'rhs'); expect_src(v, 'np.zeros_like(x)', 'rhs')
    t, v = assign_parts(body[2]); expect_src(t, 'z[0]', 'rhs entry'); expect_src(v, '1', 'rhs entry')
    t, v = assign_parts(body[3]); expect_src(t, 'w', 'solve'); expect_src(v, 'np.linalg.solve(legendre, z)', 'solve')
    r = body[4]
    if not isinstance(r, ast.Return): raise Gap('_compute_weights: return')
    return {'leg_weight_norm': fexpr(r.value, {'w': 'w', 'w.sum()': 's'})}


# ---------------------------------------------------------------------------
def generate(repo, gen_dir):
    from translate import gen_all
    report = {'gaps': []}
    items = {}
    tree = None
    try:
        tree = ast.parse(open(os.path.join(repo, 'dinosaur', 'associated_legendre.py')).read())
    except Exception as e:
        report['gaps'].append('associated_legendre.py: %r' % e)
    for key, fn in (('rhombus', t_rhombus), ('evaluate', t_evaluate), ('weights', t_weights)):
        try:
            if tree is None: raise Gap('source not available')
            items.update(fn(tree))
            report.setdefault('items', {})[key] = True
        except Gap as e:
            report['gaps'].append('%s: %s' % (key, e)); report.setdefault('items', {})[key] = False
        except Exception as e:      # never raise
            report['gaps'].append('%s: %r' % (key, e)); report.setdefault('items', {})[key] = False

    def g(k, dflt): return items.get(k, dflt)
    L = []
    L.append('(** GENERATED by tools/translate/gen_legendre.py from dinosaur/associated_legendre.py.')
    L.append('    Do not edit: rewritten (only when its content changes) on every ./check run. *)')
    L.append('From Dino Require Import Base.Ops.')
    L.append('Local Open Scope F_scope.')
    L.append('')
    L.append('(** false iff the translator met a construct it does not understand (see evidence). *)')
    L.append('Definition gen_legendre_complete : bool := %s.' % ('false' if report['gaps'] else 'true'))
    L.append('')
    L.append('Section LegendreExprs.')
    L.append('  Context {F : Type} {o : Ops F}.')
    L.append('  (** integer literal k of the source as 1 + ... + 1 *)')
    L.append('  Fixpoint llit (n : nat) : F := match n with O => 0 | S k => llit k + 1 end.')
    L.append('  (** [sq] stands for np.sqrt *)')
    L.append('  Variable sq : F -> F.')
    L.append('')
    L.append('  (** y = np.sqrt(leg_y2 x) *)')
    L.append('  Definition leg_y2 (x : F) : F := %s.' % g('leg_y2', '0'))
    L.append('  (** p[0, 0] = leg_init p[0, 0] *)')
    L.append('  Definition rad_init : F := %s.' % g('rad_init', '0'))
    L.append('  Definition leg_init (p00 : F) : F := %s.' % g('leg_init', '0'))
    L.append('  (** p[0, m] = leg_diag_step m y p[0, m - 1] *)')
    L.append('  Definition rad_diag (m : F) : F := %s.' % g('rad_diag', '0'))
    L.append('  Definition leg_diag_step (m y pm1 : F) : F := %s.' % g('leg_diag_step', '0'))
    L.append('  (** a = np.sqrt(rad_a m k), b = np.sqrt(rad_b m k) *)')
    L.append('  Definition rad_a (m k : F) : F := %s.' % g('rad_a', '0'))
    L.append('  Definition rad_b (m k : F) : F := %s.' % g('rad_b', '0'))
    L.append('  (** p[k, :m_max] = leg_step a b x p[k + leg_off1, :m_max] p[k + leg_off2, :m_max] *)')
    L.append('  Definition leg_step (a b x p1 p2 : F) : F := %s.' % g('leg_step', '0'))
    L.append('  (** _compute_weights: return leg_weight_norm w (w.sum()) *)')
    L.append('  Definition leg_weight_norm (w s : F) : F := %s.' % g('leg_weight_norm', '0'))
    L.append('End LegendreExprs.')
    L.append('')
    L.append('Definition leg_off1 : Z := (%d)%%Z.' % g('leg_off1', 0))
    L.append('Definition leg_off2 : Z := (%d)%%Z.' % g('leg_off2', 0))
    L.append('Definition leg_m_max (n_m n_l k : nat) : nat := %s%%nat.' % g('leg_m_max', '0'))
    L.append('(** evaluate: `if <leg_rejects>: raise ValueError` *)')
    L.append('Definition leg_rejects (n_m n_l : nat) : bool := %s%%nat.' % g('leg_rejects', 'false'))
    L.append('(** evaluate: p[m, :, leg_dst_lo:leg_dst_hi] = r[m, :, leg_src_lo:leg_src_hi] *)')
    for k in ('leg_dst_lo', 'leg_dst_hi', 'leg_src_lo', 'leg_src_hi'):
        L.append('Definition %s (m n_l : nat) : nat := %s%%nat.' % (k, g(k, '0')))
    L.append('')
    text = '\n'.join(L) + '\n'
    try:
        report['changed'] = gen_all.write_if_changed(os.path.join(gen_dir, OUT), text)
    except Exception as e:
        report['gaps'].append('write: %r' % e)
    return report
