"""C03 - the implicit solve is the exact resolvent of the implicit tendency:
correspondence of Model/Implicit.v with dinosaur.primitive_equations /
shallow_water / time_integration.TimeReversedImExODE, the numerical check of
the `np.linalg.inv` hypotheses, and the property's clauses evaluated on the
implementation (complete basis of (div, T, lnps) x total wavenumber)."""
import json
import numpy as np
from fractions import Fraction
from harness import util

THEOREMS = ['C03_matrix_is_I_minus_eta_L', 'C03_L_linear', 'C03_split_eq_stacked', 'C03_stacked_resolvent',
            'C03_split_resolvent', 'C03_schur_blockwise_generic', 'C03_blockwise_resolvent',
            'C03_blockwise_eq_split', 'C03_temperature_sparse_eq_dense', 'C03_geopotential_sparse_eq_dense',
            'C03_implicit_terms_sparse_eq_dense', 'C03_time_reversed', 'C03_with_time_resolvent',
            'C03_passive_resolvent', 'C03_sw_resolvent', 'C03_sw_L_linear', 'C03_sw_time_reversed',
            'C03_sw_side_condition', 'C03_sw_resolvent_R', 'C03_resolvent_R', 'C03_hyps_satisfiable',
            'C03_model_is_source', 'C03_gen_implicit_complete']
LEVEL = 'proof'
LEVEL_TEXT = ('machine-checked theorems (Coq) for every field, every layer count K>=1, all boundaries, reference '
              'temperatures, kappa, R, eigenvalues and step sizes of either sign: the assembled implicit matrix is '
              'I - eta*implicit_terms; split/stacked/blockwise solves are exact resolvents whenever np.linalg.inv '
              'returns left inverses (Schur identity for arbitrary blocks); cumulative-sum forms of G and H equal the '
              'dense products on arbitrary (uneven) levels; time-reversed and with-time wrappers; shallow-water Schur '
              'solve with its side condition, which always holds over the reals for Phi>=0, lambda<=0')
LEVEL_NOTE = ('theorems are about the Gallina model Model/Implicit.v; np.linalg.inv is a parameter of the model, its '
              'left-inverse property is re-checked numerically per explored configuration (table obligation); '
              'log(centers) and laplacian_eigenvalues enter as tables; model tied to the code twice: the numpy constructions of '
              'alpha, G, H and the sparse weight vectors are regenerated from the AST of primitive_equations.py on every run '
              '(Gen/ImplicitSrc.v; C03_model_is_source proves Model/Implicit.v equal to them on every in-range index), and by '
              'differential correspondence on columns of every (m,l) coefficient')

_jax = None
def J():
    global _jax
    if _jax is None:
        util.setup_jax()
        import jax.numpy as jnp
        from dinosaur import (spherical_harmonic as sh, sigma_coordinates as sc, coordinate_systems as cs,
                              primitive_equations as pe, shallow_water as sw, time_integration as ti,
                              scales, layer_coordinates as lc)
        _jax = dict(jnp=jnp, sh=sh, sc=sc, cs=cs, pe=pe, sw=sw, ti=ti, scales=scales, lc=lc)
    return _jax


ETAS = [0.01, -0.01, 1.0, -1.0, 37.0, -37.0]
SLOP = 8.0     # the cumulative-sum forms add and subtract the local term: allow a few times the dense term bound


def _dyadic_boundaries(rng, K, bits=6):
    """Uneven boundaries k/2^bits (random composition of 2^bits into K positive parts): thicknesses are
    exact and have tiny odd parts, which keeps the exact rational model arithmetic cheap."""
    n = 2 ** bits
    cuts = np.sort(rng.choice(np.arange(1, n), size=K - 1, replace=False)) if K > 1 else np.array([], dtype=int)
    return (np.concatenate([[0], cuts, [n]]) / n).astype(np.float64)


def _levels(rng, K, r, reps, quick):
    if K == 1: return [0.0, 1.0]
    if r == 0 and K == 3: return [0.0, 0.25, 0.75, 1.0]             # the witness levels of the fixed defect
    if r == reps - 1 and K in (3, 4, 8): return np.linspace(0, 1, K + 1).tolist()
    if r == 1 and K <= (2 if quick else 3):                          # non-dyadic thickness ratios (costly exact arithmetic)
        return util.uneven_boundaries(rng, K, 6 if quick else 4).tolist()
    return _dyadic_boundaries(rng, K).tolist()


# ---------------------------------------------------------------------------
# case generation
# ---------------------------------------------------------------------------
def generate(ctx):
    rng = ctx.rng
    quick = ctx.tier == 'quick'
    Ks = [1, 2, 3, 5] if quick else [1, 2, 3, 4, 5, 7, 8]
    reps = 2 if quick else 3
    for K in Ks:
        for r in range(reps):
            b = _levels(rng, K, r, reps, quick)
            if r == 0 and K == 3:
                tref = [250.0] * K
            elif r % 2 == 0:
                tref = rng.integers(200 * 4, 300 * 4, size=K).astype(float) / 4
                tref = tref.tolist()
            else:
                base = float(rng.integers(210, 290)); slope = float(rng.integers(-40, 41)) / 2
                tref = (base + slope * (np.arange(K) - (K - 1) / 2) / max(K - 1, 1)).tolist()
            R = [287.0, 1.0, 3.5, 33.0][int(rng.integers(0, 4))] if r else 287.0
            kappa = [2.0 / 7, 0.25, 1.4][int(rng.integers(0, 3))] if r else 2.0 / 7
            radius = [1.0, 2.0, 0.5][int(rng.integers(0, 3))]
            cfg = {'b': b, 'tref': tref, 'R': R, 'kappa': kappa, 'radius': radius}
            uneven = len(set(np.round(np.diff(b), 12))) > 1
            ctx.count(f'K={K}'); ctx.count('levels:' + ('uneven' if uneven else 'equidistant'))
            ctx.count('tref:' + ('constant' if len(set(tref)) == 1 else 'non-uniform'))
            yield 'weights', dict(cfg, dseed=int(rng.integers(0, 2 ** 31)))
            etas = ETAS if (not quick or (r == 0 and K in (3, 5))) else [ETAS[int(i)] for i in rng.choice(6, size=2, replace=False)]
            for eta in etas:
                ctx.count(f'eta={eta}')
                n = 2 * K + 1
                yield 'matrix', dict(cfg, eta=eta)
                for off in range(0, n, 7):
                    yield 'solve', dict(cfg, eta=eta, state={'kind': 'onehot', 'offset': off, 'amp': [1.0, -2.5, 0.125][off % 3]},
                                        ncols=(6 if quick else 8), cseed=int(rng.integers(0, 2 ** 31)))
                yield 'solve', dict(cfg, eta=eta, state={'kind': 'random', 'seed': int(rng.integers(0, 2 ** 31))},
                                    ncols=(6 if quick else 8), cseed=int(rng.integers(0, 2 ** 31)))
            eta = ETAS[int(rng.integers(0, 6))]
            yield 'wrappers', dict(cfg, eta=eta, seed=int(rng.integers(0, 2 ** 31)), ncols=(4 if quick else 10))
    # structured reference profiles: plateaus at the top / bottom / middle (piecewise constant),
    # a single step, equal end values - profiles a random draw never produces
    for K, plate in ([(5, 'top'), (5, 'bottom'), (4, 'step'), (6, 'ends')] if quick else
                     [(k, pl) for k in (3, 5, 7) for pl in ('top', 'bottom', 'step', 'ends', 'middle')]):
        b = _dyadic_boundaries(rng, K, 7).tolist()
        t = (rng.integers(200 * 4, 300 * 4, size=K).astype(float) / 4)
        if plate == 'top': t[:3] = t[0]
        elif plate == 'bottom': t[-3:] = t[-1]
        elif plate == 'step': t[:K // 2] = 230.0; t[K // 2:] = 270.0
        elif plate == 'ends': t[-1] = t[0]
        elif plate == 'middle': t[1:-1] = t[1]
        ctx.count('tref:plateau-' + plate)
        cfg = {'b': b, 'tref': t.tolist(), 'R': 287.0, 'kappa': 2.0 / 7, 'radius': 1.0}
        yield 'weights', dict(cfg, dseed=int(rng.integers(0, 2 ** 31)))
        eta = ETAS[int(rng.integers(0, 6))]
        yield 'solve', dict(cfg, eta=eta, state={'kind': 'random', 'seed': int(rng.integers(0, 2 ** 31))},
                            ncols=(6 if quick else 8), cseed=int(rng.integers(0, 2 ** 31)))
    # other layouts of the modal arrays: padded (base_shape_multiple), total > longitude wavenumbers + 1,
    # tall / wide grids with a tiny truncation, and (z, x, y) device meshes (default method -> cumulative sums,
    # sharded cumsum); step sizes 0 and over six decades
    layouts = [(3, {'impl': 'fast4'}, 0.0), (2, {'lw': 3, 'tw': 6}, 1e-3), (4, {'impl': 'fast', 'lon': 16, 'lat': 8, 'mesh': [2, 2, 2]}, -1.0),
               (2, {'lw': 2, 'tw': 3, 'lon': 256, 'lat': 4}, 1e3)]
    if not quick:
        layouts += [(3, {'impl': 'fast8'}, 37.0), (2, {'impl': 'zeroimag'}, -0.01), (2, {'lw': 2, 'tw': 3, 'lon': 4, 'lat': 256}, -1e3),
                    (4, {'impl': 'fast', 'lon': 16, 'lat': 8, 'mesh': [4, 1, 2]}, 0.01), (6, {'impl': 'fast', 'lon': 16, 'lat': 8, 'mesh': [2, 1, 1]}, 1.0),
                    (3, {'lw': 4, 'tw': 5, 'lon': 6, 'lat': 6}, -1e-3), (1, {'impl': 'fast4'}, 0.0), (5, {}, 0.0), (5, {}, 1e3), (5, {}, -1e-3)]
    for K, g, eta in layouts:
        cfg = {'b': _dyadic_boundaries(rng, K).tolist(), 'tref': (rng.integers(200 * 4, 300 * 4, size=K).astype(float) / 4).tolist(),
               'R': [287.0, 3.5][K % 2], 'kappa': [2.0 / 7, 0.25][K % 2], 'radius': [1.0, 2.0][K % 2], 'grid': g}
        ctx.count('layout:' + json.dumps(g, sort_keys=True)); ctx.count(f'eta={eta}')
        yield 'matrix', dict(cfg, eta=eta)
        yield 'solve', dict(cfg, eta=eta, state={'kind': 'onehot', 'offset': 0, 'amp': 1.0}, ncols=(6 if quick else 8),
                            cseed=int(rng.integers(0, 2 ** 31)))
        yield 'solve', dict(cfg, eta=eta, state={'kind': 'random', 'seed': int(rng.integers(0, 2 ** 31))},
                            ncols=(6 if quick else 8), cseed=int(rng.integers(0, 2 ** 31)))
    # input forms, state across calls, jit / vmap / eval_shape / jvp / vjp / batch axes, rejected options
    for K, vary, eta in ([(4, 'tref', 1.0), (2, 'radius', -0.5)] if quick else
                         [(4, 'tref', 1.0), (2, 'radius', -0.5), (1, 'kappa', 37.0), (3, 'R', -0.01), (5, 'matmul', 0.5), (3, 'tref', 0.0)]):
        cfg = {'b': _dyadic_boundaries(rng, K).tolist(), 'tref': rng.integers(200, 300, size=K).astype(float).tolist(),
               'R': 3.5, 'kappa': 0.25, 'radius': 1.0}
        if vary == 'tref' and K > 2: cfg['tref'][1] = cfg['tref'][0]          # a plateau: exact zeros in down_weights (reverse mode)
        yield 'robust', dict(cfg, eta=eta, vary=vary, seed=int(rng.integers(0, 2 ** 31)), skind=('full' if vary != 'tref' else 'random'))
    # near-coincidences and extreme spacings of the level set / reference profile (values equal to within
    # 1e-5..1e-12 but not equal; boundaries only isclose to 0 and 1; layers of thickness 2^-30 next to thick ones)
    def near_sets():
        K = 8; e = np.arange(K + 1) / K
        jit_ = e + np.concatenate([[0], rng.integers(-1, 2, size=K - 1), [0]]) * 2.0 ** -22
        yield 'nearly-equidistant (k/K + 2^-22 jitter)', jit_, None, True
        f32 = np.concatenate([[0.0], np.cumsum(np.full(6, np.float32(1 / 6), dtype=np.float32), dtype=np.float32).astype(np.float64)])
        yield 'nearly-equidistant (float32-accumulated)', f32, None, True
        yield 'nearly-equidistant (round(k/K, 7))', np.round(np.arange(6) / 5, 7), None, False
        d = _dyadic_boundaries(rng, 4)
        yield 'boundaries only isclose to 0 and 1 (2^-27, 1 + 2^-24)', np.concatenate([[2.0 ** -27], d[1:-1], [1 + 2.0 ** -24]]), None, True
        yield 'boundaries only isclose to 0 and 1 (0, 1 - 2^-19)', np.concatenate([[0.0], d[1:-1], [1 - 2.0 ** -19]]), None, True
        yield 'thin layers (2^-30) next to thick ones', np.array([0, 2.0 ** -30, 0.5, 0.5 + 2.0 ** -30, 1.0]), None, True
        yield 'thin bottom layer (2^-30)', np.array([0, 0.25, 1 - 2.0 ** -30, 1.0]), None, True
        t = 250.0 + np.array([0, 1, -1, 2, 0]) * 2.0 ** -9
        yield 'nearly constant reference temperature (2^-9 K)', _dyadic_boundaries(rng, 5), t, True
        t = np.array([231.5, 231.5 + 2.0 ** -20, 260.25, 260.25 - 2.0 ** -20])
        yield 'nearly equal neighbouring reference temperatures (2^-20 K)', _dyadic_boundaries(rng, 4), t, True
    for name, b, t, exact_model in near_sets():
        K = len(b) - 1
        tref = (rng.integers(200 * 4, 300 * 4, size=K).astype(float) / 4) if t is None else t
        cfg = {'b': np.asarray(b, dtype=np.float64).tolist(), 'tref': np.asarray(tref).tolist(), 'R': 287.0, 'kappa': 2.0 / 7, 'radius': 1.0}
        ctx.count('levels:' + name)
        yield 'weights', dict(cfg, dseed=int(rng.integers(0, 2 ** 31)))
        for eta in ([1.0] if quick else [1.0, -0.01, 37.0]):
            if exact_model: yield 'matrix', dict(cfg, eta=eta)
            yield 'solve', dict(cfg, eta=eta, state={'kind': 'full', 'seed': int(rng.integers(0, 2 ** 31))}, ncols=(5 if quick else 8),
                                cseed=int(rng.integers(0, 2 ** 31)), nomodel=not exact_model)
    # step sizes and radii over many more decades (dyadic scalings keep the exact model cheap)
    for K, eta, radius in ([(2, 2.0 ** -30, 1.0), (3, -2.0 ** 20, 1.0), (2, 1.0, 2.0 ** -10), (2, -1e6, 2.0 ** 10)] if quick else
                           [(2, 2.0 ** -30, 1.0), (3, -2.0 ** 20, 1.0), (2, 1.0, 2.0 ** -10), (2, -1e6, 2.0 ** 10), (3, 1e-6, 1.0), (5, 2.0 ** 30, 1.0),
                            (3, -2.0 ** -30, 2.0 ** 20), (5, 2.0 ** 10, 2.0 ** -20), (1, 2.0 ** 14, 1.0), (4, 1e6, 1.0)]):     # K = 1 with eta >= 2^18 makes I - HG exactly singular in float64 (LinAlgError in numpy itself): not an evaluable case
        cfg = {'b': _dyadic_boundaries(rng, K).tolist(), 'tref': (rng.integers(200 * 4, 300 * 4, size=K).astype(float) / 4).tolist(),
               'R': 287.0, 'kappa': 0.25, 'radius': radius}
        ctx.count('decades: eta=%g radius=%g' % (eta, radius))
        yield 'matrix', dict(cfg, eta=eta)
        yield 'solve', dict(cfg, eta=eta, state={'kind': 'full', 'seed': int(rng.integers(0, 2 ** 31))}, ncols=6, cseed=int(rng.integers(0, 2 ** 31)))
    # non-dyadic constants, reference temperatures and full-mantissa states (float32 intermediates become visible)
    for K in ([3] if quick else [2, 3, 5]):
        cfg = {'b': _dyadic_boundaries(rng, K).tolist(), 'tref': (288.15 - 6.5 * np.arange(K) - rng.uniform(0, 1, size=K)).tolist(),
               'R': 287.05, 'kappa': 0.2857, 'radius': 6.371}
        ctx.count('non-dyadic constants and states')
        yield 'weights', dict(cfg, dseed=int(rng.integers(0, 2 ** 31)))
        for eta in ([0.3] if quick else [0.3, -1.7]):
            yield 'matrix', dict(cfg, eta=eta)
            yield 'solve', dict(cfg, eta=eta, state={'kind': 'full', 'seed': int(rng.integers(0, 2 ** 31))}, ncols=6, cseed=int(rng.integers(0, 2 ** 31)))
            yield 'wrappers', dict(cfg, eta=eta, seed=int(rng.integers(0, 2 ** 31)), ncols=4, skind='full')
    # sizes above every threshold of the cumulative-sum / matmul strategies, on skinny modal grids; the exact
    # model is cubic in K, so these cases are decided by independent numpy references
    for K in ([130, 260] if quick else [130, 260, 520, 1030]):
        ctx.count(f'many levels K={K}')
        yield 'big', {'K': K, 'bseed': int(rng.integers(0, 2 ** 31)), 'R': 287.0, 'kappa': 2.0 / 7, 'radius': 1.0,
                      'eta': [0.5, -1.0][K % 20 == 0], 'grid': {'lw': 2, 'tw': 3, 'lon': 4, 'lat': 4}, 'seed': int(rng.integers(0, 2 ** 31))}
    # more than 128 longitude wavenumbers / very tall node sets (modal layout only; one layer)
    for g in ([{'lw': 130, 'tw': 131, 'lon': 4, 'lat': 4}] if quick else
              [{'lw': 130, 'tw': 131, 'lon': 4, 'lat': 4}, {'lw': 130, 'tw': 131, 'lon': 4, 'lat': 4, 'impl': 'fast'},
               {'lw': 2, 'tw': 3, 'lon': 8, 'lat': 1030}, {'lw': 260, 'tw': 261, 'lon': 4, 'lat': 4}]):
        cfg = {'b': [0.0, 0.375, 1.0], 'tref': [251.25, 280.5], 'R': 287.0, 'kappa': 2.0 / 7, 'radius': 2.0, 'grid': g}
        ctx.count('layout:' + json.dumps(g, sort_keys=True))
        yield 'solve', dict(cfg, eta=-0.5, state={'kind': 'full', 'seed': int(rng.integers(0, 2 ** 31))}, ncols=6, cseed=int(rng.integers(0, 2 ** 31)))
    # the two vertical operators alone, on more layer counts
    for K in ([4, 8] if quick else [4, 6, 8, 12, 16]):
        b = _dyadic_boundaries(rng, K, 7).tolist()
        tref = (rng.integers(200 * 4, 300 * 4, size=K).astype(float) / 4).tolist()
        ctx.count(f'weights-only K={K}')
        yield 'weights', {'b': b, 'tref': tref, 'R': 287.0, 'kappa': [2.0 / 7, 0.25][K % 2], 'radius': 1.0,
                          'dseed': int(rng.integers(0, 2 ** 31))}
    # shallow water
    for layers in ([1, 2, 3] if quick else [1, 2, 3, 5, 8]):
        for r in range(2 if quick else 4):
            phi = (rng.integers(1, 400, size=layers).astype(float) / 8).tolist()
            if r == 1: phi = [0.0] + rng.integers(1, 60, size=layers - 1).astype(float).tolist()   # zero / integer-valued potentials
            dens = np.sort(rng.integers(8, 17, size=layers).astype(float) / 8).tolist()
            for eta in ((ETAS + [0.0, 1e-3, -1e3]) if not quick else [ETAS[int(i)] for i in rng.choice(6, size=3, replace=False)] + [[0.0, 1e3, -1e-3][layers - 1]] * (r == 1)):
                ctx.count(f'sw layers={layers}')
                yield 'shallow', {'phi': phi, 'densities': dens, 'eta': eta, 'radius': [1.0, 2.0, 0.5][r % 3],
                                  'seed': int(rng.integers(0, 2 ** 31)), 'ncols': (8 if quick else 20)}


# ---------------------------------------------------------------------------
# construction helpers (cached: equal configurations share jitted/compiled ops)
# ---------------------------------------------------------------------------
DEFAULT_GRID = {'lw': 4, 'tw': 5, 'lon': 12, 'lat': 6, 'impl': 'real', 'mesh': None}
_grids = {}; _meshes = {}
def _mesh(shape):
    """(z, x, y) device mesh on the forced host devices."""
    import jax
    shape = tuple(shape)
    if shape not in _meshes:
        n = int(np.prod(shape))
        _meshes[shape] = jax.sharding.Mesh(np.array(jax.devices()[:n]).reshape(shape), ('z', 'x', 'y'))
    return _meshes[shape]


def _grid(radius, g=None):
    import functools
    m = J(); sh = m['sh']
    g = dict(DEFAULT_GRID, **(g or {}))
    key = json.dumps([radius, g], sort_keys=True)
    if key not in _grids:
        impl = {'real': sh.RealSphericalHarmonics, 'fast': sh.FastSphericalHarmonics,
                'fast4': functools.partial(sh.FastSphericalHarmonics, base_shape_multiple=4),
                'fast8': functools.partial(sh.FastSphericalHarmonics, base_shape_multiple=8),
                'zeroimag': sh.RealSphericalHarmonicsWithZeroImag}[g['impl']]
        kw = {'spmd_mesh': _mesh(g['mesh'])} if g['mesh'] else {}
        _grids[key] = sh.Grid(longitude_wavenumbers=g['lw'], total_wavenumbers=g['tw'], longitude_nodes=g['lon'],
                              latitude_nodes=g['lat'], radius=radius, spherical_harmonics_impl=impl, **kw)
    return _grids[key]


def _lam_ref(a, grid):
    """Laplacian eigenvalues -l(l+1)/radius^2 recomputed from the grid definition; layouts padded in l carry
    the implementation's value in the padding (those coefficients are not part of the truncation)."""
    L = grid.modal_shape[1]; tw = dict(DEFAULT_GRID, **(a.get('grid') or {}))['tw']
    l = np.arange(L, dtype=np.float64)
    ref = -l * (l + 1) / (a['radius'] ** 2)
    return np.where(l < tw, ref, np.asarray(grid.laplacian_eigenvalues, dtype=np.float64))


_pes = {}
def _primitive(a, matmul=None, with_time=False):
    m = J(); pe = m['pe']
    key = json.dumps([a['b'], a['tref'], a['R'], a['kappa'], a['radius'], a.get('grid'), matmul, with_time], sort_keys=True)
    if key not in _pes:
        grid = _grid(a['radius'], a.get('grid'))
        vert = m['sc'].SigmaCoordinates(np.asarray(a['b'], dtype=np.float64))
        msh = (a.get('grid') or {}).get('mesh')
        coords = m['cs'].CoordinateSystem(grid, vert, spmd_mesh=_mesh(msh) if msh else None)
        specs = pe.PrimitiveEquationsSpecs(
            radius=a['radius'], angular_velocity=1.0, gravity_acceleration=1.0, ideal_gas_constant=a['R'],
            water_vapor_gas_constant=1.0, water_vapor_isobaric_heat_capacity=1.0, kappa=a['kappa'],
            scale=m['scales'].DEFAULT_SCALE)
        cls = pe.PrimitiveEquationsWithTime if with_time else pe.PrimitiveEquations
        _pes[key] = cls(np.asarray(a['tref'], dtype=np.float64), np.zeros(grid.modal_shape), coords, specs,
                        vertical_matmul_method=matmul)
        if len(_pes) > 64: _pes.pop(next(iter(_pes)))
    return _pes[key]


def _cfg_arrs(a, eta, lam):
    """Model arguments [ls, b, Tref, [R, kappa, eta, lam]] computed from the case arguments only (not from
    attributes of the objects under test); log() is the only library function involved."""
    b = np.asarray(a['b'], dtype=np.float64)
    return [np.log((b[1:] + b[:-1]) / 2), b, np.asarray(a['tref'], dtype=np.float64), [a['R'], a['kappa'], eta, lam]]


def _state(a, p, spec):
    """Deterministic state for a state spec: arrays div, T (K,M,L), lnps (1,M,L), vort, tracer."""
    K = p.coords.vertical.layers; M, L = p.coords.horizontal.modal_shape; n = 2 * K + 1
    if spec['kind'] == 'onehot':
        st = np.zeros((n, M, L))
        for mm in range(M):
            st[(mm + spec['offset']) % n, mm, :] = spec['amp']
        rng = np.random.default_rng(spec['offset'])
    elif spec['kind'] == 'full':
        # full 53-bit mantissas: a float32 intermediate anywhere is visible at the 2^-36 policy
        rng = np.random.default_rng(spec['seed'])
        st = rng.uniform(-2.0, 2.0, size=(n, M, L))
    else:
        rng = np.random.default_rng(spec['seed'])
        st = util.small_rationals(rng, (n, M, L))
    vort = util.small_rationals(rng, (K, M, L)); q = util.small_rationals(rng, (K, M, L))
    return st[:K], st[K:2 * K], st[2 * K:], vort, q


def _mkstate(div, T, lnps, vort, q, sim_time=None, p=None):
    m = J(); jnp = m['jnp']; pe = m['pe']
    kw = dict(vorticity=jnp.asarray(vort), divergence=jnp.asarray(div), temperature_variation=jnp.asarray(T),
              log_surface_pressure=jnp.asarray(lnps), tracers={'q': jnp.asarray(q)})
    st = pe.State(**kw) if sim_time is None else pe.StateWithTime(sim_time=sim_time, **kw)
    if p is not None and p.coords.spmd_mesh is not None:
        st = p.coords.with_dycore_sharding(st)
    return st


def _eta_unit(eta):
    """|eta| for turning M - I into |L| (eta = 0: M = I, any positive unit will do)."""
    return abs(eta) if eta else 1.0


def _stk(s):
    """(2K+1, M, L) stacked numpy array of the active components of a State."""
    return np.concatenate([np.asarray(s.divergence), np.asarray(s.temperature_variation),
                           np.asarray(s.log_surface_pressure)], axis=0)


def _pick_cols(M, L, ncols, cseed):
    """All l, a few m: column subset for the (costlier) exact-model comparison."""
    rng = np.random.default_rng(cseed)
    cols = [(int(rng.integers(0, M)), l) for l in range(L)]
    while len(cols) < ncols:
        cols.append((int(rng.integers(0, M)), int(rng.integers(0, L))))
    return cols


def _inverses(p, eta):
    """The matrices the implementation inverts, exactly as `implicit_inverse` computes them."""
    pe = J()['pe']
    K = p.coords.vertical.layers
    Mx = pe._get_implicit_term_matrix(eta, p.coords, p.reference_temperature, p.physics_specs.kappa, p.physics_specs.R)
    Minv = np.linalg.inv(Mx)
    div = slice(0, K); tl = slice(K, 2 * K + 1)
    GH = Mx[:, div, tl] @ Mx[:, tl, div]
    A = np.linalg.inv(np.eye(K) - GH)
    HG = Mx[:, tl, div] @ Mx[:, div, tl]
    B = np.linalg.inv(np.eye(K + 1) - HG)
    return Mx, Minv, (np.eye(K) - GH), A, (np.eye(K + 1) - HG), B


def _absmm(A, B):
    return np.abs(A) @ np.abs(B)


def _ninf(A):
    """infinity norm per total wavenumber: shape (l, 1, 1)"""
    return np.abs(A).sum(axis=-1).max(axis=-1)[:, None, None]


def _nw(*mats):
    """NORMWISE product of the factors (per total wavenumber). np.linalg.inv (LU with partial pivoting) is backward stable
    normwise, not componentwise: for the badly row-scaled matrices of extreme non-dimensional radii (cond ~ 1e13, thorough
    tier) its residual is ~ 0.1 eps ||X|| ||M|| although |X||M| is ~ 1e3 (false alarm of the thorough tier on the unchanged
    tree; DESIGN 9.7). Bounds therefore add 64 eps (= 2^-46) times the normwise product to 2^-36 times the componentwise one."""
    out = _ninf(mats[0])
    for m_ in mats[1:]: out = out * _ninf(m_)
    return out


# ---------------------------------------------------------------------------
# runners
# ---------------------------------------------------------------------------
def r_weights(ctx, a):
    """H weights and both application strategies of G and H on (K,2,2) blocks."""
    m = J(); pe = m['pe']; jnp = m['jnp']
    c = m['sc'].SigmaCoordinates(np.asarray(a['b'], dtype=np.float64)); K = c.layers
    tref = np.asarray(a['tref'], dtype=np.float64); kappa = a['kappa']; R = a['R']
    arrs = _cfg_arrs(a, 0, 0); ls = arrs[0]; th = np.diff(arrs[1])
    tref_in = tref.copy(); tref_in.setflags(write=False)          # a read-only input must be enough (and stay unchanged)
    H = pe.get_temperature_implicit_weights(c, tref_in, kappa)
    ctx.oracle('inputs are not modified (reference temperature, level thickness)',
               bool((tref_in == tref).all() and (c.layer_thickness == th).all() and (c.boundaries == arrs[1]).all()))
    H2 = pe.get_temperature_implicit_weights(c, tref, kappa)
    ctx.oracle('get_temperature_implicit_weights is a pure function (bit-identical on a second call)', bool((H == H2).all()))
    al = np.abs(np.concatenate([np.diff(ls) / 2, [-ls[-1]]])).max()
    dT = (np.abs(np.diff(tref)) / (th[:-1] + th[1:])).max() if K > 1 else 0.0
    hs = float((abs(kappa) * np.abs(tref).max() * 2 * al / th.min() + 4 * dT) * th.max()) + 1e-300
    ctx.corr('get_temperature_implicit_weights', H, ctx.model.call(0, [K], arrs), scale=hs)
    rng = np.random.default_rng(a['dseed'])
    x = util.small_rationals(rng, (K, 2, 2))
    x[:, 0, 0] = 0; x[int(rng.integers(0, K)), 0, 0] = 1.0        # a one-hot column
    x[:, 1, 1] = rng.uniform(-2.0, 2.0, size=K)                     # a full-mantissa column
    sc_h = SLOP * float((hs / th.min()) * (np.abs(x) * th[:, None, None]).sum(axis=0).max()) + 1e-300
    outs = {}
    for sparse in (0, 1):
        out = np.asarray(pe.get_temperature_implicit(jnp.asarray(x), c, tref, kappa, method='sparse' if sparse else 'dense'))
        outs[sparse] = out
        for (idx, col), (_, ocol) in zip(util.columns(x, 0), util.columns(out, 0)):
            ctx.corr(f'get_temperature_implicit sparse={sparse}', ocol, ctx.model.call(1, [K, sparse], arrs + [col]), scale=sc_h)
    ctx.oracle_close('temperature operator: dense = cumulative-sum form', outs[0], outs[1], scale=sc_h)
    ctx.oracle_close('temperature operator (dense) = -H @ divergence', outs[0], -np.einsum('gh,hml->gml', H, x), scale=sc_h)
    G = pe.get_geopotential_weights(c, R)
    sc_g = SLOP * float(np.abs(G).max() * np.abs(x).sum(axis=0).max()) + 1e-300
    gd = np.asarray(pe.get_geopotential_diff(jnp.asarray(x), c, R, method='dense'))
    gs = np.asarray(pe.get_geopotential_diff(jnp.asarray(x), c, R, method='sparse'))
    ctx.oracle_close('geopotential operator: dense = cumulative-sum form', gd, gs, scale=sc_g)
    # default keyword values / default method of the helper functions
    ctx.exact('default kappa / R / method of the helpers',
              [bool((pe.get_temperature_implicit_weights(c, tref) == pe.get_temperature_implicit_weights(c, tref, pe.KAPPA)).all()),
               bool((pe.get_geopotential_weights(c) == pe.get_geopotential_weights(c, pe.IDEAL_GAS_CONSTANT)).all()),
               bool((np.asarray(pe.get_temperature_implicit(jnp.asarray(x), c, tref, kappa)) == outs[0]).all()),
               bool((np.asarray(pe.get_geopotential_diff(jnp.asarray(x), c, R)) == gd).all())], [True] * 4)
    for bad in (np.ones(K + 1), np.ones((K, 1))):
        try:
            pe.get_temperature_implicit_weights(c, bad, kappa); rej = False
        except ValueError:
            rej = True
        ctx.exact('reference temperature of the wrong shape is rejected', rej, True)


def r_matrix(ctx, a):
    """_get_implicit_term_matrix vs model; np.linalg.inv hypotheses (table obligations)."""
    p = _primitive(a); K = p.coords.vertical.layers; eta = a['eta']
    lam = _lam_ref(a, p.coords.horizontal)
    ctx.exact('laplacian_eigenvalues = -l(l+1)/radius^2 (recomputed from the grid definition)',
              np.asarray(p.coords.horizontal.laplacian_eigenvalues, dtype=np.float64).tolist(), lam.tolist())
    Mx, Minv, S1, A, S2, B = _inverses(p, eta)
    ctx.exact('implicit matrix shape', list(Mx.shape), [len(lam), 2 * K + 1, 2 * K + 1])
    for l in range(len(lam)):
        arrs = _cfg_arrs(a, eta, lam[l])
        ctx.corr(f'_get_implicit_term_matrix l={l}', Mx[l], ctx.model.call(2, [K], arrs), scale=float(np.abs(Mx[l]).max()))
        sm = ctx.model.call(6, [K], arrs)
        ctx.corr(f'I-GH, I-HG l={l}', np.concatenate([S1[l].ravel(), S2[l].ravel()]), sm,
                 scale=float(max(_absmm(Mx[l:l + 1, :K, K:], Mx[l:l + 1, K:, :K]).max(), 1.0)))
    ctx.table_obligation('H_inv: np.linalg.inv is finite', bool(np.isfinite(Minv).all() and np.isfinite(A).all() and np.isfinite(B).all()))
    for name, X, Y in (('Minv*M = I (full matrix)', Minv, Mx), ('M*Minv = I (full matrix)', Mx, Minv),
                       ('A*(I-GH) = I', A, S1), ('B*(I-HG) = I', B, S2)):
        res = np.abs(np.einsum('lij,ljk->lik', X, Y) - np.eye(Y.shape[-1]))
        bound = 2.0 ** -36 * _absmm(X, Y).max(axis=(1, 2), keepdims=True) + 2.0 ** -46 * _nw(X, Y)
        ctx.table_obligation('H_inv: ' + name, bool((res <= bound).all()),
                             {'eta': eta, 'max_residual': float(res.max()), 'bound': float(bound.min())})
    ctx.table_obligation('laplacian_eigenvalues <= 0', bool((lam <= 0).all()))


def _model_cols(ctx, name, cmd, ints, a, p, eta, x_stk, out_stk, cols, extra, scale):
    lam = _lam_ref(a, p.coords.horizontal)
    for (mm, l) in cols:
        arrs = _cfg_arrs(a, eta, lam[l]) + [x_stk[:, mm, l]] + [e[l].ravel() for e in extra]
        ctx.corr(name, out_stk[:, mm, l], ctx.model.call(cmd, ints, arrs), scale=scale)


def r_solve(ctx, a):
    m = J(); jnp = m['jnp']
    pd = _primitive(a, 'dense'); ps = _primitive(a, 'sparse'); pn = _primitive(a, None)
    K = pd.coords.vertical.layers; eta = a['eta']; n = 2 * K + 1
    M_, L_ = pd.coords.horizontal.modal_shape
    lam = _lam_ref(a, pd.coords.horizontal)
    div, T, lnps, vort, q = _state(a, pd, a['state'])
    st = _mkstate(div, T, lnps, vort, q, p=pd)
    x = _stk(st)
    Mx, Minv, S1, A, S2, B = _inverses(pd, eta)
    cols = [] if a.get('nomodel') else _pick_cols(M_, L_, a['ncols'], a['cseed'])
    Lm = (Mx - np.eye(n)) / eta if eta else _inverses(pd, 1.0)[0] - np.eye(n)
    absL = np.abs(Lm)                                                  # |L| entrywise, per l
    sc_L = SLOP * float(np.einsum('lij,jml->iml', absL, np.abs(x)).max()) + 1e-300
    # --- implicit_terms: both vertical matmul strategies (and the default) vs model
    terms = {}
    zsh = int(bool((a.get('grid') or {}).get('mesh')) and (a['grid']['mesh'][0] > 1))
    for name, p, sparse in (('dense', pd, 0), ('sparse', ps, 1), ('default', pn, zsh)):
        t = p.implicit_terms(st); terms[name] = t
        _model_cols(ctx, f'implicit_terms vertical_matmul_method={name}', 3, [K, sparse], a, p, eta, x, _stk(t), cols, [], sc_L)
        ctx.exact(f'implicit_terms({name}): vorticity and tracers are zero',
                  [float(np.abs(np.asarray(t.vorticity)).max()), float(np.abs(np.asarray(t.tracers['q'])).max())], [0.0, 0.0])
    Ld = _stk(terms['dense'])
    ctx.oracle_close('implicit_terms: dense = cumulative-sum vertical products', Ld, _stk(terms['sparse']), scale=sc_L)
    # the assembled matrix is the operator I - eta*L
    ctx.oracle_close('implicit matrix @ x = x - eta*implicit_terms(x)', np.einsum('lij,jml->iml', Mx, x), x - eta * Ld,
                     scale=float(np.abs(x).max() + abs(eta) * sc_L))
    # linearity (second state from the same spec, shifted)
    div2, T2, lnps2, vort2, q2 = _state(a, pd, {'kind': 'random', 'seed': a['cseed']})
    st2 = _mkstate(div2, T2, lnps2, vort2, q2, p=pd)
    for name, p in (('dense', pd), ('sparse', ps)):
        comb = _mkstate(2.5 * div - 0.75 * div2, 2.5 * T - 0.75 * T2, 2.5 * lnps - 0.75 * lnps2, vort, q, p=pd)
        lhs = _stk(p.implicit_terms(comb)); rhs = 2.5 * _stk(terms[name]) - 0.75 * _stk(p.implicit_terms(st2))
        sc2 = SLOP * float(np.einsum('lij,jml->iml', absL, 2.5 * np.abs(x) + 0.75 * np.abs(_stk(st2))).max()) + 1e-300
        ctx.oracle_close(f'implicit_terms is linear ({name})', lhs, rhs, scale=sc2)
    # --- implicit_inverse: three methods on y = x - eta*L(x)
    sc_res = SLOP * float(np.einsum('lij,jml->iml', _absmm(Minv, Mx), np.abs(x)).max()) + 2.0 ** -10 * float(_nw(Minv, Mx).max() * np.abs(x).max()) + 1e-300
    absMb = np.abs(Mx)
    Dinv = np.zeros_like(Mx); Dinv[:, :K, :K] = A; Dinv[:, K:, K:] = B
    sc_blk = SLOP * float(np.einsum('lij,jml->iml', _absmm(Dinv, absMb) @ np.abs(Mx), np.abs(x)).max()) + 2.0 ** -10 * float(_nw(Dinv, Mx, Mx).max() * np.abs(x).max()) + 1e-300
    results = {}
    for lname, Lx in (('dense', terms['dense']), ('sparse', terms['sparse'])):
        y = st - eta * Lx
        ystk = _stk(y)
        for meth, mi in (('split', 0), ('stacked', 1), ('blockwise', 2)):
            inv = pd.implicit_inverse(y, eta, meth)
            out = _stk(inv); results[lname, meth] = out
            sc = sc_blk if meth == 'blockwise' else sc_res
            ctx.oracle_close(f'implicit_inverse(x - eta*implicit_terms(x)) = x  [method={meth}]', out, x, scale=sc)
            if lname == 'dense':
                if meth == 'blockwise':
                    _model_cols(ctx, 'implicit_inverse blockwise', 5, [K, 2], a, pd, eta, ystk, out, cols, [A, B], sc_blk)
                else:
                    _model_cols(ctx, f'implicit_inverse {meth}', 4, [K, mi], a, pd, eta, ystk, out, cols, [Minv], sc_res)
                ctx.exact(f'implicit_inverse({meth}): vorticity and tracers unchanged',
                          [np.asarray(inv.vorticity).tolist(), np.asarray(inv.tracers['q']).tolist()],
                          [np.asarray(y.vorticity).tolist(), np.asarray(y.tracers['q']).tolist()])
    ctx.oracle_close('solve strategies agree: split = stacked', results['dense', 'split'], results['dense', 'stacked'], scale=sc_res)
    ctx.oracle_close('solve strategies agree: split = blockwise', results['dense', 'split'], results['dense', 'blockwise'], scale=sc_blk)
    # all methods agree on an arbitrary right-hand side too (not only on images of I - eta*L)
    # forward error of an LU-computed inverse X of M: |X - M^-1| <~ eps |X||M||X| (it carries the condition number)
    Sd = np.zeros_like(Mx); Sd[:, :K, :K] = S1; Sd[:, K:, K:] = S2
    sc_any = SLOP * float(max(np.einsum('lij,jml->iml', _absmm(_absmm(Minv, Mx), Minv), np.abs(x)).max(),
                              np.einsum('lij,jml->iml', _absmm(_absmm(_absmm(Dinv, Sd), Dinv), absMb), np.abs(x)).max())) \
        + 2.0 ** -10 * float(max(_nw(Minv, Mx, Minv).max(), _nw(Dinv, Sd, Dinv, Mx).max()) * np.abs(x).max()) + 1e-300
    anyres = [_stk(pd.implicit_inverse(st, eta, meth)) for meth in ('split', 'stacked', 'blockwise')]
    ctx.oracle_close('solve strategies agree on arbitrary states: split = stacked', anyres[0], anyres[1], scale=sc_any)
    ctx.oracle_close('solve strategies agree on arbitrary states: split = blockwise', anyres[0], anyres[2], scale=sc_any)
    ctx.count('state:' + a['state']['kind'])


def r_wrappers(ctx, a):
    """TimeReversedImExODE and PrimitiveEquationsWithTime around the primitive equations."""
    m = J(); ti = m['ti']
    p = _primitive(a); pt = _primitive(a, None, True)
    K = p.coords.vertical.layers; eta = a['eta']; n = 2 * K + 1
    M_, L_ = p.coords.horizontal.modal_shape
    div, T, lnps, vort, q = _state(a, p, {'kind': a.get('skind', 'random'), 'seed': a['seed']})
    st = _mkstate(div, T, lnps, vort, q); x = _stk(st)
    cols = _pick_cols(M_, L_, a['ncols'], a['seed'])
    lam = _lam_ref(a, p.coords.horizontal)
    # the time-reversed solve inverts M(-eta)
    Mneg, Minvneg, *_ = _inverses(p, -eta)
    absL = np.abs(Mneg - np.eye(n)) / abs(eta) if eta else np.abs(_inverses(p, 1.0)[0] - np.eye(n))
    sc_L = SLOP * float(np.einsum('lij,jml->iml', absL, np.abs(x)).max()) + 1e-300
    sc_res = SLOP * float(np.einsum('lij,jml->iml', _absmm(Minvneg, Mneg), np.abs(x)).max()) + 2.0 ** -10 * float(_nw(Minvneg, Mneg).max() * np.abs(x).max()) + 1e-300
    tr = ti.TimeReversedImExODE(p)
    t = tr.implicit_terms(st)
    _model_cols(ctx, 'TimeReversedImExODE.implicit_terms', 7, [K, 0], a, p, eta, x, _stk(t), cols, [], sc_L)
    y = st - eta * t
    inv = tr.implicit_inverse(y, eta)
    _model_cols(ctx, 'TimeReversedImExODE.implicit_inverse', 8, [K, 0], a, p, eta, _stk(y), _stk(inv), cols, [Minvneg], sc_res)
    for l in range(len(lam)):
        ctx.corr('matrix inverted by the time-reversed solve', Mneg[l], ctx.model.call(9, [K], _cfg_arrs(a, eta, lam[l])),
                 scale=float(np.abs(Mneg[l]).max()))
    res = np.abs(np.einsum('lij,ljk->lik', Minvneg, Mneg) - np.eye(n))
    bound = 2.0 ** -36 * _absmm(Minvneg, Mneg).max(axis=(1, 2), keepdims=True) + 2.0 ** -46 * _nw(Minvneg, Mneg)
    ctx.table_obligation('H_inv: Minv*M = I (full matrix)', bool((res <= bound).all()),
                         {'eta': -eta, 'max_residual': float(res.max())})
    ctx.oracle_close('time-reversed: implicit_inverse(x - eta*implicit_terms(x), eta) = x', _stk(inv), x, scale=sc_res)
    ctx.oracle_close('time-reversed implicit_terms = -implicit_terms', _stk(t), -_stk(p.implicit_terms(st)), scale=sc_L)
    # with time
    Mp, Minvp, *_ = _inverses(p, eta)
    sc_resp = SLOP * float(np.einsum('lij,jml->iml', _absmm(Minvp, Mp), np.abs(x)).max()) + 1e-300
    sim_time = float(a['seed'] % 97) / 8
    stt = _mkstate(div, T, lnps, vort, q, sim_time=sim_time)
    tt = pt.implicit_terms(stt)
    ctx.exact('PrimitiveEquationsWithTime.implicit_terms sim_time', float(tt.sim_time), 0.0)
    _model_cols(ctx, 'PrimitiveEquationsWithTime.implicit_terms', 3, [K, 0], a, p, eta, x, _stk(tt), cols, [], sc_L)
    yt = stt - eta * tt
    it = pt.implicit_inverse(yt, eta)
    _model_cols(ctx, 'PrimitiveEquationsWithTime.implicit_inverse', 4, [K, 0], a, p, eta, _stk(yt), _stk(it), cols, [Minvp], sc_resp)
    ctx.oracle_close('with time: implicit_inverse(x - eta*implicit_terms(x)) = x', _stk(it), x, scale=sc_resp)
    ctx.oracle('with time: sim_time is preserved by the resolvent', float(it.sim_time) == sim_time,
               {'sim_time': sim_time, 'got': float(it.sim_time)})


def _fresh(a, **over):
    """A newly constructed PrimitiveEquations (bypassing the plugin cache)."""
    b = dict(a, **over); key = None
    saved = dict(_pes); _pes.clear()
    try:
        return _primitive(b, b.get('matmul'))
    finally:
        _pes.clear(); _pes.update(saved)


def _same(x, y):
    return bool(np.array_equal(np.asarray(x), np.asarray(y)))


def r_robust(ctx, a):
    """Forms of the inputs, purity / state across calls, jit, vmap and leading batch axes, error paths."""
    import jax
    m = J(); jnp = m['jnp']; pe = m['pe']
    p = _primitive(a); K = p.coords.vertical.layers; eta = a['eta']; n = 2 * K + 1
    M_, L_ = p.coords.horizontal.modal_shape
    div, T, lnps, vort, q = _state(a, p, {'kind': a.get('skind', 'random'), 'seed': a['seed']})
    st = _mkstate(div, T, lnps, vort, q); x = _stk(st)
    Mx, Minv, S1, A, S2, B = _inverses(p, eta)
    absL = np.abs((Mx - np.eye(n)) / eta) if eta else np.abs(_inverses(p, 1.0)[0] - np.eye(n))
    sc_L = SLOP * float(np.einsum('lij,jml->iml', absL, np.abs(x)).max()) + 1e-300
    Dinv = np.zeros_like(Mx); Dinv[:, :K, :K] = A; Dinv[:, K:, K:] = B
    sc = SLOP * float(max(np.einsum('lij,jml->iml', _absmm(Minv, Mx), np.abs(x)).max(),
                          np.einsum('lij,jml->iml', _absmm(Dinv, np.abs(Mx)) @ np.abs(Mx), np.abs(x)).max())) + 1e-300
    METH = ('split', 'stacked', 'blockwise')
    t0 = p.implicit_terms(st); L0 = _stk(t0); y = st - eta * t0
    inv0 = {me: _stk(p.implicit_inverse(y, eta, me)) for me in METH}
    # (a) purity and interleaving with a configuration that differs in ONE field
    vary = a['vary']
    over = {'radius': {'radius': a['radius'] * 2}, 'kappa': {'kappa': a['kappa'] * 1.5}, 'R': {'R': a['R'] + 1.0},
            'tref': {'tref': [a['tref'][0] + 8.0] + list(a['tref'][1:])}, 'matmul': {'matmul': 'sparse'}}[vary]
    p2 = _fresh(a, **over)
    for who, pp in (('second configuration', p2), ('first configuration again', p)):
        tt = pp.implicit_terms(st); yy = st - eta * tt
        for me in METH:
            ctx.oracle_close(f'interleaved configurations differing in one field ({vary}): resolvent of the {who}  [method={me}]',
                             _stk(pp.implicit_inverse(yy, eta, me)), x, scale=4 * sc)
    ctx.oracle('repeated evaluation is bit-identical (implicit_terms, implicit_inverse)',
               _same(_stk(p.implicit_terms(st)), L0) and all(_same(_stk(p.implicit_inverse(y, eta, me)), inv0[me]) for me in METH))
    pf = _fresh(a)
    ctx.oracle('a freshly constructed equal object gives bit-identical results',
               _same(_stk(pf.implicit_terms(st)), L0) and all(_same(_stk(pf.implicit_inverse(y, eta, me)), inv0[me]) for me in METH))
    # (b) attribute re-assignment is honoured (no stale cached tables)
    if vary == 'tref':
        pr = _fresh(a); pr.implicit_terms(st); pr.implicit_inverse(y, eta)
        pr.reference_temperature = np.asarray(over['tref'], dtype=np.float64)
        ctx.oracle('re-assigned reference_temperature is honoured',
                   _same(_stk(pr.implicit_terms(st)), _stk(p2.implicit_terms(st))) and
                   _same(_stk(pr.implicit_inverse(y, eta, 'blockwise')), _stk(p2.implicit_inverse(y, eta, 'blockwise'))))
    # (c) cached tables are not modified by the calls
    b = np.asarray(a['b'], dtype=np.float64)
    ctx.oracle('cached tables unchanged after use (eigenvalues, thickness, centers, reference temperature)',
               _same(p.coords.horizontal.laplacian_eigenvalues, _lam_ref(a, p.coords.horizontal)) and
               _same(p.coords.vertical.layer_thickness, np.diff(b)) and _same(p.coords.vertical.centers, (b[1:] + b[:-1]) / 2) and
               _same(p.reference_temperature, np.asarray(a['tref'], dtype=np.float64)))
    # (d) jit (static step size) = eager
    ctx.oracle_close('jit(implicit_terms) = implicit_terms', _stk(jax.jit(p.implicit_terms)(st)), L0, scale=sc_L)
    for me in METH:
        ctx.oracle_close(f'jit(implicit_inverse) = implicit_inverse  [method={me}]',
                         _stk(jax.jit(lambda s_, me=me: p.implicit_inverse(s_, eta, me))(y)), inv0[me], scale=sc)
    # (e) vmap over a batch (size K, different content per slice) and a leading batch axis
    Bn = K
    parts = [_state(a, p, {'kind': 'random', 'seed': a['seed'] + 1 + i}) for i in range(Bn)]
    parts[0] = (div, T, lnps, vort, q)
    stb = _mkstate(*[np.stack([pt[j] for pt in parts]) for j in range(5)])
    per = [p.implicit_terms(_mkstate(*pt)) for pt in parts]
    Lb = np.stack([_stk(t) for t in per])
    xb = np.stack([np.concatenate(pt[:3], axis=0) for pt in parts])
    tb = jax.vmap(p.implicit_terms)(stb)
    stkb = lambda s_: np.concatenate([np.asarray(s_.divergence), np.asarray(s_.temperature_variation), np.asarray(s_.log_surface_pressure)], axis=1)
    ctx.oracle_close('vmap(implicit_terms) = slice-wise implicit_terms', stkb(tb), Lb, scale=sc_L)
    ctx.oracle_close('implicit_terms with a leading batch axis (dense) = slice-wise', stkb(_primitive(a, 'dense').implicit_terms(stb)), Lb, scale=sc_L)
    yb = stb - eta * tb
    for me in METH:
        ctx.oracle_close(f'vmap(implicit_inverse)(x - eta*implicit_terms(x)) = x  [method={me}]',
                         stkb(jax.vmap(lambda s_, me=me: p.implicit_inverse(s_, eta, me))(yb)), xb, scale=4 * sc)
    ctx.oracle_close('implicit_inverse with a leading batch axis (split): resolvent', stkb(p.implicit_inverse(yb, eta, 'split')), xb, scale=4 * sc)
    # (e2) eval_shape, numpy-array states, jit of the cumulative-sum strategy and of the helper functions,
    #      jvp = the (linear) operator applied to the tangent, vjp finite and adjoint-consistent
    ps_ = _primitive(a, 'sparse'); v_ = p.coords.vertical
    sh = jax.eval_shape(p.implicit_terms, st); shi = jax.eval_shape(lambda s_: p.implicit_inverse(s_, eta, 'blockwise'), st)
    ctx.exact('eval_shape(implicit_terms / implicit_inverse): shapes and dtypes',
              [[list(l.shape), str(l.dtype)] for l in jax.tree_util.tree_leaves(sh)] + [[list(l.shape), str(l.dtype)] for l in jax.tree_util.tree_leaves(shi)],
              [[list(l.shape), 'float64'] for l in jax.tree_util.tree_leaves(st)] * 2)
    stn = pe.State(np.asarray(vort), np.asarray(div), np.asarray(T), np.asarray(lnps), {'q': np.asarray(q)})
    for nm, pp in (('dense', p), ('sparse', ps_)):
        ctx.oracle_close(f'numpy-array state: implicit_terms ({nm})', _stk(pp.implicit_terms(stn)), L0, scale=sc_L)
        ctx.oracle_close(f'jit(implicit_terms) = implicit_terms ({nm})', _stk(jax.jit(pp.implicit_terms)(st)), L0, scale=sc_L)
        ctx.oracle_close(f'vmap(implicit_terms) = slice-wise ({nm})', stkb(jax.vmap(pp.implicit_terms)(stb)), Lb, scale=sc_L)
    for me in METH:
        ctx.oracle_close(f'numpy-array state: implicit_inverse  [method={me}]', _stk(p.implicit_inverse(pe.State(
            np.asarray(y.vorticity), np.asarray(y.divergence), np.asarray(y.temperature_variation), np.asarray(y.log_surface_pressure),
            {'q': np.asarray(q)}), eta, me)), inv0[me], scale=sc)
    for spm in ('dense', 'sparse'):
        fT = lambda d_, spm=spm: pe.get_temperature_implicit(d_, v_, p.reference_temperature, a['kappa'], method=spm)
        fG = lambda t_, spm=spm: pe.get_geopotential_diff(t_, v_, a['R'], method=spm)
        ctx.oracle_close(f'jit(get_temperature_implicit {spm})', np.asarray(jax.jit(fT)(st.divergence)), L0[K:2 * K], scale=sc_L)
        ctx.oracle_close(f'jit / vmap(get_geopotential_diff {spm})',
                         np.stack([np.asarray(jax.jit(fG)(st.temperature_variation)), np.asarray(jax.vmap(fG)(stb.temperature_variation))[0]]),
                         np.stack([np.asarray(fG(st.temperature_variation))] * 2), scale=sc_L)
    tan = _mkstate(*parts[min(1, Bn - 1)]); cot = _mkstate(*parts[-1])
    zero = jax.tree_util.tree_map(jnp.zeros_like, st)
    dot = lambda u_, w_: float(sum(jnp.vdot(a_, b_) for a_, b_ in zip(jax.tree_util.tree_leaves(u_), jax.tree_util.tree_leaves(w_))))
    ops = [('implicit_terms dense', p.implicit_terms, sc_L), ('implicit_terms sparse', ps_.implicit_terms, sc_L)] + \
          [(f'implicit_inverse {me}', (lambda s_, me=me: p.implicit_inverse(s_, eta, me)), 4 * sc) for me in METH]
    for nm, f, scl in ops:
        for at_name, at in (('a generic state', st), ('the state at rest', zero)):
            out, jv = jax.jvp(f, (at,), (tan,))
            ctx.oracle_close(f'jvp({nm}) at {at_name} = the operator applied to the tangent', _stk(jv), _stk(f(tan)), scale=scl)
            _, pull = jax.vjp(f, at)
            (ct,) = pull(cot)
            fin = all(bool(np.isfinite(np.asarray(l)).all()) for l in jax.tree_util.tree_leaves(ct))
            lhs, rhs = dot(cot, f(tan)), dot(ct, tan)
            ctx.oracle(f'vjp({nm}) at {at_name} is finite and adjoint-consistent',
                       fin and abs(lhs - rhs) <= 2.0 ** -36 * n * M_ * L_ * scl * float(max(np.abs(_stk(cot)).max(), 1.0)) * 8,
                       {'finite': fin, 'lhs': lhs, 'rhs': rhs})
    # (f) forms of the step size
    forms = [('np.float64', np.float64(eta)), ('0-d array', np.array(eta))]
    if float(eta) == int(eta): forms.append(('python int', int(eta)))
    if float(np.float32(eta)) == eta: forms.append(('np.float32', np.float32(eta)))
    for nm, e in forms:
        for me in METH:
            ctx.oracle_close(f'step size given as {nm}  [method={me}]', _stk(p.implicit_inverse(y, e, me)), inv0[me], scale=sc)
    # (g) forms of the reference temperature and of the state
    tr = np.asarray(a['tref'], dtype=np.float64)
    tforms = []
    if (tr == np.round(tr)).all(): tforms.append(('integer-typed', tr.astype(np.int64)))
    sv = np.zeros(2 * K); sv[::2] = tr; sv = sv[::2]; sv.setflags(write=False)
    tforms.append(('read-only strided view', sv))
    for nm, tf in tforms:
        pe_t = pe.PrimitiveEquations(tf, np.zeros((M_, L_)), p.coords, p.physics_specs)
        ctx.oracle_close(f'reference temperature given as {nm}: implicit_terms', _stk(pe_t.implicit_terms(st)), L0, scale=sc_L)
        for me in METH:
            ctx.oracle_close(f'reference temperature given as {nm}: implicit_inverse  [method={me}]',
                             _stk(pe_t.implicit_inverse(y, eta, me)), inv0[me], scale=sc)
        for spm in ('dense', 'sparse'):
            ctx.oracle_close(f'reference temperature given as {nm}: get_temperature_implicit {spm}',
                             np.asarray(pe.get_temperature_implicit(st.divergence, p.coords.vertical, tf, a['kappa'], method=spm)),
                             L0[K:2 * K], scale=sc_L)
    st32 = jax.tree_util.tree_map(lambda v: v.astype(jnp.float32), st)
    sti = jax.tree_util.tree_map(lambda v: jnp.round(v * 8).astype(jnp.int64), st)
    up = lambda s_: jax.tree_util.tree_map(lambda v: v.astype(jnp.float64), s_)
    ctx.oracle_close('float32 state = the same values as float64: implicit_terms', _stk(p.implicit_terms(st32)), _stk(p.implicit_terms(up(st32))), scale=sc_L)
    ctx.oracle_close('integer-typed state = the same values as float64: implicit_terms', _stk(p.implicit_terms(sti)), _stk(p.implicit_terms(up(sti))), scale=8 * sc_L)
    y32 = jax.tree_util.tree_map(lambda v: v.astype(jnp.float32), jax.tree_util.tree_map(lambda v: jnp.round(v * 8) / 8, y))
    y64 = jax.tree_util.tree_map(lambda v: v.astype(jnp.float64), y32)
    for me in METH:
        ctx.oracle_close(f'float32 state: implicit_inverse  [method={me}]', _stk(p.implicit_inverse(y32, eta, me)),
                         _stk(p.implicit_inverse(y64, eta, me)), scale=4 * sc)
    ste = pe.State(st.vorticity, st.divergence, st.temperature_variation, st.log_surface_pressure)    # tracers default: {}
    te = p.implicit_terms(ste)
    ctx.oracle('state without tracers', _same(_stk(te), L0) and te.tracers == {} and
               all(_same(_stk(p.implicit_inverse(ste - eta * te, eta, me)), inv0[me]) for me in METH))
    # (h) a state exactly at rest
    z = jax.tree_util.tree_map(jnp.zeros_like, st)
    ctx.exact('state at rest: zero tendency and zero solve', [float(np.abs(_stk(p.implicit_terms(z))).max())] +
              [float(np.abs(_stk(p.implicit_inverse(z, eta, me))).max()) for me in METH], [0.0] * 4)
    # (i) rejected options
    def raises(f, exc):
        try: f(); return False
        except exc: return True
    ctx.exact('unknown method / vertical_matmul_method / traced step size are rejected',
              [raises(lambda: p.implicit_inverse(y, eta, 'direct'), ValueError),
               raises(lambda: _fresh(a, matmul='cumsum').implicit_terms(st), ValueError),
               raises(lambda: jax.jit(lambda s_, e_: p.implicit_inverse(s_, e_))(y, eta), TypeError)], [True] * 3)
    ctx.count('robust vary=' + vary)


def _GH_ref(b, tref, kappa, R):
    """G and H written down independently from the formulas in the docstrings (numpy, vectorised)."""
    K = len(tref); th = np.diff(b); ls = np.log((b[1:] + b[:-1]) / 2)
    al = np.concatenate([np.diff(ls) / 2, [-ls[-1]]])
    r = np.arange(K)[:, None]; s_ = np.arange(K)[None, :]
    P = (r - s_ >= 0).astype(float); Pm = (r - s_ - 1 >= 0).astype(float)
    alm = np.concatenate([[0.0], al[:-1]])
    first = kappa * tref[:, None] * (P * al[:, None] + Pm * alm[:, None]) / th[:, None]
    k0 = np.concatenate([np.diff(tref) / (th[1:] + th[:-1]), [0.0]])
    Kr = k0[:, None] * (P - np.cumsum(th)[:, None])
    Krm = np.concatenate([np.zeros((1, K)), Kr[:-1]], axis=0)
    H = (first - Kr - Krm) * th[None, :]
    G = R * (np.diag(al) + np.triu(np.tile((al + alm)[None, :], (K, 1)), 1))
    return G, H, th


def r_big(ctx, a):
    """Many levels on a skinny modal grid; decided by independent numpy references (the exact model is cubic in K)."""
    m = J(); jnp = m['jnp']; pe = m['pe']
    K = a['K']; rng = np.random.default_rng(a['bseed'])
    b = _dyadic_boundaries(rng, K, 14)
    tref = 288.0 - 70.0 * np.arange(K) / K + rng.integers(0, 16, size=K) / 8
    cfg = dict(a, b=b.tolist(), tref=tref.tolist())
    pd = _primitive(cfg, 'dense'); ps = _primitive(cfg, 'sparse'); eta = a['eta']; n = 2 * K + 1
    M_, L_ = pd.coords.horizontal.modal_shape; lam = _lam_ref(cfg, pd.coords.horizontal)
    G, H, th = _GH_ref(b, tref, a['kappa'], a['R'])
    Himp = pe.get_temperature_implicit_weights(pd.coords.vertical, tref, a['kappa'])
    Gimp = pe.get_geopotential_weights(pd.coords.vertical, a['R'])
    ctx.oracle_close('many levels: get_temperature_implicit_weights = numpy reference of the documented formula', Himp, H,
                     scale=float(np.abs(H).max()))
    ctx.oracle_close('many levels: get_geopotential_weights = numpy reference of the documented formula', Gimp, G, scale=float(np.abs(G).max()))
    div, T, lnps, vort, q = _state(cfg, pd, {'kind': 'full', 'seed': a['seed']})
    st = _mkstate(div, T, lnps, vort, q); x = _stk(st)
    refL = np.concatenate([-lam[None, None, :] * (np.einsum('jk,kml->jml', G, T) + a['R'] * tref[:, None, None] * lnps),
                           -np.einsum('jk,kml->jml', H, div), -np.einsum('k,kml->ml', th, div)[None]], axis=0)
    absL = np.concatenate([np.abs(lam).max() * (np.einsum('jk,kml->jml', np.abs(G), np.abs(T)) + abs(a['R']) * np.abs(tref[:, None, None] * lnps)),
                           np.einsum('jk,kml->jml', np.abs(H), np.abs(div)), np.einsum('k,kml->ml', th, np.abs(div))[None]], axis=0)
    sc_L = SLOP * float(absL.max()) + 1e-300
    terms = {}
    for nm, p in (('dense', pd), ('sparse', ps)):
        terms[nm] = p.implicit_terms(st)
        ctx.oracle_close(f'many levels: implicit_terms ({nm}) = numpy reference', _stk(terms[nm]), refL, scale=sc_L)
    Mx, Minv, S1, A, S2, B = _inverses(pd, eta)
    ctx.oracle_close('many levels: implicit matrix @ x = x - eta*implicit_terms(x)', np.einsum('lij,jml->iml', Mx, x), x - eta * refL,
                     scale=float(np.abs(x).max() + abs(eta) * sc_L))
    sc_res = SLOP * float(np.einsum('lij,jml->iml', _absmm(Minv, Mx), np.abs(x)).max()) + 2.0 ** -10 * float(_nw(Minv, Mx).max() * np.abs(x).max()) + 1e-300
    Dinv = np.zeros_like(Mx); Dinv[:, :K, :K] = A; Dinv[:, K:, K:] = B
    sc_blk = SLOP * float(np.einsum('lij,jml->iml', _absmm(Dinv, np.abs(Mx)) @ np.abs(Mx), np.abs(x)).max()) + 2.0 ** -10 * float(_nw(Dinv, Mx, Mx).max() * np.abs(x).max()) + 1e-300
    for nm in ('dense', 'sparse'):
        y = st - eta * terms[nm]
        for me in ('split', 'stacked', 'blockwise'):
            ctx.oracle_close(f'many levels: implicit_inverse(x - eta*implicit_terms(x)) = x  [method={me}]',
                             _stk(pd.implicit_inverse(y, eta, me)), x, scale=sc_blk if me == 'blockwise' else sc_res)
    for name, X, Y in (('Minv*M = I (full matrix)', Minv, Mx), ('A*(I-GH) = I', A, S1), ('B*(I-HG) = I', B, S2)):
        res = np.abs(X @ Y - np.eye(Y.shape[-1]))
        bound = 2.0 ** -36 * _absmm(X, Y).max(axis=(1, 2), keepdims=True) + 2.0 ** -46 * _nw(X, Y)
        ctx.table_obligation('H_inv: ' + name, bool((res <= bound).all()), {'K': K, 'max_residual': float(res.max())})


_sws = {}
def _shallow(a):
    m = J(); sw = m['sw']
    key = json.dumps([a['phi'], a['densities'], a['radius']])
    if key not in _sws:
        grid = _grid(a['radius'])
        layers = len(a['phi'])
        coords = m['cs'].CoordinateSystem(grid, m['lc'].LayerCoordinates(layers))
        specs = sw.ShallowWaterSpecs(densities=np.asarray(a['densities']), radius=a['radius'], angular_velocity=1.0,
                                     gravity_acceleration=1.0, scale=m['scales'].DEFAULT_SCALE)
        _sws[key] = sw.ShallowWaterEquations(coords, specs, None, np.asarray(a['phi'], dtype=np.float64))
    return _sws[key]


def r_shallow(ctx, a):
    m = J(); jnp = m['jnp']; sw = m['sw']; ti = m['ti']
    eq = _shallow(a); eta = a['eta']; phi = np.asarray(a['phi'], dtype=np.float64); layers = len(phi)
    grid = eq.coords.horizontal; M_, L_ = grid.modal_shape; lam = _lam_ref(a, grid)
    ctx.exact('laplacian_eigenvalues = -l(l+1)/radius^2 (recomputed from the grid definition)',
              np.asarray(grid.laplacian_eigenvalues, dtype=np.float64).tolist(), lam.tolist())
    rng = np.random.default_rng(a['seed'])
    vort = util.small_rationals(rng, (layers, M_, L_)); d = util.small_rationals(rng, (layers, M_, L_))
    ph = util.small_rationals(rng, (layers, M_, L_))
    # complete basis of (div, pot) per (layer, l): m = 0 carries e_div, m = 1 carries e_pot
    d[:, 0, :] = 1.0; ph[:, 0, :] = 0.0; d[:, 1, :] = 0.0; ph[:, 1, :] = -2.0
    st = sw.State(jnp.asarray(vort), jnp.asarray(d), jnp.asarray(ph))
    schur = 1 - eta ** 2 * phi[:, None, None] * lam[None, None, :]
    ctx.table_obligation('shallow water: Phi >= 0 and laplacian_eigenvalues <= 0', bool((phi >= 0).all() and (lam <= 0).all()))
    ctx.table_obligation('shallow water side condition: 1 - eta^2*Phi*lambda >= 1', bool((schur >= 1).all()),
                         {'min': float(schur.min())})
    t = eq.implicit_terms(st)
    y = st - eta * t
    inv = eq.implicit_inverse(y, eta)
    tr = ti.TimeReversedImExODE(eq)
    ttr = tr.implicit_terms(st); ytr = st - eta * ttr; invtr = tr.implicit_inverse(ytr, eta)
    td, tp = np.asarray(t.divergence), np.asarray(t.potential)
    yd, yp = np.asarray(y.divergence), np.asarray(y.potential)
    idv, ipt = np.asarray(inv.divergence), np.asarray(inv.potential)
    ytd, ytp = np.asarray(ytr.divergence), np.asarray(ytr.potential)
    itd, itp = np.asarray(invtr.divergence), np.asarray(invtr.potential)
    amax = float(max(np.abs(d).max(), np.abs(ph).max()))
    sc_t = float(max(np.abs(lam).max(), np.abs(phi).max()) * amax) + 1e-300
    ymax = float(max(np.abs(yd).max(), np.abs(yp).max(), np.abs(ytd).max(), np.abs(ytp).max()))
    sc_i = float((1 + abs(eta) * max(np.abs(lam).max(), np.abs(phi).max())) * ymax)      # 1/schur <= 1
    cols = [(k, mm, l) for k in range(layers) for mm in (0, 1) for l in (0, L_ - 1)]
    for _ in range(a['ncols']):
        cols.append((int(rng.integers(0, layers)), int(rng.integers(0, M_)), int(rng.integers(0, L_))))
    for (k, mm, l) in cols:
        i = (k, mm, l)
        ctx.corr('ShallowWaterEquations.implicit_terms', [td[i], tp[i]],
                 ctx.model.call(10, [], [[phi[k], lam[l], eta, d[i], ph[i]]]), scale=sc_t)
        ctx.corr('ShallowWaterEquations.implicit_inverse', [idv[i], ipt[i]],
                 ctx.model.call(11, [], [[phi[k], lam[l], eta, yd[i], yp[i]]]), scale=sc_i)
        ctx.corr('TimeReversedImExODE(shallow water).implicit_inverse', [itd[i], itp[i]],
                 ctx.model.call(12, [], [[phi[k], lam[l], eta, ytd[i], ytp[i]]]), scale=sc_i)
    ctx.exact('shallow water: vorticity tendency zero / vorticity unchanged',
              [float(np.abs(np.asarray(t.vorticity)).max()), np.asarray(inv.vorticity).tolist()], [0.0, vort.tolist()])
    ctx.oracle_close('shallow water: implicit_inverse(x - eta*implicit_terms(x)) = x (divergence)', idv, d, scale=sc_i)
    ctx.oracle_close('shallow water: implicit_inverse(x - eta*implicit_terms(x)) = x (potential)', ipt, ph, scale=sc_i)
    ctx.oracle_close('shallow water, time-reversed: resolvent (divergence)', itd, d, scale=sc_i)
    ctx.oracle_close('shallow water, time-reversed: resolvent (potential)', itp, ph, scale=sc_i)
    # forms of the step size and of the reference potential, purity, jit
    import jax
    forms = [('np.float64', np.float64(eta)), ('0-d array', np.array(eta))]
    if float(eta) == int(eta): forms.append(('python int', int(eta)))
    if float(np.float32(eta)) == eta: forms.append(('np.float32', np.float32(eta)))
    for nm, e in forms:
        iv = eq.implicit_inverse(y, e)
        ctx.oracle_close(f'shallow water: step size given as {nm}', np.stack([np.asarray(iv.divergence), np.asarray(iv.potential)]),
                         np.stack([idv, ipt]), scale=sc_i)
    if (phi == np.round(phi)).all():
        eqi = sw.ShallowWaterEquations(eq.coords, eq.physics_specs, None, phi.astype(np.int64))
        ti_, ii_ = eqi.implicit_terms(st), eqi.implicit_inverse(y, eta)
        ctx.oracle_close('shallow water: integer-typed reference potential',
                         np.stack([np.asarray(ti_.potential), np.asarray(ii_.divergence), np.asarray(ii_.potential)]),
                         np.stack([tp, idv, ipt]), scale=max(sc_i, sc_t))
        ctx.count('sw integer reference potential')
    again = eq.implicit_inverse(y, eta)
    ctx.oracle('shallow water: repeated evaluation is bit-identical',
               bool(np.array_equal(np.asarray(again.divergence), idv) and np.array_equal(np.asarray(again.potential), ipt)))
    ij = jax.jit(lambda s_: eq.implicit_inverse(s_, eta))(y)
    ctx.oracle_close('shallow water: jit(implicit_inverse) = implicit_inverse',
                     np.stack([np.asarray(ij.divergence), np.asarray(ij.potential)]), np.stack([idv, ipt]), scale=sc_i)
    zz = jax.tree_util.tree_map(jnp.zeros_like, st)
    zi = eq.implicit_inverse(zz, eta); zt = eq.implicit_terms(zz)
    ctx.exact('shallow water: state at rest', [float(np.abs(np.asarray(v)).max()) for v in (zt.divergence, zt.potential, zi.divergence, zi.potential)], [0.0] * 4)
    # linearity
    d2 = util.small_rationals(rng, d.shape); p2 = util.small_rationals(rng, d.shape)
    st2 = sw.State(jnp.asarray(vort), jnp.asarray(d2), jnp.asarray(p2))
    comb = sw.State(jnp.asarray(vort), jnp.asarray(2.5 * d - 0.75 * d2), jnp.asarray(2.5 * ph - 0.75 * p2))
    tc = eq.implicit_terms(comb); t2 = eq.implicit_terms(st2)
    ctx.oracle_close('shallow water: implicit_terms is linear',
                     np.stack([np.asarray(tc.divergence), np.asarray(tc.potential)]),
                     np.stack([2.5 * td - 0.75 * np.asarray(t2.divergence), 2.5 * tp - 0.75 * np.asarray(t2.potential)]),
                     scale=4 * sc_t)


def _guard(fn):
    """An exception on a valid configuration is a failure of the property on that input (replayable)."""
    import functools, traceback
    @functools.wraps(fn)
    def run(ctx, a):
        try:
            fn(ctx, a)
        except Exception:
            ctx.oracle('every valid configuration is handled without raising', False, traceback.format_exc()[-900:])
    return run


RUNNERS = {k: _guard(f) for k, f in {'weights': r_weights, 'matrix': r_matrix, 'solve': r_solve, 'wrappers': r_wrappers,
                                      'shallow': r_shallow, 'robust': r_robust, 'big': r_big}.items()}
