"""C18 - unit and time conversions.

Part A (scale/unit algebra): Model/Units.v executed at exact rationals (extracted
driver) against dinosaur.scales.Scale, with pint as the oracle for the per-unit
conversion factors (table obligation: pint is multiplicative on the compound
units used).
Part B (binary64 time conversions): Model/Time64.v is written with Coq's
primitive floats; the plugin generates a cases file evaluated by
`coqc` + `Eval vm_compute` and compares bit-exactly (float.hex) with
PrimitiveEquationsSpecs.*timedelta64 and the xarray_utils datetime helpers.
Part C (phases): Model/Units.v `phase_at` / calendar phases at exact rationals
against radiation.SolarRadiation.time_to_orbital_time / datetime_to_orbital_time.
"""
import datetime, math, os, re, shutil, subprocess, tempfile
from fractions import Fraction
import numpy as np
from harness import util, core

THEOREMS = ['C18_dim_nondim_inverse', 'C18_dim_nondim_same', 'C18_nondim_unit_independent',
            'C18_nondim_mul', 'C18_nondim_div', 'C18_nondim_pow', 'C18_nondim_defined_iff_scales_present',
            'C18_rate_times_period', 'C18_units_R',
            'C18_time_roundtrips', 'C18_old_code_refuted', 'C18_snap_ms_R',
            'C18_phase_reduced', 'C18_phase_unique', 'C18_phase_advance', 'C18_phase_period',
            'C18_hyps_satisfiable', 'C18_snap_ms_is_source']
LEVEL = 'proof'
LEVEL_TEXT = ('machine-checked theorems (Coq): unit algebra for every field, every number of dimensions/units and all '
              'non-zero scales (inverse, unit independence, products, quotients, integer powers, ValueError branch); '
              'binary64 round trips proved on a bit-exact primitive-float model through Flocq (whole seconds |s| < 2^40 and '
              'minutes |M| < 2^40, every finite time scale T in [2^-100, 2^100]); phase reduction over the reals; '
              'models tied to the code by exact-rational and bit-exact (float.hex) differential correspondence')
LEVEL_NOTE = ('theorems are about the Gallina models Model/Units.v and Model/Time64.v; pint enters as a table of per-unit '
              'factors and dimensions (multiplicativity re-checked each run); the float operation sequence of pint/numpy was '
              'measured and is re-checked bit-exactly each run; offset units (degC) and fractional exponents are not modelled')
TECHNIQUE = 'Coq proof (generic field + Flocq binary64) + extraction + vm_compute on primitive floats + differential testing'

DIMS = ['[length]', '[time]', '[mass]', '[temperature]', '[current]']
POOL = ['meter', 'kilometer', 'second', 'minute', 'hour', 'day', 'year', 'kilogram', 'gram', 'kelvin',
        'pascal', 'hectopascal', 'millibar', 'joule', 'newton', 'watt', 'delta_degC', 'delta_degF',
        'radian', 'degree', 'percent', 'ampere']
# groups of mutually compatible units (same dimension)
COMPAT = [['meter', 'kilometer'], ['second', 'minute', 'hour', 'day', 'year'], ['kilogram', 'gram'],
          ['pascal', 'hectopascal', 'millibar'], ['kelvin', 'delta_degC', 'delta_degF'], ['joule'], ['newton'], ['watt'],
          ['radian', 'degree', 'percent'], ['ampere']]
FORMS = ['py', '0d', '1el', 'view', 'int']

_mods = None
def J():
    global _mods
    if _mods is None:
        util.setup_jax()
        from dinosaur import scales, primitive_equations as pe, xarray_utils as xu, radiation
        _mods = (scales, pe, xu, radiation)
    return _mods


# ---------------------------------------------------------------------------
# generation
# ---------------------------------------------------------------------------
SCALES = {
    'default': None, 'atmospheric': None,
    'km_hour_gram_2K': [[1.0, {'kilometer': 1}], [1.0, {'hour': 1}], [1.0, {'gram': 1}], [2.0, {'kelvin': 1}]],
    'no_mass': [[6.37122e6, {'meter': 1}], [6856.829402084476, {'second': 1}], [1.0, {'kelvin': 1}]],
}
TIME_SCALES = {'default': 'default',
               'hour': SCALES['km_hour_gram_2K'],
               'awkward': [[1000.0, {'meter': 1}], [12345.678, {'second': 1}], [1.0, {'kilogram': 1}], [1.0, {'kelvin': 1}]],
               'pow2': [[1.0, {'meter': 1}], [64.0, {'second': 1}], [1.0, {'kilogram': 1}], [1.0, {'kelvin': 1}]],
               'minute': [[1.0, {'meter': 1}], [1.0, {'minute': 1}], [1.0, {'kilogram': 1}], [1.0, {'kelvin': 1}]]}
_UNIT_SECONDS = {'second': 1.0, 'minute': 60.0, 'hour': 3600.0, 'day': 86400.0, 'year': 31557600.0}


def _T_independent(sp):
    """The time scale in seconds computed from the literal scale description (not from the Scale object)."""
    if sp in ('default', 'atmospheric'):
        return 1.0 / (2.0 * 7.292e-5)
    if isinstance(sp, str): sp = TIME_SCALES.get(sp) or SCALES[sp]
    for v, u in sp:
        (nm, e), = u.items()
        if nm in _UNIT_SECONDS: return float(v) * _UNIT_SECONDS[nm]
    raise KeyError('no time scale')


def _rand_unit(rng, nmax=3):
    k = int(rng.integers(1, nmax + 1))
    names = [POOL[int(i)] for i in rng.choice(len(POOL) - 1, size=k, replace=False)]   # ampere only on purpose
    return {nm: int(rng.choice([-3, -2, -1, 1, 2, 3])) for nm in names}


def _alt_unit(rng, u):
    out = {}
    for nm, e in u.items():
        grp = [g for g in COMPAT if nm in g][0]
        nn = grp[int(rng.integers(0, len(grp)))]
        out[nn] = out.get(nn, 0) + e
    return {k: v for k, v in out.items() if v != 0}


def _rand_mag(rng):
    m = float(rng.uniform(1, 10)) * 10.0 ** int(rng.integers(-6, 7))
    return -m if rng.integers(0, 4) == 0 else m


def _rand_scale(rng):
    return [[_rand_mag(rng) if False else abs(_rand_mag(rng)), {str(rng.choice(g)): 1}]
            for g in (COMPAT[0], COMPAT[1], COMPAT[2], ['kelvin'])]


def generate(ctx):
    """All cases are drawn first so that every vm_compute evaluation of the run can
    be batched into a few parallel coqc processes (coqc start-up dominates)."""
    cases = list(_cases(ctx))
    exprs = []
    for r, a in cases:
        try:
            if r in EXPRS: exprs += EXPRS[r](a)
        except Exception:
            pass      # the implementation raised while building the scale: reported by the runner itself
    try:
        _run_coq(ctx, [e for e in dict.fromkeys(exprs) if e not in _cache])
    except Exception as e:
        ctx.notes.append('batched coqc evaluation failed: %r' % e)
    for c in cases:
        yield c


def _cases(ctx):
    rng = ctx.rng
    quick = ctx.tier == 'quick'
    # ---- Part A
    scale_specs = ['default', 'atmospheric', 'km_hour_gram_2K', 'no_mass'] + [_rand_scale(rng) for _ in range(2 if quick else 10)]
    for sp in scale_specs:
        for rep in range(2 if quick else 6):
            qs = []
            for _ in range(6):
                u = _rand_unit(rng)
                if rng.integers(0, 12) == 0: u['ampere'] = 1
                form = FORMS[int(rng.integers(0, len(FORMS)))]
                if form == 'int':
                    m = [[int(x) for x in row] for row in rng.integers(-9, 10, size=(2, 3))] if rng.integers(0, 2) else int(rng.integers(-50, 51))
                elif form == 'view' or rng.integers(0, 3) == 0:
                    m = [[_rand_mag(rng) for _ in range(2)] for _ in range(2)]
                else:
                    m = _rand_mag(rng)
                qs.append({'m': m, 'u': u, 'alt': _alt_unit(rng, u), 'k': int(rng.choice([-2, -1, 2, 3])), 'form': form})
            if rep == 0:
                qs.append({'m': 9.80616, 'u': {'meter': 1, 'second': -2}, 'alt': {'kilometer': 1, 'hour': -2}, 'k': 2})
                qs.append({'m': 1004.0, 'u': {'joule': 1, 'kilogram': -1, 'kelvin': -1}, 'alt': {'joule': 1, 'gram': -1, 'kelvin': -1}, 'k': -1})
                qs.append({'m': 2.0 / 7.0, 'u': {}, 'alt': {}, 'k': 3})
                qs.append({'m': 1013.25, 'u': {'hectopascal': 1}, 'alt': {'pascal': 1}, 'k': 2})
            if rep == 1:
                # dimensionless units that carry a numeric factor; structured magnitudes (0, +-1, powers of ten, integers)
                qs.append({'m': 5.0, 'u': {'percent': 1}, 'alt': {}, 'k': 2})
                qs.append({'m': 0.05, 'u': {}, 'alt': {'percent': 1}, 'k': 2, 'form': '0d'})
                qs.append({'m': [90.0, -45.0, 0.0], 'u': {'degree': 1}, 'alt': {'radian': 1}, 'k': 3, 'form': 'view'})
                qs.append({'m': 3.0, 'u': {'kilometer': 1, 'meter': -1}, 'alt': {'percent': 1}, 'k': -1, 'form': '1el'})
                qs.append({'m': 7, 'u': {'hour': 1, 'second': -1}, 'alt': {'degree': 1}, 'k': 2, 'form': 'int'})
                qs.append({'m': [0.0, 1.0, -1.0, 1e6, 1e-6], 'u': {'meter': 1, 'second': -1}, 'alt': {'kilometer': 1, 'day': -1}, 'k': 2})
                qs.append({'m': 10.0, 'u': {'delta_degF': 1, 'kilometer': -1}, 'alt': {'kelvin': 1, 'meter': -1}, 'k': -2})
                qs.append({'m': [[1, 2], [3, 4]], 'u': {'gram': 1, 'meter': -3}, 'alt': {'kilogram': 1, 'kilometer': -3}, 'k': 2, 'form': 'int'})
            ctx.count('units:scale=%s' % (sp if isinstance(sp, str) else 'random'))
            yield 'units', {'scale': sp, 'qs': qs}
    # ---- Part B: whole-second durations
    tnames = ['default', 'hour', 'awkward']
    rand_T = [[1.0, {'kilometer': 1}], [float(rng.uniform(0.5, 2.0)) * 10.0 ** int(rng.integers(-2, 6)), {'second': 1}],
              [1.0, {'kilogram': 1}], [1.0, {'kelvin': 1}]]
    dense = {'default': 100000 if quick else 1000000, 'hour': 20000 if quick else 200000, 'awkward': 20000 if quick else 200000}
    for nm in tnames:
        n = dense[nm]; chunk = 100000
        for a in range(0, n, chunk):
            yield 'td_dense', {'scale': nm, 'a': a, 'n': min(chunk, n - a)}
        yield 'td_dense', {'scale': nm, 'a': -5000, 'n': 5000}
        big = sorted({int(x) for x in rng.integers(-2 ** 40, 2 ** 40, size=600 if quick else 6000)} |
                     {int(2 ** k + d) for k in range(10, 41) for d in (-1, 0, 1)})
        yield 'td_trace', {'scale': nm, 's': list(range(0, 300)) + [27, 29, 54, 58, 108, 116, 119, 127] + big}
    for nm in tnames + [rand_T, 'pow2', 'minute']:
        fr = [0.0004, 0.0005, 0.0006, 0.4994, 0.4995, 0.5, 0.5005, 0.9994, 0.99949, 0.9995, 0.99951, 0.9996, 0.99999999]
        secs = [sg * (k + f) for k in (0, 1, 26, 27, 3599, 86400, int(rng.integers(2, 10 ** 9))) for f in fr for sg in (1, -1)]
        secs += [float(x) for x in rng.uniform(-1e6, 1e6, size=100 if quick else 2000)]
        yield 'td_dim', {'scale': nm, 'secs': secs}
    yield 'td_dense', {'scale': rand_T, 'a': 0, 'n': 20000 if quick else 200000}
    yield 'td_trace', {'scale': rand_T, 's': [int(x) for x in rng.integers(-2 ** 40, 2 ** 40, size=500 if quick else 5000)]}
    # implementation-only sweep (the property's clause) over a long dense range
    yield 'td_oracle', {'scale': 'default', 'a': 0, 'n': 5000000 if quick else 40000000}
    yield 'td_oracle', {'scale': 'atmospheric', 'a': -500000, 'n': 1000000}
    # ---- Part B: calendar times at minute resolution
    refs = ['1979-01-01T00:00', '1900-01-01T00:00', '2000-02-29T12:34', '2099-12-31T23:59', '1970-01-01T00:00']
    for nm in tnames + [rand_T]:
        for ri, ref in enumerate(refs[:3 if quick else 5]):
            M = sorted({int(x) for x in rng.integers(-2 ** 26, 2 ** 26, size=300 if quick else 3000)} | set(range(-60, 61)))
            yield 'dt_trace', {'scale': nm, 'ref': ref, 'M': M, 'unit': ['m', 's', 'm', 's', 'm'][ri]}
    yield 'dt_dense', {'scale': 'default', 'ref': '1979-01-01T00:00', 'a': -20000, 'n': 40000 if quick else 400000}
    for ref in refs:
        yield 'dt_oracle', {'scale': 'default', 'ref': ref, 'seed': int(rng.integers(0, 2 ** 31)), 'n': 200000 if quick else 2000000}
    yield 'dt_oracle', {'scale': 'hour', 'ref': refs[2], 'seed': int(rng.integers(0, 2 ** 31)), 'n': 20000}
    yield 'time_axis', {'scale': 'default', 'steps': [1, 27, 60, 3600, 21600, 86400, 127, int(rng.integers(1, 10 ** 6))]}
    # ---- forms, options, state (self-review items 1-5, 8)
    for sp in ['default', 'km_hour_gram_2K', _rand_scale(rng)]:
        yield 'offset_units', {'scale': sp, 'degC': [20.0, -40.0, 0.0, -273.15, float(rng.uniform(-80, 60))],
                               'degF': [68.0, -40.0, 0.0, 32.0, float(rng.uniform(-100, 140))]}
    yield 'scale_api', {}
    for nm in ['default', 'hour']:
        yield 'td_forms', {'scale': nm, 's': [0, 1, -1, 27, -27, 60, 3600, 86399, int(rng.integers(2, 10 ** 7)), -int(rng.integers(2, 10 ** 7)), 119, 127]}
        yield 'dt_forms', {'scale': nm, 'ref': ['1979-01-01T06:30', '2001-09-09T01:46'][nm == 'hour'],
                           'M': [0, 1, -1, 59, 60, -60, 1440, -1440, 43200, -86400, 129600] +
                                [int(x) * 60 for x in rng.integers(-2400, 2400, size=6)] + [int(x) for x in rng.integers(-140000, 140000, size=12)]}
    yield 'sim_time', {'scale': 'default', 'ref': '1979-01-01T06:30', 'start': '1979-01-03T00:00', 'step_min': int(rng.integers(1, 720)), 'n': 5}
    yield 'sim_time', {'scale': 'hour', 'ref': '2000-02-29T12:34', 'start': '2000-01-31T23:59', 'step_min': 90, 'n': 3}
    # unevenly spaced axes: monthly stamps, a missing day, irregular minutes
    monthly = [int((np.datetime64('2001-%02d-01T00:00' % m, 'm') - np.datetime64('2001-01-01T00:00', 'm')) / np.timedelta64(1, 'm')) for m in range(1, 8)]
    yield 'sim_time', {'scale': 'default', 'ref': '2000-12-31T18:00', 'start': '2001-01-01T00:00', 'offsets': monthly, 'n': len(monthly)}
    yield 'sim_time', {'scale': 'default', 'ref': '1979-01-01T06:30', 'start': '1979-01-10T00:00', 'offsets': [0, 1440, 2880, 5760, 7200], 'n': 5}
    irr = sorted({int(x) for x in rng.integers(0, 20000, size=6)} | {0})
    yield 'sim_time', {'scale': 'hour', 'ref': '2000-02-29T12:34', 'start': '2000-02-27T03:17', 'offsets': irr, 'n': len(irr)}
    # process time zones with daylight saving (the other runners run in the sandbox's zone)
    for tz, sw in [('America/New_York', ['2021-03-14T07:00', '2021-11-07T06:00']), ('CET-1CEST,M3.5.0,M10.5.0/3', ['2021-03-28T01:00', '2021-10-31T01:00']),
                   ('Australia/Sydney', ['2021-04-03T16:00', '2021-10-02T16:00'])]:
        stamps = []
        for x in sw:
            for off in (-90, -1, 0, 61, 90):
                stamps.append(str(np.datetime64(x, 'm') + np.timedelta64(off, 'm')))
        for _ in range(6):
            stamps.append(str(np.datetime64('1990-01-01T00:00', 'm') + np.timedelta64(int(rng.integers(0, 40 * 525600)), 'm')))
        yield 'timezones', {'tz': tz, 'scale': 'default', 'stamps': stamps}
    yield 'purity', {'refs': ['1979-03-05T07:30', '2024-02-29T12:00'], 't': [float(x) for x in rng.uniform(-1e4, 1e4, size=6)],
                     's': [int(x) for x in rng.integers(-10 ** 6, 10 ** 6, size=50)]}
    # ---- Part C: phases
    for ref in ['1979-01-01T00:00', '1979-03-05T07:30', '2000-12-31T23:59', '2024-02-29T12:00', '1987-06-05T04:03:21']:
        ts = [0.0, -1e-9, 1e-9, 1.0, -1.0, 12.5] + [float(x) for x in rng.uniform(-2e5, 2e5, size=20 if quick else 200)] + \
             [float(x) for x in rng.uniform(-50, 50, size=20 if quick else 200)]
        yield 'phase', {'ref': ref, 'scale': 'default', 't': ts}
    yield 'phase', {'ref': '1990-06-15T03:00', 'scale': 'hour', 't': [0.0, 24.0, -24.0, 8766.0] + [float(x) for x in rng.uniform(-1e4, 1e4, size=20)]}
    dates = ['1980-01-01T00:00', '1980-12-31T23:59', '1981-12-31T23:59', '2000-02-29T12:00', '2100-03-01T00:01']
    for _ in range(20 if quick else 200):
        y = int(rng.integers(1900, 2101)); doy = int(rng.integers(0, 365)); mi = int(rng.integers(0, 1440))
        d = datetime.datetime(y, 1, 1) + datetime.timedelta(days=doy, minutes=mi)
        dates.append(d.strftime('%Y-%m-%dT%H:%M'))
    yield 'calendar_phase', {'dates': dates}


# ---------------------------------------------------------------------------
# Part A helpers
# ---------------------------------------------------------------------------
def _unit(u):
    scales = J()[0]
    out = scales.units.dimensionless
    for nm, e in u.items():
        out = out * getattr(scales.units, nm) ** e
    return out


def _scale_quantities(sp):
    """Returns the list of (magnitude, unit-dict) handed to Scale(...) and the Scale."""
    scales = J()[0]
    if sp == 'default':
        return [(q.magnitude, {k: int(v) for k, v in q._units.items()}) for q in
                (scales.RADIUS, 1 / 2 / scales.OMEGA, 1 * scales.units.kilogram, 1 * scales.units.degK)], scales.DEFAULT_SCALE
    if sp == 'atmospheric':
        return [(q.magnitude, {k: int(v) for k, v in q._units.items()}) for q in
                (scales.RADIUS, 1 / 2 / scales.OMEGA, scales.MASS_OF_DRY_ATMOSPHERE, 1 * scales.units.degK)], scales.ATMOSPHERIC_SCALE
    if isinstance(sp, str):
        sp = SCALES[sp]
    qs = [(float(v), dict(u)) for v, u in sp]
    return qs, scales.Scale(*[v * _unit(u) for v, u in qs])


def _table(names):
    scales = J()[0]
    cv = []; ud = []
    for nm in names:
        q = (1 * getattr(scales.units, nm)).to_base_units()
        cv.append(float(q.magnitude))
        dm = getattr(scales.units, nm).dimensionality
        row = []
        for d in DIMS:
            e = dm.get(d, 0)
            assert float(e) == int(e)
            row.append(int(e))
        assert set(dm.keys()) <= set(DIMS), dm
        ud.append(row)
    return cv, ud


def _specs(sp):
    scales, pe, xu, radiation = J()
    key = repr(sp)
    if key not in _specs.cache:
        if isinstance(sp, str) and sp in TIME_SCALES: spec = TIME_SCALES[sp]
        else: spec = sp
        _, S = _scale_quantities(spec)
        _specs.cache[key] = (pe.PrimitiveEquationsSpecs.from_si(scale=S), S, float(S['[time]'].magnitude))
    return _specs.cache[key]
_specs.cache = {}


def _form_input(m, form):
    """Builds the magnitude object handed to pint in the requested form; returns it
    with a float copy of its content (to check that the call does not modify it)."""
    a = np.asarray(m, dtype=np.float64)
    if form == 'int':
        obj = np.asarray(m) if a.ndim else int(m)
    elif a.ndim:
        if form == 'view':
            base = np.repeat(a, 2, axis=-1) * np.tile([1.0, -7.5], a.shape[-1])
            obj = base[..., ::2]
            obj.setflags(write=False)
        else:
            obj = a.copy()
    elif form == '0d':
        obj = np.asarray(float(m))
    elif form == '1el':
        obj = np.asarray([float(m)])
    else:
        obj = float(m)
    return obj, np.asarray(obj, dtype=np.float64).ravel().tolist()


def r_units(ctx, a):
    scales = J()[0]
    sq, S = _scale_quantities(a['scale'])
    qs = a['qs']
    names = sorted({nm for q in qs for nm in list(q['u']) + list(q['alt'])} | {nm for _, u in sq for nm in u})
    U = len(names); n = len(DIMS)
    cv, ud = _table(names)
    vec = lambda u: [int(u.get(nm, 0)) for nm in names]
    # --- table obligations: pint is a homomorphism on the compound units used here
    comp = [q['u'] for q in qs] + [q['alt'] for q in qs]
    ints = [U, n, len(comp)] + [e for row in ud for e in row] + [1] * n + [e for u in comp for e in vec(u)]
    mt = ctx.model.call(2, ints, [cv, [1] * n, [0] * len(comp)])
    ok = True; det = None
    for i, u in enumerate(comp):
        pu = _unit(u)
        pf = float((1 * pu).to_base_units().magnitude)
        pd = [pu.dimensionality.get(d, 0) for d in DIMS]
        mf = float(mt[i * (n + 1)]); md = [int(v) for v in mt[i * (n + 1) + 1:(i + 1) * (n + 1)]]
        if not (abs(pf - mf) <= 2.0 ** -40 * abs(mf)) or [float(x) for x in pd] != [float(x) for x in md]:
            ok = False; det = {'unit': u, 'pint_factor': pf, 'product_of_powers': mf, 'pint_dim': [float(x) for x in pd], 'model_dim': md}
            break
    ctx.table_obligation('H_pint_conv_multiplicative', ok, det)
    # --- Scale.__init__ : stored base-unit magnitudes
    dim_of_scale = []
    for v, u in sq:
        d = _unit(u).dimensionality
        dim_of_scale.append(DIMS.index(str(list(d.keys())[0])))
    w = [[0] * U for _ in range(n)]; vals = [1.0] * n; has = [0] * n
    for (v, u), di in zip(sq, dim_of_scale):
        w[di] = vec(u); vals[di] = v; has[di] = 1
    msc = ctx.model.call(3, [U, n, 0] + [e for row in w for e in row], [cv, vals])
    impl_sc = [float(S[DIMS[i]].magnitude) if has[i] else 1.0 for i in range(n)]
    ctx.corr('Scale.__init__ base-unit magnitudes', impl_sc, msc, scale=None if False else max(abs(x) for x in impl_sc), tol_rel=2.0 ** -40)
    for i in range(n):
        ctx.corr('Scale.__init__ base-unit magnitude [%d]' % i, [impl_sc[i]], [msc[i]], scale=abs(impl_sc[i]))
    # --- flatten quantities (arrays elementwise)
    flat = []   # (magnitude, u, alt, k)
    for q in qs:
        for m in np.asarray(q['m'], dtype=np.float64).ravel().tolist():
            flat.append((m, q['u'], q['alt'], q['k']))
    k = len(flat)
    base_ints = [U, n, k] + [e for row in ud for e in row] + has
    m_nd = ctx.model.call(0, base_ints + [e for f in flat for e in vec(f[1])], [cv, msc, [f[0] for f in flat]])
    impl_nd = []; impl_ok = []
    pos = 0
    sp4 = None
    if all(d in S for d in DIMS[:4]):
        sp4 = J()[1].PrimitiveEquationsSpecs.from_si(scale=S)
    for q in qs:
        arr = np.asarray(q['m'], dtype=np.float64)
        mag, keep = _form_input(q['m'], q.get('form', 'py'))
        ctx.count('units:form=%s' % q.get('form', 'py'))
        try:
            quantity = scales.units.Quantity(mag, _unit(q['u']))
            r0 = S.nondimensionalize(quantity)
            if sp4 is not None:      # the PrimitiveEquationsSpecs wrapper is the same function
                ctx.exact('specs.nondimensionalize = scale.nondimensionalize',
                          np.asarray(sp4.nondimensionalize(quantity), dtype=np.float64).ravel().tolist(),
                          np.asarray(r0, dtype=np.float64).ravel().tolist())
            ctx.exact('input magnitudes are not modified', np.asarray(mag, dtype=np.float64).ravel().tolist(), keep)
            r = np.asarray(r0, dtype=np.float64).ravel().tolist(); okk = 1
            if len(r) != arr.size: r = [float('nan')] * arr.size
        except ValueError:
            r = [0.0] * arr.size; okk = 0
        except (ZeroDivisionError, OverflowError):      # compound scaling factor left the float64 range
            r = [0.0] * arr.size; okk = -1
        if okk == 1 and not all(math.isfinite(x) and (x == 0 or abs(x) > 1e-280) for x in r): okk = -1
        impl_nd += r; impl_ok += [okk] * arr.size
    mflags = [int(v) for v in m_nd[0::2]]
    ctx.exact('nondimensionalize raises iff a needed scale is missing', [mf if io == -1 else io for io, mf in zip(impl_ok, mflags)], mflags)
    ctx.count('units:valueerror', impl_ok.count(0)); ctx.count('units:quantities', k); ctx.count('units:range_skipped', impl_ok.count(-1))
    impl_ok = [1 if io == 1 else 0 for io in impl_ok]
    for i in range(k):
        if impl_ok[i] or not mflags[i]:
            ctx.corr('Scale.nondimensionalize', [impl_nd[i]], [m_nd[2 * i + 1]], scale=abs(float(m_nd[2 * i + 1])) + 1e-300)
    # --- dimensionalize in an alternative compatible unit
    m_dim = ctx.model.call(1, base_ints + [e for f in flat for e in vec(f[2])], [cv, msc, impl_nd])
    pos = 0
    for q in qs:       # array-valued and wrapper forms of dimensionalize agree bit for bit with the elementwise calls
        arr = np.asarray(q['m'], dtype=np.float64); sz = arr.size
        if arr.ndim and all(impl_ok[pos:pos + sz]):
            vals_q = np.asarray(impl_nd[pos:pos + sz]).reshape(arr.shape)
            whole = np.asarray(S.dimensionalize(vals_q, _unit(q['alt'])).magnitude, dtype=np.float64).ravel().tolist()
            each = [float(S.dimensionalize(v, _unit(q['alt'])).magnitude) for v in impl_nd[pos:pos + sz]]
            ctx.exact('dimensionalize: array call = elementwise calls', whole, each)
            if sp4 is not None:
                ctx.exact('specs.dimensionalize = scale.dimensionalize',
                          np.asarray(sp4.dimensionalize(vals_q, _unit(q['alt'])).magnitude, dtype=np.float64).ravel().tolist(), whole)
        pos += sz
    for i, (m, u, alt, kk) in enumerate(flat):
        if not impl_ok[i]: continue
        back = S.dimensionalize(impl_nd[i], _unit(alt))
        ctx.corr('Scale.dimensionalize', [float(back.magnitude)], [m_dim[2 * i + 1]], scale=abs(float(m_dim[2 * i + 1])) + 1e-300)
        # property clauses on the implementation
        orig = m * _unit(u)
        want = orig.to(_unit(alt)).magnitude
        ctx.oracle_close('dimensionalize(nondimensionalize(q)) in a compatible unit returns q', [float(back.magnitude)], [float(want)],
                         scale=abs(float(want)) + 1e-300)
        same = S.dimensionalize(impl_nd[i], _unit(u))
        ctx.oracle_close('dimensionalize(nondimensionalize(q)) in the same unit returns q', [float(same.magnitude)], [m], scale=abs(m))
        nd2 = S.nondimensionalize(orig.to(_unit(alt)))
        ctx.oracle_close('nondimensionalize is independent of the unit of expression', [float(nd2)], [impl_nd[i]], scale=abs(impl_nd[i]) + 1e-300)
        j = (i + 1) % k
        # products / quotients / powers: compound scaling factors can leave the float64 range
        # (e.g. mass^-9 under the atmospheric scale underflows to 0): those cases are skipped
        def _nd(fq):
            try:
                r = float(S.nondimensionalize(fq()))
            except (ZeroDivisionError, OverflowError):
                return None
            return r if math.isfinite(r) and abs(r) > 1e-280 else None
        if impl_ok[j]:
            q2 = flat[j][0] * _unit(flat[j][1])
            pr = impl_nd[i] * impl_nd[j]; qu = impl_nd[i] / impl_nd[j] if impl_nd[j] != 0 else float('inf')
            a1 = _nd(lambda: orig * q2); a2 = _nd(lambda: orig / q2)
            if a1 is not None and math.isfinite(pr) and abs(pr) > 1e-280:
                ctx.oracle_close('nondimensionalize respects products', [a1], [pr], scale=abs(pr))
            else: ctx.count('units:range_skipped')
            if a2 is not None and math.isfinite(qu) and abs(qu) > 1e-280:
                ctx.oracle_close('nondimensionalize respects quotients', [a2], [qu], scale=abs(qu))
            else: ctx.count('units:range_skipped')
        try:
            pw = impl_nd[i] ** kk
        except (ZeroDivisionError, OverflowError):
            pw = float('inf')
        p = _nd(lambda: orig ** kk)
        if p is not None and math.isfinite(pw) and abs(pw) > 1e-280:
            ctx.oracle_close('nondimensionalize respects powers', [p], [pw], scale=abs(pw))
        else: ctx.count('units:range_skipped')


# ---------------------------------------------------------------------------
# Part B: vm_compute on the primitive-float model
# ---------------------------------------------------------------------------
_HEADER = ('From Dino Require Import Model.Time64.\nFrom Coq Require Import ZArith PrimFloat List.\n'
           'Set Printing Depth 100000000.\nSet Printing Width 100000.\n')
_NUM = re.compile(r'neg_infinity|infinity|nan|-?\d+(?:\.\d+)?(?:e[+-]?\d+)?')


def _tok(t):
    if t == 'nan': return float('nan')
    if t == 'infinity': return float('inf')
    if t == 'neg_infinity': return float('-inf')
    if re.fullmatch(r'-?\d+', t): return int(t)
    return float(t)


_cache = {}


def coq_eval(ctx, exprs):
    """Evaluates Gallina expressions over Model/Time64.v with vm_compute; returns
    for each expression the flat list of numbers printed (ints stay ints; floats
    are printed by Coq with 17 significant digits, i.e. exactly), or None."""
    miss = [e for e in dict.fromkeys(exprs) if e not in _cache]
    if miss: _run_coq(ctx, miss)
    return [_cache.get(e) for e in exprs]


def _cost(e):
    m = re.search(r'N\.to_nat (\d+)%N', e)
    return (int(m.group(1)) if m else 0) + len(e) // 8 + 2000


def _run_coq(ctx, exprs, workers=4):
    if not exprs: return
    groups = [[] for _ in range(min(workers, len(exprs)))]; load = [0] * len(groups)
    for e in sorted(exprs, key=_cost, reverse=True):
        i = load.index(min(load)); groups[i].append(e); load[i] += _cost(e)
    d = tempfile.mkdtemp(prefix='c18_')
    try:
        procs = []
        for i, g in enumerate(groups):
            with open(os.path.join(d, 'cases%d.v' % i), 'w') as f:
                f.write(_HEADER + ''.join('Eval vm_compute in (%s).\n' % e for e in g))
            procs.append(subprocess.Popen(['bash', '-c', 'ulimit -s unlimited 2>/dev/null || ulimit -s 1000000 2>/dev/null; '
                                           'timeout 1700 coqc -q -Q %s Dino cases%d.v' % (core.COQ, i)],
                                          cwd=d, stdout=subprocess.PIPE, stderr=subprocess.STDOUT, text=True))
        for g, p in zip(groups, procs):
            out = p.communicate()[0]
            if ctx.model is not None: ctx.model.calls += len(g)
            if p.returncode != 0:
                ctx.notes.append('coqc on generated cases failed: ' + out[-400:]); continue
            blocks = re.split(r'^\s*= ', out, flags=re.M)[1:]
            if len(blocks) != len(g):
                ctx.notes.append('coqc output: %d blocks for %d expressions' % (len(blocks), len(g))); continue
            for e, b in zip(g, blocks):
                body = re.split(r'^\s*: ', b, flags=re.M)[0]
                _cache[e] = [_tok(t) for t in _NUM.findall(body)]
    finally:
        shutil.rmtree(d, ignore_errors=True)


def _hexlit(x):
    return '(%s)%%float' % float(x).hex()


def _zl(l):
    return '(' + ' :: '.join('(%d)%%Z' % int(v) for v in l) + ' :: nil)'


def _bits_equal(name, ctx, impl, model):
    """bit-exact comparison of float64 arrays (float.hex)"""
    if model is None:
        return ctx.exact(name, 'impl', None)
    ih = [float(x).hex() for x in impl]; mh = [float(x).hex() for x in model]
    if ih == mh:
        ctx.comparisons += 1; return True
    bad = [i for i, (x, y) in enumerate(zip(ih, mh)) if x != y][:3] if len(ih) == len(mh) else 'length'
    return ctx.exact(name, {'first_bad': bad, 'impl': [ih[i] for i in bad] if bad != 'length' else len(ih)},
                     {'first_bad': bad, 'impl': [mh[i] for i in bad] if bad != 'length' else len(mh)})


def _e_td_dense(a): return ['deviations (td_roundtrip %s) (zrange (%d)%%Z 1%%Z (N.to_nat %d%%N))' % (_hexlit(_specs(a['scale'])[2]), a['a'], a['n'])]
def _e_td_trace(a): return ['map (td_trace %s) %s' % (_hexlit(_specs(a['scale'])[2]), _zl(a['s']))]
def _e_dt_trace(a): return ['map (dt_trace %s) %s' % (_hexlit(_specs(a['scale'])[2]), _zl(a['M']))]
def _e_dt_dense(a): return ['deviations (dt_roundtrip %s) (zrange (%d)%%Z 1%%Z (N.to_nat %d%%N))' % (_hexlit(_specs(a['scale'])[2]), a['a'], a['n'])]
def _fl(l): return '(' + ' :: '.join(_hexlit(v) for v in l) + ' :: nil)'
def _nd_values(a):
    T = _specs(a['scale'])[2]
    return [float(np.float64(x) / np.float64(T)) for x in a['secs']]
def _e_td_dim(a):
    T = _specs(a['scale'])[2]; v = _nd_values(a)
    return ['map (dim_td %s) %s' % (_hexlit(T), _fl(v)), 'map (fun v => dim_dt %s (v * 60)%%float) %s' % (_hexlit(T), _fl(v))]
def _e_td_ints(a): return ['map (dim_td %s) %s' % (_hexlit(_specs(a['scale'])[2]), _fl([0.0, 1.0, -1.0, 2.0, 5.0]))]
def _e_dt_axis(a):
    steps = [int(x) for x in a['M'] if x > 0][:6]
    return ['map (nondim_td %s) %s' % (_hexlit(_specs(a['scale'])[2]), _zl([st * 60 for st in steps]))]
def _sim_times(a):
    if 'offsets' in a:
        return np.datetime64(a['start'], 'm') + np.asarray(a['offsets'], dtype=np.int64).astype('timedelta64[m]')
    return np.datetime64(a['start']) + np.arange(a['n']) * np.timedelta64(a['step_min'], 'm')
def _e_sim_time(a):
    ref = np.datetime64(a['ref']); times = _sim_times(a)
    return ['map (dt_trace %s) %s' % (_hexlit(_specs(a['scale'])[2]), _zl([int(x) for x in ((times - ref) / np.timedelta64(1, 'm'))]))]
def _e_time_axis(a): return ['map (nondim_td %s) %s' % (_hexlit(_specs(a['scale'])[2]), _zl(a['steps']))]
EXPRS = {'td_forms': lambda a: _e_td_trace(a) + _e_td_ints(a), 'dt_forms': lambda a: _e_dt_trace(a) + _e_dt_axis(a), 'sim_time': _e_sim_time,
         'td_dim': _e_td_dim, 'td_dense': _e_td_dense, 'td_trace': _e_td_trace, 'dt_trace': _e_dt_trace, 'dt_dense': _e_dt_dense, 'time_axis': _e_time_axis}


def _td_impl(specs, arr_s):
    td = np.asarray(arr_s, dtype=np.int64).astype('timedelta64[s]')
    nd = np.asarray(specs.nondimensionalize_timedelta64(td), dtype=np.float64)
    back = specs.dimensionalize_timedelta64(nd).astype(np.int64)
    return nd, back


def r_td_dense(ctx, a):
    specs, S, T = _specs(a['scale'])
    s = np.arange(a['a'], a['a'] + a['n'], dtype=np.int64)
    nd, back = _td_impl(specs, s)
    dev = [[int(x), int(y)] for x, y in zip(s[back != s], back[back != s])]
    ctx.oracle('whole-second durations survive the round trip', not dev, {'T': T, 'first': dev[:5], 'count': len(dev)})
    res = coq_eval(ctx, _e_td_dense(a))[0]
    mdev = None if res is None else [[res[i], res[i + 1]] for i in range(0, len(res), 2)]
    ctx.exact('dimensionalize_timedelta64(nondimensionalize_timedelta64(s)): set of s not returned (dense)', dev, mdev)
    ctx.count('td:dense', a['n'])


def r_td_trace(ctx, a):
    scales = J()[0]
    specs, S, T = _specs(a['scale'])
    s = [int(x) for x in a['s']]
    nd, back = _td_impl(specs, s)
    dim = np.asarray(S.dimensionalize(nd, scales.units.second).magnitude, dtype=np.float64)
    # scalar code path (int(dt)) on a subsample
    sub = list(range(0, len(s), max(1, len(s) // 150)))
    sc_nd = []; sc_back = []
    for i in sub:
        v = specs.nondimensionalize_timedelta64(np.timedelta64(s[i], 's'))
        sc_nd.append(float(v)); sc_back.append(int(specs.dimensionalize_timedelta64(v) / np.timedelta64(1, 's')))
    ctx.exact('scalar and array code paths agree', [[float(nd[i]).hex() for i in sub], [int(back[i]) for i in sub]],
              [[x.hex() for x in sc_nd], sc_back])
    bad = [[x, int(y)] for x, y in zip(s, back) if x != y]
    ctx.oracle('whole-second durations survive the round trip', not bad, {'T': T, 'first': bad[:5], 'count': len(bad)})
    res = coq_eval(ctx, _e_td_trace(a))[0]
    if res is None or len(res) != 4 * len(s):
        ctx.exact('td_trace model evaluation', 'ok', 'failed'); return
    _bits_equal('nondimensionalize_timedelta64 bit-exact', ctx, nd, res[0::4])
    _bits_equal('scale.dimensionalize(., second) bit-exact', ctx, dim, res[1::4])
    snapped = np.round(dim * 1e3) / 1e3
    _bits_equal('millisecond snap (numpy re-evaluation of the source expression) bit-exact', ctx, snapped, res[2::4])
    ctx.exact('dimensionalize_timedelta64 result', [int(x) for x in back], [int(x) for x in res[3::4]])
    ctx.count('td:trace', len(s))


def r_td_dim(ctx, a):
    """dimensionalize_timedelta64 / nondim_time_to_datetime64 on arbitrary non-dimensional
    values (not only images of whole seconds): snapping and rounding behaviour next to
    the boundaries."""
    xu = J()[2]
    specs, S, T = _specs(a['scale'])
    v = np.asarray(_nd_values(a), dtype=np.float64)
    got = specs.dimensionalize_timedelta64(v).astype(np.int64)
    got_scalar = [int(specs.dimensionalize_timedelta64(np.float64(x)) / np.timedelta64(1, 's')) for x in v[:40]]
    ctx.exact('scalar and array code paths agree', [int(x) for x in got[:40]], got_scalar)
    ref = np.datetime64('2000-01-01T00:00', 'm')
    mins = ((xu.nondim_time_to_datetime64(v * 60.0, specs, ref) - ref) / np.timedelta64(1, 'm')).astype(np.int64)
    res = coq_eval(ctx, _e_td_dim(a))
    ctx.exact('dimensionalize_timedelta64 on arbitrary values', [int(x) for x in got], res[0])
    ctx.exact('nondim_time_to_datetime64 on arbitrary values', [int(x) for x in mins], res[1])
    ctx.count('td:dim', len(v))


def r_td_oracle(ctx, a):
    specs, S, T = _specs(a['scale']) if a['scale'] != 'atmospheric' else _specs_atm()
    chunk = 2000000; bad = []
    for lo in range(a['a'], a['a'] + a['n'], chunk):
        s = np.arange(lo, min(lo + chunk, a['a'] + a['n']), dtype=np.int64)
        nd, back = _td_impl(specs, s)
        m = back != s
        bad += [[int(x), int(y)] for x, y in zip(s[m][:5], back[m][:5])]
    ctx.oracle('whole-second durations survive the round trip', not bad, {'T': T, 'first': bad[:5]})
    ctx.count('td:oracle', a['n'])


def _specs_atm():
    scales, pe, xu, radiation = J()
    S = scales.ATMOSPHERIC_SCALE
    return pe.PrimitiveEquationsSpecs.from_si(scale=S), S, float(S['[time]'].magnitude)


def _dt_impl(specs, ref, M, unit):
    xu = J()[2]
    r = np.datetime64(ref).astype('datetime64[%s]' % unit)
    t = (np.datetime64(ref).astype('datetime64[m]') + np.asarray(M, dtype=np.int64).astype('timedelta64[m]')).astype('datetime64[%s]' % unit)
    nd = np.asarray(xu.datetime64_to_nondim_time(t, specs, r), dtype=np.float64)
    back = xu.nondim_time_to_datetime64(nd, specs, r)
    backM = ((back - r) / np.timedelta64(1, 'm'))
    return t, nd, back, backM


def r_dt_trace(ctx, a):
    scales = J()[0]
    specs, S, T = _specs(a['scale'])
    M = [int(x) for x in a['M']]
    t, nd, back, backM = _dt_impl(specs, a['ref'], M, a['unit'])
    mins = np.asarray(specs.dimensionalize(nd, scales.units.minute).magnitude, dtype=np.float64)
    bad = [[m, str(x), str(y)] for m, x, y in zip(M, t, back) if x != y]
    ctx.oracle('calendar times survive the model-time round trip at minute resolution', not bad, {'T': T, 'first': bad[:3]})
    res = coq_eval(ctx, _e_dt_trace(a))[0]
    if res is None or len(res) != 3 * len(M):
        ctx.exact('dt_trace model evaluation', 'ok', 'failed'); return
    _bits_equal('datetime64_to_nondim_time bit-exact', ctx, nd, res[0::3])
    _bits_equal('dimensionalize(., minute) bit-exact', ctx, mins, res[1::3])
    ctx.exact('nondim_time_to_datetime64 minutes', [int(x) for x in backM], [int(x) for x in res[2::3]])
    ctx.count('dt:trace', len(M))


def r_dt_dense(ctx, a):
    specs, S, T = _specs(a['scale'])
    M = np.arange(a['a'], a['a'] + a['n'], dtype=np.int64)
    t, nd, back, backM = _dt_impl(specs, a['ref'], M, 'm')
    m = backM != M
    dev = [[int(x), int(y)] for x, y in zip(M[m], backM[m])]
    ctx.oracle('calendar times survive the model-time round trip at minute resolution', not dev, {'T': T, 'first': dev[:3]})
    res = coq_eval(ctx, _e_dt_dense(a))[0]
    mdev = None if res is None else [[res[i], res[i + 1]] for i in range(0, len(res), 2)]
    ctx.exact('nondim_time_to_datetime64(datetime64_to_nondim_time(t)): set of minutes not returned (dense)', dev, mdev)
    ctx.count('dt:dense', a['n'])


def r_dt_oracle(ctx, a):
    """datetimes over 1900-2100 at minute resolution, datetime64[m], [s] and [ns]"""
    specs, S, T = _specs(a['scale'])
    rng = np.random.Generator(np.random.PCG64(a['seed']))
    lo = np.datetime64('1900-01-01T00:00', 'm'); hi = np.datetime64('2100-12-31T23:59', 'm')
    span = int((hi - lo) / np.timedelta64(1, 'm'))
    t = lo + rng.integers(0, span + 1, size=a['n']).astype('timedelta64[m]')
    xu = J()[2]
    for unit in ('m', 's', 'ns'):
        r = np.datetime64(a['ref']).astype('datetime64[%s]' % unit); tu = t.astype('datetime64[%s]' % unit)
        nd = xu.datetime64_to_nondim_time(tu, specs, r)
        back = xu.nondim_time_to_datetime64(nd, specs, r)
        m = back != tu
        ctx.oracle('calendar times survive the model-time round trip at minute resolution', not m.any(),
                   {'unit': unit, 'first': [str(x) for x in tu[m][:3]], 'back': [str(x) for x in back[m][:3]]})
    ctx.count('dt:oracle', a['n'])


def r_time_axis(ctx, a):
    scales, pe, xu, radiation = J()
    specs, S, T = _specs(a['scale'])
    impl = []
    for st in a['steps']:
        ax = np.datetime64('2000-01-01T00:00:00') + np.arange(3) * np.timedelta64(int(st), 's')
        impl.append(float(xu.nondim_time_delta_from_time_axis(ax, specs)))
        axf = np.array([0.25, 0.25 + st / 7.0, 1.0])
        ctx.exact('float time axis passes through', float(xu.nondim_time_delta_from_time_axis(axf, specs)), float(axf[1] - axf[0]))
    res = coq_eval(ctx, _e_time_axis(a))[0]
    _bits_equal('nondim_time_delta_from_time_axis bit-exact', ctx, impl, res)



# ---------------------------------------------------------------------------
# forms, options and state (self-review)
# ---------------------------------------------------------------------------
def _scale_sigma_T(sp):
    """Temperature scale in kelvin from the literal scale description."""
    if sp in ('default', 'atmospheric'): return 1.0
    if isinstance(sp, str): sp = SCALES[sp]
    for v, u in sp:
        (nm, e), = u.items()
        if nm == 'kelvin': return float(v)
        if nm == 'delta_degC': return float(v)
        if nm == 'delta_degF': return float(v) * 5.0 / 9.0
    raise KeyError('no temperature scale')


def r_offset_units(ctx, a):
    """Offset units (the registry is built with autoconvert_offset_to_baseunit=True): degC / degF
    quantities are converted to kelvin before scaling.  References: the affine definitions
    K = C + 273.15, K = (F + 459.67) * 5/9 evaluated here, and the multiplicative model on K."""
    scales = J()[0]; u = scales.units
    sq, S = _scale_quantities(a['scale'])
    sig = _scale_sigma_T(a['scale'])
    for name, vals, toK, fromK, off in (('degC', a['degC'], lambda c: c + 273.15, lambda k: k - 273.15, 273.15),
                                        ('degF', a['degF'], lambda f: (f + 459.67) * 5.0 / 9.0, lambda k: k * 9.0 / 5.0 - 459.67, 459.67)):
        unit = getattr(u, name)
        arr = np.asarray(vals, dtype=np.float64)
        nd_arr = np.asarray(S.nondimensionalize(u.Quantity(arr, unit)), dtype=np.float64)
        nd_sc = [float(S.nondimensionalize(u.Quantity(float(v), unit))) for v in vals]
        ctx.exact('offset units: array call = scalar calls (%s)' % name, nd_arr.tolist(), nd_sc)
        K = np.array([toK(float(v)) for v in vals])
        sc = (np.abs(arr) + off) / sig
        for i in range(len(vals)):
            ctx.oracle_close('nondimensionalize of an offset-unit quantity = its absolute temperature / temperature scale (%s)' % name,
                             [nd_sc[i]], [K[i] / sig], scale=sc[i], tol_rel=2.0 ** -40)
            # multiplicative model applied to the kelvin value
            names = sorted({'kelvin'} | {nm for _, uu in sq for nm in uu}); cv, ud = _table(names)
            has = [1 if d in S else 0 for d in DIMS]; scv = [float(S[d].magnitude) if d in S else 1.0 for d in DIMS]
            ints = [len(names), len(DIMS), 1] + [e for row in ud for e in row] + has + [1 if nm == 'kelvin' else 0 for nm in names]
            m = ctx.model.call(0, ints, [cv, scv, [K[i]]])
            ctx.corr('Scale.nondimensionalize (offset unit, model on the kelvin value)', [nd_sc[i]], [m[1]], scale=sc[i])
            back = S.dimensionalize(nd_sc[i], unit)
            ctx.oracle_close('dimensionalize(nondimensionalize(q)) in the same unit returns q (%s)' % name, [float(back.magnitude)], [float(vals[i])],
                             scale=abs(float(vals[i])) + off, tol_rel=2.0 ** -40)
            ctx.oracle_close('dimensionalize to an offset unit = affine image of the kelvin value (%s)' % name,
                             [float(S.dimensionalize(K[i] / sig, unit).magnitude)], [fromK(K[i])], scale=abs(K[i]) * 2 + off, tol_rel=2.0 ** -40)
            ctx.oracle_close('nondimensionalize is independent of the unit of expression (%s vs kelvin)' % name,
                             [float(S.nondimensionalize(K[i] * u.kelvin))], [nd_sc[i]], scale=sc[i], tol_rel=2.0 ** -40)
        back_arr = np.asarray(S.dimensionalize(nd_arr, unit).magnitude, dtype=np.float64)
        ctx.oracle_close('dimensionalize(nondimensionalize(q)) in the same unit returns q (%s, array)' % name, back_arr, arr,
                         scale=float(np.abs(arr).max()) + off, tol_rel=2.0 ** -40)
        other = u.degF if name == 'degC' else u.degC
        ctx.oracle_close('nondimensionalize is independent of the unit of expression (degC <-> degF)',
                         np.asarray(S.nondimensionalize(u.Quantity(arr, unit).to(other)), dtype=np.float64), nd_arr, scale=float(sc.max()), tol_rel=2.0 ** -40)


def r_scale_api(ctx, a):
    """Constructor validation, Mapping interface, parse_units aliases."""
    scales = J()[0]; u = scales.units
    def raises(f):
        try: f(); return False
        except ValueError: return True
    ctx.oracle('Scale rejects two scales of one dimension', raises(lambda: scales.Scale(1 * u.m, 2 * u.km)), None)
    ctx.oracle('Scale rejects two scales of one dimension', raises(lambda: scales.Scale(1 * u.s, 1 * u.m, 3 * u.hour)), None)
    ctx.oracle('Scale rejects compound-unit scales', raises(lambda: scales.Scale(1 * u.m / u.s)), None)
    ctx.oracle('Scale rejects compound-unit scales', raises(lambda: scales.Scale(1 * u.m ** 2)), None)
    ctx.oracle('Scale rejects compound-unit scales', raises(lambda: scales.Scale(1 * u.dimensionless)), None)
    S = scales.Scale(2 * u.km, 3 * u.minute)
    ctx.exact('Mapping interface of Scale', [len(S), list(S), float(S['[length]'].magnitude), float(S['[time]'].magnitude),
                                             str(S['[length]'].units), str(S['[time]'].units), '[mass]' in S],
              [2, ['[length]', '[time]'], 2000.0, 180.0, 'meter', 'second', False])
    ctx.oracle('nondimensionalize raises ValueError when a scale is missing', raises(lambda: S.nondimensionalize(1 * u.kg)), None)
    ctx.oracle('dimensionalize raises ValueError when a scale is missing', raises(lambda: S.dimensionalize(1.0, u.kelvin)), None)
    ctx.exact('a partial scale converts what it covers', float(S.nondimensionalize(10 * u.m / u.s)), 10.0 / 2000.0 * 180.0)
    for txt in ['(0 - 1)', '%', '~', 'dimensionless']:
        q = scales.parse_units(txt)
        ctx.exact('parse_units alias %r is dimensionless with factor 1' % txt, [float(q.magnitude), str(q.units)], [1.0, 'dimensionless'])
    for txt, want in [('m/s', {'meter': 1, 'second': -1}), ('kg m**-2', {'kilogram': 1, 'meter': -2}), ('K', {'kelvin': 1}), ('Pa', {'pascal': 1})]:
        q = scales.parse_units(txt)
        ctx.exact('parse_units %r' % txt, [float(q.magnitude), {k: int(v) for k, v in q._units.items()}], [1.0, want])
    D = scales.DEFAULT_SCALE; A = scales.ATMOSPHERIC_SCALE
    ctx.exact('DEFAULT_SCALE / ATMOSPHERIC_SCALE literal values',
              [float(D['[length]'].magnitude), float(D['[time]'].magnitude).hex(), float(D['[mass]'].magnitude), float(D['[temperature]'].magnitude),
               float(A['[length]'].magnitude), float(A['[time]'].magnitude).hex(), float(A['[mass]'].magnitude), float(A['[temperature]'].magnitude)],
              [6.37122e6, (1.0 / (2.0 * 7.292e-5)).hex(), 1.0, 1.0, 6.37122e6, (1.0 / (2.0 * 7.292e-5)).hex(), 5.18e18, 1.0])


def r_td_forms(ctx, a):
    """Scalars, 0-d, 1-element, empty, 2-D, strided read-only, other timedelta units, python /
    numpy / jax scalars: every form must give what the flat array path gives (which is compared
    with the model bit for bit)."""
    import jax.numpy as jnp
    specs, S, T = _specs(a['scale'])
    nd_f = specs.nondimensionalize_timedelta64; dm_f = specs.dimensionalize_timedelta64
    s = [int(x) for x in a['s']]
    res = coq_eval(ctx, _e_td_trace(a))[0]
    if res is None or len(res) != 4 * len(s):
        ctx.exact('td_trace model evaluation', 'ok', 'failed'); return
    m_nd = [float(x) for x in res[0::4]]; m_back = [int(x) for x in res[3::4]]
    ctx.oracle_close('time scale = its literal definition', [T], [_T_independent(a['scale'])], scale=T, tol_rel=2.0 ** -50)
    td = np.asarray(s, dtype=np.int64).astype('timedelta64[s]')
    hexs = lambda x: [float(v).hex() for v in np.asarray(x, dtype=np.float64).ravel()]
    want = [float(v).hex() for v in m_nd]
    ctx.exact('nondimensionalize_timedelta64: flat array', hexs(nd_f(td)), want)
    ctx.exact('nondimensionalize_timedelta64: scalars', [float(nd_f(x)).hex() for x in td], want)
    ctx.exact('nondimensionalize_timedelta64: 0-d arrays', [float(nd_f(np.asarray(x))).hex() for x in td], want)
    ctx.exact('nondimensionalize_timedelta64: 1-element arrays', [float(nd_f(np.asarray([x]))[0]).hex() for x in td], want)
    ctx.exact('nondimensionalize_timedelta64: empty array', list(np.asarray(nd_f(td[:0])).shape), [0])
    two = td.reshape(2, -1)
    ctx.exact('nondimensionalize_timedelta64: 2-D array', hexs(nd_f(two)), want)
    base = np.stack([td, td[::-1]], axis=1).copy(); view = base[:, 0]; view.setflags(write=False)
    ctx.exact('nondimensionalize_timedelta64: strided read-only view', hexs(nd_f(view)), want)
    ctx.exact('input not modified', view.astype(np.int64).tolist(), s)
    for unit, mult in (('ms', 1000), ('us', 10 ** 6), ('ns', 10 ** 9)):
        ctx.exact('nondimensionalize_timedelta64: timedelta64[%s] input' % unit, hexs(nd_f((np.asarray(s, dtype=np.int64) * mult).astype('timedelta64[%s]' % unit))), want)
    for unit, div in (('m', 60), ('h', 3600), ('D', 86400)):
        idx = [i for i, x in enumerate(s) if x % div == 0]
        arr = np.asarray([s[i] // div for i in idx], dtype=np.int64).astype('timedelta64[%s]' % unit)
        ctx.exact('nondimensionalize_timedelta64: timedelta64[%s] input' % unit, hexs(nd_f(arr)), [want[i] for i in idx])
    # dimensionalize_timedelta64
    v = np.asarray(m_nd, dtype=np.float64)
    sec = lambda x: int(x / np.timedelta64(1, 's'))
    ctx.exact('dimensionalize_timedelta64: flat array', dm_f(v).astype(np.int64).tolist(), m_back)
    ctx.exact('dimensionalize_timedelta64: dtype', str(dm_f(v).dtype), 'timedelta64[s]')
    ctx.exact('dimensionalize_timedelta64: python floats', [sec(dm_f(float(x))) for x in v], m_back)
    ctx.exact('dimensionalize_timedelta64: numpy scalars', [sec(dm_f(x)) for x in v], m_back)
    ctx.exact('dimensionalize_timedelta64: 0-d arrays', [sec(dm_f(np.asarray(x))) for x in v], m_back)
    ctx.exact('dimensionalize_timedelta64: 0-d jax arrays', [sec(dm_f(jnp.asarray(x))) for x in v], m_back)
    ctx.exact('dimensionalize_timedelta64: 1-element arrays', [int(dm_f(np.asarray([x])).astype(np.int64)[0]) for x in v], m_back)
    ctx.exact('dimensionalize_timedelta64: empty array', list(dm_f(v[:0]).shape), [0])
    ctx.exact('dimensionalize_timedelta64: 2-D array', dm_f(v.reshape(-1, 2)).astype(np.int64).ravel().tolist(), m_back)
    vb = np.stack([v, -v], axis=1).copy(); vv = vb[:, 0]; vv.setflags(write=False)
    ctx.exact('dimensionalize_timedelta64: strided read-only view', dm_f(vv).astype(np.int64).tolist(), m_back)
    ctx.exact('input not modified', hexs(vv), want)
    # integer-typed non-dimensional values: k * T seconds
    ints = [0, 1, -1, 2, 5]
    wanti = coq_eval(ctx, _e_td_ints(a))[0]
    ctx.exact('dimensionalize_timedelta64: integer array', dm_f(np.asarray(ints)).astype(np.int64).tolist(), wanti)
    ctx.exact('dimensionalize_timedelta64: python ints', [sec(dm_f(k)) for k in ints], wanti)


def r_dt_forms(ctx, a):
    """datetime helpers: scalar / array / 2-D inputs, datetime64 units [ns] ... [D], reference not at
    midnight, python / numpy scalars for the inverse, time-axis helper in every unit."""
    xu = J()[2]
    specs, S, T = _specs(a['scale'])
    M = [int(x) for x in a['M']]
    res = coq_eval(ctx, _e_dt_trace(a))[0]
    if res is None or len(res) != 3 * len(M):
        ctx.exact('dt_trace model evaluation', 'ok', 'failed'); return
    want = [float(x).hex() for x in res[0::3]]; backM = [int(x) for x in res[2::3]]
    hexs = lambda x: [float(v).hex() for v in np.asarray(x, dtype=np.float64).ravel()]
    for unit in ('ns', 'us', 'ms', 's', 'm'):
        r = np.datetime64(a['ref']).astype('datetime64[%s]' % unit)
        t = r + (np.asarray(M, dtype=np.int64).astype('timedelta64[m]')).astype('timedelta64[%s]' % unit)
        nd = xu.datetime64_to_nondim_time(t, specs, r)
        ctx.exact('datetime64_to_nondim_time: datetime64[%s] array' % unit, hexs(nd), want)
        ctx.exact('datetime64_to_nondim_time: datetime64[%s] scalars' % unit, [float(xu.datetime64_to_nondim_time(x, specs, r)).hex() for x in t], want)
        ctx.exact('datetime64_to_nondim_time: 2-D array', hexs(xu.datetime64_to_nondim_time(np.stack([t, t[::-1]]), specs, r)), want + want[::-1])
        nd = np.asarray(nd, dtype=np.float64)
        back = xu.nondim_time_to_datetime64(nd, specs, r)
        ctx.exact('nondim_time_to_datetime64: datetime64[%s] array' % unit, ((back - r) / np.timedelta64(1, 'm')).astype(np.int64).tolist(), backM)
        ctx.oracle('calendar times survive the model-time round trip at minute resolution', bool((back == t).all()),
                   {'unit': unit, 'ref': a['ref'], 'first': [str(x) for x in t[back != t][:3]]})
        sc_back = [xu.nondim_time_to_datetime64(x, specs, r) for x in nd] + [xu.nondim_time_to_datetime64(float(x), specs, r) for x in nd[:4]] + \
                  [xu.nondim_time_to_datetime64(np.asarray(x), specs, r) for x in nd[:4]]
        ctx.exact('nondim_time_to_datetime64: scalar forms (numpy / python / 0-d)', [str(np.datetime64(x, 'm')) for x in sc_back],
                  [str(np.datetime64(x, 'm')) for x in list(t) + list(t[:4]) + list(t[:4])])
        ctx.exact('nondim_time_to_datetime64: 2-D array', [str(x) for x in xu.nondim_time_to_datetime64(nd.reshape(-1, 1), specs, r).ravel()], [str(x) for x in back])
    # a reference with seconds: the seconds are carried through unchanged
    r = np.datetime64(a['ref'] + ':17'); t = r + np.asarray(M, dtype=np.int64).astype('timedelta64[m]')
    back = xu.nondim_time_to_datetime64(xu.datetime64_to_nondim_time(t, specs, r), specs, r)
    ctx.oracle('calendar times survive the model-time round trip at minute resolution', bool((back == t).all()),
               {'ref': str(r), 'first': [str(x) for x in t[back != t][:3]]})
    for unit, div in (('h', 60), ('D', 1440)):
        idx = [i for i, x in enumerate(M) if x % div == 0]
        r = np.datetime64(a['ref']).astype('datetime64[%s]' % unit)
        t = r + np.asarray([M[i] // div for i in idx], dtype=np.int64).astype('timedelta64[%s]' % unit)
        ctx.exact('datetime64_to_nondim_time: datetime64[%s] array' % unit, hexs(xu.datetime64_to_nondim_time(t, specs, r)), [want[i] for i in idx])
    # nondim_time_delta_from_time_axis
    steps = [int(x) for x in a['M'] if x > 0][:6]
    wax = coq_eval(ctx, _e_dt_axis(a))[0]
    for unit, per in (('ns', 10 ** 9), ('us', 10 ** 6), ('ms', 1000), ('s', 1)):
        got = []
        for st in steps:      # st minutes between samples
            ax = np.datetime64(a['ref']).astype('datetime64[%s]' % unit) + np.arange(3) * np.timedelta64(st * 60 * per, unit)
            got.append(float(xu.nondim_time_delta_from_time_axis(ax, specs)))
        _bits_equal('nondim_time_delta_from_time_axis: datetime64[%s] axis' % unit, ctx, got, wax)
    got = [float(xu.nondim_time_delta_from_time_axis(np.datetime64(a['ref'], 'm') + np.arange(2) * np.timedelta64(st, 'm'), specs)) for st in steps]
    _bits_equal('nondim_time_delta_from_time_axis: datetime64[m] axis of length 2', ctx, got, wax)
    got = [float(xu.nondim_time_delta_from_time_axis((np.arange(4) * st * 60).astype('timedelta64[s]'), specs)) for st in steps]
    _bits_equal('nondim_time_delta_from_time_axis: timedelta64[s] axis', ctx, got, wax)
    got = [float(xu.nondim_time_delta_from_time_axis(np.arange(3) * st * 60, specs)) for st in steps]
    _bits_equal('nondim_time_delta_from_time_axis: integer axis counts seconds', ctx, got, wax)
    for dt in (np.float32, np.float64):
        ax = np.array([0.5, 0.75, 1.0], dtype=dt)
        ctx.exact('float time axis passes through (%s)' % dt.__name__, float(xu.nondim_time_delta_from_time_axis(ax, specs)), 0.25)


def r_sim_time(ctx, a):
    """xarray_utils.with_sim_time: datetime64 time coordinate (xarray stores [ns]), sample axis,
    float time, existing sim_time."""
    import xarray
    xu = J()[2]
    specs, S, T = _specs(a['scale'])
    ref = np.datetime64(a['ref']); n = a['n']
    times = _sim_times(a)
    M = [int(x) for x in ((times - ref) / np.timedelta64(1, 'm'))]
    res = coq_eval(ctx, _e_sim_time(a))[0]
    if res is None or len(res) != 3 * n:
        ctx.exact('dt_trace model evaluation', 'ok', 'failed'); return
    want = [float(x) for x in res[0::3]]
    ds = xarray.Dataset({'a': (('time', 'x'), np.zeros((n, 2)))}, coords={'time': times})
    out = xu.with_sim_time(ds, specs, ref)
    _bits_equal('with_sim_time: sim_time of a datetime64 axis', ctx, out.sim_time.values, want)
    for unit in ('ns', 's', 'm'):       # entry k of sim_time must be the model time of entry k of the (possibly uneven) axis
        dsu = xarray.Dataset({'a': (('time',), np.zeros(n))}, coords={'time': times.astype('datetime64[%s]' % unit)})
        st = np.asarray(xu.with_sim_time(dsu, specs, ref).sim_time.values, dtype=np.float64)
        back = xu.nondim_time_to_datetime64(st, specs, ref.astype('datetime64[m]'))
        bad = [k for k in range(n) if back[k] != times[k].astype('datetime64[m]')] if st.shape == (n,) else ['shape']
        ctx.oracle('sim_time[k] is the model time of time[k]: nondim_time_to_datetime64 recovers every stamp at minute resolution',
                   not bad, {'unit': unit, 'k': bad[:3], 'time': [str(x) for x in times], 'recovered': [str(x) for x in back]})
        _bits_equal('with_sim_time: sim_time of a datetime64[%s] axis, entry by entry' % unit, ctx, st, want)
    ctx.exact('with_sim_time: dims', list(out.sim_time.dims), ['time'])
    ds2 = xarray.Dataset({'a': (('sample', 'time'), np.zeros((3, n)))}, coords={'time': times, 'sample': [0, 1, 2]})
    out2 = xu.with_sim_time(ds2, specs, ref)
    ctx.exact('with_sim_time: sample axis dims/shape', [list(out2.sim_time.dims), list(out2.sim_time.shape)], [['sample', 'time'], [3, n]])
    _bits_equal('with_sim_time: every sample carries the same sim_time', ctx, out2.sim_time.values.ravel(), want * 3)
    keep = np.arange(n) * 1.5 + 7
    out3 = xu.with_sim_time(ds.assign(sim_time=('time', keep)), specs, ref)
    ctx.exact('with_sim_time: an existing sim_time is kept', out3.sim_time.values.tolist(), keep.tolist())
    dsf = xarray.Dataset({'a': (('time',), np.zeros(n))}, coords={'time': np.linspace(0.0, 1.0, n)})
    ctx.exact('with_sim_time: float time is already non-dimensional', xu.with_sim_time(dsf, specs, ref).sim_time.values.tolist(), np.linspace(0.0, 1.0, n).tolist())
    ctx.exact('ds_with_sim_time alias', xu.ds_with_sim_time is xu.with_sim_time, True)


def r_timezones(ctx, a):
    """The conversions must not depend on the time zone of the process: TZ is set to a zone with
    daylight saving, the calendar <-> model-time round trip, datetime64-vs-datetime equality and the
    phase oracles are evaluated with np.datetime64 and datetime.datetime in every argument
    position, and the zone is restored afterwards."""
    import time as _time
    scales, pe, xu, radiation = J()
    specs, S, T = _specs(a['scale'])
    Ti = _T_independent(a['scale']); twopi = 2 * np.pi
    old = os.environ.get('TZ')
    try:
        os.environ['TZ'] = a['tz']; _time.tzset()
        ctx.count('tz:utc_offset_s=%d' % (-_time.timezone))
        st64 = [np.datetime64(x, 'm') for x in a['stamps']]
        epoch = datetime.datetime(1970, 1, 1)
        stdt = [epoch + datetime.timedelta(minutes=int((x - np.datetime64('1970-01-01T00:00', 'm')) / np.timedelta64(1, 'm'))) for x in st64]
        for x64, xdt in zip(st64, stdt):
            got = radiation.datetime64_to_datetime(x64)
            ctx.oracle('datetime64_to_datetime returns the same (UTC, naive) calendar stamp in every process time zone',
                       got == xdt, {'tz': a['tz'], 'stamp': str(x64), 'got': got.isoformat()})
        from dinosaur import coordinate_systems, spherical_harmonic, sigma_coordinates
        coords = coordinate_systems.CoordinateSystem(spherical_harmonic.Grid.with_wavenumbers(8), sigma_coordinates.SigmaCoordinates.equidistant(1))
        n = len(st64)
        for i in range(n):
            j = (i + 1) % n if i % 2 else (i + 5) % n       # neighbours across a switch and far-apart pairs
            w64, wdt, r64, rdt = st64[i], stdt[i], st64[j], stdt[j]
            mins = int((w64 - r64) / np.timedelta64(1, 'm'))
            tt_ind = mins * 60.0 / Ti
            vals = {}
            for nm, w, r in (('when64/ref64', w64, r64), ('when64/refdt', w64, rdt), ('whendt/ref64', wdt, r64), ('whendt/refdt', wdt, rdt)):
                v = float(radiation.datetime_to_time(w, specs, r)); vals[nm] = v
                det = {'tz': a['tz'], 'when': str(w64), 'reference': str(r64), 'types': nm, 'time': v, 'expected': tt_ind}
                ctx.oracle('datetime_to_time = elapsed seconds / T for datetime64 and datetime arguments alike, in every process time zone',
                           abs(v - tt_ind) <= 2.0 ** -40 * (abs(tt_ind) + 1.0), det)
                back = xu.nondim_time_to_datetime64(np.asarray([v]), specs, r64)[0]
                ctx.oracle('calendar times survive the model-time round trip at minute resolution', back == w64,
                           dict(det, recovered=str(back)))
            ctx.oracle('a datetime64 stamp and the equal datetime stamp give the same model time',
                       len({x.hex() for x in vals.values()}) == 1, {'tz': a['tz'], 'when': str(w64), 'reference': str(r64), 'times': vals})
            # pure numpy helpers under the same zone
            nd = xu.datetime64_to_nondim_time(np.asarray([w64]), specs, r64)
            ctx.oracle('calendar times survive the model-time round trip at minute resolution',
                       xu.nondim_time_to_datetime64(nd, specs, r64)[0] == w64, {'tz': a['tz'], 'when': str(w64), 'reference': str(r64), 'via': 'xarray_utils'})
            if i % 3 == 0:
                # phases against elapsed time and the calendar, reference given in both types
                fod = (60 * rdt.hour + rdt.minute) / 1440.0
                leap = (rdt.year % 4 == 0 and (rdt.year % 100 != 0 or rdt.year % 400 == 0))
                ref_o = twopi * ((rdt.date() - datetime.date(rdt.year, 1, 1)).days + fod) / (366 if leap else 365); ref_s = twopi * fod
                cal_s = twopi * (60 * wdt.hour + wdt.minute) / 1440.0
                for nm, r in (('ref64', r64), ('refdt', rdt)):
                    sr = radiation.SolarRadiation(coords, specs, r)
                    got_ref = [float(sr.reference_orbital_time.orbital_phase), float(sr.reference_orbital_time.synodic_phase)]
                    ctx.oracle('reference phases equal their calendar definitions in every process time zone',
                               abs(got_ref[0] - ref_o) <= 2.0 ** -40 * twopi and abs(got_ref[1] - ref_s) <= 2.0 ** -40 * twopi,
                               {'tz': a['tz'], 'reference': str(r64), 'type': nm, 'got': got_ref, 'expected': [ref_o, ref_s]})
                    for wn, w in (('when64', w64), ('whendt', wdt)):
                        tt = float(sr.datetime_to_time(w))
                        ps = float(sr.time_to_orbital_time(tt).synodic_phase)
                        dd = (ps - cal_s) / twopi
                        ctx.oracle('synodic phase of elapsed time agrees with the calendar (mod 2 pi)',
                                   abs(dd - round(dd)) * twopi <= 2.0 ** -30 * (abs(twopi * Ti / 86400.0 * tt) + twopi),
                                   {'tz': a['tz'], 'when': str(w64), 'reference': str(r64), 'types': wn + '/' + nm, 'phase': ps, 'calendar_phase': cal_s})
    finally:
        if old is None: os.environ.pop('TZ', None)
        else: os.environ['TZ'] = old
        _time.tzset()


def r_purity(ctx, a):
    """Same objects evaluated repeatedly and interleaved: bit-identical results, nothing cached is
    mutated, two SolarRadiation objects differing only in the reference date in both orders."""
    scales, pe, xu, radiation = J()
    sp_a, S_a, T_a = _specs('default'); sp_b, S_b, T_b = _specs('hour')
    td = np.asarray(a['s'], dtype=np.int64).astype('timedelta64[s]')
    before = [float(scales.DEFAULT_SCALE[d].magnitude).hex() for d in DIMS[:4]] + [repr(scales.DEFAULT_SCALE)]
    hexs = lambda x: [float(v).hex() for v in np.asarray(x, dtype=np.float64).ravel()]
    r1 = hexs(sp_a.nondimensionalize_timedelta64(td)); q1 = hexs(sp_b.nondimensionalize_timedelta64(td))
    b1 = sp_a.dimensionalize_timedelta64(sp_a.nondimensionalize_timedelta64(td)).astype(np.int64).tolist()
    r2 = hexs(sp_a.nondimensionalize_timedelta64(td)); q2 = hexs(sp_b.nondimensionalize_timedelta64(td))
    ctx.exact('repeated / interleaved calls are bit-identical', [r1, q1], [r2, q2])
    ctx.exact('two scales in one process do not leak into each other', r1 == q1, False)
    ctx.exact('round trip under the first scale after using the second', b1, [int(x) for x in a['s']])
    q = 9.80616 * scales.units.m / scales.units.s ** 2
    v1 = float(S_a.nondimensionalize(q)); w1 = float(S_b.nondimensionalize(q)); v2 = float(S_a.nondimensionalize(q))
    ctx.exact('Scale.nondimensionalize is pure', v1.hex(), v2.hex())
    ctx.oracle_close('g under the default scale = g * T^2 / a', [v1], [9.80616 * _T_independent('default') ** 2 / 6.37122e6], scale=v1, tol_rel=2.0 ** -40)
    ctx.oracle_close('g under the km/hour scale = g * T^2 / a', [w1], [9.80616 * 3600.0 ** 2 / 1000.0], scale=w1, tol_rel=2.0 ** -40)
    after = [float(scales.DEFAULT_SCALE[d].magnitude).hex() for d in DIMS[:4]] + [repr(scales.DEFAULT_SCALE)]
    ctx.exact('DEFAULT_SCALE is not modified by use', after, before)
    # SolarRadiation: two reference dates, both orders, repeated evaluation
    ra, rb = a['refs']
    from dinosaur import coordinate_systems, spherical_harmonic, sigma_coordinates
    coords = coordinate_systems.CoordinateSystem(spherical_harmonic.Grid.with_wavenumbers(8), sigma_coordinates.SigmaCoordinates.equidistant(1))
    def phases(sr):
        return [[float(sr.time_to_orbital_time(t).orbital_phase).hex(), float(sr.time_to_orbital_time(t).synodic_phase).hex()] for t in a['t']]
    A1 = radiation.SolarRadiation(coords, sp_a, np.datetime64(ra)); refA = [float(A1.reference_orbital_time.orbital_phase).hex(), float(A1.reference_orbital_time.synodic_phase).hex()]
    pA1 = phases(A1)
    B1 = radiation.SolarRadiation(coords, sp_a, np.datetime64(rb)); pB1 = phases(B1)
    pA2 = phases(A1)
    B2 = radiation.SolarRadiation(coords, sp_a, np.datetime64(rb)); A2 = radiation.SolarRadiation(coords, sp_a, np.datetime64(ra))
    ctx.exact('time_to_orbital_time: repeated evaluation, objects created in both orders', [pA1, pB1], [pA2, phases(B2)])
    ctx.exact('time_to_orbital_time: second object with the same reference', phases(A2), pA1)
    ctx.exact('reference_orbital_time is not modified by time_to_orbital_time',
              [float(A1.reference_orbital_time.orbital_phase).hex(), float(A1.reference_orbital_time.synodic_phase).hex()], refA)
    ctx.exact('different reference dates give different phases', pA1 == pB1, False)
    N = radiation.SolarRadiation.normalized(coords, sp_a, np.datetime64(ra))
    ctx.exact('SolarRadiation.normalized keeps the time arithmetic', phases(N), pA1)
    # the grid / number of levels must not matter for the time arithmetic
    sr_big, _, _ = _solar(ra, 'default')
    ctx.exact('time_to_orbital_time does not depend on the coordinate system', phases(sr_big), pA1)
    # numpy / jax scalar inputs
    import jax.numpy as jnp
    t0 = a['t'][0]
    got = [float(A1.time_to_orbital_time(f(t0)).synodic_phase) for f in (float, np.float64, jnp.asarray)]
    ctx.exact('time_to_orbital_time: python / numpy / jax scalar inputs', [x.hex() for x in got[1:]], [got[0].hex()] * 2)

# ---------------------------------------------------------------------------
# Part C
# ---------------------------------------------------------------------------
_sr = {}
def _solar(ref, sp):
    scales, pe, xu, radiation = J()
    key = (ref, repr(sp))
    if key not in _sr:
        from dinosaur import coordinate_systems, spherical_harmonic, sigma_coordinates
        specs, S, T = _specs(sp)
        coords = coordinate_systems.CoordinateSystem(spherical_harmonic.Grid.T21(), sigma_coordinates.SigmaCoordinates.equidistant(2))
        _sr[key] = (radiation.SolarRadiation(coords, specs, np.datetime64(ref)), specs, S)
    return _sr[key]


def _phase_cmp(ctx, name, impl, model, p, scale):
    """model is exact; the float floor may differ from the exact one next to a
    multiple of p, which shifts the result by p: accepted only there."""
    impl = float(impl); mod = float(model); tol = 2.0 ** -36 * scale
    if abs(impl - mod) <= tol or (abs(abs(impl - mod) - p) <= tol and min(mod, p - mod) <= tol):
        ctx.comparisons += 1; return True
    return ctx.corr(name, [impl], [model], scale=scale)


def r_phase(ctx, a):
    scales, pe, xu, radiation = J()
    sr, specs, S = _solar(a['ref'], a['scale'])
    twopi = 2 * np.pi
    names = ['year', 'day']; cv, ud = _table(names + ['second'])
    # rates = nondimensionalize(2 pi / year), (2 pi / day): Part A model
    sq, _ = _scale_quantities(TIME_SCALES[a['scale']] if a['scale'] in TIME_SCALES else a['scale'])
    sc = [float(S[d].magnitude) if d in S else 1.0 for d in DIMS]; has = [1 if d in S else 0 for d in DIMS]
    ints = [3, len(DIMS), 2] + [e for row in ud for e in row] + has + [-1, 0, 0, 0, -1, 0]
    mr = ctx.model.call(0, ints, [cv, sc, [twopi, twopi]])
    rate_o = float(sr.orbital_rate.orbital_phase); rate_s = float(sr.orbital_rate.synodic_phase)
    ctx.corr('orbital_rate = nondimensionalize(2 pi / year)', [rate_o], [mr[1]], scale=abs(rate_o))
    ctx.corr('synodic_rate = nondimensionalize(2 pi / day)', [rate_s], [mr[3]], scale=abs(rate_s))
    ref_o = float(sr.reference_orbital_time.orbital_phase); ref_s = float(sr.reference_orbital_time.synodic_phase)
    # independent reference values: calendar arithmetic of the standard library and the literal scale description
    Ti = _T_independent(a['scale'])
    d0 = datetime.datetime.fromisoformat(a['ref'])
    leap = (d0.year % 4 == 0 and (d0.year % 100 != 0 or d0.year % 400 == 0))
    fod = (60 * d0.hour + d0.minute) / 1440.0
    yday0 = (d0.date() - datetime.date(d0.year, 1, 1)).days
    ind = {'ref_o': twopi * (yday0 + fod) / (366 if leap else 365), 'ref_s': twopi * fod,
           'rate_o': twopi * Ti / 31557600.0, 'rate_s': twopi * Ti / 86400.0}
    for nm, got in (('ref_o', ref_o), ('ref_s', ref_s), ('rate_o', rate_o), ('rate_s', rate_s)):
        ctx.oracle_close('reference phases and rates equal their calendar / unit definitions (%s)' % nm, [got], [ind[nm]],
                         scale=abs(ind[nm]) + 1e-300, tol_rel=2.0 ** -40)
    ref_o, ref_s, rate_o, rate_s = ind['ref_o'], ind['ref_s'], ind['rate_o'], ind['rate_s']
    sr_dt = radiation.SolarRadiation(sr.coords, specs, d0)          # datetime.datetime instead of np.datetime64
    ctx.exact('SolarRadiation(reference as datetime) = SolarRadiation(reference as datetime64)',
              [float(sr_dt.reference_orbital_time.orbital_phase), float(sr_dt.reference_orbital_time.synodic_phase)],
              [float(sr.reference_orbital_time.orbital_phase), float(sr.reference_orbital_time.synodic_phase)])
    ts = [float(t) for t in a['t']]
    mo = ctx.model.call(4, [], [[twopi, ref_o, rate_o], ts]); ms = ctx.model.call(4, [], [[twopi, ref_s, rate_s], ts])
    worst = 0.0
    day = 86400.0 / Ti
    ctx.oracle_close('nondimensionalize(1 day) = 86400 s / T', [float(specs.nondimensionalize(1 * scales.units.day))], [day], scale=day, tol_rel=2.0 ** -40)
    for i, t in enumerate(ts):
        ot = sr.time_to_orbital_time(t)
        po = float(ot.orbital_phase); ps = float(ot.synodic_phase)
        _phase_cmp(ctx, 'time_to_orbital_time.orbital_phase', po, mo[i], twopi, abs(ref_o) + abs(rate_o * t) + twopi)
        _phase_cmp(ctx, 'time_to_orbital_time.synodic_phase', ps, ms[i], twopi, abs(ref_s) + abs(rate_s * t) + twopi)
        # property clauses
        for nm, ph in (('orbital', po), ('synodic', ps)):
            ctx.oracle('phases are reduced to [0, 2 pi)  (float caveat: <= fl(2 pi) accepted)', 0.0 <= ph <= twopi,
                       {'t': t, 'which': nm, 'phase': ph})
            if ph == twopi: ctx.count('phase:equal_to_fl(2pi)')
            worst = max(worst, ph)
        for nm, ph, ref, rate in (('orbital', po, ref_o, rate_o), ('synodic', ps, ref_s, rate_s)):
            x = ref + rate * t
            kk = (x - ph) / twopi
            sc_ = abs(ref) + abs(rate * t) + twopi
            ctx.oracle('phase differs from reference + rate * time by an integer multiple of 2 pi',
                       abs(kk - round(kk)) * twopi <= 2.0 ** -36 * sc_, {'t': t, 'which': nm, 'phase': ph, 'unreduced': x})
        # one more day: synodic phase returns, orbital phase advances by rate * day
        ot2 = sr.time_to_orbital_time(t + day)
        d_s = (float(ot2.synodic_phase) - ps) / twopi
        sc_ = abs(ref_s) + abs(rate_s * (abs(t) + day)) + twopi
        ctx.oracle('synodic phase is periodic in one day of elapsed time', abs(d_s - round(d_s)) * twopi <= 2.0 ** -34 * sc_,
                   {'t': t, 'phase': ps, 'phase_next_day': float(ot2.synodic_phase)})
        d_o = (float(ot2.orbital_phase) - po - rate_o * day) / twopi
        ctx.oracle('orbital phase advances by rate * elapsed time (mod 2 pi)', abs(d_o - round(d_o)) * twopi <= 2.0 ** -34 * sc_,
                   {'t': t, 'phase': po, 'phase_next_day': float(ot2.orbital_phase)})
    ctx.notes.append('largest reduced phase seen: 2pi - %.3e' % (twopi - worst))
    # calendar consistency: time of a datetime -> synodic phase equals the calendar's synodic phase
    mins = int(abs(ts[-1]) * 7) % 5000000
    when = np.datetime64(a['ref']) + np.timedelta64(mins, 'm')
    when_dt = d0 + datetime.timedelta(minutes=mins)
    tt_ind = mins * 60.0 / Ti
    forms = {'datetime64/ref datetime': sr_dt.datetime_to_time(when), 'datetime/ref datetime': sr_dt.datetime_to_time(when_dt),
             'datetime64/ref datetime64': radiation.datetime_to_time(when, specs, np.datetime64(a['ref'])),
             'datetime/ref datetime64': radiation.datetime_to_time(when_dt, specs, np.datetime64(a['ref'])),
             'with seconds': radiation.datetime_to_time(when_dt + datetime.timedelta(seconds=47), specs, d0) - 47.0 / Ti}
    for nm, v in forms.items():
        ctx.oracle_close('datetime_to_time = elapsed seconds / T (%s)' % nm, [float(v)], [tt_ind], scale=abs(tt_ind) + 1.0, tol_rel=2.0 ** -40)
    tt = sr.datetime_to_time(when)
    got = float(sr.time_to_orbital_time(float(tt)).synodic_phase)
    cal = twopi * (((60 * when_dt.hour + when_dt.minute)) / 1440.0)
    ctx.oracle_close('datetime_to_orbital_time synodic phase = 2 pi * minutes of the day / 1440',
                     [float(radiation.datetime_to_orbital_time(when_dt).synodic_phase)], [cal], scale=twopi, tol_rel=2.0 ** -40)
    dd = (got - cal) / twopi
    ctx.oracle('synodic phase of elapsed time agrees with the calendar (mod 2 pi)', abs(dd - round(dd)) * twopi <= 2.0 ** -30 * (abs(rate_s * tt) + twopi),
               {'when': str(when), 'time': float(tt), 'phase': got, 'calendar_phase': cal})


def r_calendar_phase(ctx, a):
    scales, pe, xu, radiation = J()
    twopi = 2 * np.pi
    for ds in a['dates']:
        d = datetime.datetime.strptime(ds, '%Y-%m-%dT%H:%M')
        ot = radiation.datetime_to_orbital_time(d)
        diy = radiation.days_in_year(d)
        leap = (d.year % 4 == 0 and (d.year % 100 != 0 or d.year % 400 == 0))
        ctx.exact('days_in_year', int(diy), 366 if leap else 365)
        m = ctx.model.call(5, [d.timetuple().tm_yday, 366 if leap else 365, d.hour, d.minute], [[twopi]])
        ctx.corr('datetime_to_orbital_time', [float(ot.orbital_phase), float(ot.synodic_phase)], m, scale=twopi)
        ctx.oracle('phases are reduced to [0, 2 pi)  (float caveat: <= fl(2 pi) accepted)',
                   0.0 <= float(ot.orbital_phase) < twopi and 0.0 <= float(ot.synodic_phase) < twopi, {'date': ds})
        d64 = radiation.datetime64_to_datetime(np.datetime64(ds))
        ctx.exact('datetime64_to_datetime', d64.isoformat(), d.isoformat())


RUNNERS = {'timezones': r_timezones, 'offset_units': r_offset_units, 'scale_api': r_scale_api, 'td_forms': r_td_forms, 'dt_forms': r_dt_forms,
           'sim_time': r_sim_time, 'purity': r_purity, 'units': r_units, 'td_dim': r_td_dim, 'td_dense': r_td_dense, 'td_trace': r_td_trace, 'td_oracle': r_td_oracle,
           'dt_trace': r_dt_trace, 'dt_dense': r_dt_dense, 'dt_oracle': r_dt_oracle, 'time_axis': r_time_axis,
           'phase': r_phase, 'calendar_phase': r_calendar_phase}
